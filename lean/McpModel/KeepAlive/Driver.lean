import McpModel.Base.Proto
import McpModel.KeepAlive.Monitor
import McpModel.KeepAlive.PeerReading
import McpModel.KeepAlive.Starve
/-!
Driver for E9 (C13).  One record = one keep-alive scenario under virtual time.

op tokens:
  `ka  I=<interval ns> T=<configured threshold> script=<s1,s2,…|-> cancel=<instant ns>`   scripted keepaliveSession
  `kas side=<client|server> I=… T=… script=… cancel=…`                                    real session, scripted peer
  `kss side=<c|s> I=… T=… script=<observed outcomes> cancel=<first Close call> at=<s1|->,<s2> scn=…`
        stream `sessions`: a real client/server pair over faulting transports.  `script` lists, per tick,
        the result the session's Ping actually had (`a<d>` nil after d · `m<d>` method-not-found ·
        `e<d>` another error) or `x` (no ping was attempted on that tick); `cancel` is the instant (own
        time of that side) at which the session's Close was first called from outside the loop; `at`
        are the instants at which the existence of the keep-alive goroutine was sampled; `scn` (the
        scenario, for the harness's replay) is ignored here.
  script element: `a<d>` answer after d ns · `m<d>` method-not-found after d · `e<d>` other error after d ·
                  `n` never reacts — all through a Ping that returns at its deadline at the latest;
                  `A<d>` `M<d>` `E<d>`: the same results from a Ping that OVERRUNS: it returns after d
                  whatever its deadline (its write is blocked while the peer does not read).  In `kss` the
                  capital letter is the harness's finding that the ping returned the moment its blocked
                  transport write returned.  `tmnf=<ticks|->` (stream `http`): the ticks at which the foreign server
                  reported ping as unsupported on a transient HTTP status.  Further tokens are ignored.
observation:
  `pings=<instants|-> to=<time each ping was given until its deadline: one value if all equal, else v1/v2/… | -> close=<instants of Close|-> exit=<0|1> late=<n>`
  (`to`, `exit`, `late` are `-`/`1`/`0` for `kas`, where they cannot be observed from the peer).
  `kss` adds ` warn=<instants of the tolerated-miss log records|-> shut=<instant the transport connection was closed|->
  live=<a1|-><a2> wblk=<t|->` (goroutine present at s1 / s2); `close` = instants of the "closing session" log record;
  `wblk`: when keep-alive reported closing, a transport write of that side was blocked until t (the
  session's Close waits for it).
  `shut` and `wblk` depend on the peer and the transport, not on the loop: the model line copies them, the monitor checks `shut`.

This file is the STRING LAYER only: token parser (`parseScenario`, `parseSess`, `parseObs`), renderer
(`renderObs`) and clause texts (`Clause.text`).  The model line is `KeepAlive.modelObs` (Monitor.lean:
`runCancel`, `warnsCancel`, `endAt`) rendered; the monitor is `KeepAlive.monitor` (Monitor.lean), bridged
to the model by Bridge.lean and to the property text by Sound.lean.  The string layer is checked at run
time on every record: the model's observation must survive rendering and parsing (`LIBDISC render/parse`
otherwise).
-/
namespace KeepAlive
open Proto

def kv (toks : List String) (k : String) : Option String :=
  toks.findSome? fun t => if t.startsWith (k ++ "=") then some ((t.drop (k.length + 1)).toString) else none

def parseScript (s : String) : Option Script :=
  if s == "n" then some { kind := .answer, delay := none }
  else if s == "x" then some { kind := .answer, delay := some 0 }  -- nothing observed: a running loop had to ping
  else
    let d := ((s.drop 1).toString).toNat?
    match s.front, d with
    | 'a', some d => some { kind := .answer, delay := some d }
    | 'm', some d => some { kind := .mnf, delay := some d }
    | 'e', some d => some { kind := .error, delay := some d }
    | 'A', some d => some { kind := .answer, delay := some d, honours := false }
    | 'M', some d => some { kind := .mnf, delay := some d, honours := false }
    | 'E', some d => some { kind := .error, delay := some d, honours := false }
    | _, _ => none

def parseScripts (s : String) : Option (List Script) :=
  if s == "-" then some [] else (s.splitOn ",").mapM parseScript

def natList (s : String) : Option (List Nat) :=
  if s == "-" then some [] else (s.splitOn ",").mapM String.toNat?

def showNats (l : List Nat) : String := if l.isEmpty then "-" else ",".intercalate (l.map toString)

def parseScenario (real : Bool) (toks : List String) : Option Scenario := do
  let I ← (← kv toks "I").toNat?
  let t0 ← (← kv toks "T").toInt?
  let scripts ← parseScripts (← kv toks "script")
  let tc ← (← kv toks "cancel").toNat?
  let tmnf ← match kv toks "tmnf" with
    | some v => natList v
    | none => some []
  -- a record that says what the peer / the transport did with each ping (`wire=`): its outcome pattern must be
  -- the property's reading of that (PeerReading.lean: `reading`), not one of the harness's own making
  let wireOk : Bool := match kv toks "wire" with
    | none => true
    | some w => match (parseMode (kv toks "mode")).bind fun mode => parseWire mode w with
      | some ws => decide (readWire ws = scripts)
      | none => false
  if I == 0 || !wireOk then none else
  return { real := real, I := I, t0 := t0, scripts := scripts, tc := tc, transientMnf := tmnf }

def parseSess (toks : List String) : Option Scenario := do
  let sc ← parseScenario false toks
  match (← kv toks "at").splitOn "," with
  | [a, b] =>
    let at2 ← b.toNat?
    let at1 ← if a == "-" then some none else a.toNat?.map some
    if sc.tc == 0 then none else
    return { sc with sess := true, at1 := at1, at2 := at2 }
  | _ => none

/-! ### The observation -/

def parseDeadlines (to : String) : Deadlines :=
  if to == "-" then .none
  else match to.splitOn "/" with
    | [v] => match v.toInt? with
      | some x => .all x
      | none => .each [none]
    | vs => .each (vs.map String.toInt?)

def showDeadlines : Deadlines → String
  | .none => "-"
  | .all v => toString v
  | .each vs => "/".intercalate (vs.map fun v => match v with
    | some x => toString x
    | none => "?")

def parseLive (c : Char) : Live :=
  if c == '1' then .yes else if c == '0' then .no else if c == '-' then .unsampled else .bad

def showLive : Live → String
  | .yes => "1" | .no => "0" | .unsampled => "-" | .bad => "?"

def parseSessObs (o : List String) : Option SessObs :=
  match (kv o "warn").bind natList, kv o "shut", kv o "live" with
  | some warn, some shut, some live =>
    let cs := live.toList
    some { warn := warn, shut := shut.toNat?
           live1 := parseLive (cs.headD '?'), live2 := parseLive ((cs.drop 1).headD '?')
           liveOk := cs.length == 2, liveRaw := live
           wblk := (kv o "wblk").bind String.toNat? }
  | _, _, _ => none

def parseObs (impl : String) : Option Obs :=
  let o := words impl
  match (kv o "pings").bind natList, kv o "to", (kv o "close").bind natList, kv o "exit", kv o "late" with
  | some pings, some to, some closes, some exit, some late =>
    some { pings := pings, to := parseDeadlines to, closes := closes, exit := exit == "1", quietAfter := late == "0",
           sess := parseSessObs o }
  | _, _, _, _, _ => none

def renderObs (o : Obs) : String :=
  let base := s!"pings={showNats o.pings} to={showDeadlines o.to} close={showNats o.closes} exit={if o.exit then "1" else "0"} late={if o.quietAfter then "0" else "1"}"
  match o.sess with
  | none => base
  | some so =>
    let shut := match so.shut with
      | some n => toString n
      | none => "-"
    let wblk := match so.wblk with
      | some w => toString w
      | none => "-"
    s!"{base} warn={showNats so.warn} shut={shut} live={showLive so.live1}{showLive so.live2} wblk={wblk}"

/-! ### Clause texts (the monitor itself is Monitor.lean) -/

def Why.text : Why → String
  | .cancelled tc => s!"the session's Close was called at {tc}"
  | .closedAt m => s!"keep-alive closed the session at tick {m}"
  | .unsupportedAt m => s!"the peer reported ping as unsupported at tick {m}"

def showOptInt : Option Int → String
  | some x => toString x
  | none => "?"

def Clause.text : Clause → String
  | .notClosed k T => s!"closes_iff_T_consecutive: pings {k + 1 - T}..{k} all failed (threshold {T}) but the session was not closed"
  | .closedAfterAnswer c n start T => s!"answer_resets: closed at {c} right after ping {n} (issued at {start}), which the peer answers within its ping timeout (threshold {T}); a peer that answers is never closed by keep-alive"
  | .closedFewFails c m T => s!"answer_resets: closed at {c} after only {m} consecutive failed pings (threshold {T}); an answered ping resets the count"
  | .closedNoRun c T => s!"closes_iff_T_consecutive: closed at {c} although no {T} consecutive pings failed before the loop had to stop"
  | .closedWrongPing c n T k pk => s!"closes_iff_T_consecutive: closed at {c} after {n} pings; consecutive failure number {T} is ping {k} at {pk}"
  | .closedBeforePing c k pk => s!"close_time_bound: closed at {c}, before ping {k} was issued at {pk}"
  | .closedLateOverran c bound k => s!"close_time_bound: closed at {c}, later than the end ({bound}) of ping {k}, whose write was blocked until then"
  | .closedLate c k pk => s!"close_time_bound: closed at {c}, later than one ping timeout (I/2) after ping {k} was issued at {pk}"
  | .closedTimes n => s!"closes_iff_T_consecutive: Close called {n} times"
  | .wentOn m pings => s!"silent_stop: the loop went on pinging after it had to end with ping {m} (pings at {showNats pings})"
  | .ticksGrid pings m I => s!"pings_at_ticks: pings at {showNats pings}, expected one at each of the first {m} ticks of {I}"
  | .ticksPending pings want I => s!"pings_at_ticks: pings at {showNats pings}, expected {showNats want}: one per tick of {I}, a tick that fires during a ping being served when that ping is over"
  | .f30 stop tc start => s!"silent_stop: keepalive-F30: keep-alive sent a ping at {stop} although it was cancelled (the session's Close was called) at {tc}: the ping issued at {start} was in flight then and ended at {stop} with a tick pending, and the loop served the tick instead of the cancellation; keep-alive ends when the session is closed"
  | .f31 m pings closes => s!"silent_stop: keepalive-F31: the peer reported ping as unsupported (JSON-RPC -32601) at tick {m} on a transient HTTP status (500/502/503/504/429) and keep-alive did not end there (pings at {showNats pings}, closed at {showNats closes}): the streamable client drops the error body of a transient status, so the answer is counted as a miss; keep-alive ends silently when the peer reports ping as unsupported"
  | .deadlineAll v I => s!"close_time_bound: the ping deadline is {v}, not half the interval ({I / 2})"
  | .deadlineShort j at_ v I =>
    let a := (at_.map toString).getD "?"
    s!"answer_resets: ping {j + 1} (issued at {a}) was given {showOptInt v} until its deadline, not a fresh ping timeout of half the interval ({I / 2}); a ping the peer answers within the ping timeout must not count as a miss"
  | .deadlineLong j at_ v I =>
    let a := (at_.map toString).getD "?"
    s!"close_time_bound: ping {j + 1} (issued at {a}) was given {showOptInt v} until its deadline, not half the interval ({I / 2})"
  | .notQuiet => "silent_stop: the keep-alive goroutine or its ticker is still active after the loop ended"
  | .pingLong j d I => s!"ping_done_before_next_tick: ping {j + 1} lasted {d}, longer than its deadline of half an interval ({I / 2}), although its transport write was not blocked then"
  | .pingAfterClose p tc => s!"silent_stop: keep-alive sent a ping at {p} although the session's Close was called at {tc}; keep-alive ends when the session is closed"
  | .loggedAfterEnd w due why => s!"silent_stop: keep-alive logged a failed ping at {w}, after it had to end at {due} ({why.text}); keep-alive ends silently"
  | .shutLate c sh => s!"closes_iff_T_consecutive: keep-alive reported closing the session at {c} but its connection was only closed at {sh}, although no transport write was blocked until then"
  | .shutNever c => s!"closes_iff_T_consecutive: keep-alive reported closing the session at {c} but its connection was never closed"
  | .goroutineLeft t due why => s!"silent_stop: the keep-alive goroutine (and its ticker) still exists at {t} although keep-alive had to end at {due} ({why.text}); no timer or goroutine may be left behind"
  | .goroutineGone t due => s!"pings_at_ticks: the keep-alive goroutine is gone at {t} although the session is open and keep-alive only ends at {due}"
  | .badLive live => s!"bad-observation: live={live}"
  | .badSess => "bad-observation: warn/shut/live missing"

/-- Run-time self-check of the string layer: the model's observation must survive rendering and parsing
(`liveRaw` is not part of the rendering). -/
def selfCheck (m : Obs) : Option String :=
  let norm (o : Obs) : Obs := { o with sess := o.sess.map fun so => { so with liveRaw := "" } }
  if (parseObs (renderObs m)).map norm == some (norm m) then none
  else some "LIBDISC render/parse: the model's observation does not survive the string layer"

def parseBusyEl (s : String) : Option Busy :=
  match s.splitOn "@" with
  | [k, r] => match r.splitOn "+" with
    | [f, d] => do
      let f ← f.toNat?
      let d ← d.toNat?
      return { kind := k, from_ := f, dur := d }
    | _ => none
  | _ => none

/-- `busy=<kind>@<from>+<dur>;…` (absent: no other session) -/
def parseBusy (toks : List String) : Option (List Busy) :=
  match kv toks "busy" with
  | none => some []
  | some "-" => some []
  | some v => (v.splitOn ";").mapM parseBusyEl

def Clause2.text (frames : String) (I : Nat) : Clause2 → String
  | .base c => c.text
  | .starved k due b =>
    let who := match b with
      | some x => s!"while the {x.kind} handler of ANOTHER session of the same Server/Client value is running (parked from {x.from_} until {x.from_ + x.dur})"
      | none => "while no handler of another session was scripted to run"
    s!"answer_resets/close_time_bound: keep-alive starved: ping {k} of this session, due at {due}, could not start — its goroutine waits for a lock in {frames} {who}; every goroutine is blocked and the ping's timeout ({I / 2}) runs out before a byte is written, so a peer that answers would be counted as missing and a dead peer is detected late; a keep-alive ping never waits for another session's handler (KeepAlive.Indep.never_stalled)"

def judge (sc : Scenario) (busy : List Busy) (impl : String) : Verdict :=
  let o := parseObs impl
  let m := modelObs sc (o.bind (·.sess))
  let frames := kv (words impl) "starved"
  let viol : Option String := match o with
    | none => some s!"bad-observation: {impl}"
    | some o => (monitor2 sc busy o frames.isSome).map (Clause2.text (frames.getD "?") sc.I)
  { model := renderObs m, violated := viol <|> selfCheck m }

def engine : Engine Unit where
  init := ()
  step _ toks impl :=
    match toks with
    | ["reset"] => ((), { model := "ok" })
    | kind :: rest =>
      if kind == "ka" ∨ kind == "kas" then
        match parseScenario (kind == "kas") rest, parseBusy rest with
        | some sc, some busy => ((), judge sc busy impl)
        | _, _ => ((), { model := "bad-op" })
      else if kind == "kss" then
        match parseSess rest with
        | none => ((), { model := "bad-op" })
        | some sc => ((), judge sc [] impl)
      else ((), { model := "bad-op" })
    | _ => ((), { model := "bad-op" })

end KeepAlive

def main : IO Unit := Proto.run KeepAlive.engine
