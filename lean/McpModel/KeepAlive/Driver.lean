import McpModel.Base.Proto
import McpModel.KeepAlive.Model
/-!
Driver for E9 (C13).  One record = one keep-alive scenario under virtual time.

op tokens:
  `ka  I=<interval ns> T=<configured threshold> script=<s1,s2,…|-> cancel=<instant ns>`   scripted keepaliveSession
  `kas side=<client|server> I=… T=… script=… cancel=…`                                    real session, scripted peer
  script element: `a<d>` answer after d ns · `m<d>` method-not-found after d · `e<d>` other error after d ·
                  `n` never reacts.  Further tokens are ignored.
observation:
  `pings=<instants|-> to=<ping deadline ns | - | mixed> close=<instants of Close|-> exit=<0|1> late=<n>`
  (`to`, `exit`, `late` are `-`/`1`/`0` for `kas`, where they cannot be observed from the peer).

The model line is `KeepAlive.runCancel` rendered.  The monitor is the property itself: literal
`I/2`, literal `max 1`, the closing tick found by searching for the first window of `T` consecutive
failures — independent of `KeepAlive.step` and of the regenerated expressions.
-/
namespace KeepAlive
open Proto

def kv (toks : List String) (k : String) : Option String :=
  toks.findSome? fun t => if t.startsWith (k ++ "=") then some ((t.drop (k.length + 1)).toString) else none

def parseScript (s : String) : Option Script :=
  if s == "n" then some { kind := .answer, delay := none }
  else
    let d := ((s.drop 1).toString).toNat?
    match s.front, d with
    | 'a', some d => some { kind := .answer, delay := some d }
    | 'm', some d => some { kind := .mnf, delay := some d }
    | 'e', some d => some { kind := .error, delay := some d }
    | _, _ => none

def parseScripts (s : String) : Option (List Script) :=
  if s == "-" then some [] else (s.splitOn ",").mapM parseScript

def natList (s : String) : Option (List Nat) :=
  if s == "-" then some [] else (s.splitOn ",").mapM String.toNat?

def showNats (l : List Nat) : String := if l.isEmpty then "-" else ",".intercalate (l.map toString)

structure Scenario where
  real : Bool
  I : Nat
  t0 : Int
  scripts : List Script
  tc : Nat

def parseScenario (real : Bool) (toks : List String) : Option Scenario := do
  let I ← (← kv toks "I").toNat?
  let t0 ← (← kv toks "T").toInt?
  let scripts ← parseScripts (← kv toks "script")
  let tc ← (← kv toks "cancel").toNat?
  if I == 0 then none else
  return { real := real, I := I, t0 := t0, scripts := scripts, tc := tc }

def modelObs (sc : Scenario) : String :=
  let s := runCancel sc.I sc.t0 sc.scripts sc.tc
  let close := match s.closeAt with
    | some c => toString c
    | none => "-"
  let to := if sc.real ∨ s.pings.isEmpty then "-" else toString (Generated.KeepAlive.pingTimeout sc.I)
  s!"pings={showNats s.pings} to={to} close={close} exit=1 late=0"

/-! ### The property monitor -/

/-- What the property says one ping amounts to: answered / method-not-found / failed, the latter also
when nothing came back within half an interval. 0 = answered, 1 = method-not-found, 2 = failed. -/
def specOutcome (I : Nat) (s : Script) : Nat :=
  match s.delay with
  | none => 2
  | some d =>
    if d < I / 2 then (match s.kind with | .answer => 0 | .mnf => 1 | .error => 2) else 2

/-- The tick at which the property requires `Close`: the least `k` such that outcomes
`k-T+1 … k` all failed, provided no method-not-found occurred up to `k`. -/
def specCloseTick (T : Nat) (os : List Nat) : Option Nat :=
  match (List.range (os.length + 1)).find? (fun k => T ≤ k && ((os.take k).drop (k - T)).all (· == 2)) with
  | some k => if (os.take k).any (· == 1) then none else some k
  | none => none

def trailingFails (os : List Nat) : Nat := (os.reverse.takeWhile (· == 2)).length

def monitor (sc : Scenario) (impl : String) : Option String :=
  let o := words impl
  match (kv o "pings").bind natList, kv o "to", (kv o "close").bind natList, kv o "exit", kv o "late" with
  | some pings, some to, some closes, some exit, some late =>
    let I := sc.I
    let T : Nat := if sc.t0 < 1 then 1 else sc.t0.toNat
    let n := (sc.tc - 1) / I
    let os := (sc.scripts.take n).map (specOutcome I)
    let kstar := specCloseTick T os
    let closing : Option String :=
      match kstar, closes with
      | none, [] => none
      | some k, [] => some s!"closes_iff_T_consecutive: pings {k + 1 - T}..{k} all failed (threshold {T}) but the session was not closed"
      | none, c :: _ =>
        let seen := os.take pings.length
        let m := trailingFails seen
        if 0 < m ∧ m < T ∧ (seen.drop (seen.length - T)).any (· == 0) then
          some s!"answer_resets: closed at {c} after only {m} consecutive failed pings (threshold {T}); an answered ping resets the count"
        else some s!"closes_iff_T_consecutive: closed at {c} although no {T} consecutive pings failed before the loop had to stop"
      | some k, [c] =>
        if pings.length < k ∨ (pings.length > k ∧ (c < k * I ∨ c ≥ (k + 1) * I)) then
          some s!"closes_iff_T_consecutive: closed at {c} after {pings.length} pings; consecutive failure number {T} is ping {k} at {k * I}"
        else if c < k * I then some s!"close_time_bound: closed at {c}, before tick {k} at {k * I}"
        else if c > k * I + I / 2 then
          some s!"close_time_bound: closed at {c}, later than one ping timeout (I/2) after tick {k} at {k * I}"
        else none
      | some _, _ => some s!"closes_iff_T_consecutive: Close called {closes.length} times"
    let m : Nat := match kstar with
      | some k => k
      | none => match os.findIdx? (· == 1) with
        | some j => j + 1
        | none => os.length
    let ticks : Option String :=
      if pings == (List.range m).map (fun j => (j + 1) * I) then none
      else if pings.length > m ∧ pings.take m == (List.range m).map (fun j => (j + 1) * I) then
        some s!"silent_stop: the loop went on pinging after it had to end at tick {m} (pings at {showNats pings})"
      else some s!"pings_at_ticks: pings at {showNats pings}, expected one at each of the first {m} ticks of {I}"
    let deadline : Option String :=
      if sc.real ∨ pings.isEmpty ∨ to == toString (I / 2) then none
      else some s!"close_time_bound: the ping deadline is {to}, not half the interval ({I / 2})"
    let quiet : Option String :=
      if exit == "1" ∧ late == "0" then none
      else some "silent_stop: the keep-alive goroutine or its ticker is still active after the loop ended"
    deadline <|> closing <|> ticks <|> quiet
  | _, _, _, _, _ => some s!"bad-observation: {impl}"

def engine : Engine Unit where
  init := ()
  step _ toks impl :=
    match toks with
    | ["reset"] => ((), { model := "ok" })
    | kind :: rest =>
      if kind == "ka" ∨ kind == "kas" then
        match parseScenario (kind == "kas") rest with
        | none => ((), { model := "bad-op" })
        | some sc => ((), { model := modelObs sc, violated := monitor sc impl })
      else ((), { model := "bad-op" })
    | _ => ((), { model := "bad-op" })

end KeepAlive

def main : IO Unit := Proto.run KeepAlive.engine
