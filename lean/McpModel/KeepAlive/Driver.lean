import McpModel.Base.Proto
import McpModel.KeepAlive.Model
/-!
Driver for E9 (C13).  One record = one keep-alive scenario under virtual time.

op tokens:
  `ka  I=<interval ns> T=<configured threshold> script=<s1,s2,…|-> cancel=<instant ns>`   scripted keepaliveSession
  `kas side=<client|server> I=… T=… script=… cancel=…`                                    real session, scripted peer
  `kss side=<c|s> I=… T=… script=<observed outcomes> cancel=<first Close call> at=<s1|->,<s2> scn=…`
        stream `sessions`: a real client/server pair over faulting transports.  `script` lists, per tick,
        the result the session's Ping actually had (`a<d>` nil after d · `m<d>` method-not-found ·
        `e<d>` another error) or `x` (no ping was attempted on that tick); `cancel` is the instant (own
        time of that side) at which the session's Close was first called from outside the loop; `at`
        are the instants at which the existence of the keep-alive goroutine was sampled; `scn` (the
        scenario, for the harness's replay) is ignored here.
  script element: `a<d>` answer after d ns · `m<d>` method-not-found after d · `e<d>` other error after d ·
                  `n` never reacts.  Further tokens are ignored.
observation:
  `pings=<instants|-> to=<ping deadline ns | - | mixed> close=<instants of Close|-> exit=<0|1> late=<n>`
  (`to`, `exit`, `late` are `-`/`1`/`0` for `kas`, where they cannot be observed from the peer).
  `kss` adds ` warn=<instants of the tolerated-miss log records|-> shut=<instant the transport connection was closed|->
  live=<a1|-><a2>` (goroutine present at s1 / s2); `close` = instants of the "closing session" log record.
  `shut` depends on the peer and the transport, not on the loop: the model line copies it, the monitor checks it.

The model line is `KeepAlive.runCancel` rendered.  The monitor is the property itself: literal
`I/2`, literal `max 1`, the closing tick found by searching for the first window of `T` consecutive
failures — independent of `KeepAlive.step` and of the regenerated expressions.
-/
namespace KeepAlive
open Proto

def kv (toks : List String) (k : String) : Option String :=
  toks.findSome? fun t => if t.startsWith (k ++ "=") then some ((t.drop (k.length + 1)).toString) else none

def parseScript (s : String) : Option Script :=
  if s == "n" then some { kind := .answer, delay := none }
  else if s == "x" then some { kind := .answer, delay := some 0 }  -- nothing observed: a running loop had to ping
  else
    let d := ((s.drop 1).toString).toNat?
    match s.front, d with
    | 'a', some d => some { kind := .answer, delay := some d }
    | 'm', some d => some { kind := .mnf, delay := some d }
    | 'e', some d => some { kind := .error, delay := some d }
    | _, _ => none

def parseScripts (s : String) : Option (List Script) :=
  if s == "-" then some [] else (s.splitOn ",").mapM parseScript

def natList (s : String) : Option (List Nat) :=
  if s == "-" then some [] else (s.splitOn ",").mapM String.toNat?

def showNats (l : List Nat) : String := if l.isEmpty then "-" else ",".intercalate (l.map toString)

structure Scenario where
  real : Bool
  I : Nat
  t0 : Int
  scripts : List Script
  tc : Nat
  sess : Bool := false
  at1 : Option Nat := none
  at2 : Nat := 0

def parseScenario (real : Bool) (toks : List String) : Option Scenario := do
  let I ← (← kv toks "I").toNat?
  let t0 ← (← kv toks "T").toInt?
  let scripts ← parseScripts (← kv toks "script")
  let tc ← (← kv toks "cancel").toNat?
  if I == 0 then none else
  return { real := real, I := I, t0 := t0, scripts := scripts, tc := tc }

def parseSess (toks : List String) : Option Scenario := do
  let sc ← parseScenario false toks
  match (← kv toks "at").splitOn "," with
  | [a, b] =>
    let at2 ← b.toNat?
    let at1 ← if a == "-" then some none else a.toNat?.map some
    if sc.tc == 0 then none else
    return { sc with sess := true, at1 := at1, at2 := at2 }
  | _ => none

def modelObs (sc : Scenario) (impl : String) : String :=
  let s := runCancel sc.I sc.t0 sc.scripts sc.tc
  let close := match s.closeAt with
    | some c => toString c
    | none => "-"
  let to := if sc.real ∨ s.pings.isEmpty then "-" else toString (Generated.KeepAlive.pingTimeout sc.I)
  let base := s!"pings={showNats s.pings} to={to} close={close} exit=1 late=0"
  if sc.sess then
    let e := endAt sc.I sc.t0 sc.scripts sc.tc
    let alive (t : Nat) : String := if t < e then "1" else "0"
    let a1 := match sc.at1 with
      | some t => alive t
      | none => "-"
    let shut := (kv (words impl) "shut").getD "?"
    s!"{base} warn={showNats (warnsCancel sc.I sc.t0 sc.scripts sc.tc)} shut={shut} live={a1}{alive sc.at2}"
  else base

/-! ### The property monitor -/

/-- What the property says one ping amounts to: answered / method-not-found / failed, the latter also
when nothing came back within half an interval. 0 = answered, 1 = method-not-found, 2 = failed. -/
def specOutcome (I : Nat) (s : Script) : Nat :=
  match s.delay with
  | none => 2
  | some d =>
    if d < I / 2 then (match s.kind with | .answer => 0 | .mnf => 1 | .error => 2) else 2

/-- The tick at which the property requires `Close`: the least `k` such that outcomes
`k-T+1 … k` all failed, provided no method-not-found occurred up to `k`. -/
def specCloseTick (T : Nat) (os : List Nat) : Option Nat :=
  match (List.range (os.length + 1)).find? (fun k => T ≤ k && ((os.take k).drop (k - T)).all (· == 2)) with
  | some k => if (os.take k).any (· == 1) then none else some k
  | none => none

def trailingFails (os : List Nat) : Nat := (os.reverse.takeWhile (· == 2)).length

/-- How long the property lets one ping last: the scripted delay, at most half an interval. -/
def specDur (I : Nat) (s : Script) : Nat :=
  match s.delay with
  | none => I / 2
  | some d => if d < I / 2 then d else I / 2

/-- The additional clauses of the stream `sessions` (the property's last sentence): after the
session's Close was called no ping is sent; nothing is logged and no goroutine is left once
keep-alive had to end — `due`: at the closing ping's end, at the end of the ping that reported
method-not-found, or at the Close call / the end of the ping in flight then; while it has not ended
the goroutine exists; a session that keep-alive reports as closed has its connection closed. -/
def monitorSess (sc : Scenario) (o : List String) (pings closes : List Nat) (kstar : Option Nat)
    (os : List Nat) (m : Nat) : Option String :=
  match (kv o "warn").bind natList, kv o "shut", kv o "live" with
  | some warn, some shut, some live =>
    let I := sc.I
    let tc := sc.tc
    let endOf (k : Nat) : Nat := if k = 0 then 0 else k * I + ((sc.scripts[k - 1]?).map (specDur I)).getD 0
    let byCancel : Bool := kstar.isNone ∧ ¬ os.any (· == 1)
    let due : Nat := if byCancel then max tc (endOf m) else endOf m
    let why : String :=
      if byCancel then s!"the session's Close was called at {tc}"
      else if kstar.isSome then s!"keep-alive closed the session at tick {m}"
      else s!"the peer reported ping as unsupported at tick {m}"
    let afterClose : Option String :=
      match pings.find? (· ≥ tc) with
      | some p => some s!"silent_stop: keep-alive sent a ping at {p} although the session's Close was called at {tc}; keep-alive ends when the session is closed"
      | none => none
    let logged : Option String :=
      match (warn ++ closes).find? (· > due) with
      | some w => some s!"silent_stop: keep-alive logged a failed ping at {w}, after it had to end at {due} ({why}); keep-alive ends silently"
      | none => none
    let shutc : Option String :=
      match closes with
      | c :: _ =>
        match shut.toNat? with
        | some sh => if sh ≤ c then none else some s!"closes_iff_T_consecutive: keep-alive reported closing the session at {c} but its connection was only closed at {sh}"
        | none => some s!"closes_iff_T_consecutive: keep-alive reported closing the session at {c} but its connection was never closed"
      | [] => none
    let flag (a : String) (t : Nat) : Option String :=
      if a == "1" ∧ t ≥ due then
        some s!"silent_stop: the keep-alive goroutine (and its ticker) still exists at {t} although keep-alive had to end at {due} ({why}); no timer or goroutine may be left behind"
      else if a == "0" ∧ t < due then
        some s!"pings_at_ticks: the keep-alive goroutine is gone at {t} although the session is open and keep-alive only ends at {due}"
      else if a == "0" ∨ a == "1" then none
      else some s!"bad-observation: live={live}"
    let chars := live.toList.map (fun c => String.singleton c)
    let livec : Option String :=
      match chars, sc.at1 with
      | [a1, a2], some t1 => flag a1 t1 <|> flag a2 sc.at2
      | [_, a2], none => flag a2 sc.at2
      | _, _ => some s!"bad-observation: live={live}"
    afterClose <|> logged <|> shutc <|> livec
  | _, _, _ => some "bad-observation: warn/shut/live missing"

def monitor (sc : Scenario) (impl : String) : Option String :=
  let o := words impl
  match (kv o "pings").bind natList, kv o "to", (kv o "close").bind natList, kv o "exit", kv o "late" with
  | some pings, some to, some closes, some exit, some late =>
    let I := sc.I
    let T : Nat := if sc.t0 < 1 then 1 else sc.t0.toNat
    let n := (sc.tc - 1) / I
    let os := (sc.scripts.take n).map (specOutcome I)
    let kstar := specCloseTick T os
    let closing : Option String :=
      match kstar, closes with
      | none, [] => none
      | some k, [] => some s!"closes_iff_T_consecutive: pings {k + 1 - T}..{k} all failed (threshold {T}) but the session was not closed"
      | none, c :: _ =>
        let seen := os.take pings.length
        let m := trailingFails seen
        if 0 < m ∧ m < T ∧ (seen.drop (seen.length - T)).any (· == 0) then
          some s!"answer_resets: closed at {c} after only {m} consecutive failed pings (threshold {T}); an answered ping resets the count"
        else some s!"closes_iff_T_consecutive: closed at {c} although no {T} consecutive pings failed before the loop had to stop"
      | some k, [c] =>
        if pings.length < k ∨ (pings.length > k ∧ (c < k * I ∨ c ≥ (k + 1) * I)) then
          some s!"closes_iff_T_consecutive: closed at {c} after {pings.length} pings; consecutive failure number {T} is ping {k} at {k * I}"
        else if c < k * I then some s!"close_time_bound: closed at {c}, before tick {k} at {k * I}"
        else if c > k * I + I / 2 then
          some s!"close_time_bound: closed at {c}, later than one ping timeout (I/2) after tick {k} at {k * I}"
        else none
      | some _, _ => some s!"closes_iff_T_consecutive: Close called {closes.length} times"
    let m : Nat := match kstar with
      | some k => k
      | none => match os.findIdx? (· == 1) with
        | some j => j + 1
        | none => os.length
    let ticks : Option String :=
      if pings == (List.range m).map (fun j => (j + 1) * I) then none
      else if pings.length > m ∧ pings.take m == (List.range m).map (fun j => (j + 1) * I) then
        some s!"silent_stop: the loop went on pinging after it had to end at tick {m} (pings at {showNats pings})"
      else some s!"pings_at_ticks: pings at {showNats pings}, expected one at each of the first {m} ticks of {I}"
    let deadline : Option String :=
      if sc.real ∨ pings.isEmpty ∨ to == toString (I / 2) then none
      else some s!"close_time_bound: the ping deadline is {to}, not half the interval ({I / 2})"
    let quiet : Option String :=
      if exit == "1" ∧ late == "0" then none
      else some "silent_stop: the keep-alive goroutine or its ticker is still active after the loop ended"
    let long : Option String :=
      if ¬ sc.sess then none else
      match (sc.scripts.zipIdx).find? (fun (s, _) => match s.delay with | some d => d > I / 2 | none => false) with
      | some (s, j) => some s!"ping_done_before_next_tick: ping {j + 1} lasted {s.delay.getD 0}, longer than its deadline of half an interval ({I / 2})"
      | none => none
    if sc.sess then
      deadline <|> long <|> (monitorSess sc o pings closes kstar os m).filter (·.startsWith "silent_stop: keep-alive sent")
        <|> closing <|> ticks <|> monitorSess sc o pings closes kstar os m <|> quiet
    else deadline <|> closing <|> ticks <|> quiet
  | _, _, _, _, _ => some s!"bad-observation: {impl}"

def engine : Engine Unit where
  init := ()
  step _ toks impl :=
    match toks with
    | ["reset"] => ((), { model := "ok" })
    | kind :: rest =>
      if kind == "ka" ∨ kind == "kas" then
        match parseScenario (kind == "kas") rest with
        | none => ((), { model := "bad-op" })
        | some sc => ((), { model := modelObs sc impl, violated := monitor sc impl })
      else if kind == "kss" then
        match parseSess rest with
        | none => ((), { model := "bad-op" })
        | some sc => ((), { model := modelObs sc impl, violated := monitor sc impl })
      else ((), { model := "bad-op" })
    | _ => ((), { model := "bad-op" })

end KeepAlive

def main : IO Unit := Proto.run KeepAlive.engine
