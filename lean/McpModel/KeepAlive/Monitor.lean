import McpModel.KeepAlive.Model
/-!
E9 — the typed core of the C13 monitor.

The driver (Driver.lean) parses a record into a `Scenario` (interval, configured threshold, the ping
outcome pattern, the cancellation instant; for the stream `sessions` the sampling instants) and the
implementation's observation into an `Obs` (instants of the pings, the time each was given until its
deadline, instants of `Close`, goroutine exit, late activity; for `sessions` also the WARN instants,
the instant the connection was closed, goroutine presence, a blocked transport write), calls
`monitor`, and renders the `Clause` it returns (`Clause.text`, byte-identical to the texts of the former
string-level monitor).  Everything that decides WHICH clause of C13 is violated lives here, on typed
data, so that Bridge.lean (no alarm on any behaviour of the model) and Sound.lean (a clause is
reported only if the property clause fails on the observation) can reason about it.

The monitor is the property itself: literal `I/2`, literal `max 1`, the closing tick found by
searching for the first window of `T` consecutive failures, its own schedule of pending ticks —
independent of `KeepAlive.step`/`run` and of the regenerated expressions.  Core Lean only.
-/
namespace KeepAlive

/-! ### Scenario and observation -/

structure Scenario where
  /-- `kas`: a real session against a scripted peer (deadlines, exit, late activity are not observable) -/
  real : Bool
  I : Nat
  t0 : Int
  scripts : List Script
  tc : Nat
  /-- `kss`: stream `sessions` -/
  sess : Bool := false
  at1 : Option Nat := none
  at2 : Nat := 0
  /-- stream `http`: the ticks (1-based) at which the foreign server reported ping as unsupported
  (JSON-RPC -32601) on a TRANSIENT HTTP status (500/502/503/504/429) -/
  transientMnf : List Nat := []

/-- The time each ping was given until its deadline, as reported. -/
inductive Deadlines
  /-- `-` -/
  | none
  /-- one value: all pings were given the same -/
  | all (v : Int)
  /-- `v1/v2/…`, one per ping (`none`: unreadable) -/
  | each (vs : List (Option Int))
deriving DecidableEq, Repr

/-- Whether the keep-alive goroutine was present at a sampling instant. -/
inductive Live
  | yes | no | unsampled | bad
deriving DecidableEq, Repr

/-- The additional observations of the stream `sessions`. -/
structure SessObs where
  /-- instants of the tolerated-miss log records -/
  warn : List Nat
  /-- instant the transport connection was closed (`none`: never) -/
  shut : Option Nat
  live1 : Live
  live2 : Live
  /-- the `live` token had two characters -/
  liveOk : Bool
  /-- the `live` token as printed (for the text of the bad-observation clause) -/
  liveRaw : String
  /-- a transport write of that side was blocked until then -/
  wblk : Option Nat
deriving DecidableEq, Repr

structure Obs where
  pings : List Nat
  to : Deadlines
  closes : List Nat
  /-- the goroutine returned -/
  exit : Bool
  /-- no activity after the loop ended -/
  quietAfter : Bool
  sess : Option SessObs
deriving DecidableEq, Repr

/-! ### The property's reading of a scenario -/

/-- What the property says one ping amounts to: answered / method-not-found / failed, the latter also
when nothing came back within half an interval — unless the ping overran (then its result is what it
returned, however late). 0 = answered, 1 = method-not-found, 2 = failed. -/
def specOutcome (I : Nat) (s : Script) : Nat :=
  match s.delay with
  | none => 2
  | some d =>
    if d < I / 2 ∨ ¬ s.honours then (match s.kind with | .answer => 0 | .mnf => 1 | .error => 2) else 2

/-- The tick at which the property requires `Close`: the least `k` such that outcomes
`k-T+1 … k` all failed, provided no method-not-found occurred up to `k`. -/
def specCloseTick (T : Nat) (os : List Nat) : Option Nat :=
  match (List.range (os.length + 1)).find? (fun k => T ≤ k && ((os.take k).drop (k - T)).all (· == 2)) with
  | some k => if (os.take k).any (· == 1) then none else some k
  | none => none

def trailingFails (os : List Nat) : Nat := (os.reverse.takeWhile (· == 2)).length

/-- How long the property lets one ping last: the scripted delay, at most half an interval — or, for
a ping whose write is blocked, until it returns. -/
def specDur (I : Nat) (s : Script) : Nat :=
  match s.delay with
  | none => I / 2
  | some d => if d < I / 2 ∨ ¬ s.honours then d else I / 2

/-- One ping as the property sees it. -/
structure SpecPing where
  start : Nat
  stop : Nat
  outcome : Nat
  overran : Bool
deriving DecidableEq, Repr

/-- When the next ping is due after a ping issued at `last` and over at `free`: on the next tick of
the grid `I, 2I, …`; a tick that fires while a ping is in flight stays pending (one, not more) and is
served the moment that ping is over. -/
def specNext (I last free : Nat) : Nat :=
  let g := (last / I + 1) * I
  if free > g then free else g

/-- The pings the property expects before instant `tc` from a loop that goes on pinging. -/
def specSched (I tc : Nat) : Nat → Nat → List Script → List SpecPing
  | _, _, [] => []
  | last, free, s :: t =>
    let p := specNext I last free
    if p < tc then
      { start := p, stop := p + specDur I s, outcome := specOutcome I s, overran := ! s.honours && specDur I s > I / 2 }
        :: specSched I tc p (p + specDur I s) t
    else []

/-- The normalised threshold: literal `max 1`. -/
def specT (t0 : Int) : Nat := if t0 < 1 then 1 else t0.toNat

/-- Why keep-alive has to end. -/
inductive Why
  | cancelled (tc : Nat)
  | closedAt (m : Nat)
  | unsupportedAt (m : Nat)
deriving DecidableEq, Repr

/-! ### Clauses -/

inductive Clause
  /-- closes_iff_T_consecutive: pings k+1-T..k all failed but the session was not closed -/
  | notClosed (k T : Nat)
  /-- answer_resets: closed right after a ping the peer answers -/
  | closedAfterAnswer (c n start T : Nat)
  /-- answer_resets: closed after only m consecutive failed pings -/
  | closedFewFails (c m T : Nat)
  /-- closes_iff_T_consecutive: closed although no T consecutive pings failed -/
  | closedNoRun (c T : Nat)
  /-- closes_iff_T_consecutive: closed after the wrong number of pings -/
  | closedWrongPing (c n T k pk : Nat)
  /-- close_time_bound: closed before the closing ping was issued -/
  | closedBeforePing (c k pk : Nat)
  /-- close_time_bound: closed later than the end of the (overrunning) closing ping -/
  | closedLateOverran (c bound k : Nat)
  /-- close_time_bound: closed later than one ping timeout after the closing ping was issued -/
  | closedLate (c k pk : Nat)
  /-- closes_iff_T_consecutive: Close called n times -/
  | closedTimes (n : Nat)
  /-- silent_stop: the loop went on pinging after it had to end -/
  | wentOn (m : Nat) (pings : List Nat)
  /-- pings_at_ticks (expected on the grid) -/
  | ticksGrid (pings : List Nat) (m I : Nat)
  /-- pings_at_ticks (expected schedule with pending ticks) -/
  | ticksPending (pings want : List Nat) (I : Nat)
  /-- silent_stop: keepalive-F30 -/
  | f30 (stop tc start : Nat)
  /-- silent_stop: keepalive-F31 -/
  | f31 (m : Nat) (pings closes : List Nat)
  /-- close_time_bound: the (single) ping deadline is not half the interval -/
  | deadlineAll (v : Int) (I : Nat)
  /-- answer_resets: ping j+1 was given less than a fresh ping timeout -/
  | deadlineShort (j : Nat) (at_ : Option Nat) (v : Option Int) (I : Nat)
  /-- close_time_bound: ping j+1 was given more than half the interval -/
  | deadlineLong (j : Nat) (at_ : Option Nat) (v : Option Int) (I : Nat)
  /-- silent_stop: goroutine or ticker still active after the loop ended -/
  | notQuiet
  /-- ping_done_before_next_tick -/
  | pingLong (j d I : Nat)
  /-- silent_stop: a ping at or after the Close call -/
  | pingAfterClose (p tc : Nat)
  /-- silent_stop: a log record after keep-alive had to end -/
  | loggedAfterEnd (w due : Nat) (why : Why)
  /-- closes_iff_T_consecutive: connection closed later than reported -/
  | shutLate (c sh : Nat)
  /-- closes_iff_T_consecutive: connection never closed -/
  | shutNever (c : Nat)
  /-- silent_stop: goroutine still exists -/
  | goroutineLeft (t due : Nat) (why : Why)
  /-- pings_at_ticks: goroutine gone while keep-alive has not ended -/
  | goroutineGone (t due : Nat)
  | badLive (live : String)
  | badSess
deriving DecidableEq, Repr

/-! ### The checks -/

/-- The shape of keepalive-F30: the ping in flight at the cancellation `tc` ran past a tick, and when it
was over the loop served that pending tick — a ping at the very end of that ping — although it had
been cancelled. -/
def f30Shape (I tc : Nat) (sched : List SpecPing) (pings : List Nat) : Option Clause :=
  match sched.getLast? with
  | some l =>
    if l.stop > tc ∧ l.stop ≥ (l.start / I + 1) * I ∧ pings.contains l.stop then some (.f30 l.stop tc l.start)
    else none
  | none => none

/-- The shape of keepalive-F31: keep-alive has to end with the ping at tick `m`, which the peer answered
"method not found" — on a transient HTTP status, whose body the streamable client drops — and it did
not end: it pinged again, or closed the session. -/
def f31Shape (transientMnf : List Nat) (os : List Nat) (kstar : Option Nat) (m : Nat) (pings closes : List Nat) :
    Option Clause :=
  if kstar.isNone ∧ os.any (· == 1) ∧ transientMnf.contains m ∧ (pings.length > m ∨ closes ≠ []) then
    some (.f31 m pings closes)
  else none

/-- The instant ping `k` (1-based) of the schedule is issued / is over; 0 for `k = 0`. -/
def startOf (sched : List SpecPing) (k : Nat) : Nat := if k = 0 then 0 else ((sched[k - 1]?).map (·.start)).getD 0
def stopOf (sched : List SpecPing) (k : Nat) : Nat := if k = 0 then 0 else ((sched[k - 1]?).map (·.stop)).getD 0

/-- The tick with which keep-alive has to end: the closing tick, else the first method-not-found, else
(cancellation) the last ping issued before the cancellation. -/
def endTick (kstar : Option Nat) (os : List Nat) : Nat :=
  match kstar with
  | some k => k
  | none => match os.findIdx? (· == 1) with
    | some j => j + 1
    | none => os.length

/-- closes_iff_T_consecutive / answer_resets / close_time_bound on the instants of `Close`. -/
def closingClause (I T : Nat) (sched : List SpecPing) (os : List Nat) (kstar : Option Nat)
    (pings closes : List Nat) : Option Clause :=
  match kstar, closes with
  | none, [] => none
  | some k, [] => some (.notClosed k T)
  | none, c :: _ =>
    let seen := os.take pings.length
    let m := trailingFails seen
    if seen.getLast? == some 0 then some (.closedAfterAnswer c seen.length (startOf sched seen.length) T)
    else if 0 < m ∧ m < T ∧ (seen.drop (seen.length - T)).any (· == 0) then some (.closedFewFails c m T)
    else some (.closedNoRun c T)
  | some k, [c] =>
    let pk := startOf sched k
    let overran := ((sched[k - 1]?).map (·.overran)).getD false
    let bound := if overran then stopOf sched k else pk + I / 2
    if pings.length < k ∨ (pings.length > k ∧ (c < pk ∨ c ≥ specNext I pk (stopOf sched k))) then
      some (.closedWrongPing c pings.length T k pk)
    else if c < pk then some (.closedBeforePing c k pk)
    else if c > bound then
      if overran then some (.closedLateOverran c bound k) else some (.closedLate c k pk)
    else none
  | some _, _ => some (.closedTimes closes.length)

/-- pings_at_ticks / the pending-tick schedule / silent_stop on the instants of the pings. -/
def ticksClause (I : Nat) (sched : List SpecPing) (m : Nat) (pings : List Nat) : Option Clause :=
  let want := (sched.take m).map (·.start)
  let onGrid : Bool := want == (List.range m).map (fun j => (j + 1) * I)
  if pings == want then none
  else if pings.length > m ∧ pings.take m == want then some (.wentOn m pings)
  else if onGrid then some (.ticksGrid pings m I)
  else some (.ticksPending pings want I)

/-- The time each ping was given until its deadline must be a fresh half interval. -/
def deadlineClause (I : Nat) (pings : List Nat) (to : Deadlines) : Option Clause :=
  match to with
  | .none => none
  | .all v => if v = (I / 2 : Nat) then none else some (.deadlineAll v I)
  | .each vs =>
    match (vs.zipIdx).find? (fun (v, _) => v != some ((I / 2 : Nat) : Int)) with
    | none => none
    | some (v, j) =>
      let short : Bool := match v with
        | some x => x < (I / 2 : Nat)
        | none => false
      if short then some (.deadlineShort j pings[j]? v I) else some (.deadlineLong j pings[j]? v I)

/-- ping_done_before_next_tick (stream `sessions`): an observed ping that did not have its write
blocked lasted at most half an interval. -/
def longClause (I : Nat) (scripts : List Script) : Option Clause :=
  match (scripts.zipIdx).find? (fun (s, _) => s.honours && (match s.delay with | some d => d > I / 2 | none => false)) with
  | some (s, j) => some (.pingLong j (s.delay.getD 0) I)
  | none => none

/-- silent_stop (stream `sessions`): no ping at or after the Close call. -/
def afterCloseClause (I tc : Nat) (sched : List SpecPing) (pings : List Nat) : Option Clause :=
  match pings.find? (· ≥ tc) with
  | some p => f30Shape I tc sched pings <|> some (.pingAfterClose p tc)
  | none => none

/-- The instant at which keep-alive has to have ended, and why. -/
def dueOf (tc : Nat) (sched : List SpecPing) (os : List Nat) (kstar : Option Nat) (m : Nat) (wblk : Option Nat) :
    Nat × Why :=
  let byCancel : Bool := kstar.isNone ∧ ¬ os.any (· == 1)
  -- when keep-alive closes the session its goroutine returns when session.Close does, and that waits
  -- for transport writes that are blocked (`wblk`)
  let held : Nat := if kstar.isSome then wblk.getD 0 else 0
  (if byCancel then max tc (stopOf sched m) else max (stopOf sched m) held,
   if byCancel then .cancelled tc else if kstar.isSome then .closedAt m else .unsupportedAt m)

def liveClause (due : Nat) (why : Why) (raw : String) (a : Live) (t : Nat) : Option Clause :=
  match a with
  | .yes => if t ≥ due then some (.goroutineLeft t due why) else none
  | .no => if t < due then some (.goroutineGone t due) else none
  | _ => some (.badLive raw)

/-- silent_stop (stream `sessions`): nothing is logged once keep-alive had to end. -/
def loggedClause (warn closes : List Nat) (due : Nat) (why : Why) : Option Clause :=
  match (warn ++ closes).find? (· > due) with
  | some w => some (.loggedAfterEnd w due why)
  | none => none

/-- closes_iff_T_consecutive (stream `sessions`): a session that keep-alive reports as closed has its
connection closed, at the latest when a blocked transport write is through. -/
def shutClause (shut wblk : Option Nat) (closes : List Nat) : Option Clause :=
  match closes with
  | c :: _ =>
    match shut with
    | some sh => if sh ≤ c ∨ sh ≤ wblk.getD 0 then none else some (.shutLate c sh)
    | none => some (.shutNever c)
  | [] => none

/-- silent_stop / pings_at_ticks (stream `sessions`): no goroutine is left once keep-alive had to end;
while it has not ended the goroutine exists. -/
def livesClause (at1 : Option Nat) (at2 : Nat) (liveOk : Bool) (raw : String) (live1 live2 : Live)
    (due : Nat) (why : Why) : Option Clause :=
  if !liveOk then some (.badLive raw)
  else match at1 with
    | some t1 => liveClause due why raw live1 t1 <|> liveClause due why raw live2 at2
    | none => liveClause due why raw live2 at2

/-- The remaining clauses of the stream `sessions` (the property's last sentence). -/
def sessClause (sc : Scenario) (so : SessObs) (closes : List Nat) (due : Nat) (why : Why) : Option Clause :=
  loggedClause so.warn closes due why <|> shutClause so.shut so.wblk closes <|>
    livesClause sc.at1 sc.at2 so.liveOk so.liveRaw so.live1 so.live2 due why

/-- **The C13 monitor of one scenario.** -/
def monitor (sc : Scenario) (o : Obs) : Option Clause :=
  let I := sc.I
  let T := specT sc.t0
  let sched := specSched I sc.tc 0 0 sc.scripts
  let os := sched.map (·.outcome)
  let kstar := specCloseTick T os
  let m := endTick kstar os
  let closing := closingClause I T sched os kstar o.pings o.closes
  let ticks := ticksClause I sched m o.pings
  let f30 : Option Clause :=
    if kstar.isNone ∧ ¬ os.any (· == 1) ∧ ¬ sc.real then f30Shape I sc.tc sched o.pings else none
  let deadline : Option Clause := if sc.real ∨ o.pings.isEmpty then none else deadlineClause I o.pings o.to
  let quiet : Option Clause := if o.exit ∧ o.quietAfter then none else some .notQuiet
  f31Shape sc.transientMnf os kstar m o.pings o.closes <|>
  if sc.sess then
    match o.sess with
    | none => f30 <|> deadline <|> longClause I sc.scripts <|> closing <|> ticks <|> some .badSess <|> quiet
    | some so =>
      let (due, why) := dueOf sc.tc sched os kstar m so.wblk
      f30 <|> deadline <|> longClause I sc.scripts <|> afterCloseClause I sc.tc sched o.pings <|>
        closing <|> ticks <|> sessClause sc so o.closes due why <|> quiet
  else f30 <|> closing <|> deadline <|> ticks <|> quiet

/-! ### The model's observation -/

/-- What the model says of a scenario: `runCancel` (pings, closing instant), `warnsCancel`, `endAt`.
`shut` and `wblk` depend on the peer and the transport, not on the loop: they are copied from the
implementation's observation (`env`). -/
def modelObs (sc : Scenario) (env : Option SessObs) : Obs :=
  let s := runCancel sc.I sc.t0 sc.scripts sc.tc
  let to : Deadlines :=
    if sc.real ∨ s.pings.isEmpty then .none else .all (Generated.KeepAlive.pingTimeout sc.I)
  let sess : Option SessObs :=
    if sc.sess then
      let wblk := env.bind (·.wblk)
      -- the goroutine returns when its call of session.Close returns, and that waits for blocked writes
      let held : Nat := if s.status == .closed then wblk.getD 0 else 0
      let e := max (endAt sc.I sc.t0 sc.scripts sc.tc) held
      let alive (t : Nat) : Live := if t < e then .yes else .no
      let a1 : Live := match sc.at1 with
        | some t => alive t
        | none => .unsampled
      some { warn := warnsCancel sc.I sc.t0 sc.scripts sc.tc, shut := env.bind (·.shut), live1 := a1,
             live2 := alive sc.at2, liveOk := true, liveRaw := "", wblk := wblk }
    else none
  { pings := s.pings, to := to, closes := s.closeAt.toList, exit := true, quietAfter := true, sess := sess }

end KeepAlive
