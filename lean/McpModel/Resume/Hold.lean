import McpModel.Resume.Window
/-!
# C08 — a stream is claimed only by a live exchange ("however often the client resumes it")

`acquireStream` refuses a resume with 409 while the stream is claimed (`s.w ≠ nil`).  The property's "however a
response stream is interrupted and however often the client resumes it … the final response stays obtainable" therefore
needs: **a claim never outlives the HTTP exchange that made it** — whatever way that exchange ended (request context
cancelled, the stream completed, the server closed it, the session closed, a replay write failed in the middle of a
resume, `EventStore.After` failed).  `InvLive` is that invariant, proved for every label list; with it the hypothesis
"nobody is attached" of `writes_while_detached_are_replayed` follows from "every exchange that served the stream is
gone" (`resume_obtainable_when_exchanges_gone`), and a resume that broke at any write of its replay leaves the stream
exactly as free as it found it (`broken_resume_leaves_stream_free`), so the next resume is served
(`resume_again_after_broken_resume`).
-/
namespace Resume
variable {α : Type}

/-- a stream is claimed (`w ≠ nil`) only by an exchange whose HTTP handler has not returned -/
def InvLive (c : Conn α) : Prop :=
  ∀ s ∈ c.streams, ∀ ex, s.attached = some ex → ∃ e, c.exs[ex]? = some e ∧ e.ended = false

/-- exchange tables whose old entries keep their `ended` flag -/
def EndRel (exs exs' : List (Exch α)) : Prop :=
  ∀ (j : Nat) (e : Exch α), exs[j]? = some e → ∃ e', exs'[j]? = some e' ∧ e'.ended = e.ended

theorem EndRel.refl (exs : List (Exch α)) : EndRel exs exs := fun _ e h => ⟨e, h, rfl⟩

theorem EndRel.trans {a b c : List (Exch α)} (h₁ : EndRel a b) (h₂ : EndRel b c) : EndRel a c := by
  intro j e h
  obtain ⟨e', h', r1⟩ := h₁ j e h
  obtain ⟨e'', h'', r2⟩ := h₂ j e' h'
  exact ⟨e'', h'', r2.trans r1⟩

theorem endRel_setEx (exs : List (Exch α)) (ex : ExId) (f : Exch α → Exch α) (hf : ∀ e, (f e).ended = e.ended) :
    EndRel exs (setEx ex f exs) := by
  intro j e h
  by_cases hj : j = ex
  · subst hj
    exact ⟨f e, by rw [getElem?_setEx_eq, h]; rfl, hf e⟩
  · exact ⟨e, by rw [getElem?_setEx_ne _ _ _ _ hj]; exact h, rfl⟩

theorem endRel_emitX (exs : List (Exch α)) (ex : ExId) (o : Out α) : EndRel exs (emitX exs ex o).1 := by
  unfold emitX
  split
  · exact EndRel.refl _
  · exact endRel_setEx _ _ _ (fun e => push_ended e o)

theorem endRel_append (exs : List (Exch α)) (e : Exch α) : EndRel exs (exs ++ [e]) := by
  intro j e0 h
  have hlt : j < exs.length := by
    by_cases hh : j < exs.length
    · exact hh
    · rw [List.getElem?_eq_none (by omega)] at h; cases h
  exact ⟨e0, by rw [List.getElem?_append_left hlt]; exact h, rfl⟩

/-- the workhorse: in-place updates of streams (`StreamsRel`: no new claim) and of exchanges, where an exchange may
end only if no stream claims it afterwards -/
theorem live_congr {c c' : Conn α} (h : InvLive c) (hs : StreamsRel c.streams c'.streams)
    (he : ∀ (j : Nat) (e : Exch α), c.exs[j]? = some e → e.ended = false →
      (∃ e', c'.exs[j]? = some e' ∧ e'.ended = false) ∨ ∀ s' ∈ c'.streams, s'.attached ≠ some j) : InvLive c' := by
  intro s' hs' ex hat
  obtain ⟨s, hsl, _, hatt, _⟩ := hs.2 s' hs'
  have : s.attached = some ex := by
    rcases hatt with h1 | h1
    · rw [← h1]; exact hat
    · rw [h1] at hat; cases hat
  obtain ⟨e, hex, hend⟩ := h s hsl ex this
  rcases he ex e hex hend with h1 | h1
  · exact h1
  · exact absurd hat (h1 s' hs')

theorem live_of_endRel {c c' : Conn α} (h : InvLive c) (hs : StreamsRel c.streams c'.streams) (hr : EndRel c.exs c'.exs) :
    InvLive c' :=
  live_congr h hs (fun j e hj hend => Or.inl (by obtain ⟨e', h', r⟩ := hr j e hj; exact ⟨e', h', r.trans hend⟩))

theorem live_init (cfg : Cfg) : InvLive (init cfg : Conn α) := by
  intro s hs ex hat
  simp [init] at hs; subst hs; cases hat

theorem live_emit {c : Conn α} (h : InvLive c) (ex : ExId) (o : Out α) : InvLive (emit c ex o).1 :=
  live_of_endRel (c' := (emit c ex o).1) h (StreamsRel.refl _) (endRel_emitX _ _ _)

/-- an exchange nobody claims may end -/
theorem live_finish {c : Conn α} (h : InvLive c) (ex : ExId) (hno : ∀ s ∈ c.streams, s.attached ≠ some ex) :
    InvLive (finish c ex) := by
  refine live_congr (c' := finish c ex) h (StreamsRel.refl _) ?_
  intro j e hj hend
  by_cases hje : j = ex
  · subst hje; exact Or.inr hno
  · exact Or.inl ⟨e, by simp only [finish]; rw [finishX_ne _ _ _ hje]; exact hj, hend⟩

/-- `release` then the handler returns: the claim goes with the exchange -/
theorem live_cut {c : Conn α} (h : InvLive c) (ex : ExId) : InvLive (cut c ex) := by
  refine live_congr (c' := cut c ex) h (streamsRel_release _ _) ?_
  intro j e hj hend
  by_cases hje : j = ex
  · subst hje
    refine Or.inr ?_
    intro s' hs' hat
    simp only [cut, finish] at hs'
    obtain ⟨s, _, h1 | h1⟩ := mem_release hs'
    · rw [h1.2] at hat; cases hat
    · rw [h1.2] at hat; exact h1.1 hat
  · exact Or.inl ⟨e, by simp only [cut, finish]; rw [finishX_ne _ _ _ hje]; exact hj, hend⟩

theorem live_wfail {c : Conn α} (h : InvLive c) (ex : ExId) : InvLive (wfail c ex) :=
  live_of_endRel (c' := wfail c ex) h (StreamsRel.refl _) (endRel_setEx _ _ _ (fun _ => rfl))

theorem live_eraseResp {c : Conn α} (h : InvLive c) (msg : Msg α) : InvLive (eraseResp c msg) := by
  intro s hs ex hat
  simp only [eraseResp_streams] at hs
  simpa using h s hs ex hat

/-- a new exchange that nobody claims (an answer with a bare status) -/
theorem live_append {c : Conn α} (h : InvLive c) (e : Exch α) : InvLive ({ c with exs := c.exs ++ [e] } : Conn α) :=
  live_of_endRel (c' := { c with exs := c.exs ++ [e] }) h (StreamsRel.refl _) (endRel_append _ _)

theorem live_statusEx {c : Conn α} (h : InvLive c) (code : Nat) (sid : SId) : InvLive (statusEx c code sid) :=
  live_append h _

/-! ### WRITE -/

/-- what `deliver` does to the exchange table: old entries keep `ended`, except the claimed exchange when the
stream completes -/
theorem deliver_endRel (exs : List (Exch α)) (s : Stream α) (it : Item α) (evid : Option (SId × Nat))
    (reqs : List ReqId) (done : Bool) (j : Nat) (e : Exch α) (hj : exs[j]? = some e) :
    (∃ e', (deliver exs s it evid reqs done).1[j]? = some e' ∧ e'.ended = e.ended) ∨ (done = true ∧ s.attached = some j) := by
  unfold deliver
  split
  · rename_i ex hat hop
    by_cases hje : j = ex
    · subst hje
      cases done with
      | true => exact Or.inr ⟨rfl, hat⟩
      | false =>
        left
        split
        · simp only [Bool.false_eq_true, if_false]; exact ⟨e, hj, rfl⟩
        · simp only [Bool.false_eq_true, if_false]; exact endRel_emitX _ _ _ j e hj
    · left
      split
      · split
        · obtain ⟨e', h', r⟩ := endRel_emitX exs ex (.json (_ ++ [it])) j e hj
          exact ⟨e', by rw [finishX_ne _ _ _ hje]; exact h', r⟩
        · exact ⟨e, hj, rfl⟩
      · split
        · obtain ⟨e', h', r⟩ := endRel_emitX exs ex (.message evid it) j e hj
          exact ⟨e', by rw [finishX_ne _ _ _ hje]; exact h', r⟩
        · exact endRel_emitX _ _ _ j e hj
  · exact Or.inl ⟨e, hj, rfl⟩

theorem live_writeTo {c : Conn α} (hw : Inv c) (h : InvLive c) {s : Stream α} (hmem : s ∈ c.streams) (msg : Msg α)
    (ctx : Option ReqId) (ctxNew : Bool) : InvLive (writeTo c s msg ctx ctxNew).1 := by
  have hd := deliver_stream c.exs s ⟨msg, ctx⟩ (if wUse c ctxNew then some (s.id, s.next) else none) (wReqs s msg) (wDone s msg)
  refine live_congr (c' := (writeTo c s msg ctx ctxNew).1) h ?_ ?_
  · simp only [writeTo]
    split
    · exact streamsRel_del _ _
    · exact streamsRel_set hmem hd.1 (Or.inl hd.2.1) (fun ho => ⟨hd.2.2.1 ho, hd.2.1⟩)
  · intro j e hj hend
    rcases deliver_endRel c.exs s ⟨msg, ctx⟩ (if wUse c ctxNew then some (s.id, s.next) else none) (wReqs s msg) (wDone s msg) j e hj with
      ⟨e', h', r⟩ | ⟨hdone, hat⟩
    · exact Or.inl ⟨e', by simp only [writeTo, wDeliver]; exact h', r.trans hend⟩
    · -- the stream completed: it is deleted, and it was the only claimant of its exchange
      refine Or.inr ?_
      intro s' hs' hat'
      simp only [writeTo, hdone, if_true] at hs'
      rw [mem_delStream] at hs'
      exact hs'.2 (hw.att_inj s' hs'.1 s hmem j hat' hat)

theorem live_write {c : Conn α} (hw : Inv c) (h : InvLive c) (msg : Msg α) (ctx : Option ReqId) (ctxNew : Bool) :
    InvLive (writeR c msg ctx ctxNew).1 := by
  unfold writeR
  split
  · exact h
  · split
    · exact live_eraseResp h msg
    · rename_i s hs
      split
      · exact live_eraseResp h msg
      · exact live_writeTo (inv_eraseResp hw msg) (live_eraseResp h msg) (by simp; exact route_mem hs) _ _ _

theorem live_pendW {c : Conn α} (h : InvLive c) (l : List (PendW α)) : InvLive ({ c with pendW := l } : Conn α) := h

theorem live_wroute {c : Conn α} (h : InvLive c) (msg : Msg α) (ctx : Option ReqId) (ctxNew : Bool) :
    InvLive (wrouteR c msg ctx ctxNew).1 := by
  unfold wrouteR
  split
  · exact h
  · split
    · exact live_eraseResp h msg
    · split
      · exact live_eraseResp h msg
      · exact live_pendW (live_eraseResp h msg) _

theorem live_wdeliver {c : Conn α} (hw : Inv c) (h : InvLive c) (i : Nat) : InvLive (wdeliverR c i).1 := by
  unfold wdeliverR
  split
  · exact h
  · rename_i pw hpw
    have h1 : Inv ({ c with pendW := c.pendW.eraseIdx i } : Conn α) :=
      inv_pendW hw _ (fun x hx => hw.pend_lt x (mem_eraseIdx hx))
    split
    · rename_i s hs
      exact live_writeTo h1 (live_pendW h _) (findStream_some hs).1 _ _ _
    · exact live_pendW (c := (orphanWrite { c with pendW := c.pendW.eraseIdx i } pw).1) h []

/-! ### SCLOSE -/

theorem live_sclose {c : Conn α} (h : InvLive c) (req : ReqId) (retry : Bool) : InvLive (sclose c req retry) := by
  unfold sclose
  split
  · exact h
  · split
    · exact h
    · rename_i s hs
      have hmem := (findStream_some hs).1
      split
      · split
        · exact live_of_endRel (live_emit h _ .close) (streamsRel_set (s := s) hmem rfl (Or.inl rfl) (fun ho => by cases ho)) (EndRel.refl _)
        · exact live_of_endRel h (streamsRel_set (s := s) hmem rfl (Or.inl rfl) (fun ho => by cases ho)) (EndRel.refl _)
      · exact h

/-! ### POST -/

theorem live_register {c : Conn α} (hw : Inv c) (h : InvLive c) (calls : List ReqId) (listen : Bool) (ver : Ver) (budget : Option Nat) :
    InvLive (register c calls listen ver budget) := by
  intro x hx ex hxa
  simp only [register, List.mem_append, List.mem_singleton] at hx ⊢
  rcases hx with hx | rfl
  · obtain ⟨e₀, hex, hend⟩ := h x hx ex hxa
    have hlt := att_lt hw hx hxa
    exact ⟨e₀, by simp [List.getElem?_append_left hlt, hex], hend⟩
  · simp only [newStream] at hxa; cases hxa
    exact ⟨_, List.getElem?_concat_length, rfl⟩

theorem live_postNew {c : Conn α} (hw : Inv c) (h : InvLive c) (calls : List ReqId) (listen : Bool) (ver : Ver) (budget : Option Nat) :
    InvLive (postNew c calls listen ver budget) := by
  have h3 := live_register hw h calls listen ver budget
  simp only [postNew]
  split
  · split
    · exact live_cut (live_emit h3 _ _) _
    · exact live_cut h3 _
  · split
    · exact live_emit h3 _ _
    · exact h3

theorem live_post {c : Conn α} (hw : Inv c) (h : InvLive c) (calls : List ReqId) (listen : Bool) (ver : Ver) (budget : Option Nat) :
    InvLive (post c calls listen ver budget) := by
  unfold post
  split
  · exact live_statusEx h _ _
  · split
    · unfold postDup
      exact live_statusEx (c := { c with store := _, nextSid := _ }) h _ _
    · exact live_postNew hw h _ _ _ _

/-! ### GET -/

theorem replayLoop_endRel (c : Conn α) (ex : ExId) (sid : SId) (k : Nat) (items : List (Item α)) :
    EndRel c.exs (replayLoop c ex sid k items).1.exs := by
  induction items generalizing c k with
  | nil => exact EndRel.refl _
  | cons it rest ih =>
    unfold replayLoop
    split
    · exact (endRel_emitX c.exs ex _).trans (ih (emit c ex (.message (some (sid, k)) it)).1 (k + 1))
    · exact endRel_emitX _ _ _

/-- the exchange a GET opens has not ended when the replay starts -/
theorem getOpen_not_ended (c : Conn α) (sid frm : Nat) (budget : Option Nat) :
    ∃ e, (getOpen c sid frm budget).exs[c.exs.length]? = some e ∧ e.ended = false := by
  unfold getOpen
  split
  · simp only [emit]
    exact ⟨_, (emitX_eq _ _ _ _ List.getElem?_concat_length).1, by rw [push_ended]⟩
  · exact ⟨_, List.getElem?_concat_length, rfl⟩

theorem live_getOpen {c : Conn α} (h : InvLive c) (sid frm : Nat) (budget : Option Nat) : InvLive (getOpen c sid frm budget) := by
  unfold getOpen
  split
  · exact live_emit (live_append h _) _ _
  · exact live_append h _

theorem live_replayLoop {c : Conn α} (h : InvLive c) (ex : ExId) (sid : SId) (k : Nat) (items : List (Item α)) :
    InvLive (replayLoop c ex sid k items).1 :=
  live_of_endRel h (by rw [(replayLoop_frame c ex sid k items).1]; exact StreamsRel.refl _) (replayLoop_endRel c ex sid k items)

theorem live_attach {c c0 : Conn α} (h : InvLive c) {s : Stream α} {e : Exch α}
    (he : c.exs[c0.exs.length]? = some e) (hend : e.ended = false) (next : Nat) (ver : Ver) (closed : Bool) :
    InvLive (attach c s c0.exs.length next ver closed) := by
  have hatt : InvLive ({ c with streams := setStream { s with attached := some c0.exs.length, opn := true, next := next, v1125 := ver.ge1125 } c.streams } : Conn α) := by
    intro x hx ex hxa
    simp only at hx
    rcases mem_setStream hx with rfl | ⟨hxl, _⟩
    · simp only at hxa; cases hxa
      exact ⟨e, he, hend⟩
    · exact h x hxl ex hxa
  unfold attach
  split
  · exact live_cut hatt _
  · exact hatt

theorem live_getGo {c : Conn α} (hw : Inv c) (h : InvLive c) (sid : SId) (frm : Nat) (ver : Ver) (budget : Option Nat)
    (items : List (Item α)) : InvLive (getGo c sid frm ver budget items) := by
  have h3 := live_replayLoop (live_getOpen h sid frm budget) c.exs.length sid frm items
  obtain ⟨gs, _⟩ := getOpen_frame c sid frm budget
  obtain ⟨fs, _⟩ := replayLoop_frame (getOpen c sid frm budget) c.exs.length sid frm items
  have hno : ∀ s ∈ (replayLoop (getOpen c sid frm budget) c.exs.length sid frm items).1.streams, s.attached ≠ some c.exs.length := by
    intro s hs hat
    rw [fs, gs] at hs
    have := att_lt hw hs hat
    omega
  obtain ⟨e0, he0, hend0⟩ := getOpen_not_ended c sid frm budget
  obtain ⟨e1, he1, hend1⟩ := replayLoop_endRel (getOpen c sid frm budget) c.exs.length sid frm items _ e0 he0
  unfold getGo
  split
  · split
    · exact live_finish h3 _ hno
    · split
      · exact live_finish h3 _ hno
      · exact live_attach h3 he1 (hend1.trans hend0) _ _ _
  · exact live_finish h3 _ hno

theorem live_get {c : Conn α} (hw : Inv c) (h : InvLive c) (hdr : Hdr) (ver : Ver) (budget : Option Nat) :
    InvLive (get c hdr ver budget) := by
  unfold get
  split
  · exact live_statusEx h _ _
  · split
    · exact live_statusEx h _ _
    · split
      · exact live_statusEx h _ _
      · split
        · exact live_statusEx h _ _
        · exact live_getGo hw h _ _ _ _ _

theorem live_step {c : Conn α} (hw : Inv c) (h : InvLive c) (l : Label α) : InvLive (step c l) := by
  unfold step stepR
  cases l with
  | post calls listen ver budget => exact live_post hw h _ _ _ _
  | write msg ctx ctxNew => exact live_write hw h _ _ _
  | cut ex => exact live_cut h _
  | wfail ex => exact live_wfail h _
  | get hdr ver budget => exact live_get hw h _ _ _
  | sclose req retry => exact live_sclose h _ _
  | «end» => exact h
  | evict sid n => exact h
  | wroute msg ctx ctxNew => exact live_wroute h _ _ _
  | wdeliver i => exact live_wdeliver hw h i

theorem live_runFrom {c : Conn α} (hw : Inv c) (h : InvLive c) (ls : List (Label α)) : InvLive (run c ls) := by
  induction ls generalizing c with
  | nil => exact h
  | cons l t ih => exact ih (inv_step hw l) (live_step hw h l)

/-- **C08 (a claim never outlives its exchange).**  On every label list — any interleaving of POSTs, writes, cuts,
writer failures at any write (also in the middle of a replay), resumes, `CloseSSEStream`, session close, evictions —
a stream that is claimed (`s.w ≠ nil`, the condition under which `acquireStream` answers a resume with 409) is claimed
by an HTTP exchange whose handler has **not** returned.  So a 409 always names a live competitor, never a leftover of
an exchange that is gone. -/
theorem claimed_only_by_live_exchange (cfg : Cfg) (ls : List (Label α)) (s : Stream α) (hs : s ∈ (run (init cfg) ls).streams)
    (ex : Nat) (hat : s.attached = some ex) : ∃ e, (run (init cfg) ls).exs[ex]? = some e ∧ e.ended = false :=
  live_runFrom (inv_init cfg) (live_init cfg) ls s hs ex hat

/-! ### what a GET claims, and when it refuses -/

theorem attach_claims (c : Conn α) (s : Stream α) (ex next : Nat) (ver : Ver) (closed : Bool) :
    ∀ s' ∈ (attach c s ex next ver closed).streams, ∀ ex', s'.attached = some ex' → ex' = ex ∨ s' ∈ c.streams := by
  have hset : ∀ s' ∈ setStream { s with attached := some ex, opn := true, next := next, v1125 := ver.ge1125 } c.streams,
      ∀ ex', s'.attached = some ex' → ex' = ex ∨ s' ∈ c.streams := by
    intro s' hs' ex' hat
    rcases mem_setStream hs' with rfl | ⟨hl, _⟩
    · simp only at hat; cases hat; exact Or.inl rfl
    · exact Or.inr hl
  intro s' hs' ex' hat
  unfold attach at hs'
  split at hs'
  · simp only [cut, finish] at hs'
    obtain ⟨s0, hs0, h1 | h1⟩ := mem_release hs'
    · rw [h1.2] at hat; cases hat
    · rw [h1.2] at hat ⊢; exact hset s0 hs0 ex' hat
  · exact hset s' hs' ex' hat

/-- a GET claims a stream for its own, new exchange only: every other claim was there before -/
theorem get_claims (c : Conn α) (hdr : Hdr) (ver : Ver) (budget : Option Nat) :
    ∀ s' ∈ (get c hdr ver budget).streams, ∀ ex, s'.attached = some ex → ex = c.exs.length ∨ s' ∈ c.streams := by
  intro s' hs' ex hat
  unfold get at hs'
  split at hs'
  · exact Or.inr hs'
  · split at hs'
    · exact Or.inr hs'
    · split at hs'
      · exact Or.inr hs'
      · split at hs'
        · exact Or.inr hs'
        · obtain ⟨gs, _⟩ := getOpen_frame c hdr.sid hdr.from budget
          rename_i items _ _
          obtain ⟨fs, _⟩ := replayLoop_frame (getOpen c hdr.sid hdr.from budget) c.exs.length hdr.sid hdr.from items
          unfold getGo at hs'
          split at hs'
          · split at hs'
            · simp only [finish] at hs'; rw [fs, gs] at hs'; exact Or.inr hs'
            · split at hs'
              · simp only [finish] at hs'; rw [fs, gs] at hs'; exact Or.inr hs'
              · rcases attach_claims _ _ _ _ _ _ s' hs' ex hat with h1 | h1
                · exact Or.inl h1
                · rw [fs, gs] at h1; exact Or.inr h1
          · simp only [finish] at hs'; rw [fs, gs] at hs'; exact Or.inr hs'

theorem get_isDone (c : Conn α) (hdr : Hdr) (ver : Ver) (budget : Option Nat) : (get c hdr ver budget).isDone = c.isDone := by
  unfold get
  split
  · rfl
  · split
    · rfl
    · split
      · rfl
      · split
        · rfl
        · rename_i items _
          have g := (getOpen_frame c hdr.sid hdr.from budget).2.2.2.2.2.2.1
          have f := (replayLoop_frame (getOpen c hdr.sid hdr.from budget) c.exs.length hdr.sid hdr.from items).2.2.2.2.2.2.1
          unfold getGo
          split
          · split
            · simp only [finish]; rw [f, g]
            · split
              · simp only [finish]; rw [f, g]
              · unfold attach
                split
                · simp only [cut, finish]; rw [f, g]
                · simp only; rw [f, g]
          · simp only [finish]; rw [f, g]

/-- **C08 (409 names a live competitor).**  In every reachable state a resume is refused with 409 only if the stream
it names is registered and claimed by an HTTP exchange whose handler has not returned. -/
theorem resume_refused_only_while_claimed (cfg : Cfg) (ls : List (Label α)) (hdr : Hdr) (ver : Ver) (budget : Option Nat)
    (e : Exch α) (he : (get (run (init cfg) ls) hdr ver budget).exs[(run (init cfg) ls).exs.length]? = some e)
    (h409 : e.kind = .status 409) :
    ∃ s ∈ (run (init cfg) ls).streams, s.id = hdr.sid ∧ ∃ ex e', s.attached = some ex ∧
      (run (init cfg) ls).exs[ex]? = some e' ∧ e'.ended = false := by
  generalize hc : run (init cfg) ls = c at *
  have hl : InvLive c := by rw [← hc]; exact live_runFrom (inv_init cfg) (live_init cfg) ls
  have hstatus : ∀ code, (statusEx c code).exs[c.exs.length]? = some e → code = 409 := by
    intro code h
    simp [statusEx] at h
    rw [← h] at h409
    simpa using h409
  unfold get at he
  split at he
  · exact absurd (hstatus _ he) (by decide)
  · split at he
    · exact absurd (hstatus _ he) (by decide)
    · split at he
      · rename_i ex hb
        cases hf : findStream hdr.sid c.streams with
        | none => rw [hf] at hb; cases hb
        | some s =>
          rw [hf] at hb
          obtain ⟨hmem, hid⟩ := findStream_some hf
          obtain ⟨e', he', hend⟩ := hl s hmem ex (by simpa using hb)
          exact ⟨s, hmem, hid, ex, e', by simpa using hb, he', hend⟩
      · split at he
        · exact absurd (hstatus _ he) (by decide)
        · have := ((getGo_new c hdr.sid hdr.from ver budget _).2 e he).2.2.1
          rw [this] at h409; cases h409

/-- **C08 (a resume that is gone has left no claim behind).**  Any GET whose handler has returned by the end of its
step — its connection broke at the first, a middle or the last write of the replay (any write budget), `After` failed,
it was refused, the stream was complete, the session is closed — leaves every stream that was free before free. -/
theorem broken_resume_leaves_stream_free {c : Conn α} (hw : Inv c) (hl : InvLive c) (hdr : Hdr) (ver : Ver) (budget : Option Nat)
    (sid : Nat) (hfree : (findStream sid c.streams).bind (·.attached) = none)
    (hend : ∀ e, (get c hdr ver budget).exs[c.exs.length]? = some e → e.ended = true) :
    (findStream sid (get c hdr ver budget).streams).bind (·.attached) = none := by
  cases hf : findStream sid (get c hdr ver budget).streams with
  | none => rfl
  | some s' =>
    obtain ⟨hmem, hid⟩ := findStream_some hf
    cases hat : s'.attached with
    | none => simp [hat]
    | some ex =>
      exfalso
      rcases get_claims c hdr ver budget s' hmem ex hat with h1 | h1
      · obtain ⟨e, he, hne⟩ := live_get hw hl hdr ver budget s' hmem ex hat
        rw [h1] at he
        rw [hend e he] at hne; cases hne
      · have := findStream_of_mem hw.nodup h1
        rw [hid] at this
        rw [this] at hfree
        simp [hat] at hfree

/-- **C08 (obtainable once the exchanges are gone).**  `writes_while_detached_are_replayed` with its hypothesis
"nobody is attached" discharged: in any reachable state, if every HTTP exchange that ever served stream `sid` — the
original POST and every earlier resume, however each of them ended — has returned, a GET with a previously issued
`Last-Event-ID = (sid, idx)` that the store still covers is served (not refused) and delivered exactly `log[idx+1 …]`. -/
theorem resume_obtainable_when_exchanges_gone (cfg : Cfg) (hst : cfg.hasStore = true) (ls : List (Label α))
    (hsc : InScopeRun (init cfg) ls) (sid idx : Nat) (ver : Ver) (log : List (Option (Item α)))
    (hlog : (run (init cfg) ls).store sid = some log) (hidx : idx < log.length)
    (hdone : (run (init cfg) ls).isDone = false)
    (hnp : (run (init cfg) ls).purged sid ≤ idx + 1)
    (hgone : ∀ (j : Nat) (e : Exch α), (run (init cfg) ls).exs[j]? = some e → e.stream = sid → e.ended = true) :
    ∃ e, (get (run (init cfg) ls) (.ok sid idx) ver none).exs[(run (init cfg) ls).exs.length]? = some e ∧
      e.stream = sid ∧ e.from = idx + 1 ∧ e.lost = [] ∧
      (events e.out).length = log.length - (idx + 1) ∧
      ∀ (k : Nat) (o : Out α), (events e.out)[k]? = some o →
        ∃ x, log[idx + 1 + k]? = some x ∧ o = evOf sid (idx + 1 + k) x := by
  refine writes_while_detached_are_replayed cfg hst ls hsc sid idx ver log hlog hidx hdone hnp ?_
  cases hf : findStream sid (run (init cfg) ls).streams with
  | none => rfl
  | some s =>
    obtain ⟨hmem, hid⟩ := findStream_some hf
    cases hat : s.attached with
    | none => simp [hat]
    | some ex =>
      exfalso
      obtain ⟨e, he, hne⟩ := claimed_only_by_live_exchange cfg ls s hmem ex hat
      obtain ⟨e', he', hes⟩ := (inv_run cfg ls).att s hmem ex hat
      rw [he] at he'; cases he'
      rw [hgone ex e he (hes.trans hid)] at hne; cases hne

/-- a sequence of resumes each of which is gone by the end of its step (broken, refused, complete …) -/
def AllEnded : Conn α → List (Hdr × Ver × Option Nat) → Prop
  | _, [] => True
  | c, g :: t => InScope c (.get g.1 g.2.1 g.2.2 : Label α) ∧
      (∀ e, (get c g.1 g.2.1 g.2.2).exs[c.exs.length]? = some e → e.ended = true) ∧ AllEnded (get c g.1 g.2.1 g.2.2) t

def getLabels (gs : List (Hdr × Ver × Option Nat)) : List (Label α) := gs.map fun g => .get g.1 g.2.1 g.2.2

/-- **C08 (however often the client resumes).**  From any reachable state in which stream `sid` is free: after ANY
number of resume attempts — of this or any other stream, from any previously issued ids, each with any write budget,
i.e. breaking before, in the middle of or after its replay — that are gone again, a further resume from
`Last-Event-ID = (sid, idx)` on a healthy connection is served and delivered exactly `log[idx+1 …]`: nothing a broken
attempt did stands in its way. -/
theorem resume_however_often (cfg : Cfg) (hst : cfg.hasStore = true) (gs : List (Hdr × Ver × Option Nat)) :
    ∀ (ls : List (Label α)) (_hsc : InScopeRun (init cfg) ls) (_hgs : AllEnded (run (init cfg) ls) gs)
    (sid idx : Nat) (ver : Ver) (log : List (Option (Item α)))
    (_hlog : (run (init cfg) ls).store sid = some log) (_hidx : idx < log.length)
    (_hdone : (run (init cfg) ls).isDone = false)
    (_hnp : (run (init cfg) ls).purged sid ≤ idx + 1)
    (_hfree : (findStream sid (run (init cfg) ls).streams).bind (·.attached) = none),
    ∃ e, (get (run (run (init cfg) ls) (getLabels gs)) (.ok sid idx) ver none).exs[(run (run (init cfg) ls) (getLabels gs)).exs.length]? = some e ∧
      e.stream = sid ∧ e.from = idx + 1 ∧ e.lost = [] ∧
      (events e.out).length = log.length - (idx + 1) ∧
      ∀ (k : Nat) (o : Out α), (events e.out)[k]? = some o →
        ∃ x, log[idx + 1 + k]? = some x ∧ o = evOf sid (idx + 1 + k) x := by
  induction gs with
  | nil =>
    intro ls hsc _ sid idx ver log hlog hidx hdone hnp hfree
    exact writes_while_detached_are_replayed cfg hst ls hsc sid idx ver log hlog hidx hdone hnp hfree
  | cons g t ih =>
    intro ls hsc hgs sid idx ver log hlog hidx hdone hnp hfree
    obtain ⟨hsg, hend, hrest⟩ := hgs
    have hw := inv_run cfg ls
    have h8 := inv08_run cfg hst ls hsc
    have hl : InvLive (run (init cfg) ls) := live_runFrom (inv_init cfg) (live_init cfg) ls
    have hcs : (run (init cfg) ls).cfg.hasStore = true := by rw [run_cfg]; exact hst
    have hrun : run (init cfg) (ls ++ [.get g.1 g.2.1 g.2.2]) = get (run (init cfg) ls) g.1 g.2.1 g.2.2 := by
      rw [run_append]; rfl
    have hstore := (get_new hw h8 hcs g.1 g.2.1 g.2.2 hsg).2.1
    have hpur : (get (run (init cfg) ls) g.1 g.2.1 g.2.2).purged = (run (init cfg) ls).purged :=
      step_purged_other (run (init cfg) ls) (.get g.1 g.2.1 g.2.2) (fun _ _ h => by cases h)
    have := ih (ls ++ [.get g.1 g.2.1 g.2.2]) (inScopeRun_append hsc ⟨hsg, trivial⟩) (by rw [hrun]; exact hrest)
      sid idx ver log (by rw [hrun, hstore]; exact hlog) hidx (by rw [hrun, get_isDone]; exact hdone)
      (by rw [hrun, hpur]; exact hnp)
      (by rw [hrun]; exact broken_resume_leaves_stream_free hw hl g.1 g.2.1 g.2.2 sid hfree hend)
    rw [hrun] at this
    exact this

end Resume
