import McpModel.Resume.Monitor
/-!
E5 — the typed core of the *claim* clauses of the C08 monitor ("however often the client resumes … the final response
stays obtainable").

`acquireStream` refuses a resume with 409 while the stream is claimed (`stream.w ≠ nil`).  The monitor keeps two facts
about the *implementation*, taken from its observations only: which exchange each stream of each session was claimed
by in the last snapshot of the real `streams` table (`held`), and which exchanges' HTTP handlers have returned (`over`).
It raises
* `refusedFree` — a GET was answered 409 although, before the record, no exchange held the stream it names or the
  holder's handler had already returned: nobody can ever release that claim, the stream's messages and its final
  response are unobtainable for as long as the request runs;
* `staleClaim` — the snapshot after the record shows a stream claimed by an exchange whose handler has returned
  (the state that makes every later resume fail like that).
`Mon.holdStep` is a pure function `HoldS → HObs → HoldS × Option ClauseH`; `McpModel.Resume.HoldBridge` proves that it
raises nothing on any observation trace of the model and what each clause means.  Core Lean only (linked into the driver).
-/
namespace Resume
namespace Mon

/-- what the claim clauses need of one record -/
structure HObs (σ : Type) where
  sess : σ                          -- the session the record's request was addressed to
  get : Option Nat                  -- the record contains a GET that names this stream (0 = the standalone stream)
  codes : List (Nat × Nat)          -- exchanges opened by the record and answered with a bare HTTP status: (exchange, code)
  ends : List Nat                   -- exchanges whose HTTP handler returned in this record
  snaps : List (σ × List Row)       -- snapshots of the real `streams` tables after the record

inductive ClauseH where
  | refusedFree | staleClaim
deriving DecidableEq, Repr

def ClauseH.text : ClauseH → String
  | .refusedFree => "C08: a resume was refused with 409 (stream claimed) although no live HTTP exchange holds the stream: however often the client resumes, the stream's messages and its final response are no longer obtainable"
  | .staleClaim => "C08: a stream is still claimed (stream.w set) by an HTTP exchange whose handler has returned: every later resume of it is refused 409, its messages and final response are no longer obtainable"

structure HoldS (σ : Type) where
  held : σ → Nat → Option Nat := fun _ _ => none    -- (session, stream) ↦ the exchange that claimed it in the last snapshot
  over : Nat → Bool := fun _ => false               -- the exchange's handler has returned

def holdInit {σ : Type} : HoldS σ := {}

variable {σ : Type} [DecidableEq σ]

/-- the exchange a snapshot shows as the claimant of stream `t` (streams absent from the table are not claimed) -/
def heldOf (rows : List Row) (t : Nat) : Option Nat := (rows.find? (fun r => r.t == t)).bind (·.att)

def applySnaps (held : σ → Nat → Option Nat) (snaps : List (σ × List Row)) : σ → Nat → Option Nat :=
  snaps.foldl (fun h s => fun s' t => if s' = s.1 then heldOf s.2 t else h s' t) held

/-- was the exchange `k` (if any) that held the stream gone already? -/
def holderGone (over : Nat → Bool) : Option Nat → Bool
  | none => true
  | some k => over k

/-- a GET of this record was refused 409 although, before the record, nobody live held the stream -/
def refused (m : HoldS σ) (o : HObs σ) : Bool :=
  match o.get with
  | some t => o.codes.any (fun x => x.2 == 409) && holderGone m.over (m.held o.sess t)
  | none => false

def rowStale (over : Nat → Bool) (r : Row) : Bool :=
  match r.att with
  | some k => over k
  | none => false

/-- some snapshot shows a stream claimed by an exchange whose handler has returned -/
def stale (over : Nat → Bool) (snaps : List (σ × List Row)) : Bool := snaps.any fun s => s.2.any (rowStale over)

def overAfter (m : HoldS σ) (o : HObs σ) : Nat → Bool := fun k => m.over k || o.ends.contains k

def holdStep (m : HoldS σ) (o : HObs σ) : HoldS σ × Option ClauseH :=
  ({ held := applySnaps m.held o.snaps, over := overAfter m o },
   if refused m o then some .refusedFree else if stale (overAfter m o) o.snaps then some .staleClaim else none)

/-- a whole trace: the state after it and the first clause raised, if any -/
def holdRun (m : HoldS σ) : List (HObs σ) → HoldS σ × Option ClauseH
  | [] => (m, none)
  | o :: t => ((holdRun (holdStep m o).1 t).1, (holdStep m o).2 <|> (holdRun (holdStep m o).1 t).2)

end Mon
end Resume
