import McpModel.Resume.InvK
import McpModel.Resume.Trace
/-!
E5 — what the difference between two states of a growing run (`Grow c c'`) consists of: per exchange the
writes it received (`newEvents`), per stream the log entries appended (`newLog`); and how the flat lists of
the observation (`sentM`, `appendsOf`) project back onto one exchange / one stream.
-/
namespace Resume
variable {α σ : Type}

/-! ### lists -/

/-- a `flatMap` over `range n` whose `i`-th block only holds elements with key `i`, filtered by key `j` -/
theorem filter_flatMap_range {β : Type} (f : Nat → List β) (key : β → Nat) (hk : ∀ i x, x ∈ f i → key x = i) (j : Nat) :
    ∀ n, ((List.range n).flatMap f).filter (fun x => key x == j) = if j < n then f j else [] := by
  intro n
  induction n with
  | zero => simp
  | succ n ih =>
    rw [List.range_succ, List.flatMap_append, List.filter_append, ih]
    simp only [List.flatMap_cons, List.flatMap_nil, List.append_nil]
    by_cases hj : j < n
    · have : (f n).filter (fun x => key x == j) = [] := by
        rw [List.filter_eq_nil_iff]
        intro x hx
        have := hk n x hx
        simp; omega
      simp [hj, this, Nat.lt_succ_of_lt hj]
    · by_cases hjn : j = n
      · subst hjn
        have : (f j).filter (fun x => key x == j) = f j := by
          rw [List.filter_eq_self]
          intro x hx
          simp [hk j x hx]
        simp [this]
      · have : (f n).filter (fun x => key x == j) = [] := by
          rw [List.filter_eq_nil_iff]
          intro x hx
          have := hk n x hx
          simp; omega
        have h2 : ¬ j < n + 1 := by omega
        simp [hj, this, h2]

theorem filter_ktrue {β : Type} (l : List β) : l.filter (fun _ => true) = l := by
  induction l <;> simp_all

theorem filter_kfalse {β : Type} (l : List β) : l.filter (fun _ => false) = [] := by
  induction l <;> simp_all

/-! ### the tagged history of an exchange: delivered writes, then lost ones -/

def tagged (e : Exch α) : List (Bool × Out α) :=
  e.out.map (fun o => (false, o)) ++ e.lost.map (fun o => (true, o))

/-- id-carrying events written / delivered / lost -/
def cAll (l : List (Bool × Out α)) : Nat := idCount (l.map (·.2))
def cRecv (l : List (Bool × Out α)) : Nat := idCount ((l.filter (fun x => !x.1)).map (·.2))
def cLost (l : List (Bool × Out α)) : Nat := idCount ((l.filter (fun x => x.1)).map (·.2))

theorem tagged_all (e : Exch α) : (tagged e).map (·.2) = e.all := by
  simp [tagged, Exch.all, List.map_map, Function.comp_def]

theorem cAll_tagged (e : Exch α) : cAll (tagged e) = idCount e.all := by
  unfold cAll; rw [tagged_all]

theorem cRecv_tagged (e : Exch α) : cRecv (tagged e) = idCount e.out := by
  simp [cRecv, tagged, List.filter_append, List.filter_map, Function.comp_def, List.map_map, filter_ktrue, filter_kfalse]

theorem cLost_tagged (e : Exch α) : cLost (tagged e) = idCount e.lost := by
  simp [cLost, tagged, List.filter_append, List.filter_map, Function.comp_def, List.map_map, filter_ktrue, filter_kfalse]

theorem cAll_snoc (l : List (Bool × Out α)) (x : Bool × Out α) :
    cAll (l ++ [x]) = cAll l + (if x.2.isEv then 1 else 0) := by
  simp [cAll, idCount_append, idCount]

theorem cRecv_snoc (l : List (Bool × Out α)) (x : Bool × Out α) :
    cRecv (l ++ [x]) = cRecv l + (if !x.1 && x.2.isEv then 1 else 0) := by
  cases hx : x.1 <;> simp [cRecv, List.filter_append, idCount_append, idCount, hx]

theorem cLost_snoc (l : List (Bool × Out α)) (x : Bool × Out α) :
    cLost (l ++ [x]) = cLost l + (if x.1 && x.2.isEv then 1 else 0) := by
  cases hx : x.1 <;> simp [cLost, List.filter_append, idCount_append, idCount, hx]

/-- the tagged history of exchange `j` (empty if it does not exist) -/
def taggedAt (c : Conn α) (j : Nat) : List (Bool × Out α) := ((c.exs[j]?).map tagged).getD []

theorem taggedAt_some {c : Conn α} {j : Nat} {e : Exch α} (h : c.exs[j]? = some e) : taggedAt c j = tagged e := by
  simp [taggedAt, h]

/-- the difference between two states is exactly what was written in between -/
theorem newEvents_spec {c c' : Conn α} (hg : Grow c c') (j : Nat) : taggedAt c' j = taggedAt c j ++ newEvents c c' j := by
  unfold taggedAt newEvents
  cases h' : c'.exs[j]? with
  | none =>
    cases h : c.exs[j]? with
    | none => rfl
    | some e => obtain ⟨e', he', _⟩ := hg.exs.2 j e h; rw [h'] at he'; cases he'
  | some e' =>
    cases h : c.exs[j]? with
    | none => simp [tagged]
    | some e =>
      obtain ⟨e'', he'', g⟩ := hg.exs.2 j e h
      rw [h'] at he''; cases he''
      obtain ⟨mo, ho⟩ := g.out
      obtain ⟨ml, hl⟩ := g.lost
      simp only [Option.map_some, Option.getD_some, tagged, ho, hl, List.drop_left, List.map_append]
      by_cases hlost : e.lost = []
      · simp [hlost]
      · have := g.order hlost
        rw [ho] at this
        have hmo : mo = [] := by simpa using this
        simp [hmo]

/-- the writes of the record to exchange `j` -/
def proj (j : Nat) (l : List (Nat × Bool × Out α)) : List (Bool × Out α) :=
  (l.filter (fun x => x.1 == j)).map (·.2)

theorem proj_cons (j : Nat) (x : Nat × Bool × Out α) (l : List (Nat × Bool × Out α)) :
    proj j (x :: l) = if x.1 = j then x.2 :: proj j l else proj j l := by
  unfold proj
  by_cases h : x.1 = j <;> simp [List.filter_cons, h]

theorem proj_sentM (c c' : Conn α) (j : Nat) : proj j (sentM c c') = newEvents c c' j := by
  unfold proj sentM
  rw [filter_flatMap_range (fun j => (newEvents c c' j).map fun x => (j, x.1, x.2)) (fun x => x.1)
    (by intro i x hx; simp only [List.mem_map] at hx; obtain ⟨_, _, rfl⟩ := hx; rfl) j]
  split
  · simp [List.map_map, Function.comp_def]
  · rename_i hj
    have : c'.exs[j]? = none := List.getElem?_eq_none (by omega)
    simp [newEvents, this]

theorem mem_sentM {c c' : Conn α} {x : Nat × Bool × Out α} (h : x ∈ sentM c c') :
    ∃ e', c'.exs[x.1]? = some e' ∧ x.2.2 ∈ e'.all := by
  unfold sentM at h
  simp only [List.mem_flatMap, List.mem_range, List.mem_map] at h
  obtain ⟨j, _, y, hy, rfl⟩ := h
  unfold newEvents at hy
  cases h' : c'.exs[j]? with
  | none => rw [h'] at hy; cases hy
  | some e' =>
    rw [h'] at hy
    refine ⟨e', by simp, ?_⟩
    simp only [List.mem_append, List.mem_map] at hy
    unfold Exch.all
    rcases hy with ⟨o, ho, rfl⟩ | ⟨o, ho, rfl⟩
    · exact List.mem_append_left _ (List.mem_of_mem_drop ho)
    · exact List.mem_append_right _ (List.mem_of_mem_drop ho)

/-! ### appended log entries -/

theorem newLog_spec {c c' : Conn α} (hg : Grow c c') (sid : Nat) :
    (c'.store sid).getD [] = (c.store sid).getD [] ++ newLog c c' sid := by
  unfold newLog
  cases h : c.store sid with
  | none => simp
  | some log =>
    obtain ⟨more, hm⟩ := hg.store sid log h
    simp [hm]

/-- the appends of the record to stream `sid` of session `s` -/
def projA [DecidableEq σ] (s : σ) (sid : Nat) (l : List (Mon.Append σ α)) : List (Option α) :=
  (l.filter (fun a => decide (a.sess = s) && a.stream == sid)).map (·.p)

theorem projA_appendsOf [DecidableEq σ] (sn : σ) (c c' : Conn α) (sid : Nat) :
    projA sn sid (appendsOf sn c c') = if sid < c'.nextSid then (newLog c c' sid).map (Option.map payloadOf) else [] := by
  unfold projA appendsOf
  have : ∀ (l : List (Mon.Append σ α)), (∀ a ∈ l, a.sess = sn) →
      l.filter (fun a => decide (a.sess = sn) && a.stream == sid) = l.filter (fun a => a.stream == sid) := by
    intro l hl
    apply List.filter_congr
    intro a ha
    simp [hl a ha]
  rw [this _ (by intro a ha; simp at ha; obtain ⟨_, _, _, _, rfl⟩ := ha; rfl)]
  rw [filter_flatMap_range (fun sid => (newLog c c' sid).map fun x => ({ sess := sn, stream := sid, p := x.map payloadOf, check := true } : Mon.Append σ α))
    (fun a => a.stream) (by intro i a ha; simp at ha; obtain ⟨_, _, rfl⟩ := ha; rfl) sid]
  split
  · simp [List.map_map, Function.comp_def]
  · rfl

end Resume
