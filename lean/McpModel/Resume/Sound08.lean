import McpModel.Resume.Monitor
/-!
# C08 — what a raised clause means (soundness of the monitor clauses)

Every C08 clause of the typed monitor core is raised exactly when the corresponding clause of the property
fails on the monitor's own ground truth — the append log it has recorded (`MonS.logs`: by `step_logs` below,
exactly the payloads the implementation appended, in order) and its per-exchange counters.  The predicates
`EventOK`, `ResumeOK`, `RowOK` are the property clauses; `*_sound` say "clause raised → predicate false"
(the monitor never flags an observation that satisfies the clause), `*_complete` the converse.
No model is involved here.
-/
namespace Resume
namespace Mon
variable {σ π : Type} [DecidableEq σ] [DecidableEq π]

/-- **exactly once, in order, ids = positions** for one id-carrying event `(t, i)` with payload `pay` written to an
exchange that serves `serves` (if known), resumed at index `frm` and has been written `nsent` id-carrying events
so far: the event names the exchange's stream, its index is the next one, and it carries the log entry there. -/
def EventOK (log : List (Option π)) (serves : Option Nat) (frm nsent t i : Nat) (pay : Option π) : Prop :=
  (∀ t', serves = some t' → t' = t) ∧ i = frm + nsent ∧ log[i]? = some pay

theorem check08_complete (m : MonS σ π) (e : MEx σ) (t i : Nat) (pay : Option π) (h : check08 m e t i pay = none) :
    EventOK (m.logs e.sess t) e.stream e.from e.nsent t i pay := by
  unfold check08 at h
  split at h
  · cases h
  · rename_i h1
    split at h
    · cases h
    · rename_i h2
      split at h
      · cases h
      · rename_i h3
        split at h
        · cases h
        · rename_i q hq
          split at h
          · rename_i hqp
            refine ⟨?_, by omega, by rw [hq, hqp]⟩
            intro t' ht'
            rw [ht'] at h1
            simp at h1
            exact h1
          · cases h

/-- a raised per-event clause refutes the property clause; each clause names the conjunct that fails -/
theorem check08_sound (m : MonS σ π) (e : MEx σ) (t i : Nat) (pay : Option π) (c : Clause08) (h : check08 m e t i pay = some c) :
    ¬ EventOK (m.logs e.sess t) e.stream e.from e.nsent t i pay ∧
    match c with
    | .otherStream => ∃ t', e.stream = some t' ∧ t' ≠ t                       -- the id names another stream
    | .repeated => i < e.from + e.nsent                                        -- an index already written: repeated / reordered
    | .gap => e.from + e.nsent < i                                             -- an index was skipped
    | .noEntry => (m.logs e.sess t)[i]? = none                                 -- nothing was appended at that index
    | .payloadDiffers => ∃ q, (m.logs e.sess t)[i]? = some q ∧ q ≠ pay         -- another payload was appended there
    | _ => False := by
  unfold check08 at h
  split at h
  · rename_i h1
    cases h
    simp only [Bool.and_eq_true, Option.isSome_iff_exists, bne_iff_ne, ne_eq] at h1
    obtain ⟨⟨t', ht'⟩, hne⟩ := h1
    have hne' : t' ≠ t := fun hh => hne (by rw [ht', hh])
    exact ⟨fun ok => hne' (ok.1 t' ht'), t', ht', hne'⟩
  · split at h
    · rename_i h2; cases h; exact ⟨fun ok => (by have := ok.2.1; omega), h2⟩
    · split at h
      · rename_i h3; cases h; exact ⟨fun ok => (by have := ok.2.1; omega), h3⟩
      · split at h
        · rename_i hq; cases h; exact ⟨fun ok => (by rw [ok.2.2] at hq; cases hq), hq⟩
        · rename_i q hq
          split at h
          · cases h
          · rename_i hqp; cases h
            exact ⟨fun ok => (by rw [ok.2.2] at hq; cases hq; exact hqp rfl), q, hq, hqp⟩

/-- **a resume replays everything after `Last-Event-ID`**: a healthy GET exchange serving `t` from index `frm` has
been delivered every entry of the log from `frm` on (when the resume point lies within the log) -/
def ResumeOK (log : List (Option π)) (frm nrecv : Nat) : Prop := frm ≤ log.length → frm + nrecv = log.length

theorem checkResume_sound (m : MonS σ π) (x : Nat × Bool) (c : Clause08) (h : checkResume m x = some c) :
    c = .resumeIncomplete ∧ ∃ e t, m.exs x.1 = some e ∧ e.isGet = true ∧ e.sse = true ∧ e.failing = false ∧ e.stream = some t ∧
      ¬ ResumeOK (m.logs e.sess t) e.from e.nrecv := by
  unfold checkResume at h
  split at h
  · cases h
  · rename_i e he
    split at h
    · rename_i hc
      simp only [Bool.and_eq_true, Bool.not_eq_true'] at hc
      split at h
      · rename_i t ht
        split at h
        · rename_i hbad
          cases h
          exact ⟨rfl, e, t, he, hc.1.1, hc.1.2, hc.2, ht, fun ok => hbad.2 (ok hbad.1)⟩
        · cases h
      · cases h
    · cases h

theorem checkResume_complete (m : MonS σ π) (x : Nat × Bool) (h : checkResume m x = none) (e : MEx σ) (t : Nat)
    (he : m.exs x.1 = some e) (hg : e.isGet = true) (hs : e.sse = true) (hf : e.failing = false) (ht : e.stream = some t) :
    ResumeOK (m.logs e.sess t) e.from e.nrecv := by
  unfold checkResume at h
  simp only [he, hg, hs, hf, ht, Bool.not_false, Bool.and_self, if_true] at h
  intro hle
  by_cases hne : e.from + e.nrecv = (m.logs e.sess t).length
  · exact hne
  · rw [if_pos ⟨hle, hne⟩] at h; cases h

/-- **`lastIdx` alignment and nothing lost while attached**: an attached, open SSE stream `t` has `lastIdx + 1 =`
length of its log, and its exchange — if healthy — has been delivered everything from its resume point on -/
def RowOK (log : List (Option π)) (next : Nat) (ex : Option (MEx σ)) (sess : σ) : Prop :=
  next = log.length ∧ ∀ e, ex = some e → e.failing = false → e.sess = sess → e.from + e.nrecv = log.length

theorem checkRow_sound (m : MonS σ π) (sess : σ) (r : Row) (c : Clause08) (h : checkRow m sess r = some c) :
    ∃ k, r.att = some k ∧ r.opn = true ∧ r.sse = true ∧ ¬ RowOK (m.logs sess r.t) r.next (m.exs k) sess ∧
      (c = .lastIdx ∧ r.next ≠ (m.logs sess r.t).length ∨
       c = .attachedIncomplete ∧ r.next = (m.logs sess r.t).length) := by
  unfold checkRow at h
  split at h
  · cases h
  · rename_i k hk
    split at h
    · rename_i hc
      simp only [Bool.and_eq_true] at hc
      split at h
      · rename_i hne
        cases h
        exact ⟨k, hk, hc.1, hc.2, fun ok => hne ok.1, Or.inl ⟨rfl, hne⟩⟩
      · rename_i heq
        have heq' : r.next = (m.logs sess r.t).length := by
          by_cases hh : r.next = (m.logs sess r.t).length
          · exact hh
          · exact absurd hh heq
        split at h
        · rename_i e he
          split at h
          · rename_i hbad
            cases h
            simp only [Bool.and_eq_true, Bool.not_eq_true', decide_eq_true_eq] at hbad
            exact ⟨k, hk, hc.1, hc.2, fun ok => hbad.2 (ok.2 e he hbad.1.1 hbad.1.2), Or.inr ⟨rfl, heq'⟩⟩
          · cases h
        · cases h
    · cases h

theorem checkRow_complete (m : MonS σ π) (sess : σ) (r : Row) (h : checkRow m sess r = none) (k : Nat)
    (hk : r.att = some k) (ho : r.opn = true) (hs : r.sse = true) : RowOK (m.logs sess r.t) r.next (m.exs k) sess := by
  unfold checkRow at h
  simp only [hk, ho, hs, Bool.and_self, if_true] at h
  split at h
  · cases h
  · rename_i heq
    have heq' : r.next = (m.logs sess r.t).length := by
      by_cases hh : r.next = (m.logs sess r.t).length
      · exact hh
      · exact absurd hh heq
    refine ⟨heq', ?_⟩
    intro e he hf hse
    rw [he] at h
    simp only [hf, hse, Bool.not_false, decide_true, Bool.true_and, Bool.and_true] at h
    by_cases hne : e.from + e.nrecv = (m.logs sess r.t).length
    · exact hne
    · simp [hne] at h

/-- **a resume never silently skips evicted messages**: a GET that resumes stream `t` at an index the store had
already evicted (`frm < first`) must not be answered with an event stream -/
def PurgeOK (first frm : Nat) (sse : Bool) : Prop := frm < first → sse = false

theorem checkPurged_sound (m : MonS σ π) (o : Obs σ π) (x : Nat × Bool) (c : Clause08) (h : checkPurged m o x = some c) :
    c = .purgedNotReported ∧ o.origin.isGet = true ∧ ∃ t, o.origin.stream = some t ∧ ¬ PurgeOK (m.first o.sess t) o.origin.from x.2 := by
  unfold checkPurged at h
  split at h
  · rename_i hc
    simp only [Bool.and_eq_true] at hc
    split at h
    · rename_i t ht
      split at h
      · rename_i hlt
        cases h
        exact ⟨rfl, hc.2, t, ht, fun ok => by have := ok hlt; rw [hc.1] at this; cases this⟩
      · cases h
    · cases h
  · cases h

theorem checkPurged_complete (m : MonS σ π) (o : Obs σ π) (x : Nat × Bool) (h : checkPurged m o x = none)
    (hg : o.origin.isGet = true) (t : Nat) (ht : o.origin.stream = some t) : PurgeOK (m.first o.sess t) o.origin.from x.2 := by
  intro hlt
  unfold checkPurged at h
  cases hx : x.2 with
  | false => rfl
  | true =>
    simp only [hx, hg, Bool.and_self, if_true, ht, hlt] at h
    cases h

/-! ### the ground truth really is the list of appends -/

/-- the payloads appended to stream `t` of session `s` by one record, in order -/
def appendsTo (s : σ) (t : Nat) (l : List (Append σ π)) : List (Option π) :=
  (l.filter (fun a => decide (a.sess = s) && a.stream == t)).map (·.p)

theorem bindPost_logs' (m : MonS σ π) (s : σ) (t k : Nat) : (m.bindPost s t k).logs = m.logs := by
  unfold MonS.bindPost; split <;> rfl

theorem routeBind_logs' (m : MonS σ π) (pv : Prov σ) (s : σ) (st k : Option Nat) : (routeBind m pv s st k).logs = m.logs := by
  cases st <;> cases pv <;> simp only [routeBind] <;> split <;> simp [bindPost_logs']

theorem foldl_logs {A : Type} (f : MonS σ π → A → MonS σ π) (hf : ∀ m a, (f m a).logs = m.logs) :
    ∀ (l : List A) (m : MonS σ π), (l.foldl f m).logs = m.logs := by
  intro l
  induction l with
  | nil => intro m; rfl
  | cons a t ih => intro m; simp only [List.foldl_cons]; rw [ih, hf]

theorem foldV_logs {A : Type} (f : MonS σ π → A → MonS σ π × Viol) (hf : ∀ m a, (f m a).1.logs = m.logs) :
    ∀ (l : List A) (m : MonS σ π), (foldV f m l).1.logs = m.logs := by
  intro l
  induction l with
  | nil => intro m; rfl
  | cons a t ih => intro m; simp only [foldV]; rw [ih, hf]

theorem learnRow_logs (o : Obs σ π) (s : σ) (m : MonS σ π) (r : Row) : (learnRow o s m r).logs = m.logs := by
  unfold learnRow
  split
  · rfl
  · split
    · rfl
    · split
      · rw [bindPost_logs']; rfl
      · rfl

theorem learnId_logs (o : Obs σ π) (m : MonS σ π) (s : Sent π) : (learnId o m s).logs = m.logs := by
  unfold learnId
  split
  · split
    · rw [bindPost_logs']; rfl
    · rfl
  · rfl

theorem ev08_logs (m : MonS σ π) (k : Nat) (e : MEx σ) (lost : Bool) (id : EvId) (pay : Option π) :
    (ev08 m k e lost id pay).1.logs = m.logs := by
  unfold ev08
  split
  · rfl
  · split <;> rfl

theorem evStep_logs (prov : π → Prov σ) (m : MonS σ π) (s : Sent π) : (evStep prov m s).1.logs = m.logs := by
  unfold evStep
  split
  · rfl
  · split
    · rfl
    · rfl
    · rfl
    · exact foldV_logs _ (fun m a => by simp [jsonOne, routeBind_logs']) _ _
    · exact ev08_logs _ _ _ _ _ _
    · rw [ev08_logs, routeBind_logs']

theorem appendOne_logs (prov : π → Prov σ) (m : MonS σ π) (a : Append σ π) (s : σ) (t : Nat) :
    (appendOne prov m a).1.logs s t = m.logs s t ++ appendsTo s t [a] := by
  have hadd : ∀ (p : Option π), (m.addLog a.sess a.stream p).logs s t =
      m.logs s t ++ (if a.sess = s ∧ a.stream = t then [p] else []) := by
    intro p
    simp only [MonS.addLog]
    by_cases h : s = a.sess ∧ t = a.stream
    · obtain ⟨rfl, rfl⟩ := h; simp
    · have h' : ¬ (a.sess = s ∧ a.stream = t) := fun ⟨x, y⟩ => h ⟨x.symm, y.symm⟩
      simp [h, h']
  have hto : appendsTo s t [a] = if a.sess = s ∧ a.stream = t then [a.p] else [] := by
    unfold appendsTo
    by_cases h : a.sess = s ∧ a.stream = t
    · simp [h]
    · rw [if_neg h]
      have : (decide (a.sess = s) && a.stream == t) = false := by
        by_cases h1 : a.sess = s
        · have : a.stream ≠ t := fun h2 => h ⟨h1, h2⟩
          simp [h1, this]
        · simp [h1]
      simp [this]
  rw [hto]
  unfold appendOne
  split
  · rename_i hp; rw [hadd, hp]
  · rename_i p hp
    split
    · rw [routeBind_logs', hadd, hp]
    · rw [hadd, hp]

theorem appendsTo_append (s : σ) (t : Nat) (l₁ l₂ : List (Append σ π)) :
    appendsTo s t (l₁ ++ l₂) = appendsTo s t l₁ ++ appendsTo s t l₂ := by
  simp [appendsTo, List.filter_append]

theorem foldV_appendOne_logs (prov : π → Prov σ) (s : σ) (t : Nat) : ∀ (l : List (Append σ π)) (m : MonS σ π),
    (foldV (appendOne prov) m l).1.logs s t = m.logs s t ++ appendsTo s t l := by
  intro l
  induction l with
  | nil => intro m; simp [foldV, appendsTo]
  | cons a rest ih =>
    intro m
    simp only [foldV]
    rw [ih, appendOne_logs, List.append_assoc, ← appendsTo_append]; rfl

theorem applyPurges_logs (l : List (σ × Nat × Nat)) (m : MonS σ π) : (applyPurges m l).logs = m.logs := by
  unfold applyPurges
  exact foldl_logs (fun (m : MonS σ π) (x : σ × Nat × Nat) =>
    { m with first := fun s t => if s = x.1 ∧ t = x.2.1 then max (m.first s t) x.2.2 else m.first s t }) (fun _ _ => rfl) l m

/-- one record extends the ground-truth log of every stream by exactly the record's appends to it -/
theorem step_logs (prov : π → Prov σ) (m : MonS σ π) (o : Obs σ π) (s : σ) (t : Nat) :
    (step prov m o).1.logs s t = m.logs s t ++ appendsTo s t o.appends := by
  show (applyPurges (foldV (evStep prov) (foldV (appendOne prov) (learnIds (learnRows (openAll m o) o) o) o.appends).1 o.sent).1
    o.purges).logs s t = _
  rw [applyPurges_logs, foldV_logs _ (evStep_logs prov), foldV_appendOne_logs]
  have : (learnIds (learnRows (openAll m o) o) o).logs = m.logs := by
    unfold learnIds learnRows openAll
    rw [foldl_logs _ (learnId_logs o),
      foldl_logs (fun (m : MonS σ π) (sn : Snap σ) => sn.rows.foldl (learnRow o sn.sess) m)
        (fun m sn => foldl_logs _ (learnRow_logs o sn.sess) _ m),
      foldl_logs (fun (m : MonS σ π) (x : Nat × Bool) => m.putEx x.1 (mkEx o x.2)) (fun m x => rfl)]
  rw [this]

/-- **the monitor's ground truth is the append log**: after any trace, the log of a stream is the list of payloads
the implementation appended to it, in order, over all records -/
theorem runV_logs (prov : π → Prov σ) (store jsonMode : Bool) (s : σ) (t : Nat) : ∀ (tr : List (Obs σ π)) (m : MonS σ π),
    (runV prov m tr).1.logs s t = m.logs s t ++ tr.flatMap (fun o => appendsTo s t o.appends) := by
  intro tr
  induction tr with
  | nil => intro m; simp [runV, foldV]
  | cons o rest ih =>
    intro m
    have := ih (step prov m o).1
    simp only [runV, foldV] at this ⊢
    rw [this, step_logs, List.append_assoc]; rfl

end Mon
end Resume
