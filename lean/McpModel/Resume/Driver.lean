import McpModel.Base.Proto
import McpModel.Resume.Model
import McpModel.Resume.Monitor
import McpModel.Resume.HoldMon
import McpModel.Resume.BatchMon
import McpModel.Resume.FanMon
import McpModel.Resume.KeepMon
import McpModel.Resume.IdMon
/-!
Driver for E5 (C08, C10).

* model side: every harness op is translated into the label list of `Resume.Model` it stands for
  (e.g. `sclose` = SCLOSE then CUT of the released exchange; `delete` = END then CUT of every hanging
  exchange; evictions the store reports (`p:` tokens) become EVICT labels) and the model's observation is
  rendered in the harness' canonical format;
* monitor side: C08 and C10 are the typed core `Resume.Mon.step` (`McpModel.Resume.Monitor`) — decidable
  predicates on what the *implementation* reported, independent of the model state: ground-truth append
  log per (session, stream), per exchange the resume point and the events received, the routing function on
  payload provenance tags.  This file only parses the harness' tokens into the typed observation
  (`parseObs`) and adds two op-level checks (a response the handler produced must not vanish).  That the
  core raises no clause on any model trace, and what each clause means, are theorems
  (`Accept08`, `Accept10`, `Sound08`, `Sound10`).

`drv_resume C08` / `drv_resume C10` restrict the reported monitor clauses to one property.
Payloads are opaque strings (`α := String`).
-/
namespace Resume
open Proto

/-! ## model side -/

structure DSess where
  name      : String
  conn      : Conn String
  exMap     : List Nat := []        -- local exchange index ↦ global exchange number
  stateless : Bool := false
  newProto  : Bool := false         -- the connection's base context carries version ≥ 2026-07-28
  listenS   : Bool := false
  parked    : List ReqId := []      -- tool handlers waiting for a command
  closing   : Bool := false         -- ServerSession.Close in progress (waits for the handlers)
  dead      : Bool := false         -- the jsonrpc2 layer no longer reaches the transport
  gone      : Bool := false         -- removed from the handler's session table
  calls     : List (String × Option ReqId × Bool) := []   -- pending server→client calls: tag, ctx, ctxNew
  names     : List SId := []        -- stream ids in order of first appearance: printed name of `names[i]` is t(i+1)
  reqIds    : List ReqId := []      -- every request id ever POSTed on this session (to enumerate `requestStreams`)
  subscribed : Bool := false        -- `resources/subscribe` was answered: entitled to `resources/updated`
  clientGone : Bool := false        -- stateless: the client dropped the POST (`cut`) before the server released it
  direct    : Bool := false         -- the application hands the session's requests to `StreamableServerTransport.ServeHTTP`
                                    -- itself (no `StreamableHTTPHandler`): no session table (no 404), no DELETE (405), and
                                    -- the request context carries no protocol version (treated as 2025-03-26)

structure DMon where
  core   : Mon.MonS String String := { store := false, jsonMode := false }   -- the typed monitor core
  gone   : List String := []                                                -- sessions that were deleted / killed
  extra10 : Option String := none                                           -- op-level clause of the last record
  hold   : Mon.HoldS String := {}                                           -- the typed core of the claim clauses (C08)
  extra08 : Option String := none                                           -- claim clause of the last record
  batch  : Mon.BatchS String := {}                                          -- the typed core of the batch clauses (C02)
  extraB : Option String := none                                            -- batch clause of the last record
  ids    : Mon.IdS String := {}                                             -- the typed core of the in-flight id clauses (C02 / C10)
  extraI : Option Mon.ClauseI := none                                       -- in-flight id clause of the last record
  fan    : Mon.FanS String Nat := {}                                        -- the typed core of the fan-out clause (C10)
  extraF : Option String := none                                            -- fan-out clause of the last record
  subs   : List String := []                                                -- sessions whose resources/subscribe was answered (from the operations)
  keep   : Mon.KeepS String := {}                                           -- the typed core of the retention clause (C08)
  extraK : Option String := none                                            -- retention clause of the last record

structure DState where
  cfg    : Option Cfg := none
  store  : Bool := false
  jsonM  : Bool := false
  sess   : List DSess := []
  nex    : Nat := 0
  mon    : DMon := {}
  evicts : List (String × String × Nat) := []   -- evictions the store reported in this record, not yet applied to the model
  ptoks  : List String := []                    -- their tokens (echoed in the model's observation)
  win    : Bool := false                        -- `racerg`: the harness reports that the write was parked inside the window
  af     : Bool := false                        -- `emit … af=1` / `resp … af=1`: the `EventStore.Append` of this op's write fails

def getSess (d : DState) (n : String) : Option DSess := d.sess.find? (·.name == n)

def putSess (d : DState) (s : DSess) : DState :=
  if d.sess.any (·.name == s.name) then { d with sess := d.sess.map fun x => if x.name == s.name then s else x }
  else { d with sess := d.sess ++ [s] }

def kvGet (toks : List String) (k : String) : Option String :=
  toks.findSome? fun t => match t.splitOn "=" with
    | [a, b] => if a == k then some b else none
    | _ => none

def parseVer (s : Option String) : Ver :=
  match s with
  | some "b" => .v0618
  | some "c" => .v1125
  | some "d" => .v0728
  | _ => .v0326         -- "a", or header absent ⇒ 2025-03-26

def parseBudget (s : Option String) : Option Nat :=
  match s with
  | none => none
  | some "-" => none
  | some x => x.toNat?

def parseIds (s : Option String) : List Nat :=
  match s with
  | none => []
  | some x => (x.splitOn ",").filterMap String.toNat?

def parseX (s : String) : Nat := ((s.drop 1).toString.toNat?).getD 0

def parseHdr (s : DSess) (h : Option String) : Hdr :=
  match h with
  | none => .none
  | some "none" => .none
  | some "bad" => .bad
  | some x => match x.splitOn Generated.Resume.eventIDSep with
    | [t, i] => match (t.drop 1).toString.toNat?, i.toNat? with
      | some n, some idx =>
        if !t.startsWith "t" then .bad
        else if n == 0 then .ok 0 idx
        else match s.names[n - 1]? with
          | some sid => .ok sid idx
          | none => .ok (1000000 + n) idx        -- a stream id nobody ever issued
      | _, _ => .bad
    | _ => .bad

/-- local index of global exchange `k` in session `s` -/
def localEx (s : DSess) (k : Nat) : Option Nat := s.exMap.idxOf? k

/-- printed name of a stream id (0 is the standalone stream); unnamed ids print as `t?` -/
def tname (s : DSess) (sid : SId) : String :=
  if sid == 0 then "t0" else
  match s.names.idxOf? sid with
  | some i => s!"t{i + 1}"
  | none => "t?"

/-- give a name to a stream id at its first appearance -/
def nameSid (s : DSess) (sid : SId) : DSess :=
  if sid == 0 || s.names.contains sid then s else { s with names := s.names ++ [sid] }

def showEvId (s : DSess) (id : Option (SId × Nat)) : String :=
  match id with
  | none => "-"
  | some (sid, i) => s!"{tname s sid}{Generated.Resume.eventIDSep}{i}"

def payloadOf (it : Item String) : String :=
  match it.msg with
  | .resp _ p => p
  | .notif p => p
  | .call p => p

def showOut (s : DSess) : Out String → String
  | .comment => "K"
  | .prime sid i => "P/" ++ showEvId s (some (sid, i))
  | .message id it => "M/" ++ showEvId s id ++ "/" ++ payloadOf it
  | .close => "Z"
  | .json items => "J/" ++ ",".intercalate (items.map payloadOf)

def showKind : Kind → String
  | .sse => "sse"
  | .json => "json"
  | .status c => toString c

def sortNat (l : List Nat) : List Nat := (l.toArray.qsort (· < ·)).toList

def showStream (s : DSess) (st : Stream String) : String :=
  let att := match st.attached with
    | none => "-"
    | some ex => match s.exMap[ex]? with
      | some k => s!"x{k}"
      | none => "?"
  let op := if st.opn then "o" else "c"
  let last : Int := (st.next : Int) - 1
  let reqs := ",".intercalate ((sortNat st.requests).map toString)
  let js := match st.json with
    | none => "s"
    | some p => s!"j{p.length}"
  let li := if st.listen then ":L" else ""
  s!"{tname s st.id}:{att}:{op}:{last}:{reqs}:{js}{li}"

/-- snapshot; streams not seen before get their names now (ascending creation order) -/
def showSnap (s0 : DSess) : DSess × String :=
  let c := s0.conn
  let ids := sortNat (c.streams.map (·.id))
  let s := ids.foldl nameSid s0
  -- rows sorted by printed name
  let named := ids.map fun i => ((s.names.idxOf? i).map (· + 1)).getD 0
  let order := sortNat named
  let rows := order.filterMap fun n =>
    let sid := if n == 0 then 0 else (s.names[n - 1]?).getD 0
    (findStream sid c.streams).map (showStream s)
  let rq := (sortNat s.reqIds.eraseDups).filterMap fun r => (c.reqStreams r).map fun sid => s!"{r}>{tname s sid}"
  (s, "S" ++ s.name ++ "[" ++ ";".intercalate rows ++ "|" ++ ",".intercalate rq ++ "]" ++ (if c.isDone then "D" else ""))

def showRes : Res → Bool → String
  | .ok, true => "pending"
  | .ok, false => "ok"
  | .rejected, _ => "rej"
  | .broken, _ => "closed"
  | .na, _ => "na"

/-- Render what changed between two driver states (same canonical order as the harness).
Returns the new state too: streams that appear for the first time are named while printing. -/
def renderDelta (old new : DState) (extra : List String) (snaps : List String) : String × DState :=
  Id.run do
    let mut opened : List (Nat × String) := []
    let mut apps : List String := []
    let mut items : List (Nat × String) := []
    let mut ends : List Nat := []
    let mut cur := new
    for s0 in new.sess do
      let o := (getSess old s0.name).getD { s0 with conn := { s0.conn with exs := [], store := fun _ => none, isDone := false }, exMap := [] }
      let oc := o.conn
      let nc := s0.conn
      -- names for streams that appear in appends / event ids (creation order)
      let keys := (List.range nc.nextSid).filter fun sid => (nc.store sid).isSome
      let s := keys.foldl nameSid s0
      cur := putSess cur s
      for sid in keys do
        let log := (nc.store sid).getD []
        let olen := ((oc.store sid).map List.length).getD 0
        for x in log.drop olen do
          let p := match x with
            | none => "-"
            | some it => payloadOf it
          -- (the standalone stream of the stateless store session "" is shared: printed first, as session `q`)
          if s.stateless && sid == 0 then apps := [s!"a:q:t0:{p}"] ++ apps
          else apps := apps ++ [s!"a:{s.name}:{tname s sid}:{p}"]
      -- a stateless handler returns only after its session has closed
      let endedNow (e : Exch String) (c : Conn String) : Bool := if s.stateless then e.ended && c.isDone else e.ended
      let mut i := 0
      for e in nc.exs do
        let k := (s.exMap[i]?).getD 0
        match oc.exs[i]? with
        | none =>
          opened := opened ++ [(k, s!"x{k}:{showKind e.kind}")]
          for o in e.out do items := items ++ [(k, s!"x{k}+{showOut s o}")]
          for o in e.lost do items := items ++ [(k, s!"x{k}!{showOut s o}")]
          if endedNow e nc then ends := ends ++ [k]
        | some oe =>
          for o in e.out.drop oe.out.length do items := items ++ [(k, s!"x{k}+{showOut s o}")]
          for o in e.lost.drop oe.lost.length do items := items ++ [(k, s!"x{k}!{showOut s o}")]
          if endedNow e nc && !endedNow oe oc then ends := ends ++ [k]
        i := i + 1
    let byK (l : List (Nat × String)) : List String :=
      ((l.toArray.insertionSort (fun a b => a.1 < b.1)).toList).map (·.2)
    let mut snapTxt : List String := []
    for n in snaps do
      match getSess cur n with
      | some s =>
        let (s', txt) := showSnap s
        cur := putSess cur s'
        snapTxt := snapTxt ++ [txt]
      | none => snapTxt := snapTxt ++ ["S" ++ n ++ "[?]"]
    let endTxt := (sortNat ends).map fun k => s!"x{k}."
    return (" ".intercalate (byK opened ++ extra ++ apps ++ old.ptoks ++ byK items ++ endTxt ++ snapTxt), cur)

/-- Apply labels to a session's connection, extending the exchange map when an exchange is created. -/
def applyLabels (d : DState) (s : DSess) (ls : List (Label String)) : DState × DSess × Res :=
  Id.run do
    let mut d := d
    let mut s := s
    let mut res := Res.na
    for l in ls do
      let before := s.conn.exs.length
      let r := stepR s.conn l
      s := { s with conn := r.1 }
      if r.2 != .na then res := r.2
      if s.conn.exs.length > before then
        d := { d with nex := d.nex + 1 }
        s := { s with exMap := s.exMap ++ [d.nex] }
      -- the store sees a stream id (Open / Append): it is named now
      s := ((List.range s.conn.nextSid).filter fun sid => (s.conn.store sid).isSome).foldl nameSid s
    return (d, s, res)

/-- one WRITE; with `d.af` its `EventStore.Append` fails (`writeFR`: nothing is appended, the message is still delivered) -/
def applyWrite (d : DState) (s : DSess) (msg : Msg String) (ctx : Option ReqId) (ctxNew : Bool) : DState × DSess × Res :=
  if d.af then
    let r := writeFR s.conn msg ctx ctxNew
    (d, { s with conn := r.1 }, r.2)
  else applyLabels d s [.write msg ctx ctxNew]

/-- exchanges of `s` that are attached to some stream (their handler is hanging) -/
def hanging (s : DSess) : List ExId := sortNat (s.conn.streams.filterMap (·.attached))

/-- After the labels of an op: handler returns that follow mechanically.
* an exchange whose stream was closed by the server (`opn = false` but still attached) is released;
* a stateless session whose POST returned starts `Close`; `Close` completes (END) once no handler is parked. -/
def settle (d : DState) (s : DSess) : DState × DSess :=
  Id.run do
    let mut d := d
    let mut s := s
    -- release exchanges of closed-but-attached streams
    for st in s.conn.streams do
      match st.attached with
      | some ex => if !st.opn then
          let r := applyLabels d s [.cut ex]
          d := r.1; s := r.2.1
      | none => pure ()
    if s.stateless && !s.closing then
      -- the single POST exchange is exchange 0
      match s.conn.exs[0]? with
      | some e => if e.ended then
          s := { s with closing := true }
          -- `serveEphemeral` (/repo 196d72e, F47): when `transport.ServeHTTP` has returned and the client is still there
          -- (the server released the exchange itself: `CloseSSEStream`), the session's input is ended and the session
          -- drained before it is closed: the jsonrpc2 reader sees EOF, the handlers still in flight are cancelled, and
          -- their error responses pass the shutdown gate and reach `Write` (request order: the harness lets cancelled
          -- handlers return one at a time) — stored on the request's own stream, which completes.  When the client has
          -- gone away (`cut`) the session is closed as before: `Close` waits for the handlers.
          if !s.clientGone then
            for r in sortNat s.parked do
              let q := applyLabels d s [.write (.resp r s!"R.{r}.err0") (some r) s.newProto]
              d := q.1; s := q.2.1
            s := { s with parked := [] }
      | none => pure ()
    if s.closing && s.parked.isEmpty && !s.conn.isDone then
      let r := applyLabels d s [.end]
      d := r.1; s := { r.2.1 with dead := true }
      for ex in hanging s do
        let r := applyLabels d s [.cut ex]
        d := r.1; s := r.2.1
    return (d, s)

/-- apply the evictions the store reported (`p:<sess>:<stream>:<first>`) to the sessions' connections -/
def applyEvicts (d : DState) : DState :=
  let d' := d.evicts.foldl (fun (acc : DState) (x : String × String × Nat) =>
    match getSess acc x.1 with
    | none => acc
    | some s =>
      let sid : Option SId := if x.2.1 == "t0" then some 0 else
        match ((x.2.1.drop 1).toString.toNat?) with
        | some n => s.names[n - 1]?
        | none => none
      match sid with
      | none => acc
      | some sid => putSess acc { s with conn := step s.conn (.evict sid x.2.2) }) d
  { d' with evicts := [] }

/-- `p:<sess>:<stream>:<first>` tokens -/
def parsePurges (itoks : List String) : List (String × String × Nat) :=
  itoks.filterMap fun t =>
    match t.splitOn ":" with
    | ["p", s, st, f] => f.toNat?.map fun n => (s, st, n)
    | ["p", s, st, f, _] => f.toNat?.map fun n => (s, st, n)      -- 5th field: f = the store has been over its limit, u = never
    | _ => none

def mkCfg (d : DState) (stateless : Bool) : Cfg :=
  { stateless := stateless, jsonResponse := d.jsonM, hasStore := d.store, noSession := stateless }

/-- an exchange answered by the HTTP handler itself (no connection involved) -/
def handlerExch (d : DState) (code : Nat) : DState × String :=
  let k := d.nex + 1
  ({ d with nex := k }, s!"x{k}:{code}")

structure OpOut where
  d     : DState
  extra : List String := []     -- handler-level exchange tokens (opened), their ends are appended by `endsX`
  endsX : List Nat := []
  snaps : List String := []
  tail  : String := ""          -- " w=…"

def withSess (d : DState) (n : String) (f : DSess → OpOut) : OpOut :=
  match getSess d n with
  | some s => f s
  | none => { d := d, snaps := [n] }

/-- `get <sess> hv= last= b=` -/
def getOp (d : DState) (n : String) (toks : List String) : OpOut :=
  withSess d n fun s =>
    if s.stateless then let (d1, t) := handlerExch d 405; { d := d1, extra := [t], endsX := [d1.nex], snaps := [n] } else
    if s.gone then let (d1, t) := handlerExch d 404; { d := d1, extra := [t], endsX := [d1.nex], snaps := [n] } else
    let (d1, s1, _) := applyLabels d s [.get (parseHdr s (kvGet toks "last")) (parseVer (kvGet toks "hv")) (parseBudget (kvGet toks "b"))]
    let (d2, s2) := settle d1 s1
    { d := putSess d2 s2, snaps := [n] }

/-- a notification written by the server side of session `n` (payload `p`, request context `ctx`): nothing once the
jsonrpc2 layer no longer reaches the transport; a broken write (session closed) cancels the handlers in flight -/
def notifWrite (d : DState) (n : String) (p : String) (ctx : Option ReqId) : DState :=
  match getSess d n with
  | none => d
  | some s =>
    if s.dead || (s.closing && s.parked.isEmpty) then d else
    let (d1, s1, res) := applyLabels d s [.write (.notif p) ctx false]
    let s1 := if res == .broken then { s1 with dead := true, parked := [] } else s1
    let (d2, s2) := settle d1 s1
    putSess d2 s2

/-- the model's reaction to one harness op -/
def modelOp (d : DState) (toks : List String) : Option OpOut :=
  match toks with
  | "plain" :: n :: _ =>
    -- a request that is answered at once (resources/subscribe): POST, then the response on its own stream
    let id := ((kvGet toks "id").bind String.toNat?).getD 0
    let v := parseVer (kvGet toks "hv")
    some <| withSess d n fun s =>
      if s.gone then let (d1, t) := handlerExch d 404; { d := d1, extra := [t], endsX := [d1.nex], snaps := [n] } else
      let dup := (s.conn.reqStreams id).isSome
      let s := { s with reqIds := s.reqIds ++ [id] }
      let (d1, s1, _) := applyLabels d s ([.post [id] false v (parseBudget (kvGet toks "b"))] ++
        (if dup then [] else [.write (.resp id s!"R.{id}.plain") (some id) false]))
      let s1 := if dup then s1 else { s1 with subscribed := true }
      let (d2, s2) := settle d1 s1
      { d := putSess d2 s2, snaps := [n] }
  | "fanout" :: rest =>
    -- `Server.ResourceUpdated` issued while a request of one session is in flight: every subscribed, live session gets
    -- its copy, written with the BACKGROUND context in that session (label FANOUT of the world model), whatever context
    -- the caller passed
    match rest.span (· != "|") with
    | ([n, r, x, hb, serial], _ :: names) =>
      let p := "F." ++ ".".intercalate [n, r, x, hb, serial]
      let d' := d.sess.foldl (fun (acc : DState) (s0 : DSess) =>
        match getSess acc s0.name with
        | none => acc
        | some s => if s.subscribed && !s.gone then notifWrite acc s.name p none else acc) d
      some { d := d', snaps := names, tail := " w=ok" }
    | _ => none
  | "getp" :: rest =>
    -- a resume of session `n`; while it is served (after `EventStore.After` took its snapshot) a handler of ANOTHER session
    -- writes `nn` notifications: the resume is one atomic GET label (`replay_atomic_wrt_eviction`), the writes follow;
    -- the evictions the store reports are applied at the end of the op, as always
    match rest.span (· != "|") with
    | (n :: gargs, [_, bn, r, x, flag, nn, serial]) =>
      let o1 := getOp d n gargs
      let rid := r.toNat?.getD 0
      let cnt := ((kvGet [nn] "n").bind String.toNat?).getD 0
      let ser := serial.toNat?.getD 0
      let ctx := if flag == "c" then some rid else none
      let d2 := (List.range cnt).foldl (fun (acc : DState) i =>
        notifWrite acc bn ("N." ++ ".".intercalate [bn, r, x, flag, toString (ser + i)]) ctx) o1.d
      some { o1 with d := d2, snaps := [n, bn] }
    | _ => none
  | "init" :: n :: _ =>
    let id := ((kvGet toks "id").bind String.toNat?).getD 0
    let v := parseVer (kvGet toks "v")
    let s : DSess := { name := n, conn := init (mkCfg d false), reqIds := [id], direct := kvGet toks "dt" == some "1" }
    let (d1, s1, _) := applyLabels d s [.post [id] false v (parseBudget (kvGet toks "b")),
                                        .write (.resp id s!"R.{id}.init") (some id) false]
    let (d2, s2) := settle d1 s1
    some { d := putSess d2 s2, snaps := [n] }
  | "cancel" :: n :: _ =>
    -- the client's notifications/cancelled for a request in flight: a POST without calls (202).  Nothing is released:
    -- the request stays registered until its response is written (`registration_removed_only_by_response`)
    some <| withSess d n fun s =>
      if s.gone then let (d1, t) := handlerExch d 404; { d := d1, extra := [t], endsX := [d1.nex], snaps := [n] } else
      let (d1, s1, _) := applyLabels d s [.post [] false (parseVer (kvGet toks "hv")) none]
      { d := putSess d1 s1, snaps := [n] }
  | "note" :: n :: _ =>
    some <| withSess d n fun s =>
      if s.gone then let (d1, t) := handlerExch d 404; { d := d1, extra := [t], endsX := [d1.nex], snaps := [n] } else
      let (d1, s1, _) := applyLabels d s [.post [] false (parseVer (kvGet toks "hv")) none]
      { d := putSess d1 s1, snaps := [n] }
  | "call" :: n :: _ =>
    let ids := parseIds (kvGet toks "ids")
    let v := parseVer (kvGet toks "hv")
    let b := parseBudget (kvGet toks "b")
    if (d.cfg.map (·.stateless)).getD false then
      let s : DSess := { name := n, conn := init (mkCfg d true), stateless := true, newProto := v.isNew, parked := ids, reqIds := ids }
      let (d1, s1, _) := applyLabels d s [.post ids false v b]
      let (d2, s2) := settle d1 s1
      some { d := putSess d2 s2, snaps := [n] }
    else
      some <| withSess d n fun s =>
        if s.gone then let (d1, t) := handlerExch d 404; { d := d1, extra := [t], endsX := [d1.nex], snaps := [n] } else
        let dup := (dedup ids).any fun r => (s.conn.reqStreams r).isSome
        let s := { s with reqIds := s.reqIds ++ ids }
        let (d1, s1, _) := applyLabels d s [.post ids false v b]
        let s1 := if dup then s1 else { s1 with parked := s1.parked ++ ids }
        let (d2, s2) := settle d1 s1
        { d := putSess d2 s2, snaps := [n] }
  | "duprace" :: n :: _ =>
    -- two POSTs with the same call ids; the first (exchange nex+1) is held inside `EventStore.Open` — i.e. in front of
    -- its check-and-register section — while the second (exchange nex+2) runs: the second is served first
    let ids := parseIds (kvGet toks "ids")
    let v := parseVer (kvGet toks "hv")
    some <| withSess d n fun s =>
      if s.gone then let (d1, t) := handlerExch d 404; { d := d1, extra := [t], endsX := [d1.nex], snaps := [n] } else
      let dup := (dedup ids).any fun r => (s.conn.reqStreams r).isSome
      let c1 := step s.conn (.post ids false v none)      -- B
      let c2 := step c1 (.post ids false v none)          -- A: refused, the id is in flight now
      let s1 := { s with conn := c2, reqIds := s.reqIds ++ ids, exMap := s.exMap ++ [d.nex + 2, d.nex + 1] }
      let s1 := ((List.range s1.conn.nextSid).filter fun sid => (s1.conn.store sid).isSome).foldl nameSid s1
      let s1 := if dup then s1 else { s1 with parked := s1.parked ++ ids }
      let d1 := { d with nex := d.nex + 2 }
      let (d2, s2) := settle d1 s1
      { d := putSess d2 s2, snaps := [n] }
  | "listen" :: n :: _ =>
    let id := ((kvGet toks "id").bind String.toNat?).getD 0
    let s : DSess := { name := n, conn := init (mkCfg d true), stateless := true, newProto := true, listenS := true, parked := [id], reqIds := [id] }
    let (d1, s1, _) := applyLabels d s [.post [id] true .v0728 (parseBudget (kvGet toks "b")),
                                        .write (.notif "U.notifications/subscriptions/acknowledged") (some id) true]
    let (d2, s2) := settle d1 s1
    some { d := putSess d2 s2, snaps := [n] }
  | "toolchange" :: _ :: names =>
    let d' := d.sess.foldl (fun (acc : DState) (s0 : DSess) =>
      match getSess acc s0.name with
      | none => acc
      | some s =>
        -- legacy sessions are notified on their standalone stream, 2026-07-28 sessions only if they listen;
        -- a session that is closing still lets notifications through while a handler is in flight
        if (s.listenS || !s.newProto) && !s.dead && !(s.closing && s.parked.isEmpty) then
          let (d1, s1, _) := applyLabels acc s [.write (.notif "U.notifications/tools/list_changed") none false]
          let (d2, s2) := settle d1 s1
          putSess d2 s2
        else acc) d
    some { d := d', snaps := names }
  | ["emit", n, r, x, kind, flag, serial] =>
    some <| withSess d n fun s =>
      let rid := r.toNat?.getD 0
      let tag := ".".intercalate [n, r, x, flag, serial]
      let isCall := kind == "C" || kind == "P" || kind == "R"      -- sampling, ping, roots/list: server→client requests
      let ctx := if flag == "c" then some rid else none
      let ctxNew := s.newProto && flag == "c"
      if isCall && s.newProto then
        -- ≥ 2026-07-28: server-initiated requests are refused by ServerSession before any write
        { d := d, snaps := [n], tail := " w=err" }
      else if s.dead || (s.closing && (isCall || s.parked.isEmpty)) then
        { d := d, snaps := [n], tail := " w=closing" }
      else
        let msg : Msg String := if isCall then .call ("C." ++ tag) else .notif ("N." ++ tag)
        let (d1, s1, res) := applyWrite d s msg ctx ctxNew
        -- a broken write makes jsonrpc2 cancel every handler in flight
        let s1 := if res == .broken then { s1 with dead := true, parked := [] } else s1
        let s1 := if isCall && res == .ok then { s1 with calls := s1.calls ++ [(tag, ctx, ctxNew)] } else s1
        let (d2, s2) := settle d1 s1
        { d := putSess d2 s2, snaps := [n], tail := " w=" ++ showRes res isCall }
  | ["resp", n, r, x] =>
    some <| withSess d n fun s =>
      let rid := r.toNat?.getD 0
      let s := { s with parked := s.parked.erase rid }
      if s.dead then
        -- the writer is broken / the connection is gone: the response reaches nothing
        -- (a handler that finishes *during* Close still has its response written: the shutdown gate
        -- lets responses pass while the writer is healthy)
        let (d2, s2) := settle d s
        { d := putSess d2 s2, snaps := [n] }
      else
        let (d1, s1, res) := applyWrite d s (.resp rid (".".intercalate ["R", r, n, r, x])) (some rid) s.newProto
        let s1 := if res == .broken then { s1 with dead := true } else s1
        let (d2, s2) := settle d1 s1
        { d := putSess d2 s2, snaps := [n] }
  | "sclose" :: n :: r :: _ =>
    some <| withSess d n fun s =>
      if s.newProto then { d := d, snaps := [n] } else
      let (d1, s1, _) := applyLabels d s [.sclose (r.toNat?.getD 0) ((kvGet toks "retry") == some "1")]
      let (d2, s2) := settle d1 s1
      { d := putSess d2 s2, snaps := [n] }
  | ["wfail", x, n] =>
    some <| withSess d n fun s =>
      match localEx s (parseX x) with
      | none => { d := d, snaps := [n] }
      | some ex =>
        let (d1, s1, _) := applyLabels d s [.wfail ex]
        { d := putSess d1 s1, snaps := [n] }
  | ["cut", x, n] =>
    some <| withSess d n fun s =>
      match localEx s (parseX x) with
      | none => { d := d, snaps := [n] }
      | some ex =>
        -- cancelling the context of an exchange whose handler already returned changes nothing
        if ((s.conn.exs[ex]?).map (·.ended)).getD true then { d := d, snaps := [n] } else
        -- subscriptions/listen: the request's cancellation is propagated to the handler, which returns
        let s := if s.listenS then { s with parked := [] } else s
        let s := if s.stateless then { s with clientGone := true } else s
        let (d1, s1, _) := applyLabels d s [.cut ex]
        let (d2, s2) := settle d1 s1
        { d := putSess d2 s2, snaps := [n] }
  | "get" :: n :: _ => some (getOp d n toks)
  | ["delete", n] =>
    some <| withSess d n fun s =>
      if s.gone then let (d1, t) := handlerExch d 404; { d := d1, extra := [t], endsX := [d1.nex], snaps := [n] } else
      -- `StreamableServerTransport.ServeHTTP` serves GET and POST only: 405, the session lives on
      if s.direct then let (d1, t) := handlerExch d 405; { d := d1, extra := [t], endsX := [d1.nex], snaps := [n] } else
      let (d0, t) := handlerExch d 204
      let s := { s with closing := true, gone := true }
      let (d2, s2) := settle d0 s
      { d := putSess d2 s2, extra := [t], endsX := [d0.nex], snaps := [n] }
  | ["kill", n] =>
    -- the transport is closed underneath the session (streamableServerConn.Close called directly)
    some <| withSess d n fun s =>
      let (d1, s1, _) := applyLabels d s [.end]
      let (d2, s2) := (hanging s1).foldl (fun (acc : DState × DSess) ex =>
        let r := applyLabels acc.1 acc.2 [.cut ex]; (r.1, r.2.1)) (d1, s1)
      -- the jsonrpc2 reader sees EOF: the connection shuts down and cancels the handlers in flight.  Their
      -- (error) responses still pass the shutdown gate while the writer is healthy: the first one (the harness
      -- lets cancelled handlers return in request order) reaches `Write`, which drops its `requestStreams`
      -- entry and fails with "session is closed"; that breaks the writer, and nothing reaches the transport any more
      let (d3, s3) := match (if s.dead then [] else sortNat s2.parked) with
        | r :: _ =>
          let q := applyLabels d2 s2 [.write (.resp r "R.cancelled") (some r) s2.newProto]
          (q.1, q.2.1)
        | [] => (d2, s2)
      let s3 := { s3 with closing := true, dead := true, parked := [] }
      { d := putSess d3 s3, snaps := [n] }
  | ["answer", n, tag] =>
    some <| withSess d n fun s =>
      if s.gone then let (d1, t) := handlerExch d 404; { d := d1, extra := [t], endsX := [d1.nex], snaps := [n] } else
      let (d1, s1, _) := applyLabels d s [.post [] false .v0326 none]
      let s1 := { s1 with calls := s1.calls.filter (·.1 != tag) }
      { d := putSess d1 s1, snaps := [n] }
  | ["cancelcall", n, tag] =>
    some <| withSess d n fun s =>
      match s.calls.find? (·.1 == tag) with
      | none => { d := d, snaps := [n] }
      | some (_, ctx, ctxNew) =>
        let s := { s with calls := s.calls.filter (·.1 != tag) }
        if s.dead then { d := putSess d s, snaps := [n] } else
        let (d1, s1, res) := applyLabels d s [.write (.notif ("X." ++ tag)) ctx ctxNew]
        let s1 := if res == .broken then { s1 with dead := true } else s1
        let (d2, s2) := settle d1 s1
        { d := putSess d2 s2, snaps := [n] }
  | "racerg" :: rest =>
    -- the write is held between its routing section and its delivery section while the GET runs (`win=1`, a tree with the
    -- yield hook); without the hook (`win=0`) the write simply completes first
    match rest.span (· != "|") with
    | ([n, r, x, kind, flag, serial], _ :: (gn :: gargs)) =>
      some <| withSess d n fun s =>
        let rid := r.toNat?.getD 0
        let tag := ".".intercalate [n, r, x, flag, serial]
        let isCall := kind == "C"
        let ctx := if flag == "c" then some rid else none
        let msg : Msg String := if isCall then .call ("C." ++ tag) else .notif ("N." ++ tag)
        let g : Label String := .get (parseHdr s (kvGet gargs "last")) (parseVer (kvGet gargs "hv")) (parseBudget (kvGet gargs "b"))
        if gn != n then { d := d, snaps := [n] } else
        let win := d.win
        let (d1, s1, res) :=
          if win then
            let (da, sa, r1) := applyLabels d s [.wroute msg ctx false]
            if r1 != .na then
              -- refused by the routing section: nothing pending
              let (db, sb, _) := applyLabels da sa [g]
              (db, sb, r1)
            else
              let (db, sb, _) := applyLabels da sa [g]
              applyLabels db sb [.wdeliver sa.conn.pendW.length.pred]
          else applyLabels d s [.write msg ctx false, g]
        let s1 := if isCall && res == .ok then { s1 with calls := s1.calls ++ [(tag, ctx, false)] } else s1
        let (d2, s2) := settle d1 s1
        { d := putSess d2 s2, snaps := [n], tail := " w=" ++ showRes res isCall ++ " win=" ++ (if win then "1" else "0") }
    | _ => none
  | "racewg" :: rest | "racegw" :: rest =>
    let writeFirst := toks.head? == some "racewg"
    match rest.span (· != "|") with
    | ([n, r, x, kind, flag, serial], _ :: (gn :: gargs)) =>
      some <| withSess d n fun s =>
        let rid := r.toNat?.getD 0
        let tag := ".".intercalate [n, r, x, flag, serial]
        let isCall := kind == "C"
        let ctx := if flag == "c" then some rid else none
        let msg : Msg String := if isCall then .call ("C." ++ tag) else .notif ("N." ++ tag)
        let w : Label String := .write msg ctx false
        let g : Label String := .get (parseHdr s (kvGet gargs "last")) (parseVer (kvGet gargs "hv")) (parseBudget (kvGet gargs "b"))
        if gn != n then { d := d, snaps := [n] } else
        -- (the harness lifts the store's limit for the duration of a race: evictions reported in this record happened
        -- after both parties were done and are applied at the end of the op, like for any other op)
        let (d1, s1, res) := applyLabels d s (if writeFirst then [w, g] else [g, w])
        let s1 := if isCall && res == .ok then { s1 with calls := s1.calls ++ [(tag, ctx, false)] } else s1
        let (d2, s2) := settle d1 s1
        { d := putSess d2 s2, snaps := [n], tail := " w=" ++ showRes res isCall }
    | _ => none
  | ["gc"] => some { d := d }            -- the garbage collector ran: nothing observable
  | ["purge", _] => some { d := d }
  | ["maxbytes", _] => some { d := d }
  | _ => none

/-! ## monitor side (on the implementation's observation only)

The property monitors are the typed core `Resume.Mon.step` (`McpModel.Resume.Monitor`; its behaviour on the
model's own observations and the meaning of every clause are theorems of `McpModel.Resume.Bridge*`).  What
follows is the string layer: the harness' tokens are parsed into an `Mon.Obs String String` — session names
and payloads stay strings, stream names `t<n>` and exchange names `x<k>` become numbers. -/

/-- `t3` ↦ 3 -/
def parseT (t : String) : Option Nat := if t.startsWith "t" then (t.drop 1).toString.toNat? else none

/-- split `t3_12` into stream name and index -/
def splitEvId (id : String) : Option (String × Nat) :=
  match id.splitOn Generated.Resume.eventIDSep with
  | [t, i] => i.toNat?.map fun n => (t, n)
  | _ => none

def parseEvId (id : String) : Mon.EvId :=
  if id == "-" then .none else
  match splitEvId id with
  | some (t, i) => match parseT t with
    | some n => .ok n i
    | none => .bad
  | none => .bad

/-- provenance of a payload tag: `R.<id>.<sess>.<req>.x<post>`, `N|C|X.<sess>.<req>.x<post>.<c|d>.<serial>`,
`F.<sess>.<req>.x<post>.<h|b>.<serial>` (a copy of a server-level notification issued inside that handler) -/
def provOf (p : String) : Mon.Prov String :=
  match p.splitOn "." with
  | ["R", id, "init"] => match id.toNat? with
    | some i => .initResp i
    | none => .other
  | ["R", id, "plain"] => match id.toNat? with      -- the answer to `plain` (resources/subscribe): known by its id only
    | some i => .initResp i
    | none => .other
  | ["R", id, "err0"] => match id.toNat? with       -- the error response of a handler the closing session cancelled
    | some i => .initResp i                         -- (`serveEphemeral` drains a sessionless session): known by its id only
    | none => .other
  | ["F", s, r, x, hb, _] => .fanout s (r.toNat?.getD 0) (parseX x) (hb == "h")
  | ["R", id, s, r, x] => match id.toNat?, r.toNat? with
    | some i, some q => .resp i s q (parseX x)
    | _, _ => .other
  | [k, s, r, x, "c", _] => if k == "N" || k == "C" || k == "X" then .inReq s (r.toNat?.getD 0) (parseX x) else .other
  | [k, s, _, _, "d", _] => if k == "N" || k == "C" || k == "X" then .detached s else .other
  | "U" :: _ => .server
  | _ => .other

/-- one write `K`, `Z`, `P/<id>`, `M/<id>/<payload>`, `J/<p1>,<p2>` -/
def parseOut (ev : String) : Mon.MOut String :=
  match ev.splitOn "/" with
  | ["K"] => .comment
  | ["Z"] => .close
  | "J" :: rest => .json (("/".intercalate rest).splitOn ",")
  | kind :: id :: rest => if kind == "P" then .prime (parseEvId id) else .message (parseEvId id) ("/".intercalate rest)
  | _ => .junk

/-- `x3+<event>` (delivered) / `x3!<event>` (written into a failing writer) -/
def parseSent (t : String) : Option (Mon.Sent String) :=
  if !t.startsWith "x" then none else
  match t.splitOn "+", t.splitOn "!" with
  | xk :: ev :: more, _ =>
    if !xk.contains '!' then some { k := parseX xk, lost := false, out := parseOut ("+".intercalate (ev :: more)) }
    else match t.splitOn "!" with
      | xk :: ev :: more => some { k := parseX xk, lost := true, out := parseOut ("!".intercalate (ev :: more)) }
      | _ => none
  | _, xk :: ev :: more => some { k := parseX xk, lost := true, out := parseOut ("!".intercalate (ev :: more)) }
  | _, _ => none

/-- snapshot `S<name>[t2:x3:o:4:1,2:s[:L];…|reqs]D?` -/
def parseSnap (tok : String) : Option (String × List Mon.Row) :=
  if !tok.startsWith "S" then none else
  match tok.splitOn "[" with
  | [nm, rest] =>
    let name := (nm.drop 1).toString
    match rest.splitOn "|" with
    | rowsTxt :: _ =>
      let rows := (rowsTxt.splitOn ";").filterMap fun r =>
        match r.splitOn ":" with
        | t :: att :: op :: last :: _ :: js :: _ =>
          (parseT t).map fun n =>
            ({ t := n, att := if att.startsWith "x" then some (parseX att) else none, opn := op == "o",
               next := (last.toInt?.getD (-1) + 1).toNat, sse := js == "s" } : Mon.Row)
        | _ => none
      some (name, rows)
    | _ => none
  | _ => none

def parseHdrObs (l : Option String) : Mon.ObsHdr :=
  match l with
  | none => .absent
  | some "none" => .absent
  | some l => match splitEvId l with
    | some (t, i) => match parseT t with
      | some n => .ok n i
      | none => .bad
    | none => .bad

/-- what the op says about the exchange it opens -/
def originOf (toks : List String) : String × Mon.Origin :=
  let np := kvGet toks "hv" == some "d"
  let opSess := (toks[1]?).getD ""
  match toks.head? with
  | some "init" => (opSess, .post ((kvGet toks "id").bind String.toNat?).toList false np)
  | some "listen" => (opSess, .post ((kvGet toks "id").bind String.toNat?).toList true true)
  | some "call" => (opSess, .post (parseIds (kvGet toks "ids")) false np)
  | some "plain" => (opSess, .post ((kvGet toks "id").bind String.toNat?).toList false np)
  | some "get" | some "getp" => (opSess, .get (parseHdrObs (kvGet toks "last")) np)
  | some "racewg" | some "racegw" | some "racerg" =>
    let g := toks.dropWhile (· != "|")
    ((g[1]?).getD opSess, .get (parseHdrObs (kvGet g "last")) np)
  | _ => (opSess, .post [] false np)

/-- the implementation's observation of one record, typed -/
def parseObs (d : DState) (toks : List String) (impl : String) : Mon.Obs String String :=
  let itoks := words impl
  let (sess, origin) := originOf toks
  { sess := sess, origin := origin,
    opened := itoks.filterMap fun t =>
      if t.startsWith "x" && !t.contains '+' && !t.contains '!' then
        match t.splitOn ":" with
        | [xk, kind] => some (parseX xk, kind == "sse")
        | _ => none
      else none,
    appends := itoks.filterMap fun t =>
      match t.splitOn ":" with
      | "a" :: s :: stream :: rest =>
        let p := ":".intercalate rest
        (parseT stream).map fun n => ({ sess := s, stream := n, p := if p == "-" then none else some p, check := s != "q" } : Mon.Append String String)
      | _ => none,
    sent := itoks.filterMap parseSent,
    snaps := itoks.filterMap fun t =>
      (parseSnap t).map fun (name, rows) =>
        ({ sess := name, newProto := ((getSess d name).map (·.newProto)).getD false, rows := rows } : Mon.Snap String),
    purges := (parsePurges itoks).filterMap fun x => (parseT x.2.1).map fun n => (x.1, n, x.2.2) }

/-- the implementation's observation of one record as the claim clauses see it: the GET's stream, the exchanges that were
answered with a bare status, the handlers that returned, the snapshots of the real `streams` tables -/
def parseHObs (toks : List String) (impl : String) : Mon.HObs String :=
  let itoks := words impl
  let (sess, origin) := originOf toks
  let plain := fun (t : String) => t.startsWith "x" && !t.contains '+' && !t.contains '!'
  { sess := sess, get := origin.stream,
    codes := itoks.filterMap fun t =>
      if plain t then
        match t.splitOn ":" with
        | [xk, kind] => kind.toNat?.map fun code => (parseX xk, code)
        | _ => none
      else none,
    ends := itoks.filterMap fun t =>
      if plain t && t.endsWith "." && !t.contains ':' then some (parseX ((t.splitOn ".").headD "")) else none,
    snaps := itoks.filterMap fun t => if (t.splitOn "[?]").length > 1 then none else parseSnap t }

/-- the implementation's observation of one record as the retention clause (C08) sees it: the GET's well-formed
Last-Event-ID, the exchanges answered with a bare status, the (session, stream) of every accepted append, whether an
eviction by a store that has been over its limit is reported (`p:…:f`), the `isDone` flags of the snapshots -/
def parseKObs (toks : List String) (impl : String) : Mon.KObs String :=
  let itoks := words impl
  let (sess, origin) := originOf toks
  let plain := fun (t : String) => t.startsWith "x" && !t.contains '+' && !t.contains '!'
  { sess := sess,
    get := match origin with
      | .get (.ok t i) _ => some (t, i)
      | _ => none,
    codes := itoks.filterMap fun t =>
      if plain t then
        match t.splitOn ":" with
        | [xk, kind] => kind.toNat?.map fun code => (parseX xk, code)
        | _ => none
      else none,
    appends := itoks.filterMap fun t =>
      match t.splitOn ":" with
      | "a" :: s :: stream :: _ => (parseT stream).map fun n => (s, n)
      | _ => none,
    forced := itoks.filterMap fun t =>
      match t.splitOn ":" with
      | ["p", s, st, f, fl] => if fl == "u" then none else (parseT st).bind fun n => f.toNat?.map fun k => (s, n, k)
      | ["p", s, st, f] => (parseT st).bind fun n => f.toNat?.map fun k => (s, n, k)
      | _ => none,
    closed := itoks.filterMap fun t =>
      if !t.startsWith "S" || (t.splitOn "[?]").length > 1 then none else
      match t.splitOn "[" with
      | [nm, rest] => some ((nm.drop 1).toString, rest.endsWith "D")
      | _ => none }

/-- snapshot `S<name>[t2:x3:o:4:1,2:s[:L];…|1>t2,2>t2]D?` with the outstanding requests and `requestStreams` -/
def parseBSnap (tok : String) : Option (Mon.BSnap String) :=
  if !tok.startsWith "S" || (tok.splitOn "[?]").length > 1 then none else
  match tok.splitOn "[" with
  | [nm, rest] =>
    let name := (nm.drop 1).toString
    let done := rest.endsWith "D"
    match ((rest.splitOn "]").headD "").splitOn "|" with
    | [rowsTxt, regsTxt] =>
      let rows := (rowsTxt.splitOn ";").filterMap fun r =>
        match r.splitOn ":" with
        | t :: att :: op :: _ :: reqs :: js :: _ =>
          (parseT t).map fun n =>
            ({ t := n, att := if att.startsWith "x" then some (parseX att) else none, opn := op == "o",
               sse := js == "s", reqs := (reqs.splitOn ",").filterMap String.toNat? } : Mon.BRow)
        | _ => none
      let regs := (regsTxt.splitOn ",").filterMap fun x =>
        match x.splitOn ">" with
        | [r, t] => match r.toNat?, parseT t with
          | some rn, some tn => some (rn, tn)
          | _, _ => none
        | _ => none
      some { sess := name, done := done, rows := rows, regs := regs }
    | _ => none
  | _ => none

/-- the implementation's observation of one record as the batch clauses (C02) see it -/
def parseBObs (toks : List String) (impl : String) : Mon.BObs String String :=
  let itoks := words impl
  let plain := fun (t : String) => t.startsWith "x" && !t.contains '+' && !t.contains '!'
  { op := match toks with
      | ["resp", n, r, x] => .resp n (r.toNat?.getD 0) (".".intercalate ["R", r, n, r, x])
      | _ => .other,
    sent := itoks.filterMap parseSent,
    ends := itoks.filterMap fun t =>
      if plain t && t.endsWith "." && !t.contains ':' then some (parseX ((t.splitOn ".").headD "")) else none,
    snaps := itoks.filterMap parseBSnap }

/-- snapshot `S<name>[t0:x3:o:4::s;t2:-:c:0:1:s:L|…]D?` as the fan-out clause sees it -/
def parseFSnap (tok : String) : Option (String × Bool × List (Mon.FRow Nat)) :=
  if !tok.startsWith "S" || (tok.splitOn "[?]").length > 1 then none else
  match tok.splitOn "[" with
  | [nm, rest] =>
    let name := (nm.drop 1).toString
    let done := rest.endsWith "D"
    match ((rest.splitOn "]").headD "").splitOn "|" with
    | rowsTxt :: _ =>
      let rows := (rowsTxt.splitOn ";").filterMap fun r =>
        match r.splitOn ":" with
        | t :: att :: op :: _ :: _ :: js :: more =>
          (parseT t).map fun n =>
            ({ t := n, att := if att.startsWith "x" then some (parseX att) else none, opn := op == "o",
               sse := js == "s", listen := more.contains "L" } : Mon.FRow Nat)
        | _ => none
      some (name, done, rows)
    | _ => none
  | _ => none

/-- the implementation's observation of one record as the fan-out clause (C10) sees it; `subs` = the sessions entitled
to a copy according to the operations so far -/
def parseFObs (subs : List String) (toks : List String) (impl : String) : Mon.FObs String String Nat :=
  let itoks := words impl
  { fan := match toks with
      | "fanout" :: rest => match rest.span (· != "|") with
        -- (judged only when the server's call took place and returned: `w=ok`; `nocall` = the issuing handler does not exist)
        | ([n, r, x, hb, serial], _) => if itoks.contains "w=ok" then some ("F." ++ ".".intercalate [n, r, x, hb, serial], subs) else none
        | _ => none
      | _ => none,
    appends := itoks.filterMap fun t =>
      match t.splitOn ":" with
      | "a" :: s :: _ :: rest => let p := ":".intercalate rest; if p == "-" then none else some (s, p)
      | _ => none,
    sent := (itoks.filterMap parseSent).flatMap fun x =>
      match x.out with
      | .message _ p => [(x.k, p)]
      | .json ps => ps.map fun p => (x.k, p)
      | _ => [],
    snaps := itoks.filterMap parseFSnap }

def DMon.init (store jsonMode : Bool) : DMon := { core := Mon.init store jsonMode, fan := Mon.fanInit store }

/-- Evaluate the monitors on one record of the implementation: the typed core, plus two checks that relate
the *operation* to the observation (a response the handler produced must not vanish). -/
def DMon.onRecord (m : DMon) (d : DState) (toks : List String) (impl : String) : DMon × Mon.Viol :=
  let itoks := words impl
  let r := Mon.step provOf m.core (parseObs d toks impl)
  let hr := Mon.holdStep m.hold (parseHObs toks impl)
  let br := Mon.batchStep m.batch (parseBObs toks impl)
  let fr := Mon.fanStep m.fan (parseFObs (m.subs.filter fun n => !m.gone.contains n) toks impl)
  let kr := Mon.keepStep m.keep (parseKObs toks impl)
  let m : DMon := { m with core := r.1, hold := hr.1, extra08 := hr.2.map Mon.ClauseH.text,
                           batch := br.1, extraB := br.2.map Mon.ClauseB.text,
                           fan := fr.1, extraF := fr.2.map Mon.ClauseF.text,
                           keep := kr.1, extraK := if d.store then kr.2.map Mon.ClauseK.text else none }
  -- a session is entitled to resources/updated once its resources/subscribe has been answered
  let m : DMon := match toks with
    | "plain" :: n :: _ =>
      let id := (kvGet toks "id").getD "0"
      if kvGet toks "m" == some "sub" && (itoks.any fun t => t.endsWith s!"/R.{id}.plain" || t.endsWith s!",R.{id}.plain")
          && !m.subs.contains n then { m with subs := m.subs ++ [n] } else m
    | _ => m
  let (m, extra) : DMon × Option String := match toks with
    | "init" :: _ :: _ =>
      let id := (kvGet toks "id").getD "0"
      if !(itoks.any fun t => t.endsWith s!"/R.{id}.init" || t.endsWith s!",R.{id}.init") then
        (m, some "C10: the initialize response was not written to the exchange of its request")
      else (m, none)
    | ["resp", n, r, x] =>
      if d.store && n.startsWith "s" && !m.gone.contains n then
        let p := ".".intercalate ["R", r, n, r, x]
        if !(itoks.any fun t => t.startsWith s!"a:{n}:" && t.endsWith (":" ++ p)) then
          (m, some "C10: a response produced by the handler reached neither an exchange nor the store (lost)")
        else (m, none)
      else (m, none)
    | ["delete", n] =>
      -- (a session served by `transport.ServeHTTP` directly answers DELETE with 405 and lives on)
      if itoks.any (·.endsWith ":405") then (m, none) else ({ m with gone := m.gone ++ [n] }, none)
    | ["kill", n] => ({ m with gone := m.gone ++ [n] }, none)
    | _ => (m, none)
  -- C02 / C10 on the streamable server (typed core `Mon.idStep`): a call is refused as "duplicate in-flight id" only if one of
  -- its ids IS in flight, and is accepted only if none is.  In flight = accepted by an earlier POST of the session and its
  -- handler has not finished (`resp` is the handler finishing, whether or not its response could be delivered).
  let opened : List (Nat × String) := itoks.filterMap fun t =>
    if t.startsWith "x" && !t.contains '+' && !t.contains '!' then
      match t.splitOn ":" with
      | [xk, kind] => some (parseX xk, kind)
      | _ => none
    else none
  let iobs : Mon.IdObs String := match toks with
    | "call" :: n :: _ =>
      if !n.startsWith "s" || m.gone.contains n then .other else
      let ids := (parseIds (kvGet toks "ids")).eraseDups
      match opened.head? with
      | some (_, kind) => .call n ids (kind == "sse" || kind == "json") (kind == "400")
      | none => .other
    | "duprace" :: n :: _ =>
      -- two POSTs with the same ids racing: exactly one of them is served (the other is refused whatever was in flight)
      let ids := (parseIds (kvGet toks "ids")).eraseDups
      if opened.any (fun x => x.2 == "sse" || x.2 == "json") then .call n ids true false else .other
    | ["resp", n, r, _] => .finished n (r.toNat?.getD 0)
    | _ => .other
  let ir := Mon.idStep m.ids iobs
  let m := { m with ids := ir.1, extraI := ir.2 }
  let extra02 : Option String := ir.2.map Mon.ClauseI.text02
  ({ m with extra10 := extra.orElse fun _ => extra02 }, r.2)

/-! ## engine -/

def engine (prop : String) : Engine DState where
  init := {}
  step d toks impl :=
    match toks with
    | ["reset"] => ({}, { model := "ok" })
    | ["endcase"] => (d, { model := "ok" })
    | ["cfg", mode, resp, st] =>
      let d : DState := { store := st == "store", jsonM := resp == "json", mon := DMon.init (st == "store") (resp == "json") }
      ({ d with cfg := some (mkCfg d (mode == "stateless")) }, { model := "ok" })
    | _ =>
      if d.cfg.isNone then (d, { model := "nocfg" }) else
      -- `af=1` (last token of an `emit` / `resp`): the event store fails the `Append` of this op's write
      let af := toks.getLast? == some "af=1" && (toks.head? == some "emit" || toks.head? == some "resp") && d.store
      let toks := if toks.getLast? == some "af=1" then toks.dropLast else toks
      -- a session served by `transport.ServeHTTP` directly: the handler is what copies the Mcp-Protocol-Version header into
      -- the request context, so every request of such a session is served as 2025-03-26 (an initialize still carries its
      -- version in its body: `v=` is kept)
      let isDirect := ((toks[1]?).bind (getSess d)).map (·.direct) == some true
      let mtoks := if isDirect then toks.map fun t => if t.startsWith "hv=" then "hv=a" else t else toks
      -- evictions are choices of the store (they depend on byte sizes): the model takes them from the record
      let itoks0 := words impl
      let d := { d with evicts := parsePurges itoks0, ptoks := itoks0.filter (·.startsWith "p:"), win := itoks0.contains "win=1", af := af }
      -- (they happen inside `Append`, before the new entry is added: for a plain op they take effect at its end —
      -- nothing in it reads the store after an append —, the race ops place them between their two parties)
      match modelOp d mtoks with
      | none => (d, { model := "bad-op" })
      | some o =>
        let o := { o with d := applyEvicts o.d }
        let endTxt := o.endsX.map fun k => s!"x{k}."
        -- handler-level exchanges end at once; their end tokens sort with the others by number
        let (body, dn) := renderDelta d o.d o.extra o.snaps
        let body := if endTxt.isEmpty then body else
          -- insert handler-level ends before the snapshot tokens
          let ws := words body
          let (pre, post) := ws.span (fun t => !t.startsWith "S")
          " ".intercalate (pre ++ endTxt ++ post)
        let model := body ++ o.tail
        let (m, v) := d.mon.onRecord dn toks impl
        -- first violated clause of the requested property: typed core, then the op-level clause
        let v08 := ((v.v08.map Mon.Clause08.text).orElse fun _ => m.extra08).orElse fun _ => m.extraK
        let ext := fun (p : String) => m.extra10.filter (·.startsWith p)
        let v10 := (((v.v10.map Mon.Clause10.text).orElse fun _ => ext "C10").orElse fun _ => m.extraF).orElse fun _ =>
          m.extraI.bind Mon.ClauseI.text10
        let v02 := ((ext "C02").orElse fun _ => m.extraI.map Mon.ClauseI.text02).orElse fun _ => m.extraB
        let mviol := if prop == "C08" then v08 else if prop == "C10" then v10 else if prop == "C02" then v02
          else (v10.orElse fun _ => v08).orElse fun _ => v02
        let crashed := impl.startsWith "panic" || (words impl).contains "w=panic" || (impl.splitOn "PANIC").length > 1
        let viol := if crashed then some ((if prop == "" then "C08" else prop) ++ ": the server panicked while handling this operation")
                    else mviol
        ({ dn with mon := m, evicts := [], ptoks := [], af := false }, { model := model, violated := viol })

end Resume

def main (args : List String) : IO Unit :=
  Proto.run (Resume.engine (args.head?.getD ""))
