import McpModel.Resume.Hold
/-!
# C02 on the streamable server — a POST that carries a batch of calls

Before 2025-06-18 one POST may carry several calls (and notifications).  `servePOST` registers ONE logical stream for
all of them (`stream.requests` = the set of their ids, `requestStreams[id] = stream` for each); every response is
delivered on that stream, and the stream is done — the HTTP exchange completes, the stream leaves `streams` — when the
LAST of them has been answered (`deliverLocked`: `done = len(s.requests) == 0`), not the first.

`batch_post_all_answered`: from any reachable state, for a registered stream whose POST exchange is attached, open and
healthy, writing the responses of its outstanding calls in ANY order delivers each of them exactly once on that
exchange (SSE: one `message` event each, in completion order, with consecutive event ids; JSON: one body holding all
of them), completes the exchange with the last one and not before, removes the stream and every routing entry.
-/
namespace Resume
variable {α : Type}

theorem mem_eraseAll_iff (r x : Nat) (l : List Nat) : x ∈ eraseAll r l ↔ x ∈ l ∧ x ≠ r :=
  ⟨mem_eraseAll, fun h => mem_eraseAll_of h.1 h.2⟩

theorem eraseAll_eq_nil (r : Nat) (l : List Nat) : eraseAll r l = [] ↔ ∀ x ∈ l, x = r := by
  constructor
  · intro h x hx
    by_cases hxr : x = r
    · exact hxr
    · have : x ∈ eraseAll r l := (mem_eraseAll_iff r x l).mpr ⟨hx, hxr⟩
      rw [h] at this; cases this
  · intro h
    cases hl : eraseAll r l with
    | nil => rfl
    | cons a t =>
      have : a ∈ eraseAll r l := by rw [hl]; exact List.mem_cons_self
      obtain ⟨h1, h2⟩ := (mem_eraseAll_iff r a l).mp this
      exact absurd (h a h1) h2

theorem findStream_cons (sid : Nat) (a : Stream α) (t : List (Stream α)) :
    findStream sid (a :: t) = if a.id = sid then some a else findStream sid t := by
  unfold findStream
  rw [List.find?_cons]
  by_cases ha : a.id = sid
  · simp [ha]
  · have hb : (a.id == sid) = false := by simp [ha]
    simp [hb, ha]

/-- `c.streams[s.id] = s'` replaces the entry `findStream` finds -/
theorem findStream_setStream {l : List (Stream α)} {s s' : Stream α} (h : findStream s.id l = some s) (hid : s'.id = s.id) :
    findStream s.id (setStream s' l) = some s' := by
  induction l with
  | nil => simp [findStream] at h
  | cons a t ih =>
    rw [findStream_cons] at h
    have hset : setStream s' (a :: t) = (if a.id = s'.id then s' else a) :: setStream s' t := by simp [setStream]
    rw [hset, findStream_cons]
    by_cases ha : a.id = s.id
    · simp [ha, hid]
    · rw [if_neg ha] at h
      have ha' : ¬ a.id = s'.id := by rw [hid]; exact ha
      simp only [ha', if_false, ha]
      exact ih h

theorem writeR_resp_eq {c : Conn α} {s : Stream α} (r : Nat) (p : α) (ctx : Option Nat) (ctxNew : Bool)
    (hfs : findStream s.id c.streams = some s) (hreg : c.reqStreams r = some s.id) (hnd : c.isDone = false) :
    writeR c (.resp r p) ctx ctxNew = writeTo (eraseResp c (.resp r p)) s (.resp r p) ctx ctxNew := by
  unfold writeR
  rw [if_neg (by simp [Msg.isCall])]
  have hroute : route c (.resp r p) ctx = some s := by simp [route, related, hreg, hfs]
  rw [hroute]
  simp [hnd]

/-- a response never registers anything -/
theorem writeR_reqStreams_none (c : Conn α) (msg : Msg α) (ctx : Option Nat) (ctxNew : Bool) (q : Nat) (h : c.reqStreams q = none) :
    (writeR c msg ctx ctxNew).1.reqStreams q = none := by
  have he : (eraseResp c msg).reqStreams q = none := by
    unfold eraseResp
    split
    · simp only; split
      · rfl
      · exact h
    · exact h
  unfold writeR
  split
  · exact h
  · split
    · exact he
    · split
      · exact he
      · simpa [writeTo] using he

/-- the responses to `rs`, written back to back in that order (each with its request's context) -/
def answerAll (ps : Nat → α) (ctxNew : Bool) : Conn α → List Nat → Conn α
  | c, [] => c
  | c, r :: t => answerAll ps ctxNew (writeR c (.resp r (ps r)) (some r) ctxNew).1 t

theorem answerAll_reqStreams_none (ps : Nat → α) (ctxNew : Bool) (q : Nat) : ∀ (rs : List Nat) (c : Conn α),
    c.reqStreams q = none → (answerAll ps ctxNew c rs).reqStreams q = none := by
  intro rs
  induction rs with
  | nil => intro c h; exact h
  | cons r t ih => intro c h; exact ih _ (writeR_reqStreams_none c _ _ _ q h)

/-- the `message` events of the responses on an SSE stream: consecutive event ids from `next` on (none without a store) -/
def sseOuts (use : Bool) (sid : Nat) (ps : Nat → α) : Nat → List Nat → List (Out α)
  | _, [] => []
  | next, r :: t => .message (if use then some (sid, next) else none) ⟨.resp r (ps r), some r⟩ :: sseOuts use sid ps (next + 1) t

/-- what the exchange receives for the responses `rs`: one event each, or one JSON body with all of them -/
def batchOut (use : Bool) (sid next : Nat) (ps : Nat → α) (js : Option (List (Item α))) (rs : List Nat) : List (Out α) :=
  match js with
  | none => sseOuts use sid ps next rs
  | some pend => [.json (pend ++ rs.map fun r => ⟨.resp r (ps r), some r⟩)]

theorem answerAll_spec (ps : Nat → α) (ctxNew : Bool) : ∀ (rs : List Nat) (c : Conn α) (s : Stream α) (x : Nat) (e : Exch α),
    rs.Nodup → rs ≠ [] → (∀ r, r ∈ rs ↔ r ∈ s.requests) →
    findStream s.id c.streams = some s → (∀ r ∈ rs, c.reqStreams r = some s.id) → c.isDone = false → s.id ≠ 0 →
    s.attached = some x → s.opn = true → c.exs[x]? = some e → e.budget = none → e.lost = [] → e.ended = false →
    (∀ s' ∈ (answerAll ps ctxNew c rs).streams, s'.id ≠ s.id) ∧
    (∀ r ∈ rs, (answerAll ps ctxNew c rs).reqStreams r = none) ∧
    ∃ e', (answerAll ps ctxNew c rs).exs[x]? = some e' ∧ e'.ended = true ∧ e'.lost = [] ∧
      e'.out = e.out ++ batchOut (wUse c ctxNew) s.id s.next ps s.json rs := by
  intro rs
  induction rs with
  | nil => intro c s x e _ hne; exact absurd rfl hne
  | cons r t ih =>
    intro c s x e hnd _ hmem hfs hreg hopen hid hat hop hex hb hl hend
    have hr := hreg r List.mem_cons_self
    have hw := writeR_resp_eq r (ps r) (some r) ctxNew hfs hr hopen
    have hpush : ∀ o : Out α, (emitX c.exs x o).1[x]? = some { e with out := e.out ++ [o] } ∧ (emitX c.exs x o).2 = true := by
      intro o
      obtain ⟨h1, h2⟩ := emitX_eq c.exs x o e hex
      have hp : e.push o = ({ e with out := e.out ++ [o] }, true) := by unfold Exch.push; rw [hb]
      rw [hp] at h1 h2
      exact ⟨h1, h2⟩
    by_cases ht : t = []
    · -- the last outstanding response: the stream is done
      subst ht
      have hall : eraseAll r s.requests = [] := by
        rw [eraseAll_eq_nil]
        intro q hq
        have := (hmem q).mpr hq
        simpa using this
      have hdone : wDone s (.resp r (ps r)) = true := by simp [wDone, wReqs, hall, hid]
      simp only [answerAll]
      rw [hw]
      refine ⟨?_, ?_, ?_⟩
      · intro s' hs'
        simp only [writeTo, hdone, if_true, eraseResp_streams] at hs'
        exact (mem_delStream.mp hs').2
      · intro q hq
        simp only [List.mem_singleton] at hq; subst hq
        simp [writeTo, eraseResp]
      · cases hjs : s.json with
        | none =>
          obtain ⟨h1, _⟩ := hpush (.message (if wUse c ctxNew then some (s.id, s.next) else none) ⟨.resp r (ps r), some r⟩)
          refine ⟨{ e with out := e.out ++ [.message (if wUse c ctxNew then some (s.id, s.next) else none) ⟨.resp r (ps r), some r⟩], ended := true }, ?_, rfl, hl, ?_⟩
          · have hu : wUse (eraseResp c (.resp r (ps r))) ctxNew = wUse c ctxNew := rfl
            simp only [writeTo, wDeliver, deliver, hat, hop, hjs, hdone, if_true, eraseResp_exs, hu]
            rw [finishX_eq, h1]; rfl
          · simp [batchOut, sseOuts]
        | some pend =>
          obtain ⟨h1, _⟩ := hpush (.json (pend ++ [⟨.resp r (ps r), some r⟩]))
          refine ⟨{ e with out := e.out ++ [.json (pend ++ [⟨.resp r (ps r), some r⟩])], ended := true }, ?_, rfl, hl, ?_⟩
          · simp only [writeTo, wDeliver, deliver, hat, hop, hjs, hdone, if_true, eraseResp_exs]
            rw [finishX_eq, h1]; rfl
          · simp [batchOut]
    · -- others are still outstanding: the stream stays, attached and open
      obtain ⟨hrt, hndt⟩ := List.nodup_cons.mp hnd
      have hne : eraseAll r s.requests ≠ [] := by
        intro h
        rw [eraseAll_eq_nil] at h
        cases t with
        | nil => exact ht rfl
        | cons a t' =>
          have ha : a ∈ s.requests := (hmem a).mp (by simp)
          have := h a ha
          subst this
          exact hrt List.mem_cons_self
      have hdone : wDone s (.resp r (ps r)) = false := by
        simp only [wDone, wReqs]
        cases hq : eraseAll r s.requests with
        | nil => exact absurd hq hne
        | cons a b => simp
      have hmem' : ∀ q, q ∈ t ↔ q ∈ eraseAll r s.requests := by
        intro q
        rw [mem_eraseAll_iff]
        constructor
        · intro hq
          exact ⟨(hmem q).mp (List.mem_cons_of_mem _ hq), fun h => hrt (h ▸ hq)⟩
        · rintro ⟨h1, h2⟩
          rcases List.mem_cons.mp ((hmem q).mpr h1) with h | h
          · exact absurd h h2
          · exact h
      simp only [answerAll]
      rw [hw]
      cases hjs : s.json with
      | none =>
        obtain ⟨h1, _⟩ := hpush (.message (if wUse c ctxNew then some (s.id, s.next) else none) ⟨.resp r (ps r), some r⟩)
        let s1 : Stream α := { s with requests := eraseAll r s.requests, next := s.next + 1, opn := true }
        have hc1s : (writeTo (eraseResp c (.resp r (ps r))) s (.resp r (ps r)) (some r) ctxNew).1.streams = setStream s1 c.streams := by
          simp [writeTo, wDeliver, deliver, hat, hop, hjs, hdone, wReqs, s1]
        have hc1x : (writeTo (eraseResp c (.resp r (ps r))) s (.resp r (ps r)) (some r) ctxNew).1.exs =
            (emitX c.exs x (.message (if wUse c ctxNew then some (s.id, s.next) else none) ⟨.resp r (ps r), some r⟩)).1 := by
          simp [writeTo, wDeliver, deliver, hat, hop, hjs, hdone, wUse]
        obtain ⟨a1, a2, e', a3, a4, a5, a6⟩ := ih (writeTo (eraseResp c (.resp r (ps r))) s (.resp r (ps r)) (some r) ctxNew).1 s1 x
          { e with out := e.out ++ [.message (if wUse c ctxNew then some (s.id, s.next) else none) ⟨.resp r (ps r), some r⟩] }
          hndt ht hmem' (by rw [hc1s]; exact findStream_setStream (s := s) (s' := s1) hfs rfl)
          (by intro q hq
              have hqr : q ≠ r := fun h => hrt (h ▸ hq)
              simp only [writeTo, eraseResp, hqr, if_false]
              exact hreg q (List.mem_cons_of_mem _ hq))
          (by simpa [writeTo] using hopen) hid hat rfl (by rw [hc1x]; exact h1) hb hl hend
        refine ⟨a1, ?_, e', a3, a4, a5, ?_⟩
        · intro q hq
          rcases List.mem_cons.mp hq with rfl | hq
          · exact answerAll_reqStreams_none ps ctxNew q t _ (by simp [writeTo, eraseResp])
          · exact a2 q hq
        · rw [a6]
          have hu : wUse (writeTo (eraseResp c (.resp r (ps r))) s (.resp r (ps r)) (some r) ctxNew).1 ctxNew = wUse c ctxNew := by
            simp [wUse, writeTo]
          simp [batchOut, sseOuts, hu, s1, hjs]
      | some pend =>
        let s1 : Stream α := { s with requests := eraseAll r s.requests, json := some (pend ++ [⟨.resp r (ps r), some r⟩]) }
        have hc1s : (writeTo (eraseResp c (.resp r (ps r))) s (.resp r (ps r)) (some r) ctxNew).1.streams = setStream s1 c.streams := by
          simp [writeTo, wDeliver, deliver, hat, hop, hjs, hdone, wReqs, s1]
        have hc1x : (writeTo (eraseResp c (.resp r (ps r))) s (.resp r (ps r)) (some r) ctxNew).1.exs = c.exs := by
          simp [writeTo, wDeliver, deliver, hat, hop, hjs, hdone]
        obtain ⟨a1, a2, e', a3, a4, a5, a6⟩ := ih (writeTo (eraseResp c (.resp r (ps r))) s (.resp r (ps r)) (some r) ctxNew).1 s1 x e
          hndt ht hmem' (by rw [hc1s]; exact findStream_setStream (s := s) (s' := s1) hfs rfl)
          (by intro q hq
              have hqr : q ≠ r := fun h => hrt (h ▸ hq)
              simp only [writeTo, eraseResp, hqr, if_false]
              exact hreg q (List.mem_cons_of_mem _ hq))
          (by simpa [writeTo] using hopen) hid hat hop (by rw [hc1x]; exact hex) hb hl hend
        refine ⟨a1, ?_, e', a3, a4, a5, ?_⟩
        · intro q hq
          rcases List.mem_cons.mp hq with rfl | hq
          · exact answerAll_reqStreams_none ps ctxNew q t _ (by simp [writeTo, eraseResp])
          · exact a2 q hq
        · rw [a6]
          simp [batchOut, s1, List.append_assoc]

/-- **C02 (a batch of calls on one POST: every call is answered exactly once and the exchange completes).**  In any
reachable state with no write between its two sections, take a registered request stream `s` (created by a POST
carrying the calls `s.calls`) whose exchange `x` is attached, open and healthy on an open session.  For ANY order `rs`
in which the handlers of its outstanding calls finish (any permutation of `s.requests`, any payloads), writing the
responses in that order
* delivers each of them **exactly once** on `x`: as `message` events in completion order with consecutive event ids
  (SSE), or as ONE `application/json` body holding all of them after whatever was buffered (JSON mode);
* **completes** the exchange with the last response — its handler returns, nothing was lost;
* removes the stream from `streams` and every one of the ids from `requestStreams` (so each id may be used again). -/
theorem batch_post_all_answered (cfg : Cfg) (ls : List (Label α)) (hnp : (run (init cfg) ls).pendW = [])
    (hopen : (run (init cfg) ls).isDone = false)
    (s : Stream α) (hs : s ∈ (run (init cfg) ls).streams) (hid : s.id ≠ 0)
    (x : Nat) (e : Exch α) (hat : s.attached = some x) (hop : s.opn = true) (hex : (run (init cfg) ls).exs[x]? = some e)
    (hb : e.budget = none) (hl : e.lost = [])
    (rs : List Nat) (hnd : rs.Nodup) (hne : rs ≠ []) (hmem : ∀ r, r ∈ rs ↔ r ∈ s.requests) (ps : Nat → α) (ctxNew : Bool) :
    (∀ s' ∈ (answerAll ps ctxNew (run (init cfg) ls) rs).streams, s'.id ≠ s.id) ∧
    (∀ r ∈ rs, (answerAll ps ctxNew (run (init cfg) ls) rs).reqStreams r = none) ∧
    ∃ e', (answerAll ps ctxNew (run (init cfg) ls) rs).exs[x]? = some e' ∧ e'.ended = true ∧ e'.lost = [] ∧
      e'.out = e.out ++ batchOut (wUse (run (init cfg) ls) ctxNew) s.id s.next ps s.json rs := by
  have hw := inv_run cfg ls
  have hreg := invReg_run cfg ls
  obtain ⟨e0, he0, hend0⟩ := claimed_only_by_live_exchange cfg ls s hs x hat
  rw [hex] at he0; cases he0
  refine answerAll_spec ps ctxNew rs _ s x e hnd hne hmem (findStream_of_mem hw.nodup hs) ?_ hopen hid hat hop hex hb hl hend0
  intro r hr
  rcases hreg.live hopen s hs r ((hmem r).mp hr) with h | ⟨pw, hp, _⟩
  · exact h
  · rw [hnp] at hp; cases hp

end Resume
