import McpModel.Resume.Model
import McpModel.Resume.Monitor
/-!
E5 — the observation a model step emits: the same record (`Mon.Obs`) the driver parses out of the
harness' tokens — exchanges opened, store appends, every write to every exchange (delivered or lost), the
snapshot of `streams` — computed as the difference between the connection before and after the step(s) of
one record.  `traceOf` is the observation trace of a run that is cut into records (groups of labels, as the
driver's operations are); `traceOf1` has one record per label.

Payloads on the wire are the opaque `α` of the model (`payloadOf`); the ghost fields of the model
(`Item.ctx`, `Exch.stream`, `Exch.from`, `Conn.hist`) are not part of the observation.
Core Lean only.
-/
namespace Resume
open Mon

variable {α σ : Type}

/-- the wire payload of a message -/
def payloadOf (it : Item α) : α :=
  match it.msg with
  | .resp _ p => p
  | .notif p => p
  | .call p => p

def toEvId : Option (Nat × Nat) → EvId
  | none => .none
  | some (s, i) => .ok s i

/-- one write as it appears on the wire -/
def toMOut : Out α → MOut α
  | .comment => .comment
  | .prime sid i => .prime (.ok sid i)
  | .message id it => .message (toEvId id) (payloadOf it)
  | .close => .close
  | .json items => .json (items.map payloadOf)

/-- one row of the snapshot of `c.streams` -/
def rowOf (s : Stream α) : Row :=
  { t := s.id, att := s.attached, opn := s.opn, next := s.next, sse := s.json.isNone }

def obsHdr : Hdr → ObsHdr
  | .none => .absent
  | .bad => .bad
  | .ok s i => .ok s i

/-- what a label says about the exchange it opens -/
def originOfLabel : Label α → Origin
  | .post calls listen ver _ => .post calls listen ver.isNew
  | .get hdr ver _ => .get (obsHdr hdr) ver.isNew
  | _ => .other

def Label.opens : Label α → Bool
  | .post .. => true
  | .get .. => true
  | _ => false

/-- the origin of a record: its (first) exchange-opening label -/
def originOfGroup : List (Label α) → Origin
  | [] => .other
  | l :: t => if l.opens then originOfLabel l else originOfGroup t

/-- the writes exchange `j` received between `c` and `c'`: delivered ones, then lost ones -/
def newEvents (c c' : Conn α) (j : Nat) : List (Bool × Out α) :=
  match c'.exs[j]? with
  | none => []
  | some e' =>
    (e'.out.drop (((c.exs[j]?).map (·.out.length)).getD 0)).map (fun o => (false, o)) ++
    (e'.lost.drop (((c.exs[j]?).map (·.lost.length)).getD 0)).map (fun o => (true, o))

/-- all writes of the record, by exchange -/
def sentM (c c' : Conn α) : List (Nat × Bool × Out α) :=
  (List.range c'.exs.length).flatMap fun j => (newEvents c c' j).map fun x => (j, x.1, x.2)

def toSent (x : Nat × Bool × Out α) : Sent α := { k := x.1, lost := x.2.1, out := toMOut x.2.2 }

def isSSE (e : Exch α) : Bool :=
  match e.kind with
  | .sse => true
  | _ => false

def openedOf (c c' : Conn α) : List (Nat × Bool) :=
  (List.range' c.exs.length (c'.exs.length - c.exs.length)).map fun j => (j, ((c'.exs[j]?).map isSSE).getD false)

/-- the entries appended to the log of `sid` -/
def newLog (c c' : Conn α) (sid : Nat) : List (Option (Item α)) :=
  ((c'.store sid).getD []).drop ((c.store sid).getD []).length

def appendsOf (sn : σ) (c c' : Conn α) : List (Append σ α) :=
  (List.range c'.nextSid).flatMap fun sid =>
    (newLog c c' sid).map fun x => { sess := sn, stream := sid, p := x.map payloadOf, check := true }

/-- the evictions of the record: the streams whose log the store now holds from a later index on -/
def purgesOf (sn : σ) (c c' : Conn α) : List (σ × Nat × Nat) :=
  (List.range c'.nextSid).flatMap fun sid => if c'.purged sid = c.purged sid then [] else [(sn, sid, c'.purged sid)]

/-- the observation of one record: the connection went from `c` to `c'` -/
def obsOf (sn : σ) (og : Origin) (c c' : Conn α) : Obs σ α :=
  { sess := sn, origin := og, opened := openedOf c c', appends := appendsOf sn c c',
    sent := (sentM c c').map toSent,
    snaps := [{ sess := sn, newProto := false, rows := c'.streams.map rowOf }],
    purges := purgesOf sn c c' }

/-- the observation trace of a run cut into records -/
def traceOf (sn : σ) : Conn α → List (List (Label α)) → List (Obs σ α)
  | _, [] => []
  | c, g :: gs => obsOf sn (originOfGroup g) c (run c g) :: traceOf sn (run c g) gs

/-- one record per label -/
def traceOf1 (sn : σ) (c : Conn α) (ls : List (Label α)) : List (Obs σ α) :=
  traceOf sn c (ls.map fun l => [l])

end Resume
