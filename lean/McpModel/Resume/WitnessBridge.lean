import McpModel.Resume.Accept10
import McpModel.Resume.Witness
/-!
E5 — non-vacuity of the bridging theorems: a concrete schedule (`demo`: prime, live delivery, cut, write
while detached, resume, completion, resume after completion) is in the scope of both theorems with truthful
tags; and the monitor is not silent by construction — the same observation trace with one event dropped,
resp. with the tags of a protocol-violating client (request id reused, straggler of the first request), is
flagged with the expected clause.
-/
namespace Resume
open Mon

def obsScopeB {α : Type} (c : Conn α) (l : Label α) : Bool :=
  inScopeB c l && match l with
    | .get _ ver _ => !ver.isNew
    | _ => true

def obsScopeRunB {α : Type} : Conn α → List (Label α) → Bool
  | _, [] => true
  | c, l :: ls => obsScopeB c l && obsScopeRunB (step c l) ls

theorem obsScopeRun_of_b {α : Type} : ∀ (ls : List (Label α)) (c : Conn α), obsScopeRunB c ls = true → ObsScopeRun c ls
  | [], _, _ => trivial
  | l :: ls, c, h => by
    simp only [obsScopeRunB, obsScopeB, Bool.and_eq_true] at h
    refine ⟨⟨inScope_of_b h.1.1, ?_⟩, obsScopeRun_of_b ls _ h.2⟩
    cases l <;> first | trivial | simpa using h.1.2

def bornIs {α : Type} (c : Conn α) (r post : Nat) : Bool :=
  match c.reqStreams r with
  | some sid => c.born sid == some post
  | none => true

theorem bornIs_spec {α : Type} {c : Conn α} {r post : Nat} (h : bornIs c r post = true) :
    ∀ sid, c.reqStreams r = some sid → c.born sid = some post := by
  intro sid hs
  simp only [bornIs, hs] at h
  simpa using h

def tagNRB {α : Type} (prov : α → Prov Unit) (c : Conn α) (p : α) (ctx : Option Nat) : Bool :=
  match prov p with
  | .inReq _ req post => ctx == some req && bornIs c req post
  | .detached _ => ctx == none
  | .server => ctx == none
  | .fanout _ _ _ _ => ctx == none
  | _ => false

def wellTaggedWB {α : Type} (prov : α → Prov Unit) (c : Conn α) : Msg α → Option Nat → Bool
  | .resp r p, _ =>
    match prov p with
    | .resp id _ req post => id == r && req == r && bornIs c r post
    | .initResp id => id == r
    | _ => false
  | .notif p, ctx => tagNRB prov c p ctx
  | .call p, ctx => tagNRB prov c p ctx

def wellTaggedB {α : Type} (prov : α → Prov Unit) (c : Conn α) : Label α → Bool
  | .write msg ctx _ => wellTaggedWB prov c msg ctx
  | .wroute msg ctx _ => wellTaggedWB prov c msg ctx
  | _ => true

theorem tagNR_of_b {α : Type} {prov : α → Prov Unit} {c : Conn α} {p : α} {ctx : Option Nat} (h : tagNRB prov c p ctx = true) :
    TagNR prov () c p ctx := by
  unfold tagNRB at h
  unfold TagNR
  split at h
  · rename_i hp; rw [hp]
    simp only [Bool.and_eq_true, beq_iff_eq] at h
    exact ⟨by first | rfl | trivial, h.1, bornIs_spec h.2⟩
  · rename_i hp; rw [hp]; exact ⟨by first | rfl | trivial, by simpa using h⟩
  · rename_i hp; rw [hp]; exact Or.inl (by simpa using h)
  · rename_i hp; rw [hp]; simpa using h
  · cases h

theorem wellTaggedW_of_b {α : Type} {prov : α → Prov Unit} {c : Conn α} {msg : Msg α} {ctx : Option Nat}
    (h : wellTaggedWB prov c msg ctx = true) : WellTaggedW prov () c msg ctx := by
  cases msg with
  | resp r p =>
    simp only [wellTaggedWB] at h
    simp only [WellTaggedW]
    split at h
    · rename_i hp; rw [hp]
      simp only [Bool.and_eq_true, beq_iff_eq] at h
      exact ⟨h.1.1, h.1.2, by first | rfl | trivial, bornIs_spec h.2⟩
    · rename_i hp; rw [hp]; simpa using h
    · cases h
  | notif p => exact tagNR_of_b h
  | call p => exact tagNR_of_b h

theorem wellTagged_of_b {α : Type} {prov : α → Prov Unit} {c : Conn α} {l : Label α} (h : wellTaggedB prov c l = true) :
    WellTagged prov () c l := by
  cases l with
  | write msg ctx ctxNew => exact wellTaggedW_of_b h
  | wroute msg ctx ctxNew => exact wellTaggedW_of_b h
  | post _ _ _ _ => trivial
  | cut _ => trivial
  | wfail _ => trivial
  | get _ _ _ => trivial
  | sclose _ _ => trivial
  | «end» => trivial
  | evict _ _ => trivial
  | wdeliver _ => trivial

def wellTaggedRunB {α : Type} (prov : α → Prov Unit) : Conn α → List (Label α) → Bool
  | _, [] => true
  | c, l :: ls => wellTaggedB prov c l && wellTaggedRunB prov (step c l) ls

theorem wellTaggedRun_of_b {α : Type} {prov : α → Prov Unit} : ∀ (ls : List (Label α)) (c : Conn α),
    wellTaggedRunB prov c ls = true → WellTaggedRun prov () c ls
  | [], _, _ => trivial
  | l :: ls, c, h => by
    simp only [wellTaggedRunB, Bool.and_eq_true] at h
    exact ⟨wellTagged_of_b h.1, wellTaggedRun_of_b ls _ h.2⟩

/-- the truthful tags of `demo`: 100 and 101 were issued under request 7 of POST exchange 0, 200 answers it -/
def provDemo : Nat → Prov Unit
  | 100 => .inReq () 7 0
  | 101 => .inReq () 7 0
  | 200 => .resp 7 () 7 0
  | _ => .other

example : ObsScopeRun (init cfgW) demo := obsScopeRun_of_b _ _ (by decide)
example : WellTaggedRun provDemo () (init cfgW) demo := wellTaggedRun_of_b _ _ (by decide)

/-- both monitors are silent on the model's trace of `demo` (instances of the bridging theorems) -/
example : (runV provDemo (Mon.init true false) (traceOf1 () (init cfgW) demo)).2.v08 = none :=
  monitor_accepts_model_C08 cfgW () provDemo demo (obsScopeRun_of_b _ _ (by decide))
example : (runV provDemo (Mon.init true false) (traceOf1 () (init cfgW) demo)).2.v10 = none :=
  monitor_accepts_model_C10 cfgW () provDemo demo (wellTaggedRun_of_b _ _ (by decide))

/-- drop the first replayed event of the resume (record 4): the monitor reports the gap -/
def dropFirstSent (o : Obs Unit Nat) : Obs Unit Nat := { o with sent := o.sent.drop 1 }

def tamperAt (n : Nat) (f : Obs Unit Nat → Obs Unit Nat) (l : List (Obs Unit Nat)) : List (Obs Unit Nat) :=
  l.take n ++ ((l.drop n).take 1).map f ++ l.drop (n + 1)

/-- … the last resume skipped the first stored message: a gap -/
example : (runV provDemo (Mon.init true false) (tamperAt 6 dropFirstSent (traceOf1 () (init cfgW) demo))).2.v08 = some .gap := by
  decide

/-- … the first resume lost its only replayed message: the resume is incomplete -/
example : (runV provDemo (Mon.init true false) (tamperAt 4 dropFirstSent (traceOf1 () (init cfgW) demo))).2.v08 =
    some .resumeIncomplete := by
  decide

/-- the id-reuse schedule of `straggler_after_id_reuse_lands_on_new_stream` with the tags the harness really puts
(555 was issued by the handler of the *first* request 7, carried by POST exchange 0): not `WellTaggedRun`, and
the monitor flags the straggler — first where it is appended to the store of the new request's stream -/
def provReuse : Nat → Prov Unit
  | 200 => .resp 7 () 7 0
  | 555 => .inReq () 7 0
  | _ => .other

def reuse : List (Label Nat) :=
  [ .post [7] false .v0618 none, .write (.resp 7 200) (some 7) false, .post [7] false .v0618 none,
    .write (.notif 555) (some 7) false ]

example : wellTaggedRunB provReuse (init cfgW) reuse = false := by decide

example : (runV provReuse (Mon.init true false) (traceOf1 () (init cfgW) reuse)).2.v10 = some (.route true .straggler) := by
  decide

/-! ### evictions -/

/-- `demo` with the store evicting the first three entries of stream 1 before the first resume: the resume from
`(1,1)` — entry 2 is gone — is answered 400; a later resume from `(1,2)` still gets the rest -/
def demoP : List (Label Nat) :=
  [ .post [7] false .v1125 none, .write (.notif 100) (some 7) false, .cut 0, .write (.notif 101) (some 7) false,
    .evict 1 3,
    .get (.ok 1 1) .v1125 none,
    .write (.resp 7 200) (some 7) false,
    .get (.ok 1 2) .v1125 none ]

example : ObsScopeRun (init cfgW) demoP := obsScopeRun_of_b _ _ (by decide)
example : ((run (init cfgW) demoP).exs.map (fun e => (e.kind, e.out))) =
    [ (.sse, [.prime 1 0, .message (some (1, 1)) ⟨.notif 100, some 7⟩]),
      (.status 400, []),
      (.sse, [.message (some (1, 3)) ⟨.resp 7 200, some 7⟩]) ] := by decide

/-- the monitor is told about the eviction (record 4) and accepts the error and the later exact suffix … -/
example : (runV provDemo (Mon.init true false) (traceOf1 () (init cfgW) demoP)).2.v08 = none :=
  monitor_accepts_model_C08 cfgW () provDemo demoP (obsScopeRun_of_b _ _ (by decide))

/-- … but had the store evicted those entries in `demo` (where the resume is answered with a stream), it reports the
silent skip -/
def addPurge (o : Obs Unit Nat) : Obs Unit Nat := { o with purges := [((), 1, 3)] }

example : (runV provDemo (Mon.init true false) (tamperAt 3 addPurge (traceOf1 () (init cfgW) demo))).2.v08 =
    some .purgedNotReported := by
  decide

/-! ### the window between the two critical sections of `Write` -/

/-- a notification is routed (WROUTE) while the stream is detached, then a resume attaches, then the delivery
section (WDELIVER) runs: the message reaches the new exchange live, once, with the next index -/
def demoW : List (Label Nat) :=
  [ .post [7] false .v1125 none, .write (.notif 100) (some 7) false, .cut 0,
    .wroute (.notif 101) (some 7) false,
    .get (.ok 1 1) .v1125 none,
    .wdeliver 0 ]

example : ObsScopeRun (init cfgW) demoW := obsScopeRun_of_b _ _ (by decide)
example : WellTaggedRun provDemo () (init cfgW) demoW := wellTaggedRun_of_b _ _ (by decide)
example : ((run (init cfgW) demoW).exs.map (fun e => e.out)) =
    [ [.prime 1 0, .message (some (1, 1)) ⟨.notif 100, some 7⟩],
      [.message (some (1, 2)) ⟨.notif 101, some 7⟩] ] := by decide
example : ((run (init cfgW) (demoW.take 4)).pendW.map (fun pw => (pw.sid, pw.ctx))) = [(1, some 7)] := by decide

/-- the other order inside the window: the stream completes and is deleted between routing and delivery — the
message still goes to the log (after the response), nothing is delivered -/
def demoO : List (Label Nat) :=
  [ .post [7] false .v1125 none, .wroute (.notif 101) (some 7) false, .write (.resp 7 200) (some 7) false, .wdeliver 0 ]

example : (run (init cfgW) demoO).log 1 = [none, some ⟨.resp 7 200, some 7⟩, some ⟨.notif 101, some 7⟩] := by decide
example : ((run (init cfgW) demoO).exs.map (fun e => e.out)) =
    [ [.prime 1 0, .message (some (1, 1)) ⟨.resp 7 200, some 7⟩] ] := by decide

end Resume
