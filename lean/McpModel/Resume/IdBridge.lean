import McpModel.Resume.Lifecycle
import McpModel.Resume.IdMon
/-!
# C02 / C10 — the in-flight id clauses of the monitor: bridging theorems

* `reqStreams_step_*`: `requestStreams` is written by exactly two things — a POST that is accepted registers its call ids,
  the write (or the routing half of the write) of a response erases its id; every other label leaves the table alone.
* `idMonitor_accepts_model`: on the observation trace of **every** label list of the model (any configuration)
  `Mon.idStep` raises neither `refusedFree` nor `acceptedDup`: the set of in-flight ids the monitor keeps from the
  operations *is* the domain of `requestStreams` (`IdRel`).
* `Mon.idStep_refusedFree_iff`, `Mon.idStep_acceptedDup_iff`: what the clauses mean on the monitor's ground truth.
-/
namespace Resume
open Mon
variable {α σ : Type}

/-! ### who writes `requestStreams` -/

theorem writeR_resp_reqStreams (c : Conn α) (r : Nat) (p : α) (ctx : Option Nat) (ctxNew : Bool) :
    (writeR c (.resp r p) ctx ctxNew).1.reqStreams = fun x => if x = r then none else c.reqStreams x := by
  simp only [writeR, Msg.isCall, Bool.false_and, Bool.false_eq_true, if_false]
  split
  · rfl
  · split <;> rfl

theorem wrouteR_resp_reqStreams (c : Conn α) (r : Nat) (p : α) (ctx : Option Nat) (ctxNew : Bool) :
    (wrouteR c (.resp r p) ctx ctxNew).1.reqStreams = fun x => if x = r then none else c.reqStreams x := by
  simp only [wrouteR, Msg.isCall, Bool.false_and, Bool.false_eq_true, if_false]
  split
  · rfl
  · split <;> rfl

theorem writeR_other_reqStreams (c : Conn α) (msg : Msg α) (h : msg.respId = none) (ctx : Option Nat) (ctxNew : Bool) :
    (writeR c msg ctx ctxNew).1.reqStreams = c.reqStreams := by
  cases msg with
  | resp r p => cases h
  | notif p =>
    simp only [writeR]
    split
    · rfl
    · split
      · rfl
      · split <;> rfl
  | call p =>
    simp only [writeR]
    split
    · rfl
    · split
      · rfl
      · split <;> rfl

theorem wrouteR_other_reqStreams (c : Conn α) (msg : Msg α) (h : msg.respId = none) (ctx : Option Nat) (ctxNew : Bool) :
    (wrouteR c msg ctx ctxNew).1.reqStreams = c.reqStreams := by
  cases msg with
  | resp r p => cases h
  | notif p =>
    simp only [wrouteR]
    split
    · rfl
    · split
      · rfl
      · split <;> rfl
  | call p =>
    simp only [wrouteR]
    split
    · rfl
    · split
      · rfl
      · split <;> rfl

theorem wdeliverR_reqStreams (c : Conn α) (i : Nat) : (wdeliverR c i).1.reqStreams = c.reqStreams := by
  simp only [wdeliverR]
  split
  · rfl
  · split <;> rfl

/-! ### the kind of the exchange a POST opens -/

def kindAt (c : Conn α) (k : Nat) : Option Kind := (c.exs[k]?).map (·.kind)

theorem kind_modify (f : Exch α → Exch α) (hf : ∀ e, (f e).kind = e.kind) (l : List (Exch α)) (i k : Nat) :
    ((l.modify i f)[k]?).map (·.kind) = (l[k]?).map (·.kind) := by
  rw [List.getElem?_modify]
  cases l[k]? with
  | none => rfl
  | some e => simp only [Option.map_some]; split <;> simp [hf]

theorem kindAt_emit (c : Conn α) (ex : Nat) (o : Out α) (k : Nat) : kindAt (emit c ex o).1 k = kindAt c k := by
  simp only [kindAt, emit, emitX]
  split
  · rfl
  · exact kind_modify _ (fun e => push_kind e o) _ _ _

theorem kindAt_cut (c : Conn α) (ex k : Nat) : kindAt (cut c ex) k = kindAt c k := by
  simp only [kindAt, cut, finish, finishX, setEx]
  exact kind_modify (fun e => { e with ended := true }) (fun _ => rfl) _ _ _

theorem kindAt_postNew (c : Conn α) (calls : List Nat) (listen : Bool) (ver : Ver) (budget : Option Nat) :
    kindAt (postNew c calls listen ver budget) c.exs.length = some (if useSSE c listen then .sse else .json) := by
  have hreg : kindAt (register c calls listen ver budget) c.exs.length = some (if useSSE c listen then .sse else .json) := by
    simp [kindAt, register]
  unfold postNew
  simp only []
  split
  · split
    · rw [kindAt_cut, kindAt_emit]; exact hreg
    · rw [kindAt_cut]; exact hreg
  · split
    · rw [kindAt_emit]; exact hreg
    · exact hreg

/-! ### the observation of a model step, as the in-flight clauses see it -/

def isStreamKind : Option Kind → Bool
  | some .sse => true
  | some .json => true
  | _ => false

def iobsOf (sn : σ) (l : Label α) (c c' : Conn α) : IdObs σ :=
  match l with
  | .post calls _ _ _ =>
    if dedup calls = [] then .other
    else .call sn (dedup calls) (isStreamKind (kindAt c' c.exs.length)) (kindAt c' c.exs.length == some (.status 400))
  | .write (.resp r _) _ _ => .finished sn r
  | .wroute (.resp r _) _ _ => .finished sn r
  | _ => .other

def itraceOf1 (sn : σ) : Conn α → List (Label α) → List (IdObs σ)
  | _, [] => []
  | c, l :: ls => iobsOf sn l c (step c l) :: itraceOf1 sn (step c l) ls

variable [DecidableEq σ]

/-- the monitor's in-flight set of session `sn` is the domain of `requestStreams` -/
def IdRel (sn : σ) (m : IdS σ) (c : Conn α) : Prop := ∀ r, (sn, r) ∈ m.inflight ↔ (c.reqStreams r).isSome = true

theorem anyInFlight_iff (sn : σ) (m : IdS σ) (c : Conn α) (hr : IdRel sn m c) (ids : List Nat) :
    anyInFlight m sn ids = ids.any (fun r => (c.reqStreams r).isSome) := by
  unfold anyInFlight
  induction ids with
  | nil => rfl
  | cons a t ih =>
    simp only [List.any_cons, ih]
    congr 1
    have := hr a
    cases h : (c.reqStreams a).isSome with
    | true => rw [h] at this; simpa using this.2 rfl
    | false =>
      rw [h] at this
      have hn : ¬ (sn, a) ∈ m.inflight := fun hm => by simpa using this.1 hm
      simpa using hn

theorem id_step_ok (sn : σ) {m : IdS σ} {c : Conn α} (hr : IdRel sn m c) (l : Label α) :
    (idStep m (iobsOf sn l c (step c l))).2 = none ∧ IdRel sn (idStep m (iobsOf sn l c (step c l))).1 (step c l) := by
  have hsame : ∀ c' : Conn α, c'.reqStreams = c.reqStreams → IdRel sn m c' := by
    intro c' h r; rw [h]; exact hr r
  have hfin : ∀ (c' : Conn α) (r : Nat), (c'.reqStreams = fun x => if x = r then none else c.reqStreams x) →
      IdRel sn (idStep m (.finished sn r)).1 c' := by
    intro c' r h x
    rw [h]
    simp only [idStep, List.mem_filter, Bool.not_eq_true', beq_eq_false_iff_ne, ne_eq, Prod.mk.injEq, true_and]
    by_cases hx : x = r
    · simp [hx]
    · simp only [hx, not_false_eq_true, and_true, if_false]; exact hr x
  cases l with
  | post calls listen ver budget =>
    simp only [iobsOf, step, stepR]
    by_cases hd : dedup calls = []
    · simp only [hd, if_true, idStep]
      exact ⟨by trivial, hsame _ (by simp [post, hd, statusEx])⟩
    · simp only [hd, if_false]
      by_cases hany : (dedup calls).any (fun r => (c.reqStreams r).isSome) = true
      · -- refused: 400, nothing registered
        have hp : post c calls listen ver budget = postDup c ver := by simp [post, hd, hany]
        have hk : kindAt (postDup c ver) c.exs.length = some (.status 400) := by simp [kindAt, postDup, statusEx]
        rw [hp, hk]
        simp only [isStreamKind, idStep, beq_self_eq_true, if_true, Bool.false_eq_true, if_false]
        rw [anyInFlight_iff sn m c hr, hany]
        exact ⟨rfl, hsame _ rfl⟩
      · -- accepted: the ids are registered
        have hp : post c calls listen ver budget = postNew c (dedup calls) listen ver budget := by simp [post, hd, hany]
        rw [hp, kindAt_postNew]
        have hacc : isStreamKind (some (if useSSE c listen then Kind.sse else Kind.json)) = true := by
          split <;> rfl
        simp only [hacc, idStep, if_true]
        rw [anyInFlight_iff sn m c hr]
        refine ⟨by simp [hany], ?_⟩
        intro r
        have hreg : (postNew c (dedup calls) listen ver budget).reqStreams r =
            if r ∈ dedup calls then some c.nextSid else c.reqStreams r := by
          have h0 : (register c (dedup calls) listen ver budget).reqStreams r =
              if r ∈ dedup calls then some c.nextSid else c.reqStreams r := by simp [register]
          unfold postNew
          simp only []
          split
          · split
            · exact h0
            · exact h0
          · split
            · exact h0
            · exact h0
        rw [hreg]
        simp only [List.mem_append, List.mem_map, Prod.mk.injEq, true_and, exists_eq_right]
        by_cases hm : r ∈ dedup calls
        · simp [hm]
        · simp only [hm, or_false, if_false]; exact hr r
  | write msg ctx ctxNew =>
    cases msg with
    | resp r p => exact ⟨rfl, hfin _ r (writeR_resp_reqStreams c r p ctx ctxNew)⟩
    | notif p => exact ⟨rfl, hsame _ (writeR_other_reqStreams c _ rfl ctx ctxNew)⟩
    | call p => exact ⟨rfl, hsame _ (writeR_other_reqStreams c _ rfl ctx ctxNew)⟩
  | wroute msg ctx ctxNew =>
    cases msg with
    | resp r p => exact ⟨rfl, hfin _ r (wrouteR_resp_reqStreams c r p ctx ctxNew)⟩
    | notif p => exact ⟨rfl, hsame _ (wrouteR_other_reqStreams c _ rfl ctx ctxNew)⟩
    | call p => exact ⟨rfl, hsame _ (wrouteR_other_reqStreams c _ rfl ctx ctxNew)⟩
  | cut ex => exact ⟨rfl, hsame _ rfl⟩
  | wfail ex => exact ⟨rfl, hsame _ rfl⟩
  | get hdr ver budget => exact ⟨rfl, hsame _ (get_reqStreams c hdr ver budget)⟩
  | sclose req retry => exact ⟨rfl, hsame _ (sclose_reqStreams c req retry)⟩
  | «end» => exact ⟨rfl, hsame _ rfl⟩
  | evict s n => exact ⟨rfl, hsame _ rfl⟩
  | wdeliver i => exact ⟨rfl, hsame _ (wdeliverR_reqStreams c i)⟩

theorem idRel_init (cfg : Cfg) (sn : σ) : IdRel sn (idInit : IdS σ) (init cfg : Conn α) := by
  intro r; simp [idInit, init]

theorem id_accepts_from (sn : σ) : ∀ (ls : List (Label α)) (c : Conn α) (m : IdS σ), IdRel sn m c →
    (idRun m (itraceOf1 sn c ls)).2 = none := by
  intro ls
  induction ls with
  | nil => intro c m _; rfl
  | cons l t ih =>
    intro c m hr
    obtain ⟨h1, h2⟩ := id_step_ok sn hr l
    have := ih (step c l) _ h2
    simp only [itraceOf1, idRun]
    rw [h1, this]; rfl

/-- **C02 / C10 bridging, in-flight ids.**  For every configuration and EVERY label list the in-flight clauses — "a call
refused as a duplicate although none of its ids is in flight", "a call accepted although one of its ids is in flight" —
are not raised on the model's trace: a POST with calls is `call`, the write (or routing half of the write) of a response
is `finished`; client notifications (`notifications/cancelled` included), lost exchanges, resumes, closes, evictions and
all other writes are `other` — none of them frees or takes an id. -/
theorem idMonitor_accepts_model (cfg : Cfg) (sn : σ) (ls : List (Label α)) :
    (idRun (idInit : IdS σ) (itraceOf1 sn (init cfg : Conn α) ls)).2 = none :=
  id_accepts_from sn ls (init cfg) _ (idRel_init cfg sn)

/-- … and the monitor's in-flight set is the domain of `requestStreams` after every label list -/
theorem idRel_run (cfg : Cfg) (sn : σ) (ls : List (Label α)) :
    IdRel sn (idRun (idInit : IdS σ) (itraceOf1 sn (init cfg : Conn α) ls)).1 (run (init cfg : Conn α) ls) := by
  have : ∀ (ls : List (Label α)) (c : Conn α) (m : IdS σ), IdRel sn m c → IdRel sn (idRun m (itraceOf1 sn c ls)).1 (run c ls) := by
    intro ls
    induction ls with
    | nil => intro c m h; exact h
    | cons l t ih =>
      intro c m hr
      simp only [itraceOf1, idRun, run, List.foldl_cons]
      exact ih (step c l) _ (id_step_ok sn hr l).2
  exact this ls _ _ (idRel_init cfg sn)

namespace Mon

theorem anyInFlight_true_iff (m : IdS σ) (s : σ) (ids : List Nat) :
    anyInFlight m s ids = true ↔ ∃ r ∈ ids, (s, r) ∈ m.inflight := by
  simp [anyInFlight, List.any_eq_true]

theorem idStep_acceptedDup_iff (m : IdS σ) (o : IdObs σ) :
    (idStep m o).2 = some .acceptedDup ↔
      ∃ s ids ref, o = .call s ids true ref ∧ ∃ r ∈ ids, (s, r) ∈ m.inflight := by
  cases o with
  | call s ids acc ref =>
    cases acc with
    | true =>
      simp only [idStep, if_true]
      by_cases ha : anyInFlight m s ids = true
      · simp only [ha, if_true, true_iff]
        exact ⟨s, ids, ref, rfl, (anyInFlight_true_iff m s ids).1 ha⟩
      · simp only [ha, if_false, reduceCtorEq, false_iff]
        rintro ⟨s', ids', ref', heq, hex⟩
        cases heq
        exact ha ((anyInFlight_true_iff m s ids).2 hex)
    | false =>
      have hne : (idStep m (.call s ids false ref)).2 ≠ some .acceptedDup := by
        simp only [idStep, Bool.false_eq_true, if_false]
        cases ref with
        | true =>
          simp only [if_true]
          by_cases ha : anyInFlight m s ids = true
          · simp [ha]
          · simp [ha]
        | false => simp
      constructor
      · intro h; exact absurd h hne
      · rintro ⟨_, _, _, heq, _⟩; cases heq
  | finished s id =>
    constructor
    · intro h; simp [idStep] at h
    · rintro ⟨_, _, _, heq, _⟩; cases heq
  | other =>
    constructor
    · intro h; simp [idStep] at h
    · rintro ⟨_, _, _, heq, _⟩; cases heq

theorem idStep_refusedFree_iff (m : IdS σ) (o : IdObs σ) :
    (idStep m o).2 = some .refusedFree ↔
      ∃ s ids, o = .call s ids false true ∧ ∀ r ∈ ids, (s, r) ∉ m.inflight := by
  cases o with
  | call s ids acc ref =>
    cases acc with
    | true =>
      have hne : (idStep m (.call s ids true ref)).2 ≠ some .refusedFree := by
        simp only [idStep, if_true]
        by_cases ha : anyInFlight m s ids = true
        · simp [ha]
        · simp [ha]
      constructor
      · intro h; exact absurd h hne
      · rintro ⟨_, _, heq, _⟩; cases heq
    | false =>
      cases ref with
      | false =>
        constructor
        · intro h; simp [idStep] at h
        · rintro ⟨_, _, heq, _⟩; cases heq
      | true =>
        simp only [idStep, Bool.false_eq_true, if_false, if_true]
        by_cases ha : anyInFlight m s ids = true
        · simp only [ha, if_true, reduceCtorEq, false_iff]
          rintro ⟨s', ids', heq, hall⟩
          cases heq
          obtain ⟨r, hr, hm⟩ := (anyInFlight_true_iff m s ids).1 ha
          exact hall r hr hm
        · have hf : anyInFlight m s ids = false := by simpa using ha
          simp only [hf, Bool.false_eq_true, if_false, true_iff]
          refine ⟨s, ids, rfl, ?_⟩
          intro r hr hm
          exact ha ((anyInFlight_true_iff m s ids).2 ⟨r, hr, hm⟩)
  | finished s id =>
    constructor
    · intro h; simp [idStep] at h
    · rintro ⟨_, _, heq, _⟩; cases heq
  | other =>
    constructor
    · intro h; simp [idStep] at h
    · rintro ⟨_, _, heq, _⟩; cases heq

end Mon

/-- non-vacuity: call 7 accepted, the client's cancel (`other`), the reuse of 7 accepted ⇒ flagged -/
example : (idRun (idInit : IdS Nat) [.call 1 [7] true false, .other, .call 1 [7] true false]).2 = some .acceptedDup := by decide

/-- … refused ⇒ fine; after the handler finished, a refusal is flagged -/
example : (idRun (idInit : IdS Nat) [.call 1 [7] true false, .other, .call 1 [7] false true]).2 = none := by decide
example : (idRun (idInit : IdS Nat) [.call 1 [7] true false, .finished 1 7, .call 1 [7] false true]).2 = some .refusedFree := by decide

end Resume
