import McpModel.Resume.Batch
import McpModel.Resume.HoldBridge
import McpModel.Resume.BatchMon
/-!
# C02 on the streamable server — the batch clauses of the monitor: bridging theorems

* `batchMonitor_accepts_model`: on the observation trace (one record per label) of every label list of the model in
  which `Write` is one step (`NoRoute`: the label WRITE rather than its two halves WROUTE / WDELIVER — with a response
  between its two sections its request is, correctly, still listed as outstanding), `Mon.batchStep` raises no clause:
  no `orphanReg`, and whenever a response is written for a call that the last snapshot listed as outstanding on an
  attached, open stream of an open session, the response is written to that exchange and the exchange completes with
  the last one.
* `orphan_accepts_all`: the `orphanReg` clause alone is not raised on ANY label list (split labels included).
* `Mon.orphan_iff`, `Mon.rowClause_none_iff`, `Mon.checkResp_some`: what the clauses mean on the monitor's ground truth.
-/
namespace Resume
open Mon
variable {α σ : Type}

def browOf (s : Stream α) : BRow :=
  { t := s.id, att := s.attached, opn := s.opn, sse := s.json.isNone, reqs := s.requests }

/-- the snapshot of the tables; `requestStreams` is enumerated over the candidate ids `ids` -/
def bsnapOf (sn : σ) (ids : List Nat) (c : Conn α) : BSnap σ :=
  { sess := sn, done := c.isDone, rows := c.streams.map browOf,
    regs := ids.filterMap fun r => (c.reqStreams r).map fun t => (r, t) }

def bopOf (sn : σ) : Label α → BOp σ α
  | .write (.resp r p) _ _ => .resp sn r p
  | _ => .other

def bobsOf (sn : σ) (ids : List Nat) (l : Label α) (c c' : Conn α) : BObs σ α :=
  { op := bopOf sn l, sent := (sentM c c').map toSent, ends := endsOf c c', snaps := [bsnapOf sn ids c'] }

def btraceOf1 (sn : σ) (ids : List Nat) : Conn α → List (Label α) → List (BObs σ α)
  | _, [] => []
  | c, l :: ls => bobsOf sn ids l c (step c l) :: btraceOf1 sn ids (step c l) ls

/-- `Write` is one step -/
def NoRoute (ls : List (Label α)) : Prop := ∀ l ∈ ls, ∀ msg ctx n, l ≠ .wroute msg ctx n

/-! ### `orphanReg` on the model -/

theorem orphan_model (sn : σ) (ids : List Nat) {c : Conn α} (h : InvReg c) : orphan [bsnapOf sn ids c] = false := by
  simp only [orphan, List.any_cons, List.any_nil, Bool.or_false, snapOrphan]
  rw [Bool.eq_false_iff]
  intro hany
  rw [List.any_eq_true] at hany
  obtain ⟨x, hx, hbad⟩ := hany
  simp only [bsnapOf, List.mem_filterMap] at hx
  obtain ⟨r, _, hr⟩ := hx
  cases hq : c.reqStreams r with
  | none => rw [hq] at hr; cases hr
  | some t =>
    rw [hq] at hr
    simp only [Option.map_some, Option.some.injEq] at hr
    subst hr
    obtain ⟨s, hs, hid, hm⟩ := h.reg r t hq
    have : regOK (bsnapOf sn ids c).rows (r, t) = true := by
      simp only [regOK, bsnapOf, List.any_eq_true]
      exact ⟨browOf s, List.mem_map_of_mem hs, by simp [browOf, hid, hm]⟩
    rw [this] at hbad; cases hbad

/-! ### a write shows up in the record -/

theorem push_cases (e : Exch α) (o : Out α) :
    ((e.push o).1.out = e.out ++ [o] ∧ (e.push o).1.lost = e.lost) ∨ ((e.push o).1.out = e.out ∧ (e.push o).1.lost = e.lost ++ [o]) := by
  unfold Exch.push
  split
  · exact Or.inr ⟨rfl, rfl⟩
  · exact Or.inl ⟨rfl, rfl⟩
  · exact Or.inl ⟨rfl, rfl⟩

theorem sentM_of_new {c c' : Conn α} {x : Nat} {e e' : Exch α} (he : c.exs[x]? = some e) (he' : c'.exs[x]? = some e') {o : Out α}
    (h : (e'.out = e.out ++ [o] ∧ e'.lost = e.lost) ∨ (e'.out = e.out ∧ e'.lost = e.lost ++ [o])) :
    ∃ b, (x, b, o) ∈ sentM c c' := by
  have hlt : x < c'.exs.length := by
    by_cases hh : x < c'.exs.length
    · exact hh
    · rw [List.getElem?_eq_none (by omega)] at he'; cases he'
  have hne : ∃ b, (b, o) ∈ newEvents c c' x := by
    unfold newEvents
    rw [he', he]
    simp only [Option.map_some, Option.getD_some]
    rcases h with ⟨h1, _⟩ | ⟨_, h2⟩
    · exact ⟨false, by rw [h1]; simp⟩
    · exact ⟨true, by rw [h2]; simp⟩
  obtain ⟨b, hb⟩ := hne
  refine ⟨b, ?_⟩
  unfold sentM
  simp only [List.mem_flatMap, List.mem_range, List.mem_map]
  exact ⟨x, hlt, (b, o), hb, rfl⟩

/-- a write through `emitX` (possibly followed by the handler's return) shows up in the record -/
theorem sentM_of_emit {c c' : Conn α} {x : Nat} {e : Exch α} (he : c.exs[x]? = some e) (o : Out α)
    (h : c'.exs = (emitX c.exs x o).1 ∨ c'.exs = finishX (emitX c.exs x o).1 x) : ∃ b, (x, b, o) ∈ sentM c c' := by
  have h1 := (emitX_eq c.exs x o e he).1
  rcases h with h | h
  · exact sentM_of_new he (by rw [h]; exact h1) (push_cases e o)
  · refine sentM_of_new (e' := { (e.push o).1 with ended := true }) he (by rw [h, finishX_eq, h1]; rfl) ?_
    exact push_cases e o

variable [DecidableEq σ] [DecidableEq α]

theorem respOn_message (x : Nat) (b : Bool) (evid : Option (Nat × Nat)) (r : Nat) (p : α) (ctx : Option Nat) :
    respOn p x (toSent (x, b, Out.message evid ⟨.resp r p, ctx⟩)) = true := by
  simp [respOn, toSent, toMOut, payloadOf]

theorem respOn_json (x : Nat) (b : Bool) (pend : List (Item α)) (r : Nat) (p : α) (ctx : Option Nat) :
    respOn p x (toSent (x, b, Out.json (pend ++ [⟨.resp r p, ctx⟩]))) = true := by
  simp [respOn, toSent, toMOut, payloadOf]

/-! ### the finished-handler clauses on the model -/

theorem find_brow (l : List (Stream α)) (r : Nat) :
    (l.map browOf).find? (fun row => row.reqs.contains r) = (l.find? (fun s => s.requests.contains r)).map browOf := by
  induction l with
  | nil => rfl
  | cons a t ih =>
    simp only [List.map_cons, List.find?_cons]
    have : (browOf a).reqs = a.requests := rfl
    rw [this]
    cases a.requests.contains r with
    | true => rfl
    | false => exact ih

theorem all_eq_iff (l : List Nat) (r : Nat) : l.all (· == r) = true ↔ eraseAll r l = [] := by
  rw [eraseAll_eq_nil]
  simp [List.all_eq_true]

/-- the response to a call listed as outstanding on an attached, open stream of an open session: no clause -/
theorem checkResp_model (sn : σ) (ids : List Nat) {c : Conn α} (hw : Inv c) (hr : InvReg c) (hl : InvLive c) (hnp : c.pendW = [])
    (l : Label α) : checkResp ({ last := fun s' => if s' = sn then some (bsnapOf sn ids c) else none } : BatchS σ)
      (bobsOf sn ids l c (step c l)) = none := by
  unfold checkResp
  cases hop : (bobsOf sn ids l c (step c l)).op with
  | other => rfl
  | resp sess r p =>
    -- the label is the write of a response
    have hlab : ∃ ctx ctxNew, l = .write (.resp r p) ctx ctxNew ∧ sess = sn := by
      cases l with
      | write msg ctx ctxNew =>
        cases msg with
        | resp r' p' =>
          simp only [bobsOf, bopOf, BOp.resp.injEq] at hop
          obtain ⟨h1, h2, h3⟩ := hop
          subst h1 h2 h3
          exact ⟨ctx, ctxNew, rfl, rfl⟩
        | notif _ => simp [bobsOf, bopOf] at hop
        | call _ => simp [bobsOf, bopOf] at hop
      | post _ _ _ _ => simp [bobsOf, bopOf] at hop
      | cut _ => simp [bobsOf, bopOf] at hop
      | wfail _ => simp [bobsOf, bopOf] at hop
      | get _ _ _ => simp [bobsOf, bopOf] at hop
      | sclose _ _ => simp [bobsOf, bopOf] at hop
      | «end» => simp [bobsOf, bopOf] at hop
      | evict _ _ => simp [bobsOf, bopOf] at hop
      | wroute _ _ _ => simp [bobsOf, bopOf] at hop
      | wdeliver _ => simp [bobsOf, bopOf] at hop
    obtain ⟨ctx, ctxNew, rfl, rfl⟩ := hlab
    simp only [if_true]
    cases hdone : c.isDone with
    | true => simp [bsnapOf, hdone]
    | false =>
      have hd : (bsnapOf sess ids c).done = false := hdone
      simp only [hd, Bool.false_eq_true, if_false]
      have hrows : (bsnapOf sess ids c).rows = c.streams.map browOf := rfl
      rw [hrows, find_brow]
      cases hf : c.streams.find? (fun s => s.requests.contains r) with
      | none => rfl
      | some s =>
        simp only [Option.map_some]
        have hs : s ∈ c.streams := List.mem_of_find?_eq_some hf
        have hrm : r ∈ s.requests := by simpa using List.find?_some hf
        unfold rowClause
        cases hat : s.attached with
        | none => simp [browOf, hat]
        | some x =>
          simp only [browOf, hat]
          cases hopn : s.opn with
          | false => simp
          | true =>
            simp only [Bool.not_true, Bool.false_eq_true, if_false]
            -- the write goes to `s`, which is attached to `x` and open
            have hreg : c.reqStreams r = some s.id := by
              rcases hr.live hdone s hs r hrm with h | ⟨pw, hp, _⟩
              · exact h
              · rw [hnp] at hp; cases hp
            have hfs := findStream_of_mem hw.nodup hs
            have hstep : step c (.write (.resp r p) ctx ctxNew) = (writeTo (eraseResp c (.resp r p)) s (.resp r p) ctx ctxNew).1 := by
              show (writeR c (.resp r p) ctx ctxNew).1 = _
              rw [writeR_resp_eq r p ctx ctxNew hfs hreg hdone]
            obtain ⟨e, hex, _⟩ := hw.att s hs x hat
            obtain ⟨e0, he0, hend0⟩ := hl s hs x hat
            rw [hex] at he0; cases he0
            have hlast : (s.requests.all (· == r) && s.id != 0) = wDone s (.resp r p) := by
              simp only [wDone, wReqs]
              cases hall : s.requests.all (· == r) with
              | true => rw [(all_eq_iff _ _).mp hall]; rfl
              | false =>
                have : eraseAll r s.requests ≠ [] := fun h => by rw [(all_eq_iff _ _).mpr h] at hall; cases hall
                cases hq : eraseAll r s.requests with
                | nil => exact absurd hq this
                | cons a b => rfl
            -- when the stream is done the handler of `x` returns in this record
            have hends : wDone s (.resp r p) = true → (bobsOf sess ids (.write (.resp r p) ctx ctxNew) c (step c (.write (.resp r p) ctx ctxNew))).ends.contains x = true := by
              intro hdn
              have hexs : (step c (.write (.resp r p) ctx ctxNew)).exs[x]? ≠ none ∧ endedAt (step c (.write (.resp r p) ctx ctxNew)) x = true := by
                rw [hstep]
                simp only [writeTo, wDeliver, deliver, hat, hopn, hdn, if_true, eraseResp_exs, endedAt]
                cases hjs : s.json with
                | none =>
                  simp only
                  rw [finishX_eq, (emitX_eq c.exs x _ e hex).1]; simp
                | some pend =>
                  simp only
                  rw [finishX_eq, (emitX_eq c.exs x _ e hex).1]; simp
              have hlt : x < (step c (.write (.resp r p) ctx ctxNew)).exs.length := by
                by_cases hh : x < (step c (.write (.resp r p) ctx ctxNew)).exs.length
                · exact hh
                · exact absurd (List.getElem?_eq_none (by omega)) hexs.1
              simp only [bobsOf, endsOf, List.contains_eq_mem, List.mem_filter, List.mem_range, decide_eq_true_eq]
              refine ⟨hlt, ?_⟩
              rw [hexs.2]
              simp [endedAt, hex, hend0]
            cases hjs : s.json with
            | none =>
              -- SSE: the response is a `message` event on `x`
              have hsent : (bobsOf sess ids (.write (.resp r p) ctx ctxNew) c (step c (.write (.resp r p) ctx ctxNew))).sent.any (respOn p x) = true := by
                obtain ⟨b, hb⟩ := sentM_of_emit (c' := step c (.write (.resp r p) ctx ctxNew)) hex
                  (.message (if wUse (eraseResp c (.resp r p)) ctxNew then some (s.id, s.next) else none) ⟨.resp r p, ctx⟩)
                  (by rw [hstep]
                      simp only [writeTo, wDeliver, deliver, hat, hopn, hjs, eraseResp_exs]
                      cases wDone s (.resp r p) with
                      | true => exact Or.inr rfl
                      | false => exact Or.inl rfl)
                rw [List.any_eq_true]
                exact ⟨_, List.mem_map_of_mem hb, respOn_message x b _ r p ctx⟩
              simp only [Option.isNone_none, hsent, Bool.not_true, Bool.and_false, Bool.false_eq_true, if_false]
              rw [hlast]
              cases hdn : wDone s (.resp r p) with
              | false => simp
              | true =>
                have := hends hdn
                simp only [List.contains_eq_mem, decide_eq_true_eq] at this
                simp [this]
            | some pend =>
              simp only [Option.isNone_some, Bool.false_eq_true, Bool.false_and, if_false, Bool.not_false, Bool.true_and]
              rw [hlast]
              cases hdn : wDone s (.resp r p) with
              | false => simp
              | true =>
                have hsent : (bobsOf sess ids (.write (.resp r p) ctx ctxNew) c (step c (.write (.resp r p) ctx ctxNew))).sent.any (respOn p x) = true := by
                  obtain ⟨b, hb⟩ := sentM_of_emit (c' := step c (.write (.resp r p) ctx ctxNew)) hex
                    (.json (pend ++ [⟨.resp r p, ctx⟩]))
                    (by rw [hstep]
                        simp only [writeTo, wDeliver, deliver, hat, hopn, hjs, hdn, if_true, eraseResp_exs]
                        first | exact Or.inr rfl | exact Or.inr trivial | simp)
                  rw [List.any_eq_true]
                  exact ⟨_, List.mem_map_of_mem hb, respOn_json x b pend r p ctx⟩
                have := hends hdn
                simp only [List.contains_eq_mem, decide_eq_true_eq] at this
                simp [hsent, this]

/-! ### the run -/

/-- the monitor has seen nothing yet, or its last snapshot of the session is the model's state -/
def BRel (sn : σ) (ids : List Nat) (m : BatchS σ) (c : Conn α) : Prop :=
  m.last sn = none ∨ m.last sn = some (bsnapOf sn ids c)

theorem checkResp_congr (sn : σ) (m m' : BatchS σ) (o : BObs σ α) (h : m.last sn = m'.last sn)
    (hs : ∀ s r p, o.op = .resp s r p → s = sn) : checkResp m o = checkResp m' o := by
  unfold checkResp
  cases hop : o.op with
  | other => rfl
  | resp s r p =>
    have := hs s r p hop
    subst this
    simp only [h]

theorem bop_sess (sn : σ) (l : Label α) (s : σ) (r : Nat) (p : α) (h : bopOf sn l = .resp s r p) : s = sn := by
  cases l with
  | write msg ctx ctxNew =>
    cases msg with
    | resp r' p' => simp only [bopOf, BOp.resp.injEq] at h; exact h.1.symm
    | notif _ => simp [bopOf] at h
    | call _ => simp [bopOf] at h
  | post _ _ _ _ => simp [bopOf] at h
  | cut _ => simp [bopOf] at h
  | wfail _ => simp [bopOf] at h
  | get _ _ _ => simp [bopOf] at h
  | sclose _ _ => simp [bopOf] at h
  | «end» => simp [bopOf] at h
  | evict _ _ => simp [bopOf] at h
  | wroute _ _ _ => simp [bopOf] at h
  | wdeliver _ => simp [bopOf] at h

theorem batch_step_ok (sn : σ) (ids : List Nat) {m : BatchS σ} {c : Conn α} (hw : Inv c) (hr : InvReg c) (hl : InvLive c)
    (hnp : c.pendW = []) (hrel : BRel sn ids m c) (l : Label α) :
    (batchStep m (bobsOf sn ids l c (step c l))).2 = none ∧ BRel sn ids (batchStep m (bobsOf sn ids l c (step c l))).1 (step c l) := by
  have horph : orphan (bobsOf sn ids l c (step c l)).snaps = false := orphan_model sn ids (invReg_step hw hr l)
  have hchk : checkResp m (bobsOf sn ids l c (step c l)) = none := by
    rcases hrel with h | h
    · unfold checkResp
      cases hop : (bobsOf sn ids l c (step c l)).op with
      | other => rfl
      | resp s r p =>
        have := bop_sess sn l s r p hop
        subst this
        simp [h]
    · rw [checkResp_congr sn m { last := fun s' => if s' = sn then some (bsnapOf sn ids c) else none } _ (by simp [h])
        (fun s r p hop => bop_sess sn l s r p hop)]
      exact checkResp_model sn ids hw hr hl hnp l
  refine ⟨by simp [batchStep, hchk, horph], Or.inr ?_⟩
  simp [batchStep, bobsOf, applyBSnaps, bsnapOf]

theorem step_pendW_nil (c : Conn α) (l : Label α) (h1 : ∀ msg ctx n, l ≠ .wroute msg ctx n) (hnp : c.pendW = []) :
    (step c l).pendW = [] := by
  by_cases h2 : ∀ i, l ≠ .wdeliver i
  · rw [step_pendW_other c l h1 h2]; exact hnp
  · have : ∃ i, l = .wdeliver i := by
      cases l with
      | wdeliver i => exact ⟨i, rfl⟩
      | post _ _ _ _ => exact absurd (fun i h => by cases h) h2
      | write _ _ _ => exact absurd (fun i h => by cases h) h2
      | cut _ => exact absurd (fun i h => by cases h) h2
      | wfail _ => exact absurd (fun i h => by cases h) h2
      | get _ _ _ => exact absurd (fun i h => by cases h) h2
      | sclose _ _ => exact absurd (fun i h => by cases h) h2
      | «end» => exact absurd (fun i h => by cases h) h2
      | evict _ _ => exact absurd (fun i h => by cases h) h2
      | wroute _ _ _ => exact absurd (fun i h => by cases h) h2
    obtain ⟨i, rfl⟩ := this
    show (wdeliverR c i).1.pendW = []
    unfold wdeliverR
    rw [hnp]
    simp [hnp]

theorem batch_accepts_from (sn : σ) (ids : List Nat) : ∀ (ls : List (Label α)) (c : Conn α) (m : BatchS σ),
    Inv c → InvReg c → InvLive c → c.pendW = [] → BRel sn ids m c → NoRoute ls →
    (batchRun m (btraceOf1 sn ids c ls)).2 = none := by
  intro ls
  induction ls with
  | nil => intro c m _ _ _ _ _ _; rfl
  | cons l t ih =>
    intro c m hw hr hl hnp hrel hno
    obtain ⟨h1, h2⟩ := batch_step_ok sn ids hw hr hl hnp hrel l
    have := ih (step c l) _ (inv_step hw l) (invReg_step hw hr l) (live_step hw hl l)
      (step_pendW_nil c l (hno l List.mem_cons_self) hnp) h2 (fun l' hl' => hno l' (List.mem_cons_of_mem _ hl'))
    simp only [btraceOf1, batchRun]
    rw [h1, this]; rfl

/-- **C02 bridging, batch clauses.**  For every configuration, every label list in which `Write` is one step, any session
name and any candidate id list for the enumeration of `requestStreams`: `Mon.batchStep` raises no clause on the model's
observation trace (one record per label). -/
theorem batchMonitor_accepts_model (cfg : Cfg) (sn : σ) (ids : List Nat) (ls : List (Label α)) (hno : NoRoute ls) :
    (batchRun (batchInit : BatchS σ) (btraceOf1 sn ids (init cfg : Conn α) ls)).2 = none :=
  batch_accepts_from sn ids ls (init cfg) _ (inv_init cfg) (invReg_init cfg) (live_init cfg) rfl (Or.inl rfl) hno

/-- the `orphanReg` clause needs no scope: in every reachable state (split write labels included) every entry of
`requestStreams` names a registered stream that lists the request as outstanding -/
theorem orphan_accepts_all (cfg : Cfg) (sn : σ) (ids : List Nat) (ls : List (Label α)) :
    orphan [bsnapOf sn ids (run (init cfg : Conn α) ls)] = false :=
  orphan_model sn ids (invReg_run cfg ls)

/-! ### what the clauses mean -/

namespace Mon
variable {π : Type} [DecidableEq π]

/-- `orphanReg` ⇔ some snapshot has a `requestStreams` entry `r ↦ t` although no row `t` lists `r` as outstanding -/
theorem orphan_iff (snaps : List (BSnap σ)) :
    orphan snaps = true ↔ ∃ s ∈ snaps, ∃ x ∈ s.regs, ∀ row ∈ s.rows, ¬ (row.t = x.2 ∧ x.1 ∈ row.reqs) := by
  simp only [orphan, snapOrphan, regOK, List.any_eq_true, Bool.not_eq_true', List.any_eq_false, Bool.and_eq_true, beq_iff_eq,
    List.contains_eq_mem, decide_eq_true_eq]

/-- no clause for a finished handler whose call the row lists ⇔ if the row is attached to `x` and open then: the response
was written to `x` (SSE), or — JSON, last call of a request stream — a body holding it was written to `x`; and with the last call of a request
stream the handler of `x` returned -/
theorem rowClause_none_iff (row : BRow) (r : Nat) (p : π) (o : BObs σ π) :
    rowClause row r p o = none ↔ ∀ x, row.att = some x → row.opn = true →
      (row.sse = true → ∃ s ∈ o.sent, respOn p x s = true) ∧
      (row.sse = false → (∀ q ∈ row.reqs, q = r) → row.t ≠ 0 → ∃ s ∈ o.sent, respOn p x s = true) ∧
      ((∀ q ∈ row.reqs, q = r) → row.t ≠ 0 → x ∈ o.ends) := by
  unfold rowClause
  cases hat : row.att with
  | none => simp
  | some x =>
    simp only [Option.some.injEq, forall_eq']
    cases hop : row.opn with
    | false => simp
    | true =>
      simp only [Bool.not_true, Bool.false_eq_true, if_false, forall_const]
      have e1 : (∀ q ∈ row.reqs, q = r) ↔ row.reqs.all (· == r) = true := by simp [List.all_eq_true]
      have e2 : (∃ s ∈ o.sent, respOn p x s = true) ↔ o.sent.any (respOn p x) = true := by simp [List.any_eq_true]
      have e3 : row.t ≠ 0 ↔ (row.t != 0) = true := by simp
      have e4 : x ∈ o.ends ↔ o.ends.contains x = true := by simp
      rw [e1, e2, e3, e4]
      cases row.sse <;> cases o.sent.any (respOn p x) <;> cases row.reqs.all (· == r) <;>
        cases (row.t != 0) <;> cases o.ends.contains x <;> simp

/-- a clause of a finished handler is raised only for an open session whose last snapshot lists the call on some row -/
theorem checkResp_some (m : BatchS σ) (o : BObs σ π) (cl : ClauseB) (h : checkResp m o = some cl) :
    ∃ sess r p sn row, o.op = .resp sess r p ∧ m.last sess = some sn ∧ sn.done = false ∧
      sn.rows.find? (fun row => row.reqs.contains r) = some row ∧ rowClause row r p o = some cl := by
  unfold checkResp at h
  split at h
  · rename_i sess r p hop
    split at h
    · cases h
    · rename_i sn hsn
      split at h
      · cases h
      · rename_i hd
        split at h
        · cases h
        · rename_i row hrow
          exact ⟨sess, r, p, sn, row, hop, hsn, by simpa using hd, hrow, h⟩
  · cases h

end Mon
end Resume
