import McpModel.Resume.Props
/-!
Non-vacuity witnesses for the C08/C10 theorems (concrete schedules evaluated by the kernel), a decidable
form of the scope predicate, and the proved description of the one routing behaviour that needs a
protocol-violating client (request id reused within a session).
-/
namespace Resume
variable {α : Type}

/-- decidable form of `InScope` -/
def inScopeB (c : Conn α) : Label α → Bool
  | .write _ _ ctxNew => !ctxNew
  | .wroute _ _ ctxNew => !ctxNew
  | .post _ _ ver _ => !ver.isNew
  | .get (.ok sid idx) _ _ => match c.store sid with
    | some log => decide (idx < log.length)
    | none => true
  | _ => true

def inScopeRunB : Conn α → List (Label α) → Bool
  | _, [] => true
  | c, l :: ls => inScopeB c l && inScopeRunB (step c l) ls

theorem inScope_of_b {c : Conn α} {l : Label α} (h : inScopeB c l = true) : InScope c l := by
  cases l with
  | write msg ctx ctxNew => simpa [inScopeB, InScope] using h
  | post calls listen ver budget => simpa [inScopeB, InScope] using h
  | get hdr ver budget =>
    cases hdr with
    | ok sid idx =>
      simp only [InScope]
      intro log hl
      simp only [inScopeB, hl] at h
      simpa using h
    | none => trivial
    | bad => trivial
  | cut ex => trivial
  | wfail ex => trivial
  | sclose req retry => trivial
  | «end» => trivial
  | evict _ _ => trivial
  | wroute msg ctx ctxNew => simpa [inScopeB, InScope] using h
  | wdeliver _ => trivial

theorem inScopeRun_of_b : ∀ (ls : List (Label α)) (c : Conn α), inScopeRunB c ls = true → InScopeRun c ls
  | [], _, _ => trivial
  | l :: ls, c, h => by
    simp only [inScopeRunB, Bool.and_eq_true] at h
    exact ⟨inScope_of_b h.1, inScopeRun_of_b ls _ h.2⟩

/-! ### a concrete schedule: prime, live delivery, cut, write while detached, resume, completion, resume after completion -/

def cfgW : Cfg := { stateless := false, jsonResponse := false, hasStore := true, noSession := false }

def demo : List (Label Nat) :=
  [ .post [7] false .v1125 none,              -- exchange 0, stream 1, priming event (1,0)
    .write (.notif 100) (some 7) false,        -- delivered live as (1,1)
    .cut 0,                                    -- the POST exchange is cut
    .write (.notif 101) (some 7) false,        -- written while detached: stored as index 2 only
    .get (.ok 1 1) .v1125 none,                -- resume after (1,1): exchange 1 replays (1,2) and attaches
    .write (.resp 7 200) (some 7) false,       -- final response, live on exchange 1 as (1,3); stream deleted
    .get (.ok 1 0) .v1125 none ]               -- resume after completion from the priming id: replays (1,1),(1,2),(1,3)

example : InScopeRun (init cfgW) demo := inScopeRun_of_b _ _ (by decide)

example : ((run (init cfgW) demo).exs.map (fun e => e.out)) =
    [ [.prime 1 0, .message (some (1, 1)) ⟨.notif 100, some 7⟩],
      [.message (some (1, 2)) ⟨.notif 101, some 7⟩, .message (some (1, 3)) ⟨.resp 7 200, some 7⟩],
      [.message (some (1, 1)) ⟨.notif 100, some 7⟩, .message (some (1, 2)) ⟨.notif 101, some 7⟩,
       .message (some (1, 3)) ⟨.resp 7 200, some 7⟩] ] := by decide

example : (run (init cfgW) demo).log 1 =
    [none, some ⟨.notif 100, some 7⟩, some ⟨.notif 101, some 7⟩, some ⟨.resp 7 200, some 7⟩] := by decide

/-- the stream is gone from `streams` (all responses written) yet its log still serves resumes -/
example : (findStream 1 (run (init cfgW) demo).streams).isNone = true := by decide

/-- an attached open stream exists in the middle of the schedule (non-vacuity of `attached_lastIdx_aligned`) -/
example : ((run (init cfgW) (demo.take 5)).streams.map (fun s => (s.id, s.attached, s.opn, s.next))) =
    [(0, none, false, 0), (1, some 1, true, 3)] := by decide

/-- a duplicate in-flight id (non-vacuity of `duplicate_inflight_id_refused_atomically`) -/
example : ((run (init cfgW) ([.post [7] false .v1125 none, .post [8, 7] false .v0326 none] : List (Label Nat))).exs.map (fun e => e.kind)) =
    [.sse, .status 400] := by decide

/-- in-request traffic after the response is rejected (non-vacuity of `after_response_rejected_not_misrouted`) -/
example : (stepR (run (init cfgW) ([.post [7] false .v1125 none, .write (.resp 7 200) (some 7) false] : List (Label Nat)))
    (.write (.notif 5) (some 7) false)).2 = .rejected := by decide

/-! ### the behaviour that needs a protocol-violating client

The MCP base protocol forbids a client to reuse a request id within a session.  If it does so *after*
the first request completed, `requestStreams` maps the id to the new request's stream; a straggler of
the finished handler that still uses the old request's context is then delivered on the *new*
request's stream (it is rejected only as long as the id is not registered again).  The harness exhibits
this on the real code with `VERIF_RESUME_IDREUSE=1` (monitor clause "C10: straggler of a finished
request …"); it is outside C10's quantifier (ids are reused across sessions, not within one). -/
theorem straggler_after_id_reuse_lands_on_new_stream :
    let c := run (init cfgW) ([ .post [7] false .v0618 none,          -- request 7 on exchange 0 / stream 1
                                .write (.resp 7 200) (some 7) false,   -- answered: stream 1 deleted
                                .post [7] false .v0618 none,           -- the client reuses id 7: exchange 1 / stream 2
                                .write (.notif 555) (some 7) false ] : List (Label Nat))  -- straggler of the FIRST request
    (c.exs.map (fun e => (e.stream, e.out))) =
      [ (1, [.message (some (1, 0)) ⟨.resp 7 200, some 7⟩]),
        (2, [.message (some (2, 0)) ⟨.notif 555, some 7⟩]) ] := by decide

end Resume
