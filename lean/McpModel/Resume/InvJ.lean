import McpModel.Resume.Tag
/-!
E5 — `application/json` bodies only ever appear on exchanges of JSON streams (request streams of a
connection in JSON-response mode that are not `subscriptions/listen` streams): `InvJ`, all label lists.
Together with the routing invariant this gives: a JSON body carries responses only.
-/
namespace Resume
variable {α : Type}

/-- a request stream whose POST is answered with `application/json` -/
def JSONStream (c : Conn α) (sid : Nat) : Prop :=
  c.cfg.jsonResponse = true ∧ sid ≠ 0 ∧ ∃ calls, c.hist sid = some (calls, false)

theorem jsonStream_ext {c c' : Conn α} (h : Ext c c') {sid : Nat} (hj : JSONStream c sid) : JSONStream c' sid := by
  obtain ⟨h1, h2, calls, h3⟩ := hj
  exact ⟨by rw [h.cfg]; exact h1, h2, calls, h.hist sid _ h3⟩

def Out.notJson : Out α → Prop
  | .json _ => False
  | _ => True

structure InvJ (c : Conn α) : Prop where
  str : ∀ s ∈ c.streams, s.json.isSome → JSONStream c s.id
  ex : ∀ (j : Nat) (e : Exch α), c.exs[j]? = some e → ∀ o ∈ e.all, ¬ o.notJson → JSONStream c e.stream

theorem invJ_init (cfg : Cfg) : InvJ (init cfg : Conn α) := by
  refine ⟨?_, ?_⟩
  · intro s hs h; simp [init] at hs; subst hs; cases h
  · intro j e he; simp [init] at he

/-- exchange tables whose new writes are not JSON bodies -/
def ExNoJ (exs exs' : List (Exch α)) : Prop :=
  ∀ (j : Nat) (e' : Exch α), exs'[j]? = some e' →
    (∃ e, exs[j]? = some e ∧ e'.stream = e.stream ∧ ∀ o ∈ e'.all, o ∈ e.all ∨ o.notJson) ∨
    (∀ o ∈ e'.all, o.notJson)

theorem ExNoJ.refl (exs : List (Exch α)) : ExNoJ exs exs :=
  fun _ e' h => Or.inl ⟨e', h, rfl, fun _ ho => Or.inl ho⟩

theorem ExNoJ.trans {a b c : List (Exch α)} (h₁ : ExNoJ a b) (h₂ : ExNoJ b c) : ExNoJ a c := by
  intro j e'' h
  rcases h₂ j e'' h with ⟨e', he', s2, r2⟩ | hall
  · rcases h₁ j e' he' with ⟨e, he, s1, r1⟩ | hall1
    · refine Or.inl ⟨e, he, s2.trans s1, ?_⟩
      intro o ho
      rcases r2 o ho with ho' | hi
      · exact r1 o ho'
      · exact Or.inr hi
    · refine Or.inr ?_
      intro o ho
      rcases r2 o ho with ho' | hi
      · exact hall1 o ho'
      · exact hi
  · exact Or.inr hall

theorem exNoJ_finishX (exs : List (Exch α)) (ex : Nat) : ExNoJ exs (finishX exs ex) := by
  intro j e' h
  obtain ⟨e, h0, hs, _, hall⟩ := finishX_all _ _ _ _ h
  exact Or.inl ⟨e, h0, hs, fun o ho => Or.inl (by rw [← hall]; exact ho)⟩

theorem exNoJ_wfail (exs : List (Exch α)) (ex : Nat) :
    ExNoJ exs (setEx ex (fun e => { e with budget := some 0 }) exs) := by
  intro j e' h
  by_cases hj : j = ex
  · subst hj
    rw [getElem?_setEx_eq] at h
    cases hl : exs[j]? with
    | none => rw [hl] at h; cases h
    | some a => rw [hl] at h; simp at h; subst h; exact Or.inl ⟨a, rfl, rfl, fun o ho => Or.inl ho⟩
  · rw [getElem?_setEx_ne _ _ _ _ hj] at h
    exact Or.inl ⟨e', h, rfl, fun o ho => Or.inl ho⟩

theorem exNoJ_append (exs : List (Exch α)) (e : Exch α) (he : e.all = []) : ExNoJ exs (exs ++ [e]) := by
  intro j e' h
  by_cases hj : j < exs.length
  · rw [List.getElem?_append_left hj] at h
    exact Or.inl ⟨e', h, rfl, fun o ho => Or.inl ho⟩
  · have hj' : exs.length ≤ j := by omega
    rw [List.getElem?_append_right hj'] at h
    have : j - exs.length = 0 := by
      by_cases h0 : j - exs.length = 0
      · exact h0
      · rw [List.getElem?_eq_none (by simp; omega)] at h; cases h
    rw [this] at h; simp at h; subst h
    exact Or.inr (by rw [he]; intro o ho; cases ho)

theorem exNoJ_emitX (exs : List (Exch α)) (hok : ∀ e ∈ exs, ExOK e) (ex : Nat) (o : Out α) (ho : o.notJson) :
    ExNoJ exs (emitX exs ex o).1 := by
  intro j e' h
  obtain ⟨e, h0, hs, _, r⟩ := emitX_get exs hok ex o j e' h
  refine Or.inl ⟨e, h0, hs, ?_⟩
  intro x hx
  rcases r with ⟨_, r⟩ | ⟨_, r⟩
  · rw [r] at hx
    rcases List.mem_append.mp hx with hx | hx
    · exact Or.inl hx
    · simp at hx; subst hx; exact Or.inr ho
  · subst r; exact Or.inl hx

theorem invJ_frame0 {c c' : Conn α} (h : InvJ c) (hext : Ext c c') (hs : StrKeep c.streams c'.streams)
    (he : ∀ (j : Nat) (e' : Exch α), c'.exs[j]? = some e' → ∀ o ∈ e'.all, ¬ o.notJson → JSONStream c e'.stream) : InvJ c' := by
  refine ⟨?_, ?_⟩
  · intro s' hs' hj
    obtain ⟨s, hsl, h1, _, _, _, h5⟩ := hs s' hs'
    rw [h1]; exact jsonStream_ext hext (h.str s hsl (by rw [← h5]; exact hj))
  · intro j e' he' o ho hn
    exact jsonStream_ext hext (he j e' he' o ho hn)

theorem invJ_frame {c c' : Conn α} (h : InvJ c) (hext : Ext c c') (hs : StrKeep c.streams c'.streams)
    (he : ExNoJ c.exs c'.exs) : InvJ c' := by
  refine invJ_frame0 h hext hs ?_
  intro j e' he' o ho hn
  rcases he j e' he' with ⟨e, hej, hs1, r⟩ | hall
  · rcases r o ho with ho' | hi
    · rw [hs1]; exact h.ex j e hej o ho' hn
    · exact absurd hi hn
  · exact absurd (hall o ho) hn

theorem invJ_cut {c : Conn α} (h : InvJ c) (ex : Nat) : InvJ (cut c ex) :=
  invJ_frame (c' := cut c ex) h (ext_of_eq rfl rfl rfl) (strKeep_release _ _) (exNoJ_finishX _ _)

theorem invJ_finish {c : Conn α} (h : InvJ c) (ex : Nat) : InvJ (finish c ex) :=
  invJ_frame (c' := finish c ex) h (ext_of_eq rfl rfl rfl) (StrKeep.refl _) (exNoJ_finishX _ _)

theorem invJ_wfail {c : Conn α} (h : InvJ c) (ex : Nat) : InvJ (wfail c ex) :=
  invJ_frame (c' := wfail c ex) h (ext_of_eq rfl rfl rfl) (StrKeep.refl _) (exNoJ_wfail _ _)

theorem invJ_statusEx {c : Conn α} (h : InvJ c) (code sid : Nat) : InvJ (statusEx c code sid) :=
  invJ_frame (c' := statusEx c code sid) h (ext_of_eq rfl rfl rfl) (StrKeep.refl _) (exNoJ_append _ _ rfl)

theorem invJ_eraseResp {c : Conn α} (h : InvJ c) (msg : Msg α) : InvJ (eraseResp c msg) :=
  invJ_frame (c' := eraseResp c msg) h (ext_of_eq (by simp) (by simp) (by simp))
    (by simp; exact StrKeep.refl _) (by simp; exact ExNoJ.refl _)

theorem invJ_sclose {c : Conn α} (hw : Inv c) (h : InvJ c) (req : Nat) (retry : Bool) : InvJ (sclose c req retry) := by
  unfold sclose
  split
  · exact h
  · split
    · exact h
    · rename_i s hs
      have hmem := (findStream_some hs).1
      split
      · rename_i ex hat hop
        split
        · refine invJ_frame (c' := { (emit c ex .close).1 with streams := setStream { s with opn := false } (emit c ex .close).1.streams })
            h (ext_of_eq rfl rfl rfl) ?_ (exNoJ_emitX _ hw.ex_ok _ _ trivial)
          exact strKeep_set (s := s) hmem rfl rfl rfl rfl rfl
        · refine invJ_frame (c' := { c with streams := setStream { s with opn := false } c.streams })
            h (ext_of_eq rfl rfl rfl) ?_ (ExNoJ.refl _)
          exact strKeep_set (s := s) hmem rfl rfl rfl rfl rfl
      · exact h

theorem invJ_writeTo {c : Conn α} (hw : Inv c) (h : InvJ c) {s : Stream α} (hmem : s ∈ c.streams) (msg : Msg α)
    (ctx : Option Nat) (ctxNew : Bool) : InvJ (writeTo c s msg ctx ctxNew).1 := by
  have hext : Ext c (writeTo c s msg ctx ctxNew).1 := ext_of_eq rfl rfl rfl
  have hds := deliver_stream c.exs s ⟨msg, ctx⟩ (if wUse c ctxNew then some (s.id, s.next) else none) (wReqs s msg) (wDone s msg)
  refine ⟨?_, ?_⟩
  · intro x hx hj
    apply jsonStream_ext hext
    simp only [writeTo] at hx
    split at hx
    · rw [mem_delStream] at hx; exact h.str x hx.1 hj
    · rcases mem_setStream hx with rfl | ⟨hxl, _⟩
      · simp only [wDeliver] at hj ⊢
        rw [hds.1]
        apply h.str s hmem
        cases hp : (deliver c.exs s ⟨msg, ctx⟩ (if wUse c ctxNew then some (s.id, s.next) else none) (wReqs s msg) (wDone s msg)).2.1.json with
        | none => rw [hp] at hj; cases hj
        | some p =>
          rcases deliver_json _ _ _ _ _ _ p hp with hp' | ⟨pend, hp', _⟩
          · rw [hp']; rfl
          · rw [hp']; rfl
      · exact h.str x hxl hj
  · intro j e' he' o ho hn
    apply jsonStream_ext hext
    simp only [writeTo, wDeliver] at he'
    obtain ⟨e, hej, hs1, r⟩ := deliver_items c.exs hw.ex_ok s ⟨msg, ctx⟩ _ _ _ j e' he'
    rw [hs1]
    rcases r o ho with ho' | ⟨hat, ho'⟩
    · exact h.ex j e hej o ho' hn
    · obtain ⟨e₀, hej0, hes⟩ := hw.att s hmem j hat
      rw [hej] at hej0; cases hej0
      rw [hes]
      rcases ho' with rfl | ⟨pend, hp, rfl⟩
      · exact absurd trivial hn
      · exact h.str s hmem (by rw [hp]; rfl)

theorem invJ_write {c : Conn α} (hw : Inv c) (h : InvJ c) (msg : Msg α) (ctx : Option Nat) (ctxNew : Bool) :
    InvJ (writeR c msg ctx ctxNew).1 := by
  unfold writeR
  split
  · exact h
  · split
    · exact invJ_eraseResp h msg
    · rename_i s hs
      split
      · exact invJ_eraseResp h msg
      · exact invJ_writeTo (inv_eraseResp hw msg) (invJ_eraseResp h msg) (by simp; exact route_mem hs) _ _ _

theorem invJ_postPrimed {c : Conn α} (hw : Inv c) (h10 : Inv10 c) (hb : InvBorn c) (h : InvJ c)
    (calls : List Nat) (listen : Bool) (ver : Ver) (budget : Option Nat) : InvJ (postPrimed c calls listen ver budget) := by
  obtain ⟨fs, _, _, fc, _, _, fh⟩ := postPrimed_frame c calls listen ver budget
  have fb := postPrimed_born c calls listen ver budget
  have hext : Ext c (postPrimed c calls listen ver budget) := by
    refine ⟨fc, ?_, ?_⟩
    · intro sid v hv
      rw [fh]
      have : sid ≠ c.nextSid := fun hh => by have := h10.hist_lt sid (by rw [hv]; rfl); omega
      simp [this, hv]
    · intro sid x hx
      rw [fb]
      have : sid ≠ c.nextSid := fun hh => by have := (hb.lt sid x hx).1; omega
      simp [this, hx]
  refine ⟨?_, ?_⟩
  · intro s' hs' hj
    rw [fs] at hs'
    simp only [List.mem_append, List.mem_singleton] at hs'
    rcases hs' with hold | rfl
    · exact jsonStream_ext hext (h.str s' hold hj)
    · simp only [newStream] at hj ⊢
      split at hj
      · cases hj
      · rename_i hu
        simp only [useSSE, Bool.or_eq_true, Bool.not_eq_true', not_or, Bool.not_eq_false, Bool.not_eq_true] at hu
        exact ⟨by rw [fc]; exact hu.1, by have := hb.npos; omega, calls, by rw [fh]; simp [hu.2]⟩
  · intro j e' he' o ho hn
    rcases postPrimed_exs _ _ _ _ _ _ _ he' with ⟨_, hold⟩ | ⟨_, _, _, hall⟩
    · exact jsonStream_ext hext (h.ex j e' hold o ho hn)
    · rw [hall] at ho
      split at ho
      · simp at ho; subst ho; exact absurd trivial hn
      · cases ho

theorem invJ_post {c : Conn α} (hw : Inv c) (h10 : Inv10 c) (hb : InvBorn c) (h : InvJ c)
    (calls : List Nat) (listen : Bool) (ver : Ver) (budget : Option Nat) : InvJ (post c calls listen ver budget) := by
  unfold post
  split
  · exact invJ_statusEx h _ _
  · split
    · unfold postDup
      apply invJ_statusEx
      exact invJ_frame (c' := { c with store := if opens c ver then openLog c.nextSid c.store else c.store, nextSid := c.nextSid + 1 })
        h (ext_of_eq rfl rfl rfl) (StrKeep.refl _) (ExNoJ.refl _)
    · rw [postNew_eq]
      split
      · exact invJ_cut (invJ_postPrimed hw h10 hb h _ _ _ _) _
      · exact invJ_postPrimed hw h10 hb h _ _ _ _

theorem invJ_getGo {c : Conn α} (hw : Inv c) (h : InvJ c) (sid frm : Nat) (ver : Ver) (budget : Option Nat)
    (items : List (Item α)) : InvJ (getGo c sid frm ver budget items) := by
  obtain ⟨gs, _, _, _, gh, gc, _, glen, gold, _⟩ := getOpen_frame c sid frm budget
  obtain ⟨e0, ge0, ges, _, gno, _⟩ := getOpen_new c sid frm budget
  have hw2 := getOpen_inv hw sid frm budget
  obtain ⟨fs, _, _, _, fh, fc, _, _⟩ := replayLoop_frame (getOpen c sid frm budget) c.exs.length sid frm items
  have gb := getOpen_born c sid frm budget
  have fb := replayLoop_born (getOpen c sid frm budget) c.exs.length sid frm items
  have hexs : ∀ (j : Nat) (e1 : Exch α), (replayLoop (getOpen c sid frm budget) c.exs.length sid frm items).1.exs[j]? = some e1 →
      ∀ o ∈ e1.all, ¬ o.notJson → JSONStream c e1.stream := by
    intro j e1 h1 o ho hn
    obtain ⟨e, hej, hs1, r⟩ := replayLoop_items sid c.exs.length items (getOpen c sid frm budget) frm hw2.ex_ok j e1 h1
    rw [hs1]
    by_cases hj : j = c.exs.length
    · subst hj
      rw [ge0] at hej; cases hej
      rcases r o ho with ho' | ⟨_, k', it', _, rfl⟩
      · have := gno o ho'
        cases o <;> simp [Out.isEv] at this <;> first | exact absurd trivial hn | skip
        -- a JSON body is no event either; the only write so far is the comment
        unfold getOpen at ge0
        split at ge0
        · simp only [emit] at ge0
          rw [(emitX_eq _ _ _ _ List.getElem?_concat_length).1] at ge0
          cases ge0
          rw [push_all _ _ (fun hl => absurd rfl hl)] at ho'
          simp [Exch.all] at ho'
        · rw [List.getElem?_concat_length] at ge0; cases ge0; simp [Exch.all] at ho'
      · exact absurd trivial hn
    · have hlt : j < c.exs.length := by
        by_cases hh : j < c.exs.length
        · exact hh
        · rw [List.getElem?_eq_none (by omega)] at hej; cases hej
      rw [gold j hlt] at hej
      rcases r o ho with ho' | ⟨hje, _⟩
      · exact h.ex j e hej o ho' hn
      · exact absurd hje hj
  have hstreams : (replayLoop (getOpen c sid frm budget) c.exs.length sid frm items).1.streams = c.streams := fs.trans gs
  have hfin : InvJ (finish (replayLoop (getOpen c sid frm budget) c.exs.length sid frm items).1 c.exs.length) := by
    refine invJ_frame0 h (ext_of_eq (by simp [finish, fc, gc]) (by simp [finish, fh, gh]) (by simp [finish, fb, gb]))
      (by simp only [finish]; rw [hstreams]; exact StrKeep.refl _) ?_
    intro j e' he' o ho hn
    simp only [finish] at he'
    obtain ⟨e₁, h1, s1, _, a1⟩ := finishX_all _ _ _ _ he'
    rw [s1]; rw [a1] at ho
    exact hexs j e₁ h1 o ho hn
  unfold getGo
  split
  · split
    · exact hfin
    · rename_i s hsf
      have hmem := (findStream_some hsf).1
      split
      · exact hfin
      · have hA : InvJ ({ (replayLoop (getOpen c sid frm budget) c.exs.length sid frm items).1 with
            streams := setStream { s with attached := some c.exs.length, opn := true, next := frm + items.length, v1125 := ver.ge1125 }
              (replayLoop (getOpen c sid frm budget) c.exs.length sid frm items).1.streams } : Conn α) := by
          refine invJ_frame0 h (ext_of_eq (by simp [fc, gc]) (by simp [fh, gh]) (by simp [fb, gb])) ?_ ?_
          · simp only; rw [hstreams]
            exact strKeep_set (s := s) hmem rfl rfl rfl rfl rfl
          · intro j e' he' o ho hn
            exact hexs j e' he' o ho hn
        unfold attach
        split
        · exact invJ_cut hA _
        · exact hA
  · exact hfin

theorem invJ_get {c : Conn α} (hw : Inv c) (h : InvJ c) (hdr : Hdr) (ver : Ver) (budget : Option Nat) :
    InvJ (get c hdr ver budget) := by
  unfold get
  split
  · exact invJ_statusEx h _ _
  · split
    · exact invJ_statusEx h _ _
    · split
      · exact invJ_statusEx h _ _
      · split
        · exact invJ_statusEx h _ _
        · exact invJ_getGo hw h _ _ _ _ _

theorem invJ_step {c : Conn α} (hw : Inv c) (h10 : Inv10 c) (hb : InvBorn c) (h : InvJ c) (l : Label α) : InvJ (step c l) := by
  unfold step stepR
  cases l with
  | post calls listen ver budget => exact invJ_post hw h10 hb h _ _ _ _
  | write msg ctx ctxNew => exact invJ_write hw h _ _ _
  | cut ex => exact invJ_cut h _
  | wfail ex => exact invJ_wfail h _
  | get hdr ver budget => exact invJ_get hw h _ _ _
  | sclose req retry => exact invJ_sclose hw h _ _
  | «end» => exact invJ_frame (c' := { c with isDone := true }) h (ext_of_eq rfl rfl rfl) (StrKeep.refl _) (ExNoJ.refl _)
  | evict sid n => exact invJ_frame (c' := evict c sid n) h (ext_of_eq rfl rfl rfl) (StrKeep.refl _) (ExNoJ.refl _)
  | wroute msg ctx ctxNew =>
    show InvJ (wrouteR c msg ctx ctxNew).1
    unfold wrouteR
    split
    · exact h
    · split
      · exact invJ_eraseResp h msg
      · split
        · exact invJ_eraseResp h msg
        · exact invJ_frame (c' := { eraseResp c msg with pendW := _ }) (invJ_eraseResp h msg) (ext_of_eq rfl rfl rfl) (StrKeep.refl _) (ExNoJ.refl _)
  | wdeliver i =>
    show InvJ (wdeliverR c i).1
    unfold wdeliverR
    split
    · exact h
    · rename_i pw hpw
      have hw1 : Inv ({ c with pendW := c.pendW.eraseIdx i } : Conn α) :=
        inv_pendW hw _ (fun x hx => hw.pend_lt x (mem_eraseIdx hx))
      have h1 : InvJ ({ c with pendW := c.pendW.eraseIdx i } : Conn α) :=
        invJ_frame (c' := { c with pendW := c.pendW.eraseIdx i }) h (ext_of_eq rfl rfl rfl) (StrKeep.refl _) (ExNoJ.refl _)
      split
      · rename_i s hs
        exact invJ_writeTo hw1 h1 (findStream_some hs).1 _ _ _
      · exact invJ_frame (c' := (orphanWrite ({ c with pendW := c.pendW.eraseIdx i } : Conn α) pw).1) h1 (ext_of_eq rfl rfl rfl)
          (StrKeep.refl _) (ExNoJ.refl _)

/-- with the routing invariant: a JSON body carries responses only -/
theorem json_body_responses {c : Conn α} (h10 : Inv10 c) (hj : InvJ c) (j : Nat) (e : Exch α) (he : c.exs[j]? = some e)
    (items : List (Item α)) (ho : Out.json items ∈ e.all) (it : Item α) (hit : it ∈ items) : ∃ id p, it.msg = .resp id p := by
  obtain ⟨hjr, hne, calls, hh⟩ := hj.ex j e he (.json items) ho (fun h => h)
  obtain ⟨calls', li, hh', hm⟩ := h10.routed_ex j e he (.json items) ho it hit
  rw [hh] at hh'; cases hh'
  cases hmsg : it.msg with
  | resp id p => exact ⟨id, p, rfl⟩
  | notif p =>
    rw [hmsg] at hm
    rcases hm with ⟨hf, _⟩ | ⟨_, h0 | hl⟩
    · rw [hjr] at hf; cases hf
    · exact absurd h0 hne
    · cases hl
  | call p =>
    rw [hmsg] at hm
    rcases hm with ⟨hf, _⟩ | ⟨_, h0 | hl⟩
    · rw [hjr] at hf; cases hf
    · exact absurd h0 hne
    · cases hl

end Resume
