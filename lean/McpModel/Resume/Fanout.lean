import McpModel.Resume.Accept10
import McpModel.Resume.Props
/-!
# C10 — server-level notifications issued from inside a request handler (world label FANOUT)

`Server.ResourceUpdated` (and the list-changed announcements) are session-independent: the server walks over the
subscribed sessions and sends each of them its own copy.  The code that triggers this may run inside the handler of a
request of *one* session (a tool that changes a resource and announces it); the JSON-RPC id of that request lives in the
handler's context (`idContextKey`) and means nothing in any other session.  The world label
`WLabel.fanout origin octx targets p` models the step; its semantics does not look at `origin` / `octx`: every target
session performs the per-connection label `fanCopy p` = WRITE(notification `p`, **no** request context).

* `fanout_copy_is_detached_in_each_session` — for every target session the step is exactly one detached write of that
  session's own connection; which session and which request issued the fan-out is irrelevant;
* `fanCopy_routed_standalone_or_listen`, `fanCopy_never_on_request_exchange` — that write goes to the session's
  `subscriptions/listen` stream or its standalone stream, never to a stream created for a request; in particular not to
  the request that happens to carry the same JSON-RPC id as the issuing request;
* `no_cross_session_run` (in `Props`) covers FANOUT: sessions that are not targets are untouched;
* `wrun_proj`, `monitor_accepts_world_C10` — the history of one session in a world run (with steps of other sessions,
  connects and fan-outs in between) is a per-connection label list, the fan-out copies being `fanCopy` labels; with
  truthful tags (`Prov.fanout` for the copies: `fanCopy_wellTagged`) the typed C10 monitor raises no clause on it —
  `monitor_accepts_model_C10` for the extended label set;
* witnesses: the schedule of seeded change C10-m10 (two sessions, the same request id in flight in both) in the model,
  and the observation a context-threading implementation produces, which the monitor flags.
-/
namespace Resume
open Mon
variable {α σ : Type}

/-! ### the session table -/

theorem findConn_setConn_same (k : Nat) (c' : Conn α) : ∀ (l : List (Nat × Conn α)), (findConn k l).isSome →
    findConn k (setConn k c' l) = some c' := by
  intro l
  induction l with
  | nil => intro h; cases h
  | cons x t ih =>
    obtain ⟨k', c0⟩ := x
    intro h
    simp only [setConn]
    split
    · rename_i hk; simp [findConn, hk]
    · rename_i hk
      simp only [findConn, hk, if_false] at h ⊢
      exact ih h

theorem wOn_same (w : World α) (k : Nat) (l : Label α) :
    findConn k (wOn w k l).conns = (findConn k w.conns).map (fun c => step c l) := by
  unfold wOn
  cases hc : findConn k w.conns with
  | none => simp [hc]
  | some c =>
    simp only [Option.map_some]
    exact findConn_setConn_same k _ _ (by rw [hc]; rfl)

theorem wOn_other (w : World α) (k b : Nat) (hne : k ≠ b) (l : Label α) :
    findConn b (wOn w k l).conns = findConn b w.conns := no_cross_session w k b hne l

theorem run_replicate_succ (c : Conn α) (l : Label α) (n : Nat) :
    run (step c l) (List.replicate n l) = run c (List.replicate (n + 1) l) := rfl

/-- a fan-out as seen by one session: one copy per occurrence in the target list -/
theorem fanout_conn (a : Nat) (octx : Option Nat) (p : α) (b : Nat) : ∀ (ts : List Nat) (w : World α),
    findConn b (wstep w (.fanout a octx ts p)).conns =
      (findConn b w.conns).map (fun c => run c (List.replicate (ts.count b) (fanCopy p))) := by
  intro ts
  induction ts with
  | nil => intro w; simp [wstep, run]
  | cons t rest ih =>
    intro w
    have hstep : wstep w (.fanout a octx (t :: rest) p) = wstep (wOn w t (fanCopy p)) (.fanout a octx rest p) := rfl
    rw [hstep, ih]
    by_cases htb : t = b
    · subst htb
      rw [wOn_same]
      have hc : (t :: rest).count t = rest.count t + 1 := by simp
      rw [hc]
      cases findConn t w.conns with
      | none => rfl
      | some c => simp only [Option.map_some]; rw [run_replicate_succ]
    · rw [wOn_other w t b htb]
      have hc : (t :: rest).count b = rest.count b := by
        rw [List.count_cons]; simp [htb]
      rw [hc]

theorem count_nodup_mem : ∀ (ts : List Nat) (b : Nat), ts.Nodup → b ∈ ts → ts.count b = 1 := by
  intro ts
  induction ts with
  | nil => intro b _ h; cases h
  | cons t rest ih =>
    intro b hnd hb
    rw [List.nodup_cons] at hnd
    rw [List.count_cons]
    rcases List.mem_cons.mp hb with rfl | hmem
    · have : rest.count b = 0 := List.count_eq_zero.mpr hnd.1
      simp [this]
    · have hne : t ≠ b := by intro h; subst h; exact hnd.1 hmem
      simp [hne, ih b hnd.2 hmem]

/-- **C10 (a fan-out copy is a detached write in each session).**  For every session `b` among the (distinct) targets of
a fan-out, the step is exactly ONE write of the notification on `b`'s own connection with **no** request context — the
routing section sees `ctx = none` whatever request of whatever session the issuing code was handling (`origin`, `octx`
do not occur on the right-hand side; `fanout_ignores_origin`). -/
theorem fanout_copy_is_detached_in_each_session (w : World α) (a : Nat) (octx : Option Nat) (ts : List Nat) (p : α)
    (b : Nat) (hb : b ∈ ts) (hnd : ts.Nodup) :
    findConn b (wstep w (.fanout a octx ts p)).conns =
      (findConn b w.conns).map (fun c => (writeR c (.notif p) none false).1) := by
  rw [fanout_conn]
  have : ts.count b = 1 := count_nodup_mem ts b hnd hb
  rw [this]
  rfl

theorem fanout_ignores_origin (w : World α) (a a' : Nat) (octx octx' : Option Nat) (ts : List Nat) (p : α) :
    wstep w (.fanout a octx ts p) = wstep w (.fanout a' octx' ts p) := rfl

/-- the copy relates to no request: not in SSE mode, not in JSON mode -/
theorem fanCopy_unrelated (c : Conn α) (p : α) : related c (.notif p) none = none := by
  simp [related]

/-- **C10 (where the copy goes).**  In any reachable state of the receiving session the copy is routed to a
`subscriptions/listen` stream or to the standalone stream (id 0) … -/
theorem fanCopy_routed_standalone_or_listen (cfg : Cfg) (ls : List (Label α)) (p : α) (s : Stream α)
    (hr : route (run (init cfg) ls) (.notif p) none = some s) : s.id = 0 ∨ listenOf (run (init cfg) ls) s.id :=
  route_related_none (inv10_run cfg ls) (fanCopy_unrelated _ p) hr

/-- … so that after it (and after anything else) the copy sits only on exchanges that serve the standalone stream or a
listen stream: never on the HTTP exchange of a request of the receiving session — whichever request ids are in flight
there, including the id of the request whose handler issued the fan-out in another session. -/
theorem fanCopy_never_on_request_exchange (cfg : Cfg) (ls ls' : List (Label α)) (p : α) (j : Nat) (e : Exch α)
    (he : (run (init cfg) (ls ++ fanCopy p :: ls')).exs[j]? = some e) (o : Out α) (ho : o ∈ e.all)
    (hit : (⟨.notif p, none⟩ : Item α) ∈ o.items) :
    e.stream = 0 ∨ ∃ calls, (run (init cfg) (ls ++ fanCopy p :: ls')).hist e.stream = some (calls, true) :=
  in_request_traffic_on_standalone cfg _ j e he o ho _ hit (by intro r q h; cases h) (Or.inr rfl)

/-! ### one session's history inside a world run -/

/-- the labels session `b` performs in a world run -/
def projW (b : Nat) : List (WLabel α) → List (Label α)
  | [] => []
  | .on a l :: t => if a = b then l :: projW b t else projW b t
  | .create _ _ :: t => projW b t
  | .fanout _ _ ts p :: t => List.replicate (ts.count b) (fanCopy p) ++ projW b t

theorem findConn_append_other (b k : Nat) (c : Conn α) (hne : k ≠ b) : ∀ (l : List (Nat × Conn α)),
    findConn b (l ++ [(k, c)]) = findConn b l := by
  intro l
  induction l with
  | nil => simp [findConn, hne]
  | cons x t ih => obtain ⟨k', c0⟩ := x; simp only [List.cons_append, findConn]; split <;> simp_all

theorem run_append (c : Conn α) (l₁ l₂ : List (Label α)) : run c (l₁ ++ l₂) = run (run c l₁) l₂ := by
  simp [run, List.foldl_append]

/-- **projection**: the connection of an existing session after any world run is the run of its own labels -/
theorem wrun_proj (b : Nat) : ∀ (ls : List (WLabel α)) (w : World α) (c : Conn α), findConn b w.conns = some c →
    findConn b (wrun w ls).conns = some (run c (projW b ls)) := by
  intro ls
  induction ls with
  | nil => intro w c hc; exact hc
  | cons l t ih =>
    intro w c hc
    have hw : wrun w (l :: t) = wrun (wstep w l) t := rfl
    rw [hw]
    cases l with
    | on a lab =>
      by_cases hab : a = b
      · subst hab
        have h1 : findConn a (wstep w (.on a lab)).conns = some (step c lab) := by
          show findConn a (wOn w a lab).conns = _
          rw [wOn_same, hc]; rfl
        rw [ih _ _ h1]
        simp [projW, run]
      · have h1 : findConn b (wstep w (.on a lab)).conns = some c := by
          rw [no_cross_session w a b hab lab]; exact hc
        rw [ih _ _ h1]
        simp [projW, hab]
    | create a cfg =>
      have h1 : findConn b (wstep w (.create a cfg)).conns = some c := by
        simp only [wstep]
        split
        · exact hc
        · rename_i hnone
          have hne : a ≠ b := by intro h; subst h; rw [hc] at hnone; cases hnone
          rw [findConn_append_other b a _ hne]; exact hc
      rw [ih _ _ h1]
      rfl
    | fanout a octx ts p =>
      have h1 : findConn b (wstep w (.fanout a octx ts p)).conns = some (run c (List.replicate (ts.count b) (fanCopy p))) := by
        rw [fanout_conn, hc]; rfl
      rw [ih _ _ h1]
      simp only [projW]
      rw [run_append]

/-- a fan-out copy is truthfully tagged as soon as its payload says "fan-out" — in every session, in every state, and
whoever issued it -/
theorem fanCopy_wellTagged (prov : α → Prov σ) (sn : σ) (c : Conn α) (p : α) (a : σ) (r x : Nat) (hc : Bool)
    (hp : prov p = .fanout a r x hc) : WellTagged prov sn c (fanCopy p) := by
  show TagNR prov sn c p none
  unfold TagNR
  rw [hp]

variable [DecidableEq α] [DecidableEq σ]

/-- **C10 bridging theorem, world level (the extended label set).**  Take any world run — steps of any sessions, connects,
fan-outs issued from inside handlers of any session with any request context.  For a session `b` that starts from
`init cfg`: its connection after the run is the run of its projected labels (fan-out copies = detached writes), and on the
observation trace of that history the typed C10 monitor raises no clause, provided the payload tags are truthful
(`WellTaggedRun` of the projection; for the fan-out copies this only asks that the payload is tagged `Prov.fanout`,
`fanCopy_wellTagged`). -/
theorem monitor_accepts_world_C10 (cfg : Cfg) (b : Nat) (sn : σ) (prov : α → Prov σ) (w : World α)
    (hc : findConn b w.conns = some (init cfg)) (ls : List (WLabel α))
    (hl : WellTaggedRun prov sn (init cfg : Conn α) (projW b ls)) :
    findConn b (wrun w ls).conns = some (run (init cfg) (projW b ls)) ∧
    (runV prov (Mon.init cfg.hasStore cfg.jsonResponse) (traceOf1 sn (init cfg) (projW b ls))).2.v10 = none :=
  ⟨wrun_proj b ls w _ hc, monitor_accepts_model_C10 cfg sn prov _ hl⟩

/-! ### witnesses: the schedule of seeded change C10-m10 -/

def cfgF : Cfg := { stateless := false, jsonResponse := false, hasStore := false, noSession := false }

/-- sessions 1 and 2, request id 7 in flight in BOTH; session 2 has its standalone stream attached; the handler of
request 7 of session 1 makes the server announce a resource change to the subscribed sessions 1 and 2 -/
def m10 : List (WLabel Nat) :=
  [ .create 1 cfgF, .create 2 cfgF,
    .on 2 (.get .none .v0618 none),          -- session 2, exchange 0: standalone GET
    .on 1 (.post [7] false .v0618 none),     -- session 1, exchange 0: request 7
    .on 2 (.post [7] false .v0618 none),     -- session 2, exchange 1: request 7 (the same JSON-RPC id)
    .fanout 1 (some 7) [1, 2] 900 ]

/-- in the model session 2's copy goes to its standalone exchange, nothing goes to the exchange of its request 7 … -/
example : ((findConn 2 (wrun ⟨[]⟩ m10).conns).map fun c => c.exs.map (·.out)) =
    some [[.comment, .message none ⟨.notif 900, none⟩], []] := by decide

/-- … and session 1 (no event store, standalone stream not connected) cannot take its copy: nothing on its request exchange either -/
example : ((findConn 1 (wrun ⟨[]⟩ m10).conns).map fun c => c.exs.map (·.out)) = some [[]] := by decide

example : projW 2 m10 = [.get .none .v0618 none, .post [7] false .v0618 none, fanCopy 900] := rfl

/-- the tags of `m10`: payload 900 is a fan-out copy issued under request 7 (POST exchange 0) of session 1 with the handler's context -/
def provM10 : Nat → Prov Nat
  | 900 => .fanout 1 7 0 true
  | _ => .other

/-- the monitor is silent on session 2's history (instance of `monitor_accepts_world_C10`; non-vacuity of its hypothesis) -/
example : (runV provM10 (Mon.init false false) (traceOf1 2 (init cfgF) (projW 2 m10))).2.v10 = none :=
  (monitor_accepts_world_C10 cfgF 2 2 provM10 (wrun ⟨[]⟩ [.create 1 cfgF, .create 2 cfgF]) rfl
    [.on 2 (.get .none .v0618 none), .on 1 (.post [7] false .v0618 none), .on 2 (.post [7] false .v0618 none), .fanout 1 (some 7) [1, 2] 900]
    ⟨trivial, trivial, fanCopy_wellTagged provM10 2 _ 900 1 7 0 true rfl, trivial⟩).2

/-- what an implementation that threads the issuing handler's context into the fan-out does in session 2 (seeded change
C10-m10): the write carries request id 7 of *session 1* and is routed by session 2's `requestStreams[7]` -/
def m10bad : List (Label Nat) :=
  [.get .none .v0618 none, .post [7] false .v0618 none, .write (.notif 900) (some 7) false]

/-- … it lands on the exchange of session 2's unrelated request 7, ahead of that request's response … -/
example : (run (init cfgF) m10bad).exs.map (·.out) = [[.comment], [.message none ⟨.notif 900, some 7⟩]] := by decide

/-- … which is not a run with truthful tags (the copy is not written with the background context) … -/
example : ¬ WellTagged provM10 (2 : Nat) (run (init cfgF : Conn Nat) (m10bad.take 2)) (.write (.notif 900) (some 7) false) := by
  intro h
  have h' : TagNR provM10 (2 : Nat) (run (init cfgF : Conn Nat) (m10bad.take 2)) 900 (some 7) := h
  unfold TagNR at h'
  simp [provM10] at h'

/-- … and the monitor flags exactly that observation -/
example : (runV provM10 (Mon.init false false) (traceOf1 2 (init cfgF) m10bad)).2.v10 =
    some (.route false .fanoutOtherSession) := by decide

/-- in the issuing session itself the same write (its own request 7, its own context) is accepted: "issued while handling
a request travel[s] on that request's stream" -/
example : (runV provM10 (Mon.init false false) (traceOf1 1 (init cfgF)
    [.post [7] false .v0618 none, .write (.notif 900) (some 7) false])).2.v10 = none := by decide

end Resume
