import McpModel.Resume.Monitor
/-!
# C10 — what a raised routing clause means

`routeCheck_sound`: each routing clause is raised only when the corresponding clause of the routing
specification fails on the monitor's own records — the tag's session is not the session of the exchange;
the message is neither on the POST exchange named by its tag nor on a stream whose recorded creator is that
POST (`own = .no`: the recorded creator is another POST, or there cannot be one: the standalone stream, an
unknown stream, or another POST exchange); a detached / server-initiated / JSON-mode message is on a request
stream that is not a listen stream; a fan-out copy (`Prov.fanout`) is on a request stream in a session other than the
issuing one, or on a request stream that is not the issuing request's own (or the caller did not pass its context).  `routeCheck_complete` is the converse: no clause ⇒ the specification holds
up to what the monitor has evidence for (`own ≠ .no`: confirmed, or no evidence about the stream's creator).
The records themselves (`posts`) only ever hold first evidence: `bindPost_first`.
-/
namespace Resume
namespace Mon
variable {σ π : Type} [DecidableEq σ] [DecidableEq π]

/-- the routing specification for one message, on the monitor's records -/
def RouteSpec (m : MonS σ π) (pv : Prov σ) (sess : σ) (stream k : Option Nat) : Prop :=
  match pv with
  | .resp id ps req post => id = req ∧ ps = sess ∧ own m sess stream k post ≠ .no
  | .initResp id =>
      ((idsOfEx m k).contains id || (idsOfEx m (creator m sess stream)).contains id || creatorUnknown m sess stream k) = true
  | .inReq ps _ post =>
      ps = sess ∧ (if m.jsonMode then standaloneOrListen m sess stream k = true else own m sess stream k post ≠ .no)
  | .detached ps => ps = sess ∧ standaloneOrListen m sess stream k = true
  | .server => standaloneOrListen m sess stream k = true
  | .fanout ps _ post hctx =>
      standaloneOrListen m sess stream k = true ∨ (ps = sess ∧ hctx = true ∧ own m sess stream k post ≠ .no)
  | .other => False

theorem routeCheck_complete (m : MonS σ π) (pv : Prov σ) (sess : σ) (stream k : Option Nat)
    (h : routeCheck m pv sess stream k = none) : RouteSpec m pv sess stream k := by
  unfold routeCheck at h
  unfold RouteSpec
  cases pv with
  | resp id ps req post =>
    simp only at h ⊢
    split at h
    · cases h
    · rename_i h1
      split at h
      · cases h
      · rename_i h2
        split at h
        · cases h
        · rename_i h3
          exact ⟨by simpa using h1, by simpa using h2, h3⟩
  | initResp id =>
    simp only at h ⊢
    split at h
    · assumption
    · cases h
  | inReq ps req post =>
    simp only at h ⊢
    split at h
    · cases h
    · rename_i h1
      refine ⟨by simpa using h1, ?_⟩
      split at h
      · rename_i hj
        rw [hj]; simp only [if_true]
        split at h
        · assumption
        · cases h
      · rename_i hj
        have : m.jsonMode = false := by simpa using hj
        rw [this]; simp only [Bool.false_eq_true, if_false]
        split at h
        · rename_i hno
          split at h
          · split at h <;> cases h
          · cases h
        · assumption
  | detached ps =>
    simp only at h ⊢
    split at h
    · cases h
    · rename_i h1
      split at h
      · rename_i h2; exact ⟨by simpa using h1, h2⟩
      · cases h
  | server =>
    simp only at h ⊢
    split at h
    · assumption
    · cases h
  | fanout ps req post hctx =>
    simp only at h ⊢
    split at h
    · left; assumption
    · split at h
      · cases h
      · rename_i h2
        split at h
        · rename_i h3
          simp only [Bool.and_eq_true, decide_eq_true_eq] at h3
          exact Or.inr ⟨by simpa using h2, h3.1, h3.2⟩
        · cases h
  | other => simp at h

/-- a raised routing clause refutes the routing specification -/
theorem routeCheck_sound (m : MonS σ π) (pv : Prov σ) (sess : σ) (stream k : Option Nat) (c : RouteClause)
    (h : routeCheck m pv sess stream k = some c) : ¬ RouteSpec m pv sess stream k := by
  intro hs
  unfold routeCheck at h
  unfold RouteSpec at hs
  cases pv with
  | resp id ps req post =>
    simp only at h hs
    obtain ⟨h1, h2, h3⟩ := hs
    simp [h1, h2, h3] at h
  | initResp id =>
    simp only at h hs
    rw [if_pos hs] at h; cases h
  | inReq ps req post =>
    simp only at h hs
    obtain ⟨h1, h2⟩ := hs
    cases hj : m.jsonMode with
    | true => rw [hj] at h2; simp only [if_true] at h2; simp [h1, hj, h2] at h
    | false => rw [hj] at h2; simp only [Bool.false_eq_true, if_false] at h2; simp [h1, hj, h2] at h
  | detached ps =>
    simp only at h hs
    simp [hs.1, hs.2] at h
  | server =>
    simp only at h hs
    simp [hs] at h
  | fanout ps req post hctx =>
    simp only at h hs
    rcases hs with hs | ⟨h1, h2, h3⟩
    · simp [hs] at h
    · subst h1; subst h2
      simp [h3] at h
  | other => exact hs

/-- `own = .no` spelled out: not the POST exchange itself, and the recorded creator is another POST — or there is
provably none: no stream known for a POST exchange, the standalone stream, or a POST exchange other than the
tag's (a POST exchange is the creator of its own stream) -/
theorem own_no (m : MonS σ π) (sess : σ) (stream k : Option Nat) (post : Nat) (h : own m sess stream k post = .no) :
    k ≠ some post ∧ ((∃ p, creator m sess stream = some p ∧ p ≠ post) ∨
      (creator m sess stream = none ∧ creatorUnknown m sess stream k = false)) := by
  unfold own at h
  split at h
  · cases h
  · rename_i hk
    refine ⟨hk, ?_⟩
    split at h
    · rename_i p hp
      split at h
      · cases h
      · rename_i hne; exact Or.inl ⟨p, hp, hne⟩
    · rename_i hp
      split at h
      · cases h
      · rename_i hu; exact Or.inr ⟨hp, by simpa using hu⟩

/-- the creator record only ever holds the *first* evidence: binding never overwrites -/
theorem bindPost_first (m : MonS σ π) (s : σ) (t k p : Nat) (h : m.posts s t = some p) : (m.bindPost s t k).posts s t = some p := by
  unfold MonS.bindPost
  rw [h]
  exact h

end Mon
end Resume
