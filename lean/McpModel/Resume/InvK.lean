import McpModel.Resume.Grow
/-!
E5 — exchanges that were answered with a bare status (202, 400, 409) never carry a stream: nothing is ever
written to them and no stream is ever attached to them (`InvK`, all label lists).
-/
namespace Resume
variable {α : Type}

/-- the exchange carries a body (`text/event-stream` or `application/json`) -/
def Exch.live (e : Exch α) : Prop := e.kind = .sse ∨ e.kind = .json

instance (e : Exch α) : Decidable e.live := by unfold Exch.live; exact inferInstance

/-- non-live exchanges are empty and unattached -/
def InvK (c : Conn α) : Prop :=
  ∀ (j : Nat) (e : Exch α), c.exs[j]? = some e → ¬ e.live → e.all = [] ∧ ∀ s ∈ c.streams, s.attached ≠ some j

theorem invK_init (cfg : Cfg) : InvK (init cfg : Conn α) := by
  intro j e he; simp [init] at he

theorem invK_live {c : Conn α} (h : InvK c) {s : Stream α} (hs : s ∈ c.streams) {ex : Nat} (hat : s.attached = some ex)
    {e : Exch α} (he : c.exs[ex]? = some e) : e.live := by
  by_cases hl : e.live
  · exact hl
  · exact absurd hat ((h ex e he hl).2 s hs)

/-- exchange tables of equal length whose non-live entries were not written to -/
def KRel (exs exs' : List (Exch α)) : Prop :=
  exs'.length = exs.length ∧
  ∀ (j : Nat) (e' : Exch α), exs'[j]? = some e' → ∃ e, exs[j]? = some e ∧ (e'.live ↔ e.live) ∧ (¬ e.live → e'.all = e.all)

theorem KRel.refl (exs : List (Exch α)) : KRel exs exs := ⟨rfl, fun _ e' h => ⟨e', h, Iff.rfl, fun _ => rfl⟩⟩

theorem KRel.trans {a b c : List (Exch α)} (h₁ : KRel a b) (h₂ : KRel b c) : KRel a c := by
  refine ⟨h₂.1.trans h₁.1, ?_⟩
  intro j e'' h
  obtain ⟨e', h', l2, a2⟩ := h₂.2 j e'' h
  obtain ⟨e, h0, l1, a1⟩ := h₁.2 j e' h'
  exact ⟨e, h0, l2.trans l1, fun hn => by rw [a2 (fun hl => hn (l1.mp hl)), a1 hn]⟩

theorem kRel_setEx (exs : List (Exch α)) (ex : Nat) (f : Exch α → Exch α)
    (hf : ∀ e, exs[ex]? = some e → ((f e).live ↔ e.live) ∧ (¬ e.live → (f e).all = e.all)) : KRel exs (setEx ex f exs) := by
  refine ⟨by simp, ?_⟩
  intro j e' h
  by_cases hj : j = ex
  · subst hj
    rw [getElem?_setEx_eq] at h
    cases hl : exs[j]? with
    | none => rw [hl] at h; cases h
    | some a => rw [hl] at h; simp at h; subst h; exact ⟨a, rfl, (hf a hl).1, (hf a hl).2⟩
  · rw [getElem?_setEx_ne _ _ _ _ hj] at h
    exact ⟨e', h, Iff.rfl, fun _ => rfl⟩

theorem push_live (e : Exch α) (o : Out α) : (e.push o).1.live ↔ e.live := by
  unfold Exch.live; rw [push_kind]

theorem kRel_emitX (exs : List (Exch α)) (ex : Nat) (o : Out α) (hlive : ∀ e, exs[ex]? = some e → e.live) :
    KRel exs (emitX exs ex o).1 := by
  unfold emitX
  split
  · exact KRel.refl _
  · exact kRel_setEx _ _ _ (fun e he => ⟨push_live e o, fun hn => absurd (hlive e he) hn⟩)

theorem kRel_finishX (exs : List (Exch α)) (ex : Nat) : KRel exs (finishX exs ex) := by
  unfold finishX
  exact kRel_setEx _ _ _ (fun e _ => ⟨Iff.rfl, fun _ => rfl⟩)

theorem kRel_wfail (exs : List (Exch α)) (ex : Nat) : KRel exs (setEx ex (fun e => { e with budget := some 0 }) exs) :=
  kRel_setEx _ _ _ (fun e _ => ⟨Iff.rfl, fun _ => rfl⟩)

/-- frame: exchanges updated in place (`KRel`), no new attachment -/
theorem invK_frame {c c' : Conn α} (h : InvK c) (he : KRel c.exs c'.exs)
    (hs : ∀ s' ∈ c'.streams, ∀ ex, s'.attached = some ex → ∃ s ∈ c.streams, s.attached = some ex) : InvK c' := by
  intro j e' hj hn
  obtain ⟨e, h0, hl, ha⟩ := he.2 j e' hj
  have hne : ¬ e.live := fun x => hn (hl.mpr x)
  obtain ⟨h1, h2⟩ := h j e h0 hne
  refine ⟨by rw [ha hne]; exact h1, ?_⟩
  intro s' hs' hat
  obtain ⟨s, hsl, hat0⟩ := hs s' hs' j hat
  exact h2 s hsl hat0

theorem streamsRel_att {l l' : List (Stream α)} (h : StreamsRel l l') :
    ∀ s' ∈ l', ∀ ex, s'.attached = some ex → ∃ s ∈ l, s.attached = some ex := by
  intro s' hs' ex hat
  obtain ⟨s, hsl, _, hatt, _⟩ := h.2 s' hs'
  rcases hatt with h1 | h1
  · exact ⟨s, hsl, by rw [← h1]; exact hat⟩
  · rw [h1] at hat; cases hat

/-- a new, unattached exchange is added at the end of the table: live, or empty -/
theorem invK_append {c : Conn α} (hw : Inv c) (h : InvK c) (e : Exch α) (he : ¬ e.live → e.all = []) :
    InvK { c with exs := c.exs ++ [e] } := by
  intro j e' hj hn
  by_cases hlt : j < c.exs.length
  · rw [show ({ c with exs := c.exs ++ [e] } : Conn α).exs = c.exs ++ [e] from rfl, List.getElem?_append_left hlt] at hj
    exact h j e' hj hn
  · have hj' : j = c.exs.length := by
      by_cases hh : j = c.exs.length
      · exact hh
      · rw [show ({ c with exs := c.exs ++ [e] } : Conn α).exs = c.exs ++ [e] from rfl,
          List.getElem?_eq_none (by simp; omega)] at hj; cases hj
    subst hj'
    rw [show ({ c with exs := c.exs ++ [e] } : Conn α).exs = c.exs ++ [e] from rfl, List.getElem?_concat_length] at hj
    cases hj
    refine ⟨he hn, ?_⟩
    intro s hs hat
    have := att_lt hw hs hat
    omega

theorem invK_emit {c : Conn α} (h : InvK c) (ex : Nat) (o : Out α) (hlive : ∀ e, c.exs[ex]? = some e → e.live) :
    InvK (emit c ex o).1 :=
  invK_frame (c' := (emit c ex o).1) h (kRel_emitX _ _ _ hlive) (fun s hs ex hat => ⟨s, hs, hat⟩)

theorem invK_finish {c : Conn α} (h : InvK c) (ex : Nat) : InvK (finish c ex) :=
  invK_frame (c' := finish c ex) h (kRel_finishX _ _) (fun s hs ex hat => ⟨s, hs, hat⟩)

theorem invK_cut {c : Conn α} (h : InvK c) (ex : Nat) : InvK (cut c ex) :=
  invK_frame (c' := cut c ex) h (kRel_finishX _ _) (streamsRel_att (streamsRel_release _ _))

theorem invK_wfail {c : Conn α} (h : InvK c) (ex : Nat) : InvK (wfail c ex) :=
  invK_frame (c' := wfail c ex) h (kRel_wfail _ _) (fun s hs ex hat => ⟨s, hs, hat⟩)

theorem invK_statusEx {c : Conn α} (hw : Inv c) (h : InvK c) (code sid : Nat) : InvK (statusEx c code sid) :=
  invK_append hw h _ (fun _ => rfl)

theorem invK_sclose {c : Conn α} (h : InvK c) (req : Nat) (retry : Bool) : InvK (sclose c req retry) := by
  unfold sclose
  split
  · exact h
  · split
    · exact h
    · rename_i s hs
      have hmem := (findStream_some hs).1
      split
      · rename_i ex hat hop
        have hsr : StreamsRel c.streams (setStream { s with opn := false } c.streams) :=
          streamsRel_set (s := s) hmem rfl (Or.inl rfl) (fun ho => by cases ho)
        split
        · exact invK_frame (c' := { (emit c ex .close).1 with streams := setStream { s with opn := false } (emit c ex .close).1.streams })
            h (kRel_emitX _ _ _ (fun e he => invK_live h hmem hat he)) (streamsRel_att hsr)
        · exact invK_frame (c' := { c with streams := setStream { s with opn := false } c.streams }) h (KRel.refl _) (streamsRel_att hsr)
      · exact h

/-! ### POST -/

theorem invK_register {c : Conn α} (hw : Inv c) (h : InvK c) (calls : List Nat) (listen : Bool) (ver : Ver) (budget : Option Nat) :
    InvK (register c calls listen ver budget) := by
  intro j e' hj hn
  simp only [register] at hj
  by_cases hlt : j < c.exs.length
  · rw [List.getElem?_append_left hlt] at hj
    obtain ⟨h1, h2⟩ := h j e' hj hn
    refine ⟨h1, ?_⟩
    intro s hs hat
    simp only [register, List.mem_append, List.mem_singleton] at hs
    rcases hs with hs | rfl
    · exact h2 s hs hat
    · simp [newStream] at hat; omega
  · have hj' : j = c.exs.length := by
      by_cases hh : j = c.exs.length
      · exact hh
      · rw [List.getElem?_eq_none (by simp; omega)] at hj; cases hj
    subst hj'
    rw [List.getElem?_concat_length] at hj
    cases hj
    exfalso; apply hn
    unfold Exch.live
    simp only
    split
    · exact Or.inl rfl
    · exact Or.inr rfl

theorem register_new_live (c : Conn α) (calls : List Nat) (listen : Bool) (ver : Ver) (budget : Option Nat) :
    ∀ e, (register c calls listen ver budget).exs[c.exs.length]? = some e → e.live := by
  intro e he
  simp only [register, List.getElem?_concat_length] at he
  cases he
  unfold Exch.live
  simp only
  split
  · exact Or.inl rfl
  · exact Or.inr rfl

theorem invK_postPrimed {c : Conn α} (hw : Inv c) (h : InvK c) (calls : List Nat) (listen : Bool) (ver : Ver) (budget : Option Nat) :
    InvK (postPrimed c calls listen ver budget) := by
  unfold postPrimed
  split
  · exact invK_emit (invK_register hw h _ _ _ _) _ _ (register_new_live c calls listen ver budget)
  · exact invK_register hw h _ _ _ _

theorem invK_post {c : Conn α} (hw : Inv c) (h : InvK c) (calls : List Nat) (listen : Bool) (ver : Ver) (budget : Option Nat) :
    InvK (post c calls listen ver budget) := by
  unfold post
  split
  · exact invK_statusEx hw h _ _
  · split
    · unfold postDup
      have hw' : Inv ({ c with store := if opens c ver then openLog c.nextSid c.store else c.store, nextSid := c.nextSid + 1 } : Conn α) := by
        have := inv_postDup hw ver
        unfold postDup statusEx at this
        refine ⟨hw.nodup, fun s hs => Nat.lt_succ_of_lt (hw.sid_lt s hs), this.store_lt, hw.att, hw.att_inj, hw.opn_att, hw.ex_ok, fun pw hp => Nat.lt_succ_of_lt (hw.pend_lt pw hp)⟩
      exact invK_statusEx (c := { c with store := if opens c ver then openLog c.nextSid c.store else c.store, nextSid := c.nextSid + 1 })
        hw' h _ _
    · rw [postNew_eq]
      split
      · exact invK_cut (invK_postPrimed hw h _ _ _ _) _
      · exact invK_postPrimed hw h _ _ _ _

/-! ### WRITE -/

theorem kRel_deliver (exs : List (Exch α)) (s : Stream α) (it : Item α) (evid : Option (Nat × Nat))
    (reqs : List Nat) (done : Bool) (hlive : ∀ ex e, s.attached = some ex → exs[ex]? = some e → e.live) :
    KRel exs (deliver exs s it evid reqs done).1 := by
  unfold deliver
  split
  · rename_i ex hat hop
    split
    · split
      · exact (kRel_emitX _ _ _ (fun e he => hlive ex e hat he)).trans (kRel_finishX _ _)
      · exact KRel.refl _
    · split
      · exact (kRel_emitX _ _ _ (fun e he => hlive ex e hat he)).trans (kRel_finishX _ _)
      · exact kRel_emitX _ _ _ (fun e he => hlive ex e hat he)
  · exact KRel.refl _

theorem invK_writeTo {c : Conn α} (h : InvK c) {s : Stream α} (hmem : s ∈ c.streams) (msg : Msg α) (ctx : Option Nat)
    (ctxNew : Bool) : InvK (writeTo c s msg ctx ctxNew).1 := by
  have hd := deliver_stream c.exs s ⟨msg, ctx⟩ (if wUse c ctxNew then some (s.id, s.next) else none) (wReqs s msg) (wDone s msg)
  refine invK_frame (c' := (writeTo c s msg ctx ctxNew).1) h ?_ ?_
  · simp only [writeTo, wDeliver]
    exact kRel_deliver _ _ _ _ _ _ (fun ex e hat he => invK_live h hmem hat he)
  · simp only [writeTo]
    split
    · exact streamsRel_att (streamsRel_del _ _)
    · exact streamsRel_att (streamsRel_set hmem hd.1 (Or.inl hd.2.1) (fun ho => ⟨hd.2.2.1 ho, hd.2.1⟩))

theorem invK_eraseResp {c : Conn α} (h : InvK c) (msg : Msg α) : InvK (eraseResp c msg) :=
  invK_frame (c' := eraseResp c msg) h (by simp; exact KRel.refl _) (by simp; exact fun s hs ex hat => ⟨s, hs, hat⟩)

theorem invK_write {c : Conn α} (h : InvK c) (msg : Msg α) (ctx : Option Nat) (ctxNew : Bool) :
    InvK (writeR c msg ctx ctxNew).1 := by
  unfold writeR
  split
  · exact h
  · split
    · exact invK_eraseResp h msg
    · rename_i s hs
      split
      · exact invK_eraseResp h msg
      · exact invK_writeTo (invK_eraseResp h msg) (by simp; exact route_mem hs) _ _ _

/-! ### GET -/

theorem getOpen_new_live (c : Conn α) (sid frm : Nat) (budget : Option Nat) :
    ∀ e, (getOpen c sid frm budget).exs[c.exs.length]? = some e → e.live := by
  intro e he
  unfold getOpen at he
  split at he
  · simp only [emit] at he
    rw [(emitX_eq _ _ _ _ List.getElem?_concat_length).1] at he
    cases he
    exact (push_live _ _).mpr (Or.inl rfl)
  · rw [List.getElem?_concat_length] at he; cases he; exact Or.inl rfl

theorem invK_getOpen {c : Conn α} (hw : Inv c) (h : InvK c) (sid frm : Nat) (budget : Option Nat) :
    InvK (getOpen c sid frm budget) := by
  have happ : InvK ({ c with exs := c.exs ++ [{ kind := .sse, budget := budget, stream := sid, «from» := frm }] } : Conn α) :=
    invK_append hw h _ (fun hn => absurd (Or.inl rfl) hn)
  unfold getOpen
  split
  · refine invK_emit happ _ _ ?_
    intro e he
    rw [show ({ c with exs := c.exs ++ [({ kind := .sse, budget := budget, stream := sid, «from» := frm } : Exch α)] } : Conn α).exs
      = c.exs ++ [{ kind := .sse, budget := budget, stream := sid, «from» := frm }] from rfl, List.getElem?_concat_length] at he
    cases he; exact Or.inl rfl
  · exact happ

theorem replayLoop_live (c : Conn α) (ex sid k : Nat) (items : List (Item α)) (e : Exch α) (he : c.exs[ex]? = some e) (hl : e.live) :
    ∃ e', (replayLoop c ex sid k items).1.exs[ex]? = some e' ∧ e'.live := by
  induction items generalizing c k e with
  | nil => exact ⟨e, he, hl⟩
  | cons it rest ih =>
    have he1 : (emit c ex (.message (some (sid, k)) it)).1.exs[ex]? = some (e.push (.message (some (sid, k)) it)).1 := by
      simp only [emit]; exact (emitX_eq _ _ _ _ he).1
    unfold replayLoop
    split
    · exact ih _ _ _ he1 ((push_live _ _).mpr hl)
    · exact ⟨_, he1, (push_live _ _).mpr hl⟩

theorem invK_replayLoop {c : Conn α} (h : InvK c) (ex sid k : Nat) (items : List (Item α))
    (hlive : ∀ e, c.exs[ex]? = some e → e.live) : InvK (replayLoop c ex sid k items).1 := by
  induction items generalizing c k with
  | nil => exact h
  | cons it rest ih =>
    unfold replayLoop
    split
    · refine ih (invK_emit h _ _ hlive) _ ?_
      intro e he
      simp only [emit] at he
      cases hl : c.exs[ex]? with
      | none => rw [emitX_none _ _ _ hl, hl] at he; cases he
      | some e0 =>
        rw [(emitX_eq _ _ _ _ hl).1] at he; cases he
        exact (push_live _ _).mpr (hlive e0 hl)
    · exact invK_emit h _ _ hlive

theorem invK_attach {c : Conn α} (hw : Inv c) (h : InvK c) (s : Stream α) (ex next : Nat) (ver : Ver) (closed : Bool)
    (hlive : ∀ e, c.exs[ex]? = some e → e.live) : InvK (attach c s ex next ver closed) := by
  have hatt : InvK ({ c with streams := setStream { s with attached := some ex, opn := true, next := next, v1125 := ver.ge1125 } c.streams } : Conn α) := by
    intro j e hj hn
    obtain ⟨h1, h2⟩ := h j e hj hn
    refine ⟨h1, ?_⟩
    intro x hx hat
    simp only at hx
    rcases mem_setStream hx with rfl | ⟨hxl, _⟩
    · simp only at hat; cases hat
      exact hn (hlive e hj)
    · exact h2 x hxl hat
  unfold attach
  split
  · exact invK_cut hatt _
  · exact hatt

theorem invK_getGo {c : Conn α} (hw : Inv c) (h : InvK c) (sid frm : Nat) (ver : Ver) (budget : Option Nat) (items : List (Item α)) :
    InvK (getGo c sid frm ver budget items) := by
  have h2 := invK_getOpen hw h sid frm budget
  have hl2 := getOpen_new_live c sid frm budget
  have h3 := invK_replayLoop h2 c.exs.length sid frm items hl2
  have hw3 := replayLoop_inv (getOpen_inv hw sid frm budget) c.exs.length sid frm items
  have hl3 : ∀ e, (replayLoop (getOpen c sid frm budget) c.exs.length sid frm items).1.exs[c.exs.length]? = some e → e.live := by
    intro e he
    obtain ⟨e0, he0, _⟩ := (getOpen_frame c sid frm budget).2.2.2.2.2.2.2.2.2
    obtain ⟨e', he', hl'⟩ := replayLoop_live (getOpen c sid frm budget) c.exs.length sid frm items e0 he0 (hl2 e0 he0)
    rw [he'] at he; cases he; exact hl'
  unfold getGo
  split
  · split
    · exact invK_finish h3 _
    · split
      · exact invK_finish h3 _
      · exact invK_attach hw3 h3 _ _ _ _ _ hl3
  · exact invK_finish h3 _

theorem invK_get {c : Conn α} (hw : Inv c) (h : InvK c) (hdr : Hdr) (ver : Ver) (budget : Option Nat) : InvK (get c hdr ver budget) := by
  unfold get
  split
  · exact invK_statusEx hw h _ _
  · split
    · exact invK_statusEx hw h _ _
    · split
      · exact invK_statusEx hw h _ _
      · split
        · exact invK_statusEx hw h _ _
        · exact invK_getGo hw h _ _ _ _ _

theorem invK_step {c : Conn α} (hw : Inv c) (h : InvK c) (l : Label α) : InvK (step c l) := by
  cases l with
  | post calls listen ver budget => exact invK_post hw h _ _ _ _
  | write msg ctx ctxNew => exact invK_write h _ _ _
  | cut ex => exact invK_cut h ex
  | wfail ex => exact invK_wfail h ex
  | get hdr ver budget => exact invK_get hw h _ _ _
  | sclose req retry => exact invK_sclose h _ _
  | «end» => exact h
  | evict _ _ => exact h
  | wroute msg ctx ctxNew =>
    show InvK (wrouteR c msg ctx ctxNew).1
    unfold wrouteR
    split
    · exact h
    · split
      · exact invK_eraseResp h msg
      · split
        · exact invK_eraseResp h msg
        · exact invK_eraseResp h msg
  | wdeliver i =>
    show InvK (wdeliverR c i).1
    unfold wdeliverR
    split
    · exact h
    · rename_i pw hpw
      split
      · rename_i s hs
        exact invK_writeTo (c := { c with pendW := c.pendW.eraseIdx i }) h (findStream_some hs).1 _ _ _
      · exact h

theorem invK_runFrom {c : Conn α} (hw : Inv c) (h : InvK c) (ls : List (Label α)) : InvK (run c ls) := by
  induction ls generalizing c with
  | nil => exact h
  | cons l t ih => simp only [run, List.foldl_cons]; exact ih (inv_step hw l) (invK_step hw h l)

theorem invK_run (cfg : Cfg) (ls : List (Label α)) : InvK (run (init cfg) ls) :=
  invK_runFrom (inv_init cfg) (invK_init cfg) ls

end Resume
