import McpModel.Resume.Batch
import McpModel.Resume.Witness
/-!
# A WRITE whose `EventStore.Append` fails (APPENDFAIL)

An `EventStore` is an I/O boundary (`MemoryEventStore.Append` never fails; a database / disk / quota backed one does).
`streamableServerConn.Write` only *remembers* the error: nothing is appended, the event id is still `lastIdx + 1`,
`deliverLocked` runs as for every write — a response is taken out of `requests`, the stream completes with its last
response — and the write is `rejected` only if the message could not be delivered either (`Model.writeFR`).

* `writeFR_eq_rollback` — the state after such a write is the state after the ordinary write with the store rolled back;
  routing, registration, delivery, completion are those of the ordinary write.
* C02: the invariants the C02 theorems rest on (`Inv`, `InvReg`, `InvLive`) hold on every run of the extended step
  relation (`xinv_run`: any interleaving of labels and failing-append writes); `response_unregisters_append_fails`;
  `batch_post_all_answered_with_failing_appends`: whichever of the responses of a batch POST the store fails to record,
  in whatever completion order, every call is answered exactly once on the exchange (same events, same ids as without
  the failures), the exchange completes with the last response and every id is free again.
  (Seeded change C02-m12 — "don't deliver what could not be stored" — is the negation of `writeFR`'s delivery.)
* C08: `unstored_message_is_delivered_live_only` — what is promised about a message whose `Append` failed: it is
  delivered live if an open exchange is attached (and otherwise it is nowhere and the write reports `rejected`), and it
  can never be replayed: every log, hence every `After`, is what it was.  What is *not* promised:
  `append_failure_breaks_alignment` — the failed append consumed an event id, so the ids of everything written to the
  stream afterwards are one ahead of the store; C08 (`exchange_output_is_log_segment`, `ids_stable`) presupposes that
  `Append` succeeds (the store meets its contract: `InScope` knows no failing append).
-/
namespace Resume
variable {α : Type}

/-- the connection with another store content -/
def withStore (c : Conn α) (st : Store α) : Conn α := { c with store := st }

/-! ### a failing append = the ordinary write, store rolled back -/

theorem writeR_store_unused (c : Conn α) (msg : Msg α) (ctx : Option Nat) (ctxNew : Bool) (h : wUse c ctxNew = false) :
    (writeR c msg ctx ctxNew).1.store = c.store := by
  unfold writeR
  split
  · rfl
  · split
    · cases msg <;> rfl
    · split
      · cases msg <;> rfl
      · have hu : wUse (eraseResp c msg) ctxNew = false := by cases msg <;> exact h
        simp only [writeTo, hu]
        cases msg <;> rfl

theorem writeFR_eq_rollback (c : Conn α) (msg : Msg α) (ctx : Option Nat) (ctxNew : Bool) :
    (writeFR c msg ctx ctxNew).1 = withStore (writeR c msg ctx ctxNew).1 c.store := by
  unfold writeFR
  by_cases hu : wUse c ctxNew = true
  · rw [if_neg (by simp [hu])]
    unfold writeR
    split
    · rfl
    · split
      · cases msg <;> rfl
      · split
        · cases msg <;> rfl
        · cases msg <;> rfl
  · have hu' : wUse c ctxNew = false := by simpa using hu
    rw [if_pos (by simp [hu'])]
    have := writeR_store_unused c msg ctx ctxNew hu'
    show (writeR c msg ctx ctxNew).1 = { (writeR c msg ctx ctxNew).1 with store := c.store }
    rw [← this]

/-- a response whose `Append` failed frees its id like any other -/
theorem response_unregisters_append_fails (c : Conn α) (r : Nat) (p : α) (ctx : Option Nat) (ctxNew : Bool) :
    (writeFR c (.resp r p) ctx ctxNew).1.reqStreams r = none := by
  rw [writeFR_eq_rollback]
  exact response_unregisters c r p ctx ctxNew

/-! ### the store is not read by a write (only written) -/

theorem writeR_withStore (c : Conn α) (st : Store α) (msg : Msg α) (ctx : Option Nat) (ctxNew : Bool) :
    ∃ st', (writeR (withStore c st) msg ctx ctxNew).1 = withStore (writeR c msg ctx ctxNew).1 st' ∧
      (writeR (withStore c st) msg ctx ctxNew).2 = (writeR c msg ctx ctxNew).2 := by
  unfold writeR
  have hcfg : (withStore c st).cfg = c.cfg := rfl
  have hroute : route (withStore c st) msg ctx = route c msg ctx := rfl
  have hdone : (withStore c st).isDone = c.isDone := rfl
  rw [hcfg, hroute, hdone]
  split
  · exact ⟨st, rfl, rfl⟩
  · split
    · exact ⟨st, by cases msg <;> rfl, rfl⟩
    · split
      · exact ⟨st, by cases msg <;> rfl, rfl⟩
      · rename_i s _ _
        refine ⟨if wUse c ctxNew then appendLog s.id (some ⟨msg, ctx⟩) st else st, ?_, ?_⟩
        · cases msg <;> rfl
        · cases msg <;> rfl

theorem writeFR_withStore (c : Conn α) (st : Store α) (msg : Msg α) (ctx : Option Nat) (ctxNew : Bool) :
    ∃ st', (writeFR (withStore c st) msg ctx ctxNew).1 = withStore (writeR c msg ctx ctxNew).1 st' := by
  rw [writeFR_eq_rollback]
  obtain ⟨st', h, _⟩ := writeR_withStore c st msg ctx ctxNew
  exact ⟨st, by rw [h]; rfl⟩

/-! ### the extended step relation -/

/-- a label, or a WRITE whose `EventStore.Append` fails -/
inductive XLabel (α : Type) where
  | base (l : Label α)
  | writeF (msg : Msg α) (ctx : Option Nat) (ctxNew : Bool)

def xstep (c : Conn α) : XLabel α → Conn α
  | .base l => step c l
  | .writeF msg ctx ctxNew => (writeFR c msg ctx ctxNew).1

def xrun (c : Conn α) (ls : List (XLabel α)) : Conn α := ls.foldl xstep c

theorem inv_withStore {c : Conn α} (h : Inv c) (st : Store α) (hst : ∀ sid, (st sid).isSome → sid < c.nextSid) :
    Inv (withStore c st) :=
  ⟨h.nodup, h.sid_lt, hst, h.att, h.att_inj, h.opn_att, h.ex_ok, h.pend_lt⟩

theorem invReg_withStore {c : Conn α} (h : InvReg c) (st : Store α) : InvReg (withStore c st) := ⟨h.live, h.reg, h.pend⟩

theorem invLive_withStore {c : Conn α} (h : InvLive c) (st : Store α) : InvLive (withStore c st) := h

theorem writeR_nextSid (c : Conn α) (msg : Msg α) (ctx : Option Nat) (ctxNew : Bool) :
    (writeR c msg ctx ctxNew).1.nextSid = c.nextSid := by
  unfold writeR
  split
  · rfl
  · split
    · cases msg <;> rfl
    · split
      · cases msg <;> rfl
      · cases msg <;> rfl

/-- the invariants of the C02 theorems survive a failing append -/
theorem xinv_step {c : Conn α} (hw : Inv c) (hr : InvReg c) (hl : InvLive c) (l : XLabel α) :
    Inv (xstep c l) ∧ InvReg (xstep c l) ∧ InvLive (xstep c l) := by
  cases l with
  | base l => exact ⟨inv_step hw l, invReg_step hw hr l, live_step hw hl l⟩
  | writeF msg ctx ctxNew =>
    show Inv (writeFR c msg ctx ctxNew).1 ∧ InvReg (writeFR c msg ctx ctxNew).1 ∧ InvLive (writeFR c msg ctx ctxNew).1
    rw [writeFR_eq_rollback]
    have h1 : Inv (step c (.write msg ctx ctxNew)) := inv_step hw _
    have h2 : InvReg (step c (.write msg ctx ctxNew)) := invReg_step hw hr _
    have h3 : InvLive (step c (.write msg ctx ctxNew)) := live_step hw hl _
    refine ⟨inv_withStore h1 c.store ?_, invReg_withStore h2 _, invLive_withStore h3 _⟩
    intro sid hs
    show sid < (writeR c msg ctx ctxNew).1.nextSid
    rw [writeR_nextSid]
    exact hw.store_lt sid hs

theorem xinv_run (cfg : Cfg) (ls : List (XLabel α)) :
    Inv (xrun (init cfg : Conn α) ls) ∧ InvReg (xrun (init cfg : Conn α) ls) ∧ InvLive (xrun (init cfg : Conn α) ls) := by
  have : ∀ (ls : List (XLabel α)) (c : Conn α), Inv c → InvReg c → InvLive c →
      Inv (xrun c ls) ∧ InvReg (xrun c ls) ∧ InvLive (xrun c ls) := by
    intro ls
    induction ls with
    | nil => intro c a b d; exact ⟨a, b, d⟩
    | cons l t ih =>
      intro c a b d
      obtain ⟨a', b', d'⟩ := xinv_step a b d l
      exact ih _ a' b' d'
  exact this ls _ (inv_init cfg) (invReg_init cfg) (by intro s hs ex h; simp [init] at hs; subst hs; cases h)

/-! ### C02: a batch POST some of whose responses the store fails to record -/

/-- the responses to `rs`, written back to back in that order; the `Append` of those with `fails r` fails -/
def answerAllF (ps : Nat → α) (fails : Nat → Bool) : Conn α → List Nat → Conn α
  | c, [] => c
  | c, r :: t =>
    answerAllF ps fails (if fails r then (writeFR c (.resp r (ps r)) (some r) false).1
                         else (writeR c (.resp r (ps r)) (some r) false).1) t

theorem answerAll_withStore (ps : Nat → α) : ∀ (rs : List Nat) (c : Conn α) (st : Store α),
    ∃ st', answerAll ps false (withStore c st) rs = withStore (answerAll ps false c rs) st' := by
  intro rs
  induction rs with
  | nil => intro c st; exact ⟨st, rfl⟩
  | cons r t ih =>
    intro c st
    simp only [answerAll]
    obtain ⟨st1, h1, _⟩ := writeR_withStore c st (.resp r (ps r)) (some r) false
    rw [h1]
    exact ih _ st1

/-- the failing appends change nothing but the store -/
theorem answerAllF_eq (ps : Nat → α) (fails : Nat → Bool) : ∀ (rs : List Nat) (c : Conn α),
    ∃ st, answerAllF ps fails c rs = withStore (answerAll ps false c rs) st := by
  intro rs
  induction rs with
  | nil => intro c; exact ⟨c.store, rfl⟩
  | cons r t ih =>
    intro c
    simp only [answerAllF, answerAll]
    have hc1 : ∃ st1, (if fails r then (writeFR c (.resp r (ps r)) (some r) false).1
        else (writeR c (.resp r (ps r)) (some r) false).1) = withStore (writeR c (.resp r (ps r)) (some r) false).1 st1 := by
      split
      · exact ⟨c.store, writeFR_eq_rollback c _ _ _⟩
      · exact ⟨(writeR c (.resp r (ps r)) (some r) false).1.store, rfl⟩
    obtain ⟨st1, h1⟩ := hc1
    rw [h1]
    obtain ⟨st2, h2⟩ := ih (withStore (writeR c (.resp r (ps r)) (some r) false).1 st1)
    obtain ⟨st3, h3⟩ := answerAll_withStore ps t (writeR c (.resp r (ps r)) (some r) false).1 st1
    rw [h2, h3]
    exact ⟨st2, rfl⟩

/-- **C02 (a batch of calls on one POST, with an event store that fails).**  In any state reachable by labels *and*
failing-append writes, with no write between its two sections, take a registered request stream `s` whose exchange `x` is
attached, open and healthy on an open session.  For ANY completion order `rs` of its outstanding calls and ANY subset
`fails` of the responses whose `EventStore.Append` fails: every response is delivered exactly once on `x` — the same
events with the same ids as without the failures —, the exchange completes with the last response, the stream leaves
`streams` and every id leaves `requestStreams`.  No call is left unanswered because its response could not be stored. -/
theorem batch_post_all_answered_with_failing_appends (cfg : Cfg) (ls : List (XLabel α))
    (hnp : (xrun (init cfg) ls).pendW = []) (hopen : (xrun (init cfg) ls).isDone = false)
    (s : Stream α) (hs : s ∈ (xrun (init cfg) ls).streams) (hid : s.id ≠ 0)
    (x : Nat) (e : Exch α) (hat : s.attached = some x) (hop : s.opn = true) (hex : (xrun (init cfg) ls).exs[x]? = some e)
    (hb : e.budget = none) (hl : e.lost = [])
    (rs : List Nat) (hnd : rs.Nodup) (hne : rs ≠ []) (hmem : ∀ r, r ∈ rs ↔ r ∈ s.requests) (ps : Nat → α) (fails : Nat → Bool) :
    (∀ s' ∈ (answerAllF ps fails (xrun (init cfg) ls) rs).streams, s'.id ≠ s.id) ∧
    (∀ r ∈ rs, (answerAllF ps fails (xrun (init cfg) ls) rs).reqStreams r = none) ∧
    ∃ e', (answerAllF ps fails (xrun (init cfg) ls) rs).exs[x]? = some e' ∧ e'.ended = true ∧ e'.lost = [] ∧
      e'.out = e.out ++ batchOut (wUse (xrun (init cfg) ls) false) s.id s.next ps s.json rs := by
  obtain ⟨hw, hreg, hlive⟩ := xinv_run cfg ls
  obtain ⟨e0, he0, hend0⟩ := hlive s hs x hat
  rw [hex] at he0; cases he0
  obtain ⟨st, heq⟩ := answerAllF_eq ps fails rs (xrun (init cfg) ls)
  rw [heq]
  exact answerAll_spec ps false rs _ s x e hnd hne hmem (findStream_of_mem hw.nodup hs)
    (by
      intro r hr
      rcases hreg.live hopen s hs r ((hmem r).mp hr) with h | ⟨pw, hp, _⟩
      · exact h
      · rw [hnp] at hp; cases hp)
    hopen hid hat hop hex hb hl hend0

/-! ### C08: what is promised about a message the store failed to record -/

theorem writeFR_store (c : Conn α) (msg : Msg α) (ctx : Option Nat) (ctxNew : Bool) :
    (writeFR c msg ctx ctxNew).1.store = c.store := by
  rw [writeFR_eq_rollback]; rfl

/-- **C08 (an unstored message is delivered live only).**  Let the `Append` of a write fail (a store is configured, the
context is older than 2026-07-28, the session is open, the routing section picked stream `s`).  Then
* no log changes, so nothing a later resume replays changes: `After` (= `replayItems`) returns for every stream and every
  position exactly what it returned before — the message can **never be replayed**;
* if an open SSE exchange `x` with a healthy writer is attached, the message **is delivered live** on it, as one
  `message` event with the id `(s, lastIdx + 1)`, and the write succeeds;
* if no open exchange is attached, the message is **nowhere** — no exchange is written to — and the write reports
  `rejected` to its caller (the handler / the jsonrpc2 layer learns that the message is lost). -/
theorem unstored_message_is_delivered_live_only (c : Conn α) (hst : c.cfg.hasStore = true) (msg : Msg α) (ctx : Option Nat)
    (hcall : (msg.isCall && (c.cfg.stateless || c.cfg.noSession)) = false) (hopen : c.isDone = false)
    (s : Stream α) (hr : route c msg ctx = some s) :
    (∀ sid frm, replayItems (writeFR c msg ctx false).1 sid frm = replayItems c sid frm) ∧
    (∀ x e, s.attached = some x → s.opn = true → s.json = none → c.exs[x]? = some e → e.budget = none →
      (writeFR c msg ctx false).2 = .ok ∧
      ∃ e', (writeFR c msg ctx false).1.exs[x]? = some e' ∧ e'.out = e.out ++ [.message (some (s.id, s.next)) ⟨msg, ctx⟩]) ∧
    ((s.attached = none ∨ s.opn = false) →
      (writeFR c msg ctx false).2 = .rejected ∧ (writeFR c msg ctx false).1.exs = c.exs) := by
  have hu : wUse c false = true := by simp [wUse, hst]
  have hw : writeFR c msg ctx false = writeToF (eraseResp c msg) s msg ctx false := by
    unfold writeFR
    rw [if_neg (by simp [hu]), if_neg (by simp [hcall]), hr]
    simp [hopen]
  have hue : wUse (eraseResp c msg) false = true := by cases msg <;> exact hu
  have hexs : (eraseResp c msg).exs = c.exs := by cases msg <;> rfl
  refine ⟨?_, ?_, ?_⟩
  · intro sid frm
    have h1 : (writeFR c msg ctx false).1.store = c.store := writeFR_store c msg ctx false
    have h2 : (writeFR c msg ctx false).1.cfg = c.cfg := by rw [hw]; cases msg <;> rfl
    have h3 : (writeFR c msg ctx false).1.isDone = c.isDone := by rw [hw]; cases msg <;> rfl
    have h4 : (writeFR c msg ctx false).1.purged = c.purged := by rw [hw]; cases msg <;> rfl
    unfold replayItems
    rw [h1, h2, h3, h4]
  · intro x e hat hop hj hex hb
    obtain ⟨p1, p2⟩ := emitX_eq c.exs x (.message (some (s.id, s.next)) ⟨msg, ctx⟩) e hex
    have hp : e.push (.message (some (s.id, s.next)) ⟨msg, ctx⟩) =
        ({ e with out := e.out ++ [.message (some (s.id, s.next)) ⟨msg, ctx⟩] }, true) := by unfold Exch.push; rw [hb]
    rw [hp] at p1 p2
    rw [hw]
    simp only [writeToF, wDeliver, deliver, hat, hop, hj, hue, if_true, hexs]
    refine ⟨by rw [p2]; rfl, ?_⟩
    split
    · exact ⟨{ e with out := e.out ++ [.message (some (s.id, s.next)) ⟨msg, ctx⟩], ended := true }, by rw [finishX_eq, p1]; rfl, rfl⟩
    · exact ⟨_, p1, rfl⟩
  · intro hna
    rw [hw]
    have hd : (wDeliver (eraseResp c msg) s msg ctx false) = ((eraseResp c msg).exs, { s with requests := wReqs s msg }, false) := by
      simp only [wDeliver, deliver]
      rcases hna with h | h
      · rw [h]
      · rw [h]; cases s.attached <;> rfl
    simp only [writeToF, hd]
    exact ⟨by simp, hexs⟩

/-- **what is NOT promised.**  The failed append consumed an event id: afterwards the ids on the wire are one ahead of the
store.  Concretely (priming event, a notification whose `Append` fails, a second notification): the exchange was sent
100 with id `(1,1)` and 101 with id `(1,2)`, but index 1 of the log holds 101 — id `(1,1)` no longer denotes the message
it was delivered with, and a resume after `(1,2)` finds nothing although 101 *is* at index 1.  C08 presupposes a store
whose `Append` succeeds. -/
theorem append_failure_breaks_alignment :
    let c := xrun (init cfgW : Conn Nat)
      [.base (.post [7] false .v1125 none), .writeF (.notif 100) (some 7) false, .base (.write (.notif 101) (some 7) false)]
    c.exs.map (·.out) = [[.prime 1 0, .message (some (1, 1)) ⟨.notif 100, some 7⟩, .message (some (1, 2)) ⟨.notif 101, some 7⟩]] ∧
    c.store 1 = some [none, some ⟨.notif 101, some 7⟩] := by decide

/-- non-vacuity of `batch_post_all_answered_with_failing_appends` and the C02-m12 shape: a batch of two calls on one POST,
the store fails to record the FIRST response — both are on the wire, the exchange has completed -/
example :
    let c0 := xrun (init cfgW : Conn Nat) [.base (.post [7, 8] false .v0326 none)]
    ((answerAllF (fun r => 200 + r) (fun r => r == 7) c0 [7, 8]).exs.map fun e => (e.out, e.ended)) =
      [([.message (some (1, 0)) ⟨.resp 7 207, some 7⟩, .message (some (1, 1)) ⟨.resp 8 208, some 8⟩], true)] ∧
    (answerAllF (fun r => 200 + r) (fun r => r == 7) c0 [7, 8]).store 1 = some [some ⟨.resp 8 208, some 8⟩] := by decide

end Resume
