import McpModel.Resume.Lemmas
/-!
E5 — the structural invariant `Inv` of the connection state and its preservation by every label
(no assumption on the label list).
-/
namespace Resume
variable {α : Type}

structure Inv (c : Conn α) : Prop where
  nodup   : (c.streams.map (·.id)).Nodup
  sid_lt  : ∀ s ∈ c.streams, s.id < c.nextSid
  store_lt : ∀ sid, (c.store sid).isSome → sid < c.nextSid
  att     : ∀ s ∈ c.streams, ∀ ex, s.attached = some ex → ∃ e, c.exs[ex]? = some e ∧ e.stream = s.id
  att_inj : ∀ s₁ ∈ c.streams, ∀ s₂ ∈ c.streams, ∀ ex, s₁.attached = some ex → s₂.attached = some ex → s₁.id = s₂.id
  opn_att : ∀ s ∈ c.streams, s.opn = true → s.attached.isSome
  ex_ok   : ∀ e ∈ c.exs, ExOK e
  pend_lt : ∀ pw ∈ c.pendW, pw.sid < c.nextSid

theorem inv_init (cfg : Cfg) : Inv (init cfg : Conn α) := by
  refine ⟨by simp [init], ?_, ?_, ?_, ?_, ?_, ?_, by intro pw h; simp [init] at h⟩
  · intro s hs; simp [init] at hs; subst hs; simp [init]
  · intro sid h
    show sid < 1
    by_cases h0 : sid = 0
    · omega
    · have h' : (if (cfg.hasStore && sid == 0) = true then some ([] : List (Option (Item α))) else none).isSome = true := h
      have : (cfg.hasStore && sid == 0) = false := by simp [h0]
      simp [this] at h'
  · intro s hs ex h; simp [init] at hs; subst hs; cases h
  · intro s₁ h1 s₂ h2; simp [init] at h1 h2; subst h1 h2; intros; rfl
  · intro s hs h; simp [init] at hs; subst hs; cases h
  · intro e he; simp [init] at he

/-- exchange tables of equal length whose entries keep their ghost fields and their health -/
def ExRel (exs exs' : List (Exch α)) : Prop :=
  exs'.length = exs.length ∧
  ∀ (j : Nat) (e : Exch α), exs[j]? = some e → ∃ e', exs'[j]? = some e' ∧ e'.stream = e.stream ∧ e'.from = e.from ∧ (ExOK e → ExOK e')

theorem ExRel.refl (exs : List (Exch α)) : ExRel exs exs := ⟨rfl, fun _ e h => ⟨e, h, rfl, rfl, id⟩⟩

theorem ExRel.trans {a b c : List (Exch α)} (h₁ : ExRel a b) (h₂ : ExRel b c) : ExRel a c := by
  refine ⟨h₂.1.trans h₁.1, ?_⟩
  intro j e h
  obtain ⟨e', h', s1, f1, o1⟩ := h₁.2 j e h
  obtain ⟨e'', h'', s2, f2, o2⟩ := h₂.2 j e' h'
  exact ⟨e'', h'', s2.trans s1, f2.trans f1, fun x => o2 (o1 x)⟩

theorem exRel_setEx (exs : List (Exch α)) (ex : ExId) (f : Exch α → Exch α)
    (hf : ∀ e, (f e).stream = e.stream ∧ (f e).from = e.from ∧ (ExOK e → ExOK (f e))) : ExRel exs (setEx ex f exs) := by
  refine ⟨by simp, ?_⟩
  intro j e h
  by_cases hj : j = ex
  · subst hj
    refine ⟨f e, by rw [getElem?_setEx_eq, h]; rfl, (hf e).1, (hf e).2.1, (hf e).2.2⟩
  · exact ⟨e, by rw [getElem?_setEx_ne _ _ _ _ hj]; exact h, rfl, rfl, id⟩

theorem exRel_emitX (exs : List (Exch α)) (ex : ExId) (o : Out α) : ExRel exs (emitX exs ex o).1 := by
  unfold emitX
  split
  · exact ExRel.refl _
  · exact exRel_setEx _ _ _ (fun e => ⟨push_stream e o, push_from e o, push_ok e o⟩)

theorem exRel_finishX (exs : List (Exch α)) (ex : ExId) : ExRel exs (finishX exs ex) := by
  unfold finishX
  exact exRel_setEx _ _ _ (fun e => ⟨rfl, rfl, fun h => h⟩)

theorem exRel_wfail (exs : List (Exch α)) (ex : ExId) :
    ExRel exs (setEx ex (fun e => { e with budget := some 0 }) exs) :=
  exRel_setEx _ _ _ (fun _ => ⟨rfl, rfl, fun _ _ => rfl⟩)

/-- stream tables where streams were only updated in place, deleted, detached or closed -/
def StreamsRel (l l' : List (Stream α)) : Prop :=
  (l'.map (·.id)).Sublist (l.map (·.id)) ∧
  ∀ s' ∈ l', ∃ s ∈ l, s'.id = s.id ∧ (s'.attached = s.attached ∨ s'.attached = none) ∧ (s'.opn = true → s.opn = true ∧ s'.attached = s.attached)

theorem StreamsRel.refl (l : List (Stream α)) : StreamsRel l l :=
  ⟨List.Sublist.refl _, fun s hs => ⟨s, hs, rfl, Or.inl rfl, fun h => ⟨h, rfl⟩⟩⟩

theorem streamsRel_set {l : List (Stream α)} {s s' : Stream α} (hs : s ∈ l) (hid : s'.id = s.id)
    (hatt : s'.attached = s.attached ∨ s'.attached = none) (hopn : s'.opn = true → s.opn = true ∧ s'.attached = s.attached) :
    StreamsRel l (setStream s' l) := by
  refine ⟨by rw [setStream_ids]; exact List.Sublist.refl _, ?_⟩
  intro x hx
  rcases mem_setStream hx with rfl | ⟨hxl, _⟩
  · exact ⟨s, hs, hid, hatt, hopn⟩
  · exact ⟨x, hxl, rfl, Or.inl rfl, fun h => ⟨h, rfl⟩⟩

theorem streamsRel_del (l : List (Stream α)) (sid : SId) : StreamsRel l (delStream sid l) := by
  refine ⟨delStream_ids_sublist _ _, ?_⟩
  intro x hx
  rw [mem_delStream] at hx
  exact ⟨x, hx.1, rfl, Or.inl rfl, fun h => ⟨h, rfl⟩⟩

theorem streamsRel_release (l : List (Stream α)) (ex : ExId) : StreamsRel l (release ex l) := by
  refine ⟨by rw [release_ids]; exact List.Sublist.refl _, ?_⟩
  intro x hx
  obtain ⟨s, hs, h | h⟩ := mem_release hx
  · obtain ⟨_, rfl⟩ := h
    exact ⟨s, hs, rfl, Or.inr rfl, fun h => by cases h⟩
  · obtain ⟨_, rfl⟩ := h
    exact ⟨x, hs, rfl, Or.inl rfl, fun h => ⟨h, rfl⟩⟩

/-- the workhorse: `Inv` survives in-place updates of streams and exchanges -/
theorem inv_congr {c c' : Conn α} (h : Inv c) (hs : StreamsRel c.streams c'.streams) (he : ExRel c.exs c'.exs)
    (hst : ∀ sid, (c'.store sid).isSome → sid < c'.nextSid) (hn : c.nextSid ≤ c'.nextSid)
    (hpw : c'.pendW = c.pendW := by rfl) : Inv c' := by
  refine ⟨h.nodup.sublist hs.1, ?_, hst, ?_, ?_, ?_, ?_, fun pw hp => Nat.lt_of_lt_of_le (h.pend_lt pw (by rw [← hpw]; exact hp)) hn⟩
  · intro s' hs'
    obtain ⟨s, hsl, hid, _, _⟩ := hs.2 s' hs'
    rw [hid]; exact Nat.lt_of_lt_of_le (h.sid_lt s hsl) hn
  · intro s' hs' ex hat
    obtain ⟨s, hsl, hid, hatt, _⟩ := hs.2 s' hs'
    have : s.attached = some ex := by
      rcases hatt with h1 | h1
      · rw [← h1]; exact hat
      · rw [h1] at hat; cases hat
    obtain ⟨e, hex, hst⟩ := h.att s hsl ex this
    obtain ⟨e', hex', hs1, _, _⟩ := he.2 ex e hex
    exact ⟨e', hex', by rw [hs1, hst, hid]⟩
  · intro s₁' h1 s₂' h2 ex a1 a2
    obtain ⟨s₁, hl1, hid1, hatt1, _⟩ := hs.2 s₁' h1
    obtain ⟨s₂, hl2, hid2, hatt2, _⟩ := hs.2 s₂' h2
    have b1 : s₁.attached = some ex := by
      rcases hatt1 with h1 | h1
      · rw [← h1]; exact a1
      · rw [h1] at a1; cases a1
    have b2 : s₂.attached = some ex := by
      rcases hatt2 with h1 | h1
      · rw [← h1]; exact a2
      · rw [h1] at a2; cases a2
    rw [hid1, hid2]; exact h.att_inj s₁ hl1 s₂ hl2 ex b1 b2
  · intro s' hs' hop
    obtain ⟨s, hsl, _, _, hopn⟩ := hs.2 s' hs'
    obtain ⟨ho, ha⟩ := hopn hop
    rw [ha]; exact h.opn_att s hsl ho
  · intro e' he'
    obtain ⟨j, hj⟩ := List.getElem?_of_mem he'
    have hlt : j < c.exs.length := by
      have : j < c'.exs.length := by
        by_cases hh : j < c'.exs.length
        · exact hh
        · rw [List.getElem?_eq_none (by omega)] at hj; cases hj
      rw [he.1] at this; exact this
    obtain ⟨e'', h'', _, _, hok⟩ := he.2 j c.exs[j] (List.getElem?_eq_getElem hlt)
    rw [hj] at h''; cases h''
    exact hok (h.ex_ok _ (List.getElem_mem hlt))

/-- a new (not yet attached) exchange is added at the end of the table -/
theorem inv_append_ex {c : Conn α} (h : Inv c) (e : Exch α) (hok : ExOK e) : Inv { c with exs := c.exs ++ [e] } := by
  refine ⟨h.nodup, h.sid_lt, h.store_lt, ?_, h.att_inj, h.opn_att, ?_, h.pend_lt⟩
  · intro s hs ex hat
    obtain ⟨e₀, hex, hst⟩ := h.att s hs ex hat
    have hlt : ex < c.exs.length := by
      by_cases hh : ex < c.exs.length
      · exact hh
      · rw [List.getElem?_eq_none (by omega)] at hex; cases hex
    exact ⟨e₀, by simp [List.getElem?_append_left hlt, hex], hst⟩
  · intro x hx
    simp at hx
    rcases hx with hx | rfl
    · exact h.ex_ok x hx
    · exact hok

theorem inv_emit {c : Conn α} (h : Inv c) (ex : ExId) (o : Out α) : Inv (emit c ex o).1 :=
  inv_congr (c' := (emit c ex o).1) h (StreamsRel.refl _) (exRel_emitX _ _ _) h.store_lt (Nat.le_refl _)

theorem inv_finish {c : Conn α} (h : Inv c) (ex : ExId) : Inv (finish c ex) :=
  inv_congr (c' := finish c ex) h (StreamsRel.refl _) (exRel_finishX _ _) h.store_lt (Nat.le_refl _)

theorem inv_cut {c : Conn α} (h : Inv c) (ex : ExId) : Inv (cut c ex) :=
  inv_congr (c' := cut c ex) h (streamsRel_release _ _) (exRel_finishX _ _) h.store_lt (Nat.le_refl _)

theorem inv_wfail {c : Conn α} (h : Inv c) (ex : ExId) : Inv (wfail c ex) :=
  inv_congr (c' := wfail c ex) h (StreamsRel.refl _) (exRel_wfail _ _) h.store_lt (Nat.le_refl _)

/-! ### deliver -/

theorem deliver_exRel (exs : List (Exch α)) (s : Stream α) (it : Item α) (evid : Option (SId × Nat))
    (reqs : List ReqId) (done : Bool) : ExRel exs (deliver exs s it evid reqs done).1 := by
  unfold deliver
  split
  · split
    · split
      · exact (exRel_emitX _ _ _).trans (exRel_finishX _ _)
      · exact ExRel.refl _
    · split
      · exact (exRel_emitX _ _ _).trans (exRel_finishX _ _)
      · exact exRel_emitX _ _ _
  · exact ExRel.refl _

theorem deliver_stream (exs : List (Exch α)) (s : Stream α) (it : Item α) (evid : Option (SId × Nat))
    (reqs : List ReqId) (done : Bool) :
    (deliver exs s it evid reqs done).2.1.id = s.id ∧ (deliver exs s it evid reqs done).2.1.attached = s.attached ∧
    ((deliver exs s it evid reqs done).2.1.opn = true → s.opn = true) ∧ (deliver exs s it evid reqs done).2.1.requests = reqs ∧
    (deliver exs s it evid reqs done).2.1.calls = s.calls ∧ (deliver exs s it evid reqs done).2.1.listen = s.listen := by
  unfold deliver
  split
  · rename_i ex hat hop
    split
    · split <;> simp [hop]
    · simp [hop]
  · simp

@[simp] theorem eraseResp_streams (c : Conn α) (msg : Msg α) : (eraseResp c msg).streams = c.streams := by
  unfold eraseResp; split <;> rfl
@[simp] theorem eraseResp_exs (c : Conn α) (msg : Msg α) : (eraseResp c msg).exs = c.exs := by
  unfold eraseResp; split <;> rfl
@[simp] theorem eraseResp_store (c : Conn α) (msg : Msg α) : (eraseResp c msg).store = c.store := by
  unfold eraseResp; split <;> rfl
@[simp] theorem eraseResp_nextSid (c : Conn α) (msg : Msg α) : (eraseResp c msg).nextSid = c.nextSid := by
  unfold eraseResp; split <;> rfl
@[simp] theorem eraseResp_cfg (c : Conn α) (msg : Msg α) : (eraseResp c msg).cfg = c.cfg := by
  unfold eraseResp; split <;> rfl
@[simp] theorem eraseResp_isDone (c : Conn α) (msg : Msg α) : (eraseResp c msg).isDone = c.isDone := by
  unfold eraseResp; split <;> rfl
@[simp] theorem eraseResp_hist (c : Conn α) (msg : Msg α) : (eraseResp c msg).hist = c.hist := by
  unfold eraseResp; split <;> rfl
@[simp] theorem eraseResp_pendW (c : Conn α) (msg : Msg α) : (eraseResp c msg).pendW = c.pendW := by
  unfold eraseResp; split <;> rfl
@[simp] theorem eraseResp_purged (c : Conn α) (msg : Msg α) : (eraseResp c msg).purged = c.purged := by
  unfold eraseResp; split <;> rfl

theorem inv_eraseResp {c : Conn α} (h : Inv c) (msg : Msg α) : Inv (eraseResp c msg) :=
  inv_congr (c' := eraseResp c msg) h (by simp; exact StreamsRel.refl _) (by simp; exact ExRel.refl _)
    (by simp; exact h.store_lt) (by simp) (by simp)

/-- the routing target is a registered stream -/
theorem route_mem {c : Conn α} {msg : Msg α} {ctx : Option ReqId} {s : Stream α} (h : route c msg ctx = some s) :
    s ∈ c.streams := by
  unfold route at h
  split at h
  · split at h
    · exact (findStream_some h).1
    · cases h
  · split at h
    · rename_i s' hl
      cases h; exact (findListen_some hl).1
    · exact (findStream_some h).1

theorem inv_writeTo {c : Conn α} (h : Inv c) {s : Stream α} (hmem : s ∈ c.streams) (msg : Msg α) (ctx : Option ReqId)
    (ctxNew : Bool) : Inv (writeTo c s msg ctx ctxNew).1 := by
  have hd := deliver_stream c.exs s ⟨msg, ctx⟩ (if wUse c ctxNew then some (s.id, s.next) else none) (wReqs s msg) (wDone s msg)
  refine inv_congr (c' := (writeTo c s msg ctx ctxNew).1) h ?_ ?_ ?_ ?_
  · simp only [writeTo]
    split
    · exact streamsRel_del _ _
    · exact streamsRel_set hmem hd.1 (Or.inl hd.2.1) (fun ho => ⟨hd.2.2.1 ho, hd.2.1⟩)
  · simp only [writeTo, wDeliver]; exact deliver_exRel _ _ _ _ _ _
  · simp only [writeTo]
    intro sid hsome
    split at hsome
    · by_cases hk : sid = s.id
      · rw [hk]; exact h.sid_lt s hmem
      · rw [appendLog_other _ _ _ _ hk] at hsome; exact h.store_lt sid hsome
    · exact h.store_lt sid hsome
  · simp [writeTo]

theorem inv_write {c : Conn α} (h : Inv c) (msg : Msg α) (ctx : Option ReqId) (ctxNew : Bool) :
    Inv (writeR c msg ctx ctxNew).1 := by
  unfold writeR
  split
  · exact h
  · split
    · exact inv_eraseResp h msg
    · rename_i s hs
      split
      · exact inv_eraseResp h msg
      · exact inv_writeTo (inv_eraseResp h msg) (by simp; exact route_mem hs) _ _ _

theorem inv_sclose {c : Conn α} (h : Inv c) (req : ReqId) (retry : Bool) : Inv (sclose c req retry) := by
  unfold sclose
  split
  · exact h
  · split
    · exact h
    · rename_i s hs
      have hmem := (findStream_some hs).1
      split
      · rename_i ex hat hop
        split
        · refine inv_congr (inv_emit h ex .close) ?_ (ExRel.refl _) (inv_emit h ex .close).store_lt (Nat.le_refl _)
          exact streamsRel_set (s := s) hmem rfl (Or.inl rfl) (fun ho => by cases ho)
        · refine inv_congr h ?_ (ExRel.refl _) h.store_lt (Nat.le_refl _)
          exact streamsRel_set (s := s) hmem rfl (Or.inl rfl) (fun ho => by cases ho)
      · exact h

/-! ### POST -/

theorem inv_statusEx {c : Conn α} (h : Inv c) (code : Nat) (sid : SId) : Inv (statusEx c code sid) :=
  inv_append_ex h _ (fun hl => absurd rfl hl)

theorem postStore_lt {c : Conn α} (h : Inv c) (listen : Bool) (ver : Ver) :
    ∀ sid, (postStore c listen ver sid).isSome → sid < c.nextSid + 1 := by
  intro sid hsome
  by_cases hk : sid = c.nextSid
  · omega
  · have : (c.store sid).isSome := by
      simp only [postStore] at hsome
      split at hsome
      · rw [appendLog_other _ _ _ _ hk] at hsome
        split at hsome
        · rw [openLog_other _ _ _ hk] at hsome; exact hsome
        · exact hsome
      · split at hsome
        · rw [openLog_other _ _ _ hk] at hsome; exact hsome
        · exact hsome
    exact Nat.lt_succ_of_lt (h.store_lt sid this)

theorem att_lt {c : Conn α} (h : Inv c) {s : Stream α} (hs : s ∈ c.streams) {ex : ExId} (hat : s.attached = some ex) :
    ex < c.exs.length := by
  obtain ⟨e, hex, _⟩ := h.att s hs ex hat
  by_cases hh : ex < c.exs.length
  · exact hh
  · rw [List.getElem?_eq_none (by omega)] at hex; cases hex

theorem inv_register {c : Conn α} (h : Inv c) (calls : List ReqId) (listen : Bool) (ver : Ver) (budget : Option Nat) :
    Inv (register c calls listen ver budget) := by
  have hfresh : ∀ s ∈ c.streams, s.id ≠ c.nextSid := fun s hs => Nat.ne_of_lt (h.sid_lt s hs)
  have hattlt : ∀ s ∈ c.streams, s.attached ≠ some c.exs.length := by
    intro s hs hat
    have := att_lt h hs hat
    omega
  refine ⟨?_, ?_, postStore_lt h listen ver, ?_, ?_, ?_, ?_, fun pw hp => Nat.lt_succ_of_lt (h.pend_lt pw hp)⟩
  · simp only [register, List.map_append, List.map_cons, List.map_nil]
    rw [List.nodup_append]
    refine ⟨h.nodup, by simp, ?_⟩
    intro a ha b hb
    simp [newStream] at hb; subst hb
    rw [List.mem_map] at ha
    obtain ⟨x, hx, rfl⟩ := ha
    exact hfresh x hx
  · intro x hx
    simp only [register, List.mem_append, List.mem_singleton] at hx ⊢
    rcases hx with hx | rfl
    · exact Nat.lt_succ_of_lt (h.sid_lt x hx)
    · simp [newStream]
  · intro x hx ex hxa
    simp only [register, List.mem_append, List.mem_singleton] at hx ⊢
    rcases hx with hx | rfl
    · obtain ⟨e₀, hex, hst⟩ := h.att x hx ex hxa
      have hlt := att_lt h hx hxa
      exact ⟨e₀, by simp [List.getElem?_append_left hlt, hex], hst⟩
    · simp only [newStream] at hxa; cases hxa
      exact ⟨_, List.getElem?_concat_length, by simp [newStream]⟩
  · intro x₁ h1 x₂ h2' ex a1 a2
    simp only [register, List.mem_append, List.mem_singleton] at h1 h2'
    rcases h1 with h1 | rfl <;> rcases h2' with h2' | rfl
    · exact h.att_inj x₁ h1 x₂ h2' ex a1 a2
    · simp only [newStream] at a2; cases a2; exact absurd a1 (hattlt x₁ h1)
    · simp only [newStream] at a1; cases a1; exact absurd a2 (hattlt x₂ h2')
    · rfl
  · intro x hx hop
    simp only [register, List.mem_append, List.mem_singleton] at hx
    rcases hx with hx | rfl
    · exact h.opn_att x hx hop
    · simp [newStream]
  · intro x hx
    simp only [register, List.mem_append, List.mem_singleton] at hx
    rcases hx with hx | rfl
    · exact h.ex_ok x hx
    · intro hl; exact absurd rfl hl

theorem inv_postNew {c : Conn α} (h : Inv c) (calls : List ReqId) (listen : Bool) (ver : Ver) (budget : Option Nat) :
    Inv (postNew c calls listen ver budget) := by
  have h3 := inv_register h calls listen ver budget
  simp only [postNew]
  split
  · split
    · exact inv_cut (inv_emit h3 _ _) _
    · exact inv_cut h3 _
  · split
    · exact inv_emit h3 _ _
    · exact h3

theorem inv_postDup {c : Conn α} (h : Inv c) (ver : Ver) : Inv (postDup c ver) := by
  unfold postDup
  apply inv_statusEx
  refine inv_congr h (StreamsRel.refl _) (ExRel.refl _) ?_ (Nat.le_succ _)
  intro sid hsome
  simp only at hsome ⊢
  split at hsome
  · by_cases hk : sid = c.nextSid
    · omega
    · rw [openLog_other _ _ _ hk] at hsome; exact Nat.lt_succ_of_lt (h.store_lt sid hsome)
  · exact Nat.lt_succ_of_lt (h.store_lt sid hsome)

theorem inv_post {c : Conn α} (h : Inv c) (calls : List ReqId) (listen : Bool) (ver : Ver) (budget : Option Nat) :
    Inv (post c calls listen ver budget) := by
  unfold post
  split
  · exact inv_statusEx h _ _
  · split
    · exact inv_postDup h _
    · exact inv_postNew h _ _ _ _

/-! ### GET -/

theorem replayLoop_inv {c : Conn α} (h : Inv c) (ex : ExId) (sid : SId) (k : Nat) (items : List (Item α)) :
    Inv (replayLoop c ex sid k items).1 := by
  induction items generalizing c k with
  | nil => exact h
  | cons it rest ih =>
    unfold replayLoop
    split
    · exact ih (inv_emit h _ _) _
    · exact inv_emit h _ _

/-- the replay loop touches nothing but the exchange table -/
theorem replayLoop_frame (c : Conn α) (ex : ExId) (sid : SId) (k : Nat) (items : List (Item α)) :
    (replayLoop c ex sid k items).1.streams = c.streams ∧ (replayLoop c ex sid k items).1.store = c.store ∧
    (replayLoop c ex sid k items).1.nextSid = c.nextSid ∧ (replayLoop c ex sid k items).1.reqStreams = c.reqStreams ∧
    (replayLoop c ex sid k items).1.hist = c.hist ∧ (replayLoop c ex sid k items).1.cfg = c.cfg ∧
    (replayLoop c ex sid k items).1.isDone = c.isDone ∧ ExRel c.exs (replayLoop c ex sid k items).1.exs := by
  induction items generalizing c k with
  | nil => simp [replayLoop]; exact ExRel.refl _
  | cons it rest ih =>
    unfold replayLoop
    split
    · obtain ⟨a, b, c1, d, e, f, g, r⟩ := ih (emit c ex (.message (some (sid, k)) it)).1 (k + 1)
      exact ⟨a, b, c1, d, e, f, g, (exRel_emitX c.exs ex _).trans r⟩
    · exact ⟨rfl, rfl, rfl, rfl, rfl, rfl, rfl, exRel_emitX _ _ _⟩

theorem getOpen_inv {c : Conn α} (h : Inv c) (sid : SId) (frm : Nat) (budget : Option Nat) : Inv (getOpen c sid frm budget) := by
  unfold getOpen
  split
  · exact inv_emit (inv_append_ex h _ (fun hl => absurd rfl hl)) _ _
  · exact inv_append_ex h _ (fun hl => absurd rfl hl)

theorem getOpen_frame (c : Conn α) (sid : SId) (frm : Nat) (budget : Option Nat) :
    (getOpen c sid frm budget).streams = c.streams ∧ (getOpen c sid frm budget).store = c.store ∧
    (getOpen c sid frm budget).nextSid = c.nextSid ∧ (getOpen c sid frm budget).reqStreams = c.reqStreams ∧
    (getOpen c sid frm budget).hist = c.hist ∧ (getOpen c sid frm budget).cfg = c.cfg ∧
    (getOpen c sid frm budget).isDone = c.isDone ∧ (getOpen c sid frm budget).exs.length = c.exs.length + 1 ∧
    (∀ j, j < c.exs.length → (getOpen c sid frm budget).exs[j]? = c.exs[j]?) ∧
    ∃ e, (getOpen c sid frm budget).exs[c.exs.length]? = some e ∧ e.stream = sid ∧ e.from = frm := by
  unfold getOpen
  split
  · refine ⟨rfl, rfl, rfl, rfl, rfl, rfl, rfl, by simp [emit], ?_, ?_⟩
    · intro j hj
      simp only [emit]
      rw [emitX_ne _ _ _ _ (by omega), List.getElem?_append_left hj]
    · simp only [emit]
      obtain ⟨e', he', hs', hf', _⟩ := (exRel_emitX (c.exs ++ [({ kind := .sse, budget := budget, stream := sid, «from» := frm } : Exch α)])
        c.exs.length .comment).2 c.exs.length _ List.getElem?_concat_length
      exact ⟨e', he', hs', hf'⟩
  · refine ⟨rfl, rfl, rfl, rfl, rfl, rfl, rfl, by simp, ?_, ⟨_, List.getElem?_concat_length, rfl, rfl⟩⟩
    intro j hj
    simp [List.getElem?_append_left hj]

theorem inv_attach {c c0 : Conn α} (h : Inv c) (h0 : Inv c0) (hs : c.streams = c0.streams) (hn : c.nextSid = c0.nextSid)
    {s : Stream α} (hmem : s ∈ c0.streams) (hnone : s.attached = none) {e : Exch α}
    (he : c.exs[c0.exs.length]? = some e) (hes : e.stream = s.id) (next : Nat) (ver : Ver) (closed : Bool) :
    Inv (attach c s c0.exs.length next ver closed) := by
  have hatt : Inv ({ c with streams := setStream { s with attached := some c0.exs.length, opn := true, next := next, v1125 := ver.ge1125 } c.streams } : Conn α) := by
    have hold : ∀ x ∈ c.streams, x.attached ≠ some c0.exs.length := by
      intro x hx hxa
      rw [hs] at hx
      have := att_lt h0 hx hxa
      omega
    refine ⟨?_, ?_, h.store_lt, ?_, ?_, ?_, h.ex_ok, h.pend_lt⟩
    · simp only; rw [setStream_ids]; exact h.nodup
    · intro x hx
      simp only at hx
      rcases mem_setStream hx with rfl | ⟨hxl, _⟩
      · simp only; rw [hn]; exact h0.sid_lt s hmem
      · exact h.sid_lt x hxl
    · intro x hx ex hxa
      simp only at hx
      rcases mem_setStream hx with rfl | ⟨hxl, _⟩
      · simp only at hxa; cases hxa
        exact ⟨e, he, hes⟩
      · exact h.att x hxl ex hxa
    · intro x₁ hx1 x₂ hx2 ex a1 a2
      simp only at hx1 hx2
      rcases mem_setStream hx1 with rfl | ⟨hl1, _⟩ <;> rcases mem_setStream hx2 with rfl | ⟨hl2, _⟩
      · rfl
      · simp only at a1; cases a1; exact absurd a2 (hold x₂ hl2)
      · simp only at a2; cases a2; exact absurd a1 (hold x₁ hl1)
      · exact h.att_inj x₁ hl1 x₂ hl2 ex a1 a2
    · intro x hx hop
      simp only at hx
      rcases mem_setStream hx with rfl | ⟨hxl, _⟩
      · simp
      · exact h.opn_att x hxl hop
  unfold attach
  split
  · exact inv_cut hatt _
  · exact hatt

theorem inv_getGo {c : Conn α} (h : Inv c) (sid : SId) (frm : Nat) (ver : Ver) (budget : Option Nat) (items : List (Item α))
    (hnatt : (findStream sid c.streams).bind (·.attached) = none) : Inv (getGo c sid frm ver budget items) := by
  have h2 := getOpen_inv h sid frm budget
  have h3 := replayLoop_inv h2 c.exs.length sid frm items
  obtain ⟨gs, gst, gn, _, _, _, _, _, _, e, ge, ges, _⟩ := getOpen_frame c sid frm budget
  obtain ⟨fs, fst, fn, _, _, _, _, fr⟩ := replayLoop_frame (getOpen c sid frm budget) c.exs.length sid frm items
  unfold getGo
  split
  · split
    · exact inv_finish h3 _
    · rename_i s hst
      have hmem := (findStream_some hst).1
      have hsid' := (findStream_some hst).2
      have hnone : s.attached = none := by
        rw [hst] at hnatt; simpa using hnatt
      split
      · exact inv_finish h3 _
      · obtain ⟨e', he', hes', _, _⟩ := fr.2 _ e ge
        exact inv_attach h3 h (fs.trans gs) (fn.trans gn) hmem hnone he' (by rw [hes', ges, hsid']) _ _ _
  · exact inv_finish h3 _

theorem inv_get {c : Conn α} (h : Inv c) (hdr : Hdr) (ver : Ver) (budget : Option Nat) : Inv (get c hdr ver budget) := by
  unfold get
  split
  · exact inv_statusEx h _ _
  · split
    · exact inv_statusEx h _ _
    · split
      · exact inv_statusEx h _ _
      · rename_i hnatt
        split
        · exact inv_statusEx h _ _
        · exact inv_getGo h _ _ _ _ _ hnatt

/-! ### WROUTE / WDELIVER -/

theorem inv_pendW {c : Conn α} (h : Inv c) (l : List (PendW α)) (hl : ∀ pw ∈ l, pw.sid < c.nextSid) :
    Inv ({ c with pendW := l } : Conn α) :=
  ⟨h.nodup, h.sid_lt, h.store_lt, h.att, h.att_inj, h.opn_att, h.ex_ok, hl⟩

theorem mem_eraseIdx {β : Type} {l : List β} {i : Nat} {x : β} (h : x ∈ l.eraseIdx i) : x ∈ l :=
  List.mem_of_mem_eraseIdx h

theorem inv_wroute {c : Conn α} (h : Inv c) (msg : Msg α) (ctx : Option ReqId) (ctxNew : Bool) :
    Inv (wrouteR c msg ctx ctxNew).1 := by
  unfold wrouteR
  split
  · exact h
  · split
    · exact inv_eraseResp h msg
    · rename_i s hs
      split
      · exact inv_eraseResp h msg
      · refine inv_pendW (inv_eraseResp h msg) _ ?_
        intro pw hp
        simp only [eraseResp_nextSid]
        rcases List.mem_append.mp hp with hp | hp
        · exact h.pend_lt pw hp
        · simp at hp; subst hp; exact h.sid_lt s (route_mem hs)

theorem inv_orphan {c : Conn α} (h : Inv c) (pw : PendW α) (hlt : pw.sid < c.nextSid) : Inv (orphanWrite c pw).1 := by
  refine inv_congr (c' := (orphanWrite c pw).1) h (StreamsRel.refl _) (ExRel.refl _) ?_ (Nat.le_refl _) rfl
  intro sid hsome
  simp only [orphanWrite] at hsome
  split at hsome
  · by_cases hk : sid = pw.sid
    · rw [hk]; exact hlt
    · rw [appendLog_other _ _ _ _ hk] at hsome; exact h.store_lt sid hsome
  · exact h.store_lt sid hsome

theorem inv_wdeliver {c : Conn α} (h : Inv c) (i : Nat) : Inv (wdeliverR c i).1 := by
  unfold wdeliverR
  split
  · exact h
  · rename_i pw hpw
    have hmem : pw ∈ c.pendW := List.mem_of_getElem? hpw
    have h1 : Inv ({ c with pendW := c.pendW.eraseIdx i } : Conn α) :=
      inv_pendW h _ (fun x hx => h.pend_lt x (mem_eraseIdx hx))
    split
    · rename_i s hs
      exact inv_writeTo h1 (findStream_some hs).1 _ _ _
    · exact inv_orphan h1 pw (h.pend_lt pw hmem)

theorem inv_step {c : Conn α} (h : Inv c) (l : Label α) : Inv (step c l) := by
  unfold step stepR
  cases l with
  | post calls listen ver budget => exact inv_post h _ _ _ _
  | write msg ctx ctxNew => exact inv_write h _ _ _
  | cut ex => exact inv_cut h _
  | wfail ex => exact inv_wfail h _
  | get hdr ver budget => exact inv_get h _ _ _
  | sclose req retry => exact inv_sclose h _ _
  | «end» => exact ⟨h.nodup, h.sid_lt, h.store_lt, h.att, h.att_inj, h.opn_att, h.ex_ok, h.pend_lt⟩
  | evict sid n => exact ⟨h.nodup, h.sid_lt, h.store_lt, h.att, h.att_inj, h.opn_att, h.ex_ok, h.pend_lt⟩
  | wroute msg ctx ctxNew => exact inv_wroute h _ _ _
  | wdeliver i => exact inv_wdeliver h i

theorem inv_run (cfg : Cfg) (ls : List (Label α)) : Inv (run (init cfg) ls) := by
  suffices ∀ c : Conn α, Inv c → Inv (run c ls) from this _ (inv_init cfg)
  induction ls with
  | nil => intro c h; exact h
  | cons l t ih => intro c h; exact ih _ (inv_step h l)

end Resume
