import McpModel.Resume.RecStep
/-!
# C08 — the monitor accepts the model (bridging theorem)

`monitor_accepts_model_C08`: for **every** label list in the scope of C08, the typed monitor core
(`Mon.step`, the function the driver runs on the implementation's observations) raises no C08 clause on the
model's own observation trace (one record per label).  `monitorC08_accepts_groups` is the same for runs cut
into records of several labels (as the driver's operations are) whenever every record satisfies the
record-level facts `RecFacts`.  So a C08 verdict `V` can only arise on an observation that differs from
every model behaviour: the monitor raises no alarm on conforming behaviour *by theorem*.
-/
namespace Resume
open Mon
variable {α σ : Type} [DecidableEq α] [DecidableEq σ]

theorem inv08_runFrom {c : Conn α} (hw : Inv c) (h : Inv08 c) (hs : c.cfg.hasStore = true) (hps : PendScope c) (ls : List (Label α))
    (hsc : InScopeRun c ls) : Inv08 (run c ls) ∧ PendScope (run c ls) := by
  induction ls generalizing c with
  | nil => exact ⟨h, hps⟩
  | cons l t ih =>
    simp only [run, List.foldl_cons]
    exact ih (inv_step hw l) (inv08_step hw h hs l hsc.1 hps) (by rw [step_cfg]; exact hs) (pendScope_step hps l hsc.1) hsc.2

theorem run_cfg' (c : Conn α) (ls : List (Label α)) : (run c ls).cfg = c.cfg := by
  induction ls generalizing c with
  | nil => rfl
  | cons l t ih => simp only [run, List.foldl_cons] at ih ⊢; rw [ih, step_cfg]

theorem monRel08_init (cfg : Cfg) (sn : σ) : MonRel08 sn (Mon.init cfg.hasStore cfg.jsonResponse : MonS σ α) (init cfg) := by
  refine ⟨rfl, fun _ => rfl, ?_, ?_⟩
  · intro sid
    simp only [Mon.init, init]
    split <;> simp
  · intro j e he; simp [init] at he

/-- runs cut into records each of which is in scope and satisfies the record-level facts -/
def GroupsOK08 : Conn α → List (List (Label α)) → Prop
  | _, [] => True
  | c, g :: gs => InScopeRun c g ∧ RecFacts (originOfGroup g) c (run c g) ∧ GroupsOK08 (run c g) gs

theorem accepts_groups_from (prov : α → Prov σ) (sn : σ) : ∀ (gs : List (List (Label α))) (c : Conn α) (m : MonS σ α),
    Inv c → Inv08 c → InvK c → InvP c → PendScope c → c.cfg.hasStore = true → MonRel08 sn m c → GroupsOK08 c gs →
    (runV prov m (traceOf sn c gs)).2.v08 = none := by
  intro gs
  induction gs with
  | nil => intro c m _ _ _ _ _ _ _ _; rfl
  | cons g t ih =>
    intro c m hw h8 hk hp hps hst hm hok
    obtain ⟨hsc, hf, hrest⟩ := hok
    have hw' := inv_runFrom hw g
    obtain ⟨h8', hps'⟩ := inv08_runFrom hw h8 hst hps g hsc
    have hk' := invK_runFrom hw hk g
    have hp' := invP_runFrom hw hp g
    obtain ⟨v, hm'⟩ := record_ok08 prov hst hw' h8' hk' hp' (purged_mono_run c g) (grow_run hw g) hf hm
    have := ih (run c g) _ hw' h8' hk' hp' hps' (by rw [run_cfg']; exact hst) hm' hrest
    simp only [traceOf, runV, foldV] at this ⊢
    simp [Viol.or, v, this]

/-- **C08 bridging, grouped records.** -/
theorem monitorC08_accepts_groups (cfg : Cfg) (hst : cfg.hasStore = true) (sn : σ) (prov : α → Prov σ)
    (gs : List (List (Label α))) (hok : GroupsOK08 (init cfg : Conn α) gs) :
    (runV prov (Mon.init cfg.hasStore cfg.jsonResponse) (traceOf sn (init cfg) gs)).2.v08 = none :=
  accepts_groups_from prov sn gs (init cfg) _ (inv_init cfg) (inv08_init cfg) (invK_init cfg) (invP_init cfg) (pendScope_init cfg) hst (monRel08_init cfg sn) hok

/-! ### one record per label -/

def ObsScopeRun : Conn α → List (Label α) → Prop
  | _, [] => True
  | c, l :: ls => ObsScope c l ∧ ObsScopeRun (step c l) ls

theorem originOfGroup_single (l : Label α) : originOfGroup [l] = originOfLabel l := by
  cases l <;> rfl

theorem groupsOK_singletons : ∀ (ls : List (Label α)) (c : Conn α), Inv c → Inv08 c → PendScope c → c.cfg.hasStore = true →
    ObsScopeRun c ls → GroupsOK08 c (ls.map fun l => [l]) := by
  intro ls
  induction ls with
  | nil => intro _ _ _ _ _ _; trivial
  | cons l t ih =>
    intro c hw h8 hps hst hsc
    refine ⟨⟨hsc.1.1, trivial⟩, ?_, ?_⟩
    · rw [originOfGroup_single]
      exact recFacts_step hw h8 hst l hsc.1
    · exact ih (step c l) (inv_step hw l) (inv08_step hw h8 hst l hsc.1.1 hps) (pendScope_step hps l hsc.1.1) (by rw [step_cfg]; exact hst) hsc.2

/-! ### without an event store the C08 monitor is silent -/

theorem foldl_store {A : Type} (f : MonS σ α → A → MonS σ α) (hf : ∀ m a, (f m a).store = m.store) :
    ∀ (l : List A) (m : MonS σ α), (l.foldl f m).store = m.store := by
  intro l
  induction l with
  | nil => intro m; rfl
  | cons a t ih => intro m; simp only [List.foldl_cons]; rw [ih, hf]

theorem learnRow_store (o : Obs σ α) (s : σ) (m : MonS σ α) (r : Row) : (learnRow o s m r).store = m.store := by
  unfold learnRow
  split
  · rfl
  · split
    · rfl
    · split <;> simp

theorem learnId_store (o : Obs σ α) (m : MonS σ α) (s : Sent α) : (learnId o m s).store = m.store := by
  unfold learnId
  split
  · split <;> simp
  · rfl

theorem evStep_nostore (prov : α → Prov σ) (m : MonS σ α) (s : Sent α) (h : m.store = false) :
    (evStep prov m s).1.store = m.store ∧ (evStep prov m s).2.v08 = none := by
  unfold evStep
  split
  · exact ⟨rfl, rfl⟩
  · rename_i e he
    split
    · exact ⟨rfl, rfl⟩
    · exact ⟨rfl, rfl⟩
    · exact ⟨rfl, rfl⟩
    · have := foldV_jsonOne_frame prov e.sess e.stream s.k ‹_› m
      exact ⟨this.2.2.1, this.2.2.2⟩
    · simp [ev08, h]
    · simp [ev08, h, Viol.or]

theorem step_nostore (prov : α → Prov σ) (m : MonS σ α) (o : Obs σ α) (h : m.store = false) :
    (Mon.step prov m o).1.store = false ∧ (Mon.step prov m o).2.v08 = none := by
  have h1 : (learnIds (learnRows (openAll m o) o) o).store = false := by
    unfold learnIds learnRows openAll
    rw [foldl_store _ (learnId_store o),
      foldl_store (fun (m : MonS σ α) (s : Snap σ) => s.rows.foldl (learnRow o s.sess) m)
        (fun m s => foldl_store _ (learnRow_store o s.sess) _ m),
      foldl_store (fun (m : MonS σ α) (x : Nat × Bool) => m.putEx x.1 (mkEx o x.2)) (fun m x => rfl)]
    exact h
  obtain ⟨_, a2, a3, _⟩ := appends_spec prov o.appends (learnIds (learnRows (openAll m o) o) o)
  have h2 := a2.trans h1
  have key : ∀ (l : List (Sent α)) (m : MonS σ α), m.store = false →
      (foldV (evStep prov) m l).1.store = false ∧ (foldV (evStep prov) m l).2.v08 = none := by
    intro l
    induction l with
    | nil => intro m hm; exact ⟨hm, rfl⟩
    | cons s t ih =>
      intro m hm
      obtain ⟨b1, b2⟩ := evStep_nostore prov m s hm
      obtain ⟨c1, c2⟩ := ih _ (b1.trans hm)
      simp only [foldV]
      exact ⟨c1, by simp [Viol.or, b2, c2]⟩
  obtain ⟨e1, e2⟩ := key o.sent _ h2
  have hap : ∀ (l : List (σ × Nat × Nat)) (m : MonS σ α), (applyPurges m l).store = m.store := fun l m => (applyPurges_frame l m).2.2.1
  refine ⟨(hap _ _).trans e1, ?_⟩
  show ((({ v08 := if m.store then o.opened.findSome? (checkPurged m o) else none } : Viol).or
    ((foldV (appendOne prov) _ o.appends).2.or (foldV (evStep prov) _ o.sent).2)).or { v08 := quiesce _ o }).v08 = none
  simp [Viol.or, a3, e2, quiesce, e1, h]

theorem runV_nostore (prov : α → Prov σ) : ∀ (tr : List (Obs σ α)) (m : MonS σ α), m.store = false →
    (runV prov m tr).2.v08 = none := by
  intro tr
  induction tr with
  | nil => intro m _; rfl
  | cons o t ih =>
    intro m hm
    obtain ⟨a, b⟩ := step_nostore prov m o hm
    have := ih _ a
    simp only [runV, foldV] at this ⊢
    simp [Viol.or, b, this]

/-- **C08 bridging theorem.**  For every configuration, every label list in the scope of C08 (`ObsScopeRun`:
contexts, POSTs and GETs before 2026-07-28; `Last-Event-ID`s that were issued before), any session name and any
provenance tagging of the payloads: the C08 monitor raises no clause on the observation trace of the model
(one record per label).  A C08 violation therefore needs an observation no model run produces. -/
theorem monitor_accepts_model_C08 (cfg : Cfg) (sn : σ) (prov : α → Prov σ) (ls : List (Label α))
    (hsc : ObsScopeRun (init cfg : Conn α) ls) :
    (runV prov (Mon.init cfg.hasStore cfg.jsonResponse) (traceOf1 sn (init cfg) ls)).2.v08 = none := by
  cases hst : cfg.hasStore with
  | false => exact runV_nostore prov _ _ rfl
  | true =>
    have := monitorC08_accepts_groups cfg hst sn prov (ls.map fun l => [l])
      (groupsOK_singletons ls (init cfg) (inv_init cfg) (inv08_init cfg) (pendScope_init cfg) hst hsc)
    rw [hst] at this
    exact this

end Resume
