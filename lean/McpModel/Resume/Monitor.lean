/-!
E5 — the typed core of the C08 / C10 property monitors.

The monitors judge what the *implementation* reported for one harness record: an `Obs` (the exchanges the
record opened, the event-store appends it made, every write to every response, the snapshot of the real
`streams` table).  They keep their own ground truth — the append log per (session, stream), per exchange
the resume point and the number of id-carrying events seen so far, the POST exchange that created each
stream — and never look at the model.  `Mon.step` is a pure function `MonS → Obs → MonS × Viol`.

* `McpModel.Resume.Driver` parses the harness' tokens into an `Obs` (a thin string layer) and calls `Mon.step`;
* `McpModel.Resume.Trace` defines the `Obs` a model step emits;
* `McpModel.Resume.Bridge*` prove that `Mon.step` raises no clause on any observation trace of the model
  and that a raised clause refutes the corresponding property clause on the monitor's ground truth.

Generic in the session name type `σ` and the payload type `π` (strings in the driver, the model's payloads
in the proofs).  Stream names are numbers (`0` = the standalone stream), exchange names are numbers.
Core Lean only (linked into the driver).
-/
namespace Resume
namespace Mon

/-- provenance of a payload, as the harness tagged it when it produced the message -/
inductive Prov (σ : Type) where
  | resp (id : Nat) (sess : σ) (req : Nat) (post : Nat)   -- response `id` of request `req` carried by POST exchange `post`
  | initResp (id : Nat)                                  -- the initialize response
  | inReq (sess : σ) (req : Nat) (post : Nat)             -- notification / call issued with the request's context
  | detached (sess : σ)                                  -- … with a context that belongs to no request
  | server                                               -- list_changed / acknowledged: server-initiated
  | fanout (origin : σ) (req : Nat) (post : Nat) (hctx : Bool)   -- a session-independent server notification (`Server.ResourceUpdated`)
                                                         -- issued while request `req` (POST exchange `post`) of session `origin` was
                                                         -- being handled; `hctx`: the caller passed the handler's context
  | other

/-- the SSE `id:` field of an event as it appeared on the wire -/
inductive EvId where
  | none | bad | ok (sid idx : Nat)
deriving DecidableEq

/-- one `ResponseWriter.Write` -/
inductive MOut (π : Type) where
  | comment | close
  | prime (id : EvId)
  | message (id : EvId) (p : π)
  | json (ps : List π)
  | junk

/-- the `Last-Event-ID` header of the request, as sent -/
inductive ObsHdr where
  | absent | bad | ok (sid idx : Nat)

/-- what the operation says about the exchange it opens -/
inductive Origin where
  | post (ids : List Nat) (listen newProto : Bool)
  | get (hdr : ObsHdr) (newProto : Bool)
  | other

def Origin.ids : Origin → List Nat
  | .post ids _ _ => ids
  | _ => []

def Origin.isGet : Origin → Bool
  | .get _ _ => true
  | _ => false

def Origin.isListen : Origin → Bool
  | .post _ l _ => l
  | _ => false

def Origin.newProto : Origin → Bool
  | .post _ _ n => n
  | .get _ n => n
  | .other => false

/-- the stream a GET names and the first index it is entitled to -/
def Origin.stream : Origin → Option Nat
  | .get .absent _ => some 0
  | .get (.ok t _) _ => some t
  | _ => none

def Origin.from : Origin → Nat
  | .get (.ok _ i) _ => i + 1
  | _ => 0

/-- one row of the snapshot of `c.streams`: id, `w` (exchange), `done ≠ nil`, `lastIdx + 1`, SSE (not JSON) -/
structure Row where
  t : Nat
  att : Option Nat
  opn : Bool
  next : Nat
  sse : Bool

structure Snap (σ : Type) where
  sess : σ
  newProto : Bool          -- a ≥ 2026-07-28 session: outside C08
  rows : List Row

structure Append (σ π : Type) where
  sess : σ
  stream : Nat
  p : Option π             -- `none`: the empty priming payload
  check : Bool             -- routing is checked (not for the store session shared by all stateless connections)

structure Sent (π : Type) where
  k : Nat
  lost : Bool              -- written while the writer fails: reaches nobody
  out : MOut π

/-- the implementation's observation for one record -/
structure Obs (σ π : Type) where
  sess : σ                             -- the session the opened exchanges belong to
  origin : Origin
  opened : List (Nat × Bool)           -- exchange, `text/event-stream`?
  appends : List (Append σ π)
  sent : List (Sent π)
  snaps : List (Snap σ)
  purges : List (σ × Nat × Nat) := []  -- (session, stream, n): the store now holds the log of that stream from index n on

inductive Clause08 where
  | malformedId | otherStream | repeated | gap | noEntry | payloadDiffers
  | resumeIncomplete | lastIdx | attachedIncomplete | purgedNotReported
deriving DecidableEq, Repr

inductive RouteClause where
  | respOtherId | respOtherSession | respNotOwn | initNotOwn | inReqOtherSession | jsonModeNotStandalone
  | straggler | inReqNotOwn | detachedOtherSession | detachedNotStandalone | serverNotStandalone | unrecognised
  | fanoutOtherSession | fanoutNotStandalone
deriving DecidableEq, Repr

inductive Clause10 where
  | route (store : Bool) (r : RouteClause)
  | neverOpened | nonRespInJson | unparsable
deriving DecidableEq, Repr

def Clause08.text : Clause08 → String
  | .malformedId => "C08: malformed event id on the wire"
  | .otherStream => "C08: event id names another stream than the one this exchange serves"
  | .repeated => "C08: event id repeated or reordered (not the next index after the resume point)"
  | .gap => "C08: gap in event ids (an index after the resume point was skipped)"
  | .noEntry => "C08: delivered event has no entry at that index of the ground-truth append log"
  | .payloadDiffers => "C08: delivered payload differs from what was appended at that index"
  | .resumeIncomplete => "C08: the resume did not deliver every stored message after Last-Event-ID (lost, or duplicated)"
  | .lastIdx => "C08: lastIdx of an attached stream is not the index of the last stored event"
  | .attachedIncomplete => "C08: an attached, healthy exchange has not received every message written to its stream"
  | .purgedNotReported => "C08: a resume from a position the store has evicted was answered with a stream instead of an error (purged messages silently skipped)"

def RouteClause.text : RouteClause → String
  | .respOtherId => "response carries another id than the request it answers"
  | .respOtherSession => "response delivered to another session"
  | .respNotOwn => "response delivered on an exchange or stream that does not belong to its request"
  | .initNotOwn => "initialize response delivered on an exchange that does not belong to its request"
  | .inReqOtherSession => "in-request message delivered to another session"
  | .jsonModeNotStandalone => "JSON mode: in-request message not on the standalone/listen stream"
  | .straggler => "straggler of a finished request delivered on the stream of a later request that reuses its id (client reused a request id within the session)"
  | .inReqNotOwn => "in-request message routed to a stream that does not belong to its request"
  | .detachedOtherSession => "detached message delivered to another session"
  | .detachedNotStandalone => "detached message routed to a request stream instead of the standalone/listen stream"
  | .serverNotStandalone => "server-initiated notification routed to a request stream"
  | .unrecognised => "unrecognised payload on the wire"
  | .fanoutOtherSession => "a server-level notification issued inside a request handler of another session was delivered on the exchange of a request of this session (routed by the issuing session's request id) instead of this session's standalone/listen stream"
  | .fanoutNotStandalone => "a server-level (fan-out) notification was routed to a request stream that is neither the standalone/listen stream nor the stream of the request whose handler issued it with its own context"

def Clause10.text : Clause10 → String
  | .route false r => "C10: " ++ r.text
  | .route true r => "C10: (store) " ++ r.text
  | .neverOpened => "C10: bytes written to an exchange that was never opened"
  | .nonRespInJson => "C10: a non-response was put into an application/json response"
  | .unparsable => "C10: unparsable event token"

/-- first violated clause per property -/
structure Viol where
  v08 : Option Clause08 := none
  v10 : Option Clause10 := none

def Viol.or (a b : Viol) : Viol := { v08 := a.v08 <|> b.v08, v10 := a.v10 <|> b.v10 }

/-- what the monitor knows about one exchange -/
structure MEx (σ : Type) where
  sess : σ
  ids : List Nat                 -- request ids of the POST that opened it
  isGet : Bool
  isListen : Bool
  stream : Option Nat            -- the stream it serves (header, attachment, or first event id)
  «from» : Nat                   -- first index it is entitled to
  nsent : Nat := 0               -- id-carrying events written to it (delivered or lost)
  nrecv : Nat := 0               -- … delivered
  failing : Bool := false        -- an id-carrying event was lost
  sse : Bool
  newProto : Bool                -- ≥ 2026-07-28: outside C08

structure MonS (σ π : Type) where
  store : Bool
  jsonMode : Bool
  exs : Nat → Option (MEx σ) := fun _ => none
  logs : σ → Nat → List (Option π) := fun _ _ => []      -- ground truth: appended payloads per (session, stream)
  posts : σ → Nat → Option Nat := fun _ _ => none       -- (session, stream) ↦ POST exchange that created it
  first : σ → Nat → Nat := fun _ _ => 0                 -- (session, stream) ↦ entries the store has evicted from the front of the log

/-- the monitor before the first record -/
def init {σ π : Type} (store jsonMode : Bool) : MonS σ π := { store := store, jsonMode := jsonMode }

variable {σ π : Type} [DecidableEq σ] [DecidableEq π]

def MonS.putEx (m : MonS σ π) (k : Nat) (e : MEx σ) : MonS σ π :=
  { m with exs := fun j => if j = k then some e else m.exs j }

/-- record the creator of a stream unless one is known already (the first evidence binds) -/
def MonS.bindPost (m : MonS σ π) (s : σ) (t : Nat) (k : Nat) : MonS σ π :=
  match m.posts s t with
  | some _ => m
  | none => { m with posts := fun s' t' => if s' = s ∧ t' = t then some k else m.posts s' t' }

def MonS.addLog (m : MonS σ π) (s : σ) (t : Nat) (p : Option π) : MonS σ π :=
  { m with logs := fun s' t' => if s' = s ∧ t' = t then m.logs s t ++ [p] else m.logs s' t' }

/-! ### pass 1: the exchanges the record opened -/

def mkEx (o : Obs σ π) (sse : Bool) : MEx σ :=
  { sess := o.sess, ids := o.origin.ids, isGet := o.origin.isGet, isListen := o.origin.isListen,
    stream := o.origin.stream, «from» := o.origin.from, sse := sse, newProto := o.origin.newProto }

def openAll (m : MonS σ π) (o : Obs σ π) : MonS σ π :=
  o.opened.foldl (fun m x => m.putEx x.1 (mkEx o x.2)) m

def fresh (o : Obs σ π) (k : Nat) : Bool := o.opened.any (fun x => x.1 == k)

/-! ### pass 2: which stream does a fresh POST exchange serve?  (snapshot attachment, first event id) -/

def learnRow (o : Obs σ π) (sess : σ) (m : MonS σ π) (r : Row) : MonS σ π :=
  match r.att with
  | none => m
  | some k =>
    match m.exs k with
    | none => m
    | some e =>
      if fresh o k && !e.isGet && decide (e.sess = sess) then
        (m.putEx k { e with stream := some r.t }).bindPost sess r.t k
      else m

def learnRows (m : MonS σ π) (o : Obs σ π) : MonS σ π :=
  o.snaps.foldl (fun m s => s.rows.foldl (learnRow o s.sess) m) m

def MOut.evId : MOut π → EvId
  | .prime id => id
  | .message id _ => id
  | _ => .none

def learnId (o : Obs σ π) (m : MonS σ π) (s : Sent π) : MonS σ π :=
  match m.exs s.k, s.out.evId with
  | some e, .ok t _ =>
    if fresh o s.k && !e.isGet && e.stream.isNone then
      (m.putEx s.k { e with stream := some t }).bindPost e.sess t s.k
    else m
  | _, _ => m

def learnIds (m : MonS σ π) (o : Obs σ π) : MonS σ π := o.sent.foldl (learnId o) m

/-! ### C10: the routing check on provenance -/

def isListenEx (m : MonS σ π) (k : Option Nat) : Bool :=
  match k with
  | some k => match m.exs k with
    | some e => e.isListen
    | none => false
  | none => false

def isGetEx (m : MonS σ π) (k : Option Nat) : Bool :=
  match k with
  | some k => match m.exs k with
    | some e => e.isGet
    | none => false
  | none => true          -- store level: no exchange involved

def idsOfEx (m : MonS σ π) (k : Option Nat) : List Nat :=
  match k with
  | some k => match m.exs k with
    | some e => e.ids
    | none => []
  | none => []

/-- the POST exchange that created the stream, when the monitor has seen evidence of it -/
def creator (m : MonS σ π) (sess : σ) (stream : Option Nat) : Option Nat :=
  match stream with
  | some t => m.posts sess t
  | none => none

/-- nothing is known about who created the stream: a request stream (not the standalone one) without
evidence, looked at from the store or from a GET exchange (a POST exchange is its own stream's creator) -/
def creatorUnknown (m : MonS σ π) (sess : σ) (stream : Option Nat) (k : Option Nat) : Bool :=
  match stream with
  | some t => t != 0 && (m.posts sess t).isNone && isGetEx m k
  | none => false

inductive Own where
  | yes | no | unknown
deriving DecidableEq

/-- is (exchange `k`, stream `stream`) the POST exchange `post` itself or an exchange of the stream it created? -/
def own (m : MonS σ π) (sess : σ) (stream : Option Nat) (k : Option Nat) (post : Nat) : Own :=
  if k = some post then .yes
  else match creator m sess stream with
    | some p => if p = post then .yes else .no
    | none => if creatorUnknown m sess stream k then .unknown else .no

def standaloneOrListen (m : MonS σ π) (sess : σ) (stream : Option Nat) (k : Option Nat) : Bool :=
  stream == some 0 || isListenEx m k || isListenEx m (creator m sess stream) || creatorUnknown m sess stream k

/-- C10: may a message with provenance `pv` appear on (session `sess`, stream `stream`, exchange `k`)?
`k = none`: in the store.  `stream` is the stream the exchange serves when known. -/
def routeCheck (m : MonS σ π) (pv : Prov σ) (sess : σ) (stream : Option Nat) (k : Option Nat) : Option RouteClause :=
  match pv with
  | .resp id ps req post =>
    if id ≠ req then some .respOtherId
    else if ps ≠ sess then some .respOtherSession
    else if own m sess stream k post = .no then some .respNotOwn else none
  | .initResp id =>
    if (idsOfEx m k).contains id || (idsOfEx m (creator m sess stream)).contains id || creatorUnknown m sess stream k then none
    else some .initNotOwn
  | .inReq ps req post =>
    if ps ≠ sess then some .inReqOtherSession
    else if m.jsonMode then
      if standaloneOrListen m sess stream k then none else some .jsonModeNotStandalone
    else if own m sess stream k post = .no then
      -- the one shape that needs a protocol-violating client: the request id was reused for a later request
      -- of the same session and the straggler of the finished request lands on the new stream
      match creator m sess stream with
      | some p => if p ≠ post && (idsOfEx m (some p)).contains req then some .straggler else some .inReqNotOwn
      | none => some .inReqNotOwn
    else none
  | .detached ps =>
    if ps ≠ sess then some .detachedOtherSession
    else if standaloneOrListen m sess stream k then none else some .detachedNotStandalone
  | .server => if standaloneOrListen m sess stream k then none else some .serverNotStandalone
  | .fanout ps _ post hctx =>
    -- in every session the copy is "issued outside any request" of that session: standalone/listen stream; only the
    -- issuing session's own copy may instead travel on the stream of the request whose context was passed
    if standaloneOrListen m sess stream k then none
    else if ps ≠ sess then some .fanoutOtherSession
    else if hctx && decide (own m sess stream k post ≠ .no) then none
    else some .fanoutNotStandalone
  | .other => some .unrecognised

/-- a message that names its POST exchange is the first evidence of who created an unknown stream -/
def routeBind (m : MonS σ π) (pv : Prov σ) (sess : σ) (stream : Option Nat) (k : Option Nat) : MonS σ π :=
  match stream with
  | none => m
  | some t =>
    match pv with
    | .resp id ps req post =>
      if id = req ∧ ps = sess ∧ own m sess stream k post = .unknown then m.bindPost sess t post else m
    | .inReq ps _ post =>
      if ps = sess ∧ m.jsonMode = false ∧ own m sess stream k post = .unknown then m.bindPost sess t post else m
    | _ => m

/-! ### pass 3: appends (ground truth) with their store-level routing check -/

def appendOne (prov : π → Prov σ) (m : MonS σ π) (a : Append σ π) : MonS σ π × Viol :=
  match a.p with
  | none => (m.addLog a.sess a.stream none, {})
  | some p =>
    if a.check then
      (routeBind (m.addLog a.sess a.stream (some p)) (prov p) a.sess (some a.stream) none,
       { v10 := (routeCheck (m.addLog a.sess a.stream (some p)) (prov p) a.sess (some a.stream) none).map (.route true) })
    else (m.addLog a.sess a.stream (some p), {})

/-- fold with the first violation of each property -/
def foldV {S A : Type} (f : S → A → S × Viol) : S → List A → S × Viol
  | s, [] => (s, {})
  | s, a :: t => ((foldV f (f s a).1 t).1, (f s a).2.or (foldV f (f s a).1 t).2)

/-! ### pass 4: one write to an exchange -/

/-- C08 on an id-carrying event `(t, i)` with payload `pay` (`none` = priming event) written to `e` -/
def check08 (m : MonS σ π) (e : MEx σ) (t i : Nat) (pay : Option π) : Option Clause08 :=
  if e.stream.isSome && e.stream != some t then some .otherStream
  else if i < e.from + e.nsent then some .repeated
  else if e.from + e.nsent < i then some .gap
  else match (m.logs e.sess t)[i]? with
    | none => some .noEntry
    | some q => if q = pay then none else some .payloadDiffers

def ev08 (m : MonS σ π) (k : Nat) (e : MEx σ) (lost : Bool) (id : EvId) (pay : Option π) : MonS σ π × Viol :=
  if !m.store || e.newProto then (m, {}) else
  match id with
  | .none => (m, {})
  | .bad => (m, { v08 := some .malformedId })
  | .ok t i =>
    (m.putEx k { e with stream := if e.stream.isSome then e.stream else some t, nsent := e.nsent + 1,
                        nrecv := if lost then e.nrecv else e.nrecv + 1, failing := e.failing || lost },
     { v08 := check08 m e t i pay })

def isRespProv : Prov σ → Bool
  | .resp .. => true
  | .initResp _ => true
  | _ => false

/-- one payload of a flushed `application/json` body -/
def jsonOne (prov : π → Prov σ) (sess : σ) (stream : Option Nat) (k : Nat) (m : MonS σ π) (p : π) : MonS σ π × Viol :=
  (routeBind m (prov p) sess stream (some k),
   { v10 := match routeCheck m (prov p) sess stream (some k) with
       | some c => some (.route false c)
       | none => if isRespProv (prov p) then none else some .nonRespInJson })

def evStep (prov : π → Prov σ) (m : MonS σ π) (s : Sent π) : MonS σ π × Viol :=
  match m.exs s.k with
  | none => (m, { v10 := some .neverOpened })
  | some e =>
    match s.out with
    | .comment => (m, {})
    | .close => (m, {})
    | .junk => (m, { v10 := some .unparsable })
    | .json ps => foldV (jsonOne prov e.sess e.stream s.k) m ps
    | .prime id => ev08 m s.k e s.lost id none
    | .message id p =>
      ((ev08 (routeBind m (prov p) e.sess e.stream (some s.k)) s.k e s.lost id (some p)).1,
       ({ v10 := (routeCheck m (prov p) e.sess e.stream (some s.k)).map (.route false) } : Viol).or
         (ev08 (routeBind m (prov p) e.sess e.stream (some s.k)) s.k e s.lost id (some p)).2)

/-! ### pass 5: quiescent-state checks (C08; only with a store) -/

/-- (a) a resume must replay everything after `Last-Event-ID` -/
def checkResume (m : MonS σ π) (x : Nat × Bool) : Option Clause08 :=
  match m.exs x.1 with
  | none => none
  | some e =>
    if e.isGet && e.sse && !e.failing then
      match e.stream with
      | some t =>
        if e.from ≤ (m.logs e.sess t).length ∧ e.from + e.nrecv ≠ (m.logs e.sess t).length then some .resumeIncomplete else none
      | none => none
    else none

/-- (b) attached and open SSE streams: `lastIdx` is the last store index; a healthy exchange has received everything -/
def checkRow (m : MonS σ π) (sess : σ) (r : Row) : Option Clause08 :=
  match r.att with
  | none => none
  | some k =>
    if r.opn && r.sse then
      if r.next ≠ (m.logs sess r.t).length then some .lastIdx
      else match m.exs k with
        | some e =>
          if !e.failing && decide (e.sess = sess) && decide (e.from + e.nrecv ≠ (m.logs sess r.t).length) then some .attachedIncomplete
          else none
        | none => none
    else none

def checkSnap (m : MonS σ π) (s : Snap σ) : Option Clause08 :=
  if s.newProto then none else s.rows.findSome? (checkRow m s.sess)

def quiesce (m : MonS σ π) (o : Obs σ π) : Option Clause08 :=
  if m.store then (o.opened.findSome? (checkResume m)) <|> (o.snaps.findSome? (checkSnap m)) else none

/-! ### evictions -/

/-- a resume from an evicted position must be answered with an error: judged against what had been evicted *before*
this record (an eviction within the record may have happened after the GET was served) -/
def checkPurged (m : MonS σ π) (o : Obs σ π) (x : Nat × Bool) : Option Clause08 :=
  if x.2 && o.origin.isGet then
    match o.origin.stream with
    | some t => if o.origin.from < m.first o.sess t then some .purgedNotReported else none
    | none => none
  else none

def applyPurges (m : MonS σ π) (l : List (σ × Nat × Nat)) : MonS σ π :=
  l.foldl (fun m x => { m with first := fun s t => if s = x.1 ∧ t = x.2.1 then max (m.first s t) x.2.2 else m.first s t }) m

/-! ### one record -/

def step (prov : π → Prov σ) (m : MonS σ π) (o : Obs σ π) : MonS σ π × Viol :=
  let m1 := learnIds (learnRows (openAll m o) o) o
  let r2 := foldV (appendOne prov) m1 o.appends
  let r3 := foldV (evStep prov) r2.1 o.sent
  (applyPurges r3.1 o.purges,
   (({ v08 := if m.store then o.opened.findSome? (checkPurged m o) else none } : Viol).or (r2.2.or r3.2)).or { v08 := quiesce r3.1 o })

/-- a whole trace: the state after it and the first violation of each property, if any -/
def runV (prov : π → Prov σ) (m : MonS σ π) (tr : List (Obs σ π)) : MonS σ π × Viol := foldV (step prov) m tr

end Mon
end Resume
