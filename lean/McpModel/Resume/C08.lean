import McpModel.Resume.Inv
/-!
E5 — the C08 invariant (`Inv08`): with an event store and protocol versions before 2026-07-28,
* the store holds an empty (priming) payload only at index 0 of a request stream;
* what every exchange was sent (delivered or not) is the log segment starting at its resume point,
  each event carrying the id of its log position;
* an attached, open SSE stream has `lastIdx` = last store index = resume index + events written.
Preserved by every label that is in the scope of C08 (`InScope`).
-/
namespace Resume
variable {α : Type}

/-- labels in the scope of C08: contexts and POSTs before 2026-07-28, and a `Last-Event-ID` that was
issued before (its index exists in the stream's log; unknown streams are allowed — they get a 400). -/
def InScope (c : Conn α) : Label α → Prop
  | .write _ _ ctxNew => ctxNew = false
  | .wroute _ _ ctxNew => ctxNew = false
  | .post _ _ ver _ => ver.isNew = false
  | .get (.ok sid idx) _ _ => ∀ log, c.store sid = some log → idx < log.length
  | _ => True

def InScopeRun : Conn α → List (Label α) → Prop
  | _, [] => True
  | c, l :: ls => InScope c l ∧ InScopeRun (step c l) ls

structure Inv08 (c : Conn α) : Prop where
  npos : 0 < c.nextSid
  shape : ∀ (sid : Nat) (log : List (Option (Item α))) (i : Nat), c.store sid = some log → log[i]? = some none → i = 0 ∧ sid ≠ 0
  ex_lt : ∀ (j : Nat) (e : Exch α), c.exs[j]? = some e → e.stream < c.nextSid
  seg : ∀ (j : Nat) (e : Exch α), c.exs[j]? = some e → SegFrom ((c.store e.stream).getD []) e.stream e.from e.all
  aligned : ∀ s ∈ c.streams, ∀ (ex : Nat) (e : Exch α), s.attached = some ex → s.opn = true → s.json = none →
              c.exs[ex]? = some e → s.next = e.from + idCount e.all ∧ ((c.store s.id).getD []).length = s.next

theorem inv08_init (cfg : Cfg) : Inv08 (init cfg : Conn α) := by
  refine ⟨by simp [init], ?_, ?_, ?_, ?_⟩
  · intro sid log i hl hi
    simp only [init] at hl
    split at hl
    · cases hl; simp at hi
    · cases hl
  · intro j e he; simp [init] at he
  · intro j e he; simp [init] at he
  · intro s hs ex e hat; simp [init] at hs; subst hs; cases hat

def NoEv (l : List (Out α)) : Prop := ∀ o ∈ l, o.isEv = false

theorem noEv_nil : NoEv ([] : List (Out α)) := fun _ h => by cases h

theorem idCount_noEv {l : List (Out α)} (h : NoEv l) : idCount l = 0 := by
  induction l with
  | nil => rfl
  | cons o t ih =>
    have ho := h o (List.mem_cons_self)
    simp only [idCount, ho]
    have := ih (fun x hx => h x (List.mem_cons_of_mem _ hx))
    simp [this]

theorem segFrom_noEv (log : List (Option (Item α))) (sid i : Nat) {l : List (Out α)} (h : NoEv l) : SegFrom log sid i l := by
  induction l with
  | nil => trivial
  | cons o t ih =>
    have ho := h o (List.mem_cons_self)
    simp only [SegFrom, ho]
    exact ih (fun x hx => h x (List.mem_cons_of_mem _ hx))

/-- exchange tables that agree up to non-event writes (`close`, comment, JSON body) and the `ended` flag;
new exchanges may be appended as long as nothing but non-events was written to them -/
def ExSame (exs exs' : List (Exch α)) : Prop :=
  exs.length ≤ exs'.length ∧
  ∀ (j : Nat) (e' : Exch α), exs'[j]? = some e' →
    (∃ e, exs[j]? = some e ∧ e'.stream = e.stream ∧ e'.from = e.from ∧ ∃ more, NoEv more ∧ e'.all = e.all ++ more) ∨
    (exs[j]? = none ∧ NoEv e'.all)

theorem ExSame.refl (exs : List (Exch α)) : ExSame exs exs :=
  ⟨Nat.le_refl _, fun _ e' h => Or.inl ⟨e', h, rfl, rfl, [], noEv_nil, by simp⟩⟩

theorem ExSame.trans {a b c : List (Exch α)} (h₁ : ExSame a b) (h₂ : ExSame b c) : ExSame a c := by
  refine ⟨Nat.le_trans h₁.1 h₂.1, ?_⟩
  intro j e'' h
  rcases h₂.2 j e'' h with ⟨e', he', s2, f2, m2, n2, r2⟩ | ⟨hn, hall⟩
  · rcases h₁.2 j e' he' with ⟨e, he, s1, f1, m1, n1, r1⟩ | ⟨hn1, hall1⟩
    · refine Or.inl ⟨e, he, s2.trans s1, f2.trans f1, m1 ++ m2, ?_, by rw [r2, r1]; simp⟩
      intro o ho
      rcases List.mem_append.mp ho with ho | ho
      · exact n1 o ho
      · exact n2 o ho
    · refine Or.inr ⟨hn1, ?_⟩
      rw [r2]
      intro o ho
      rcases List.mem_append.mp ho with ho | ho
      · exact hall1 o ho
      · exact n2 o ho
  · refine Or.inr ⟨?_, hall⟩
    have hb : b.length ≤ j := by
      by_cases hh : j < b.length
      · rw [List.getElem?_eq_getElem hh] at hn; cases hn
      · omega
    exact List.getElem?_eq_none (Nat.le_trans h₁.1 hb)

theorem exSame_finishX (exs : List (Exch α)) (ex : Nat) : ExSame exs (finishX exs ex) := by
  refine ⟨by simp, ?_⟩
  intro j e' h
  obtain ⟨e₀, h0, a, b, c, d, _, _⟩ := finishX_get _ _ _ _ h
  exact Or.inl ⟨e₀, h0, c, d, [], noEv_nil, by simp [Exch.all, a, b]⟩

theorem exSame_wfail (exs : List (Exch α)) (ex : Nat) :
    ExSame exs (setEx ex (fun e => { e with budget := some 0 }) exs) := by
  refine ⟨by simp, ?_⟩
  intro j e' h
  by_cases hj : j = ex
  · subst hj
    rw [getElem?_setEx_eq] at h
    cases hl : exs[j]? with
    | none => rw [hl] at h; cases h
    | some a => rw [hl] at h; simp at h; subst h; exact Or.inl ⟨a, rfl, rfl, rfl, [], noEv_nil, by simp [Exch.all]⟩
  · rw [getElem?_setEx_ne _ _ _ _ hj] at h
    exact Or.inl ⟨e', h, rfl, rfl, [], noEv_nil, by simp⟩

theorem exSame_append (exs : List (Exch α)) (e : Exch α) (he : e.all = []) : ExSame exs (exs ++ [e]) := by
  refine ⟨by simp, ?_⟩
  intro j e' h
  by_cases hj : j < exs.length
  · rw [List.getElem?_append_left hj] at h
    exact Or.inl ⟨e', h, rfl, rfl, [], noEv_nil, by simp⟩
  · have hj' : exs.length ≤ j := by omega
    rw [List.getElem?_append_right hj'] at h
    have : j - exs.length = 0 := by
      by_cases h0 : j - exs.length = 0
      · exact h0
      · rw [List.getElem?_eq_none (by simp; omega)] at h; cases h
    rw [this] at h; simp at h; subst h
    exact Or.inr ⟨List.getElem?_eq_none hj', by rw [he]; intro _ h; cases h⟩

/-- a non-event write on a healthy exchange table -/
theorem exSame_emitX_nonEv (exs : List (Exch α)) (ex : Nat) (o : Out α) (ho : o.isEv = false)
    (hok : ∀ e ∈ exs, ExOK e) : ExSame exs (emitX exs ex o).1 := by
  refine ⟨by simp, ?_⟩
  intro j e' h
  by_cases hj : j = ex
  · subst hj
    cases hl : exs[j]? with
    | none => rw [emitX_none _ _ _ hl] at h; rw [hl] at h; cases h
    | some a =>
      rw [(emitX_eq _ _ _ _ hl).1] at h; cases h
      refine Or.inl ⟨a, rfl, by simp, by simp, [o], ?_, push_all a o (hok a (List.mem_of_getElem? hl))⟩
      intro x hx; simp at hx; subst hx; exact ho
  · rw [emitX_ne _ _ _ _ hj] at h
    exact Or.inl ⟨e', h, rfl, rfl, [], noEv_nil, by simp⟩

/-- stream tables whose attached, open SSE streams all existed before with the same cursor -/
def StrSame (l l' : List (Stream α)) : Prop :=
  ∀ s' ∈ l', s'.opn = true → s'.json = none →
    ∃ s ∈ l, s.id = s'.id ∧ s.attached = s'.attached ∧ s.opn = true ∧ s.json = none ∧ s.next = s'.next

theorem StrSame.refl (l : List (Stream α)) : StrSame l l := fun s hs ho hj => ⟨s, hs, rfl, rfl, ho, hj, rfl⟩

theorem strSame_release (l : List (Stream α)) (ex : Nat) : StrSame l (release ex l) := by
  intro s' hs' ho hj
  obtain ⟨s, hs, h | h⟩ := mem_release hs'
  · obtain ⟨_, rfl⟩ := h; cases ho
  · obtain ⟨_, rfl⟩ := h; exact ⟨s', hs, rfl, rfl, ho, hj, rfl⟩

theorem strSame_del (l : List (Stream α)) (sid : Nat) : StrSame l (delStream sid l) := by
  intro s' hs' ho hj
  rw [mem_delStream] at hs'
  exact ⟨s', hs'.1, rfl, rfl, ho, hj, rfl⟩

/-- replacing a stream by one that is not open (or is a JSON stream) -/
theorem strSame_set_closed (l : List (Stream α)) (s' : Stream α) (h : s'.opn = false ∨ s'.json ≠ none) :
    StrSame l (setStream s' l) := by
  intro x hx ho hj
  rcases mem_setStream hx with rfl | ⟨hxl, _⟩
  · rcases h with h | h
    · rw [h] at ho; cases ho
    · exact absurd hj h
  · exact ⟨x, hxl, rfl, rfl, ho, hj, rfl⟩

/-- the frame lemma: the store is untouched, exchanges only got non-event writes, streams kept their cursors -/
theorem inv08_frame {c c' : Conn α} (hw : Inv c) (h : Inv08 c) (hst : c'.store = c.store) (hn : c.nextSid ≤ c'.nextSid)
    (he : ExSame c.exs c'.exs) (hs : StrSame c.streams c'.streams)
    (hx : ∀ (j : Nat) (e' : Exch α), c'.exs[j]? = some e' → c.exs[j]? = none → e'.stream < c'.nextSid) : Inv08 c' := by
  refine ⟨Nat.lt_of_lt_of_le h.npos hn, ?_, ?_, ?_, ?_⟩
  · intro sid log i hl hi; rw [hst] at hl; exact h.shape sid log i hl hi
  · intro j e' he'
    rcases he.2 j e' he' with ⟨e, hej, hs1, _⟩ | ⟨_, _⟩
    · rw [hs1]; exact Nat.lt_of_lt_of_le (h.ex_lt j e hej) hn
    · exact hx j e' he' ‹_›
  · intro j e' he'
    rw [hst]
    rcases he.2 j e' he' with ⟨e, hej, hs1, hf1, more, hno, hall⟩ | ⟨_, hall⟩
    · rw [hs1, hf1, hall, segFrom_append]
      exact ⟨h.seg j e hej, segFrom_noEv _ _ _ hno⟩
    · exact segFrom_noEv _ _ _ hall
  · intro s' hs' ex e' hat ho hj hex
    obtain ⟨s, hsl, hid, hatt, hop, hjs, hnx⟩ := hs s' hs' ho hj
    rw [hst, ← hid, ← hnx]
    obtain ⟨e, hej, _⟩ := hw.att s hsl ex (by rw [hatt]; exact hat)
    rcases he.2 ex e' hex with ⟨e₀, hej0, _, hf1, more, hno, hall⟩ | ⟨hnone, _⟩
    · rw [hej] at hej0; cases hej0
      have := h.aligned s hsl ex e (by rw [hatt]; exact hat) hop hjs hej
      rw [hf1, hall, idCount_append, idCount_noEv hno]
      simpa using this
    · rw [hej] at hnone; cases hnone


/-! ### steps that do not touch the store -/

theorem inv08_cut {c : Conn α} (hw : Inv c) (h : Inv08 c) (ex : Nat) : Inv08 (cut c ex) :=
  inv08_frame (c' := cut c ex) hw h rfl (Nat.le_refl _) (exSame_finishX _ _) (strSame_release _ _)
    (fun j e' he' hn => by
      simp only [cut, finish] at he'
      obtain ⟨e₀, h0, _⟩ := finishX_get _ _ _ _ he'
      rw [h0] at hn; cases hn)

theorem inv08_wfail {c : Conn α} (hw : Inv c) (h : Inv08 c) (ex : Nat) : Inv08 (wfail c ex) :=
  inv08_frame (c' := wfail c ex) hw h rfl (Nat.le_refl _) (exSame_wfail _ _) (StrSame.refl _)
    (fun j e' he' hn => by
      simp only [wfail] at he'
      have : (setEx ex (fun e => { e with budget := some 0 }) c.exs)[j]? = none := by
        rw [getElem?_setEx, hn]; rfl
      rw [this] at he'; cases he')

theorem inv08_statusEx {c : Conn α} (hw : Inv c) (h : Inv08 c) (code : Nat) (sid : Nat) (hs : sid < c.nextSid) :
    Inv08 (statusEx c code sid) :=
  inv08_frame (c' := statusEx c code sid) hw h rfl (Nat.le_refl _) (exSame_append _ _ rfl) (StrSame.refl _)
    (fun j e' he' hn => by
      simp only [statusEx] at he' ⊢
      have hj : c.exs.length ≤ j := by
        by_cases hh : j < c.exs.length
        · rw [List.getElem?_eq_getElem hh] at hn; cases hn
        · omega
      rw [List.getElem?_append_right hj] at he'
      have : j - c.exs.length = 0 := by
        by_cases h0 : j - c.exs.length = 0
        · exact h0
        · rw [List.getElem?_eq_none (by simp; omega)] at he'; cases he'
      rw [this] at he'; simp at he'; subst he'; exact hs)

theorem inv08_sclose {c : Conn α} (hw : Inv c) (h : Inv08 c) (req : Nat) (retry : Bool) : Inv08 (sclose c req retry) := by
  unfold sclose
  split
  · exact h
  · split
    · exact h
    · rename_i s hs
      split
      · rename_i ex hat hop
        have hx : ∀ (exs' : List (Exch α)), exs'.length = c.exs.length → ∀ (j : Nat) (e' : Exch α), exs'[j]? = some e' → c.exs[j]? = none → e'.stream < c.nextSid := by
          intro exs' hl j e' he' hn
          have hj : c.exs.length ≤ j := by
            by_cases hh : j < c.exs.length
            · rw [List.getElem?_eq_getElem hh] at hn; cases hn
            · omega
          rw [List.getElem?_eq_none (by omega)] at he'; cases he'
        split
        · refine inv08_frame (c' := { (emit c ex .close).1 with streams := setStream { s with opn := false } (emit c ex .close).1.streams }) hw h rfl (Nat.le_refl _) ?_ ?_ ?_
          · exact exSame_emitX_nonEv _ _ _ rfl hw.ex_ok
          · exact strSame_set_closed _ _ (Or.inl rfl)
          · exact hx _ (by simp [emit])
        · refine inv08_frame (c' := { c with streams := setStream { s with opn := false } c.streams }) hw h rfl (Nat.le_refl _) (ExSame.refl _) ?_ ?_
          · exact strSame_set_closed _ _ (Or.inl rfl)
          · exact hx _ rfl
      · exact h

/-! ### WRITE -/

theorem emitX_get (exs : List (Exch α)) (hok : ∀ e ∈ exs, ExOK e) (ex : Nat) (o : Out α) (j : Nat) (e' : Exch α)
    (h : (emitX exs ex o).1[j]? = some e') :
    ∃ e, exs[j]? = some e ∧ e'.stream = e.stream ∧ e'.from = e.from ∧
      ((j = ex ∧ e'.all = e.all ++ [o]) ∨ (j ≠ ex ∧ e' = e)) := by
  by_cases hj : j = ex
  · subst hj
    cases hl : exs[j]? with
    | none => rw [emitX_none _ _ _ hl] at h; rw [hl] at h; cases h
    | some a =>
      rw [(emitX_eq _ _ _ _ hl).1] at h; cases h
      exact ⟨a, rfl, by simp, by simp, Or.inl ⟨rfl, push_all a o (hok a (List.mem_of_getElem? hl))⟩⟩
  · rw [emitX_ne _ _ _ _ hj] at h
    exact ⟨e', h, rfl, rfl, Or.inr ⟨hj, rfl⟩⟩

theorem finishX_all (exs : List (Exch α)) (ex : Nat) (j : Nat) (e' : Exch α) (h : (finishX exs ex)[j]? = some e') :
    ∃ e, exs[j]? = some e ∧ e'.stream = e.stream ∧ e'.from = e.from ∧ e'.all = e.all := by
  obtain ⟨e₀, h0, a, b, c, d, _, _⟩ := finishX_get _ _ _ _ h
  exact ⟨e₀, h0, c, d, by simp [Exch.all, a, b]⟩

/-- what `deliverLocked` did to exchange `j` -/
theorem deliver_get (exs : List (Exch α)) (hok : ∀ e ∈ exs, ExOK e) (s : Stream α) (it : Item α)
    (evid : Option (Nat × Nat)) (reqs : List Nat) (done : Bool) (j : Nat) (e' : Exch α)
    (h : (deliver exs s it evid reqs done).1[j]? = some e') :
    ∃ e, exs[j]? = some e ∧ e'.stream = e.stream ∧ e'.from = e.from ∧
      ((s.attached = some j ∧ s.opn = true ∧ s.json = none ∧ e'.all = e.all ++ [.message evid it]) ∨
       (¬(s.attached = some j ∧ s.opn = true ∧ s.json = none) ∧ ∃ more, NoEv more ∧ e'.all = e.all ++ more)) := by
  unfold deliver at h
  split at h
  · rename_i ex hat hop
    split at h
    · rename_i pend hj
      have hneg : ¬(s.attached = some j ∧ s.opn = true ∧ s.json = none) := by
        intro hh; rw [hj] at hh; cases hh.2.2
      split at h
      · obtain ⟨e₁, h1, s1, f1, a1⟩ := finishX_all _ _ _ _ h
        obtain ⟨e, h0, s0, f0, r⟩ := emitX_get exs hok ex _ j e₁ h1
        refine ⟨e, h0, s1.trans s0, f1.trans f0, Or.inr ⟨hneg, ?_⟩⟩
        rcases r with ⟨_, r⟩ | ⟨_, r⟩
        · exact ⟨[.json (pend ++ [it])], by intro x hx; simp at hx; subst hx; rfl, by rw [a1, r]⟩
        · exact ⟨[], noEv_nil, by rw [a1, r]; simp⟩
      · exact ⟨e', h, rfl, rfl, Or.inr ⟨hneg, [], noEv_nil, by simp⟩⟩
    · rename_i hjn
      have hjs : s.json = none := hjn
      have key : ∀ e₁, (emitX exs ex (.message evid it)).1[j]? = some e₁ →
          ∃ e, exs[j]? = some e ∧ e₁.stream = e.stream ∧ e₁.from = e.from ∧
            ((s.attached = some j ∧ s.opn = true ∧ s.json = none ∧ e₁.all = e.all ++ [.message evid it]) ∨
             (¬(s.attached = some j ∧ s.opn = true ∧ s.json = none) ∧ ∃ more, NoEv more ∧ e₁.all = e.all ++ more)) := by
        intro e₁ h1
        obtain ⟨e, h0, s0, f0, r⟩ := emitX_get exs hok ex _ j e₁ h1
        refine ⟨e, h0, s0, f0, ?_⟩
        rcases r with ⟨hje, r⟩ | ⟨hje, r⟩
        · subst hje; exact Or.inl ⟨hat, hop, hjs, r⟩
        · refine Or.inr ⟨?_, [], noEv_nil, by rw [r]; simp⟩
          intro hh; rw [hat] at hh; cases hh.1; exact hje rfl
      split at h
      · obtain ⟨e₁, h1, s1, f1, a1⟩ := finishX_all _ _ _ _ h
        obtain ⟨e, h0, s0, f0, r⟩ := key e₁ h1
        refine ⟨e, h0, s1.trans s0, f1.trans f0, ?_⟩
        rcases r with ⟨a, b, c, d⟩ | ⟨a, more, b, c⟩
        · exact Or.inl ⟨a, b, c, by rw [a1, d]⟩
        · exact Or.inr ⟨a, more, b, by rw [a1, c]⟩
      · exact key e' h
  · rename_i hnot
    refine ⟨e', h, rfl, rfl, Or.inr ⟨?_, [], noEv_nil, by simp⟩⟩
    intro hh
    exact hnot j hh.1 hh.2.1

/-- the updated stream record -/
theorem deliver_stream' (exs : List (Exch α)) (s : Stream α) (it : Item α) (evid : Option (Nat × Nat))
    (reqs : List Nat) (done : Bool) :
    ((deliver exs s it evid reqs done).2.1.json = none → s.json = none) ∧
    ((deliver exs s it evid reqs done).2.1.opn = true → (deliver exs s it evid reqs done).2.1.json = none →
      s.attached.isSome → (deliver exs s it evid reqs done).2.1.next = s.next + 1 ∧ s.opn = true) := by
  unfold deliver
  split
  · rename_i ex hat hop
    split
    · split <;> simp
    · simp [hop]
  · rename_i hnot
    simp only [imp_self, true_and]
    intro ho _ hsome
    cases hat : s.attached with
    | none => rw [hat] at hsome; cases hsome
    | some x => exact absurd ho (fun ho' => hnot x hat ho')


theorem getD_appendLog_same (sid : Nat) (x : Option (Item α)) (st : Store α) :
    (appendLog sid x st sid).getD [] = (st sid).getD [] ++ [x] := by simp

theorem inv08_writeTo {c : Conn α} (hw : Inv c) (h : Inv08 c) {s : Stream α} (hmem : s ∈ c.streams) (msg : Msg α)
    (ctx : Option Nat) (hst : c.cfg.hasStore = true) : Inv08 (writeTo c s msg ctx false).1 := by
  have huse : wUse c false = true := by simp [wUse, hst]
  have hstore : (writeTo c s msg ctx false).1.store = appendLog s.id (some ⟨msg, ctx⟩) c.store := by
    simp [writeTo, huse]
  have hexs : (writeTo c s msg ctx false).1.exs =
      (deliver c.exs s ⟨msg, ctx⟩ (some (s.id, s.next)) (wReqs s msg) (wDone s msg)).1 := by
    simp [writeTo, wDeliver, huse]
  have hstreams : (writeTo c s msg ctx false).1.streams = if wDone s msg then delStream s.id c.streams
      else setStream (deliver c.exs s ⟨msg, ctx⟩ (some (s.id, s.next)) (wReqs s msg) (wDone s msg)).2.1 c.streams := by
    simp [writeTo, wDeliver, huse]
  have hdg := deliver_get c.exs hw.ex_ok s ⟨msg, ctx⟩ (some (s.id, s.next)) (wReqs s msg) (wDone s msg)
  have hds := deliver_stream c.exs s ⟨msg, ctx⟩ (some (s.id, s.next)) (wReqs s msg) (wDone s msg)
  have hds' := deliver_stream' c.exs s ⟨msg, ctx⟩ (some (s.id, s.next)) (wReqs s msg) (wDone s msg)
  -- the log of the target stream before the write
  have hLE : ∀ k, ∃ more, (appendLog s.id (some (⟨msg, ctx⟩ : Item α)) c.store k).getD [] = (c.store k).getD [] ++ more := by
    intro k
    by_cases hk : k = s.id
    · subst hk; exact ⟨[some ⟨msg, ctx⟩], by simp⟩
    · exact ⟨[], by rw [appendLog_other _ _ _ _ hk]; simp⟩
  refine ⟨h.npos, ?_, ?_, ?_, ?_⟩
  · -- shape
    intro sid log i hl hi
    rw [hstore] at hl
    by_cases hk : sid = s.id
    · subst hk
      simp only [appendLog_same, Option.some.injEq] at hl
      subst hl
      by_cases hi' : i < ((c.store s.id).getD []).length
      · rw [List.getElem?_append_left hi'] at hi
        cases hc : c.store s.id with
        | none => rw [hc] at hi'; simp at hi'
        | some l => rw [hc] at hi; simp at hi; exact h.shape s.id l i hc hi
      · rw [List.getElem?_append_right (by omega)] at hi
        by_cases h0 : i - ((c.store s.id).getD []).length = 0
        · rw [h0] at hi; simp at hi
        · rw [List.getElem?_eq_none (by simp; omega)] at hi; cases hi
    · rw [appendLog_other _ _ _ _ hk] at hl; exact h.shape sid log i hl hi
  · -- ex_lt
    intro j e' he'
    rw [hexs] at he'
    obtain ⟨e, hej, hs1, _⟩ := hdg j e' he'
    rw [hs1]; exact h.ex_lt j e hej
  · -- seg
    intro j e' he'
    rw [hexs] at he'
    rw [hstore]
    obtain ⟨e, hej, hs1, hf1, hcase⟩ := hdg j e' he'
    have hold := h.seg j e hej
    have hmono : SegFrom ((appendLog s.id (some (⟨msg, ctx⟩ : Item α)) c.store e.stream).getD []) e.stream e.from e.all := by
      obtain ⟨more, hm⟩ := hLE e.stream
      exact segFrom_mono ⟨more, hm⟩ _ _ _ hold
    rw [hs1, hf1]
    rcases hcase with ⟨hat, hop, hjs, hall⟩ | ⟨_, more, hno, hall⟩
    · -- the message event on the attached exchange
      obtain ⟨e₀, hej0, hes⟩ := hw.att s hmem j hat
      rw [hej] at hej0; cases hej0
      obtain ⟨hnext, hlen⟩ := h.aligned s hmem j e hat hop hjs hej
      rw [hall, segFrom_append]
      refine ⟨hmono, ?_⟩
      rw [hes]
      simp only [SegFrom, Out.isEv, if_true, and_true]
      refine ⟨some ⟨msg, ctx⟩, ?_, ?_⟩
      · rw [getD_appendLog_same, ← hnext, ← hlen]
        simp
      · simp [evOf, hnext]
    · rw [hall, segFrom_append]
      exact ⟨hmono, segFrom_noEv _ _ _ hno⟩
  · -- aligned
    intro s'' hs'' ex e' hat'' hop'' hj'' hex''
    rw [hexs] at hex''
    rw [hstore]
    rw [hstreams] at hs''
    obtain ⟨e, hej, hs1, hf1, hcase⟩ := hdg ex e' hex''
    -- is s'' the updated target stream?
    have hcases : (s''.id = s.id ∧ wDone s msg = false ∧
        s'' = (deliver c.exs s ⟨msg, ctx⟩ (some (s.id, s.next)) (wReqs s msg) (wDone s msg)).2.1) ∨ (s'' ∈ c.streams ∧ s''.id ≠ s.id) := by
      split at hs''
      · rw [mem_delStream] at hs''; exact Or.inr hs''
      · rename_i hnd
        rcases mem_setStream hs'' with rfl | ⟨hxl, hne⟩
        · exact Or.inl ⟨hds.1, by simpa using hnd, rfl⟩
        · rw [hds.1] at hne; exact Or.inr ⟨hxl, hne⟩
    rcases hcases with ⟨hid, _, rfl⟩ | ⟨hxl, hne⟩
    · -- the target stream itself
      have hsat : s.attached = some ex := by rw [← hds.2.1]; exact hat''
      obtain ⟨hnx, hsop⟩ := hds'.2 hop'' hj'' (by rw [hsat]; rfl)
      have hsj := hds'.1 hj''
      obtain ⟨hnext, hlen⟩ := h.aligned s hmem ex e hsat hsop hsj hej
      rcases hcase with ⟨_, _, _, hall⟩ | ⟨hneg, _⟩
      · rw [hnx, hf1, hall, idCount_append, hid, getD_appendLog_same]
        simp [idCount, Out.isEv]
        omega
      · exact absurd ⟨hsat, hsop, hsj⟩ hneg
    · -- another stream: its exchange got at most non-event writes and its log is untouched
      rw [appendLog_other _ _ _ _ hne]
      obtain ⟨hnext, hlen⟩ := h.aligned s'' hxl ex e hat'' hop'' hj'' hej
      rcases hcase with ⟨hsat, _, _, _⟩ | ⟨_, more, hno, hall⟩
      · exact absurd (hw.att_inj s'' hxl s hmem ex hat'' hsat) hne
      · rw [hf1, hall, idCount_append, idCount_noEv hno]
        exact ⟨by omega, hlen⟩

theorem inv08_write {c : Conn α} (hw : Inv c) (h : Inv08 c) (msg : Msg α) (ctx : Option Nat)
    (hst : c.cfg.hasStore = true) : Inv08 (writeR c msg ctx false).1 := by
  have herase : Inv08 (eraseResp c msg) :=
    inv08_frame (c' := eraseResp c msg) hw h (by simp) (by simp) (by simp; exact ExSame.refl _) (by simp; exact StrSame.refl _)
      (fun j e' he' hn => by simp at he'; rw [he'] at hn; cases hn)
  unfold writeR
  split
  · exact h
  · split
    · exact herase
    · rename_i s hs
      split
      · exact herase
      · exact inv08_writeTo (inv_eraseResp hw msg) herase (by simp; exact route_mem hs) _ _ (by simp; exact hst)


/-! ### POST -/

theorem postStore_other (c : Conn α) (listen : Bool) (ver : Ver) (k : Nat) (hk : k ≠ c.nextSid) :
    postStore c listen ver k = c.store k := by
  simp only [postStore]
  split
  · rw [appendLog_other _ _ _ _ hk]
    split
    · exact openLog_other _ _ _ hk
    · rfl
  · split
    · exact openLog_other _ _ _ hk
    · rfl

theorem postStore_same (c : Conn α) (listen : Bool) (ver : Ver) (hn : c.store c.nextSid = none) (ho : opens c ver = true) :
    postStore c listen ver c.nextSid = some (if primed c listen ver then [none] else []) := by
  simp only [postStore, ho, if_true]
  split <;> simp [hn]

/-- the state after registration and the priming write (before a possible immediate release) -/
def postPrimed (c : Conn α) (calls : List Nat) (listen : Bool) (ver : Ver) (budget : Option Nat) : Conn α :=
  if primed c listen ver then (emit (register c calls listen ver budget) c.exs.length (.prime c.nextSid 0)).1
  else register c calls listen ver budget

theorem postNew_eq (c : Conn α) (calls : List Nat) (listen : Bool) (ver : Ver) (budget : Option Nat) :
    postNew c calls listen ver budget =
      if c.isDone then cut (postPrimed c calls listen ver budget) c.exs.length else postPrimed c calls listen ver budget := by
  simp only [postNew, postPrimed]

theorem inv_postPrimed {c : Conn α} (h : Inv c) (calls : List Nat) (listen : Bool) (ver : Ver) (budget : Option Nat) :
    Inv (postPrimed c calls listen ver budget) := by
  unfold postPrimed
  split
  · exact inv_emit (inv_register h _ _ _ _) _ _
  · exact inv_register h _ _ _ _

theorem postPrimed_frame (c : Conn α) (calls : List Nat) (listen : Bool) (ver : Ver) (budget : Option Nat) :
    (postPrimed c calls listen ver budget).streams = c.streams ++ [newStream c calls listen ver] ∧
    (postPrimed c calls listen ver budget).store = postStore c listen ver ∧
    (postPrimed c calls listen ver budget).nextSid = c.nextSid + 1 ∧
    (postPrimed c calls listen ver budget).cfg = c.cfg ∧
    (postPrimed c calls listen ver budget).isDone = c.isDone ∧
    (postPrimed c calls listen ver budget).reqStreams = (fun r => if r ∈ calls then some c.nextSid else c.reqStreams r) ∧
    (postPrimed c calls listen ver budget).hist = (fun k => if k = c.nextSid then some (calls, listen) else c.hist k) := by
  unfold postPrimed
  split <;> simp [emit, register]

theorem postPrimed_exs (c : Conn α) (calls : List Nat) (listen : Bool) (ver : Ver) (budget : Option Nat) (j : Nat)
    (e' : Exch α) (h : (postPrimed c calls listen ver budget).exs[j]? = some e') :
    (j < c.exs.length ∧ c.exs[j]? = some e') ∨
    (j = c.exs.length ∧ e'.stream = c.nextSid ∧ e'.from = 0 ∧
      e'.all = if primed c listen ver then [.prime c.nextSid 0] else []) := by
  unfold postPrimed at h
  split at h
  · rename_i hp
    simp only [emit, register] at h
    by_cases hj : j = c.exs.length
    · subst hj
      rw [(emitX_eq _ _ _ _ List.getElem?_concat_length).1] at h
      cases h
      refine Or.inr ⟨rfl, by simp, by simp, ?_⟩
      rw [push_all _ _ (fun hl => absurd rfl hl)]
      simp [Exch.all, hp]
    · rw [emitX_ne _ _ _ _ hj] at h
      have hlt : j < c.exs.length := by
        by_cases hh : j < c.exs.length
        · exact hh
        · rw [List.getElem?_eq_none (by simp; omega)] at h; cases h
      rw [List.getElem?_append_left hlt] at h
      exact Or.inl ⟨hlt, h⟩
  · rename_i hp
    simp only [register] at h
    by_cases hlt : j < c.exs.length
    · rw [List.getElem?_append_left hlt] at h
      exact Or.inl ⟨hlt, h⟩
    · have hj : j = c.exs.length := by
        by_cases hh : j = c.exs.length
        · exact hh
        · rw [List.getElem?_eq_none (by simp; omega)] at h; cases h
      subst hj
      rw [List.getElem?_concat_length] at h
      cases h
      exact Or.inr ⟨rfl, rfl, rfl, by simp [Exch.all, hp]⟩

theorem inv08_postPrimed {c : Conn α} (hw : Inv c) (h : Inv08 c) (calls : List Nat) (listen : Bool) (ver : Ver)
    (budget : Option Nat) (hst : c.cfg.hasStore = true) (hv : ver.isNew = false) :
    Inv08 (postPrimed c calls listen ver budget) := by
  obtain ⟨fs, fst, fn, _, _, _, _⟩ := postPrimed_frame c calls listen ver budget
  have hopens : opens c ver = true := by simp [opens, hst, hv]
  have hnone : c.store c.nextSid = none := by
    cases hc : c.store c.nextSid with
    | none => rfl
    | some l => exact absurd (hw.store_lt c.nextSid (by rw [hc]; rfl)) (Nat.lt_irrefl _)
  have hsame := postStore_same c listen ver hnone hopens
  refine ⟨by rw [fn]; omega, ?_, ?_, ?_, ?_⟩
  · intro sid log i hl hi
    rw [fst] at hl
    by_cases hk : sid = c.nextSid
    · subst hk
      rw [hsame] at hl; cases hl
      split at hi
      · by_cases h0 : i = 0
        · exact ⟨h0, Nat.ne_of_gt h.npos⟩
        · rw [List.getElem?_eq_none (by simp; omega)] at hi; cases hi
      · simp at hi
    · rw [postStore_other _ _ _ _ hk] at hl; exact h.shape sid log i hl hi
  · intro j e' he'
    rw [fn]
    rcases postPrimed_exs _ _ _ _ _ _ _ he' with ⟨_, hold⟩ | ⟨_, hs, _, _⟩
    · exact Nat.lt_succ_of_lt (h.ex_lt j e' hold)
    · omega
  · intro j e' he'
    rw [fst]
    rcases postPrimed_exs _ _ _ _ _ _ _ he' with ⟨_, hold⟩ | ⟨_, hs, hf, hall⟩
    · rw [postStore_other _ _ _ _ (Nat.ne_of_lt (h.ex_lt j e' hold))]; exact h.seg j e' hold
    · rw [hs, hf, hall, hsame]
      split
      · simp only [SegFrom, Out.isEv, if_true, and_true]
        exact ⟨none, by simp, rfl⟩
      · trivial
  · intro s'' hs'' ex e' hat hop hj hex
    rw [fs] at hs''
    rw [fst]
    simp only [List.mem_append, List.mem_singleton] at hs''
    rcases hs'' with hold | rfl
    · have hlt := att_lt hw hold hat
      rcases postPrimed_exs _ _ _ _ _ _ _ hex with ⟨_, hexo⟩ | ⟨hje, _⟩
      · rw [postStore_other _ _ _ _ (Nat.ne_of_lt (hw.sid_lt s'' hold))]
        exact h.aligned s'' hold ex e' hat hop hj hexo
      · omega
    · simp only [newStream] at hat; cases hat
      rcases postPrimed_exs _ _ _ _ _ _ _ hex with ⟨hlt, _⟩ | ⟨_, _, hf, hall⟩
      · omega
      · simp only [newStream]
        rw [hf, hall, hsame]
        split <;> simp [idCount, Out.isEv]

theorem inv08_post {c : Conn α} (hw : Inv c) (h : Inv08 c) (calls : List Nat) (listen : Bool) (ver : Ver)
    (budget : Option Nat) (hst : c.cfg.hasStore = true) (hv : ver.isNew = false) :
    Inv08 (post c calls listen ver budget) := by
  unfold post
  split
  · exact inv08_statusEx hw h _ _ h.npos
  · split
    · -- duplicate: the store only gains an empty log for the drawn id
      unfold postDup
      have hopens : opens c ver = true := by simp [opens, hst, hv]
      have hnone : c.store c.nextSid = none := by
        cases hc : c.store c.nextSid with
        | none => rfl
        | some l => exact absurd (hw.store_lt c.nextSid (by rw [hc]; rfl)) (Nat.lt_irrefl _)
      have hw1 : Inv ({ c with store := if opens c ver then openLog c.nextSid c.store else c.store, nextSid := c.nextSid + 1 } : Conn α) := by
        refine inv_congr hw (StreamsRel.refl _) (ExRel.refl _) ?_ (Nat.le_succ _)
        intro sid hsome
        simp only [hopens, if_true] at hsome ⊢
        by_cases hk : sid = c.nextSid
        · omega
        · rw [openLog_other _ _ _ hk] at hsome; exact Nat.lt_succ_of_lt (hw.store_lt sid hsome)
      have h1 : Inv08 ({ c with store := if opens c ver then openLog c.nextSid c.store else c.store, nextSid := c.nextSid + 1 } : Conn α) := by
        simp only [hopens, if_true]
        have hget : ∀ k, (openLog c.nextSid c.store k).getD [] = (c.store k).getD [] := fun k => openLog_getD _ k c.store
        refine ⟨by simp, ?_, ?_, ?_, ?_⟩
        · intro sid log i hl hi
          simp only at hl
          by_cases hk : sid = c.nextSid
          · subst hk; simp [hnone] at hl; subst hl; simp at hi
          · rw [openLog_other _ _ _ hk] at hl; exact h.shape sid log i hl hi
        · intro j e he; exact Nat.lt_succ_of_lt (h.ex_lt j e he)
        · intro j e he; simp only; rw [hget]; exact h.seg j e he
        · intro s' hs' ex e hat hop hj hex; simp only; rw [hget]; exact h.aligned s' hs' ex e hat hop hj hex
      exact inv08_statusEx hw1 h1 _ _ (by simp)
    · rw [postNew_eq]
      split
      · exact inv08_cut (inv_postPrimed hw _ _ _ _) (inv08_postPrimed hw h _ _ _ _ hst hv) _
      · exact inv08_postPrimed hw h _ _ _ _ hst hv


/-! ### GET -/

theorem filterMap_id_map_some {β : Type} (l : List (Option β)) (h : ∀ x ∈ l, x ≠ none) : (l.filterMap id).map some = l := by
  induction l with
  | nil => rfl
  | cons a t ih =>
    cases a with
    | none => exact absurd rfl (h none (List.mem_cons_self))
    | some v =>
      simp only [List.filterMap_cons, id, List.map_cons]
      rw [ih (fun x hx => h x (List.mem_cons_of_mem _ hx))]

theorem toReplay_map_some (log : List (Option (Item α))) (frm : Nat) (h : ∀ i, frm ≤ i → log[i]? ≠ some none) :
    (toReplay log frm).map some = log.drop frm := by
  unfold toReplay
  apply filterMap_id_map_some
  intro x hx hxn
  subst hxn
  obtain ⟨i, hi⟩ := List.getElem?_of_mem hx
  rw [List.getElem?_drop] at hi
  exact h (frm + i) (by omega) hi

theorem toReplay_get (log : List (Option (Item α))) (frm : Nat) (h : ∀ i, frm ≤ i → log[i]? ≠ some none) (i : Nat) (it : Item α)
    (hi : (toReplay log frm)[i]? = some it) : log[frm + i]? = some (some it) := by
  have := congrArg (fun l => l[i]?) (toReplay_map_some log frm h)
  simp only [List.getElem?_map, hi, List.getElem?_drop] at this
  exact this.symm

theorem toReplay_length (log : List (Option (Item α))) (frm : Nat) (h : ∀ i, frm ≤ i → log[i]? ≠ some none) :
    (toReplay log frm).length = log.length - frm := by
  have := congrArg List.length (toReplay_map_some log frm h)
  simpa using this

/-- the replay loop extends the new exchange by log entries `k, k+1, …` and touches nothing else -/
theorem replayLoop_seg (log : List (Option (Item α))) (sid ex : Nat) :
    ∀ (items : List (Item α)) (c : Conn α) (k : Nat) (e : Exch α),
      c.exs[ex]? = some e → (∀ x ∈ c.exs, ExOK x) → SegFrom log sid e.from e.all → e.from + idCount e.all = k →
      (∀ i it, items[i]? = some it → log[k + i]? = some (some it)) →
      ∃ e', (replayLoop c ex sid k items).1.exs[ex]? = some e' ∧ e'.stream = e.stream ∧ e'.from = e.from ∧
        SegFrom log sid e.from e'.all ∧
        ((replayLoop c ex sid k items).2 = true → idCount e'.all = idCount e.all + items.length) ∧
        (∀ j, j ≠ ex → (replayLoop c ex sid k items).1.exs[j]? = c.exs[j]?) := by
  intro items
  induction items with
  | nil =>
    intro c k e he _ hseg _ _
    exact ⟨e, he, rfl, rfl, hseg, fun _ => by simp, fun _ _ => rfl⟩
  | cons it rest ih =>
    intro c k e he hok hseg hk hitems
    have hpush := push_all e (.message (some (sid, k)) it) (hok e (List.mem_of_getElem? he))
    have he1 : (emit c ex (.message (some (sid, k)) it)).1.exs[ex]? = some (e.push (.message (some (sid, k)) it)).1 := by
      simp only [emit]; exact (emitX_eq _ _ _ _ he).1
    have hok1 : ∀ x ∈ (emit c ex (.message (some (sid, k)) it)).1.exs, ExOK x := by
      intro x hx
      simp only [emit] at hx
      rcases mem_emitX hx with hx | ⟨e₀, h0, rfl⟩
      · exact hok x hx
      · exact push_ok _ _ (hok e₀ (List.mem_of_getElem? h0))
    have hseg1 : SegFrom log sid e.from (e.push (.message (some (sid, k)) it)).1.all := by
      rw [hpush, segFrom_append]
      refine ⟨hseg, ?_⟩
      rw [hk]
      simp only [SegFrom, Out.isEv, if_true, and_true]
      exact ⟨some it, by simpa using hitems 0 it (by simp), rfl⟩
    have hcnt : idCount (e.push (.message (some (sid, k)) it)).1.all = idCount e.all + 1 := by
      rw [hpush, idCount_append]; simp [idCount, Out.isEv]
    have hother : ∀ j, j ≠ ex → (emit c ex (.message (some (sid, k)) it)).1.exs[j]? = c.exs[j]? := by
      intro j hj; simp only [emit]; exact emitX_ne _ _ _ _ hj
    unfold replayLoop
    split
    · obtain ⟨e', h1, h2, h3, h4, h5, h6⟩ := ih (emit c ex (.message (some (sid, k)) it)).1 (k + 1)
        (e.push (.message (some (sid, k)) it)).1 he1 hok1 (by simpa using hseg1) (by simp; omega)
        (fun i it' hi => by
          have := hitems (i + 1) it' (by simpa using hi)
          rw [← this]; congr 1; omega)
      refine ⟨e', h1, by simpa using h2, by simpa using h3, by simpa using h4, ?_, ?_⟩
      · intro hr; rw [h5 hr, hcnt]; simp; omega
      · intro j hj; rw [h6 j hj, hother j hj]
    · exact ⟨_, he1, by simp, by simp, by simpa using hseg1, (fun hf => by cases hf), hother⟩

theorem getOpen_new (c : Conn α) (sid frm : Nat) (budget : Option Nat) :
    ∃ e, (getOpen c sid frm budget).exs[c.exs.length]? = some e ∧ e.stream = sid ∧ e.from = frm ∧ NoEv e.all ∧
      ∀ o ∈ e.all, o.items = [] := by
  unfold getOpen
  split
  · simp only [emit]
    refine ⟨_, (emitX_eq _ _ _ _ List.getElem?_concat_length).1, by simp, by simp, ?_, ?_⟩
    · rw [push_all _ _ (fun hl => absurd rfl hl)]
      intro o ho
      simp [Exch.all] at ho
      subst ho; rfl
    · rw [push_all _ _ (fun hl => absurd rfl hl)]
      intro o ho
      simp [Exch.all] at ho
      subst ho; rfl
  · exact ⟨_, List.getElem?_concat_length, rfl, rfl, by intro o ho; simp [Exch.all] at ho, by intro o ho; simp [Exch.all] at ho⟩

theorem inv08_getGo {c : Conn α} (hw : Inv c) (h : Inv08 c) (sid frm : Nat) (ver : Ver) (budget : Option Nat)
    (log : List (Option (Item α))) (hlog : c.store sid = some log) (hfrom : frm ≤ log.length)
    (hnn : ∀ i, frm ≤ i → log[i]? ≠ some none)
    (hnatt : (findStream sid c.streams).bind (·.attached) = none) :
    Inv08 (getGo c sid frm ver budget (toReplay log frm)) := by
  obtain ⟨gs, gst, gn, _, _, _, _, glen, gold, _⟩ := getOpen_frame c sid frm budget
  obtain ⟨e0, ge0, ges, gef, gno, _⟩ := getOpen_new c sid frm budget
  have hw2 := getOpen_inv hw sid frm budget
  obtain ⟨fs, fst, fn, _, _, _, _, fr⟩ := replayLoop_frame (getOpen c sid frm budget) c.exs.length sid frm (toReplay log frm)
  obtain ⟨e', he', hes', hef', hseg', hcnt', hoth'⟩ := replayLoop_seg log sid c.exs.length (toReplay log frm)
    (getOpen c sid frm budget) frm e0 ge0 hw2.ex_ok (by rw [gef]; exact segFrom_noEv _ _ _ gno)
    (by rw [gef, idCount_noEv gno]; rfl) (fun i it hi => toReplay_get log frm hnn i it hi)
  have hw3 := replayLoop_inv hw2 c.exs.length sid frm (toReplay log frm)
  have hsidlt : sid < c.nextSid := hw.store_lt sid (by rw [hlog]; rfl)
  -- every exchange after the replay: an old one, or the new one
  have hexs : ∀ (j : Nat) (e1 : Exch α), (replayLoop (getOpen c sid frm budget) c.exs.length sid frm (toReplay log frm)).1.exs[j]? = some e1 →
      (j < c.exs.length ∧ c.exs[j]? = some e1) ∨ (j = c.exs.length ∧ e1 = e') := by
    intro j e1 h1
    by_cases hj : j = c.exs.length
    · subst hj; rw [he'] at h1; cases h1; exact Or.inr ⟨rfl, rfl⟩
    · rw [hoth' j hj] at h1
      have hlt : j < c.exs.length := by
        by_cases hh : j < c.exs.length
        · exact hh
        · rw [List.getElem?_eq_none (by omega)] at h1; cases h1
      rw [gold j hlt] at h1
      exact Or.inl ⟨hlt, h1⟩
  have hstore : (replayLoop (getOpen c sid frm budget) c.exs.length sid frm (toReplay log frm)).1.store = c.store := fst.trans gst
  have hstreams : (replayLoop (getOpen c sid frm budget) c.exs.length sid frm (toReplay log frm)).1.streams = c.streams := fs.trans gs
  have hnext : (replayLoop (getOpen c sid frm budget) c.exs.length sid frm (toReplay log frm)).1.nextSid = c.nextSid := fn.trans gn
  -- the three common fields for a state whose exchange table is the replayed one up to `ended` flags
  have hbase : ∀ (c' : Conn α), c'.store = c.store → c'.nextSid = c.nextSid →
      (∀ (j : Nat) (e1 : Exch α), c'.exs[j]? = some e1 → ∃ e2, (replayLoop (getOpen c sid frm budget) c.exs.length sid frm (toReplay log frm)).1.exs[j]? = some e2 ∧
          e1.stream = e2.stream ∧ e1.from = e2.from ∧ e1.all = e2.all) →
      (0 < c'.nextSid) ∧
      (∀ (sid' : Nat) (lg : List (Option (Item α))) (i : Nat), c'.store sid' = some lg → lg[i]? = some none → i = 0 ∧ sid' ≠ 0) ∧
      (∀ (j : Nat) (e1 : Exch α), c'.exs[j]? = some e1 → e1.stream < c'.nextSid) ∧
      (∀ (j : Nat) (e1 : Exch α), c'.exs[j]? = some e1 → SegFrom ((c'.store e1.stream).getD []) e1.stream e1.from e1.all) := by
    intro c' hs' hn' hex'
    refine ⟨by rw [hn']; exact h.npos, by rw [hs']; exact h.shape, ?_, ?_⟩
    · intro j e1 h1
      obtain ⟨e2, h2, s2, _, _⟩ := hex' j e1 h1
      rw [hn', s2]
      rcases hexs j e2 h2 with ⟨_, hold⟩ | ⟨_, rfl⟩
      · exact h.ex_lt j e2 hold
      · rw [hes', ges]; exact hsidlt
    · intro j e1 h1
      obtain ⟨e2, h2, s2, f2, a2⟩ := hex' j e1 h1
      rw [hs', s2, f2, a2]
      rcases hexs j e2 h2 with ⟨_, hold⟩ | ⟨_, rfl⟩
      · exact h.seg j e2 hold
      · rw [hes', hef', ges, gef, hlog]; simpa [gef] using hseg'
  -- the finished (not attached) outcome
  have hfin : Inv08 (finish (replayLoop (getOpen c sid frm budget) c.exs.length sid frm (toReplay log frm)).1 c.exs.length) := by
    obtain ⟨b1, b2, b3, b4⟩ := hbase (finish (replayLoop (getOpen c sid frm budget) c.exs.length sid frm (toReplay log frm)).1 c.exs.length)
      hstore hnext (fun j e1 h1 => by
        simp only [finish] at h1
        obtain ⟨e2, h2, s2, f2, a2⟩ := finishX_all _ _ _ _ h1
        exact ⟨e2, h2, s2, f2, a2⟩)
    refine ⟨b1, b2, b3, b4, ?_⟩
    intro s' hs' ex e1 hat hop hj hex
    simp only [finish] at hs' hex ⊢
    rw [hstreams] at hs'
    rw [hstore]
    obtain ⟨e2, h2, _, f2, a2⟩ := finishX_all _ _ _ _ hex
    have hlt := att_lt hw hs' hat
    rcases hexs ex e2 h2 with ⟨_, hold⟩ | ⟨hje, _⟩
    · rw [f2, a2]; exact h.aligned s' hs' ex e2 hat hop hj hold
    · omega
  unfold getGo
  split
  · rename_i hok
    split
    · exact hfin
    · rename_i s hsf
      have hmem := (findStream_some hsf).1
      have hsid' := (findStream_some hsf).2
      have hnone : s.attached = none := by rw [hsf] at hnatt; simpa using hnatt
      split
      · exact hfin
      · -- attach
        have hA : Inv08 ({ (replayLoop (getOpen c sid frm budget) c.exs.length sid frm (toReplay log frm)).1 with
            streams := setStream { s with attached := some c.exs.length, opn := true, next := frm + (toReplay log frm).length, v1125 := ver.ge1125 }
              (replayLoop (getOpen c sid frm budget) c.exs.length sid frm (toReplay log frm)).1.streams } : Conn α) := by
          obtain ⟨b1, b2, b3, b4⟩ := hbase ({ (replayLoop (getOpen c sid frm budget) c.exs.length sid frm (toReplay log frm)).1 with
            streams := setStream { s with attached := some c.exs.length, opn := true, next := frm + (toReplay log frm).length, v1125 := ver.ge1125 }
              (replayLoop (getOpen c sid frm budget) c.exs.length sid frm (toReplay log frm)).1.streams })
            hstore hnext (fun j e1 h1 => ⟨e1, h1, rfl, rfl, rfl⟩)
          refine ⟨b1, b2, b3, b4, ?_⟩
          intro x hx ex e1 hat hop hj hex
          simp only at hx hex ⊢
          rw [hstore]
          rcases mem_setStream hx with rfl | ⟨hxl, _⟩
          · simp only at hat ⊢; cases hat
            rw [he'] at hex; cases hex
            rw [hef', gef, hcnt' hok, idCount_noEv gno, hsid', hlog]
            have := toReplay_length log frm hnn
            simp only [Option.getD_some]
            omega
          · rw [hstreams] at hxl
            have hlt := att_lt hw hxl hat
            rcases hexs ex e1 hex with ⟨_, hold⟩ | ⟨hje, _⟩
            · exact h.aligned x hxl ex e1 hat hop hj hold
            · omega
        unfold attach
        split
        · obtain ⟨e'', he'', hes'', _, _⟩ := fr.2 _ e0 ge0
          have hwA := inv_attach (c := (replayLoop (getOpen c sid frm budget) c.exs.length sid frm (toReplay log frm)).1) (c0 := c)
            hw3 hw hstreams hnext hmem hnone he'' (by rw [hes'', ges, hsid']) (frm + (toReplay log frm).length) ver false
          simp only [attach] at hwA
          exact inv08_cut hwA hA _
        · exact hA
  · exact hfin

theorem inv08_get {c : Conn α} (hw : Inv c) (h : Inv08 c) (hdr : Hdr) (ver : Ver) (budget : Option Nat)
    (hst : c.cfg.hasStore = true) (hsc : InScope c (.get hdr ver budget)) : Inv08 (get c hdr ver budget) := by
  unfold get
  split
  · exact inv08_statusEx hw h _ _ h.npos
  · split
    · exact inv08_statusEx hw h _ _ h.npos
    · split
      · exact inv08_statusEx hw h _ _ h.npos
      · rename_i hnatt
        split
        · exact inv08_statusEx hw h _ _ h.npos
        · rename_i items hitems
          obtain ⟨_, log, hlog, _, rfl⟩ := replayItems_some hst hitems
          · have hfn : hdr.from ≤ log.length ∧ ∀ i, hdr.from ≤ i → log[i]? ≠ some none := by
              cases hdr with
              | none =>
                refine ⟨by simp [Hdr.from], ?_⟩
                intro i _ hi
                exact (h.shape 0 log i hlog hi).2 rfl
              | bad => exact absurd rfl ‹_›
              | ok sid idx =>
                have := hsc log hlog
                refine ⟨by simp [Hdr.from]; omega, ?_⟩
                intro i hi hn
                have := (h.shape sid log i hlog hn).1
                simp [Hdr.from] at hi; omega
            exact inv08_getGo hw h _ _ _ _ log hlog hfn.1 hfn.2 hnatt

/-! ### every label in scope -/

theorem step_cfg (c : Conn α) (l : Label α) : (step c l).cfg = c.cfg := by
  unfold step stepR
  cases l with
  | post calls listen ver budget =>
    simp only [post]
    split
    · rfl
    · split
      · rfl
      · rw [postNew_eq]; split <;> simp [cut, finish, (postPrimed_frame _ _ _ _ _).2.2.2.1]
  | write msg ctx ctxNew =>
    simp only [writeR]
    split
    · rfl
    · split
      · simp
      · split
        · simp
        · simp [writeTo]
  | cut ex => rfl
  | wfail ex => rfl
  | get hdr ver budget =>
    simp only [get]
    split
    · rfl
    · split
      · rfl
      · split
        · rfl
        · split
          · rfl
          · rename_i items _
            have hr := (replayLoop_frame (getOpen c hdr.sid hdr.from budget) c.exs.length hdr.sid hdr.from items).2.2.2.2.2.1
            have hg := (getOpen_frame c hdr.sid hdr.from budget).2.2.2.2.2.1
            simp only [getGo]
            split
            · split
              · simp [finish, hr, hg]
              · split
                · simp [finish, hr, hg]
                · simp only [attach]; split <;> simp [cut, finish, hr, hg]
            · simp [finish, hr, hg]
  | sclose req retry =>
    simp only [sclose]
    split
    · rfl
    · split
      · rfl
      · split
        · split <;> simp [emit]
        · rfl
  | «end» => rfl
  | evict sid n => rfl
  | wroute msg ctx ctxNew =>
    simp only [wrouteR]
    split
    · rfl
    · split
      · simp
      · split <;> simp
  | wdeliver i =>
    simp only [wdeliverR]
    split
    · rfl
    · split
      · simp [writeTo]
      · simp [orphanWrite]

/-! ### pending writes -/

theorem replayLoop_pendW (c : Conn α) (ex sid k : Nat) (items : List (Item α)) :
    (replayLoop c ex sid k items).1.pendW = c.pendW := by
  induction items generalizing c k with
  | nil => rfl
  | cons it rest ih =>
    unfold replayLoop
    split
    · rw [ih]; rfl
    · rfl

/-- labels other than WROUTE / WDELIVER leave the pending writes alone -/
theorem step_pendW_other (c : Conn α) (l : Label α) (h1 : ∀ msg ctx n, l ≠ .wroute msg ctx n) (h2 : ∀ i, l ≠ .wdeliver i) :
    (step c l).pendW = c.pendW := by
  cases l with
  | post calls listen ver budget =>
    show (post c calls listen ver budget).pendW = c.pendW
    unfold post
    split
    · rfl
    · split
      · rfl
      · rw [postNew_eq]
        have : (postPrimed c (dedup calls) listen ver budget).pendW = c.pendW := by unfold postPrimed; split <;> rfl
        split
        · simp [cut, finish, this]
        · exact this
  | write msg ctx ctxNew =>
    show (writeR c msg ctx ctxNew).1.pendW = c.pendW
    unfold writeR
    split
    · rfl
    · split
      · simp
      · split
        · simp
        · simp [writeTo]
  | cut ex => rfl
  | wfail ex => rfl
  | get hdr ver budget =>
    show (get c hdr ver budget).pendW = c.pendW
    have hgo : ∀ sid frm items, (getGo c sid frm ver budget items).pendW = c.pendW := by
      intro sid frm items
      have b1 : (getOpen c sid frm budget).pendW = c.pendW := by unfold getOpen; split <;> rfl
      have b2 := replayLoop_pendW (getOpen c sid frm budget) c.exs.length sid frm items
      unfold getGo
      split
      · split
        · simp [finish, b1, b2]
        · split
          · simp [finish, b1, b2]
          · unfold attach; split <;> simp [cut, finish, b1, b2]
      · simp [finish, b1, b2]
    unfold get
    split
    · rfl
    · split
      · rfl
      · split
        · rfl
        · split
          · rfl
          · exact hgo _ _ _
  | sclose req retry =>
    show (sclose c req retry).pendW = c.pendW
    unfold sclose
    split
    · rfl
    · split
      · rfl
      · split
        · split <;> rfl
        · rfl
  | «end» => rfl
  | evict sid n => rfl
  | wroute msg ctx ctxNew => exact absurd rfl (h1 _ _ _)
  | wdeliver i => exact absurd rfl (h2 _)

/-- after a step the pending writes are old ones, or the one the step just routed -/
theorem step_pendW (c : Conn α) (l : Label α) : ∀ pw ∈ (step c l).pendW,
    pw ∈ c.pendW ∨ ∃ msg ctx ctxNew s, l = .wroute msg ctx ctxNew ∧ route c msg ctx = some s ∧ pw = ⟨msg, ctx, ctxNew, s.id⟩ := by
  intro pw hp
  by_cases h1 : ∀ msg ctx n, l ≠ .wroute msg ctx n
  · by_cases h2 : ∀ i, l ≠ .wdeliver i
    · rw [step_pendW_other c l h1 h2] at hp; exact Or.inl hp
    · cases l with
      | wdeliver i =>
        have hp' : pw ∈ (wdeliverR c i).1.pendW := hp
        unfold wdeliverR at hp'
        split at hp'
        · exact Or.inl hp'
        · split at hp'
          · simp [writeTo] at hp'; exact Or.inl (List.mem_of_mem_eraseIdx hp')
          · simp [orphanWrite] at hp'; exact Or.inl (List.mem_of_mem_eraseIdx hp')
      | post _ _ _ _ => exact absurd (by intros; simp) h2
      | write _ _ _ => exact absurd (by intros; simp) h2
      | cut _ => exact absurd (by intros; simp) h2
      | wfail _ => exact absurd (by intros; simp) h2
      | get _ _ _ => exact absurd (by intros; simp) h2
      | sclose _ _ => exact absurd (by intros; simp) h2
      | «end» => exact absurd (by intros; simp) h2
      | evict _ _ => exact absurd (by intros; simp) h2
      | wroute _ _ _ => exact absurd (by intros; simp) h2
  · cases l with
    | wroute msg ctx ctxNew =>
      have hp' : pw ∈ (wrouteR c msg ctx ctxNew).1.pendW := hp
      unfold wrouteR at hp'
      split at hp'
      · exact Or.inl hp'
      · split at hp'
        · simp at hp'; exact Or.inl hp'
        · rename_i s hs
          split at hp'
          · simp at hp'; exact Or.inl hp'
          · simp only [eraseResp_pendW] at hp'
            rcases List.mem_append.mp hp' with h | h
            · exact Or.inl h
            · simp at h; exact Or.inr ⟨msg, ctx, ctxNew, s, rfl, hs, h⟩
    | post _ _ _ _ => exact absurd (by intros; simp) h1
    | write _ _ _ => exact absurd (by intros; simp) h1
    | cut _ => exact absurd (by intros; simp) h1
    | wfail _ => exact absurd (by intros; simp) h1
    | get _ _ _ => exact absurd (by intros; simp) h1
    | sclose _ _ => exact absurd (by intros; simp) h1
    | «end» => exact absurd (by intros; simp) h1
    | evict _ _ => exact absurd (by intros; simp) h1
    | wdeliver _ => exact absurd (by intros; simp) h1

/-- pending writes in the scope of C08: issued with a context before 2026-07-28 -/
def PendScope (c : Conn α) : Prop := ∀ pw ∈ c.pendW, pw.ctxNew = false

theorem pendScope_init (cfg : Cfg) : PendScope (init cfg : Conn α) := by intro pw h; simp [init] at h

theorem pendScope_step {c : Conn α} (h : PendScope c) (l : Label α) (hsc : InScope c l) : PendScope (step c l) := by
  intro pw hp
  rcases step_pendW c l pw hp with h0 | ⟨msg, ctx, ctxNew, s, rfl, _, rfl⟩
  · exact h pw h0
  · exact hsc

/-- the delivery section on a deleted stream object: the message only goes to the log -/
theorem inv08_orphan {c : Conn α} (hw : Inv c) (h : Inv08 c) (pw : PendW α) (hnone : findStream pw.sid c.streams = none) :
    Inv08 (orphanWrite c pw).1 := by
  have hle : LogLE c.store (orphanWrite c pw).1.store := by
    simp only [orphanWrite]; split
    · exact logLE_appendLog _ _ _
    · exact LogLE.refl _
  have hpre : ∀ sid, ∃ more, ((orphanWrite c pw).1.store sid).getD [] = (c.store sid).getD [] ++ more := by
    intro sid
    cases hl : c.store sid with
    | none => exact ⟨((orphanWrite c pw).1.store sid).getD [], by simp⟩
    | some log => obtain ⟨more, hm⟩ := hle sid log hl; exact ⟨more, by simp [hm]⟩
  refine ⟨h.npos, ?_, h.ex_lt, ?_, ?_⟩
  · intro sid log i hl hi
    simp only [orphanWrite] at hl
    split at hl
    · by_cases hk : sid = pw.sid
      · subst hk
        simp only [appendLog_same, Option.some.injEq] at hl
        subst hl
        by_cases hlt : i < ((c.store pw.sid).getD []).length
        · rw [List.getElem?_append_left hlt] at hi
          cases hc : c.store pw.sid with
          | none => rw [hc] at hlt; simp at hlt
          | some l0 => rw [hc] at hi; exact h.shape pw.sid l0 i hc (by simpa using hi)
        · rw [List.getElem?_append_right (by omega)] at hi
          have : i - ((c.store pw.sid).getD []).length = 0 := by
            by_cases h0 : i - ((c.store pw.sid).getD []).length = 0
            · exact h0
            · rw [List.getElem?_eq_none (by simp; omega)] at hi; cases hi
          rw [this] at hi; simp at hi
      · rw [appendLog_other _ _ _ _ hk] at hl; exact h.shape sid log i hl hi
    · exact h.shape sid log i hl hi
  · intro j e he
    exact segFrom_mono (hpre e.stream) _ _ _ (h.seg j e he)
  · intro s hs ex e hat hop hj hex
    obtain ⟨h1, h2⟩ := h.aligned s hs ex e hat hop hj hex
    refine ⟨h1, ?_⟩
    have hne : s.id ≠ pw.sid := by
      intro he
      have := findStream_of_mem hw.nodup hs
      rw [he, hnone] at this; cases this
    simp only [orphanWrite]
    split
    · rw [appendLog_other _ _ _ _ hne]; exact h2
    · exact h2

theorem inv08_pendW {c : Conn α} (h : Inv08 c) (l : List (PendW α)) : Inv08 ({ c with pendW := l } : Conn α) :=
  ⟨h.npos, h.shape, h.ex_lt, h.seg, h.aligned⟩

theorem inv08_wroute {c : Conn α} (hw : Inv c) (h : Inv08 c) (msg : Msg α) (ctx : Option Nat) (ctxNew : Bool) :
    Inv08 (wrouteR c msg ctx ctxNew).1 := by
  have herase : Inv08 (eraseResp c msg) :=
    inv08_frame (c' := eraseResp c msg) hw h (by simp) (by simp) (by simp; exact ExSame.refl _) (by simp; exact StrSame.refl _)
      (fun j e' he' hn => by simp at he'; rw [he'] at hn; cases hn)
  unfold wrouteR
  split
  · exact h
  · split
    · exact herase
    · split
      · exact herase
      · exact inv08_pendW herase _

theorem inv08_wdeliver {c : Conn α} (hw : Inv c) (h : Inv08 c) (hst : c.cfg.hasStore = true) (hps : PendScope c) (i : Nat) :
    Inv08 (wdeliverR c i).1 := by
  unfold wdeliverR
  split
  · exact h
  · rename_i pw hpw
    have hmem : pw ∈ c.pendW := List.mem_of_getElem? hpw
    have hnew := hps pw hmem
    have hw1 : Inv ({ c with pendW := c.pendW.eraseIdx i } : Conn α) :=
      inv_pendW hw _ (fun x hx => hw.pend_lt x (mem_eraseIdx hx))
    have h1 : Inv08 ({ c with pendW := c.pendW.eraseIdx i } : Conn α) := inv08_pendW h _
    split
    · rename_i s hs
      rw [hnew]
      exact inv08_writeTo hw1 h1 (findStream_some hs).1 _ _ hst
    · rename_i hs
      exact inv08_orphan hw1 h1 pw hs

theorem inv08_step {c : Conn α} (hw : Inv c) (h : Inv08 c) (hst : c.cfg.hasStore = true) (l : Label α)
    (hsc : InScope c l) (hps : PendScope c) : Inv08 (step c l) := by
  unfold step stepR
  cases l with
  | post calls listen ver budget => exact inv08_post hw h _ _ _ _ hst hsc
  | write msg ctx ctxNew =>
    simp only [InScope] at hsc; subst hsc
    exact inv08_write hw h _ _ hst
  | cut ex => exact inv08_cut hw h _
  | wfail ex => exact inv08_wfail hw h _
  | get hdr ver budget => exact inv08_get hw h _ _ _ hst hsc
  | sclose req retry => exact inv08_sclose hw h _ _
  | «end» => exact ⟨h.npos, h.shape, h.ex_lt, h.seg, h.aligned⟩
  | evict sid n => exact ⟨h.npos, h.shape, h.ex_lt, h.seg, h.aligned⟩
  | wroute msg ctx ctxNew => exact inv08_wroute hw h _ _ _
  | wdeliver i => exact inv08_wdeliver hw h hst hps i

theorem inv08_run (cfg : Cfg) (hst : cfg.hasStore = true) (ls : List (Label α)) (hsc : InScopeRun (init cfg) ls) :
    Inv08 (run (init cfg) ls) := by
  suffices ∀ c : Conn α, Inv c → Inv08 c → PendScope c → c.cfg.hasStore = true → InScopeRun c ls → Inv08 (run c ls) from
    this _ (inv_init cfg) (inv08_init cfg) (pendScope_init cfg) hst hsc
  clear hsc
  induction ls with
  | nil => intro c _ h _ _ _; exact h
  | cons l t ih =>
    intro c hw h hps hs hsc
    exact ih (step c l) (inv_step hw l) (inv08_step hw h hs l hsc.1 hps) (pendScope_step hps l hsc.1) (by rw [step_cfg]; exact hs) hsc.2

end Resume
