import McpModel.Resume.Bridge08
/-!
E5 — the record-level facts (`RecFacts`) hold for every single label: one record per label.
The only non-structural one: a GET whose replay lost no event delivered every stored entry after the
resume point (`get_resume_complete`).
-/
namespace Resume
open Mon
variable {α : Type}

/-! ### labels that open no exchange -/

theorem step_exs_length_other (c : Conn α) (l : Label α) (hl : l.opens = false) : (step c l).exs.length = c.exs.length := by
  cases l with
  | post _ _ _ _ => cases hl
  | get _ _ _ => cases hl
  | write msg ctx ctxNew =>
    show (writeR c msg ctx ctxNew).1.exs.length = c.exs.length
    unfold writeR
    split
    · rfl
    · split
      · simp
      · split
        · simp
        · simp only [writeTo, wDeliver]
          rw [(deliver_exRel _ _ _ _ _ _).1]; simp
  | cut ex => simp [step, stepR, cut, finish, finishX]
  | wfail ex => simp [step, stepR, wfail]
  | sclose req retry =>
    show (sclose c req retry).exs.length = c.exs.length
    unfold sclose
    split
    · rfl
    · split
      · rfl
      · split
        · split <;> simp [emit]
        · rfl
  | «end» => rfl
  | evict _ _ => rfl
  | wroute msg ctx ctxNew =>
    show (wrouteR c msg ctx ctxNew).1.exs.length = c.exs.length
    unfold wrouteR
    split
    · rfl
    · split
      · simp
      · split <;> simp
  | wdeliver i =>
    show (wdeliverR c i).1.exs.length = c.exs.length
    unfold wdeliverR
    split
    · rfl
    · split
      · simp only [writeTo, wDeliver]
        rw [(deliver_exRel _ _ _ _ _ _).1]
      · simp [orphanWrite]

/-! ### POST -/

theorem post_new (c : Conn α) (calls : List Nat) (listen : Bool) (ver : Ver) (budget : Option Nat) :
    (post c calls listen ver budget).exs.length = c.exs.length + 1 ∧
    ∀ e, (post c calls listen ver budget).exs[c.exs.length]? = some e → e.from = 0 := by
  unfold post
  split
  · exact ⟨by simp [statusEx], fun e he => by simp [statusEx] at he; subst he; rfl⟩
  · split
    · exact ⟨by simp [postDup, statusEx], fun e he => by simp [postDup, statusEx] at he; subst he; rfl⟩
    · have hp : (postPrimed c (dedup calls) listen ver budget).exs.length = c.exs.length + 1 := by
        unfold postPrimed; split <;> simp [emit, register]
      have hpe : ∀ e, (postPrimed c (dedup calls) listen ver budget).exs[c.exs.length]? = some e → e.from = 0 := by
        intro e he
        rcases postPrimed_exs c _ listen ver budget _ e he with ⟨hlt, _⟩ | ⟨_, _, hf, _⟩
        · omega
        · exact hf
      rw [postNew_eq]
      split
      · refine ⟨by simp [cut, finish, finishX, hp], ?_⟩
        intro e he
        simp only [cut, finish] at he
        obtain ⟨e0, h0, _, _, _, hf, _⟩ := finishX_get _ _ _ _ he
        rw [hf]; exact hpe e0 h0
      · exact ⟨hp, hpe⟩

/-! ### GET -/

/-- exchange tables that differ in `ended` flags only -/
def SameX (exs exs' : List (Exch α)) : Prop :=
  exs'.length = exs.length ∧
  ∀ (j : Nat) (e' : Exch α), exs'[j]? = some e' → ∃ e, exs[j]? = some e ∧ e'.out = e.out ∧ e'.lost = e.lost ∧
    e'.stream = e.stream ∧ e'.from = e.from ∧ e'.kind = e.kind

theorem SameX.refl (exs : List (Exch α)) : SameX exs exs := ⟨rfl, fun _ e' h => ⟨e', h, rfl, rfl, rfl, rfl, rfl⟩⟩

theorem sameX_finishX (exs : List (Exch α)) (ex : Nat) : SameX exs (finishX exs ex) := by
  refine ⟨by simp [finishX], ?_⟩
  intro j e' h
  obtain ⟨e0, h0, a, b, c, d, _, k⟩ := finishX_get _ _ _ _ h
  exact ⟨e0, h0, a, b, c, d, k⟩

theorem getGo_sameX (c : Conn α) (sid frm : Nat) (ver : Ver) (budget : Option Nat) (items : List (Item α)) :
    SameX (replayLoop (getOpen c sid frm budget) c.exs.length sid frm items).1.exs (getGo c sid frm ver budget items).exs := by
  unfold getGo
  split
  · split
    · exact sameX_finishX _ _
    · split
      · exact sameX_finishX _ _
      · unfold attach
        split
        · exact sameX_finishX _ _
        · exact SameX.refl _
  · exact sameX_finishX _ _

/-- a replay that lost no id-carrying event ran to completion and delivered every item -/
theorem replayLoop_complete (sid ex : Nat) : ∀ (items : List (Item α)) (c : Conn α) (k : Nat) (e : Exch α),
    c.exs[ex]? = some e →
    ∃ e', (replayLoop c ex sid k items).1.exs[ex]? = some e' ∧ e'.kind = e.kind ∧ e'.stream = e.stream ∧ e'.from = e.from ∧
      (idCount e'.lost = idCount e.lost → idCount e'.out = idCount e.out + items.length) := by
  intro items
  induction items with
  | nil => intro c k e he; exact ⟨e, he, rfl, rfl, rfl, fun _ => by simp⟩
  | cons it rest ih =>
    intro c k e he
    have he1 : (emit c ex (.message (some (sid, k)) it)).1.exs[ex]? = some (e.push (.message (some (sid, k)) it)).1 := by
      simp only [emit]; exact (emitX_eq _ _ _ _ he).1
    have h2 : (emit c ex (.message (some (sid, k)) it)).2 = (e.push (.message (some (sid, k)) it)).2 := by
      simp only [emit]; exact (emitX_eq _ _ _ _ he).2
    unfold replayLoop
    split
    · rename_i hok
      rw [h2] at hok
      obtain ⟨po, pl⟩ := push_true e _ hok
      obtain ⟨e', he', hk', hs', hf', hc'⟩ := ih _ (k + 1) _ he1
      refine ⟨e', he', by rw [hk', push_kind], by rw [hs', push_stream], by rw [hf', push_from], ?_⟩
      intro hl
      rw [pl] at hc'
      rw [hc' hl, po, idCount_append]
      simp [idCount, Out.isEv]; omega
    · rename_i hbad
      rw [h2] at hbad
      refine ⟨_, he1, push_kind _ _, push_stream _ _, push_from _ _, ?_⟩
      intro hl
      exfalso
      have : (e.push (.message (some (sid, k)) it)).1.lost = e.lost ++ [.message (some (sid, k)) it] := by
        unfold Exch.push at hbad ⊢
        split <;> simp_all
      rw [this, idCount_append] at hl
      simp [idCount, Out.isEv] at hl

theorem getOpen_new_counts (c : Conn α) (sid frm : Nat) (budget : Option Nat) :
    ∃ e, (getOpen c sid frm budget).exs[c.exs.length]? = some e ∧ e.stream = sid ∧ e.from = frm ∧ e.kind = .sse ∧
      idCount e.out = 0 ∧ idCount e.lost = 0 := by
  obtain ⟨e, he, hs, hf, hno, _⟩ := getOpen_new c sid frm budget
  have hk : e.kind = .sse := by
    unfold getOpen at he
    split at he
    · simp only [emit] at he
      rw [(emitX_eq _ _ _ _ List.getElem?_concat_length).1] at he
      cases he; simp
    · rw [List.getElem?_concat_length] at he; cases he; rfl
  have h1 : NoEv e.out := fun o ho => hno o (by unfold Exch.all; exact List.mem_append_left _ ho)
  have h2 : NoEv e.lost := fun o ho => hno o (by unfold Exch.all; exact List.mem_append_right _ ho)
  exact ⟨e, he, hs, hf, hk, idCount_noEv h1, idCount_noEv h2⟩

/-- the new exchange of a GET that reaches the replay -/
theorem getGo_new (c : Conn α) (sid frm : Nat) (ver : Ver) (budget : Option Nat) (items : List (Item α)) :
    (getGo c sid frm ver budget items).exs.length = c.exs.length + 1 ∧
    ∀ e, (getGo c sid frm ver budget items).exs[c.exs.length]? = some e →
      e.stream = sid ∧ e.from = frm ∧ e.kind = .sse ∧ (idCount e.lost = 0 → idCount e.out = items.length) := by
  obtain ⟨e0, he0, hs0, hf0, hk0, ho0, hl0⟩ := getOpen_new_counts c sid frm budget
  obtain ⟨e1, he1, hk1, hs1, hf1, hc1⟩ := replayLoop_complete sid c.exs.length items (getOpen c sid frm budget) frm e0 he0
  have hsame := getGo_sameX c sid frm ver budget items
  have hlen1 : (replayLoop (getOpen c sid frm budget) c.exs.length sid frm items).1.exs.length = c.exs.length + 1 := by
    rw [(replayLoop_frame (getOpen c sid frm budget) c.exs.length sid frm items).2.2.2.2.2.2.2.1]
    exact (getOpen_frame c sid frm budget).2.2.2.2.2.2.2.1
  refine ⟨by rw [hsame.1, hlen1], ?_⟩
  intro e he
  obtain ⟨e2, he2, a, b, s2, f2, k2⟩ := hsame.2 _ e he
  rw [he1] at he2; cases he2
  refine ⟨by rw [s2, hs1, hs0], by rw [f2, hf1, hf0], by rw [k2, hk1, hk0], ?_⟩
  intro hl
  rw [b] at hl
  rw [a, hc1 (by rw [hl, hl0]), ho0]; simp

theorem get_new {c : Conn α} (hw : Inv c) (h8 : Inv08 c) (hst : c.cfg.hasStore = true) (hdr : Hdr) (ver : Ver) (budget : Option Nat)
    (hsc : InScope c (.get hdr ver budget)) :
    (get c hdr ver budget).exs.length = c.exs.length + 1 ∧ (get c hdr ver budget).store = c.store ∧
    ∀ e, (get c hdr ver budget).exs[c.exs.length]? = some e → e.live →
      e.stream = hdr.sid ∧ e.from = hdr.from ∧ ¬ hdr.from < c.purged hdr.sid ∧
      (idCount e.lost = 0 → e.from ≤ ((c.store e.stream).getD []).length →
        e.from + idCount e.out = ((c.store e.stream).getD []).length) := by
  have hstatus : ∀ code, (statusEx c code).exs.length = c.exs.length + 1 ∧ (statusEx c code).store = c.store ∧
      ∀ e, (statusEx c code).exs[c.exs.length]? = some e → e.live →
        e.stream = hdr.sid ∧ e.from = hdr.from ∧ ¬ hdr.from < c.purged hdr.sid ∧
        (idCount e.lost = 0 → e.from ≤ ((c.store e.stream).getD []).length →
          e.from + idCount e.out = ((c.store e.stream).getD []).length) := by
    intro code
    refine ⟨by simp [statusEx], rfl, ?_⟩
    intro e he hl
    simp [statusEx] at he; subst he
    rcases hl with h | h <;> cases h
  unfold get
  split
  · exact hstatus _
  · split
    · exact hstatus _
    · split
      · exact hstatus _
      · split
        · exact hstatus _
        · rename_i items hitems
          obtain ⟨_, log, hlog, hnp, rfl⟩ := replayItems_some hst hitems
          · have hnn : ∀ i, hdr.from ≤ i → log[i]? ≠ some none := by
              cases hdr with
              | none =>
                intro i _ hi
                exact (h8.shape 0 log i hlog hi).2 rfl
              | bad => exact absurd rfl ‹_›
              | ok sid idx =>
                intro i hi hn
                have := (h8.shape sid log i hlog hn).1
                simp [Hdr.from] at hi; omega
            obtain ⟨hlen, hnew⟩ := getGo_new c hdr.sid hdr.from ver budget (toReplay log hdr.from)
            have hstore : (getGo c hdr.sid hdr.from ver budget (toReplay log hdr.from)).store = c.store := by
              have h1 := (getOpen_frame c hdr.sid hdr.from budget).2.1
              have h2 := (replayLoop_frame (getOpen c hdr.sid hdr.from budget) c.exs.length hdr.sid hdr.from (toReplay log hdr.from)).2.1
              unfold getGo
              split
              · split
                · simp [finish, h1, h2]
                · split
                  · simp [finish, h1, h2]
                  · unfold attach; split <;> simp [cut, finish, h1, h2]
              · simp [finish, h1, h2]
            refine ⟨hlen, hstore, ?_⟩
            intro e he _
            obtain ⟨hs, hf, _, hc⟩ := hnew e he
            refine ⟨hs, hf, hnp, ?_⟩
            intro hl hle
            rw [hs, hlog] at hle ⊢
            simp only [Option.getD_some] at hle ⊢
            rw [hc hl, toReplay_length log hdr.from hnn, hf]
            rw [hf] at hle
            omega

/-! ### every label -/

theorem obsHdr_from (hdr : Hdr) (b : Bool) : (Origin.get (obsHdr hdr) b).from = hdr.from := by
  cases hdr <;> rfl

theorem obsHdr_stream (hdr : Hdr) (b : Bool) (t : Nat) (h : (Origin.get (obsHdr hdr) b).stream = some t) : t = hdr.sid := by
  cases hdr with
  | none => simp [obsHdr, Origin.stream] at h; exact h.symm
  | bad => simp [obsHdr, Origin.stream] at h
  | ok s i => simp [obsHdr, Origin.stream] at h; exact h.symm

/-- labels in the scope of the C08 *monitor*: those of `InScope`, and a GET carries a protocol version before
2026-07-28 (the harness never sends another one on a GET; a newer one puts the exchange outside C08) -/
def ObsScope (c : Conn α) (l : Label α) : Prop :=
  InScope c l ∧ match l with
    | .get _ ver _ => ver.isNew = false
    | _ => True

theorem recFacts_step {c : Conn α} (hw : Inv c) (h8 : Inv08 c) (hst : c.cfg.hasStore = true) (l : Label α)
    (hsc : ObsScope c l) : RecFacts (originOfLabel l) c (step c l) := by
  by_cases hop : l.opens = false
  · have hlen := step_exs_length_other c l hop
    have hnone : (step c l).exs[c.exs.length]? = none := List.getElem?_eq_none (by omega)
    have hog : originOfLabel l = .other := by
      cases l <;> first | rfl | cases hop
    rw [hog]
    exact ⟨by omega, rfl, fun e he _ => (by rw [hnone] at he; cases he), fun h => (by cases h), fun h => (by cases h)⟩
  · cases l with
    | post calls listen ver budget =>
      obtain ⟨hlen, hnew⟩ := post_new c calls listen ver budget
      refine ⟨by show (post c calls listen ver budget).exs.length ≤ _; omega, hsc.1, ?_, fun h => (by cases h), fun h => (by cases h)⟩
      intro e he _
      exact ⟨hnew e he, fun t ht => by cases ht⟩
    | get hdr ver budget =>
      obtain ⟨hlen, hstore, hnew⟩ := get_new hw h8 hst hdr ver budget hsc.1
      refine ⟨by show (get c hdr ver budget).exs.length ≤ _; omega, hsc.2, ?_, ?_, ?_⟩
      · intro e he hl
        obtain ⟨hs, hf, _⟩ := hnew e he hl
        exact ⟨by rw [hf]; exact (obsHdr_from hdr _).symm, fun t ht => by rw [hs]; exact obsHdr_stream hdr _ t ht⟩
      · intro _ e he hk hl hle
        have hstore' : (step c (.get hdr ver budget)).store = c.store := hstore
        rw [hstore'] at hle ⊢
        exact (hnew e he (Or.inl hk)).2.2.2 hl hle
      · intro _ e he hk t ht
        have hnp := (hnew e he (Or.inl hk)).2.2.1
        show ¬ (Origin.get (obsHdr hdr) ver.isNew).from < c.purged t
        rw [obsHdr_from]
        have := obsHdr_stream hdr _ t ht
        rw [this]; exact hnp
    | write _ _ _ => exact absurd rfl hop
    | cut _ => exact absurd rfl hop
    | wfail _ => exact absurd rfl hop
    | sclose _ _ => exact absurd rfl hop
    | «end» => exact absurd rfl hop
    | evict _ _ => exact absurd rfl hop
    | wroute _ _ _ => exact absurd rfl hop
    | wdeliver _ => exact absurd rfl hop

end Resume
