import McpModel.Resume.RecStep
import McpModel.Resume.Props
/-!
# C08 with an evicting event store

The store may drop a prefix of any stream's log at any time (label `EVICT`; `MemoryEventStore.purge` does so on
`Append` / `SetMaxBytes`).  `store` stays the full append log — the ground truth — and `purged` records how much
of it the store has forgotten.  All C08 theorems hold for label lists with evictions (they are in scope).
`resume_after_purge_reports_not_silently_skips`: a resume is answered with the exact rest of the log, or with an
error — never with a stream that silently starts later.
-/
namespace Resume
variable {α : Type}

/-- **C08 (a resume never silently skips evicted messages).**  In any reachable state of any in-scope label list
(evictions included), a GET with a previously issued `Last-Event-ID = (sid, idx)` on an open session, for a stream
nobody is attached to, on a healthy connection, is answered
* with **an error** — status 400, nothing written, no stream touched — exactly when the store has evicted the
  entry right after the resume point (`idx + 1 < purged sid`), or
* with a `text/event-stream` that is delivered **exactly** `log[idx+1 …]`: every entry after the resume point, each
  once, in order, with its log position as id.
There is no third outcome: the client is never handed a stream that skips what was evicted. -/
theorem resume_after_purge_reports_not_silently_skips (cfg : Cfg) (hst : cfg.hasStore = true) (ls : List (Label α))
    (hsc : InScopeRun (init cfg) ls) (sid idx : Nat) (ver : Ver) (log : List (Option (Item α)))
    (hlog : (run (init cfg) ls).store sid = some log) (hidx : idx < log.length)
    (hdone : (run (init cfg) ls).isDone = false)
    (hfree : (findStream sid (run (init cfg) ls).streams).bind (·.attached) = none) :
    ∃ e, (get (run (init cfg) ls) (.ok sid idx) ver none).exs[(run (init cfg) ls).exs.length]? = some e ∧
      ((idx + 1 < (run (init cfg) ls).purged sid ∧ e.kind = .status 400 ∧ e.all = [] ∧
          (get (run (init cfg) ls) (.ok sid idx) ver none).streams = (run (init cfg) ls).streams) ∨
       ((run (init cfg) ls).purged sid ≤ idx + 1 ∧ e.kind = .sse ∧ e.stream = sid ∧ e.from = idx + 1 ∧ e.lost = [] ∧
          (events e.out).length = log.length - (idx + 1) ∧
          ∀ (k : Nat) (o : Out α), (events e.out)[k]? = some o →
            ∃ x, log[idx + 1 + k]? = some x ∧ o = evOf sid (idx + 1 + k) x)) := by
  by_cases hp : idx + 1 < (run (init cfg) ls).purged sid
  · -- evicted: `After` fails, the GET is answered 400
    generalize hc : run (init cfg) ls = c at *
    have hcs : c.cfg.hasStore = true := by rw [← hc, run_cfg]; exact hst
    have hget : get c (.ok sid idx) ver none = statusEx c 400 := by
      unfold get
      rw [if_neg (by intro h; cases h)]
      simp only [Hdr.has, Hdr.sid, Hdr.from, hcs, Bool.not_true, Bool.and_false]
      rw [hfree]
      simp [replayItems, hcs, hdone, hlog, hp]
    rw [hget]
    refine ⟨{ kind := .status 400, ended := true, stream := 0 }, by simp [statusEx], Or.inl ⟨hp, rfl, rfl, rfl⟩⟩
  · have hnp : (run (init cfg) ls).purged sid ≤ idx + 1 := by omega
    obtain ⟨e, he, hs, hf, hl, hlen, hpt⟩ := writes_while_detached_are_replayed cfg hst ls hsc sid idx ver log hlog hidx hdone hnp hfree
    refine ⟨e, he, Or.inr ⟨hnp, ?_, hs, hf, hl, hlen, hpt⟩⟩
    -- the exchange is an event stream
    generalize hc : run (init cfg) ls = c at *
    have hcs : c.cfg.hasStore = true := by rw [← hc, run_cfg]; exact hst
    have hget : get c (.ok sid idx) ver none = getGo c sid (idx + 1) ver none (toReplay log (idx + 1)) := by
      unfold get
      rw [if_neg (by intro h; cases h)]
      simp only [Hdr.has, Hdr.sid, Hdr.from, hcs, Bool.not_true, Bool.and_false]
      rw [hfree]
      have hnp' : ¬ idx + 1 < c.purged sid := by omega
      simp [replayItems, hcs, hdone, hlog, hnp']
    rw [hget] at he
    exact ((getGo_new c sid (idx + 1) ver none (toReplay log (idx + 1))).2 e he).2.2.1

/-- … and on every reachable state, evictions or not, what an exchange was ever sent is a gap-free segment of the
full log (`exchange_output_is_log_segment` applies: `EVICT` is in scope) — e.g. after any number of evictions: -/
example (cfg : Cfg) (hst : cfg.hasStore = true) (ls : List (Label α)) (hsc : InScopeRun (init cfg) ls) (sid n : Nat) :
    InScopeRun (init cfg) (ls ++ [.evict sid n]) := by
  have : ∀ (l : List (Label α)) (c : Conn α), InScopeRun c l → InScopeRun c (l ++ [.evict sid n]) := by
    intro l
    induction l with
    | nil => intro c _; exact ⟨trivial, trivial⟩
    | cons a t ih => intro c h; exact ⟨h.1, ih _ h.2⟩
  exact this ls _ hsc

end Resume
