import McpModel.Resume.Purge
/-!
# C08 inside the window between `Write`'s two critical sections

`Write` routes under `c.mu`, releases it, and only then takes the stream's lock to append and deliver.  In
between, a resume may attach to the very stream the write was routed to.  `routed_then_resumed_exactly_once`:
the resume replays exactly what is in the log (the routed message is not there yet), attaches, and the
delivery section then appends the message at the next index and delivers it on the *new* exchange with that
index as id — the client receives it exactly once, after everything before it, with no gap.
(The general statements `exchange_output_is_log_segment`, `attached_exchange_complete` hold on every state of
every schedule of the split labels anyway; this is the window spelled out.)
-/
namespace Resume
variable {α : Type}

theorem run_append (c : Conn α) (l₁ l₂ : List (Label α)) : run c (l₁ ++ l₂) = run (run c l₁) l₂ := by
  simp [run, List.foldl_append]

theorem inScopeRun_append {c : Conn α} {l₁ l₂ : List (Label α)} (h₁ : InScopeRun c l₁) (h₂ : InScopeRun (run c l₁) l₂) :
    InScopeRun c (l₁ ++ l₂) := by
  induction l₁ generalizing c with
  | nil => exact h₂
  | cons a t ih => exact ⟨h₁.1, ih h₁.2 (by simpa [run] using h₂)⟩

theorem pendScope_run (cfg : Cfg) (ls : List (Label α)) (hsc : InScopeRun (init cfg) ls) : PendScope (run (init cfg) ls) := by
  suffices ∀ c : Conn α, PendScope c → InScopeRun c ls → PendScope (run c ls) from this _ (pendScope_init cfg) hsc
  clear hsc
  induction ls with
  | nil => intro c h _; exact h
  | cons l t ih => intro c h hsc; exact ih (step c l) (pendScope_step h l hsc.1) hsc.2

/-- the resume of a live, unattached stream on a healthy connection, spelled out: everything after the resume point is
replayed on the new exchange (never failing), then the stream is attached to it -/
theorem get_attach_explicit {c : Conn α} (hst : c.cfg.hasStore = true) (hdone : c.isDone = false) {sid idx : Nat} (ver : Ver)
    {log : List (Option (Item α))} (hlog : c.store sid = some log) (hnp : ¬ idx + 1 < c.purged sid)
    {s : Stream α} (hfs : findStream sid c.streams = some s) (hun : s.attached = none) (hreq : s.requests ≠ [] ∨ s.id = 0) :
    ∃ (c0 : Conn α) (e0 : Exch α), c0.exs[c.exs.length]? = some e0 ∧ e0.budget = none ∧ e0.lost = [] ∧ e0.stream = sid ∧
      e0.from = idx + 1 ∧ c0.streams = c.streams ∧ c0.store = c.store ∧ c0.pendW = c.pendW ∧ c0.cfg = c.cfg ∧
      get c (.ok sid idx) ver none =
        { c0 with streams := setStream { s with attached := some c.exs.length, opn := true,
                                                next := idx + 1 + (toReplay log (idx + 1)).length, v1125 := ver.ge1125 } c0.streams } := by
  have hget : get c (.ok sid idx) ver none = getGo c sid (idx + 1) ver none (toReplay log (idx + 1)) := by
    unfold get
    rw [if_neg (by intro h; cases h)]
    simp only [Hdr.has, Hdr.sid, Hdr.from, hst, Bool.not_true, Bool.and_false]
    rw [hfs]
    simp [hun, replayItems, hst, hdone, hlog, hnp]
  obtain ⟨gs, gst, _, _, _, gc, _, _, _, eg, hge, hges, hgef⟩ := getOpen_frame c sid (idx + 1) none
  obtain ⟨fs, fst, _, _, _, fc, _, fr⟩ := replayLoop_frame (getOpen c sid (idx + 1) none) c.exs.length sid (idx + 1) (toReplay log (idx + 1))
  have gp : (getOpen c sid (idx + 1) none).pendW = c.pendW := by unfold getOpen; split <;> rfl
  have fp := replayLoop_pendW (getOpen c sid (idx + 1) none) c.exs.length sid (idx + 1) (toReplay log (idx + 1))
  have hb0 : eg.budget = none ∧ eg.lost = [] := by
    have : (getOpen c sid (idx + 1) none).exs[c.exs.length]? = some eg := hge
    unfold getOpen at this
    split at this
    · simp only [emit] at this
      rw [(emitX_eq _ _ _ _ List.getElem?_concat_length).1] at this
      cases this
      exact ⟨(push_healthy _ _ rfl rfl).2.1, (push_healthy _ _ rfl rfl).2.2⟩
    · rw [List.getElem?_concat_length] at this; cases this; exact ⟨rfl, rfl⟩
  obtain ⟨hok, e0, he0, hb, hl⟩ := replayLoop_healthy sid c.exs.length (toReplay log (idx + 1)) (getOpen c sid (idx + 1) none)
    (idx + 1) eg hge hb0.1 hb0.2
  obtain ⟨e0', he0', hs0, hf0, _⟩ := fr.2 _ eg hge
  rw [he0] at he0'; cases he0'
  refine ⟨_, e0, he0, hb, hl, by rw [hs0, hges], by rw [hf0, hgef], fs.trans gs, fst.trans gst, fp.trans gp, fc.trans gc, ?_⟩
  rw [hget]
  unfold getGo
  rw [if_pos hok, hfs]
  simp only
  have hnd : (s.requests.isEmpty && s.id != 0) = false := by
    rcases hreq with h | h
    · cases hr : s.requests with
      | nil => exact absurd hr h
      | cons a t => simp
    · simp [h]
  rw [hnd]
  simp only [Bool.false_eq_true, if_false, attach, hdone]

/-- **C08 (a write routed before a resume attached is delivered exactly once).**  In any reachable in-scope state
with a notification / server→client request pending for stream `sid` (routed, not yet delivered), an open session,
`sid` an unattached SSE stream that still has outstanding requests (or the standalone stream), and a previously
issued, not evicted `Last-Event-ID = (sid, idx)`: after the resume (GET, healthy connection) and then the pending
delivery section, the resuming exchange has received exactly `log[idx+1 …]` followed by the routed message with
id `(sid, |log|)` — i.e. the rest of the *new* log `log ++ [message]`, each entry once, in order. -/
theorem routed_then_resumed_exactly_once (cfg : Cfg) (hst : cfg.hasStore = true) (ls : List (Label α))
    (hsc : InScopeRun (init cfg) ls) (i : Nat) (pw : PendW α) (hpw : (run (init cfg) ls).pendW[i]? = some pw)
    (hnr : ∀ r p, pw.msg ≠ .resp r p)
    (s : Stream α) (hs : s ∈ (run (init cfg) ls).streams) (hsid : s.id = pw.sid) (hun : s.attached = none)
    (hsse : s.json = none) (hreq : s.requests ≠ [] ∨ s.id = 0)
    (idx : Nat) (ver : Ver) (log : List (Option (Item α))) (hlog : (run (init cfg) ls).store pw.sid = some log)
    (hidx : idx < log.length) (hdone : (run (init cfg) ls).isDone = false) (hnp : (run (init cfg) ls).purged pw.sid ≤ idx + 1) :
    let c2 := run (init cfg) (ls ++ [.get (.ok pw.sid idx) ver none, .wdeliver i])
    ∃ e, c2.exs[(run (init cfg) ls).exs.length]? = some e ∧ e.stream = pw.sid ∧ e.from = idx + 1 ∧ e.lost = [] ∧
      c2.log pw.sid = log ++ [some ⟨pw.msg, pw.ctx⟩] ∧
      (events e.out).length = (log.length + 1) - (idx + 1) ∧
      ∀ (k : Nat) (o : Out α), (events e.out)[k]? = some o →
        ∃ x, (log ++ [some ⟨pw.msg, pw.ctx⟩])[idx + 1 + k]? = some x ∧ o = evOf pw.sid (idx + 1 + k) x := by
  intro c2
  -- the state before, its invariants
  have hrun : c2 = (wdeliverR (get (run (init cfg) ls) (.ok pw.sid idx) ver none) i).1 := by
    show run (init cfg) (ls ++ [.get (.ok pw.sid idx) ver none, .wdeliver i]) = _
    rw [run_append]; rfl
  generalize hc : run (init cfg) ls = c at *
  have hw : Inv c := by rw [← hc]; exact inv_run cfg ls
  have h8 : Inv08 c := by rw [← hc]; exact inv08_run cfg hst ls hsc
  have hcs : c.cfg.hasStore = true := by rw [← hc, run_cfg]; exact hst
  have hnew : pw.ctxNew = false := by
    have := pendScope_run cfg ls hsc
    rw [hc] at this
    exact this pw (List.mem_of_getElem? hpw)
  have hfs : findStream pw.sid c.streams = some s := by rw [← hsid]; exact findStream_of_mem hw.nodup hs
  have hnn : ∀ j, idx + 1 ≤ j → log[j]? ≠ some none := by
    intro j hj hn
    have := (h8.shape pw.sid log j hlog hn).1
    omega
  obtain ⟨c0, e0, he0, hb0, hl0, hes0, hef0, hstr0, hsto0, hpw0, hcfg0, hget⟩ :=
    get_attach_explicit (idx := idx) hcs hdone ver hlog (by omega) hfs hun hreq
  -- the exchange after the GET, by the resume theorem
  obtain ⟨e1, he1, _, _, _, hlen1, hpt1⟩ := writes_while_detached_are_replayed cfg hst ls hsc pw.sid idx ver log
    (by rw [hc]; exact hlog) hidx (by rw [hc]; exact hdone) (by rw [hc]; exact hnp) (by rw [hc, hfs]; simpa using hun)
  rw [hc, hget] at he1
  have he10 : e1 = e0 := by
    have : c0.exs[c.exs.length]? = some e1 := he1
    rw [he0] at this; cases this; rfl
  rw [he10] at hlen1 hpt1
  -- the delivery section
  have hnext : idx + 1 + (toReplay log (idx + 1)).length = log.length := by
    rw [toReplay_length log (idx + 1) hnn]; omega
  rw [hrun, hget]
  let s1 : Stream α := { s with attached := some c.exs.length, opn := true, next := idx + 1 + (toReplay log (idx + 1)).length, v1125 := ver.ge1125 }
  have hs0 : s ∈ c0.streams := by rw [hstr0]; exact hs
  have hmem1 : s1 ∈ setStream s1 c0.streams := mem_setStream_self hs0 rfl
  have hnodup : ((setStream s1 c0.streams).map (·.id)).Nodup := by rw [setStream_ids, hstr0]; exact hw.nodup
  have hfs1 : findStream pw.sid (setStream s1 c0.streams) = some s1 := by
    have := findStream_of_mem hnodup hmem1
    rw [← hsid]; exact this
  have hwd : ∀ r p, pw.msg ≠ .resp r p := hnr
  have hreqs : wReqs s1 pw.msg = s.requests := by
    cases hm : pw.msg with
    | resp r p => exact absurd hm (hwd r p)
    | notif p => rfl
    | call p => rfl
  have hndone : wDone s1 pw.msg = false := by
    simp only [wDone, hreqs]
    rcases hreq with h | h
    · cases hr : s.requests with
      | nil => exact absurd hr h
      | cons a t => simp
    · have : s1.id = 0 := h
      simp [this]
  have huse : wUse ({ c0 with streams := setStream s1 c0.streams, pendW := c.pendW.eraseIdx i } : Conn α) false = true := by
    simp [wUse, hcfg0, hcs]
  have hwd1 : (wdeliverR ({ c0 with streams := setStream s1 c0.streams } : Conn α) i) =
      writeTo ({ c0 with streams := setStream s1 c0.streams, pendW := c.pendW.eraseIdx i } : Conn α) s1 pw.msg pw.ctx false := by
    unfold wdeliverR
    simp only [hpw0, hpw, hfs1, hnew]
  rw [hwd1]
  have hpush : (emitX c0.exs c.exs.length (.message (some (s1.id, s1.next)) ⟨pw.msg, pw.ctx⟩)).1[c.exs.length]? =
      some ({ e0 with out := e0.out ++ [.message (some (s1.id, s1.next)) ⟨pw.msg, pw.ctx⟩] }) := by
    rw [(emitX_eq _ _ _ _ he0).1, (push_none e0 _ hb0).1]
  refine ⟨{ e0 with out := e0.out ++ [.message (some (s1.id, s1.next)) ⟨pw.msg, pw.ctx⟩] }, ?_, hes0, hef0, hl0, ?_, ?_, ?_⟩
  · have ha : s1.attached = some c.exs.length := rfl
    have ho : s1.opn = true := rfl
    have hj : s1.json = none := hsse
    simp only [writeTo, wDeliver, deliver, huse, hndone, hreqs, ha, ho, hj, if_true]
    exact hpush
  · simp only [Conn.log, writeTo, huse, if_true]
    show ((appendLog s1.id (some ⟨pw.msg, pw.ctx⟩) c0.store) pw.sid).getD [] = _
    have : s1.id = pw.sid := hsid
    rw [this, hsto0]
    simp [appendLog, hlog]
  · have hfil : List.filter Out.isEv [Out.message (some (s1.id, s1.next)) (⟨pw.msg, pw.ctx⟩ : Item α)] =
        [Out.message (some (s1.id, s1.next)) ⟨pw.msg, pw.ctx⟩] := by simp [Out.isEv]
    simp only [events, List.filter_append, hfil]
    simp only [events] at hlen1
    rw [List.length_append, hlen1]
    simp only [List.length_singleton]
    omega
  · intro k o hk
    have hfil : List.filter Out.isEv [Out.message (some (s1.id, s1.next)) (⟨pw.msg, pw.ctx⟩ : Item α)] =
        [Out.message (some (s1.id, s1.next)) ⟨pw.msg, pw.ctx⟩] := by simp [Out.isEv]
    simp only [events, List.filter_append, hfil] at hk
    have hk' : (events e0.out ++ [Out.message (some (s1.id, s1.next)) ⟨pw.msg, pw.ctx⟩])[k]? = some o := hk
    by_cases hlt : k < (events e0.out).length
    · rw [List.getElem?_append_left hlt] at hk'
      obtain ⟨x, hx, ho⟩ := hpt1 k o hk'
      refine ⟨x, ?_, ho⟩
      have hi : idx + 1 + k < log.length := by
        by_cases hh : idx + 1 + k < log.length
        · exact hh
        · rw [List.getElem?_eq_none (by omega)] at hx; cases hx
      rw [List.getElem?_append_left hi]; exact hx
    · have hkeq : k = (events e0.out).length := by
        by_cases hh : k = (events e0.out).length
        · exact hh
        · rw [List.getElem?_eq_none (by simp; omega)] at hk'; cases hk'
      rw [List.getElem?_append_right (by omega), hkeq] at hk'
      simp at hk'
      have hpos : idx + 1 + k = log.length := by rw [hkeq, hlen1]; omega
      refine ⟨some ⟨pw.msg, pw.ctx⟩, ?_, ?_⟩
      · rw [hpos]; simp
      · rw [← hk', hpos]
        show Out.message (some (s1.id, s1.next)) ⟨pw.msg, pw.ctx⟩ = evOf pw.sid log.length (some ⟨pw.msg, pw.ctx⟩)
        have h1 : s1.id = pw.sid := hsid
        have h2 : s1.next = log.length := hnext
        rw [h1, h2]; rfl

end Resume
