import McpModel.Resume.Monitor
/-!
E5 — the typed core of the *in-flight id* clauses (C02 / C10 on the streamable server).

"`requestStreams`: request id ↦ logical stream, deleted when the response is written": between the POST that carried a
call and the moment its handler has finished (its response was handed to the transport) the call's JSON-RPC id is *in
flight* in its session.  `servePOST` must refuse a POST that reuses such an id (400, nothing registered) and must accept
one whose ids are all free.  The monitor keeps the set of in-flight ids per session from the *operations* (call accepted
/ handler finished) and judges the implementation's answer to every POST that carries calls:
* `refusedFree` — refused as a duplicate although none of its ids is in flight;
* `acceptedDup` — accepted although one of its ids is in flight (e.g. released early by a `notifications/cancelled`,
  by the loss of the POST's exchange, …): the id now names two requests of the session, and whatever the earlier handler
  still sends — its response included — is routed to the later request's exchange.
`Mon.idStep` is a pure function; `McpModel.Resume.IdBridge` proves that it raises nothing on any label list of the model
and what the clauses mean.  Core Lean only (linked into the driver).
-/
namespace Resume
namespace Mon

/-- what the in-flight clauses need of one record -/
inductive IdObs (σ : Type) where
  /-- a POST carrying calls with these (distinct) ids: answered with a stream / a JSON body (`accepted`), or 400 (`refused`) -/
  | call (sess : σ) (ids : List Nat) (accepted refused : Bool)
  /-- the handler of call `id` of the session finished: its response was handed to the transport -/
  | finished (sess : σ) (id : Nat)
  | other

inductive ClauseI where
  | refusedFree | acceptedDup
deriving DecidableEq, Repr

def ClauseI.text02 : ClauseI → String
  | .refusedFree => "C02: a well-formed call whose id is not in flight (its earlier user has been answered or its response was dropped as undeliverable) was refused as a duplicate in-flight id"
  | .acceptedDup => "C02: a call that reuses the id of a request of this session whose handler has not finished was accepted: the id names two requests in flight, the response of the earlier one will be delivered on the later one's exchange and the later one is never answered"

def ClauseI.text10 : ClauseI → Option String
  | .refusedFree => none
  | .acceptedDup => some "C10: a call that reuses the id of a request of this session whose handler has not finished was accepted (the id was released before the response was written): whatever the earlier handler still sends, its response included, is routed to the exchange of the later, different request"

structure IdS (σ : Type) where
  inflight : List (σ × Nat) := []      -- (session, id): calls accepted whose handler has not finished

def idInit {σ : Type} : IdS σ := {}

variable {σ : Type} [DecidableEq σ]

def anyInFlight (m : IdS σ) (s : σ) (ids : List Nat) : Bool := ids.any fun r => m.inflight.contains (s, r)

def idStep (m : IdS σ) : IdObs σ → IdS σ × Option ClauseI
  | .call s ids acc ref =>
    if acc then ({ inflight := m.inflight ++ ids.map fun r => (s, r) }, if anyInFlight m s ids then some .acceptedDup else none)
    else if ref then (m, if anyInFlight m s ids then none else some .refusedFree)
    else (m, none)
  | .finished s id => ({ inflight := m.inflight.filter fun x => !(x == (s, id)) }, none)
  | .other => (m, none)

def idRun (m : IdS σ) : List (IdObs σ) → IdS σ × Option ClauseI
  | [] => (m, none)
  | o :: t => ((idRun (idStep m o).1 t).1, (idStep m o).2 <|> (idRun (idStep m o).1 t).2)

end Mon
end Resume
