import McpModel.Resume.Monitor
/-!
E5 — the typed core of the *retention* clause of the C08 monitor ("all numbers of successive resumes, all
`Last-Event-ID` values previously issued … the final response of a request stays obtainable").

An event store may forget old events only when it has to (`MemoryEventStore.purge` runs while `nBytes > maxBytes`; the
model's label EVICT).  A resume that names a stream the store has appended to is then answered with the rest of the log
(or 409 while a live exchange holds the stream).  The monitor keeps three facts about the *implementation*, taken from
its observations only: the streams of each session for which the store accepted an `Append` (`known`), per stream the
index up to which the store was FORCED to evict (`first`: the harness reads `nBytes`/`maxBytes` of the real store right
before every `Append` and `SetMaxBytes` it passes on — `purge` runs only inside those two, and only while
`nBytes > maxBytes` —, and reports every eviction it reads from the real `dataList.first` with the flag "the store was over
its limit at such a moment since the last report"; only flagged evictions raise `first`), and which sessions' transports
are closed (`closed`: the `isDone` flag of the last snapshot).  It raises
* `refusedKept` — a GET with a well-formed `Last-Event-ID` `t_i` naming such a stream of an open session was answered 400
  although the store was never forced to evict the entry after `i` (`first t ≤ i + 1`): the events after that id — the
  final response included — have been thrown away although nothing forced the store to.
`Mon.keepStep` is a pure function `KeepS → KObs → KeepS × Option ClauseK`; `McpModel.Resume.KeepBridge` proves that it
raises nothing on any observation trace of the model (where every eviction is an EVICT label, i.e. forced) and what the
clause means.  Core Lean only (linked into the driver).
-/
namespace Resume
namespace Mon

/-- what the retention clause needs of one record -/
structure KObs (σ : Type) where
  sess : σ                          -- the session the record's request was addressed to
  get : Option (Nat × Nat)          -- the record contains a GET whose Last-Event-ID is well-formed: (stream, index)
  codes : List (Nat × Nat)          -- exchanges opened by the record and answered with a bare HTTP status: (exchange, code)
  appends : List (σ × Nat)          -- (session, stream) of every `EventStore.Append` the store accepted in this record
  forced : List (σ × Nat × Nat)     -- evictions the record reports that a store over its size limit made:
                                    -- (session, stream, n) = the store now holds the log of that stream from index n on
  closed : List (σ × Bool)          -- `isDone` of the sessions snapshotted after the record

inductive ClauseK where
  | refusedKept
deriving DecidableEq, Repr

def ClauseK.text : ClauseK → String
  | .refusedKept => "C08: a resume from a previously issued Last-Event-ID of an open session was refused (400) although the event store was never forced (by its size limit) to evict the entry after that id: the messages after it, the final response included, are no longer obtainable"

structure KeepS (σ : Type) where
  known : σ → Nat → Bool := fun _ _ => false    -- the store accepted an Append for (session, stream)
  first : σ → Nat → Nat := fun _ _ => 0         -- (session, stream) ↦ index up to which the store was forced to evict
  closed : σ → Bool := fun _ => false           -- the session's transport is closed (last snapshot)

def keepInit {σ : Type} : KeepS σ := {}

variable {σ : Type} [DecidableEq σ]

def knownAfter (known : σ → Nat → Bool) (apps : List (σ × Nat)) : σ → Nat → Bool :=
  fun s t => known s t || apps.contains (s, t)

def closedAfter (closed : σ → Bool) (snaps : List (σ × Bool)) : σ → Bool :=
  snaps.foldl (fun h x => fun s => if s = x.1 then x.2 else h s) closed

/-- the forced evictions of a record raise `first` (it never goes down) -/
def firstAfter (first : σ → Nat → Nat) (forced : List (σ × Nat × Nat)) : σ → Nat → Nat :=
  forced.foldl (fun f x => fun s t => if s = x.1 ∧ t = x.2.1 then max (f s t) x.2.2 else f s t) first

/-- a GET of this record that names a stream the store has appended to, from index `i`, was answered 400 although the
session was open before the record and the store was not forced — up to and including this record — to evict the entry
after `i` (`EventStore.After(i)` reports a purge only when `i + 1 < first`) -/
def refusedK (m : KeepS σ) (o : KObs σ) : Bool :=
  match o.get with
  | some (t, i) => o.codes.any (fun x => x.2 == 400) && m.known o.sess t && !m.closed o.sess &&
      decide (firstAfter m.first o.forced o.sess t ≤ i + 1)
  | none => false

def keepStep (m : KeepS σ) (o : KObs σ) : KeepS σ × Option ClauseK :=
  ({ known := knownAfter m.known o.appends, first := firstAfter m.first o.forced, closed := closedAfter m.closed o.closed },
   if refusedK m o then some .refusedKept else none)

/-- a whole trace: the state after it and the first clause raised, if any -/
def keepRun (m : KeepS σ) : List (KObs σ) → KeepS σ × Option ClauseK
  | [] => (m, none)
  | o :: t => ((keepRun (keepStep m o).1 t).1, (keepStep m o).2 <|> (keepRun (keepStep m o).1 t).2)

end Mon
end Resume
