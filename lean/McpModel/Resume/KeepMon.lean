import McpModel.Resume.Monitor
/-!
E5 — the typed core of the *retention* clause of the C08 monitor ("all numbers of successive resumes, all
`Last-Event-ID` values previously issued … the final response of a request stays obtainable").

An event store may forget old events only when it has to (`MemoryEventStore.purge` runs while `nBytes > maxBytes`; the
model's label EVICT).  A resume that names a stream the store has appended to is then answered with the rest of the log
(or 409 while a live exchange holds the stream).  The monitor keeps three facts about the *implementation*, taken from
its observations only: the streams of each session for which the store accepted an `Append` (`known`), whether the
store has ever been over its size limit (`pressed`: the harness adds up the bytes of every accepted `Append` and compares
the sum with the smallest limit that was ever in force — while the sum stays below it nothing can have been evicted
legitimately; the evictions it reads from the real `dataList.first` are reported with that flag), and which sessions'
transports are closed (`closed`: the `isDone` flag of the last snapshot).  It raises
* `refusedKept` — a GET with a well-formed `Last-Event-ID` naming such a stream of an open session was answered 400
  although the store was never over its limit: the events after that id — the final response included — have been
  thrown away although nothing forced the store to.
`Mon.keepStep` is a pure function `KeepS → KObs → KeepS × Option ClauseK`; `McpModel.Resume.KeepBridge` proves that it
raises nothing on any observation trace of the model (where every eviction is an EVICT label, i.e. forced) and what the
clause means.  Core Lean only (linked into the driver).
-/
namespace Resume
namespace Mon

/-- what the retention clause needs of one record -/
structure KObs (σ : Type) where
  sess : σ                          -- the session the record's request was addressed to
  get : Option (Nat × Nat)          -- the record contains a GET whose Last-Event-ID is well-formed: (stream, index)
  codes : List (Nat × Nat)          -- exchanges opened by the record and answered with a bare HTTP status: (exchange, code)
  appends : List (σ × Nat)          -- (session, stream) of every `EventStore.Append` the store accepted in this record
  forced : Bool                     -- the record reports an eviction made by a store that has been over its size limit
  closed : List (σ × Bool)          -- `isDone` of the sessions snapshotted after the record

inductive ClauseK where
  | refusedKept
deriving DecidableEq, Repr

def ClauseK.text : ClauseK → String
  | .refusedKept => "C08: a resume from a previously issued Last-Event-ID of an open session was refused (400) although the event store was never over its size limit (nothing had to be evicted): the messages after that id, the final response included, are no longer obtainable"

structure KeepS (σ : Type) where
  known : σ → Nat → Bool := fun _ _ => false    -- the store accepted an Append for (session, stream)
  pressed : Bool := false                       -- the store has been over its size limit (it may have evicted)
  closed : σ → Bool := fun _ => false           -- the session's transport is closed (last snapshot)

def keepInit {σ : Type} : KeepS σ := {}

variable {σ : Type} [DecidableEq σ]

def knownAfter (known : σ → Nat → Bool) (apps : List (σ × Nat)) : σ → Nat → Bool :=
  fun s t => known s t || apps.contains (s, t)

def closedAfter (closed : σ → Bool) (snaps : List (σ × Bool)) : σ → Bool :=
  snaps.foldl (fun h x => fun s => if s = x.1 then x.2 else h s) closed

/-- a GET of this record that names a stream the store has appended to was answered 400 although the session was open
before the record and the store has not been over its limit up to and including this record -/
def refusedK (m : KeepS σ) (o : KObs σ) : Bool :=
  match o.get with
  | some (t, _) => o.codes.any (fun x => x.2 == 400) && m.known o.sess t && !m.closed o.sess && !(m.pressed || o.forced)
  | none => false

def keepStep (m : KeepS σ) (o : KObs σ) : KeepS σ × Option ClauseK :=
  ({ known := knownAfter m.known o.appends, pressed := m.pressed || o.forced, closed := closedAfter m.closed o.closed },
   if refusedK m o then some .refusedKept else none)

/-- a whole trace: the state after it and the first clause raised, if any -/
def keepRun (m : KeepS σ) : List (KObs σ) → KeepS σ × Option ClauseK
  | [] => (m, none)
  | o :: t => ((keepRun (keepStep m o).1 t).1, (keepStep m o).2 <|> (keepRun (keepStep m o).1 t).2)

end Mon
end Resume
