import McpModel.Resume.InvJ
/-!
E5 — every event id ever written to an exchange names the stream that exchange serves (`InvId`), on all
label lists, with or without an event store, in or out of the scope of C08.
-/
namespace Resume
variable {α : Type}

/-- the stream named by the event id of a write, if it carries one -/
def Out.sidOf : Out α → Option Nat
  | .prime sid _ => some sid
  | .message (some (sid, _)) _ => some sid
  | _ => none

def InvId (c : Conn α) : Prop :=
  ∀ (j : Nat) (e : Exch α), c.exs[j]? = some e → ∀ o ∈ e.all, ∀ t, o.sidOf = some t → t = e.stream

theorem invId_init (cfg : Cfg) : InvId (init cfg : Conn α) := by
  intro j e he; simp [init] at he

/-- exchange tables whose new writes carry no event id -/
def ExNoId (exs exs' : List (Exch α)) : Prop :=
  ∀ (j : Nat) (e' : Exch α), exs'[j]? = some e' →
    (∃ e, exs[j]? = some e ∧ e'.stream = e.stream ∧ ∀ o ∈ e'.all, o ∈ e.all ∨ o.sidOf = none) ∨
    (∀ o ∈ e'.all, o.sidOf = none)

theorem ExNoId.refl (exs : List (Exch α)) : ExNoId exs exs :=
  fun _ e' h => Or.inl ⟨e', h, rfl, fun _ ho => Or.inl ho⟩

theorem exNoId_finishX (exs : List (Exch α)) (ex : Nat) : ExNoId exs (finishX exs ex) := by
  intro j e' h
  obtain ⟨e, h0, hs, _, hall⟩ := finishX_all _ _ _ _ h
  exact Or.inl ⟨e, h0, hs, fun o ho => Or.inl (by rw [← hall]; exact ho)⟩

theorem exNoId_wfail (exs : List (Exch α)) (ex : Nat) :
    ExNoId exs (setEx ex (fun e => { e with budget := some 0 }) exs) := by
  intro j e' h
  by_cases hj : j = ex
  · subst hj
    rw [getElem?_setEx_eq] at h
    cases hl : exs[j]? with
    | none => rw [hl] at h; cases h
    | some a => rw [hl] at h; simp at h; subst h; exact Or.inl ⟨a, rfl, rfl, fun o ho => Or.inl ho⟩
  · rw [getElem?_setEx_ne _ _ _ _ hj] at h
    exact Or.inl ⟨e', h, rfl, fun o ho => Or.inl ho⟩

theorem exNoId_append (exs : List (Exch α)) (e : Exch α) (he : e.all = []) : ExNoId exs (exs ++ [e]) := by
  intro j e' h
  by_cases hj : j < exs.length
  · rw [List.getElem?_append_left hj] at h
    exact Or.inl ⟨e', h, rfl, fun o ho => Or.inl ho⟩
  · have hj' : exs.length ≤ j := by omega
    rw [List.getElem?_append_right hj'] at h
    have : j - exs.length = 0 := by
      by_cases h0 : j - exs.length = 0
      · exact h0
      · rw [List.getElem?_eq_none (by simp; omega)] at h; cases h
    rw [this] at h; simp at h; subst h
    exact Or.inr (by rw [he]; intro o ho; cases ho)

theorem exNoId_emitX (exs : List (Exch α)) (hok : ∀ e ∈ exs, ExOK e) (ex : Nat) (o : Out α) (ho : o.sidOf = none) :
    ExNoId exs (emitX exs ex o).1 := by
  intro j e' h
  obtain ⟨e, h0, hs, _, r⟩ := emitX_get exs hok ex o j e' h
  refine Or.inl ⟨e, h0, hs, ?_⟩
  intro x hx
  rcases r with ⟨_, r⟩ | ⟨_, r⟩
  · rw [r] at hx
    rcases List.mem_append.mp hx with hx | hx
    · exact Or.inl hx
    · simp at hx; subst hx; exact Or.inr ho
  · subst r; exact Or.inl hx

theorem invId_frame {c c' : Conn α} (h : InvId c) (he : ExNoId c.exs c'.exs) : InvId c' := by
  intro j e' he' o ho t ht
  rcases he j e' he' with ⟨e, hej, hs1, r⟩ | hall
  · rcases r o ho with ho' | hi
    · rw [hs1]; exact h j e hej o ho' t ht
    · rw [hi] at ht; cases ht
  · rw [hall o ho] at ht; cases ht

theorem invId_cut {c : Conn α} (h : InvId c) (ex : Nat) : InvId (cut c ex) :=
  invId_frame (c' := cut c ex) h (exNoId_finishX _ _)
theorem invId_finish {c : Conn α} (h : InvId c) (ex : Nat) : InvId (finish c ex) :=
  invId_frame (c' := finish c ex) h (exNoId_finishX _ _)
theorem invId_wfail {c : Conn α} (h : InvId c) (ex : Nat) : InvId (wfail c ex) :=
  invId_frame (c' := wfail c ex) h (exNoId_wfail _ _)
theorem invId_statusEx {c : Conn α} (h : InvId c) (code sid : Nat) : InvId (statusEx c code sid) :=
  invId_frame (c' := statusEx c code sid) h (exNoId_append _ _ rfl)

theorem invId_sclose {c : Conn α} (hw : Inv c) (h : InvId c) (req : Nat) (retry : Bool) : InvId (sclose c req retry) := by
  unfold sclose
  split
  · exact h
  · split
    · exact h
    · split
      · rename_i ex _ _
        split
        · exact invId_frame (c' := { (emit c ex .close).1 with streams := _ }) h (exNoId_emitX _ hw.ex_ok _ _ rfl)
        · exact invId_frame (c' := { c with streams := _ }) h (ExNoId.refl _)
      · exact h

theorem invId_writeTo {c : Conn α} (hw : Inv c) (h : InvId c) {s : Stream α} (hmem : s ∈ c.streams) (msg : Msg α)
    (ctx : Option Nat) (ctxNew : Bool) : InvId (writeTo c s msg ctx ctxNew).1 := by
  intro j e' he' o ho t ht
  simp only [writeTo, wDeliver] at he'
  obtain ⟨e, hej, hs1, r⟩ := deliver_items c.exs hw.ex_ok s ⟨msg, ctx⟩ _ _ _ j e' he'
  rw [hs1]
  rcases r o ho with ho' | ⟨hat, ho'⟩
  · exact h j e hej o ho' t ht
  · obtain ⟨e₀, hej0, hes⟩ := hw.att s hmem j hat
    rw [hej] at hej0; cases hej0
    rw [hes]
    rcases ho' with rfl | ⟨pend, hp, rfl⟩
    · split at ht
      · simp [Out.sidOf] at ht; exact ht.symm
      · simp [Out.sidOf] at ht
    · simp [Out.sidOf] at ht

theorem invId_write {c : Conn α} (hw : Inv c) (h : InvId c) (msg : Msg α) (ctx : Option Nat) (ctxNew : Bool) :
    InvId (writeR c msg ctx ctxNew).1 := by
  unfold writeR
  split
  · exact h
  · split
    · exact invId_frame (c' := eraseResp c msg) h (by simp; exact ExNoId.refl _)
    · rename_i s hs
      split
      · exact invId_frame (c' := eraseResp c msg) h (by simp; exact ExNoId.refl _)
      · exact invId_writeTo (inv_eraseResp hw msg) (invId_frame (c' := eraseResp c msg) h (by simp; exact ExNoId.refl _))
          (by simp; exact route_mem hs) _ _ _

theorem invId_postPrimed {c : Conn α} (h : InvId c) (calls : List Nat) (listen : Bool) (ver : Ver) (budget : Option Nat) :
    InvId (postPrimed c calls listen ver budget) := by
  intro j e' he' o ho t ht
  rcases postPrimed_exs _ _ _ _ _ _ _ he' with ⟨_, hold⟩ | ⟨_, hs, _, hall⟩
  · exact h j e' hold o ho t ht
  · rw [hall] at ho
    split at ho
    · simp at ho; subst ho; simp [Out.sidOf] at ht; rw [hs]; exact ht.symm
    · cases ho

theorem invId_post {c : Conn α} (h : InvId c) (calls : List Nat) (listen : Bool) (ver : Ver) (budget : Option Nat) :
    InvId (post c calls listen ver budget) := by
  unfold post
  split
  · exact invId_statusEx h _ _
  · split
    · unfold postDup
      apply invId_statusEx
      exact invId_frame (c' := { c with store := _, nextSid := c.nextSid + 1 }) h (ExNoId.refl _)
    · rw [postNew_eq]
      split
      · exact invId_cut (invId_postPrimed h _ _ _ _) _
      · exact invId_postPrimed h _ _ _ _

theorem invId_getGo {c : Conn α} (hw : Inv c) (h : InvId c) (sid frm : Nat) (ver : Ver) (budget : Option Nat)
    (items : List (Item α)) : InvId (getGo c sid frm ver budget items) := by
  obtain ⟨_, _, _, _, _, _, _, glen, gold, _⟩ := getOpen_frame c sid frm budget
  obtain ⟨e0, ge0, ges, _, gno, _⟩ := getOpen_new c sid frm budget
  have hw2 := getOpen_inv hw sid frm budget
  have hexs : InvId (replayLoop (getOpen c sid frm budget) c.exs.length sid frm items).1 := by
    intro j e1 h1 o ho t ht
    obtain ⟨e, hej, hs1, r⟩ := replayLoop_items sid c.exs.length items (getOpen c sid frm budget) frm hw2.ex_ok j e1 h1
    rw [hs1]
    by_cases hj : j = c.exs.length
    · subst hj
      rw [ge0] at hej; cases hej
      rw [ges]
      rcases r o ho with ho' | ⟨_, k', it', _, rfl⟩
      · have := gno o ho'
        cases o with
        | prime _ _ => simp [Out.isEv] at this
        | message id _ => simp [Out.isEv] at this
        | comment => simp [Out.sidOf] at ht
        | close => simp [Out.sidOf] at ht
        | json _ => simp [Out.sidOf] at ht
      · simp [Out.sidOf] at ht; exact ht.symm
    · have hlt : j < c.exs.length := by
        by_cases hh : j < c.exs.length
        · exact hh
        · rw [List.getElem?_eq_none (by omega)] at hej; cases hej
      rw [gold j hlt] at hej
      rcases r o ho with ho' | ⟨hje, _⟩
      · exact h j e hej o ho' t ht
      · exact absurd hje hj
  unfold getGo
  split
  · split
    · exact invId_finish hexs _
    · split
      · exact invId_finish hexs _
      · unfold attach
        split
        · exact invId_cut (c := { (replayLoop (getOpen c sid frm budget) c.exs.length sid frm items).1 with streams := _ }) hexs _
        · exact hexs
  · exact invId_finish hexs _

theorem invId_step {c : Conn α} (hw : Inv c) (h : InvId c) (l : Label α) : InvId (step c l) := by
  unfold step stepR
  cases l with
  | post calls listen ver budget => exact invId_post h _ _ _ _
  | write msg ctx ctxNew => exact invId_write hw h _ _ _
  | cut ex => exact invId_cut h _
  | wfail ex => exact invId_wfail h _
  | get hdr ver budget =>
    show InvId (get c hdr ver budget)
    unfold get
    split
    · exact invId_statusEx h _ _
    · split
      · exact invId_statusEx h _ _
      · split
        · exact invId_statusEx h _ _
        · split
          · exact invId_statusEx h _ _
          · exact invId_getGo hw h _ _ _ _ _
  | sclose req retry => exact invId_sclose hw h _ _
  | «end» => exact h
  | evict _ _ => exact h
  | wroute msg ctx ctxNew =>
    show InvId (wrouteR c msg ctx ctxNew).1
    unfold wrouteR
    split
    · exact h
    · split
      · exact invId_frame (c' := eraseResp c msg) h (by simp; exact ExNoId.refl _)
      · split
        · exact invId_frame (c' := eraseResp c msg) h (by simp; exact ExNoId.refl _)
        · exact invId_frame (c' := { eraseResp c msg with pendW := _ }) h (by simp; exact ExNoId.refl _)
  | wdeliver i =>
    show InvId (wdeliverR c i).1
    unfold wdeliverR
    split
    · exact h
    · rename_i pw hpw
      have hw1 : Inv ({ c with pendW := c.pendW.eraseIdx i } : Conn α) :=
        inv_pendW hw _ (fun x hx => hw.pend_lt x (mem_eraseIdx hx))
      split
      · rename_i s hs
        exact invId_writeTo (c := { c with pendW := c.pendW.eraseIdx i }) hw1 h (findStream_some hs).1 _ _ _
      · exact h

theorem invId_runFrom {c : Conn α} (hw : Inv c) (h : InvId c) (ls : List (Label α)) : InvId (run c ls) := by
  induction ls generalizing c with
  | nil => exact h
  | cons l t ih => simp only [run, List.foldl_cons]; exact ih (inv_step hw l) (invId_step hw h l)

/-- **event ids name the stream of their exchange** — all label lists, all configurations -/
theorem event_ids_name_their_stream (cfg : Cfg) (ls : List (Label α)) : InvId (run (init cfg) ls) :=
  invId_runFrom (inv_init cfg) (invId_init cfg) ls

end Resume
