import McpModel.Resume.Ans
/-!
E5 — monotonicity of a run (`Grow`): along every label, exchanges are only ever *extended* (their `out` and
`lost` lists grow at the end, lost writes come after all delivered ones, ghost fields and kind stay), new
exchanges are appended to the table, and the logs of the store only grow.  This is what makes the
difference between two states (`Resume.obsOf`) an observation of what happened in between.
-/
namespace Resume
variable {α : Type}

/-- exchange `e'` is `e` after some more writes -/
structure GrowE (e e' : Exch α) : Prop where
  stream : e'.stream = e.stream
  frm : e'.from = e.from
  kind : e'.kind = e.kind
  out : ∃ mo, e'.out = e.out ++ mo
  lost : ∃ ml, e'.lost = e.lost ++ ml
  order : e.lost ≠ [] → e'.out = e.out

theorem GrowE.refl (e : Exch α) : GrowE e e := ⟨rfl, rfl, rfl, ⟨[], by simp⟩, ⟨[], by simp⟩, fun _ => rfl⟩

theorem GrowE.trans {a b c : Exch α} (h₁ : GrowE a b) (h₂ : GrowE b c) : GrowE a c := by
  obtain ⟨mo1, ho1⟩ := h₁.out
  obtain ⟨mo2, ho2⟩ := h₂.out
  obtain ⟨ml1, hl1⟩ := h₁.lost
  obtain ⟨ml2, hl2⟩ := h₂.lost
  refine ⟨h₂.stream.trans h₁.stream, h₂.frm.trans h₁.frm, h₂.kind.trans h₁.kind,
    ⟨mo1 ++ mo2, by rw [ho2, ho1]; simp⟩, ⟨ml1 ++ ml2, by rw [hl2, hl1]; simp⟩, ?_⟩
  intro hl
  have hb : b.lost ≠ [] := by rw [hl1]; simp [hl]
  rw [h₂.order hb, h₁.order hl]

def GrowX (exs exs' : List (Exch α)) : Prop :=
  exs.length ≤ exs'.length ∧ ∀ (j : Nat) (e : Exch α), exs[j]? = some e → ∃ e', exs'[j]? = some e' ∧ GrowE e e'

theorem GrowX.refl (exs : List (Exch α)) : GrowX exs exs := ⟨Nat.le_refl _, fun _ e h => ⟨e, h, GrowE.refl e⟩⟩

theorem GrowX.trans {a b c : List (Exch α)} (h₁ : GrowX a b) (h₂ : GrowX b c) : GrowX a c := by
  refine ⟨Nat.le_trans h₁.1 h₂.1, ?_⟩
  intro j e h
  obtain ⟨e', h', g1⟩ := h₁.2 j e h
  obtain ⟨e'', h'', g2⟩ := h₂.2 j e' h'
  exact ⟨e'', h'', g1.trans g2⟩

theorem growX_setEx (exs : List (Exch α)) (ex : Nat) (f : Exch α → Exch α)
    (hf : ∀ e, exs[ex]? = some e → GrowE e (f e)) : GrowX exs (setEx ex f exs) := by
  refine ⟨by simp, ?_⟩
  intro j e h
  by_cases hj : j = ex
  · subst hj
    exact ⟨f e, by rw [getElem?_setEx_eq, h]; rfl, hf e h⟩
  · exact ⟨e, by rw [getElem?_setEx_ne _ _ _ _ hj]; exact h, GrowE.refl e⟩

theorem growE_push (e : Exch α) (o : Out α) (h : ExOK e) : GrowE e (e.push o).1 := by
  refine ⟨push_stream e o, push_from e o, push_kind e o, ?_, ?_, ?_⟩
  · unfold Exch.push; split
    · exact ⟨[], by simp⟩
    · exact ⟨[o], rfl⟩
    · exact ⟨[o], rfl⟩
  · unfold Exch.push; split
    · exact ⟨[o], rfl⟩
    · exact ⟨[], by simp⟩
    · exact ⟨[], by simp⟩
  · intro hl
    have hb := h hl
    unfold Exch.push; rw [hb]

theorem growX_emitX (exs : List (Exch α)) (hok : ∀ e ∈ exs, ExOK e) (ex : Nat) (o : Out α) : GrowX exs (emitX exs ex o).1 := by
  unfold emitX
  split
  · exact GrowX.refl _
  · exact growX_setEx _ _ _ (fun e he => growE_push e o (hok e (List.mem_of_getElem? he)))

theorem growX_finishX (exs : List (Exch α)) (ex : Nat) : GrowX exs (finishX exs ex) := by
  unfold finishX
  exact growX_setEx _ _ _ (fun e _ => ⟨rfl, rfl, rfl, ⟨[], by simp⟩, ⟨[], by simp⟩, fun _ => rfl⟩)

theorem growX_wfail (exs : List (Exch α)) (ex : Nat) : GrowX exs (setEx ex (fun e => { e with budget := some 0 }) exs) :=
  growX_setEx _ _ _ (fun e _ => ⟨rfl, rfl, rfl, ⟨[], by simp⟩, ⟨[], by simp⟩, fun _ => rfl⟩)

theorem growX_append (exs : List (Exch α)) (e : Exch α) : GrowX exs (exs ++ [e]) := by
  refine ⟨by simp, ?_⟩
  intro j e0 h
  have hlt : j < exs.length := by
    by_cases hh : j < exs.length
    · exact hh
    · rw [List.getElem?_eq_none (by omega)] at h; cases h
  exact ⟨e0, by rw [List.getElem?_append_left hlt]; exact h, GrowE.refl e0⟩

/-- the connection only grew -/
structure Grow (c c' : Conn α) : Prop where
  exs : GrowX c.exs c'.exs
  store : LogLE c.store c'.store
  nextSid : c.nextSid ≤ c'.nextSid
  cfg : c'.cfg = c.cfg

theorem Grow.refl (c : Conn α) : Grow c c := ⟨GrowX.refl _, LogLE.refl _, Nat.le_refl _, rfl⟩

theorem Grow.trans {a b c : Conn α} (h₁ : Grow a b) (h₂ : Grow b c) : Grow a c :=
  ⟨h₁.exs.trans h₂.exs, h₁.store.trans h₂.store, Nat.le_trans h₁.nextSid h₂.nextSid, h₂.cfg.trans h₁.cfg⟩

theorem grow_emit {c : Conn α} (h : Inv c) (ex : Nat) (o : Out α) : Grow c (emit c ex o).1 :=
  ⟨growX_emitX _ h.ex_ok _ _, LogLE.refl _, Nat.le_refl _, rfl⟩

theorem grow_finish (c : Conn α) (ex : Nat) : Grow c (finish c ex) :=
  ⟨growX_finishX _ _, LogLE.refl _, Nat.le_refl _, rfl⟩

theorem grow_cut (c : Conn α) (ex : Nat) : Grow c (cut c ex) :=
  ⟨growX_finishX _ _, LogLE.refl _, Nat.le_refl _, rfl⟩

theorem grow_wfail (c : Conn α) (ex : Nat) : Grow c (wfail c ex) :=
  ⟨growX_wfail _ _, LogLE.refl _, Nat.le_refl _, rfl⟩

theorem grow_statusEx (c : Conn α) (code sid : Nat) : Grow c (statusEx c code sid) :=
  ⟨growX_append _ _, LogLE.refl _, Nat.le_refl _, rfl⟩

theorem grow_sclose {c : Conn α} (h : Inv c) (req : Nat) (retry : Bool) : Grow c (sclose c req retry) := by
  unfold sclose
  split
  · exact Grow.refl c
  · split
    · exact Grow.refl c
    · split
      · split
        · exact ⟨growX_emitX _ h.ex_ok _ _, LogLE.refl _, Nat.le_refl _, rfl⟩
        · exact ⟨GrowX.refl _, LogLE.refl _, Nat.le_refl _, rfl⟩
      · exact Grow.refl c

/-! ### POST -/

theorem grow_postPrimed {c : Conn α} (h : Inv c) (calls : List Nat) (listen : Bool) (ver : Ver) (budget : Option Nat) :
    Grow c (postPrimed c calls listen ver budget) := by
  have hreg : Grow c (register c calls listen ver budget) :=
    ⟨growX_append _ _, logLE_postStore c listen ver, Nat.le_succ _, rfl⟩
  unfold postPrimed
  split
  · exact hreg.trans (grow_emit (inv_register h _ _ _ _) _ _)
  · exact hreg

theorem grow_post {c : Conn α} (h : Inv c) (calls : List Nat) (listen : Bool) (ver : Ver) (budget : Option Nat) :
    Grow c (post c calls listen ver budget) := by
  unfold post
  split
  · exact grow_statusEx c _ _
  · split
    · unfold postDup
      refine Grow.trans (b := { c with store := if opens c ver then openLog c.nextSid c.store else c.store, nextSid := c.nextSid + 1 })
        ⟨GrowX.refl _, ?_, Nat.le_succ _, rfl⟩ (grow_statusEx _ _ _)
      show LogLE c.store (if opens c ver then openLog c.nextSid c.store else c.store)
      split
      · exact logLE_openLog _ _
      · exact LogLE.refl _
    · rw [postNew_eq]
      split
      · exact (grow_postPrimed h _ _ _ _).trans (grow_cut _ _)
      · exact grow_postPrimed h _ _ _ _

/-! ### WRITE -/

theorem growX_deliver (exs : List (Exch α)) (hok : ∀ e ∈ exs, ExOK e) (s : Stream α) (it : Item α) (evid : Option (Nat × Nat))
    (reqs : List Nat) (done : Bool) : GrowX exs (deliver exs s it evid reqs done).1 := by
  unfold deliver
  split
  · split
    · split
      · exact (growX_emitX _ hok _ _).trans (growX_finishX _ _)
      · exact GrowX.refl _
    · split
      · exact (growX_emitX _ hok _ _).trans (growX_finishX _ _)
      · exact growX_emitX _ hok _ _
  · exact GrowX.refl _

theorem grow_writeTo {c : Conn α} (h : Inv c) (s : Stream α) (msg : Msg α) (ctx : Option Nat) (ctxNew : Bool) :
    Grow c (writeTo c s msg ctx ctxNew).1 := by
  refine ⟨?_, ?_, Nat.le_refl _, rfl⟩
  · simp only [writeTo, wDeliver]; exact growX_deliver _ h.ex_ok _ _ _ _ _
  · simp only [writeTo]
    split
    · exact logLE_appendLog _ _ _
    · exact LogLE.refl _

theorem grow_eraseResp (c : Conn α) (msg : Msg α) : Grow c (eraseResp c msg) :=
  ⟨by simp; exact GrowX.refl _, by simp; exact LogLE.refl _, by simp, by simp⟩

theorem grow_write {c : Conn α} (h : Inv c) (msg : Msg α) (ctx : Option Nat) (ctxNew : Bool) :
    Grow c (writeR c msg ctx ctxNew).1 := by
  unfold writeR
  split
  · exact Grow.refl c
  · split
    · exact grow_eraseResp c msg
    · split
      · exact grow_eraseResp c msg
      · exact (grow_eraseResp c msg).trans (grow_writeTo (inv_eraseResp h msg) _ _ _ _)

/-! ### GET -/

theorem grow_replayLoop {c : Conn α} (h : Inv c) (ex sid k : Nat) (items : List (Item α)) :
    Grow c (replayLoop c ex sid k items).1 := by
  induction items generalizing c k with
  | nil => exact Grow.refl c
  | cons it rest ih =>
    unfold replayLoop
    split
    · exact (grow_emit h _ _).trans (ih (inv_emit h _ _) _)
    · exact grow_emit h _ _

theorem grow_getOpen {c : Conn α} (h : Inv c) (sid frm : Nat) (budget : Option Nat) : Grow c (getOpen c sid frm budget) := by
  have happ : Grow c ({ c with exs := c.exs ++ [{ kind := .sse, budget := budget, stream := sid, «from» := frm }] } : Conn α) :=
    ⟨growX_append _ _, LogLE.refl _, Nat.le_refl _, rfl⟩
  unfold getOpen
  split
  · exact happ.trans (grow_emit (inv_append_ex h _ (fun hl => absurd rfl hl)) _ _)
  · exact happ

theorem grow_setStreams (c : Conn α) (l : List (Stream α)) : Grow c { c with streams := l } :=
  ⟨GrowX.refl _, LogLE.refl _, Nat.le_refl _, rfl⟩

theorem grow_getGo {c : Conn α} (h : Inv c) (sid frm : Nat) (ver : Ver) (budget : Option Nat) (items : List (Item α)) :
    Grow c (getGo c sid frm ver budget items) := by
  have h1 := grow_getOpen h sid frm budget
  have h2 := grow_replayLoop (getOpen_inv h sid frm budget) c.exs.length sid frm items
  have h12 := h1.trans h2
  unfold getGo
  split
  · split
    · exact h12.trans (grow_finish _ _)
    · split
      · exact h12.trans (grow_finish _ _)
      · unfold attach
        split
        · exact h12.trans ((grow_setStreams _ _).trans (grow_cut _ _))
        · exact h12.trans (grow_setStreams _ _)
  · exact h12.trans (grow_finish _ _)

theorem grow_get {c : Conn α} (h : Inv c) (hdr : Hdr) (ver : Ver) (budget : Option Nat) : Grow c (get c hdr ver budget) := by
  unfold get
  split
  · exact grow_statusEx c _ _
  · split
    · exact grow_statusEx c _ _
    · split
      · exact grow_statusEx c _ _
      · split
        · exact grow_statusEx c _ _
        · exact grow_getGo h _ _ _ _ _

/-! ### evictions: only EVICT touches `purged`, and it only moves forward, never past the end of the log -/

theorem replayLoop_purged (c : Conn α) (ex sid k : Nat) (items : List (Item α)) :
    (replayLoop c ex sid k items).1.purged = c.purged := by
  induction items generalizing c k with
  | nil => rfl
  | cons it rest ih =>
    unfold replayLoop
    split
    · rw [ih]; rfl
    · rfl

theorem step_purged_other (c : Conn α) (l : Label α) (hl : ∀ sid n, l ≠ .evict sid n) : (step c l).purged = c.purged := by
  cases l with
  | evict sid n => exact absurd rfl (hl _ _)
  | post calls listen ver b =>
    show (post c calls listen ver b).purged = c.purged
    unfold post
    split
    · rfl
    · split
      · rfl
      · rw [postNew_eq]
        have : (postPrimed c (dedup calls) listen ver b).purged = c.purged := by
          unfold postPrimed; split <;> rfl
        split
        · simp [cut, finish, this]
        · exact this
  | write msg ctx ctxNew =>
    show (writeR c msg ctx ctxNew).1.purged = c.purged
    unfold writeR
    split
    · rfl
    · split
      · unfold eraseResp; split <;> rfl
      · split
        · unfold eraseResp; split <;> rfl
        · simp only [writeTo]; unfold eraseResp; split <;> rfl
  | cut ex => rfl
  | wfail ex => rfl
  | get hdr ver budget =>
    show (get c hdr ver budget).purged = c.purged
    have hgo : ∀ sid frm items, (getGo c sid frm ver budget items).purged = c.purged := by
      intro sid frm items
      have b1 : (getOpen c sid frm budget).purged = c.purged := by unfold getOpen; split <;> rfl
      have b2 := replayLoop_purged (getOpen c sid frm budget) c.exs.length sid frm items
      unfold getGo
      split
      · split
        · simp [finish, b1, b2]
        · split
          · simp [finish, b1, b2]
          · unfold attach; split <;> simp [cut, finish, b1, b2]
      · simp [finish, b1, b2]
    unfold get
    split
    · rfl
    · split
      · rfl
      · split
        · rfl
        · split
          · rfl
          · exact hgo _ _ _
  | sclose req retry =>
    show (sclose c req retry).purged = c.purged
    unfold sclose
    split
    · rfl
    · split
      · rfl
      · split
        · split <;> rfl
        · rfl
  | «end» => rfl
  | wroute msg ctx ctxNew =>
    show (wrouteR c msg ctx ctxNew).1.purged = c.purged
    unfold wrouteR
    split
    · rfl
    · split
      · simp
      · split <;> simp
  | wdeliver i =>
    show (wdeliverR c i).1.purged = c.purged
    unfold wdeliverR
    split
    · rfl
    · split
      · simp [writeTo]
      · simp [orphanWrite]

/-- the store never evicts what it does not hold: `purged sid ≤ |log sid|` -/
def InvP (c : Conn α) : Prop := ∀ sid, c.purged sid ≤ ((c.store sid).getD []).length

theorem invP_init (cfg : Cfg) : InvP (init cfg : Conn α) := by intro sid; simp [init]

theorem logLen_mono {c c' : Conn α} (h : LogLE c.store c'.store) (sid : Nat) :
    ((c.store sid).getD []).length ≤ ((c'.store sid).getD []).length := by
  cases hl : c.store sid with
  | none => simp
  | some log =>
    obtain ⟨more, hm⟩ := h sid log hl
    simp [hm]

theorem grow_step {c : Conn α} (h : Inv c) (l : Label α) : Grow c (step c l) := by
  cases l with
  | post calls listen ver budget => exact grow_post h _ _ _ _
  | write msg ctx ctxNew => exact grow_write h _ _ _
  | cut ex => exact grow_cut c ex
  | wfail ex => exact grow_wfail c ex
  | get hdr ver budget => exact grow_get h _ _ _
  | sclose req retry => exact grow_sclose h _ _
  | «end» => exact ⟨GrowX.refl _, LogLE.refl _, Nat.le_refl _, rfl⟩
  | evict sid n => exact ⟨GrowX.refl _, LogLE.refl _, Nat.le_refl _, rfl⟩
  | wroute msg ctx ctxNew =>
    show Grow c (wrouteR c msg ctx ctxNew).1
    unfold wrouteR
    split
    · exact Grow.refl c
    · split
      · exact grow_eraseResp c msg
      · split
        · exact grow_eraseResp c msg
        · exact ⟨by simp; exact GrowX.refl _, by simp; exact LogLE.refl _, by simp, by simp⟩
  | wdeliver i =>
    show Grow c (wdeliverR c i).1
    unfold wdeliverR
    split
    · exact Grow.refl c
    · rename_i pw hpw
      have h1 : Inv ({ c with pendW := c.pendW.eraseIdx i } : Conn α) :=
        inv_pendW h _ (fun x hx => h.pend_lt x (mem_eraseIdx hx))
      have g0 : Grow c ({ c with pendW := c.pendW.eraseIdx i } : Conn α) := ⟨GrowX.refl _, LogLE.refl _, Nat.le_refl _, rfl⟩
      split
      · exact g0.trans (grow_writeTo h1 _ _ _ _)
      · refine g0.trans ⟨GrowX.refl _, ?_, Nat.le_refl _, rfl⟩
        simp only [orphanWrite]
        split
        · exact logLE_appendLog _ _ _
        · exact LogLE.refl _

theorem invP_step {c : Conn α} (hw : Inv c) (h : InvP c) (l : Label α) : InvP (step c l) := by
  by_cases hl : ∀ sid n, l ≠ .evict sid n
  · intro sid
    rw [step_purged_other c l hl]
    exact Nat.le_trans (h sid) (logLen_mono (grow_step hw l).store sid)
  · cases l with
    | evict sid n =>
      intro k
      show (evict c sid n).purged k ≤ (((evict c sid n).store k).getD []).length
      simp only [evict]
      split
      · rename_i hk
        subst hk
        have := h k
        omega
      · exact h k
    | post _ _ _ _ => exact absurd (by intros; simp) hl
    | write _ _ _ => exact absurd (by intros; simp) hl
    | cut _ => exact absurd (by intros; simp) hl
    | wfail _ => exact absurd (by intros; simp) hl
    | get _ _ _ => exact absurd (by intros; simp) hl
    | sclose _ _ => exact absurd (by intros; simp) hl
    | «end» => exact absurd (by intros; simp) hl
    | wroute _ _ _ => exact absurd (by intros; simp) hl
    | wdeliver _ => exact absurd (by intros; simp) hl

/-- `purged` only moves forward -/
theorem purged_mono_step (c : Conn α) (l : Label α) (sid : Nat) : c.purged sid ≤ (step c l).purged sid := by
  by_cases hl : ∀ sid n, l ≠ .evict sid n
  · rw [step_purged_other c l hl]; exact Nat.le_refl _
  · cases l with
    | evict s n =>
      show c.purged sid ≤ (evict c s n).purged sid
      simp only [evict]
      split
      · omega
      · exact Nat.le_refl _
    | post _ _ _ _ => exact absurd (by intros; simp) hl
    | write _ _ _ => exact absurd (by intros; simp) hl
    | cut _ => exact absurd (by intros; simp) hl
    | wfail _ => exact absurd (by intros; simp) hl
    | get _ _ _ => exact absurd (by intros; simp) hl
    | sclose _ _ => exact absurd (by intros; simp) hl
    | «end» => exact absurd (by intros; simp) hl
    | wroute _ _ _ => exact absurd (by intros; simp) hl
    | wdeliver _ => exact absurd (by intros; simp) hl

theorem inv_runFrom {c : Conn α} (h : Inv c) (ls : List (Label α)) : Inv (run c ls) := by
  induction ls generalizing c with
  | nil => exact h
  | cons l t ih => simp only [run, List.foldl_cons]; exact ih (inv_step h l)

theorem grow_run {c : Conn α} (h : Inv c) (ls : List (Label α)) : Grow c (run c ls) := by
  induction ls generalizing c with
  | nil => exact Grow.refl c
  | cons l t ih =>
    simp only [run, List.foldl_cons]
    exact (grow_step h l).trans (ih (inv_step h l))

theorem invP_runFrom {c : Conn α} (hw : Inv c) (h : InvP c) (ls : List (Label α)) : InvP (run c ls) := by
  induction ls generalizing c with
  | nil => exact h
  | cons l t ih => simp only [run, List.foldl_cons]; exact ih (inv_step hw l) (invP_step hw h l)

theorem purged_mono_run (c : Conn α) (ls : List (Label α)) (sid : Nat) : c.purged sid ≤ (run c ls).purged sid := by
  induction ls generalizing c with
  | nil => exact Nat.le_refl _
  | cons l t ih =>
    simp only [run, List.foldl_cons]
    exact Nat.le_trans (purged_mono_step c l sid) (ih (step c l))

end Resume
