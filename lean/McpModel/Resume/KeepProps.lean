import McpModel.Resume.KeepBridge
/-!
# C08 — retention, run level

`resume_served_or_claimed_without_eviction`: over ALL label lists in which the store never evicts (no EVICT label: it was
never over its size limit), with a store, on an open session: a resume naming any stream the store holds a log of, from ANY
index — the same id again, an older one, a newer one, after any number of earlier resumes, completed or broken — is answered
with an SSE stream (whose content is the rest of the log: `exchange_output_is_log_segment`) or 409 while a live exchange
holds the stream (`resume_refused_only_while_claimed`); never 400.
-/
namespace Resume
variable {α : Type}

/-- the exchange a GET opens is answered 400, 409 or with an SSE stream -/
theorem get_kind_cases (c : Conn α) (hdr : Hdr) (ver : Ver) (budget : Option Nat)
    (e : Exch α) (he : (get c hdr ver budget).exs[c.exs.length]? = some e) :
    e.kind = .status 400 ∨ e.kind = .status 409 ∨ e.kind = .sse := by
  have hstatus : ∀ code, (statusEx c code).exs[c.exs.length]? = some e → e.kind = .status code := by
    intro code h
    simp [statusEx] at h
    rw [← h]
  unfold get at he
  split at he
  · exact Or.inl (hstatus _ he)
  · split at he
    · exact Or.inl (hstatus _ he)
    · split at he
      · exact Or.inr (Or.inl (hstatus _ he))
      · split at he
        · exact Or.inl (hstatus _ he)
        · exact Or.inr (Or.inr ((getGo_new c hdr.sid hdr.from ver budget _).2 e he).2.2.1)

theorem purged_zero_run : ∀ (ls : List (Label α)) (c : Conn α), (∀ l ∈ ls, l.isEvict = false) → (∀ t, c.purged t = 0) →
    ∀ t, (run c ls).purged t = 0 := by
  intro ls
  induction ls with
  | nil => intro c _ h; exact h
  | cons l rest ih =>
    intro c hne h
    have hl : ∀ sid n, l ≠ .evict sid n := by
      intro sid n hh
      have := hne l (List.mem_cons_self ..)
      rw [hh] at this; simp [Label.isEvict] at this
    have hstep : ∀ t, (step c l).purged t = 0 := by
      intro t; rw [step_purged_other c l hl]; exact h t
    exact ih (step c l) (fun l' hl' => hne l' (List.mem_cons_of_mem _ hl')) hstep

/-- **C08 (all numbers of successive resumes, all previously issued Last-Event-IDs).**  While the store never had to evict,
every resume of a stream it holds a log of is served (SSE) or refused 409 — never 400 — from any index, after any history. -/
theorem resume_served_or_claimed_without_eviction (cfg : Cfg) (hst : cfg.hasStore = true) (ls : List (Label α))
    (hne : ∀ l ∈ ls, l.isEvict = false) (t i : Nat) (ver : Ver) (budget : Option Nat)
    (hopen : (run (init cfg : Conn α) ls).isDone = false) (hk : ((run (init cfg : Conn α) ls).store t).isSome = true)
    (e : Exch α)
    (he : (get (run (init cfg : Conn α) ls) (.ok t i) ver budget).exs[(run (init cfg : Conn α) ls).exs.length]? = some e) :
    e.kind = .sse ∨ e.kind = .status 409 := by
  have hp := purged_zero_run ls (init cfg : Conn α) hne (fun _ => by simp [init]) t
  have hcfg : (run (init cfg : Conn α) ls).cfg.hasStore = true := by rw [run_cfg]; exact hst
  have h400 := resume_of_known_stream_not_refused (run (init cfg : Conn α) ls) t i ver budget hcfg hopen hk (by omega) e he
  rcases get_kind_cases _ _ _ _ e he with h | h | h
  · exact absurd h h400
  · exact Or.inr h
  · exact Or.inl h

/-- non-vacuity: call 2 (primed), two notifications, cut, a resume from the newest id, cut, then a resume from the OLDEST id:
served with an SSE stream -/
example :
    let c := run (init ⟨false, false, true, false⟩ : Conn Nat)
      [.post [2] false .v1125 none, .write (.notif 10) (some 2) false, .write (.notif 11) (some 2) false, .cut 0,
       .get (.ok 1 2) .v1125 none, .cut 1]
    ((get c (.ok 1 0) .v1125 none).exs[2]?).map (·.kind) = some .sse := by decide

end Resume
