import McpModel.Resume.Monitor
/-!
E5 — the typed core of the C02 clauses on the streamable server: *every call of a POST (a batch of several calls under
pre-2025-06-18 versions) is answered exactly once and the exchange completes.*

The monitor looks at the implementation's observations only.  It remembers, per session, the last snapshot of the real
`streams` / `requestStreams` tables and judges
* `orphanReg` — a snapshot in which `requestStreams` still maps a call to a stream that is no longer in `streams`, or no
  longer lists the call as outstanding: the response of that call will be refused ("write to closed stream"), the call
  is never answered, its POST never completes;
* when the handler of call `r` finishes (operation `resp`) and the last snapshot of the (open) session showed `r`
  outstanding on a stream that is attached to exchange `x` and open:
  `unanswered` — SSE stream: no `message` carrying the response was written to `x`;
  `unansweredJson` — JSON stream and `r` was its last outstanding call: no body holding the response was written to `x`;
  `incomplete` — `r` was the stream's last outstanding call and the handler of `x` did not return.
`Mon.batchStep` is a pure function; `McpModel.Resume.BatchBridge` proves that it raises nothing on the observation trace
of the model and what each clause means.  Core Lean only (linked into the driver).
-/
namespace Resume
namespace Mon

/-- one row of the snapshot of `c.streams`, with the outstanding requests -/
structure BRow where
  t : Nat
  att : Option Nat
  opn : Bool
  sse : Bool
  reqs : List Nat

structure BSnap (σ : Type) where
  sess : σ
  done : Bool                  -- `isDone`
  rows : List BRow
  regs : List (Nat × Nat)      -- `requestStreams`: (request id, stream)

inductive BOp (σ π : Type) where
  | resp (sess : σ) (r : Nat) (p : π)     -- the handler of call `r` of session `sess` finishes; `p` = the payload of its response
  | other

structure BObs (σ π : Type) where
  op : BOp σ π
  sent : List (Sent π)
  ends : List Nat
  snaps : List (BSnap σ)

inductive ClauseB where
  | orphanReg | unanswered | unansweredJson | incomplete
deriving DecidableEq, Repr

def ClauseB.text : ClauseB → String
  | .orphanReg => "C02: a call is still registered in requestStreams but its stream is gone from the session (or no longer lists it): its response will be refused as 'write to closed stream' — the call is never answered and its POST never completes (calls of one batch share a stream; it is done with the LAST response)"
  | .unanswered => "C02: the handler of a call finished while its POST exchange was attached and open, but no response for it was written to that exchange (a call of the batch stays unanswered)"
  | .unansweredJson => "C02: the last call of a POST was answered while its exchange was attached and open (JSON mode), but no body holding the response was written"
  | .incomplete => "C02: every call of the POST has been answered but the exchange did not complete (the POST hangs)"

structure BatchS (σ : Type) where
  last : σ → Option (BSnap σ) := fun _ => none

def batchInit {σ : Type} : BatchS σ := {}

variable {σ π : Type} [DecidableEq σ] [DecidableEq π]

/-- does `requestStreams[r] = t` point at a registered stream that lists `r` as outstanding? -/
def regOK (rows : List BRow) (x : Nat × Nat) : Bool := rows.any fun row => row.t == x.2 && row.reqs.contains x.1

def snapOrphan (s : BSnap σ) : Bool := s.regs.any fun x => !regOK s.rows x

def orphan (snaps : List (BSnap σ)) : Bool := snaps.any snapOrphan

/-- a write of the response payload `p` to exchange `x` (delivered or into a failing writer) -/
def respOn (p : π) (x : Nat) (s : Sent π) : Bool :=
  s.k == x && match s.out with
    | .message _ q => decide (q = p)
    | .json ps => ps.contains p
    | _ => false

/-- the clause of a finished handler, judged on the row that listed its call -/
def rowClause (row : BRow) (r : Nat) (p : π) (o : BObs σ π) : Option ClauseB :=
  match row.att with
  | none => none
  | some x =>
    if !row.opn then none
    else if row.sse && !(o.sent.any (respOn p x)) then some .unanswered
    else if !row.sse && (row.reqs.all (· == r) && row.t != 0) && !(o.sent.any (respOn p x)) then some .unansweredJson
    else if (row.reqs.all (· == r) && row.t != 0) && !(o.ends.contains x) then some .incomplete
    else none

def checkResp (m : BatchS σ) (o : BObs σ π) : Option ClauseB :=
  match o.op with
  | .resp sess r p =>
    match m.last sess with
    | none => none
    | some sn =>
      if sn.done then none else
      match sn.rows.find? (fun row => row.reqs.contains r) with
      | none => none
      | some row => rowClause row r p o
  | .other => none

def applyBSnaps (last : σ → Option (BSnap σ)) (snaps : List (BSnap σ)) : σ → Option (BSnap σ) :=
  snaps.foldl (fun h s => fun s' => if s' = s.sess then some s else h s') last

def batchStep (m : BatchS σ) (o : BObs σ π) : BatchS σ × Option ClauseB :=
  ({ last := applyBSnaps m.last o.snaps }, checkResp m o <|> (if orphan o.snaps then some .orphanReg else none))

def batchRun (m : BatchS σ) : List (BObs σ π) → BatchS σ × Option ClauseB
  | [] => (m, none)
  | o :: t => ((batchRun (batchStep m o).1 t).1, (batchStep m o).2 <|> (batchRun (batchStep m o).1 t).2)

end Mon
end Resume
