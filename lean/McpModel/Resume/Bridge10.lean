import McpModel.Resume.Tag10
import McpModel.Resume.Bridge08
/-!
E5 — bridging for C10, monitor side: the relation `MonRel10` between the monitor's knowledge (which POST
exchange created which stream, which stream a GET exchange serves, the ids and listen flag of POST
exchanges) and the model's ghost history; under it the routing check accepts every message whose tag is
consistent with the stream it sits on (`routeCheck_ok`).
-/
namespace Resume
open Mon
variable {α σ : Type} [DecidableEq α] [DecidableEq σ]

/-- what the monitor knows about exchange `k` (model: `e`) -/
structure RelX (sn : σ) (c : Conn α) (k : Nat) (me : MEx σ) (e : Exch α) : Prop where
  sess : me.sess = sn
  getS : me.isGet = true → e.live → me.stream = some e.stream
  getNB : me.isGet = true → ∀ t, c.born t ≠ some k
  post : me.isGet = false → e.live → c.born e.stream = some k
  info : c.born e.stream = some k → ∀ calls li, c.hist e.stream = some (calls, li) → me.isListen = li ∧ ∀ r ∈ calls, r ∈ me.ids
  str : e.live → ∀ t, me.stream = some t → t = e.stream

structure MonRel10 (sn : σ) (m : MonS σ α) (c : Conn α) : Prop where
  json : m.jsonMode = c.cfg.jsonResponse
  exs : ∀ (j : Nat) (e : Exch α), c.exs[j]? = some e → ∃ me, m.exs j = some me ∧ RelX sn c j me e
  posts : ∀ t p, m.posts sn t = some p → c.born t = some p

/-- the creator the monitor has on record is a POST exchange with the stream's ids and listen flag -/
theorem creator_info {sn : σ} {m : MonS σ α} {c : Conn α} (hm : MonRel10 sn m c) (hb : InvBorn c) {t p : Nat}
    (hp : c.born t = some p) :
    ∃ me, m.exs p = some me ∧ me.isGet = false ∧ ∀ calls li, c.hist t = some (calls, li) → me.isListen = li ∧ ∀ r ∈ calls, r ∈ me.ids := by
  obtain ⟨e, he, hs, _, _⟩ := hb.ex t p hp
  obtain ⟨me, hme, r⟩ := hm.exs p e he
  refine ⟨me, hme, ?_, ?_⟩
  · cases hg : me.isGet with
    | false => rfl
    | true => exact absurd hp (r.getNB hg t)
  · intro calls li hh
    exact r.info (by rw [hs]; exact hp) calls li (by rw [hs]; exact hh)

/-- where a message sits, as the monitor sees it: in the store, or on a live exchange -/
inductive Place (sn : σ) (m : MonS σ α) (c : Conn α) (sid : Nat) : Option Nat → Option Nat → Prop where
  | store : Place sn m c sid (some sid) none
  | exch (k : Nat) (me : MEx σ) (e : Exch α) : c.exs[k]? = some e → e.live → e.stream = sid → m.exs k = some me →
      Place sn m c sid me.stream (some k)

theorem own_ok {sn : σ} {m : MonS σ α} {c : Conn α} (hm : MonRel10 sn m c) (hb : InvBorn c) {sid post : Nat}
    (hborn : c.born sid = some post) {stream k : Option Nat} (hpl : Place sn m c sid stream k) :
    own m sn stream k post ≠ .no ∧ (own m sn stream k post = .unknown → stream = some sid) := by
  have hsid : sid ≠ 0 := (hb.lt sid post hborn).2
  cases hpl with
  | store =>
    unfold own
    rw [if_neg (by simp)]
    simp only [creator]
    cases hp : m.posts sn sid with
    | some p =>
      have := hm.posts sid p hp
      rw [hborn] at this; cases this
      simp
    | none =>
      simp [creatorUnknown, hp, isGetEx, hsid]
  | exch k me e he hl hs hme =>
    obtain ⟨me', hme', r⟩ := hm.exs k e he
    rw [hme] at hme'; cases hme'
    unfold own
    by_cases hk : k = post
    · subst hk; simp
    · rw [if_neg (by simp [hk])]
      have hget : me.isGet = true := by
        cases hg : me.isGet with
        | true => rfl
        | false =>
          have := r.post hg hl
          rw [hs, hborn] at this; cases this; exact absurd rfl hk
      have hst : me.stream = some sid := by rw [r.getS hget hl, hs]
      rw [hst]
      simp only [creator]
      cases hp : m.posts sn sid with
      | some p =>
        have := hm.posts sid p hp
        rw [hborn] at this; cases this
        simp
      | none =>
        simp [creatorUnknown, hp, isGetEx, hme, hget, hsid]

theorem standalone_ok {sn : σ} {m : MonS σ α} {c : Conn α} (hm : MonRel10 sn m c) (hb : InvBorn c) {sid : Nat}
    (h : sid = 0 ∨ listenOf c sid) {stream k : Option Nat} (hpl : Place sn m c sid stream k) :
    standaloneOrListen m sn stream k = true := by
  unfold standaloneOrListen
  -- a listen stream other than the standalone one has a creator in the model
  have hcre : sid ≠ 0 → listenOf c sid → ∀ p, m.posts sn sid = some p → isListenEx m (some p) = true := by
    intro _ ⟨calls, hh⟩ p hp
    obtain ⟨mp, hmp, _, hinfo⟩ := creator_info hm hb (hm.posts sid p hp)
    simp [isListenEx, hmp, (hinfo calls true hh).1]
  cases hpl with
  | store =>
    by_cases h0 : sid = 0
    · subst h0; simp
    · have hl : listenOf c sid := by rcases h with h | h; exact absurd h h0; exact h
      cases hp : m.posts sn sid with
      | some p => simp [creator, hp, hcre h0 hl p hp]
      | none => simp [creatorUnknown, hp, isGetEx, h0]
  | exch k me e he hl hs hme =>
    obtain ⟨me', hme', r⟩ := hm.exs k e he
    rw [hme] at hme'; cases hme'
    cases hg : me.isGet with
    | false =>
      have hbk := r.post hg hl
      rw [hs] at hbk
      have h0 : sid ≠ 0 := (hb.lt sid k hbk).2
      have hlis : listenOf c sid := by rcases h with h | h; exact absurd h h0; exact h
      obtain ⟨calls, hh⟩ := hlis
      have := (r.info (by rw [hs]; exact hbk) calls true (by rw [hs]; exact hh)).1
      simp [isListenEx, hme, this]
    | true =>
      have hst : me.stream = some sid := by rw [r.getS hg hl, hs]
      rw [hst]
      by_cases h0 : sid = 0
      · subst h0; simp
      · have hlis : listenOf c sid := by rcases h with h | h; exact absurd h h0; exact h
        cases hp : m.posts sn sid with
        | some p => simp [creator, hp, hcre h0 hlis p hp]
        | none => simp [creatorUnknown, hp, isGetEx, hme, hg, h0]

theorem initResp_ok {sn : σ} {m : MonS σ α} {c : Conn α} (hm : MonRel10 sn m c) (hb : InvBorn c) {sid id : Nat}
    {calls : List Nat} {li : Bool} (hh : c.hist sid = some (calls, li)) (hid : id ∈ calls) (hsid : sid ≠ 0)
    {stream k : Option Nat} (hpl : Place sn m c sid stream k) :
    ((idsOfEx m k).contains id || (idsOfEx m (creator m sn stream)).contains id || creatorUnknown m sn stream k) = true := by
  have hbs : (c.born sid).isSome := hb.hist sid hsid (by rw [hh]; rfl)
  obtain ⟨p0, hp0⟩ := Option.isSome_iff_exists.mp hbs
  have hcre : ∀ p, m.posts sn sid = some p → (idsOfEx m (some p)).contains id = true := by
    intro p hp
    obtain ⟨mp, hmp, _, hinfo⟩ := creator_info hm hb (hm.posts sid p hp)
    simp [idsOfEx, hmp, (hinfo calls li hh).2 id hid]
  cases hpl with
  | store =>
    cases hp : m.posts sn sid with
    | some p =>
      have hc : creator m sn (some sid) = some p := by simp [creator, hp]
      rw [hc, hcre p hp]; simp
    | none => simp [creatorUnknown, hp, isGetEx, hsid]
  | exch k me e he hl hs hme =>
    obtain ⟨me', hme', r⟩ := hm.exs k e he
    rw [hme] at hme'; cases hme'
    cases hg : me.isGet with
    | false =>
      have hbk := r.post hg hl
      have := (r.info hbk calls li (by rw [hs]; exact hh)).2 id hid
      have hc : (idsOfEx m (some k)).contains id = true := by simp [idsOfEx, hme, this]
      rw [hc]; simp
    | true =>
      have hst : me.stream = some sid := by rw [r.getS hg hl, hs]
      rw [hst]
      cases hp : m.posts sn sid with
      | some p =>
        have hc : creator m sn (some sid) = some p := by simp [creator, hp]
        rw [hc, hcre p hp]; simp
      | none => simp [creatorUnknown, hp, isGetEx, hme, hg, hsid]

/-- **the routing check accepts a consistently tagged message** wherever it sits -/
theorem routeCheck_ok {prov : α → Prov σ} {sn : σ} {m : MonS σ α} {c : Conn α} (hm : MonRel10 sn m c) (hb : InvBorn c)
    {sid : Nat} {it : Item α} (htag : TagOK prov sn c sid it) (hrt : Routed c sid it) {stream k : Option Nat}
    (hpl : Place sn m c sid stream k) : routeCheck m (prov (payloadOf it)) sn stream k = none := by
  unfold TagOK at htag
  unfold routeCheck
  split at htag
  · rename_i id ps req post hp
    rw [hp]
    obtain ⟨h1, h2, h3, _⟩ := htag
    simp only [h1, h2, ne_eq, not_true_eq_false, if_false]
    rw [if_neg (own_ok hm hb h3 hpl).1]
  · rename_i id hp
    rw [hp]
    obtain ⟨p, hmsg⟩ := htag
    obtain ⟨calls, li, hh, hmem⟩ := hrt
    rw [hmsg] at hmem
    have hsid : sid ≠ 0 := by
      intro h0
      subst h0
      rw [hb.h0] at hh; cases hh; cases hmem
    simp only
    rw [if_pos (initResp_ok hm hb hh hmem hsid hpl)]
  · rename_i ps req post hp
    rw [hp]
    obtain ⟨h1, _, h3⟩ := htag
    simp only [h1, ne_eq, not_true_eq_false, if_false]
    rcases h3 with ⟨hj, hso⟩ | ⟨hj, hbo⟩
    · rw [hm.json, hj]
      simp only [if_true]
      rw [if_pos (standalone_ok hm hb hso hpl)]
    · rw [hm.json, hj]
      simp only [Bool.false_eq_true, if_false]
      rw [if_neg (own_ok hm hb hbo hpl).1]
  · rename_i ps hp
    rw [hp]
    obtain ⟨h1, _, h3⟩ := htag
    simp only [h1, ne_eq, not_true_eq_false, if_false]
    rw [if_pos (standalone_ok hm hb h3 hpl)]
  · rename_i hp
    rw [hp]
    simp only
    rw [if_pos (standalone_ok hm hb htag.2 hpl)]
  · rename_i ps req post hctx hp
    rw [hp]
    simp only
    rw [if_pos (standalone_ok hm hb htag.2 hpl)]
  · exact absurd htag id

/-! ### the monitor's updates keep the relation -/

theorem bindPost_posts (m : MonS σ α) (s : σ) (t k : Nat) (s' : σ) (t' : Nat) (p : Nat)
    (h : (m.bindPost s t k).posts s' t' = some p) : m.posts s' t' = some p ∨ (s' = s ∧ t' = t ∧ p = k) := by
  unfold MonS.bindPost at h
  split at h
  · exact Or.inl h
  · simp only at h
    split at h
    · rename_i hc; cases h; exact Or.inr ⟨hc.1, hc.2, rfl⟩
    · exact Or.inl h

theorem bindPost_rel {sn : σ} {m : MonS σ α} {c : Conn α} (hm : MonRel10 sn m c) (s : σ) {t p : Nat} (hb : c.born t = some p) :
    MonRel10 sn (m.bindPost s t p) c := by
  refine ⟨by rw [bindPost_jsonMode]; exact hm.json, by rw [bindPost_exs]; exact hm.exs, ?_⟩
  intro t' p' hp
  rcases bindPost_posts m s t p sn t' p' hp with h | ⟨_, rfl, rfl⟩
  · exact hm.posts t' p' h
  · exact hb

theorem routeBind_rel {prov : α → Prov σ} {sn : σ} {m : MonS σ α} {c : Conn α} (hm : MonRel10 sn m c) (hb : InvBorn c)
    {sid : Nat} {it : Item α} (htag : TagOK prov sn c sid it) {stream k : Option Nat} (hpl : Place sn m c sid stream k) :
    MonRel10 sn (routeBind m (prov (payloadOf it)) sn stream k) c := by
  unfold routeBind
  split
  · exact hm
  · rename_i t
    unfold TagOK at htag
    split
    · rename_i id ps req post hp
      rw [hp] at htag
      split
      · rename_i hc
        have := (own_ok hm hb htag.2.2.1 hpl).2 hc.2.2
        cases this
        exact bindPost_rel hm sn htag.2.2.1
      · exact hm
    · rename_i ps req post hp
      rw [hp] at htag
      split
      · rename_i hc
        rcases htag.2.2 with ⟨hj, _⟩ | ⟨_, hbo⟩
        · rw [hm.json, hj] at hc; exact absurd hc.2.1 (by simp)
        · have := (own_ok hm hb hbo hpl).2 hc.2.2
          cases this
          exact bindPost_rel hm sn hbo
      · exact hm
    · exact hm

theorem monRel10_putEx {sn : σ} {m : MonS σ α} {c : Conn α} (hm : MonRel10 sn m c) (k : Nat) (me' : MEx σ)
    (hk : ∀ e, c.exs[k]? = some e → RelX sn c k me' e) : MonRel10 sn (m.putEx k me') c := by
  refine ⟨hm.json, ?_, hm.posts⟩
  intro j e he
  by_cases hj : j = k
  · subst hj; exact ⟨me', by simp, hk e he⟩
  · obtain ⟨me, hme, r⟩ := hm.exs j e he
    exact ⟨me, by simp [hj, hme], r⟩

theorem relX_bump {sn : σ} {c : Conn α} {k : Nat} {me : MEx σ} {e : Exch α} (r : RelX sn c k me e) (t : Nat) (lost : Bool)
    (ht : t = e.stream) : RelX sn c k (bump me t lost) e := by
  refine ⟨r.sess, ?_, r.getNB, r.post, r.info, ?_⟩
  · intro hg hl
    show (if me.stream.isSome then me.stream else some t) = some e.stream
    rw [r.getS hg hl]; rfl
  · intro hl t' ht'
    have ht'' : (if me.stream.isSome then me.stream else some t) = some t' := ht'
    split at ht''
    · exact r.str hl t' ht''
    · cases ht''; exact ht

theorem ev08_rel {sn : σ} {m : MonS σ α} {c : Conn α} (hm : MonRel10 sn m c) {k : Nat} {me : MEx σ} {e : Exch α}
    (he : c.exs[k]? = some e) (r : RelX sn c k me e) (lost : Bool) (id : EvId) (pay : Option α)
    (hid : ∀ t i, id = .ok t i → t = e.stream) :
    MonRel10 sn (ev08 m k me lost id pay).1 c ∧ (ev08 m k me lost id pay).2.v10 = none := by
  unfold ev08
  split
  · exact ⟨hm, rfl⟩
  · split
    · exact ⟨hm, rfl⟩
    · exact ⟨hm, rfl⟩
    · rename_i t i
      refine ⟨monRel10_putEx hm k _ ?_, rfl⟩
      intro e1 he1
      rw [he] at he1; cases he1
      exact relX_bump r t lost (hid t i rfl)

/-- the invariants of the model state the monitor's C10 reasoning rests on -/
structure Inv10All (prov : α → Prov σ) (sn : σ) (c : Conn α) : Prop where
  w : Inv c
  k : InvK c
  r : Inv10 c
  b : InvBorn c
  j : InvJ c
  id : InvId c
  tag : InvMsg (TagOK prov sn) c
  pr : PendRouted c
  pp : PendP (TagOK prov sn) c

theorem isRespProv_of_tag {prov : α → Prov σ} {sn : σ} {c : Conn α} {sid : Nat} {it : Item α} (htag : TagOK prov sn c sid it)
    (hr : ∃ id p, it.msg = .resp id p) : isRespProv (prov (payloadOf it)) = true := by
  obtain ⟨id, p, hmsg⟩ := hr
  unfold TagOK at htag
  split at htag
  · rename_i hp; rw [hp]; rfl
  · rename_i hp; rw [hp]; rfl
  · exact absurd hmsg (htag.2.1 id p)
  · exact absurd hmsg (htag.2.1 id p)
  · exact absurd hmsg (htag.1 id p)
  · exact absurd hmsg (htag.1 id p)
  · exact False.elim htag

theorem jsonFold_ok {prov : α → Prov σ} {sn : σ} {c : Conn α} (hb : InvBorn c) {k sid : Nat} {me : MEx σ} {e : Exch α}
    (he : c.exs[k]? = some e) (hl : e.live) (hs : e.stream = sid) :
    ∀ (its : List (Item α)), (∀ it ∈ its, TagOK prov sn c sid it ∧ Routed c sid it ∧ ∃ id p, it.msg = .resp id p) →
    ∀ (m : MonS σ α), MonRel10 sn m c → m.exs k = some me →
      (foldV (jsonOne prov sn me.stream k) m (its.map payloadOf)).2.v10 = none ∧
      MonRel10 sn (foldV (jsonOne prov sn me.stream k) m (its.map payloadOf)).1 c := by
  intro its
  induction its with
  | nil => intro _ m hm _; exact ⟨rfl, hm⟩
  | cons it rest ih =>
    intro hall m hm hme
    obtain ⟨htag, hrt, hresp⟩ := hall it List.mem_cons_self
    have hpl : Place sn m c sid me.stream (some k) := Place.exch k me e he hl hs hme
    have h1 := routeCheck_ok hm hb htag hrt hpl
    have h2 := routeBind_rel hm hb htag hpl
    obtain ⟨a1, a2⟩ := ih (fun x hx => hall x (List.mem_cons_of_mem _ hx))
      (routeBind m (prov (payloadOf it)) sn me.stream (some k)) h2 (by rw [routeBind_exs]; exact hme)
    simp only [List.map_cons, foldV]
    refine ⟨?_, a2⟩
    simp only [jsonOne, h1, isRespProv_of_tag htag hresp, if_true, Viol.or]
    simpa using a1

theorem evStep_ok10 {prov : α → Prov σ} {sn : σ} {c : Conn α} (hi : Inv10All prov sn c) {m : MonS σ α} (hm : MonRel10 sn m c)
    (x : Nat × Bool × Out α) (e : Exch α) (he : c.exs[x.1]? = some e) (hx : x.2.2 ∈ e.all) :
    (evStep prov m (toSent x)).2.v10 = none ∧ MonRel10 sn (evStep prov m (toSent x)).1 c := by
  obtain ⟨k, lost, o⟩ := x
  simp only at he hx
  obtain ⟨me, hme, r⟩ := hm.exs k e he
  have hlive : e.live := by
    by_cases hl : e.live
    · exact hl
    · have := (hi.k k e he hl).1; rw [this] at hx; cases hx
  have hpl : Place sn m c e.stream me.stream (some k) := Place.exch k me e he hlive rfl hme
  unfold evStep
  simp only [toSent, hme]
  cases o with
  | comment => exact ⟨rfl, hm⟩
  | close => exact ⟨rfl, hm⟩
  | json items =>
    simp only [toMOut]
    rw [r.sess]
    refine jsonFold_ok hi.b he hlive rfl items ?_ m hm hme
    intro it hit
    exact ⟨hi.tag.ex k e he _ hx it hit, hi.r.routed_ex k e he _ hx it hit, json_body_responses hi.r hi.j k e he items hx it hit⟩
  | prime sid i =>
    simp only [toMOut]
    obtain ⟨a, b⟩ := ev08_rel hm he r lost (.ok sid i) none (by
      intro t i' h; cases h; exact hi.id k e he _ hx sid rfl)
    exact ⟨b, a⟩
  | message id it =>
    simp only [toMOut]
    have htag := hi.tag.ex k e he _ hx it (by simp [Out.items])
    have hrt := hi.r.routed_ex k e he _ hx it (by simp [Out.items])
    rw [r.sess]
    have h1 := routeCheck_ok hm hi.b htag hrt hpl
    have h2 := routeBind_rel hm hi.b htag hpl
    obtain ⟨a, b⟩ := ev08_rel h2 he r lost (toEvId id) (some (payloadOf it)) (by
      intro t i' h
      cases id with
      | none => cases h
      | some p =>
        obtain ⟨s0, i0⟩ := p
        simp only [toEvId, EvId.ok.injEq] at h
        exact hi.id k e he _ hx t (by simp [Out.sidOf, h.1]))
    refine ⟨?_, a⟩
    simp only [Viol.or, h1, Option.map_none]
    simpa using b

theorem events_ok10 {prov : α → Prov σ} {sn : σ} {c0 c : Conn α} (hi : Inv10All prov sn c) :
    ∀ (l : List (Nat × Bool × Out α)), (∀ x ∈ l, x ∈ sentM c0 c) → ∀ (m : MonS σ α), MonRel10 sn m c →
      (foldV (evStep prov) m (l.map toSent)).2.v10 = none ∧ MonRel10 sn (foldV (evStep prov) m (l.map toSent)).1 c := by
  intro l
  induction l with
  | nil => intro _ m hm; exact ⟨rfl, hm⟩
  | cons x t ih =>
    intro hl m hm
    obtain ⟨e, he, hx⟩ := mem_sentM (hl x List.mem_cons_self)
    obtain ⟨a1, a2⟩ := evStep_ok10 hi hm x e he hx
    obtain ⟨b1, b2⟩ := ih (fun y hy => hl y (List.mem_cons_of_mem _ hy)) _ a2
    simp only [List.map_cons, foldV]
    exact ⟨by simp [Viol.or, a1, b1], b2⟩

/-! ### appends -/

theorem addLog_rel {sn : σ} {m : MonS σ α} {c : Conn α} (hm : MonRel10 sn m c) (s : σ) (t : Nat) (p : Option α) :
    MonRel10 sn (m.addLog s t p) c := ⟨hm.json, hm.exs, hm.posts⟩

theorem appends_ok10 {prov : α → Prov σ} {sn : σ} {c : Conn α} (hi : Inv10All prov sn c) :
    ∀ (l : List (Append σ α)),
      (∀ a ∈ l, a.sess = sn ∧ ∀ p, a.p = some p → ∃ it, p = payloadOf it ∧ TagOK prov sn c a.stream it ∧ Routed c a.stream it) →
      ∀ (m : MonS σ α), MonRel10 sn m c →
      (foldV (appendOne prov) m l).2.v10 = none ∧ MonRel10 sn (foldV (appendOne prov) m l).1 c := by
  intro l
  induction l with
  | nil => intro _ m hm; exact ⟨rfl, hm⟩
  | cons a t ih =>
    intro hl m hm
    obtain ⟨hs, hp⟩ := hl a List.mem_cons_self
    have hstep : (appendOne prov m a).2.v10 = none ∧ MonRel10 sn (appendOne prov m a).1 c := by
      unfold appendOne
      split
      · exact ⟨rfl, addLog_rel hm _ _ _⟩
      · rename_i p hap
        split
        · obtain ⟨it, rfl, htag, hrt⟩ := hp p hap
          have hm1 := addLog_rel hm a.sess a.stream (some (payloadOf it))
          have hpl : Place sn (m.addLog a.sess a.stream (some (payloadOf it))) c a.stream (some a.stream) none := Place.store
          rw [hs] at hpl hm1 ⊢
          exact ⟨by simp [routeCheck_ok hm1 hi.b htag hrt hpl], routeBind_rel hm1 hi.b htag hpl⟩
        · exact ⟨rfl, addLog_rel hm _ _ _⟩
    obtain ⟨b1, b2⟩ := ih (fun y hy => hl y (List.mem_cons_of_mem _ hy)) _ hstep.2
    simp only [foldV]
    exact ⟨by simp [Viol.or, hstep.1, b1], b2⟩

theorem appendsOf_tagged {prov : α → Prov σ} {sn : σ} {c0 c : Conn α} (hi : Inv10All prov sn c) :
    ∀ a ∈ appendsOf sn c0 c, a.sess = sn ∧
      ∀ p, a.p = some p → ∃ it, p = payloadOf it ∧ TagOK prov sn c a.stream it ∧ Routed c a.stream it := by
  intro a ha
  unfold appendsOf at ha
  simp only [List.mem_flatMap, List.mem_range, List.mem_map] at ha
  obtain ⟨sid, _, x, hx, rfl⟩ := ha
  refine ⟨rfl, ?_⟩
  intro p hp
  simp only at hp
  cases x with
  | none => cases hp
  | some it =>
    simp only [Option.map_some, Option.some.injEq] at hp
    have hmem : some it ∈ (c.store sid).getD [] := List.mem_of_mem_drop hx
    cases hl : c.store sid with
    | none => rw [hl] at hmem; cases hmem
    | some log =>
      rw [hl] at hmem
      exact ⟨it, hp.symm, hi.tag.log sid log hl it hmem, hi.r.routed_log sid log hl it hmem⟩

end Resume
