import McpModel.Resume.Hold
import McpModel.Resume.HoldMon
/-!
# C08 — the claim clauses of the monitor: bridging theorems

* `holdMonitor_accepts_model`: on the observation trace of **every** label list of the model (no scope restriction,
  any configuration) `Mon.holdStep` raises neither `refusedFree` nor `staleClaim`.  So such a verdict needs an
  observation no model run produces.
* `Mon.refused_iff`, `Mon.stale_iff`, `Mon.holdStep_clause`: each clause is raised exactly when the corresponding
  clause of the property fails on the monitor's ground truth, and `Mon.holdRun_over` / `Mon.holdStep_held` say what that
  ground truth is (the handlers the implementation reported as returned; the claimants in its last snapshot).
-/
namespace Resume
open Mon
variable {α σ : Type}

/-! ### handlers never un-return -/

/-- has the handler of exchange `k` returned? (`false` for exchanges that do not exist yet) -/
def endedAt (c : Conn α) (k : Nat) : Bool := ((c.exs[k]?).map (·.ended)).getD false

def EndMonoX (exs exs' : List (Exch α)) : Prop :=
  ∀ (j : Nat) (e : Exch α), exs[j]? = some e → e.ended = true → ∃ e', exs'[j]? = some e' ∧ e'.ended = true

theorem EndMonoX.refl (exs : List (Exch α)) : EndMonoX exs exs := fun _ e h he => ⟨e, h, he⟩

theorem EndMonoX.trans {a b c : List (Exch α)} (h₁ : EndMonoX a b) (h₂ : EndMonoX b c) : EndMonoX a c := by
  intro j e h he
  obtain ⟨e', h', r1⟩ := h₁ j e h he
  exact h₂ j e' h' r1

theorem EndRel.mono {a b : List (Exch α)} (h : EndRel a b) : EndMonoX a b := by
  intro j e hj he
  obtain ⟨e', h', r⟩ := h j e hj
  exact ⟨e', h', r.trans he⟩

theorem endMonoX_finishX (exs : List (Exch α)) (ex : Nat) : EndMonoX exs (finishX exs ex) := by
  intro j e hj he
  by_cases hje : j = ex
  · subst hje
    exact ⟨{ e with ended := true }, by rw [finishX_eq, hj]; rfl, rfl⟩
  · exact ⟨e, by rw [finishX_ne _ _ _ hje]; exact hj, he⟩

theorem endMonoX_deliver (exs : List (Exch α)) (s : Stream α) (it : Item α) (evid : Option (SId × Nat))
    (reqs : List ReqId) (done : Bool) : EndMonoX exs (deliver exs s it evid reqs done).1 := by
  unfold deliver
  split
  · split
    · split
      · exact (endRel_emitX _ _ _).mono.trans (endMonoX_finishX _ _)
      · exact EndMonoX.refl _
    · split
      · exact (endRel_emitX _ _ _).mono.trans (endMonoX_finishX _ _)
      · exact (endRel_emitX _ _ _).mono
  · exact EndMonoX.refl _

theorem endMonoX_writeTo (c : Conn α) (s : Stream α) (msg : Msg α) (ctx : Option ReqId) (ctxNew : Bool) :
    EndMonoX c.exs (writeTo c s msg ctx ctxNew).1.exs := by
  simp only [writeTo, wDeliver]
  exact endMonoX_deliver _ _ _ _ _ _

theorem endMonoX_cut (c : Conn α) (ex : Nat) : EndMonoX c.exs (cut c ex).exs := by
  simp only [cut, finish]; exact endMonoX_finishX _ _

theorem endMonoX_emit (c : Conn α) (ex : Nat) (o : Out α) : EndMonoX c.exs (emit c ex o).1.exs := by
  simp only [emit]; exact (endRel_emitX _ _ _).mono

theorem endMonoX_attach (c : Conn α) (s : Stream α) (ex next : Nat) (ver : Ver) (closed : Bool) :
    EndMonoX c.exs (attach c s ex next ver closed).exs := by
  unfold attach
  split
  · exact endMonoX_cut _ _
  · exact EndMonoX.refl _

theorem endMonoX_getOpen (c : Conn α) (sid frm : Nat) (budget : Option Nat) : EndMonoX c.exs (getOpen c sid frm budget).exs := by
  unfold getOpen
  split
  · exact (endRel_append _ _).mono.trans
      (endMonoX_emit { c with exs := c.exs ++ [{ kind := .sse, budget := budget, stream := sid, «from» := frm }] } _ _)
  · exact (endRel_append _ _).mono

theorem endMonoX_getGo (c : Conn α) (sid frm : Nat) (ver : Ver) (budget : Option Nat) (items : List (Item α)) :
    EndMonoX c.exs (getGo c sid frm ver budget items).exs := by
  have h1 := (endMonoX_getOpen c sid frm budget).trans (replayLoop_endRel (getOpen c sid frm budget) c.exs.length sid frm items).mono
  unfold getGo
  split
  · split
    · exact h1.trans (endMonoX_finishX _ _)
    · split
      · exact h1.trans (endMonoX_finishX _ _)
      · exact h1.trans (endMonoX_attach _ _ _ _ _ _)
  · exact h1.trans (endMonoX_finishX _ _)

theorem endMonoX_step (c : Conn α) (l : Label α) : EndMonoX c.exs (step c l).exs := by
  unfold step stepR
  cases l with
  | post calls listen ver budget =>
    show EndMonoX c.exs (post c calls listen ver budget).exs
    unfold post
    split
    · exact (endRel_append _ _).mono
    · split
      · exact (endRel_append _ _).mono
      · have hr : EndMonoX c.exs (register c (dedup calls) listen ver budget).exs := (endRel_append _ _).mono
        simp only [postNew]
        split
        · split
          · exact (hr.trans (endMonoX_emit _ _ _)).trans (endMonoX_cut _ _)
          · exact hr.trans (endMonoX_cut _ _)
        · split
          · exact hr.trans (endMonoX_emit _ _ _)
          · exact hr
  | write msg ctx ctxNew =>
    show EndMonoX c.exs (writeR c msg ctx ctxNew).1.exs
    unfold writeR
    split
    · exact EndMonoX.refl _
    · split
      · simp only [eraseResp_exs]; exact EndMonoX.refl _
      · split
        · simp only [eraseResp_exs]; exact EndMonoX.refl _
        · have := endMonoX_writeTo (eraseResp c msg) ‹_› msg ctx ctxNew
          simpa using this
  | cut ex => exact endMonoX_cut _ _
  | wfail ex =>
    show EndMonoX c.exs (wfail c ex).exs
    simp only [wfail]
    exact (endRel_setEx c.exs ex (fun e => { e with budget := some 0 }) (fun _ => rfl)).mono
  | get hdr ver budget =>
    show EndMonoX c.exs (get c hdr ver budget).exs
    unfold get
    split
    · exact (endRel_append _ _).mono
    · split
      · exact (endRel_append _ _).mono
      · split
        · exact (endRel_append _ _).mono
        · split
          · exact (endRel_append _ _).mono
          · exact endMonoX_getGo _ _ _ _ _ _
  | sclose req retry =>
    show EndMonoX c.exs (sclose c req retry).exs
    unfold sclose
    split
    · exact EndMonoX.refl _
    · split
      · exact EndMonoX.refl _
      · split
        · split
          · exact endMonoX_emit _ _ _
          · exact EndMonoX.refl _
        · exact EndMonoX.refl _
  | «end» => exact EndMonoX.refl _
  | evict sid n => exact EndMonoX.refl _
  | wroute msg ctx ctxNew =>
    show EndMonoX c.exs (wrouteR c msg ctx ctxNew).1.exs
    unfold wrouteR
    split
    · exact EndMonoX.refl _
    · split
      · simp only [eraseResp_exs]; exact EndMonoX.refl _
      · split
        · simp only [eraseResp_exs]; exact EndMonoX.refl _
        · simp only [eraseResp_exs]; exact EndMonoX.refl _
  | wdeliver i =>
    show EndMonoX c.exs (wdeliverR c i).1.exs
    unfold wdeliverR
    split
    · exact EndMonoX.refl _
    · split
      · exact endMonoX_writeTo { c with pendW := c.pendW.eraseIdx i } _ _ _ _
      · simp only [orphanWrite]; exact EndMonoX.refl _

theorem endedAt_mono_step (c : Conn α) (l : Label α) (k : Nat) (h : endedAt c k = true) : endedAt (step c l) k = true := by
  unfold endedAt at h ⊢
  cases hk : c.exs[k]? with
  | none => rw [hk] at h; cases h
  | some e =>
    rw [hk] at h
    obtain ⟨e', h', r⟩ := endMonoX_step c l k e hk (by simpa using h)
    rw [h']; simpa using r

/-! ### the observation of a model step, as the claim clauses see it -/

/-- exchanges opened between `c` and `c'` that were answered with a bare status -/
def codesOf (c c' : Conn α) : List (Nat × Nat) :=
  (List.range' c.exs.length (c'.exs.length - c.exs.length)).filterMap fun j =>
    match c'.exs[j]? with
    | some e => match e.kind with
      | .status code => some (j, code)
      | _ => none
    | none => none

/-- exchanges whose handler returned between `c` and `c'` -/
def endsOf (c c' : Conn α) : List Nat :=
  (List.range c'.exs.length).filter fun k => endedAt c' k && !endedAt c k

def hobsOf (sn : σ) (l : Label α) (c c' : Conn α) : HObs σ :=
  { sess := sn, get := (originOfLabel l).stream, codes := codesOf c c', ends := endsOf c c',
    snaps := [(sn, c'.streams.map rowOf)] }

/-- one record per label -/
def htraceOf1 (sn : σ) : Conn α → List (Label α) → List (HObs σ)
  | _, [] => []
  | c, l :: ls => hobsOf sn l c (step c l) :: htraceOf1 sn (step c l) ls

variable [DecidableEq σ]

/-- the monitor's two facts are the model's: claimants of the streams table, handlers that returned -/
structure HRel (sn : σ) (m : HoldS σ) (c : Conn α) : Prop where
  held : ∀ t, m.held sn t = (findStream t c.streams).bind (·.attached)
  over : ∀ k, m.over k = endedAt c k

theorem heldOf_rows (l : List (Stream α)) (t : Nat) : heldOf (l.map rowOf) t = (findStream t l).bind (·.attached) := by
  induction l with
  | nil => rfl
  | cons a rest ih =>
    unfold heldOf findStream at ih ⊢
    simp only [List.map_cons, List.find?_cons]
    by_cases h : a.id = t
    · have h2 : (a.id == t) = true := by simp [h]
      simp [h2, rowOf]
    · have h1 : ((rowOf a).t == t) = false := by simp [rowOf, h]
      have h2 : (a.id == t) = false := by simp [h]
      simp only [h1, h2]
      exact ih

theorem overAfter_model (sn : σ) (m : HoldS σ) (c : Conn α) (l : Label α) (hov : ∀ k, m.over k = endedAt c k) (k : Nat) :
    overAfter m (hobsOf sn l c (step c l)) k = endedAt (step c l) k := by
  unfold overAfter
  rw [hov k]
  simp only [hobsOf, endsOf, List.contains_eq_mem, List.mem_filter, List.mem_range]
  cases h' : endedAt (step c l) k with
  | true =>
    cases h0 : endedAt c k with
    | true => simp
    | false =>
      have hlt : k < (step c l).exs.length := by
        by_cases hh : k < (step c l).exs.length
        · exact hh
        · unfold endedAt at h'
          rw [List.getElem?_eq_none (by omega)] at h'; cases h'
      simp [hlt]
  | false =>
    have h0 : endedAt c k = false := by
      cases h0 : endedAt c k with
      | false => rfl
      | true => rw [endedAt_mono_step c l k h0] at h'; cases h'
    simp [h0]

theorem get_length (c : Conn α) (hdr : Hdr) (ver : Ver) (budget : Option Nat) : (get c hdr ver budget).exs.length = c.exs.length + 1 := by
  unfold get
  split
  · simp [statusEx]
  · split
    · simp [statusEx]
    · split
      · simp [statusEx]
      · split
        · simp [statusEx]
        · exact (getGo_new _ _ _ _ _ _).1

/-- a refusal with 409, state level: the stream is registered and claimed by an exchange whose handler has not returned -/
theorem get_409_claimed {c : Conn α} (hl : InvLive c) (hdr : Hdr) (ver : Ver) (budget : Option Nat)
    (e : Exch α) (he : (get c hdr ver budget).exs[c.exs.length]? = some e) (h409 : e.kind = .status 409) :
    hdr ≠ .bad ∧ ∃ s, findStream hdr.sid c.streams = some s ∧ ∃ ex, s.attached = some ex ∧ endedAt c ex = false := by
  have hstatus : ∀ code, (statusEx c code).exs[c.exs.length]? = some e → code = 409 := by
    intro code h
    simp [statusEx] at h
    rw [← h] at h409
    simpa using h409
  unfold get at he
  split at he
  · exact absurd (hstatus _ he) (by decide)
  · rename_i hnb
    split at he
    · exact absurd (hstatus _ he) (by decide)
    · split at he
      · rename_i ex hb
        cases hf : findStream hdr.sid c.streams with
        | none => rw [hf] at hb; cases hb
        | some s =>
          rw [hf] at hb
          obtain ⟨hmem, _⟩ := findStream_some hf
          obtain ⟨e', he', hend⟩ := hl s hmem ex (by simpa using hb)
          exact ⟨hnb, s, rfl, ex, by simpa using hb, by simp [endedAt, he', hend]⟩
      · split at he
        · exact absurd (hstatus _ he) (by decide)
        · have := ((getGo_new c hdr.sid hdr.from ver budget _).2 e he).2.2.1
          rw [this] at h409; cases h409

theorem mem_codesOf {c c' : Conn α} {x : Nat × Nat} (h : x ∈ codesOf c c') :
    c.exs.length ≤ x.1 ∧ x.1 < c.exs.length + (c'.exs.length - c.exs.length) ∧ ∃ e, c'.exs[x.1]? = some e ∧ e.kind = .status x.2 := by
  unfold codesOf at h
  rw [List.mem_filterMap] at h
  obtain ⟨j, hj, hx⟩ := h
  rw [List.mem_range'_1] at hj
  split at hx
  · rename_i e he
    split at hx
    · cases hx; exact ⟨hj.1, hj.2, e, he, by assumption⟩
    · cases hx
  · cases hx

/-- one model step: no claim clause, and the relation is kept -/
theorem hold_step_ok (sn : σ) {m : HoldS σ} {c : Conn α} (hw : Inv c) (hl : InvLive c) (hr : HRel sn m c) (l : Label α) :
    (holdStep m (hobsOf sn l c (step c l))).2 = none ∧ HRel sn (holdStep m (hobsOf sn l c (step c l))).1 (step c l) := by
  have hov := overAfter_model sn m c l hr.over
  have hl' := live_step hw hl l
  refine ⟨?_, ?_, ?_⟩
  · have hnr : refused m (hobsOf sn l c (step c l)) = false := by
      unfold refused
      cases hg : (hobsOf sn l c (step c l)).get with
      | none => rfl
      | some t =>
        simp only
        cases hany : (hobsOf sn l c (step c l)).codes.any (fun x => x.2 == 409) with
        | false => rfl
        | true =>
          -- the record is a GET that was answered 409: the stream is claimed by a live exchange
          rw [List.any_eq_true] at hany
          obtain ⟨x, hx, hx409⟩ := hany
          have hx409 : x.2 = 409 := by simpa using hx409
          cases l with
          | get hdr ver budget =>
            obtain ⟨h1, h2, e, he, hk⟩ := mem_codesOf hx
            have hlen : (step c (.get hdr ver budget)).exs.length = c.exs.length + 1 := get_length c hdr ver budget
            have hx1 : x.1 = c.exs.length := by rw [hlen] at h2; omega
            rw [hx1] at he
            obtain ⟨hnb, s, hfs, ex, hat, hlive⟩ := get_409_claimed hl hdr ver budget e he (by rw [hk, hx409])
            have ht : t = hdr.sid := by
              simp only [hobsOf, originOfLabel] at hg
              cases hdr with
              | none => simp [obsHdr, Origin.stream] at hg; exact hg.symm
              | bad => exact absurd rfl hnb
              | ok s i => simp [obsHdr, Origin.stream] at hg; exact hg.symm
            have hh : m.held sn t = some ex := by rw [hr.held t, ht, hfs]; simpa using hat
            simp only [hobsOf, Bool.true_and]
            rw [hh]
            simp only [holderGone]
            rw [hr.over ex]; exact hlive
          | post _ _ _ _ => simp [hobsOf, originOfLabel, Origin.stream] at hg
          | write _ _ _ => simp [hobsOf, originOfLabel, Origin.stream] at hg
          | cut _ => simp [hobsOf, originOfLabel, Origin.stream] at hg
          | wfail _ => simp [hobsOf, originOfLabel, Origin.stream] at hg
          | sclose _ _ => simp [hobsOf, originOfLabel, Origin.stream] at hg
          | «end» => simp [hobsOf, originOfLabel, Origin.stream] at hg
          | evict _ _ => simp [hobsOf, originOfLabel, Origin.stream] at hg
          | wroute _ _ _ => simp [hobsOf, originOfLabel, Origin.stream] at hg
          | wdeliver _ => simp [hobsOf, originOfLabel, Origin.stream] at hg
    have hns : stale (overAfter m (hobsOf sn l c (step c l))) (hobsOf sn l c (step c l)).snaps = false := by
      have hsn : (hobsOf sn l c (step c l)).snaps = [(sn, (step c l).streams.map rowOf)] := rfl
      rw [hsn]
      simp only [stale, List.any_cons, List.any_nil, Bool.or_false]
      rw [Bool.eq_false_iff]
      intro h
      rw [List.any_eq_true] at h
      obtain ⟨r, hrm, hst⟩ := h
      rw [List.mem_map] at hrm
      obtain ⟨s, hs, rfl⟩ := hrm
      unfold rowStale at hst
      simp only [rowOf] at hst
      cases hat : s.attached with
      | none => rw [hat] at hst; cases hst
      | some k =>
        rw [hat] at hst
        simp only at hst
        rw [hov k] at hst
        obtain ⟨e, he, hend⟩ := hl' s hs k hat
        simp [endedAt, he, hend] at hst
    simp only [holdStep, hnr, hns]
    rfl
  · intro t
    simp only [holdStep, hobsOf, applySnaps, List.foldl_cons, List.foldl_nil, if_true]
    exact heldOf_rows _ t
  · intro k
    simp only [holdStep]
    exact hov k

theorem hRel_init (cfg : Cfg) (sn : σ) : HRel sn (holdInit : HoldS σ) (init cfg : Conn α) := by
  refine ⟨?_, ?_⟩
  · intro t
    simp only [holdInit, init, findStream]
    by_cases ht : t = 0
    · subst ht; simp
    · have : ((0 : Nat) == t) = false := by simp; omega
      simp [this]
  · intro k; simp [holdInit, endedAt, init]

theorem hold_accepts_from (sn : σ) : ∀ (ls : List (Label α)) (c : Conn α) (m : HoldS σ), Inv c → InvLive c → HRel sn m c →
    (holdRun m (htraceOf1 sn c ls)).2 = none := by
  intro ls
  induction ls with
  | nil => intro c m _ _ _; rfl
  | cons l t ih =>
    intro c m hw hl hr
    obtain ⟨h1, h2⟩ := hold_step_ok sn hw hl hr l
    have := ih (step c l) _ (inv_step hw l) (live_step hw hl l) h2
    simp only [htraceOf1, holdRun]
    rw [h1, this]; rfl

/-- **C08 bridging, claim clauses.**  For every configuration and EVERY label list (no scope restriction: any versions,
any `Last-Event-ID`s, write budgets that break a POST or a resume at any write, evictions, the split write labels) the
claim clauses of the monitor — "a resume refused with 409 although no live exchange holds the stream", "a stream claimed
by an exchange whose handler has returned" — are not raised on the model's observation trace (one record per label). -/
theorem holdMonitor_accepts_model (cfg : Cfg) (sn : σ) (ls : List (Label α)) :
    (holdRun (holdInit : HoldS σ) (htraceOf1 sn (init cfg : Conn α) ls)).2 = none :=
  hold_accepts_from sn ls (init cfg) _ (inv_init cfg) (live_init cfg) (hRel_init cfg sn)

/-! ### what the clauses mean (on the monitor's ground truth) -/

namespace Mon

/-- `refusedFree` ⇔ the record contains a GET naming stream `t` and an exchange answered 409, and every exchange that
held `t` in the last snapshot of the session (if any) had returned before: a refusal without a live competitor -/
theorem refused_iff (m : HoldS σ) (o : HObs σ) :
    refused m o = true ↔ ∃ t, o.get = some t ∧ (∃ x ∈ o.codes, x.2 = 409) ∧ ∀ k, m.held o.sess t = some k → m.over k = true := by
  unfold refused
  cases hg : o.get with
  | none => simp
  | some t =>
    simp only [Bool.and_eq_true, List.any_eq_true, beq_iff_eq, Option.some.injEq, exists_eq_left']
    constructor
    · rintro ⟨hx, hh⟩
      refine ⟨hx, ?_⟩
      intro k hk
      rw [hk] at hh; exact hh
    · rintro ⟨hx, hh⟩
      refine ⟨hx, ?_⟩
      cases hk : m.held o.sess t with
      | none => rfl
      | some k => exact hh k hk

/-- `staleClaim` ⇔ some snapshot row shows a stream whose claimant's handler has returned -/
theorem stale_iff (over : Nat → Bool) (snaps : List (σ × List Row)) :
    stale over snaps = true ↔ ∃ s ∈ snaps, ∃ r ∈ s.2, ∃ k, r.att = some k ∧ over k = true := by
  unfold stale
  simp only [List.any_eq_true]
  constructor
  · rintro ⟨s, hs, r, hr, hst⟩
    unfold rowStale at hst
    cases hat : r.att with
    | none => rw [hat] at hst; cases hst
    | some k => rw [hat] at hst; exact ⟨s, hs, r, hr, k, hat, hst⟩
  · rintro ⟨s, hs, r, hr, k, hat, hk⟩
    exact ⟨s, hs, r, hr, by unfold rowStale; rw [hat]; exact hk⟩

/-- which clause a record raises -/
theorem holdStep_clause (m : HoldS σ) (o : HObs σ) :
    ((holdStep m o).2 = some .refusedFree ↔ refused m o = true) ∧
    ((holdStep m o).2 = some .staleClaim ↔ refused m o = false ∧ stale (overAfter m o) o.snaps = true) ∧
    ((holdStep m o).2 = none ↔ refused m o = false ∧ stale (overAfter m o) o.snaps = false) := by
  simp only [holdStep]
  cases refused m o <;> cases stale (overAfter m o) o.snaps <;> simp

/-- ground truth, handlers: after a trace, `over k` ⇔ it held before or some record reported the handler's return -/
theorem holdRun_over (tr : List (HObs σ)) : ∀ (m : HoldS σ) (k : Nat),
    (holdRun m tr).1.over k = (m.over k || tr.any (fun o => o.ends.contains k)) := by
  induction tr with
  | nil => intro m k; simp [holdRun]
  | cons o t ih =>
    intro m k
    simp only [holdRun, List.any_cons]
    rw [ih]
    simp [holdStep, overAfter, Bool.or_assoc]

/-- ground truth, claims: after a record with a snapshot of session `s` (the last one in the record), `held s t` is the
claimant that snapshot shows for stream `t` -/
theorem holdStep_held (m : HoldS σ) (o : HObs σ) (pre : List (σ × List Row)) (s : σ) (rows : List Row)
    (h : o.snaps = pre ++ [(s, rows)]) (t : Nat) : (holdStep m o).1.held s t = heldOf rows t := by
  simp [holdStep, applySnaps, h, List.foldl_append]

end Mon
end Resume
