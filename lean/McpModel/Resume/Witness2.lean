import McpModel.Resume.Witness
import McpModel.Resume.BatchBridge
/-!
Non-vacuity witnesses for the claim theorems (`Hold`) and the batch theorem (`Batch`): concrete schedules evaluated by the
kernel.
-/
namespace Resume

/-! ### resumes that break during the replay, then a resume that is served -/

/-- prime, three notifications delivered live, then the POST exchange is cut while the request is still running -/
def demoB : List (Label Nat) :=
  [ .post [7] false .v1125 none, .write (.notif 100) (some 7) false, .write (.notif 101) (some 7) false,
    .write (.notif 102) (some 7) false, .cut 0 ]

/-- three resume attempts whose connection breaks: at the 2nd replayed event, before the 1st, and (from a later id) at the 2nd again -/
def brokenGets : List (Hdr × Ver × Option Nat) :=
  [(.ok 1 0, .v1125, some 1), (.ok 1 0, .v1125, some 0), (.ok 1 1, .v1125, some 1)]

example : InScopeRun (init cfgW) demoB := inScopeRun_of_b _ _ (by decide)

/-- the hypotheses of `resume_however_often` hold for them: each attempt is in scope and is gone at the end of its step -/
example : AllEnded (run (init cfgW) demoB) brokenGets := by
  refine ⟨inScope_of_b (by decide), ?_, inScope_of_b (by decide), ?_, inScope_of_b (by decide), ?_, trivial⟩
  · intro e he
    have h : ((get (run (init cfgW) demoB) (.ok 1 0) .v1125 (some 1)).exs[(run (init cfgW) demoB).exs.length]?).all (·.ended) = true := by decide
    rw [he] at h; simpa using h
  · intro e he
    have h : ((get (get (run (init cfgW) demoB) (.ok 1 0) .v1125 (some 1)) (.ok 1 0) .v1125 (some 0)).exs[
      (get (run (init cfgW) demoB) (.ok 1 0) .v1125 (some 1)).exs.length]?).all (·.ended) = true := by decide
    rw [he] at h; simpa using h
  · intro e he
    have h : ((get (get (get (run (init cfgW) demoB) (.ok 1 0) .v1125 (some 1)) (.ok 1 0) .v1125 (some 0)) (.ok 1 1) .v1125 (some 1)).exs[
      (get (get (run (init cfgW) demoB) (.ok 1 0) .v1125 (some 1)) (.ok 1 0) .v1125 (some 0)).exs.length]?).all (·.ended) = true := by decide
    rw [he] at h; simpa using h

/-- what happened: the first attempt delivered one replayed event and lost the second, the second attempt lost the first,
the third delivered one and lost one; all three handlers returned, and nobody holds the stream -/
example : ((run (run (init cfgW) demoB) (getLabels brokenGets)).exs.map (fun e => (e.out.length, e.lost.length, e.ended)),
    (findStream 1 (run (run (init cfgW) demoB) (getLabels brokenGets)).streams).bind (·.attached)) =
    ([(4, 0, true), (1, 1, true), (0, 1, true), (1, 1, true)], none) := by decide

/-- … and the resume after the three broken attempts is served with all three messages, then the final response -/
example : let c := run (run (init cfgW) demoB) (getLabels brokenGets ++ [.get (.ok 1 0) .v1125 none, .write (.resp 7 200) (some 7) false])
    (c.exs.map (fun e => (e.kind, e.out, e.ended)))[4]? =
      some (.sse, [.message (some (1, 1)) ⟨.notif 100, some 7⟩, .message (some (1, 2)) ⟨.notif 101, some 7⟩,
                   .message (some (1, 3)) ⟨.notif 102, some 7⟩, .message (some (1, 4)) ⟨.resp 7 200, some 7⟩], true) := by decide

/-- a 409 exists in the model — while a live exchange holds the stream (non-vacuity of `resume_refused_only_while_claimed`) -/
example : ((run (init cfgW) ([.post [7] false .v1125 none, .get (.ok 1 0) .v1125 none] : List (Label Nat))).exs.map (fun e => (e.kind, e.ended))) =
    [(.sse, false), (.status 409, true)] := by decide

/-! ### a batch of three calls on one POST, answered last-to-first -/

def cfgN : Cfg := { stateless := false, jsonResponse := false, hasStore := false, noSession := false }
def cfgJ : Cfg := { stateless := false, jsonResponse := true, hasStore := false, noSession := false }

/-- SSE, no store: one `message` per call in completion order; the exchange completes with the last one; the stream and the
routing entries are gone -/
example : let c := answerAll (fun r => 100 + r) false (run (init cfgN) ([.post [1, 2, 3] false .v0326 none] : List (Label Nat))) [3, 1, 2]
    (c.exs.map (fun e => (e.out, e.ended)), c.streams.map (·.id), [1, 2, 3].map c.reqStreams) =
      ([([.message none ⟨.resp 3 103, some 3⟩, .message none ⟨.resp 1 101, some 1⟩, .message none ⟨.resp 2 102, some 2⟩], true)],
       [0], [none, none, none]) := by decide

/-- … after the first two responses the exchange is still open and the stream still registered with the third call -/
example : let c := answerAll (fun r => 100 + r) false (run (init cfgN) ([.post [1, 2, 3] false .v0326 none] : List (Label Nat))) [3, 1]
    (c.exs.map (fun e => (e.out.length, e.ended)), c.streams.map (fun s => (s.id, s.requests)), [1, 2, 3].map c.reqStreams) =
      ([(2, false)], [(0, []), (1, [2])], [none, some 1, none]) := by decide

/-- JSON mode: nothing is written before the last response; then ONE body with all three -/
example : let c0 := run (init cfgJ) ([.post [1, 2, 3] false .v0326 none] : List (Label Nat))
    ((answerAll (fun r => 100 + r) false c0 [2, 3]).exs.map (fun e => (e.out, e.ended)),
     (answerAll (fun r => 100 + r) false c0 [2, 3, 1]).exs.map (fun e => (e.out, e.ended))) =
      ([([], false)],
       [([.json [⟨.resp 2 102, some 2⟩, ⟨.resp 3 103, some 3⟩, ⟨.resp 1 101, some 1⟩]], true)]) := by decide

end Resume
