import McpModel.Resume.Model
/-!
Helper lemmas for E5: how the primitives (`push`, `emitX`, `finishX`, `setStream`, `delStream`, `release`,
`appendLog`, `openLog`, `deliver`, `replayLoop`) act on the projections of the state.
-/
namespace Resume
variable {α : Type}

/-! ### exchanges -/

/-- events that carry an event id when a store is configured (`prime`, `message`) -/
def Out.isEv : Out α → Bool
  | .prime _ _ => true
  | .message _ _ => true
  | _ => false

/-- the messages carried by one write -/
def Out.items : Out α → List (Item α)
  | .message _ it => [it]
  | .json items => items
  | _ => []

def idCount : List (Out α) → Nat
  | [] => 0
  | o :: t => (if o.isEv then 1 else 0) + idCount t

theorem idCount_append (l₁ l₂ : List (Out α)) : idCount (l₁ ++ l₂) = idCount l₁ + idCount l₂ := by
  induction l₁ with
  | nil => simp [idCount]
  | cons o t ih => simp [idCount, ih]; omega

/-- the writer never recovers: once something was lost, the budget is exhausted -/
def ExOK (e : Exch α) : Prop := e.lost ≠ [] → e.budget = some 0

theorem push_all (e : Exch α) (o : Out α) (h : ExOK e) : (e.push o).1.all = e.all ++ [o] := by
  unfold Exch.push Exch.all
  split
  · simp
  · rename_i b hb
    have : e.lost = [] := by
      by_cases hl : e.lost = []
      · exact hl
      · have := h hl; rw [this] at hb; cases hb
    simp [this]
  · rename_i hb
    have : e.lost = [] := by
      by_cases hl : e.lost = []
      · exact hl
      · have := h hl; rw [this] at hb; cases hb
    simp [this]

theorem push_ok (e : Exch α) (o : Out α) (h : ExOK e) : ExOK (e.push o).1 := by
  unfold Exch.push ExOK
  split
  · intro _; assumption
  · rename_i b hb
    intro hl
    simp at hl
    have := h hl; rw [this] at hb; cases hb
  · rename_i hb
    intro hl
    simp at hl
    have := h hl; rw [this] at hb; cases hb

@[simp] theorem push_stream (e : Exch α) (o : Out α) : (e.push o).1.stream = e.stream := by
  unfold Exch.push; split <;> rfl
@[simp] theorem push_from (e : Exch α) (o : Out α) : (e.push o).1.from = e.from := by
  unfold Exch.push; split <;> rfl
@[simp] theorem push_kind (e : Exch α) (o : Out α) : (e.push o).1.kind = e.kind := by
  unfold Exch.push; split <;> rfl
@[simp] theorem push_ended (e : Exch α) (o : Out α) : (e.push o).1.ended = e.ended := by
  unfold Exch.push; split <;> rfl

/-- with an unlimited budget every write is delivered -/
theorem push_none (e : Exch α) (o : Out α) (h : e.budget = none) :
    (e.push o).1 = { e with out := e.out ++ [o] } ∧ (e.push o).2 = true := by
  unfold Exch.push; rw [h]; simp

/-- a successful write extends `out`; `lost` was and stays empty -/
theorem push_true (e : Exch α) (o : Out α) (h : (e.push o).2 = true) :
    (e.push o).1.out = e.out ++ [o] ∧ (e.push o).1.lost = e.lost := by
  unfold Exch.push at h ⊢
  split <;> simp_all

@[simp] theorem length_setEx (ex : ExId) (f : Exch α → Exch α) (l : List (Exch α)) : (setEx ex f l).length = l.length := by
  simp [setEx]

theorem getElem?_setEx (ex : ExId) (f : Exch α → Exch α) (l : List (Exch α)) (j : Nat) :
    (setEx ex f l)[j]? = (fun a => if ex = j then f a else a) <$> l[j]? := by
  simp [setEx, List.getElem?_modify]

theorem getElem?_setEx_ne (ex : ExId) (f : Exch α → Exch α) (l : List (Exch α)) (j : Nat) (h : j ≠ ex) :
    (setEx ex f l)[j]? = l[j]? := by
  rw [getElem?_setEx]
  cases l[j]? with
  | none => rfl
  | some a => simp; intro h'; exact absurd h'.symm h

theorem getElem?_setEx_eq (ex : ExId) (f : Exch α → Exch α) (l : List (Exch α)) :
    (setEx ex f l)[ex]? = f <$> l[ex]? := by
  rw [getElem?_setEx]
  cases l[ex]? with
  | none => rfl
  | some a => simp

theorem mem_setEx {ex : ExId} {f : Exch α → Exch α} {l : List (Exch α)} {e : Exch α} (h : e ∈ setEx ex f l) :
    e ∈ l ∨ ∃ e₀, l[ex]? = some e₀ ∧ e = f e₀ := by
  obtain ⟨j, hj⟩ := List.getElem?_of_mem h
  by_cases hje : j = ex
  · subst hje
    rw [getElem?_setEx_eq] at hj
    cases hl : l[j]? with
    | none => rw [hl] at hj; cases hj
    | some a => rw [hl] at hj; simp at hj; exact Or.inr ⟨a, rfl, hj.symm⟩
  · rw [getElem?_setEx_ne _ _ _ _ hje] at hj
    exact Or.inl (List.mem_of_getElem? hj)

@[simp] theorem length_emitX (exs : List (Exch α)) (ex : ExId) (o : Out α) : (emitX exs ex o).1.length = exs.length := by
  unfold emitX; split <;> simp

theorem emitX_ne (exs : List (Exch α)) (ex : ExId) (o : Out α) (j : Nat) (h : j ≠ ex) :
    (emitX exs ex o).1[j]? = exs[j]? := by
  unfold emitX; split
  · rfl
  · simp [getElem?_setEx_ne _ _ _ _ h]

theorem emitX_eq (exs : List (Exch α)) (ex : ExId) (o : Out α) (e : Exch α) (h : exs[ex]? = some e) :
    (emitX exs ex o).1[ex]? = some (e.push o).1 ∧ (emitX exs ex o).2 = (e.push o).2 := by
  unfold emitX; rw [h]; simp [getElem?_setEx_eq, h]

theorem emitX_none (exs : List (Exch α)) (ex : ExId) (o : Out α) (h : exs[ex]? = none) :
    emitX exs ex o = (exs, false) := by
  unfold emitX; rw [h]

theorem mem_emitX {exs : List (Exch α)} {ex : ExId} {o : Out α} {e : Exch α} (h : e ∈ (emitX exs ex o).1) :
    e ∈ exs ∨ ∃ e₀, exs[ex]? = some e₀ ∧ e = (e₀.push o).1 := by
  unfold emitX at h; split at h
  · exact Or.inl h
  · exact mem_setEx h

@[simp] theorem length_finishX (exs : List (Exch α)) (ex : ExId) : (finishX exs ex).length = exs.length := by
  simp [finishX]

theorem finishX_ne (exs : List (Exch α)) (ex : ExId) (j : Nat) (h : j ≠ ex) : (finishX exs ex)[j]? = exs[j]? := by
  simp [finishX, getElem?_setEx_ne _ _ _ _ h]

theorem finishX_eq (exs : List (Exch α)) (ex : ExId) :
    (finishX exs ex)[ex]? = (fun e => { e with ended := true }) <$> exs[ex]? := by
  simp [finishX, getElem?_setEx_eq]

/-- `finishX` changes only the `ended` flag -/
theorem finishX_get (exs : List (Exch α)) (ex : ExId) (j : Nat) (e : Exch α) (h : (finishX exs ex)[j]? = some e) :
    ∃ e₀, exs[j]? = some e₀ ∧ e.out = e₀.out ∧ e.lost = e₀.lost ∧ e.stream = e₀.stream ∧ e.from = e₀.from ∧
      e.budget = e₀.budget ∧ e.kind = e₀.kind := by
  by_cases hj : j = ex
  · subst hj
    rw [finishX_eq] at h
    cases hl : exs[j]? with
    | none => rw [hl] at h; cases h
    | some a => rw [hl] at h; simp at h; subst h; exact ⟨a, rfl, rfl, rfl, rfl, rfl, rfl, rfl⟩
  · rw [finishX_ne _ _ _ hj] at h
    exact ⟨e, h, rfl, rfl, rfl, rfl, rfl, rfl⟩

theorem mem_finishX {exs : List (Exch α)} {ex : ExId} {e : Exch α} (h : e ∈ finishX exs ex) :
    ∃ e₀ ∈ exs, e.out = e₀.out ∧ e.lost = e₀.lost ∧ e.stream = e₀.stream ∧ e.from = e₀.from ∧ e.budget = e₀.budget := by
  obtain ⟨j, hj⟩ := List.getElem?_of_mem h
  obtain ⟨e₀, h0, a, b, c, d, f, _⟩ := finishX_get _ _ _ _ hj
  exact ⟨e₀, List.mem_of_getElem? h0, a, b, c, d, f⟩

/-! ### streams -/

theorem findStream_some {sid : SId} {l : List (Stream α)} {s : Stream α} (h : findStream sid l = some s) :
    s ∈ l ∧ s.id = sid := by
  unfold findStream at h
  refine ⟨List.mem_of_find?_eq_some h, ?_⟩
  have := List.find?_some h
  simpa using this

theorem findStream_none {sid : SId} {l : List (Stream α)} (h : findStream sid l = none) :
    ∀ s ∈ l, s.id ≠ sid := by
  unfold findStream at h
  rw [List.find?_eq_none] at h
  intro s hs; have := h s hs; simpa using this

theorem findStream_of_mem {l : List (Stream α)} (hn : (l.map (·.id)).Nodup) {s : Stream α} (hs : s ∈ l) :
    findStream s.id l = some s := by
  induction l with
  | nil => cases hs
  | cons a t ih =>
    simp only [List.map_cons, List.nodup_cons] at hn
    have hcons : findStream s.id (a :: t) = if a.id = s.id then some a else findStream s.id t := by
      unfold findStream
      rw [List.find?_cons]
      by_cases ha : a.id = s.id
      · have hb : (a.id == s.id) = true := by simp [ha]
        simp [hb, ha]
      · have hb : (a.id == s.id) = false := by simp [ha]
        simp [hb, ha]
    rw [hcons]
    by_cases ha : a.id = s.id
    · rw [if_pos ha]
      cases hs with
      | head => rfl
      | tail _ h' =>
        exfalso; apply hn.1; rw [ha]; exact List.mem_map_of_mem (f := (·.id)) h'
    · rw [if_neg ha]
      cases hs with
      | head => exact absurd rfl ha
      | tail _ h' => exact ih hn.2 h'

theorem findListen_some {l : List (Stream α)} {s : Stream α} (h : findListen l = some s) : s ∈ l ∧ s.listen = true := by
  unfold findListen at h
  exact And.intro (List.mem_of_find?_eq_some h) (List.find?_some h)

theorem mem_setStream {s' x : Stream α} {l : List (Stream α)} (h : x ∈ setStream s' l) :
    x = s' ∨ (x ∈ l ∧ x.id ≠ s'.id) := by
  unfold setStream at h
  rw [List.mem_map] at h
  obtain ⟨a, ha, rfl⟩ := h
  by_cases hid : a.id = s'.id
  · left; simp [hid]
  · right; simp only [hid, if_false]; exact And.intro ha hid

theorem setStream_ids (s' : Stream α) (l : List (Stream α)) : (setStream s' l).map (·.id) = l.map (·.id) := by
  unfold setStream
  rw [List.map_map]
  apply List.map_congr_left
  intro a _
  by_cases hid : a.id = s'.id <;> simp [hid]

theorem mem_setStream_self {s' s : Stream α} {l : List (Stream α)} (hs : s ∈ l) (hid : s.id = s'.id) :
    s' ∈ setStream s' l := by
  unfold setStream
  rw [List.mem_map]
  exact ⟨s, hs, by simp [hid]⟩

theorem mem_setStream_other {s' x : Stream α} {l : List (Stream α)} (hx : x ∈ l) (hid : x.id ≠ s'.id) :
    x ∈ setStream s' l := by
  unfold setStream
  rw [List.mem_map]
  exact ⟨x, hx, by simp [hid]⟩

theorem mem_delStream {sid : SId} {x : Stream α} {l : List (Stream α)} :
    x ∈ delStream sid l ↔ x ∈ l ∧ x.id ≠ sid := by
  unfold delStream
  rw [List.mem_filter]
  simp

theorem delStream_ids_sublist (sid : SId) (l : List (Stream α)) :
    ((delStream sid l).map (·.id)).Sublist (l.map (·.id)) := by
  unfold delStream
  exact (List.filter_sublist).map _

theorem mem_release {ex : ExId} {x : Stream α} {l : List (Stream α)} (h : x ∈ release ex l) :
    ∃ s ∈ l, (s.attached = some ex ∧ x = { s with attached := none, opn := false }) ∨ (s.attached ≠ some ex ∧ x = s) := by
  unfold release at h
  rw [List.mem_map] at h
  obtain ⟨a, ha, rfl⟩ := h
  by_cases hat : a.attached = some ex
  · exact ⟨a, ha, Or.inl ⟨hat, by simp [hat]⟩⟩
  · exact ⟨a, ha, Or.inr ⟨hat, by simp [hat]⟩⟩

theorem release_ids (ex : ExId) (l : List (Stream α)) : (release ex l).map (·.id) = l.map (·.id) := by
  unfold release
  rw [List.map_map]
  apply List.map_congr_left
  intro a _
  by_cases hat : a.attached = some ex <;> simp [hat]

/-! ### the store -/

@[simp] theorem appendLog_same (sid : SId) (x : Option (Item α)) (st : Store α) :
    appendLog sid x st sid = some ((st sid).getD [] ++ [x]) := by simp [appendLog]

theorem appendLog_other (sid k : SId) (x : Option (Item α)) (st : Store α) (h : k ≠ sid) :
    appendLog sid x st k = st k := by simp [appendLog, h]

@[simp] theorem openLog_same (sid : SId) (st : Store α) : openLog sid st sid = some ((st sid).getD []) := by simp [openLog]

theorem openLog_other (sid k : SId) (st : Store α) (h : k ≠ sid) : openLog sid st k = st k := by simp [openLog, h]

theorem openLog_getD (sid k : SId) (st : Store α) : (openLog sid st k).getD [] = (st k).getD [] := by
  by_cases h : k = sid
  · subst h; simp
  · rw [openLog_other _ _ _ h]

/-- every log only grows: the old log is a prefix of the new one -/
def LogLE (st st' : Store α) : Prop := ∀ sid log, st sid = some log → ∃ more, st' sid = some (log ++ more)

theorem LogLE.refl (st : Store α) : LogLE st st := fun _ log h => ⟨[], by simp [h]⟩

theorem LogLE.trans {a b c : Store α} (h₁ : LogLE a b) (h₂ : LogLE b c) : LogLE a c := by
  intro sid log h
  obtain ⟨m₁, h1⟩ := h₁ sid log h
  obtain ⟨m₂, h2⟩ := h₂ sid _ h1
  exact ⟨m₁ ++ m₂, by simp [h2]⟩

theorem logLE_appendLog (sid : SId) (x : Option (Item α)) (st : Store α) : LogLE st (appendLog sid x st) := by
  intro k log h
  by_cases hk : k = sid
  · subst hk; exact ⟨[x], by simp [h]⟩
  · exact ⟨[], by simp [appendLog_other _ _ _ _ hk, h]⟩

theorem logLE_openLog (sid : SId) (st : Store α) : LogLE st (openLog sid st) := by
  intro k log h
  by_cases hk : k = sid
  · subst hk; exact ⟨[], by simp [h]⟩
  · exact ⟨[], by simp [openLog_other _ _ _ hk, h]⟩

/-! ### `EventStore.After` -/

/-- `After` succeeded on a connection with a store: the session is open, the stream is known and the position
right after the resume point has not been evicted; it yields the non-empty payloads from there on -/
theorem replayItems_some {c : Conn α} {sid frm : Nat} {items : List (Item α)} (hst : c.cfg.hasStore = true)
    (h : replayItems c sid frm = some items) :
    c.isDone = false ∧ ∃ log, c.store sid = some log ∧ ¬ frm < c.purged sid ∧ items = toReplay log frm := by
  simp only [replayItems, hst, if_true] at h
  split at h
  · cases h
  · rename_i hd
    split at h
    · cases h
    · rename_i log hlog
      split at h
      · cases h
      · rename_i hp
        exact ⟨by simpa using hd, log, hlog, hp, by simpa using h.symm⟩

theorem replayItems_nostore {c : Conn α} {sid frm : Nat} {items : List (Item α)} (hst : c.cfg.hasStore = false)
    (h : replayItems c sid frm = some items) : items = [] := by
  simp [replayItems, hst] at h; exact h

theorem replayItems_eq {c : Conn α} {sid frm : Nat} {log : List (Option (Item α))} (hst : c.cfg.hasStore = true)
    (hd : c.isDone = false) (hl : c.store sid = some log) (hp : ¬ frm < c.purged sid) :
    replayItems c sid frm = some (toReplay log frm) := by
  simp [replayItems, hst, hd, hl, hp]

/-! ### log segments -/

/-- the SSE event that carries log entry `x` of stream `sid` at index `i` (with a store) -/
def evOf (sid : SId) (i : Nat) : Option (Item α) → Out α
  | none => .prime sid i
  | some it => .message (some (sid, i)) it

/-- `SegFrom log sid i l`: the id-carrying events of `l` are, in order, exactly the log entries at
positions `i, i+1, …`, each with event id `(sid, position)`. -/
def SegFrom (log : List (Option (Item α))) (sid : SId) : Nat → List (Out α) → Prop
  | _, [] => True
  | i, o :: rest =>
    if o.isEv then (∃ x, log[i]? = some x ∧ o = evOf sid i x) ∧ SegFrom log sid (i + 1) rest
    else SegFrom log sid i rest

theorem segFrom_append (log : List (Option (Item α))) (sid : SId) (i : Nat) (l₁ l₂ : List (Out α)) :
    SegFrom log sid i (l₁ ++ l₂) ↔ SegFrom log sid i l₁ ∧ SegFrom log sid (i + idCount l₁) l₂ := by
  induction l₁ generalizing i with
  | nil => simp [SegFrom, idCount]
  | cons o t ih =>
    by_cases ho : o.isEv = true
    · simp only [List.cons_append, SegFrom, ho, if_true, idCount, ih]
      have : i + 1 + idCount t = i + (1 + idCount t) := by omega
      rw [this]; constructor
      · rintro ⟨a, b, c⟩; exact ⟨⟨a, b⟩, c⟩
      · rintro ⟨⟨a, b⟩, c⟩; exact ⟨a, b, c⟩
    · simp only [List.cons_append, SegFrom, ho, idCount, ih]
      simp

theorem segFrom_mono {log log' : List (Option (Item α))} (h : ∃ more, log' = log ++ more) (sid : SId) (i : Nat)
    (l : List (Out α)) (hs : SegFrom log sid i l) : SegFrom log' sid i l := by
  obtain ⟨more, rfl⟩ := h
  induction l generalizing i with
  | nil => trivial
  | cons o t ih =>
    by_cases ho : o.isEv = true
    · simp only [SegFrom, ho, if_true] at hs ⊢
      obtain ⟨⟨x, hx, he⟩, ht⟩ := hs
      refine ⟨⟨x, ?_, he⟩, ih _ ht⟩
      have hlt : i < log.length := by
        by_cases hh : i < log.length
        · exact hh
        · rw [List.getElem?_eq_none (by omega)] at hx; cases hx
      rw [List.getElem?_append_left hlt]; exact hx
    · simp only [SegFrom, ho] at hs ⊢
      exact ih _ hs

/-- a segment never reaches beyond the log -/
theorem segFrom_bound (log : List (Option (Item α))) (sid : SId) (i : Nat) (l : List (Out α))
    (hs : SegFrom log sid i l) : idCount l = 0 ∨ i + idCount l ≤ log.length := by
  induction l generalizing i with
  | nil => left; rfl
  | cons o t ih =>
    by_cases ho : o.isEv = true
    · simp only [SegFrom, ho, if_true] at hs
      obtain ⟨⟨x, hx, _⟩, ht⟩ := hs
      right
      have hlt : i < log.length := by
        by_cases hh : i < log.length
        · exact hh
        · rw [List.getElem?_eq_none (by omega)] at hx; cases hx
      simp only [idCount, ho, if_true]
      rcases ih _ ht with h0 | h1
      · omega
      · omega
    · simp only [SegFrom, ho] at hs
      simp only [idCount, ho]
      rcases ih _ hs with h0 | h1
      · left; simp [h0]
      · right; simpa using h1

end Resume
