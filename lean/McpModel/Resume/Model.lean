import McpModel.Generated.ResumeGen
/-
E5 — model of the streamable server connection (`mcp/streamable.go`: `streamableServerConn`, `stream`,
`servePOST`, `serveGET`/`acquireStream`, `Write`/`deliverLocked`, `CloseSSEStream`/`stream.close`,
`release`, `Close`).  Serves C08 and C10.  Transliteration contract: DESIGN.md Appendix E.

One label = one atomic section of the Go code (a critical section under `c.mu`/`stream.mu`, or one
externally visible action).  A schedule is a list of labels; "for all schedules" = "for all label
lists".  Everything is total and executable; core Lean only (linked into the driver).

Representation choices (none is read by the modelled code paths in a way that changes behaviour):
* `Stream.next` is `lastIdx + 1` (a `Nat` instead of an `Int` starting at −1).
* stream ids are fresh names: the model uses a counter (`nextSid`; 0 is the standalone stream `""`).
  Harness and driver both rename ids (the real `crand.Text()` ones / the counter values) in order of
  first appearance in the observations, so the particular fresh name never matters.
* an exchange records what was written to its `ResponseWriter` (`out`), what was written while the
  writer fails (`lost`: reaches nobody) and how many more writes succeed (`budget`).
* `store` is the *abstract* event store of C20: per stream the full append log (`none` = the empty
  priming payload).  It is never purged here (C08 assumes the store keeps its contract; C20 proves
  the in-memory store either replays exactly or reports the purge).
* ghost fields, never read by `step`: `Item.ctx`, `Exch.stream`, `Exch.from`, `Stream.calls`, `Conn.hist`.
-/
namespace Resume

abbrev ReqId := Nat
abbrev SId := Nat
abbrev ExId := Nat

/-- A server→client JSON-RPC message; `p` is its opaque wire payload. -/
inductive Msg (α : Type) where
  | resp (id : ReqId) (p : α)
  | notif (p : α)
  | call (p : α)
deriving DecidableEq, Repr

def Msg.isCall {α} : Msg α → Bool
  | .call _ => true
  | _ => false

def Msg.respId {α} : Msg α → Option ReqId
  | .resp id _ => some id
  | _ => none

/-- What one `Write` carried: the message and the request id found in its context (ghost). -/
structure Item (α : Type) where
  msg : Msg α
  ctx : Option ReqId
deriving DecidableEq, Repr

/-- One `ResponseWriter.Write` of a stream body. -/
inductive Out (α : Type) where
  | comment                                             -- ": ok" (standalone stream, #410)
  | prime (sid : SId) (idx : Nat)                       -- event: prime, id: <sid>_<idx>, no data
  | message (id : Option (SId × Nat)) (it : Item α)     -- event: message
  | close                                               -- event: close, retry: …
  | json (items : List (Item α))                        -- flushed application/json body
deriving DecidableEq, Repr

inductive Kind where
  | sse | json | status (code : Nat)
deriving DecidableEq, Repr

structure Exch (α : Type) where
  kind   : Kind
  out    : List (Out α) := []
  lost   : List (Out α) := []
  budget : Option Nat := none       -- `some n`: n more writes succeed, then the writer fails
  ended  : Bool := false            -- the HTTP handler returned
  stream : SId := 0                 -- ghost: logical stream this exchange serves
  «from» : Nat := 0                 -- ghost: first log index it is entitled to (resume index + 1)

/-- everything the server wrote to the exchange, delivered or not -/
def Exch.all {α} (e : Exch α) : List (Out α) := e.out ++ e.lost

/-- protocol version classes that matter here (regenerated constants in `Generated.Resume`) -/
inductive Ver where
  | v0326 | v0618 | v1125 | v0728
deriving DecidableEq, Repr

def Ver.ge1125 : Ver → Bool
  | .v1125 | .v0728 => true
  | _ => false

def Ver.isNew : Ver → Bool
  | .v0728 => true
  | _ => false

structure Stream (α : Type) where
  id       : SId
  attached : Option ExId            -- `w ≠ nil`
  opn      : Bool                   -- `done ≠ nil`
  next     : Nat                    -- `lastIdx + 1`
  requests : List ReqId             -- unanswered requests
  json     : Option (List (Item α)) -- `pendingJSONMessages` (non-nil ⇒ JSON stream)
  listen   : Bool
  v1125    : Bool                   -- `protocolVersion ≥ 2025-11-25` (close event supported)
  calls    : List ReqId := []       -- ghost: requests at creation
deriving Repr

structure Cfg where
  stateless    : Bool
  jsonResponse : Bool
  hasStore     : Bool
  noSession    : Bool               -- `sessionID == ""`
deriving DecidableEq, Repr

structure Conn (α : Type) where
  cfg        : Cfg
  streams    : List (Stream α)                        -- `c.streams` (at most one entry per id)
  reqStreams : ReqId → Option SId                     -- `c.requestStreams`
  isDone     : Bool
  store      : SId → Option (List (Option (Item α)))  -- abstract event store: the append log per stream
  exs        : List (Exch α)                          -- HTTP exchanges, index = ExId
  nextSid    : SId
  hist       : SId → Option (List ReqId × Bool)       -- ghost: (calls, listen) of every registered stream

/-- `Connect`: the standalone stream exists from the start and is opened in the store. -/
def init {α} (cfg : Cfg) : Conn α :=
  { cfg, streams := [{ id := 0, attached := none, opn := false, next := 0, requests := [], json := none,
                       listen := false, v1125 := false }],
    reqStreams := fun _ => none, isDone := false,
    store := fun sid => if cfg.hasStore && sid == 0 then some [] else none, exs := [],
    nextSid := 1, hist := fun sid => if sid == 0 then some ([], false) else none }

inductive Hdr where
  | none | bad | ok (sid : SId) (idx : Nat)
deriving DecidableEq, Repr

inductive Label (α : Type) where
  | post (calls : List ReqId) (listen : Bool) (ver : Ver) (budget : Option Nat)
  | write (msg : Msg α) (ctx : Option ReqId) (ctxNew : Bool)
  | cut (ex : ExId)
  | wfail (ex : ExId)
  | get (hdr : Hdr) (ver : Ver) (budget : Option Nat)
  | sclose (req : ReqId) (retry : Bool)
  | «end»
deriving Repr

/-- what `Write` returned -/
inductive Res where
  | na | ok | rejected | broken
deriving DecidableEq, Repr

/-! ### helpers -/

def findStream {α} (sid : SId) (l : List (Stream α)) : Option (Stream α) := l.find? (fun s => s.id == sid)

/-- `c.streams[s'.id] = s'` -/
def setStream {α} (s' : Stream α) (l : List (Stream α)) : List (Stream α) :=
  l.map (fun s => if s.id = s'.id then s' else s)

/-- `delete(c.streams, sid)` -/
def delStream {α} (sid : SId) (l : List (Stream α)) : List (Stream α) := l.filter (fun s => s.id != sid)

def findListen {α} (l : List (Stream α)) : Option (Stream α) := l.find? (·.listen)

abbrev Store (α : Type) := SId → Option (List (Option (Item α)))

/-- `EventStore.Open` -/
def openLog {α} (sid : SId) (st : Store α) : Store α :=
  fun k => if k = sid then some ((st sid).getD []) else st k

/-- `EventStore.Append` (creates the stream if it does not exist, as `MemoryEventStore.init` does) -/
def appendLog {α} (sid : SId) (x : Option (Item α)) (st : Store α) : Store α :=
  fun k => if k = sid then some ((st sid).getD [] ++ [x]) else st k

def setEx {α} (ex : ExId) (f : Exch α → Exch α) (l : List (Exch α)) : List (Exch α) := l.modify ex f

/-- One `w.Write` on exchange `ex`: delivered unless the writer fails. Returns whether it succeeded. -/
def emit {α} (c : Conn α) (ex : ExId) (o : Out α) : Conn α × Bool :=
  match c.exs[ex]? with
  | none => (c, false)
  | some e =>
    match e.budget with
    | some 0 => ({ c with exs := setEx ex (fun e => { e with lost := e.lost ++ [o] }) c.exs }, false)
    | some (b + 1) => ({ c with exs := setEx ex (fun e => { e with out := e.out ++ [o], budget := some b }) c.exs }, true)
    | none => ({ c with exs := setEx ex (fun e => { e with out := e.out ++ [o] }) c.exs }, true)

/-- the HTTP handler of `ex` returns -/
def finish {α} (c : Conn α) (ex : ExId) : Conn α :=
  { c with exs := setEx ex (fun e => { e with ended := true }) c.exs }

def dedup : List ReqId → List ReqId
  | [] => []
  | r :: t => if r ∈ t then dedup t else r :: dedup t

/-! ### CUT (`release` after the request context ended / the handler returned) and WFAIL -/

def release {α} (ex : ExId) (l : List (Stream α)) : List (Stream α) :=
  l.map (fun s => if s.attached = some ex then { s with attached := none, opn := false } else s)

def cut {α} (c : Conn α) (ex : ExId) : Conn α :=
  finish { c with streams := release ex c.streams } ex

def wfail {α} (c : Conn α) (ex : ExId) : Conn α :=
  { c with exs := setEx ex (fun e => { e with budget := some 0 }) c.exs }

/-! ### POST (`servePOST`) -/

def post {α} (c : Conn α) (calls : List ReqId) (listen : Bool) (ver : Ver) (budget : Option Nat) : Conn α :=
  let ex := c.exs.length
  let calls := dedup calls           -- `calls` is a Go map
  if calls = [] then
    -- no calls: publish and answer 202 (no logical stream)
    { c with exs := c.exs ++ [{ kind := .status 202, ended := true }] }
  else
    let sid := c.nextSid
    let opens := c.cfg.hasStore && !ver.isNew
    -- `newStream`: draw an id, `EventStore.Open` (before the duplicate check)
    let st1 := if opens then openLog sid c.store else c.store
    if calls.any (fun r => (c.reqStreams r).isSome) then
      -- duplicate in-flight id: 400, nothing registered (the drawn id stays visible only through Open)
      { c with store := st1, nextSid := sid + 1,
               exs := c.exs ++ [{ kind := .status 400, ended := true, stream := sid }] }
    else
      let useSSE := !c.cfg.jsonResponse || listen
      let primed := useSSE && c.cfg.hasStore && ver.ge1125 && !ver.isNew
      let s : Stream α := { id := sid, attached := some ex, opn := true, next := if primed then 1 else 0,
                            requests := calls, json := if useSSE then none else some [], listen := listen,
                            v1125 := ver.ge1125, calls := calls }
      let e : Exch α := { kind := if useSSE then .sse else .json, budget := budget, stream := sid, «from» := 0 }
      let c2 : Conn α := { c with nextSid := sid + 1, streams := c.streams ++ [s],
                                  reqStreams := fun r => if r ∈ calls then some sid else c.reqStreams r,
                                  exs := c.exs ++ [e],
                                  hist := fun k => if k = sid then some (calls, listen) else c.hist k,
                                  store := if primed then appendLog sid none st1 else st1 }
      let c3 := if primed then (emit c2 ex (.prime sid 0)).1 else c2
      -- publish, then `hangResponse`: on a closed session (`c.done` closed) the handler returns at once
      if c.isDone then cut c3 ex else c3

/-! ### WRITE (`streamableServerConn.Write` + `deliverLocked`) -/

/-- the write-side routing decision (first critical section, under `c.mu`) -/
def route {α} (c : Conn α) (msg : Msg α) (ctx : Option ReqId) : Option (Stream α) :=
  let related : Option ReqId := match msg with
    | .resp id _ => some id
    | _ => if c.cfg.jsonResponse then none else ctx
  match related with
  | some r =>
    match c.reqStreams r with
    | some sid => findStream sid c.streams
    | none => none
  | none =>
    match findListen c.streams with
    | some s => some s
    | none => findStream 0 c.streams

def eraseAll (r : ReqId) : List ReqId → List ReqId
  | [] => []
  | x :: t => if x = r then eraseAll r t else x :: eraseAll r t

def writeR {α} (c : Conn α) (msg : Msg α) (ctx : Option ReqId) (ctxNew : Bool) : Conn α × Res :=
  if msg.isCall && (c.cfg.stateless || c.cfg.noSession) then (c, .rejected) else
  let tgt := route c msg ctx
  let c1 : Conn α := match msg with
    | .resp id _ => { c with reqStreams := fun r => if r = id then none else c.reqStreams r }
    | _ => c
  match tgt with
  | none => (c1, .rejected)                       -- "write to closed stream"
  | some s =>
    if c.isDone then (c1, .broken) else            -- "session is closed"
    let it : Item α := ⟨msg, ctx⟩
    let useStore := c.cfg.hasStore && !ctxNew
    -- second critical section, under `s.mu`: append, then deliver
    let c2 : Conn α := if useStore then { c1 with store := appendLog s.id (some it) c1.store } else c1
    let evid : Option (SId × Nat) := if useStore then some (s.id, s.next) else none
    let reqs := match msg with
      | .resp id _ => eraseAll id s.requests
      | _ => s.requests
    let done := reqs.isEmpty && s.id != 0
    match s.attached, s.opn with
    | some ex, true =>
      match s.json with
      | some pend =>
        let pend' := pend ++ [it]
        if done then
          let r := emit c2 ex (.json pend')
          (finish { r.1 with streams := delStream s.id r.1.streams } ex,
           if useStore || r.2 then .ok else .rejected)
        else
          ({ c2 with streams := setStream { s with requests := reqs, json := some pend' } c2.streams }, .ok)
      | none =>
        let r := emit c2 ex (.message evid it)
        let res := if useStore || r.2 then Res.ok else Res.rejected
        if done then
          (finish { r.1 with streams := delStream s.id r.1.streams } ex, res)
        else
          ({ r.1 with streams := setStream { s with requests := reqs, next := s.next + 1 } r.1.streams }, res)
    | _, _ =>
      -- "stream not connected or already closed": stored only (if there is a store)
      let c3 : Conn α := if done then { c2 with streams := delStream s.id c2.streams }
                         else { c2 with streams := setStream { s with requests := reqs } c2.streams }
      (c3, if useStore then .ok else .rejected)

/-! ### GET (`serveGET` / `acquireStream`) -/

/-- the stored payloads after index `from − 1`, empty ones skipped (as `acquireStream` does) -/
def toReplay {α} (log : List (Option (Item α))) («from» : Nat) : List (Item α) :=
  (log.drop «from»).filterMap id

/-- replay loop: ids are `from, from+1, …` counted over the replayed items; stops at the first failed write -/
def replayLoop {α} (c : Conn α) (ex : ExId) (sid : SId) : Nat → List (Item α) → Conn α × Bool
  | _, [] => (c, true)
  | k, it :: rest =>
    let r := emit c ex (.message (some (sid, k)) it)
    if r.2 then replayLoop r.1 ex sid (k + 1) rest else (r.1, false)

def get {α} (c : Conn α) (hdr : Hdr) (ver : Ver) (budget : Option Nat) : Conn α :=
  let ex := c.exs.length
  let fail (code : Nat) : Conn α := { c with exs := c.exs ++ [{ kind := .status code, ended := true }] }
  match hdr with
  | .bad => fail 400                                   -- malformed Last-Event-ID
  | _ =>
    let sid : SId := match hdr with | .ok sid _ => sid | _ => 0
    let «from» : Nat := match hdr with | .ok _ idx => idx + 1 | _ => 0
    let hasHdr : Bool := match hdr with | .ok _ _ => true | _ => false
    if hasHdr && !c.cfg.hasStore then fail 400 else     -- "stream replay unsupported"
    let st := findStream sid c.streams
    match st.bind (·.attached) with
    | some _ => fail 409                               -- claimed by another request
    | none =>
      let replay : Option (List (Item α)) :=
        if c.cfg.hasStore then
          if c.isDone then none                        -- `SessionClosed` removed the session from the store
          else (c.store sid).map (fun log => toReplay log «from»)
        else some []
      match replay with
      | none => fail 400                               -- `After` failed
      | some items =>
        let e : Exch α := { kind := .sse, budget := budget, stream := sid, «from» := «from» }
        let c1 : Conn α := { c with exs := c.exs ++ [e] }
        let c2 := if sid = 0 then (emit c1 ex .comment).1 else c1
        let r := replayLoop c2 ex sid «from» items
        if !r.2 then finish r.1 ex else
        match st with
        | none => finish r.1 ex                        -- temporary (replay-only) stream
        | some s =>
          if s.requests.isEmpty && s.id != 0 then finish r.1 ex      -- `doneLocked`
          else
            let s' : Stream α := { s with attached := some ex, opn := true, next := «from» + items.length, v1125 := ver.ge1125 }
            let c4 : Conn α := { r.1 with streams := setStream s' r.1.streams }
            -- `hangResponse` returns at once on a closed session
            if c.isDone then cut c4 ex else c4

/-! ### SCLOSE (`CloseSSEStream` → `stream.close`) and END (`Close`) -/

def sclose {α} (c : Conn α) (req : ReqId) (retry : Bool) : Conn α :=
  match c.reqStreams req with
  | none => c
  | some sid =>
    match findStream sid c.streams with
    | none => c
    | some s =>
      match s.attached, s.opn with
      | some ex, true =>
        let c1 := if s.v1125 && retry then (emit c ex .close).1 else c
        { c1 with streams := setStream { s with opn := false } c1.streams }
      | _, _ => c

def stepR {α} (c : Conn α) : Label α → Conn α × Res
  | .post calls listen ver budget => (post c calls listen ver budget, .na)
  | .write msg ctx ctxNew => writeR c msg ctx ctxNew
  | .cut ex => (cut c ex, .na)
  | .wfail ex => (wfail c ex, .na)
  | .get hdr ver budget => (get c hdr ver budget, .na)
  | .sclose req retry => (sclose c req retry, .na)
  | .end => ({ c with isDone := true }, .na)

def step {α} (c : Conn α) (l : Label α) : Conn α := (stepR c l).1

def run {α} (c : Conn α) (ls : List (Label α)) : Conn α := ls.foldl step c

/-! ### the handler's session table (`StreamableHTTPHandler.sessions`) -/

/-- World: one connection per session name. -/
structure World (α : Type) where
  conns : List (Nat × Conn α)

def findConn {α} (k : Nat) : List (Nat × Conn α) → Option (Conn α)
  | [] => none
  | (k', c) :: t => if k' = k then some c else findConn k t

def setConn {α} (k : Nat) (c' : Conn α) : List (Nat × Conn α) → List (Nat × Conn α)
  | [] => []
  | (k', c) :: t => if k' = k then (k', c') :: t else (k', c) :: setConn k c' t

inductive WLabel (α : Type) where
  | create (sess : Nat) (cfg : Cfg)          -- a POST without session id (or any stateless POST) connects a new transport
  | on (sess : Nat) (l : Label α)            -- a request carrying Mcp-Session-Id `sess`, or a write by that session's server side

def wstep {α} (w : World α) : WLabel α → World α
  | .create k cfg => match findConn k w.conns with
    | some _ => w
    | none => { conns := w.conns ++ [(k, init cfg)] }
  | .on k l => match findConn k w.conns with
    | none => w                                -- unknown session: 404 by the handler, no connection touched
    | some c => { conns := setConn k (step c l) w.conns }

def wrun {α} (w : World α) (ls : List (WLabel α)) : World α := ls.foldl wstep w

end Resume
