import McpModel.Generated.ResumeGen
/-
E5 — model of the streamable server connection (`mcp/streamable.go`: `streamableServerConn`, `stream`,
`servePOST`, `serveGET`/`acquireStream`, `Write`/`deliverLocked`, `CloseSSEStream`/`stream.close`,
`release`, `Close`).  Serves C08 and C10.  Transliteration contract: DESIGN.md Appendix E.

One label = one atomic section of the Go code (a critical section under `c.mu`/`stream.mu`, or one
externally visible action).  A schedule is a list of labels; "for all schedules" = "for all label
lists".  Everything is total and executable; core Lean only (linked into the driver).

Representation choices (none is read by the modelled code paths in a way that changes behaviour):
* `Stream.next` is `lastIdx + 1` (a `Nat` instead of an `Int` starting at −1).
* stream ids are fresh names: the model uses a counter (`nextSid`; 0 is the standalone stream `""`).
  Harness and driver both rename ids (the real `crand.Text()` ones / the counter values) in order of
  first appearance in the observations, so the particular fresh name never matters.
* an exchange records what was written to its `ResponseWriter` (`out`), what was written while the
  writer fails (`lost`: reaches nobody) and how many more writes succeed (`budget`).
* `store` is the *abstract* event store of C20: per stream the full append log (`none` = the empty
  priming payload) — the ground truth; `purged` says how many entries of each log the store has evicted
  (label EVICT, at any time, any prefix); `After` from an evicted position fails (`ErrEventsPurged`) and the
  GET is answered 400 (C20 proves the in-memory store either replays exactly or reports the purge).
* the world label FANOUT (`WLabel.fanout`): a server-level notification issued from inside a handler; each subscribed
  session's copy is the per-connection label `fanCopy p` = WRITE(notif p, no context);
* ghost fields, never read by `step`: `Item.ctx`, `Exch.stream`, `Exch.from`, `Stream.calls`, `Conn.hist`, `Conn.born`.

Deviations from Appendix E (all recorded because the differential run asked for them):
* labels that open an exchange carry a write `budget` (WFAIL at a chosen point of the exchange, incl. "from the
  start" and "in the middle of a replay"); WRITE carries `ctxNew` (the write's context has version ≥ 2026-07-28:
  no store append, no event id — C08 is about contexts before that version);
* `Write`'s two critical sections are the two labels WROUTE (routing under `c.mu`) and WDELIVER (append+deliver
  under `s.mu`) with the write pending in `Conn.pendW` in between; the label WRITE is the two back to back
  (`write_is_route_then_deliver`).  `acquireStream`'s lookup and replay sections are ONE label (GET); the release that follows SCLOSE / END is the separate CUT label
  (the driver issues it); a response that completes a stream ends the exchange in the WRITE label itself;
* the temporary "exclusive replay" entry of `acquireStream` does not persist in a state (GET is atomic);
* `select`s on `c.done` that race with a ready channel (`incoming` has room) are resolved as: POST without
  calls ⇒ 202; POST with calls / GET on a closed session ⇒ registered / attached, then released at once;
* not modelled: the SEP-2575 `overrideStatus` path (protocol-level JSON-RPC errors under 2026-07-28),
  `EventStore.Append` / `Open` returning errors (`After` failing — purged, unknown stream, closed session — is modelled).
-/
namespace Resume

/-- JSON-RPC request ids, logical stream ids and HTTP exchange ids are natural numbers (fresh names).
(Macros rather than `abbrev`s so that `omega` sees plain `Nat`.) -/
scoped macro "ReqId" : term => `(Nat)
scoped macro "SId" : term => `(Nat)
scoped macro "ExId" : term => `(Nat)

/-- A server→client JSON-RPC message; `p` is its opaque wire payload. -/
inductive Msg (α : Type) where
  | resp (id : ReqId) (p : α)
  | notif (p : α)
  | call (p : α)
deriving DecidableEq, Repr

def Msg.isCall {α} : Msg α → Bool
  | .call _ => true
  | _ => false

def Msg.respId {α} : Msg α → Option ReqId
  | .resp id _ => some id
  | _ => none

/-- What one `Write` carried: the message and the request id found in its context (ghost). -/
structure Item (α : Type) where
  msg : Msg α
  ctx : Option ReqId
deriving DecidableEq, Repr

/-- One `ResponseWriter.Write` of a stream body. -/
inductive Out (α : Type) where
  | comment                                             -- ": ok" (standalone stream, #410)
  | prime (sid : SId) (idx : Nat)                       -- event: prime, id: <sid>_<idx>, no data
  | message (id : Option (SId × Nat)) (it : Item α)     -- event: message
  | close                                               -- event: close, retry: …
  | json (items : List (Item α))                        -- flushed application/json body
deriving DecidableEq, Repr

inductive Kind where
  | sse | json | status (code : Nat)
deriving DecidableEq, Repr

structure Exch (α : Type) where
  kind   : Kind
  out    : List (Out α) := []
  lost   : List (Out α) := []
  budget : Option Nat := none       -- `some n`: n more writes succeed, then the writer fails
  ended  : Bool := false            -- the HTTP handler returned
  stream : SId := 0                 -- ghost: logical stream this exchange serves
  «from» : Nat := 0                 -- ghost: first log index it is entitled to (resume index + 1)

/-- everything the server wrote to the exchange, delivered or not -/
def Exch.all {α} (e : Exch α) : List (Out α) := e.out ++ e.lost

/-- protocol version classes that matter here (regenerated constants in `Generated.Resume`) -/
inductive Ver where
  | v0326 | v0618 | v1125 | v0728
deriving DecidableEq, Repr

def Ver.ge1125 : Ver → Bool
  | .v1125 | .v0728 => true
  | _ => false

def Ver.isNew : Ver → Bool
  | .v0728 => true
  | _ => false

structure Stream (α : Type) where
  id       : SId
  attached : Option ExId            -- `w ≠ nil`
  opn      : Bool                   -- `done ≠ nil`
  next     : Nat                    -- `lastIdx + 1`
  requests : List ReqId             -- unanswered requests
  json     : Option (List (Item α)) -- `pendingJSONMessages` (non-nil ⇒ JSON stream)
  listen   : Bool
  v1125    : Bool                   -- `protocolVersion ≥ 2025-11-25` (close event supported)
  calls    : List ReqId := []       -- ghost: requests at creation
deriving Repr

structure Cfg where
  stateless    : Bool
  jsonResponse : Bool
  hasStore     : Bool
  noSession    : Bool               -- `sessionID == ""`
deriving DecidableEq, Repr

/-- a `Write` between its two critical sections: routed (under `c.mu`), not yet appended / delivered (under the
stream's `mu`).  `sid` names the stream *object* the routing section picked. -/
structure PendW (α : Type) where
  msg    : Msg α
  ctx    : Option ReqId
  ctxNew : Bool
  sid    : SId

structure Conn (α : Type) where
  cfg        : Cfg
  streams    : List (Stream α)                        -- `c.streams` (at most one entry per id)
  reqStreams : ReqId → Option SId                     -- `c.requestStreams`
  isDone     : Bool
  store      : SId → Option (List (Option (Item α)))  -- abstract event store: the append log per stream
  exs        : List (Exch α)                          -- HTTP exchanges, index = ExId
  nextSid    : SId
  hist       : SId → Option (List ReqId × Bool)       -- ghost: (calls, listen) of every registered stream
  born       : SId → Option ExId := fun _ => none     -- ghost: the POST exchange that registered the stream
  purged     : SId → Nat := fun _ => 0                -- event store: entries evicted from the front of each log (`dataList.first`)
  pendW      : List (PendW α) := []                   -- writes between their routing and their delivery section

/-- `Connect`: the standalone stream exists from the start and is opened in the store. -/
def init {α} (cfg : Cfg) : Conn α :=
  { cfg, streams := [{ id := 0, attached := none, opn := false, next := 0, requests := [], json := none,
                       listen := false, v1125 := false }],
    reqStreams := fun _ => none, isDone := false,
    store := fun sid => if cfg.hasStore && sid == 0 then some [] else none, exs := [],
    nextSid := 1, hist := fun sid => if sid == 0 then some ([], false) else none }

inductive Hdr where
  | none | bad | ok (sid : SId) (idx : Nat)
deriving DecidableEq, Repr

inductive Label (α : Type) where
  | post (calls : List ReqId) (listen : Bool) (ver : Ver) (budget : Option Nat)
  | write (msg : Msg α) (ctx : Option ReqId) (ctxNew : Bool)
  | cut (ex : ExId)
  | wfail (ex : ExId)
  | get (hdr : Hdr) (ver : Ver) (budget : Option Nat)
  | sclose (req : ReqId) (retry : Bool)
  | «end»
  | evict (sid : SId) (n : Nat)      -- the event store drops the entries before index `n` of a stream's log (`MemoryEventStore.purge`)
  | wroute (msg : Msg α) (ctx : Option ReqId) (ctxNew : Bool)   -- `Write`, first critical section (`c.mu`): routing
  | wdeliver (i : Nat)               -- `Write`, second critical section (the stream's `mu`) of the `i`-th pending write
deriving Repr

/-- what `Write` returned -/
inductive Res where
  | na | ok | rejected | broken
deriving DecidableEq, Repr

/-! ### helpers -/

def findStream {α} (sid : SId) (l : List (Stream α)) : Option (Stream α) := l.find? (fun s => s.id == sid)

/-- `c.streams[s'.id] = s'` -/
def setStream {α} (s' : Stream α) (l : List (Stream α)) : List (Stream α) :=
  l.map (fun s => if s.id = s'.id then s' else s)

/-- `delete(c.streams, sid)` -/
def delStream {α} (sid : SId) (l : List (Stream α)) : List (Stream α) := l.filter (fun s => s.id != sid)

def findListen {α} (l : List (Stream α)) : Option (Stream α) := l.find? (·.listen)

abbrev Store (α : Type) := SId → Option (List (Option (Item α)))

/-- `EventStore.Open` -/
def openLog {α} (sid : SId) (st : Store α) : Store α :=
  fun k => if k = sid then some ((st sid).getD []) else st k

/-- `EventStore.Append` (creates the stream if it does not exist, as `MemoryEventStore.init` does) -/
def appendLog {α} (sid : SId) (x : Option (Item α)) (st : Store α) : Store α :=
  fun k => if k = sid then some ((st sid).getD [] ++ [x]) else st k

def setEx {α} (ex : ExId) (f : Exch α → Exch α) (l : List (Exch α)) : List (Exch α) := l.modify ex f

/-- One `w.Write` of `o` on an exchange: delivered unless the writer fails. Returns whether it succeeded. -/
def Exch.push {α} (e : Exch α) (o : Out α) : Exch α × Bool :=
  match e.budget with
  | some 0 => ({ e with lost := e.lost ++ [o] }, false)
  | some (b + 1) => ({ e with out := e.out ++ [o], budget := some b }, true)
  | none => ({ e with out := e.out ++ [o] }, true)

def emitX {α} (exs : List (Exch α)) (ex : ExId) (o : Out α) : List (Exch α) × Bool :=
  match exs[ex]? with
  | none => (exs, false)
  | some e => (setEx ex (fun e => (e.push o).1) exs, (e.push o).2)

def finishX {α} (exs : List (Exch α)) (ex : ExId) : List (Exch α) :=
  setEx ex (fun e => { e with ended := true }) exs

def emit {α} (c : Conn α) (ex : ExId) (o : Out α) : Conn α × Bool :=
  ({ c with exs := (emitX c.exs ex o).1 }, (emitX c.exs ex o).2)

/-- the HTTP handler of `ex` returns -/
def finish {α} (c : Conn α) (ex : ExId) : Conn α := { c with exs := finishX c.exs ex }

def dedup : List ReqId → List ReqId
  | [] => []
  | r :: t => if r ∈ t then dedup t else r :: dedup t

/-! ### CUT (`release` after the request context ended / the handler returned) and WFAIL -/

def release {α} (ex : ExId) (l : List (Stream α)) : List (Stream α) :=
  l.map (fun s => if s.attached = some ex then { s with attached := none, opn := false } else s)

def cut {α} (c : Conn α) (ex : ExId) : Conn α :=
  finish { c with streams := release ex c.streams } ex

def wfail {α} (c : Conn α) (ex : ExId) : Conn α :=
  { c with exs := setEx ex (fun e => { e with budget := some 0 }) c.exs }

/-! ### POST (`servePOST`) -/

/-- an exchange answered with a bare status (202, 400, 404, 409) -/
def statusEx {α} (c : Conn α) (code : Nat) (sid : SId := 0) : Conn α :=
  { c with exs := c.exs ++ [{ kind := .status code, ended := true, stream := sid }] }

/-- does `newStream` call `EventStore.Open`? -/
def opens {α} (c : Conn α) (ver : Ver) : Bool := c.cfg.hasStore && !ver.isNew

def useSSE {α} (c : Conn α) (listen : Bool) : Bool := !c.cfg.jsonResponse || listen

/-- is a priming event written (and stored)? SSE ∧ store ∧ 2025-11-25 ≤ version < 2026-07-28 -/
def primed {α} (c : Conn α) (listen : Bool) (ver : Ver) : Bool :=
  useSSE c listen && c.cfg.hasStore && ver.ge1125 && !ver.isNew

/-- the store after `newStream` (Open) and the priming `Append` -/
def postStore {α} (c : Conn α) (listen : Bool) (ver : Ver) : Store α :=
  let st1 := if opens c ver then openLog c.nextSid c.store else c.store
  if primed c listen ver then appendLog c.nextSid none st1 else st1

/-- duplicate in-flight id: 400, nothing registered (the drawn stream id stays visible only through Open) -/
def postDup {α} (c : Conn α) (ver : Ver) : Conn α :=
  statusEx { c with store := if opens c ver then openLog c.nextSid c.store else c.store, nextSid := c.nextSid + 1 } 400 c.nextSid

/-- the stream registered for the calls of a POST -/
def newStream {α} (c : Conn α) (calls : List ReqId) (listen : Bool) (ver : Ver) : Stream α :=
  { id := c.nextSid, attached := some c.exs.length, opn := true, next := if primed c listen ver then 1 else 0,
    requests := calls, json := if useSSE c listen then none else some [], listen := listen,
    v1125 := ver.ge1125, calls := calls }

/-- registration (one `c.mu` section): `streams[s] = stream`, `requestStreams[id] = s` -/
def register {α} (c : Conn α) (calls : List ReqId) (listen : Bool) (ver : Ver) (budget : Option Nat) : Conn α :=
  { c with nextSid := c.nextSid + 1, streams := c.streams ++ [newStream c calls listen ver],
           reqStreams := fun r => if r ∈ calls then some c.nextSid else c.reqStreams r,
           exs := c.exs ++ [{ kind := if useSSE c listen then .sse else .json, budget := budget, stream := c.nextSid, «from» := 0 }],
           hist := fun k => if k = c.nextSid then some (calls, listen) else c.hist k,
           born := fun k => if k = c.nextSid then some c.exs.length else c.born k,
           store := postStore c listen ver }

def postNew {α} (c : Conn α) (calls : List ReqId) (listen : Bool) (ver : Ver) (budget : Option Nat) : Conn α :=
  let c2 := register c calls listen ver budget
  let c3 := if primed c listen ver then (emit c2 c.exs.length (.prime c.nextSid 0)).1 else c2
  -- publish, then `hangResponse`: on a closed session (`c.done` closed) the handler returns at once
  if c.isDone then cut c3 c.exs.length else c3

def post {α} (c : Conn α) (calls : List ReqId) (listen : Bool) (ver : Ver) (budget : Option Nat) : Conn α :=
  if dedup calls = [] then statusEx c 202                      -- no calls: publish, 202 (`calls` is a Go map: `dedup`)
  else if (dedup calls).any (fun r => (c.reqStreams r).isSome) then postDup c ver
  else postNew c (dedup calls) listen ver budget

/-! ### WRITE (`streamableServerConn.Write` + `deliverLocked`) -/

/-- the request a write relates to -/
def related {α} (c : Conn α) (msg : Msg α) (ctx : Option ReqId) : Option ReqId :=
  match msg with
  | .resp id _ => some id
  | _ => if c.cfg.jsonResponse then none else ctx

/-- the write-side routing decision (first critical section, under `c.mu`) -/
def route {α} (c : Conn α) (msg : Msg α) (ctx : Option ReqId) : Option (Stream α) :=
  match related c msg ctx with
  | some r =>
    match c.reqStreams r with
    | some sid => findStream sid c.streams
    | none => none
  | none =>
    match findListen c.streams with
    | some s => some s
    | none => findStream 0 c.streams

def eraseAll (r : ReqId) : List ReqId → List ReqId
  | [] => []
  | x :: t => if x = r then eraseAll r t else x :: eraseAll r t

/-- `deliverLocked` on stream `s` whose outstanding requests become `reqs` (`done` = none left and not the
standalone stream).  Returns the exchange table, the updated stream and whether a write reached the
response without error (buffering a JSON message counts as delivered). -/
def deliver {α} (exs : List (Exch α)) (s : Stream α) (it : Item α) (evid : Option (SId × Nat))
    (reqs : List ReqId) (done : Bool) : List (Exch α) × Stream α × Bool :=
  match s.attached, s.opn with
  | some ex, true =>
    match s.json with
    | some pend =>
      if done then
        ((finishX (emitX exs ex (.json (pend ++ [it]))).1 ex),
         { s with requests := reqs, json := some (pend ++ [it]), opn := false }, (emitX exs ex (.json (pend ++ [it]))).2)
      else (exs, { s with requests := reqs, json := some (pend ++ [it]) }, true)
    | none =>
      (if done then finishX (emitX exs ex (.message evid it)).1 ex else (emitX exs ex (.message evid it)).1,
       { s with requests := reqs, next := s.next + 1, opn := !done }, (emitX exs ex (.message evid it)).2)
  | _, _ => (exs, { s with requests := reqs }, false)      -- "stream not connected or already closed"

/-- `delete(c.requestStreams, responseTo)` -/
def eraseResp {α} (c : Conn α) (msg : Msg α) : Conn α :=
  match msg with
  | .resp id _ => { c with reqStreams := fun r => if r = id then none else c.reqStreams r }
  | _ => c

/-- is the message appended to the event store? (store configured ∧ context version < 2026-07-28) -/
def wUse {α} (c : Conn α) (ctxNew : Bool) : Bool := c.cfg.hasStore && !ctxNew

def wReqs {α} (s : Stream α) (msg : Msg α) : List ReqId :=
  match msg with
  | .resp id _ => eraseAll id s.requests
  | _ => s.requests

def wDone {α} (s : Stream α) (msg : Msg α) : Bool := (wReqs s msg).isEmpty && s.id != 0

def wDeliver {α} (c : Conn α) (s : Stream α) (msg : Msg α) (ctx : Option ReqId) (ctxNew : Bool) :
    List (Exch α) × Stream α × Bool :=
  deliver c.exs s ⟨msg, ctx⟩ (if wUse c ctxNew then some (s.id, s.next) else none) (wReqs s msg) (wDone s msg)

/-- second critical section, under `s.mu`: append to the store, then deliver; a finished stream is deleted -/
def writeTo {α} (c : Conn α) (s : Stream α) (msg : Msg α) (ctx : Option ReqId) (ctxNew : Bool) : Conn α × Res :=
  ({ c with store := if wUse c ctxNew then appendLog s.id (some ⟨msg, ctx⟩) c.store else c.store,
            exs := (wDeliver c s msg ctx ctxNew).1,
            streams := if wDone s msg then delStream s.id c.streams else setStream (wDeliver c s msg ctx ctxNew).2.1 c.streams },
   if wUse c ctxNew || (wDeliver c s msg ctx ctxNew).2.2 then .ok else .rejected)

def writeR {α} (c : Conn α) (msg : Msg α) (ctx : Option ReqId) (ctxNew : Bool) : Conn α × Res :=
  if msg.isCall && (c.cfg.stateless || c.cfg.noSession) then (c, .rejected) else
  match route c msg ctx with
  | none => (eraseResp c msg, .rejected)                       -- "write to closed stream"
  | some s =>
    if c.isDone then (eraseResp c msg, .broken)                -- "session is closed"
    else writeTo (eraseResp c msg) s msg ctx ctxNew

/-! ### APPENDFAIL: a WRITE whose `EventStore.Append` fails

`Write` only remembers the error (`errs = append(errs, err)`): nothing is appended, the event id is still computed from
`lastIdx + 1` (it depends on `c.eventStore != nil`, not on the outcome of `Append`), `deliverLocked` runs as for any other
write — a response is removed from `requests`, the stream completes with its last response, `lastIdx` advances — and the
write fails (rejected) only if the message could not be delivered either.  Not a `Label` (the proofs about label lists
are about a store that meets its contract); the extended step relation is `McpModel.Resume.AppendFail`. -/

/-- second critical section of a write whose `Append` fails -/
def writeToF {α} (c : Conn α) (s : Stream α) (msg : Msg α) (ctx : Option ReqId) (ctxNew : Bool) : Conn α × Res :=
  ({ c with exs := (wDeliver c s msg ctx ctxNew).1,
            streams := if wDone s msg then delStream s.id c.streams else setStream (wDeliver c s msg ctx ctxNew).2.1 c.streams },
   if (wDeliver c s msg ctx ctxNew).2.2 then .ok else .rejected)

/-- `Write` with a failing `Append` (when no `Append` is attempted — no store, a ≥ 2026-07-28 context — this is `writeR`) -/
def writeFR {α} (c : Conn α) (msg : Msg α) (ctx : Option ReqId) (ctxNew : Bool) : Conn α × Res :=
  if !wUse c ctxNew then writeR c msg ctx ctxNew else
  if msg.isCall && (c.cfg.stateless || c.cfg.noSession) then (c, .rejected) else
  match route c msg ctx with
  | none => (eraseResp c msg, .rejected)
  | some s =>
    if c.isDone then (eraseResp c msg, .broken)
    else writeToF (eraseResp c msg) s msg ctx ctxNew

/-! ### WRITE in two steps: WROUTE (under `c.mu`) and WDELIVER (under the stream's `mu`)

Between the two sections anything may happen: the stream may be detached, re-attached by a resume, closed, even
completed and deleted by another write; the session may be closed.  The delivery section works on the stream
object the routing section picked (`PendW.sid`); if that object is no longer registered its `done` channel is gone,
so nothing is delivered, but the message is still appended to the store. -/

/-- first critical section: routing decision, `delete(c.requestStreams, responseTo)`, `sessionClosed := c.isDone` -/
def wrouteR {α} (c : Conn α) (msg : Msg α) (ctx : Option ReqId) (ctxNew : Bool) : Conn α × Res :=
  if msg.isCall && (c.cfg.stateless || c.cfg.noSession) then (c, .rejected) else
  match route c msg ctx with
  | none => (eraseResp c msg, .rejected)
  | some s =>
    if c.isDone then (eraseResp c msg, .broken)
    else ({ eraseResp c msg with pendW := c.pendW ++ [⟨msg, ctx, ctxNew, s.id⟩] }, .na)

/-- the delivery section on a stream object that was completed and deleted meanwhile: store only -/
def orphanWrite {α} (c : Conn α) (pw : PendW α) : Conn α × Res :=
  ({ c with store := if wUse c pw.ctxNew then appendLog pw.sid (some ⟨pw.msg, pw.ctx⟩) c.store else c.store },
   if wUse c pw.ctxNew then .ok else .rejected)

/-- second critical section of the `i`-th pending write -/
def wdeliverR {α} (c : Conn α) (i : Nat) : Conn α × Res :=
  match c.pendW[i]? with
  | none => (c, .na)
  | some pw =>
    match findStream pw.sid c.streams with
    | some s => writeTo { c with pendW := c.pendW.eraseIdx i } s pw.msg pw.ctx pw.ctxNew
    | none => orphanWrite { c with pendW := c.pendW.eraseIdx i } pw

/-! ### GET (`serveGET` / `acquireStream`) -/

def Hdr.sid : Hdr → SId
  | .ok sid _ => sid
  | _ => 0

/-- first index to replay: Last-Event-ID index + 1, or 0 without the header -/
def Hdr.from : Hdr → Nat
  | .ok _ idx => idx + 1
  | _ => 0

def Hdr.has : Hdr → Bool
  | .ok _ _ => true
  | _ => false

/-- the stored payloads after index `from − 1`, empty ones skipped (as `acquireStream` does) -/
def toReplay {α} (log : List (Option (Item α))) («from» : Nat) : List (Item α) :=
  (log.drop «from»).filterMap id

/-- `EventStore.After`; `none` = it failed: unknown stream, `SessionClosed` removed the session, or the entries
right after the resume point were evicted (`ErrEventsPurged`: `index + 1 < dataList.first`) -/
def replayItems {α} (c : Conn α) (sid : SId) («from» : Nat) : Option (List (Item α)) :=
  if c.cfg.hasStore then
    if c.isDone then none else
    match c.store sid with
    | none => none
    | some log => if «from» < c.purged sid then none else some (toReplay log «from»)
  else some []

/-- replay loop: ids are `from, from+1, …` counted over the replayed items; stops at the first failed write -/
def replayLoop {α} (c : Conn α) (ex : ExId) (sid : SId) : Nat → List (Item α) → Conn α × Bool
  | _, [] => (c, true)
  | k, it :: rest =>
    if (emit c ex (.message (some (sid, k)) it)).2 then replayLoop (emit c ex (.message (some (sid, k)) it)).1 ex sid (k + 1) rest
    else ((emit c ex (.message (some (sid, k)) it)).1, false)

/-- the new exchange of a GET; the standalone stream first gets the `: ok` comment -/
def getOpen {α} (c : Conn α) (sid : SId) («from» : Nat) (budget : Option Nat) : Conn α :=
  if sid = 0 then
    (emit { c with exs := c.exs ++ [{ kind := .sse, budget := budget, stream := sid, «from» := «from» }] } c.exs.length .comment).1
  else { c with exs := c.exs ++ [{ kind := .sse, budget := budget, stream := sid, «from» := «from» }] }

/-- set up delivery state: `s.w = w; s.done = make(…); s.lastIdx = lastIdx; s.protocolVersion = …` -/
def attach {α} (c : Conn α) (s : Stream α) (ex : ExId) (next : Nat) (ver : Ver) (closed : Bool) : Conn α :=
  if closed then   -- `hangResponse` returns at once on a closed session
    cut { c with streams := setStream { s with attached := some ex, opn := true, next := next, v1125 := ver.ge1125 } c.streams } ex
  else { c with streams := setStream { s with attached := some ex, opn := true, next := next, v1125 := ver.ge1125 } c.streams }

def getGo {α} (c : Conn α) (sid : SId) («from» : Nat) (ver : Ver) (budget : Option Nat) (items : List (Item α)) : Conn α :=
  if (replayLoop (getOpen c sid «from» budget) c.exs.length sid «from» items).2 then
    match findStream sid c.streams with
    | none => finish (replayLoop (getOpen c sid «from» budget) c.exs.length sid «from» items).1 c.exs.length   -- temporary (replay-only) stream
    | some s =>
      if s.requests.isEmpty && s.id != 0 then                                                                -- `doneLocked`
        finish (replayLoop (getOpen c sid «from» budget) c.exs.length sid «from» items).1 c.exs.length
      else attach (replayLoop (getOpen c sid «from» budget) c.exs.length sid «from» items).1 s c.exs.length
             («from» + items.length) ver c.isDone
  else finish (replayLoop (getOpen c sid «from» budget) c.exs.length sid «from» items).1 c.exs.length         -- a replay write failed

def get {α} (c : Conn α) (hdr : Hdr) (ver : Ver) (budget : Option Nat) : Conn α :=
  if hdr = .bad then statusEx c 400                                    -- malformed Last-Event-ID
  else if hdr.has && !c.cfg.hasStore then statusEx c 400               -- "stream replay unsupported"
  else match (findStream hdr.sid c.streams).bind (·.attached) with
    | some _ => statusEx c 409                                         -- claimed by another request
    | none =>
      match replayItems c hdr.sid hdr.from with
      | none => statusEx c 400                                         -- `After` failed
      | some items => getGo c hdr.sid hdr.from ver budget items

/-! ### EVICT (`MemoryEventStore.purge`, run by any `Append` / `SetMaxBytes` of the shared store) -/

/-- the store forgets the entries of `sid` before index `n` (it never forgets what is not there yet, and never
un-forgets).  `store` keeps the full append log: it is the ground truth the theorems speak about; what the
store can still replay is `log.drop (purged sid)`. -/
def evict {α} (c : Conn α) (sid : SId) (n : Nat) : Conn α :=
  { c with purged := fun k => if k = sid then max (c.purged k) (min n ((c.store k).getD []).length) else c.purged k }

/-! ### SCLOSE (`CloseSSEStream` → `stream.close`) and END (`Close`) -/

def sclose {α} (c : Conn α) (req : ReqId) (retry : Bool) : Conn α :=
  match c.reqStreams req with
  | none => c
  | some sid =>
    match findStream sid c.streams with
    | none => c
    | some s =>
      match s.attached, s.opn with
      | some ex, true =>
        let c1 := if s.v1125 && retry then (emit c ex .close).1 else c
        { c1 with streams := setStream { s with opn := false } c1.streams }
      | _, _ => c

def stepR {α} (c : Conn α) : Label α → Conn α × Res
  | .post calls listen ver budget => (post c calls listen ver budget, .na)
  | .write msg ctx ctxNew => writeR c msg ctx ctxNew
  | .cut ex => (cut c ex, .na)
  | .wfail ex => (wfail c ex, .na)
  | .get hdr ver budget => (get c hdr ver budget, .na)
  | .sclose req retry => (sclose c req retry, .na)
  | .end => ({ c with isDone := true }, .na)
  | .evict sid n => (evict c sid n, .na)
  | .wroute msg ctx ctxNew => wrouteR c msg ctx ctxNew
  | .wdeliver i => wdeliverR c i

def step {α} (c : Conn α) (l : Label α) : Conn α := (stepR c l).1

def run {α} (c : Conn α) (ls : List (Label α)) : Conn α := ls.foldl step c

/-! ### the handler's session table (`StreamableHTTPHandler.sessions`) -/

/-- World: one connection per session name. -/
structure World (α : Type) where
  conns : List (Nat × Conn α)

def findConn {α} (k : Nat) : List (Nat × Conn α) → Option (Conn α)
  | [] => none
  | (k', c) :: t => if k' = k then some c else findConn k t

def setConn {α} (k : Nat) (c' : Conn α) : List (Nat × Conn α) → List (Nat × Conn α)
  | [] => []
  | (k', c) :: t => if k' = k then (k', c') :: t else (k', c) :: setConn k c' t

inductive WLabel (α : Type) where
  | create (sess : Nat) (cfg : Cfg)          -- a POST without session id (or any stateless POST) connects a new transport
  | on (sess : Nat) (l : Label α)            -- a request carrying Mcp-Session-Id `sess`, or a write by that session's server side
  /-- FANOUT: server code running inside the handler of request `octx` of session `origin` (or anywhere else) makes the
  SERVER emit a session-independent notification with payload `p` (`Server.ResourceUpdated`, a list-changed
  announcement): every session in `targets` (the subscribed ones) gets its own copy.  `notifySessions` /
  `notifySubscribedSessions` send every copy with `context.Background()` (regenerated fact `resume.fanout_context`), so
  neither `origin` nor `octx` takes part in the step: in each target session the copy is a DETACHED write. -/
  | fanout (origin : Nat) (octx : Option ReqId) (targets : List Nat) (p : α)

/-- the copy of a fan-out notification one session receives: written with the background context (no request id, no
protocol version in the context) -/
def fanCopy {α} (p : α) : Label α := .write (.notif p) none false

/-- a step of session `k` -/
def wOn {α} (w : World α) (k : Nat) (l : Label α) : World α :=
  match findConn k w.conns with
  | none => w                                -- unknown session: 404 by the handler, no connection touched
  | some c => { conns := setConn k (step c l) w.conns }

def wstep {α} (w : World α) : WLabel α → World α
  | .create k cfg => match findConn k w.conns with
    | some _ => w
    | none => { conns := w.conns ++ [(k, init cfg)] }
  | .on k l => wOn w k l
  | .fanout _ _ ts p => ts.foldl (fun w k => wOn w k (fanCopy p)) w

def wrun {α} (w : World α) (ls : List (WLabel α)) : World α := ls.foldl wstep w

end Resume
