import McpModel.Resume.C10
/-!
E5 — request bookkeeping invariants:
* `InvReg` (all label lists): while the session is open, a request is outstanding on a registered stream
  exactly when `requestStreams` maps it to that stream (so "duplicate in-flight id" is what POST refuses);
* `InvAns` (store configured, contexts before 2026-07-28): every request a stream was created for is either
  still outstanding on the registered stream or its response is in that stream's log — which is what
  keeps the final response obtainable after the stream is deleted.
-/
namespace Resume
variable {α : Type}

structure InvReg (c : Conn α) : Prop where
  live : c.isDone = false → ∀ s ∈ c.streams, ∀ r ∈ s.requests, c.reqStreams r = some s.id
  reg : ∀ (r sid : Nat), c.reqStreams r = some sid → ∃ s ∈ c.streams, s.id = sid ∧ r ∈ s.requests

theorem invReg_init (cfg : Cfg) : InvReg (init cfg : Conn α) := by
  refine ⟨?_, ?_⟩
  · intro _ s hs r hr; simp [init] at hs; subst hs; cases hr
  · intro r sid h; simp [init] at h

/-- every old stream is still there with the same outstanding requests -/
def StrKeepF (l l' : List (Stream α)) : Prop := ∀ s ∈ l, ∃ s' ∈ l', s'.id = s.id ∧ s'.requests = s.requests

theorem strKeepF_release (l : List (Stream α)) (ex : Nat) : StrKeepF l (release ex l) := by
  intro s hs
  unfold release
  by_cases hat : s.attached = some ex
  · exact ⟨{ s with attached := none, opn := false }, List.mem_map.mpr ⟨s, hs, by simp [hat]⟩, rfl, rfl⟩
  · exact ⟨s, List.mem_map.mpr ⟨s, hs, by simp [hat]⟩, rfl, rfl⟩

theorem strKeepF_set {l : List (Stream α)} (hn : (l.map (·.id)).Nodup) {s s' : Stream α} (hs : s ∈ l) (h1 : s'.id = s.id)
    (h4 : s'.requests = s.requests) : StrKeepF l (setStream s' l) := by
  intro x hx
  by_cases hid : x.id = s'.id
  · have hxs : x = s := by
      have e1 := findStream_of_mem hn hx
      have e2 := findStream_of_mem hn hs
      rw [hid, h1] at e1
      rw [e1] at e2; cases e2; rfl
    subst hxs
    exact ⟨s', mem_setStream_self hx hid, h1, h4⟩
  · exact ⟨x, mem_setStream_other hx hid, rfl, rfl⟩

/-- frame lemma: `requestStreams`, `isDone` untouched, streams kept in both directions -/
theorem invReg_frame {c c' : Conn α} (h : InvReg c) (hd : c'.isDone = c.isDone ∨ c'.isDone = true)
    (hreq : c'.reqStreams = c.reqStreams) (hs : StrKeep c.streams c'.streams) (hf : StrKeepF c.streams c'.streams) : InvReg c' := by
  refine ⟨?_, ?_⟩
  · intro hnd s' hs' r hr
    obtain ⟨s, hsl, h1, _, _, h4, _⟩ := hs s' hs'
    have : c.isDone = false := by
      rcases hd with hd | hd
      · rw [← hd]; exact hnd
      · rw [hd] at hnd; cases hnd
    rw [hreq, h1]; exact h.live this s hsl r (by rw [← h4]; exact hr)
  · intro r sid hr
    rw [hreq] at hr
    obtain ⟨s, hsl, hid, hmem⟩ := h.reg r sid hr
    obtain ⟨s', hs', h1, h4⟩ := hf s hsl
    exact ⟨s', hs', by rw [h1]; exact hid, by rw [h4]; exact hmem⟩

theorem invReg_cut {c : Conn α} (h : InvReg c) (ex : Nat) : InvReg (cut c ex) :=
  invReg_frame (c' := cut c ex) h (Or.inl rfl) rfl (strKeep_release _ _) (strKeepF_release _ _)

theorem strKeepF_refl (l : List (Stream α)) : StrKeepF l l := fun s hs => ⟨s, hs, rfl, rfl⟩

theorem invReg_sclose {c : Conn α} (hw : Inv c) (h : InvReg c) (req : Nat) (retry : Bool) : InvReg (sclose c req retry) := by
  unfold sclose
  split
  · exact h
  · split
    · exact h
    · rename_i s hs
      have hmem := (findStream_some hs).1
      split
      · split
        · exact invReg_frame (c' := { (emit c _ .close).1 with streams := setStream { s with opn := false } (emit c _ .close).1.streams })
            h (Or.inl rfl) rfl (strKeep_set (s := s) hmem rfl rfl rfl rfl rfl) (strKeepF_set hw.nodup (s := s) hmem rfl rfl)
        · exact invReg_frame (c' := { c with streams := setStream { s with opn := false } c.streams })
            h (Or.inl rfl) rfl (strKeep_set (s := s) hmem rfl rfl rfl rfl rfl) (strKeepF_set hw.nodup (s := s) hmem rfl rfl)
      · exact h

/-! ### POST -/

theorem invReg_postPrimed {c : Conn α} (hw : Inv c) (h : InvReg c) (calls : List Nat) (listen : Bool) (ver : Ver)
    (budget : Option Nat) (hnd : ∀ r ∈ calls, c.reqStreams r = none) : InvReg (postPrimed c calls listen ver budget) := by
  obtain ⟨fs, _, _, _, fd, frq, _⟩ := postPrimed_frame c calls listen ver budget
  refine ⟨?_, ?_⟩
  · intro hdn s' hs' r hr
    rw [fd] at hdn
    rw [fs] at hs'
    rw [frq]
    simp only [List.mem_append, List.mem_singleton] at hs'
    rcases hs' with hold | rfl
    · have := h.live hdn s' hold r hr
      have hnc : r ∉ calls := fun hc => by rw [hnd r hc] at this; cases this
      simp [hnc, this]
    · simp only [newStream] at hr ⊢
      simp [hr]
  · intro r sid hr
    rw [frq] at hr
    rw [fs]
    simp only at hr
    split at hr
    · rename_i hc
      cases hr
      exact ⟨newStream c calls listen ver, by simp, rfl, by simpa [newStream] using hc⟩
    · obtain ⟨s, hsl, hid, hm⟩ := h.reg r sid hr
      exact ⟨s, by simp [hsl], hid, hm⟩

theorem invReg_post {c : Conn α} (hw : Inv c) (h : InvReg c) (calls : List Nat) (listen : Bool) (ver : Ver)
    (budget : Option Nat) : InvReg (post c calls listen ver budget) := by
  unfold post
  split
  · exact invReg_frame (c' := statusEx c 202) h (Or.inl rfl) rfl (StrKeep.refl _) (strKeepF_refl _)
  · split
    · exact invReg_frame (c' := postDup c ver) h (Or.inl rfl) rfl (StrKeep.refl _) (strKeepF_refl _)
    · rename_i hany
      have hnd : ∀ r ∈ dedup calls, c.reqStreams r = none := by
        intro r hr
        cases hc : c.reqStreams r with
        | none => rfl
        | some v =>
          exfalso; apply hany
          rw [List.any_eq_true]
          exact ⟨r, hr, by rw [hc]; rfl⟩
      rw [postNew_eq]
      split
      · exact invReg_cut (invReg_postPrimed hw h _ _ _ _ hnd) _
      · exact invReg_postPrimed hw h _ _ _ _ hnd

/-! ### WRITE -/

/-- a response is routed to the stream registered for its id -/
theorem route_resp {c : Conn α} {id : Nat} {p : α} {ctx : Option Nat} :
    route c (.resp id p) ctx = match c.reqStreams id with
      | some sid => findStream sid c.streams
      | none => none := by
  simp only [route, related]
  rfl

theorem eraseResp_req_resp (c : Conn α) (id : Nat) (p : α) (r : Nat) :
    (eraseResp c (.resp id p)).reqStreams r = if r = id then none else c.reqStreams r := rfl

theorem invReg_eraseResp_of {c : Conn α} (hw : Inv c) (h : InvReg c) (msg : Msg α) (ctx : Option Nat)
    (hcase : route c msg ctx = none ∨ c.isDone = true) : InvReg (eraseResp c msg) := by
  refine ⟨?_, ?_⟩
  · intro hdn s hs r hr
    simp only [eraseResp_isDone] at hdn
    simp only [eraseResp_streams] at hs
    have hl := h.live hdn s hs r hr
    cases msg with
    | resp id p =>
      rw [eraseResp_req_resp]
      by_cases hri : r = id
      · exfalso
        subst hri
        rcases hcase with hrt | hd
        · rw [route_resp, hl] at hrt
          simp only at hrt
          rw [findStream_of_mem hw.nodup hs] at hrt; cases hrt
        · rw [hd] at hdn; cases hdn
      · simp [hri, hl]
    | notif p => exact hl
    | call p => exact hl
  · intro r sid hr
    have : c.reqStreams r = some sid := by
      cases msg with
      | resp id p =>
        rw [eraseResp_req_resp] at hr
        split at hr
        · cases hr
        · exact hr
      | notif p => exact hr
      | call p => exact hr
    simpa using h.reg r sid this

theorem wReqs_ne {s : Stream α} {id : Nat} {p : α} {r : Nat} (h : r ∈ wReqs s (.resp id p)) : r ≠ id := by
  simp only [wReqs] at h; exact (mem_eraseAll h).2

theorem invReg_writeTo {c : Conn α} (hw : Inv c) (h : InvReg c) (msg : Msg α) (ctx : Option Nat) (ctxNew : Bool)
    {s : Stream α} (hrt : route c msg ctx = some s) (hdn : c.isDone = false) :
    InvReg (writeTo (eraseResp c msg) s msg ctx ctxNew).1 := by
  have hmem := route_mem hrt
  have hds := deliver_stream (eraseResp c msg).exs s ⟨msg, ctx⟩ (if wUse (eraseResp c msg) ctxNew then some (s.id, s.next) else none)
    (wReqs s msg) (wDone s msg)
  -- a request outstanding on another stream is not the one being answered
  have hother : ∀ x ∈ c.streams, x.id ≠ s.id → ∀ r ∈ x.requests, (eraseResp c msg).reqStreams r = some x.id := by
    intro x hx hne r hr
    have hl := h.live hdn x hx r hr
    cases msg with
    | resp id p =>
      rw [eraseResp_req_resp]
      by_cases hri : r = id
      · exfalso; subst hri
        rw [route_resp, hl] at hrt
        simp only at hrt
        rw [findStream_of_mem hw.nodup hx] at hrt
        cases hrt; exact hne rfl
      · simp [hri, hl]
    | notif p => exact hl
    | call p => exact hl
  have hself : ∀ r ∈ wReqs s msg, (eraseResp c msg).reqStreams r = some s.id := by
    intro r hr
    have hl := h.live hdn s hmem r (mem_wReqs hr)
    cases msg with
    | resp id p => rw [eraseResp_req_resp]; simp [wReqs_ne hr, hl]
    | notif p => exact hl
    | call p => exact hl
  refine ⟨?_, ?_⟩
  · intro _ x hx r hr
    simp only [writeTo, eraseResp_streams] at hx ⊢
    split at hx
    · rw [mem_delStream] at hx
      exact hother x hx.1 hx.2 r hr
    · rcases mem_setStream hx with rfl | ⟨hxl, hne⟩
      · simp only [wDeliver] at hr ⊢
        rw [hds.2.2.2.1] at hr
        rw [hds.1]
        exact hself r hr
      · simp only [wDeliver] at hne
        rw [hds.1] at hne
        exact hother x hxl hne r hr
  · intro r sid hr
    simp only [writeTo] at hr
    have hc : c.reqStreams r = some sid ∧ (∀ id p, msg = .resp id p → r ≠ id) := by
      cases msg with
      | resp id p =>
        rw [eraseResp_req_resp] at hr
        split at hr
        · cases hr
        · rename_i hne; exact ⟨hr, fun id' p' he => by cases he; exact hne⟩
      | notif p => exact ⟨hr, fun _ _ he => by cases he⟩
      | call p => exact ⟨hr, fun _ _ he => by cases he⟩
    obtain ⟨x, hxl, hid, hm⟩ := h.reg r sid hc.1
    simp only [writeTo, eraseResp_streams]
    by_cases hxs : x.id = s.id
    · have hxeq : x = s := by
        have e1 := findStream_of_mem hw.nodup hxl
        have e2 := findStream_of_mem hw.nodup hmem
        rw [hxs] at e1; rw [e1] at e2; cases e2; rfl
      subst hxeq
      have hrw : r ∈ wReqs x msg := by
        cases msg with
        | resp id p => simp only [wReqs]; exact mem_eraseAll_of hm (hc.2 id p rfl)
        | notif p => exact hm
        | call p => exact hm
      have hnd : wDone x msg = false := by
        simp only [wDone]
        cases hw' : wReqs x msg with
        | nil => rw [hw'] at hrw; cases hrw
        | cons a t => simp
      simp only [hnd]
      refine ⟨_, mem_setStream_self hxl (by simp only [wDeliver]; exact hds.1.symm), ?_, ?_⟩
      · simp only [wDeliver]; rw [hds.1]; exact hid
      · simp only [wDeliver]; rw [hds.2.2.2.1]; exact hrw
    · refine ⟨x, ?_, hid, hm⟩
      split
      · rw [mem_delStream]; exact ⟨hxl, hxs⟩
      · exact mem_setStream_other hxl (by simp only [wDeliver]; rw [hds.1]; exact hxs)

theorem invReg_write {c : Conn α} (hw : Inv c) (h : InvReg c) (msg : Msg α) (ctx : Option Nat) (ctxNew : Bool) :
    InvReg (writeR c msg ctx ctxNew).1 := by
  unfold writeR
  split
  · exact h
  · split
    · rename_i hrt
      exact invReg_eraseResp_of hw h msg ctx (Or.inl hrt)
    · rename_i s hrt
      split
      · rename_i hd
        exact invReg_eraseResp_of hw h msg ctx (Or.inr hd)
      · rename_i hd
        exact invReg_writeTo hw h msg ctx ctxNew hrt (by simpa using hd)

/-! ### GET -/

theorem invReg_getGo {c : Conn α} (hw : Inv c) (h : InvReg c) (sid frm : Nat) (ver : Ver) (budget : Option Nat)
    (items : List (Item α)) : InvReg (getGo c sid frm ver budget items) := by
  obtain ⟨gs, _, _, grq, _, _, gd, _⟩ := getOpen_frame c sid frm budget
  obtain ⟨fs, _, _, frq, _, _, fd, _⟩ := replayLoop_frame (getOpen c sid frm budget) c.exs.length sid frm items
  have hfin : InvReg (finish (replayLoop (getOpen c sid frm budget) c.exs.length sid frm items).1 c.exs.length) :=
    invReg_frame (c' := finish (replayLoop (getOpen c sid frm budget) c.exs.length sid frm items).1 c.exs.length) h
      (Or.inl (by simp [finish, fd, gd])) (by simp [finish, frq, grq]) (by simp only [finish]; rw [fs, gs]; exact StrKeep.refl _)
      (by simp only [finish]; rw [fs, gs]; exact strKeepF_refl _)
  unfold getGo
  split
  · split
    · exact hfin
    · rename_i s hsf
      have hmem := (findStream_some hsf).1
      split
      · exact hfin
      · have hA : InvReg ({ (replayLoop (getOpen c sid frm budget) c.exs.length sid frm items).1 with
            streams := setStream { s with attached := some c.exs.length, opn := true, next := frm + items.length, v1125 := ver.ge1125 }
              (replayLoop (getOpen c sid frm budget) c.exs.length sid frm items).1.streams } : Conn α) :=
          invReg_frame h (Or.inl (by simp [fd, gd])) (by simp [frq, grq])
            (by simp only; rw [fs, gs]; exact strKeep_set (s := s) hmem rfl rfl rfl rfl rfl)
            (by simp only; rw [fs, gs]; exact strKeepF_set hw.nodup (s := s) hmem rfl rfl)
        unfold attach
        split
        · exact invReg_cut hA _
        · exact hA
  · exact hfin

theorem invReg_get {c : Conn α} (hw : Inv c) (h : InvReg c) (hdr : Hdr) (ver : Ver) (budget : Option Nat) :
    InvReg (get c hdr ver budget) := by
  have hst : ∀ code sid, InvReg (statusEx c code sid) := fun code sid =>
    invReg_frame (c' := statusEx c code sid) h (Or.inl rfl) rfl (StrKeep.refl _) (strKeepF_refl _)
  unfold get
  split
  · exact hst _ _
  · split
    · exact hst _ _
    · split
      · exact hst _ _
      · split
        · exact hst _ _
        · exact invReg_getGo hw h _ _ _ _ _

theorem invReg_step {c : Conn α} (hw : Inv c) (h : InvReg c) (l : Label α) : InvReg (step c l) := by
  unfold step stepR
  cases l with
  | post calls listen ver budget => exact invReg_post hw h _ _ _ _
  | write msg ctx ctxNew => exact invReg_write hw h _ _ _
  | cut ex => exact invReg_cut h _
  | wfail ex => exact invReg_frame (c' := wfail c ex) h (Or.inl rfl) rfl (StrKeep.refl _) (strKeepF_refl _)
  | get hdr ver budget => exact invReg_get hw h _ _ _
  | sclose req retry => exact invReg_sclose hw h _ _
  | «end» => exact invReg_frame (c' := { c with isDone := true }) h (Or.inr rfl) rfl (StrKeep.refl _) (strKeepF_refl _)
  | evict sid n => exact invReg_frame (c' := evict c sid n) h (Or.inl rfl) rfl (StrKeep.refl _) (strKeepF_refl _)

theorem invReg_run (cfg : Cfg) (ls : List (Label α)) : InvReg (run (init cfg) ls) := by
  suffices ∀ c : Conn α, Inv c → InvReg c → InvReg (run c ls) from this _ (inv_init cfg) (invReg_init cfg)
  induction ls with
  | nil => intro c _ h; exact h
  | cons l t ih => intro c hw h; exact ih (step c l) (inv_step hw l) (invReg_step hw h l)


/-! ### the response of every request ends up in its stream's log -/

/-- every request a stream was created for is still outstanding on the registered stream, or answered in its log -/
def Answered (c : Conn α) : Prop :=
  ∀ (sid : Nat) (calls : List Nat) (li : Bool), c.hist sid = some (calls, li) → ∀ r ∈ calls,
    (∃ s ∈ c.streams, s.id = sid ∧ r ∈ s.requests) ∨
    (∃ log p ctx, c.store sid = some log ∧ some (⟨.resp r p, ctx⟩ : Item α) ∈ log)

theorem answered_init (cfg : Cfg) : Answered (init cfg : Conn α) := by
  intro sid calls li hh r hr
  simp only [init] at hh
  split at hh
  · cases hh; cases hr
  · cases hh

theorem answered_frame {c c' : Conn α} (h : Answered c) (hh : c'.hist = c.hist) (hf : StrKeepF c.streams c'.streams)
    (hl : LogLE c.store c'.store) : Answered c' := by
  intro sid calls li hhist r hr
  rw [hh] at hhist
  rcases h sid calls li hhist r hr with ⟨s, hs, hid, hm⟩ | ⟨log, p, ctx, hlog, hmem⟩
  · obtain ⟨s', hs', h1, h4⟩ := hf s hs
    exact Or.inl ⟨s', hs', by rw [h1]; exact hid, by rw [h4]; exact hm⟩
  · obtain ⟨more, hm⟩ := hl sid log hlog
    exact Or.inr ⟨log ++ more, p, ctx, hm, List.mem_append_left _ hmem⟩

theorem answered_cut {c : Conn α} (h : Answered c) (ex : Nat) : Answered (cut c ex) :=
  answered_frame (c' := cut c ex) h rfl (strKeepF_release _ _) (LogLE.refl _)

theorem answered_sclose {c : Conn α} (hw : Inv c) (h : Answered c) (req : Nat) (retry : Bool) : Answered (sclose c req retry) := by
  unfold sclose
  split
  · exact h
  · split
    · exact h
    · rename_i s hs
      have hmem := (findStream_some hs).1
      split
      · split
        · exact answered_frame (c' := { (emit c _ .close).1 with streams := setStream { s with opn := false } (emit c _ .close).1.streams })
            h rfl (strKeepF_set hw.nodup (s := s) hmem rfl rfl) (LogLE.refl _)
        · exact answered_frame (c' := { c with streams := setStream { s with opn := false } c.streams })
            h rfl (strKeepF_set hw.nodup (s := s) hmem rfl rfl) (LogLE.refl _)
      · exact h

theorem logLE_postStore (c : Conn α) (listen : Bool) (ver : Ver) : LogLE c.store (postStore c listen ver) := by
  simp only [postStore]
  split
  · split
    · exact (logLE_openLog _ _).trans (logLE_appendLog _ _ _)
    · exact logLE_appendLog _ _ _
  · split
    · exact logLE_openLog _ _
    · exact LogLE.refl _

theorem answered_postPrimed {c : Conn α} (h10 : Inv10 c) (h : Answered c) (calls : List Nat) (listen : Bool) (ver : Ver)
    (budget : Option Nat) : Answered (postPrimed c calls listen ver budget) := by
  obtain ⟨fs, fst, _, _, _, _, fh⟩ := postPrimed_frame c calls listen ver budget
  intro sid cs li hhist r hr
  rw [fh] at hhist
  rw [fs, fst]
  by_cases hk : sid = c.nextSid
  · subst hk
    simp at hhist
    obtain ⟨rfl, rfl⟩ := hhist
    exact Or.inl ⟨newStream c calls listen ver, by simp, rfl, by simpa [newStream] using hr⟩
  · simp [hk] at hhist
    rcases h sid cs li hhist r hr with ⟨s, hs, hid, hm⟩ | ⟨log, p, ctx, hlog, hmem⟩
    · exact Or.inl ⟨s, by simp [hs], hid, hm⟩
    · obtain ⟨more, hm⟩ := logLE_postStore c listen ver sid log hlog
      exact Or.inr ⟨log ++ more, p, ctx, hm, List.mem_append_left _ hmem⟩

theorem answered_post {c : Conn α} (h10 : Inv10 c) (h : Answered c) (calls : List Nat) (listen : Bool) (ver : Ver)
    (budget : Option Nat) : Answered (post c calls listen ver budget) := by
  unfold post
  split
  · exact answered_frame (c' := statusEx c 202) h rfl (strKeepF_refl _) (LogLE.refl _)
  · split
    · refine answered_frame (c' := postDup c ver) h rfl (strKeepF_refl _) ?_
      simp only [postDup, statusEx]
      split
      · exact logLE_openLog _ _
      · exact LogLE.refl _
    · rw [postNew_eq]
      split
      · exact answered_cut (answered_postPrimed h10 h _ _ _ _) _
      · exact answered_postPrimed h10 h _ _ _ _

theorem answered_writeTo {c : Conn α} (hw : Inv c) (h : Answered c) (msg : Msg α) (ctx : Option Nat)
    {s : Stream α} (hmem : s ∈ c.streams) (hst : c.cfg.hasStore = true) :
    Answered (writeTo (eraseResp c msg) s msg ctx false).1 := by
  have huse : wUse (eraseResp c msg) false = true := by simp [wUse, hst]
  have hds := deliver_stream (eraseResp c msg).exs s ⟨msg, ctx⟩ (if wUse (eraseResp c msg) false then some (s.id, s.next) else none)
    (wReqs s msg) (wDone s msg)
  intro sid calls li hhist r hr
  simp only [writeTo, eraseResp_hist] at hhist
  simp only [writeTo, huse, if_true, eraseResp_streams, eraseResp_store]
  rcases h sid calls li hhist r hr with ⟨x, hxl, hid, hm⟩ | ⟨log, p, cx, hlog, hmem'⟩
  · by_cases hxs : x.id = s.id
    · have hxeq : x = s := by
        have e1 := findStream_of_mem hw.nodup hxl
        have e2 := findStream_of_mem hw.nodup hmem
        rw [hxs] at e1; rw [e1] at e2; cases e2; rfl
      subst hxeq
      -- is this write the response to `r`?
      by_cases hresp : ∃ p, msg = .resp r p
      · obtain ⟨p, rfl⟩ := hresp
        refine Or.inr ⟨(c.store x.id).getD [] ++ [some ⟨.resp r p, ctx⟩], p, ctx, ?_, by simp⟩
        rw [← hid]; simp
      · have hrw : r ∈ wReqs x msg := by
          cases msg with
          | resp id p =>
            simp only [wReqs]
            exact mem_eraseAll_of hm (fun he => hresp ⟨p, by rw [he]⟩)
          | notif p => exact hm
          | call p => exact hm
        have hnd : wDone x msg = false := by
          simp only [wDone]
          cases hw' : wReqs x msg with
          | nil => rw [hw'] at hrw; cases hrw
          | cons a t => simp
        simp only [hnd]
        refine Or.inl ⟨_, mem_setStream_self hxl (by simp only [wDeliver]; exact hds.1.symm), ?_, ?_⟩
        · simp only [wDeliver]; rw [hds.1]; exact hid
        · simp only [wDeliver]; rw [hds.2.2.2.1]; exact hrw
    · refine Or.inl ⟨x, ?_, hid, hm⟩
      split
      · rw [mem_delStream]; exact ⟨hxl, hxs⟩
      · exact mem_setStream_other hxl (by simp only [wDeliver]; rw [hds.1]; exact hxs)
  · obtain ⟨more, hm⟩ := logLE_appendLog s.id (some ⟨msg, ctx⟩) c.store sid log hlog
    exact Or.inr ⟨log ++ more, p, cx, hm, List.mem_append_left _ hmem'⟩

theorem answered_write {c : Conn α} (hw : Inv c) (h : Answered c) (msg : Msg α) (ctx : Option Nat)
    (hst : c.cfg.hasStore = true) : Answered (writeR c msg ctx false).1 := by
  have herase : Answered (eraseResp c msg) :=
    answered_frame (c' := eraseResp c msg) h (by simp) (by simp; exact strKeepF_refl _) (by simp; exact LogLE.refl _)
  unfold writeR
  split
  · exact h
  · split
    · exact herase
    · rename_i s hrt
      split
      · exact herase
      · exact answered_writeTo hw h msg ctx (route_mem hrt) hst

theorem answered_getGo {c : Conn α} (hw : Inv c) (h : Answered c) (sid frm : Nat) (ver : Ver) (budget : Option Nat)
    (items : List (Item α)) : Answered (getGo c sid frm ver budget items) := by
  obtain ⟨gs, gst, _, _, gh, _⟩ := getOpen_frame c sid frm budget
  obtain ⟨fs, fst, _, _, fh, _⟩ := replayLoop_frame (getOpen c sid frm budget) c.exs.length sid frm items
  have hfin : Answered (finish (replayLoop (getOpen c sid frm budget) c.exs.length sid frm items).1 c.exs.length) :=
    answered_frame (c' := finish (replayLoop (getOpen c sid frm budget) c.exs.length sid frm items).1 c.exs.length) h
      (by simp [finish, fh, gh]) (by simp only [finish]; rw [fs, gs]; exact strKeepF_refl _)
      (by simp only [finish]; rw [fst, gst]; exact LogLE.refl _)
  unfold getGo
  split
  · split
    · exact hfin
    · rename_i s hsf
      have hmem := (findStream_some hsf).1
      split
      · exact hfin
      · have hA : Answered ({ (replayLoop (getOpen c sid frm budget) c.exs.length sid frm items).1 with
            streams := setStream { s with attached := some c.exs.length, opn := true, next := frm + items.length, v1125 := ver.ge1125 }
              (replayLoop (getOpen c sid frm budget) c.exs.length sid frm items).1.streams } : Conn α) :=
          answered_frame h (by simp [fh, gh])
            (by simp only; rw [fs, gs]; exact strKeepF_set hw.nodup (s := s) hmem rfl rfl)
            (by simp only; rw [fst, gst]; exact LogLE.refl _)
        unfold attach
        split
        · exact answered_cut hA _
        · exact hA
  · exact hfin

theorem answered_get {c : Conn α} (hw : Inv c) (h : Answered c) (hdr : Hdr) (ver : Ver) (budget : Option Nat) :
    Answered (get c hdr ver budget) := by
  have hst : ∀ code sid, Answered (statusEx c code sid) := fun code sid =>
    answered_frame (c' := statusEx c code sid) h rfl (strKeepF_refl _) (LogLE.refl _)
  unfold get
  split
  · exact hst _ _
  · split
    · exact hst _ _
    · split
      · exact hst _ _
      · split
        · exact hst _ _
        · exact answered_getGo hw h _ _ _ _ _

theorem answered_step {c : Conn α} (hw : Inv c) (h10 : Inv10 c) (h : Answered c) (hst : c.cfg.hasStore = true) (l : Label α)
    (hsc : InScope c l) : Answered (step c l) := by
  unfold step stepR
  cases l with
  | post calls listen ver budget => exact answered_post h10 h _ _ _ _
  | write msg ctx ctxNew =>
    simp only [InScope] at hsc; subst hsc
    exact answered_write hw h _ _ hst
  | cut ex => exact answered_cut h _
  | wfail ex => exact answered_frame (c' := wfail c ex) h rfl (strKeepF_refl _) (LogLE.refl _)
  | get hdr ver budget => exact answered_get hw h _ _ _
  | sclose req retry => exact answered_sclose hw h _ _
  | «end» => exact answered_frame (c' := { c with isDone := true }) h rfl (strKeepF_refl _) (LogLE.refl _)
  | evict sid n => exact answered_frame (c' := evict c sid n) h rfl (strKeepF_refl _) (LogLE.refl _)

theorem answered_run (cfg : Cfg) (hst : cfg.hasStore = true) (ls : List (Label α)) (hsc : InScopeRun (init cfg) ls) :
    Answered (run (init cfg) ls) := by
  suffices ∀ c : Conn α, Inv c → Inv10 c → Answered c → c.cfg.hasStore = true → InScopeRun c ls → Answered (run c ls) from
    this _ (inv_init cfg) (inv10_init cfg) (answered_init cfg) hst hsc
  clear hsc
  induction ls with
  | nil => intro c _ _ h _ _; exact h
  | cons l t ih =>
    intro c hw h10 h hs hsc
    exact ih (step c l) (inv_step hw l) (inv10_step hw h10 l) (answered_step hw h10 h hs l hsc.1)
      (by rw [step_cfg]; exact hs) hsc.2

end Resume
