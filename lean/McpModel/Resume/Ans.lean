import McpModel.Resume.C10
/-!
E5 — request bookkeeping invariants:
* `InvReg` (all label lists): while the session is open, a request is outstanding on a registered stream
  exactly when `requestStreams` maps it to that stream (so "duplicate in-flight id" is what POST refuses);
* `InvAns` (store configured, contexts before 2026-07-28): every request a stream was created for is either
  still outstanding on the registered stream or its response is in that stream's log — which is what
  keeps the final response obtainable after the stream is deleted.
-/
namespace Resume
variable {α : Type}

/-- a response to `r` for stream `sid` is between its routing and its delivery section -/
def RespPending (c : Conn α) (r sid : Nat) : Prop := ∃ pw ∈ c.pendW, pw.sid = sid ∧ ∃ p, pw.msg = .resp r p

structure InvReg (c : Conn α) : Prop where
  live : c.isDone = false → ∀ s ∈ c.streams, ∀ r ∈ s.requests, c.reqStreams r = some s.id ∨ RespPending c r s.id
  reg : ∀ (r sid : Nat), c.reqStreams r = some sid → ∃ s ∈ c.streams, s.id = sid ∧ r ∈ s.requests
  pend : ∀ pw ∈ c.pendW, ∀ r p, pw.msg = .resp r p → c.reqStreams r ≠ some pw.sid

theorem invReg_init (cfg : Cfg) : InvReg (init cfg : Conn α) := by
  refine ⟨?_, ?_, ?_⟩
  · intro _ s hs r hr; simp [init] at hs; subst hs; cases hr
  · intro r sid h; simp [init] at h
  · intro pw h; simp [init] at h

/-- every old stream is still there with the same outstanding requests -/
def StrKeepF (l l' : List (Stream α)) : Prop := ∀ s ∈ l, ∃ s' ∈ l', s'.id = s.id ∧ s'.requests = s.requests

theorem strKeepF_release (l : List (Stream α)) (ex : Nat) : StrKeepF l (release ex l) := by
  intro s hs
  unfold release
  by_cases hat : s.attached = some ex
  · exact ⟨{ s with attached := none, opn := false }, List.mem_map.mpr ⟨s, hs, by simp [hat]⟩, rfl, rfl⟩
  · exact ⟨s, List.mem_map.mpr ⟨s, hs, by simp [hat]⟩, rfl, rfl⟩

theorem strKeepF_set {l : List (Stream α)} (hn : (l.map (·.id)).Nodup) {s s' : Stream α} (hs : s ∈ l) (h1 : s'.id = s.id)
    (h4 : s'.requests = s.requests) : StrKeepF l (setStream s' l) := by
  intro x hx
  by_cases hid : x.id = s'.id
  · have hxs : x = s := by
      have e1 := findStream_of_mem hn hx
      have e2 := findStream_of_mem hn hs
      rw [hid, h1] at e1
      rw [e1] at e2; cases e2; rfl
    subst hxs
    exact ⟨s', mem_setStream_self hx hid, h1, h4⟩
  · exact ⟨x, mem_setStream_other hx hid, rfl, rfl⟩

/-- frame lemma: `requestStreams`, `isDone`, pending writes untouched, streams kept in both directions -/
theorem invReg_frame {c c' : Conn α} (h : InvReg c) (hd : c'.isDone = c.isDone ∨ c'.isDone = true)
    (hreq : c'.reqStreams = c.reqStreams) (hs : StrKeep c.streams c'.streams) (hf : StrKeepF c.streams c'.streams)
    (hpw : c'.pendW = c.pendW := by rfl) : InvReg c' := by
  refine ⟨?_, ?_, ?_⟩
  · intro hnd s' hs' r hr
    obtain ⟨s, hsl, h1, _, _, h4, _⟩ := hs s' hs'
    have : c.isDone = false := by
      rcases hd with hd | hd
      · rw [← hd]; exact hnd
      · rw [hd] at hnd; cases hnd
    rw [hreq, h1]
    rcases h.live this s hsl r (by rw [← h4]; exact hr) with hl | ⟨pw, hp, hps⟩
    · exact Or.inl hl
    · exact Or.inr ⟨pw, by rw [hpw]; exact hp, hps⟩
  · intro r sid hr
    rw [hreq] at hr
    obtain ⟨s, hsl, hid, hmem⟩ := h.reg r sid hr
    obtain ⟨s', hs', h1, h4⟩ := hf s hsl
    exact ⟨s', hs', by rw [h1]; exact hid, by rw [h4]; exact hmem⟩
  · intro pw hp r p hm
    rw [hreq]; exact h.pend pw (by rw [← hpw]; exact hp) r p hm

theorem invReg_cut {c : Conn α} (h : InvReg c) (ex : Nat) : InvReg (cut c ex) :=
  invReg_frame (c' := cut c ex) h (Or.inl rfl) rfl (strKeep_release _ _) (strKeepF_release _ _)

theorem strKeepF_refl (l : List (Stream α)) : StrKeepF l l := fun s hs => ⟨s, hs, rfl, rfl⟩

theorem invReg_sclose {c : Conn α} (hw : Inv c) (h : InvReg c) (req : Nat) (retry : Bool) : InvReg (sclose c req retry) := by
  unfold sclose
  split
  · exact h
  · split
    · exact h
    · rename_i s hs
      have hmem := (findStream_some hs).1
      split
      · split
        · exact invReg_frame (c' := { (emit c _ .close).1 with streams := setStream { s with opn := false } (emit c _ .close).1.streams })
            h (Or.inl rfl) rfl (strKeep_set (s := s) hmem rfl rfl rfl rfl rfl) (strKeepF_set hw.nodup (s := s) hmem rfl rfl)
        · exact invReg_frame (c' := { c with streams := setStream { s with opn := false } c.streams })
            h (Or.inl rfl) rfl (strKeep_set (s := s) hmem rfl rfl rfl rfl rfl) (strKeepF_set hw.nodup (s := s) hmem rfl rfl)
      · exact h

/-! ### POST -/

theorem postPrimed_pendW (c : Conn α) (calls : List Nat) (listen : Bool) (ver : Ver) (budget : Option Nat) :
    (postPrimed c calls listen ver budget).pendW = c.pendW := by
  unfold postPrimed; split <;> rfl

theorem invReg_postPrimed {c : Conn α} (hw : Inv c) (h : InvReg c) (calls : List Nat) (listen : Bool) (ver : Ver)
    (budget : Option Nat) (hnd : ∀ r ∈ calls, c.reqStreams r = none) : InvReg (postPrimed c calls listen ver budget) := by
  obtain ⟨fs, _, _, _, fd, frq, _⟩ := postPrimed_frame c calls listen ver budget
  have fp := postPrimed_pendW c calls listen ver budget
  refine ⟨?_, ?_, ?_⟩
  · intro hdn s' hs' r hr
    rw [fd] at hdn
    rw [fs] at hs'
    rw [frq]
    simp only [List.mem_append, List.mem_singleton] at hs'
    rcases hs' with hold | rfl
    · rcases h.live hdn s' hold r hr with hl | ⟨pw, hp, hps⟩
      · have hnc : r ∉ calls := fun hc => by rw [hnd r hc] at hl; cases hl
        exact Or.inl (by simp [hnc, hl])
      · exact Or.inr ⟨pw, by rw [fp]; exact hp, hps⟩
    · simp only [newStream] at hr ⊢
      exact Or.inl (by simp [hr])
  · intro r sid hr
    rw [frq] at hr
    rw [fs]
    simp only at hr
    split at hr
    · rename_i hc
      cases hr
      exact ⟨newStream c calls listen ver, by simp, rfl, by simpa [newStream] using hc⟩
    · obtain ⟨s, hsl, hid, hm⟩ := h.reg r sid hr
      exact ⟨s, by simp [hsl], hid, hm⟩
  · intro pw hp r p hm
    rw [fp] at hp
    rw [frq]
    simp only
    split
    · intro he
      have := hw.pend_lt pw hp
      have he' : c.nextSid = pw.sid := Option.some.inj he
      omega
    · exact h.pend pw hp r p hm

theorem invReg_post {c : Conn α} (hw : Inv c) (h : InvReg c) (calls : List Nat) (listen : Bool) (ver : Ver)
    (budget : Option Nat) : InvReg (post c calls listen ver budget) := by
  unfold post
  split
  · exact invReg_frame (c' := statusEx c 202) h (Or.inl rfl) rfl (StrKeep.refl _) (strKeepF_refl _)
  · split
    · exact invReg_frame (c' := postDup c ver) h (Or.inl rfl) rfl (StrKeep.refl _) (strKeepF_refl _)
    · rename_i hany
      have hnd : ∀ r ∈ dedup calls, c.reqStreams r = none := by
        intro r hr
        cases hc : c.reqStreams r with
        | none => rfl
        | some v =>
          exfalso; apply hany
          rw [List.any_eq_true]
          exact ⟨r, hr, by rw [hc]; rfl⟩
      rw [postNew_eq]
      split
      · exact invReg_cut (invReg_postPrimed hw h _ _ _ _ hnd) _
      · exact invReg_postPrimed hw h _ _ _ _ hnd

/-! ### WRITE -/

/-- a response is routed to the stream registered for its id -/
theorem route_resp {c : Conn α} {id : Nat} {p : α} {ctx : Option Nat} :
    route c (.resp id p) ctx = match c.reqStreams id with
      | some sid => findStream sid c.streams
      | none => none := by
  simp only [route, related]
  rfl

theorem eraseResp_req_resp (c : Conn α) (id : Nat) (p : α) (r : Nat) :
    (eraseResp c (.resp id p)).reqStreams r = if r = id then none else c.reqStreams r := rfl

theorem eraseResp_req_le (c : Conn α) (msg : Msg α) (r sid : Nat) (h : (eraseResp c msg).reqStreams r = some sid) :
    c.reqStreams r = some sid := by
  cases msg with
  | resp id p =>
    rw [eraseResp_req_resp] at h
    split at h
    · cases h
    · exact h
  | notif p => exact h
  | call p => exact h

/-- routing section: the entry of the answered request goes; if the write is kept pending it takes its place -/
theorem invReg_eraseResp_gen {c : Conn α} (hw : Inv c) (h : InvReg c) (msg : Msg α) (ctx : Option Nat) (l : List (PendW α))
    (hsub : ∀ pw ∈ c.pendW, pw ∈ l)
    (hnew : ∀ pw ∈ l, pw ∈ c.pendW ∨ ∃ s ctxNew, route c msg ctx = some s ∧ pw = ⟨msg, ctx, ctxNew, s.id⟩)
    (hcase : route c msg ctx = none ∨ c.isDone = true ∨ ∃ s ctxNew, route c msg ctx = some s ∧ (⟨msg, ctx, ctxNew, s.id⟩ : PendW α) ∈ l) :
    InvReg ({ eraseResp c msg with pendW := l } : Conn α) := by
  refine ⟨?_, ?_, ?_⟩
  · intro hdn s hs r hr
    simp only [eraseResp_isDone] at hdn
    simp only [eraseResp_streams] at hs
    rcases h.live hdn s hs r hr with hl | ⟨pw, hp, hps⟩
    · cases msg with
      | resp id p =>
        simp only [eraseResp_req_resp]
        by_cases hri : r = id
        · subst hri
          have hrt : route c (.resp r p) ctx = some s := by
            rw [route_resp, hl]; exact findStream_of_mem hw.nodup hs
          rcases hcase with hn | hd | ⟨s', ctxNew, hs', hm⟩
          · rw [hrt] at hn; cases hn
          · rw [hd] at hdn; cases hdn
          · rw [hrt] at hs'; cases hs'
            exact Or.inr ⟨_, hm, rfl, p, rfl⟩
        · exact Or.inl (by simp [hri, hl])
      | notif p => exact Or.inl hl
      | call p => exact Or.inl hl
    · exact Or.inr ⟨pw, hsub pw hp, hps⟩
  · intro r sid hr
    simpa using h.reg r sid (eraseResp_req_le c msg r sid hr)
  · intro pw hp r p hm he
    have he' : (eraseResp c msg).reqStreams r = some pw.sid := he
    rcases hnew pw hp with hold | ⟨s, ctxNew, hs, rfl⟩
    · exact h.pend pw hold r p hm (eraseResp_req_le c msg r _ he')
    · simp only at hm he'
      subst hm
      rw [eraseResp_req_resp] at he'
      simp at he'

theorem invReg_wroute {c : Conn α} (hw : Inv c) (h : InvReg c) (msg : Msg α) (ctx : Option Nat) (ctxNew : Bool) :
    InvReg (wrouteR c msg ctx ctxNew).1 := by
  have keep : ∀ (hc : route c msg ctx = none ∨ c.isDone = true), InvReg (eraseResp c msg) := by
    intro hc
    have := invReg_eraseResp_gen hw h msg ctx c.pendW (fun _ hp => hp) (fun _ hp => Or.inl hp)
      (by rcases hc with h1 | h1; exact Or.inl h1; exact Or.inr (Or.inl h1))
    have he : ({ eraseResp c msg with pendW := c.pendW } : Conn α) = eraseResp c msg := by
      unfold eraseResp; split <;> rfl
    rw [he] at this; exact this
  unfold wrouteR
  split
  · exact h
  · split
    · rename_i hrt; exact keep (Or.inl hrt)
    · rename_i s hrt
      split
      · rename_i hd; exact keep (Or.inr hd)
      · exact invReg_eraseResp_gen hw h msg ctx _ (fun pw hp => List.mem_append_left _ hp)
          (fun pw hp => by
            rcases List.mem_append.mp hp with h1 | h1
            · exact Or.inl h1
            · simp at h1; exact Or.inr ⟨s, ctxNew, hrt, h1⟩)
          (Or.inr (Or.inr ⟨s, ctxNew, hrt, by simp⟩))

theorem wReqs_ne {s : Stream α} {id : Nat} {p : α} {r : Nat} (h : r ∈ wReqs s (.resp id p)) : r ≠ id := by
  simp only [wReqs] at h; exact (mem_eraseAll h).2

theorem mem_eraseIdx_of_ne {β : Type} {l : List β} {i : Nat} {x y : β} (hx : x ∈ l) (hy : l[i]? = some y) (hne : x ≠ y) :
    x ∈ l.eraseIdx i := by
  rw [List.mem_eraseIdx_iff_getElem?]
  obtain ⟨j, hj⟩ := List.getElem?_of_mem hx
  refine ⟨j, ?_, hj⟩
  intro hji; subst hji; rw [hj] at hy; cases hy; exact hne rfl

/-- delivery section of a pending write whose stream object is still registered -/
theorem invReg_deliver {c : Conn α} (hw : Inv c) (h : InvReg c) (i : Nat) (pw : PendW α) (hpw : c.pendW[i]? = some pw)
    (s : Stream α) (hs : findStream pw.sid c.streams = some s) :
    InvReg (writeTo ({ c with pendW := c.pendW.eraseIdx i } : Conn α) s pw.msg pw.ctx pw.ctxNew).1 := by
  obtain ⟨hmem, hsid⟩ := findStream_some hs
  have hds := deliver_stream c.exs s ⟨pw.msg, pw.ctx⟩
    (if wUse ({ c with pendW := c.pendW.eraseIdx i } : Conn α) pw.ctxNew then some (s.id, s.next) else none) (wReqs s pw.msg) (wDone s pw.msg)
  -- pending responses for other (stream, request) pairs survive
  have hsurv : ∀ r sid, RespPending c r sid → (sid ≠ s.id ∨ ∀ p, pw.msg ≠ .resp r p) →
      RespPending ({ c with pendW := c.pendW.eraseIdx i } : Conn α) r sid := by
    rintro r sid ⟨pw', hp', hs', p', hm'⟩ hdiff
    refine ⟨pw', mem_eraseIdx_of_ne hp' hpw ?_, hs', p', hm'⟩
    intro he; subst he
    rcases hdiff with hd | hd
    · exact hd (hs'.symm.trans hsid.symm)
    · exact hd p' hm'
  refine ⟨?_, ?_, ?_⟩
  · intro hdn x hx r hr
    simp only [writeTo] at hx hdn ⊢
    have hother : ∀ y ∈ c.streams, y.id ≠ s.id → ∀ r ∈ y.requests,
        c.reqStreams r = some y.id ∨ RespPending ({ c with pendW := c.pendW.eraseIdx i } : Conn α) r y.id := by
      intro y hy hne r hr
      rcases h.live hdn y hy r hr with hl | hp
      · exact Or.inl hl
      · exact Or.inr (hsurv r y.id hp (Or.inl hne))
    split at hx
    · rw [mem_delStream] at hx
      exact hother x hx.1 hx.2 r hr
    · rcases mem_setStream hx with rfl | ⟨hxl, hne⟩
      · simp only [wDeliver] at hr ⊢
        rw [hds.2.2.2.1] at hr
        rw [hds.1]
        rcases h.live hdn s hmem r (mem_wReqs hr) with hl | hp
        · exact Or.inl hl
        · refine Or.inr (hsurv r s.id hp (Or.inr ?_))
          intro p hm
          rw [hm] at hr
          exact wReqs_ne hr rfl
      · simp only [wDeliver] at hne
        rw [hds.1] at hne
        exact hother x hxl hne r hr
  · intro r sid hr
    simp only [writeTo] at hr ⊢
    obtain ⟨x, hxl, hid, hm⟩ := h.reg r sid hr
    by_cases hxs : x.id = s.id
    · have hxeq : x = s := by
        have e1 := findStream_of_mem hw.nodup hxl
        have e2 := findStream_of_mem hw.nodup hmem
        rw [hxs] at e1; rw [e1] at e2; cases e2; rfl
      subst hxeq
      have hrw : r ∈ wReqs x pw.msg := by
        cases hmsg : pw.msg with
        | resp id p =>
          simp only [wReqs]
          refine mem_eraseAll_of hm ?_
          intro he; subst he
          exact h.pend pw (List.mem_of_getElem? hpw) r p hmsg (by rw [hr, ← hid, hsid])
        | notif p => exact hm
        | call p => exact hm
      have hnd : wDone x pw.msg = false := by
        simp only [wDone]
        cases hw' : wReqs x pw.msg with
        | nil => rw [hw'] at hrw; cases hrw
        | cons a t => simp
      simp only [hnd]
      refine ⟨_, mem_setStream_self hxl (by simp only [wDeliver]; exact hds.1.symm), ?_, ?_⟩
      · simp only [wDeliver]; rw [hds.1]; exact hid
      · simp only [wDeliver]; rw [hds.2.2.2.1]; exact hrw
    · refine ⟨x, ?_, hid, hm⟩
      split
      · rw [mem_delStream]; exact ⟨hxl, hxs⟩
      · exact mem_setStream_other hxl (by simp only [wDeliver]; rw [hds.1]; exact hxs)
  · intro pw' hp' r p hm
    simp only [writeTo] at hp' ⊢
    exact h.pend pw' (List.mem_of_mem_eraseIdx hp') r p hm

theorem invReg_orphan {c : Conn α} (hw : Inv c) (h : InvReg c) (i : Nat) (pw : PendW α) (hpw : c.pendW[i]? = some pw)
    (hs : findStream pw.sid c.streams = none) :
    InvReg (orphanWrite ({ c with pendW := c.pendW.eraseIdx i } : Conn α) pw).1 := by
  refine ⟨?_, h.reg, ?_⟩
  · intro hdn x hx r hr
    rcases h.live hdn x hx r hr with hl | ⟨pw', hp', hs', hm'⟩
    · exact Or.inl hl
    · refine Or.inr ⟨pw', mem_eraseIdx_of_ne hp' hpw ?_, hs', hm'⟩
      intro he; subst he
      have := findStream_of_mem hw.nodup hx
      rw [← hs', hs] at this; cases this
  · intro pw' hp' r p hm
    exact h.pend pw' (List.mem_of_mem_eraseIdx hp') r p hm

theorem invReg_wdeliver {c : Conn α} (hw : Inv c) (h : InvReg c) (i : Nat) : InvReg (wdeliverR c i).1 := by
  unfold wdeliverR
  split
  · exact h
  · rename_i pw hpw
    split
    · rename_i s hs; exact invReg_deliver hw h i pw hpw s hs
    · rename_i hs; exact invReg_orphan hw h i pw hpw hs

/-- the atomic WRITE is WROUTE followed at once by the WDELIVER of the write it left pending -/
theorem write_is_route_then_deliver {c : Conn α} (hw : Inv c) (msg : Msg α) (ctx : Option Nat) (ctxNew : Bool) :
    writeR c msg ctx ctxNew =
      if (wrouteR c msg ctx ctxNew).2 = .na then wdeliverR (wrouteR c msg ctx ctxNew).1 c.pendW.length
      else wrouteR c msg ctx ctxNew := by
  unfold writeR wrouteR
  split
  · simp
  · split
    · simp
    · rename_i s hrt
      split
      · simp
      · simp only [if_true]
        have hmem := route_mem hrt
        have hget : (c.pendW ++ [(⟨msg, ctx, ctxNew, s.id⟩ : PendW α)])[c.pendW.length]? = some ⟨msg, ctx, ctxNew, s.id⟩ := by simp
        have hfs : findStream s.id (eraseResp c msg).streams = some s := by simp; exact findStream_of_mem hw.nodup hmem
        have her : (c.pendW ++ [(⟨msg, ctx, ctxNew, s.id⟩ : PendW α)]).eraseIdx c.pendW.length = c.pendW := by
          rw [List.eraseIdx_append_of_length_le (Nat.le_refl _)]; simp
        simp only [wdeliverR, hget, hfs, her]
        have he : ({ eraseResp c msg with pendW := c.pendW } : Conn α) = eraseResp c msg := by
          unfold eraseResp; split <;> rfl
        simp only [eraseResp_pendW, he]

theorem invReg_write {c : Conn α} (hw : Inv c) (h : InvReg c) (msg : Msg α) (ctx : Option Nat) (ctxNew : Bool) :
    InvReg (writeR c msg ctx ctxNew).1 := by
  rw [write_is_route_then_deliver hw]
  split
  · exact invReg_wdeliver (inv_wroute hw _ _ _) (invReg_wroute hw h _ _ _) _
  · exact invReg_wroute hw h _ _ _

/-! ### GET -/

theorem invReg_getGo {c : Conn α} (hw : Inv c) (h : InvReg c) (sid frm : Nat) (ver : Ver) (budget : Option Nat)
    (items : List (Item α)) : InvReg (getGo c sid frm ver budget items) := by
  obtain ⟨gs, _, _, grq, _, _, gd, _⟩ := getOpen_frame c sid frm budget
  obtain ⟨fs, _, _, frq, _, _, fd, _⟩ := replayLoop_frame (getOpen c sid frm budget) c.exs.length sid frm items
  have gp : (getOpen c sid frm budget).pendW = c.pendW := by unfold getOpen; split <;> rfl
  have fp := replayLoop_pendW (getOpen c sid frm budget) c.exs.length sid frm items
  have hfin : InvReg (finish (replayLoop (getOpen c sid frm budget) c.exs.length sid frm items).1 c.exs.length) :=
    invReg_frame (c' := finish (replayLoop (getOpen c sid frm budget) c.exs.length sid frm items).1 c.exs.length) h
      (Or.inl (by simp [finish, fd, gd])) (by simp [finish, frq, grq]) (by simp only [finish]; rw [fs, gs]; exact StrKeep.refl _)
      (by simp only [finish]; rw [fs, gs]; exact strKeepF_refl _) (by simp [finish, fp, gp])
  unfold getGo
  split
  · split
    · exact hfin
    · rename_i s hsf
      have hmem := (findStream_some hsf).1
      split
      · exact hfin
      · have hA : InvReg ({ (replayLoop (getOpen c sid frm budget) c.exs.length sid frm items).1 with
            streams := setStream { s with attached := some c.exs.length, opn := true, next := frm + items.length, v1125 := ver.ge1125 }
              (replayLoop (getOpen c sid frm budget) c.exs.length sid frm items).1.streams } : Conn α) :=
          invReg_frame h (Or.inl (by simp [fd, gd])) (by simp [frq, grq])
            (by simp only; rw [fs, gs]; exact strKeep_set (s := s) hmem rfl rfl rfl rfl rfl)
            (by simp only; rw [fs, gs]; exact strKeepF_set hw.nodup (s := s) hmem rfl rfl) (by simp [fp, gp])
        unfold attach
        split
        · exact invReg_cut hA _
        · exact hA
  · exact hfin

theorem invReg_get {c : Conn α} (hw : Inv c) (h : InvReg c) (hdr : Hdr) (ver : Ver) (budget : Option Nat) :
    InvReg (get c hdr ver budget) := by
  have hst : ∀ code sid, InvReg (statusEx c code sid) := fun code sid =>
    invReg_frame (c' := statusEx c code sid) h (Or.inl rfl) rfl (StrKeep.refl _) (strKeepF_refl _)
  unfold get
  split
  · exact hst _ _
  · split
    · exact hst _ _
    · split
      · exact hst _ _
      · split
        · exact hst _ _
        · exact invReg_getGo hw h _ _ _ _ _

theorem invReg_step {c : Conn α} (hw : Inv c) (h : InvReg c) (l : Label α) : InvReg (step c l) := by
  unfold step stepR
  cases l with
  | post calls listen ver budget => exact invReg_post hw h _ _ _ _
  | write msg ctx ctxNew => exact invReg_write hw h _ _ _
  | cut ex => exact invReg_cut h _
  | wfail ex => exact invReg_frame (c' := wfail c ex) h (Or.inl rfl) rfl (StrKeep.refl _) (strKeepF_refl _)
  | get hdr ver budget => exact invReg_get hw h _ _ _
  | sclose req retry => exact invReg_sclose hw h _ _
  | «end» => exact invReg_frame (c' := { c with isDone := true }) h (Or.inr rfl) rfl (StrKeep.refl _) (strKeepF_refl _)
  | evict sid n => exact invReg_frame (c' := evict c sid n) h (Or.inl rfl) rfl (StrKeep.refl _) (strKeepF_refl _)
  | wroute msg ctx ctxNew => exact invReg_wroute hw h _ _ _
  | wdeliver i => exact invReg_wdeliver hw h i

theorem invReg_run (cfg : Cfg) (ls : List (Label α)) : InvReg (run (init cfg) ls) := by
  suffices ∀ c : Conn α, Inv c → InvReg c → InvReg (run c ls) from this _ (inv_init cfg) (invReg_init cfg)
  induction ls with
  | nil => intro c _ h; exact h
  | cons l t ih => intro c hw h; exact ih (step c l) (inv_step hw l) (invReg_step hw h l)


/-! ### the response of every request ends up in its stream's log -/

/-- every request a stream was created for is still outstanding on the registered stream, or answered in its log -/
def Answered (c : Conn α) : Prop :=
  ∀ (sid : Nat) (calls : List Nat) (li : Bool), c.hist sid = some (calls, li) → ∀ r ∈ calls,
    (∃ s ∈ c.streams, s.id = sid ∧ r ∈ s.requests) ∨
    (∃ log p ctx, c.store sid = some log ∧ some (⟨.resp r p, ctx⟩ : Item α) ∈ log)

theorem answered_init (cfg : Cfg) : Answered (init cfg : Conn α) := by
  intro sid calls li hh r hr
  simp only [init] at hh
  split at hh
  · cases hh; cases hr
  · cases hh

theorem answered_frame {c c' : Conn α} (h : Answered c) (hh : c'.hist = c.hist) (hf : StrKeepF c.streams c'.streams)
    (hl : LogLE c.store c'.store) : Answered c' := by
  intro sid calls li hhist r hr
  rw [hh] at hhist
  rcases h sid calls li hhist r hr with ⟨s, hs, hid, hm⟩ | ⟨log, p, ctx, hlog, hmem⟩
  · obtain ⟨s', hs', h1, h4⟩ := hf s hs
    exact Or.inl ⟨s', hs', by rw [h1]; exact hid, by rw [h4]; exact hm⟩
  · obtain ⟨more, hm⟩ := hl sid log hlog
    exact Or.inr ⟨log ++ more, p, ctx, hm, List.mem_append_left _ hmem⟩

theorem answered_cut {c : Conn α} (h : Answered c) (ex : Nat) : Answered (cut c ex) :=
  answered_frame (c' := cut c ex) h rfl (strKeepF_release _ _) (LogLE.refl _)

theorem answered_sclose {c : Conn α} (hw : Inv c) (h : Answered c) (req : Nat) (retry : Bool) : Answered (sclose c req retry) := by
  unfold sclose
  split
  · exact h
  · split
    · exact h
    · rename_i s hs
      have hmem := (findStream_some hs).1
      split
      · split
        · exact answered_frame (c' := { (emit c _ .close).1 with streams := setStream { s with opn := false } (emit c _ .close).1.streams })
            h rfl (strKeepF_set hw.nodup (s := s) hmem rfl rfl) (LogLE.refl _)
        · exact answered_frame (c' := { c with streams := setStream { s with opn := false } c.streams })
            h rfl (strKeepF_set hw.nodup (s := s) hmem rfl rfl) (LogLE.refl _)
      · exact h

theorem logLE_postStore (c : Conn α) (listen : Bool) (ver : Ver) : LogLE c.store (postStore c listen ver) := by
  simp only [postStore]
  split
  · split
    · exact (logLE_openLog _ _).trans (logLE_appendLog _ _ _)
    · exact logLE_appendLog _ _ _
  · split
    · exact logLE_openLog _ _
    · exact LogLE.refl _

theorem answered_postPrimed {c : Conn α} (h10 : Inv10 c) (h : Answered c) (calls : List Nat) (listen : Bool) (ver : Ver)
    (budget : Option Nat) : Answered (postPrimed c calls listen ver budget) := by
  obtain ⟨fs, fst, _, _, _, _, fh⟩ := postPrimed_frame c calls listen ver budget
  intro sid cs li hhist r hr
  rw [fh] at hhist
  rw [fs, fst]
  by_cases hk : sid = c.nextSid
  · subst hk
    simp at hhist
    obtain ⟨rfl, rfl⟩ := hhist
    exact Or.inl ⟨newStream c calls listen ver, by simp, rfl, by simpa [newStream] using hr⟩
  · simp [hk] at hhist
    rcases h sid cs li hhist r hr with ⟨s, hs, hid, hm⟩ | ⟨log, p, ctx, hlog, hmem⟩
    · exact Or.inl ⟨s, by simp [hs], hid, hm⟩
    · obtain ⟨more, hm⟩ := logLE_postStore c listen ver sid log hlog
      exact Or.inr ⟨log ++ more, p, ctx, hm, List.mem_append_left _ hmem⟩

theorem answered_post {c : Conn α} (h10 : Inv10 c) (h : Answered c) (calls : List Nat) (listen : Bool) (ver : Ver)
    (budget : Option Nat) : Answered (post c calls listen ver budget) := by
  unfold post
  split
  · exact answered_frame (c' := statusEx c 202) h rfl (strKeepF_refl _) (LogLE.refl _)
  · split
    · refine answered_frame (c' := postDup c ver) h rfl (strKeepF_refl _) ?_
      simp only [postDup, statusEx]
      split
      · exact logLE_openLog _ _
      · exact LogLE.refl _
    · rw [postNew_eq]
      split
      · exact answered_cut (answered_postPrimed h10 h _ _ _ _) _
      · exact answered_postPrimed h10 h _ _ _ _

theorem answered_writeTo {c : Conn α} (hw : Inv c) (h : Answered c) (msg : Msg α) (ctx : Option Nat)
    {s : Stream α} (hmem : s ∈ c.streams) (hst : c.cfg.hasStore = true) :
    Answered (writeTo c s msg ctx false).1 := by
  have huse : wUse c false = true := by simp [wUse, hst]
  have hds := deliver_stream c.exs s ⟨msg, ctx⟩ (if wUse c false then some (s.id, s.next) else none)
    (wReqs s msg) (wDone s msg)
  intro sid calls li hhist r hr
  simp only [writeTo] at hhist
  simp only [writeTo, huse, if_true]
  rcases h sid calls li hhist r hr with ⟨x, hxl, hid, hm⟩ | ⟨log, p, cx, hlog, hmem'⟩
  · by_cases hxs : x.id = s.id
    · have hxeq : x = s := by
        have e1 := findStream_of_mem hw.nodup hxl
        have e2 := findStream_of_mem hw.nodup hmem
        rw [hxs] at e1; rw [e1] at e2; cases e2; rfl
      subst hxeq
      -- is this write the response to `r`?
      by_cases hresp : ∃ p, msg = .resp r p
      · obtain ⟨p, rfl⟩ := hresp
        refine Or.inr ⟨(c.store x.id).getD [] ++ [some ⟨.resp r p, ctx⟩], p, ctx, ?_, by simp⟩
        rw [← hid]; simp
      · have hrw : r ∈ wReqs x msg := by
          cases msg with
          | resp id p =>
            simp only [wReqs]
            exact mem_eraseAll_of hm (fun he => hresp ⟨p, by rw [he]⟩)
          | notif p => exact hm
          | call p => exact hm
        have hnd : wDone x msg = false := by
          simp only [wDone]
          cases hw' : wReqs x msg with
          | nil => rw [hw'] at hrw; cases hrw
          | cons a t => simp
        simp only [hnd]
        refine Or.inl ⟨_, mem_setStream_self hxl (by simp only [wDeliver]; exact hds.1.symm), ?_, ?_⟩
        · simp only [wDeliver]; rw [hds.1]; exact hid
        · simp only [wDeliver]; rw [hds.2.2.2.1]; exact hrw
    · refine Or.inl ⟨x, ?_, hid, hm⟩
      split
      · rw [mem_delStream]; exact ⟨hxl, hxs⟩
      · exact mem_setStream_other hxl (by simp only [wDeliver]; rw [hds.1]; exact hxs)
  · obtain ⟨more, hm⟩ := logLE_appendLog s.id (some ⟨msg, ctx⟩) c.store sid log hlog
    exact Or.inr ⟨log ++ more, p, cx, hm, List.mem_append_left _ hmem'⟩

theorem answered_write {c : Conn α} (hw : Inv c) (h : Answered c) (msg : Msg α) (ctx : Option Nat)
    (hst : c.cfg.hasStore = true) : Answered (writeR c msg ctx false).1 := by
  have herase : Answered (eraseResp c msg) :=
    answered_frame (c' := eraseResp c msg) h (by simp) (by simp; exact strKeepF_refl _) (by simp; exact LogLE.refl _)
  unfold writeR
  split
  · exact h
  · split
    · exact herase
    · rename_i s hrt
      split
      · exact herase
      · exact answered_writeTo (inv_eraseResp hw msg) herase msg ctx (by simp; exact route_mem hrt) (by simp; exact hst)

theorem answered_pendW {c : Conn α} (h : Answered c) (l : List (PendW α)) : Answered ({ c with pendW := l } : Conn α) := h

theorem answered_wroute {c : Conn α} (h : Answered c) (msg : Msg α) (ctx : Option Nat) (ctxNew : Bool) :
    Answered (wrouteR c msg ctx ctxNew).1 := by
  have herase : Answered (eraseResp c msg) :=
    answered_frame (c' := eraseResp c msg) h (by simp) (by simp; exact strKeepF_refl _) (by simp; exact LogLE.refl _)
  unfold wrouteR
  split
  · exact h
  · split
    · exact herase
    · split
      · exact herase
      · exact answered_pendW herase _

theorem answered_wdeliver {c : Conn α} (hw : Inv c) (h : Answered c) (hst : c.cfg.hasStore = true) (hps : PendScope c) (i : Nat) :
    Answered (wdeliverR c i).1 := by
  unfold wdeliverR
  split
  · exact h
  · rename_i pw hpw
    have hnew := hps pw (List.mem_of_getElem? hpw)
    have hw1 : Inv ({ c with pendW := c.pendW.eraseIdx i } : Conn α) :=
      inv_pendW hw _ (fun x hx => hw.pend_lt x (mem_eraseIdx hx))
    split
    · rename_i s hs
      rw [hnew]
      exact answered_writeTo hw1 (answered_pendW h _) _ _ (findStream_some hs).1 hst
    · refine answered_frame (c := ({ c with pendW := c.pendW.eraseIdx i } : Conn α))
        (c' := (orphanWrite ({ c with pendW := c.pendW.eraseIdx i } : Conn α) pw).1) (answered_pendW h _) rfl
        (strKeepF_refl _) ?_
      simp only [orphanWrite]
      split
      · exact logLE_appendLog _ _ _
      · exact LogLE.refl _

theorem answered_getGo {c : Conn α} (hw : Inv c) (h : Answered c) (sid frm : Nat) (ver : Ver) (budget : Option Nat)
    (items : List (Item α)) : Answered (getGo c sid frm ver budget items) := by
  obtain ⟨gs, gst, _, _, gh, _⟩ := getOpen_frame c sid frm budget
  obtain ⟨fs, fst, _, _, fh, _⟩ := replayLoop_frame (getOpen c sid frm budget) c.exs.length sid frm items
  have hfin : Answered (finish (replayLoop (getOpen c sid frm budget) c.exs.length sid frm items).1 c.exs.length) :=
    answered_frame (c' := finish (replayLoop (getOpen c sid frm budget) c.exs.length sid frm items).1 c.exs.length) h
      (by simp [finish, fh, gh]) (by simp only [finish]; rw [fs, gs]; exact strKeepF_refl _)
      (by simp only [finish]; rw [fst, gst]; exact LogLE.refl _)
  unfold getGo
  split
  · split
    · exact hfin
    · rename_i s hsf
      have hmem := (findStream_some hsf).1
      split
      · exact hfin
      · have hA : Answered ({ (replayLoop (getOpen c sid frm budget) c.exs.length sid frm items).1 with
            streams := setStream { s with attached := some c.exs.length, opn := true, next := frm + items.length, v1125 := ver.ge1125 }
              (replayLoop (getOpen c sid frm budget) c.exs.length sid frm items).1.streams } : Conn α) :=
          answered_frame h (by simp [fh, gh])
            (by simp only; rw [fs, gs]; exact strKeepF_set hw.nodup (s := s) hmem rfl rfl)
            (by simp only; rw [fst, gst]; exact LogLE.refl _)
        unfold attach
        split
        · exact answered_cut hA _
        · exact hA
  · exact hfin

theorem answered_get {c : Conn α} (hw : Inv c) (h : Answered c) (hdr : Hdr) (ver : Ver) (budget : Option Nat) :
    Answered (get c hdr ver budget) := by
  have hst : ∀ code sid, Answered (statusEx c code sid) := fun code sid =>
    answered_frame (c' := statusEx c code sid) h rfl (strKeepF_refl _) (LogLE.refl _)
  unfold get
  split
  · exact hst _ _
  · split
    · exact hst _ _
    · split
      · exact hst _ _
      · split
        · exact hst _ _
        · exact answered_getGo hw h _ _ _ _ _

theorem answered_step {c : Conn α} (hw : Inv c) (h10 : Inv10 c) (h : Answered c) (hst : c.cfg.hasStore = true) (l : Label α)
    (hsc : InScope c l) (hps : PendScope c) : Answered (step c l) := by
  unfold step stepR
  cases l with
  | post calls listen ver budget => exact answered_post h10 h _ _ _ _
  | write msg ctx ctxNew =>
    simp only [InScope] at hsc; subst hsc
    exact answered_write hw h _ _ hst
  | cut ex => exact answered_cut h _
  | wfail ex => exact answered_frame (c' := wfail c ex) h rfl (strKeepF_refl _) (LogLE.refl _)
  | get hdr ver budget => exact answered_get hw h _ _ _
  | sclose req retry => exact answered_sclose hw h _ _
  | «end» => exact answered_frame (c' := { c with isDone := true }) h rfl (strKeepF_refl _) (LogLE.refl _)
  | evict sid n => exact answered_frame (c' := evict c sid n) h rfl (strKeepF_refl _) (LogLE.refl _)
  | wroute msg ctx ctxNew => exact answered_wroute h _ _ _
  | wdeliver i => exact answered_wdeliver hw h hst hps i

theorem answered_run (cfg : Cfg) (hst : cfg.hasStore = true) (ls : List (Label α)) (hsc : InScopeRun (init cfg) ls) :
    Answered (run (init cfg) ls) := by
  suffices ∀ c : Conn α, Inv c → Inv10 c → PendRouted c → PendScope c → Answered c → c.cfg.hasStore = true → InScopeRun c ls →
      Answered (run c ls) from
    this _ (inv_init cfg) (inv10_init cfg) (pendRouted_init cfg) (pendScope_init cfg) (answered_init cfg) hst hsc
  clear hsc
  induction ls with
  | nil => intro c _ _ _ _ h _ _; exact h
  | cons l t ih =>
    intro c hw h10 hpr hps h hs hsc
    exact ih (step c l) (inv_step hw l) (inv10_step hw h10 hpr l) (pendRouted_step h10 hpr l) (pendScope_step hps l hsc.1)
      (answered_step hw h10 h hs l hsc.1 hps) (by rw [step_cfg]; exact hs) hsc.2

end Resume
