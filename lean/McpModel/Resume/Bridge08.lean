import McpModel.Resume.Delta
import McpModel.Resume.Props
/-!
E5 — bridging theorem for C08: the typed monitor core (`Mon.step`) raises no C08 clause on the observation
of any record of a model run.

The proof keeps a relation between the monitor's state and the model state (`MonRel08`): the monitor's
ground-truth logs are the store's append logs, and what it knows about every exchange (resume point,
id-carrying events written / delivered / lost, the stream it serves) agrees with the exchange's ghost
fields and history.  One record is the difference between two states of a growing run (`Grow`); the
record-level facts the monitor relies on are collected in `RecFacts`.
-/
namespace Resume
open Mon
variable {α σ : Type} [DecidableEq α] [DecidableEq σ] {P : Prop} {G : Nat → Prop}

/-! ### the monitor's state components under its updates -/

@[simp] theorem putEx_exs (m : MonS σ α) (k : Nat) (e : MEx σ) (j : Nat) :
    (m.putEx k e).exs j = if j = k then some e else m.exs j := rfl
@[simp] theorem putEx_logs (m : MonS σ α) (k : Nat) (e : MEx σ) : (m.putEx k e).logs = m.logs := rfl
@[simp] theorem putEx_store (m : MonS σ α) (k : Nat) (e : MEx σ) : (m.putEx k e).store = m.store := rfl
@[simp] theorem putEx_jsonMode (m : MonS σ α) (k : Nat) (e : MEx σ) : (m.putEx k e).jsonMode = m.jsonMode := rfl
@[simp] theorem putEx_posts (m : MonS σ α) (k : Nat) (e : MEx σ) : (m.putEx k e).posts = m.posts := rfl

@[simp] theorem bindPost_exs (m : MonS σ α) (s : σ) (t k : Nat) : (m.bindPost s t k).exs = m.exs := by
  unfold MonS.bindPost; split <;> rfl
@[simp] theorem bindPost_logs (m : MonS σ α) (s : σ) (t k : Nat) : (m.bindPost s t k).logs = m.logs := by
  unfold MonS.bindPost; split <;> rfl
@[simp] theorem bindPost_store (m : MonS σ α) (s : σ) (t k : Nat) : (m.bindPost s t k).store = m.store := by
  unfold MonS.bindPost; split <;> rfl
@[simp] theorem bindPost_jsonMode (m : MonS σ α) (s : σ) (t k : Nat) : (m.bindPost s t k).jsonMode = m.jsonMode := by
  unfold MonS.bindPost; split <;> rfl

@[simp] theorem addLog_exs (m : MonS σ α) (s : σ) (t : Nat) (p : Option α) : (m.addLog s t p).exs = m.exs := rfl
@[simp] theorem addLog_store (m : MonS σ α) (s : σ) (t : Nat) (p : Option α) : (m.addLog s t p).store = m.store := rfl
@[simp] theorem addLog_jsonMode (m : MonS σ α) (s : σ) (t : Nat) (p : Option α) : (m.addLog s t p).jsonMode = m.jsonMode := rfl
@[simp] theorem addLog_posts (m : MonS σ α) (s : σ) (t : Nat) (p : Option α) : (m.addLog s t p).posts = m.posts := rfl

@[simp] theorem routeBind_exs (m : MonS σ α) (pv : Prov σ) (s : σ) (st k : Option Nat) : (routeBind m pv s st k).exs = m.exs := by
  cases st <;> cases pv <;> simp only [routeBind] <;> split <;> simp
@[simp] theorem routeBind_logs (m : MonS σ α) (pv : Prov σ) (s : σ) (st k : Option Nat) : (routeBind m pv s st k).logs = m.logs := by
  cases st <;> cases pv <;> simp only [routeBind] <;> split <;> simp
@[simp] theorem routeBind_store (m : MonS σ α) (pv : Prov σ) (s : σ) (st k : Option Nat) : (routeBind m pv s st k).store = m.store := by
  cases st <;> cases pv <;> simp only [routeBind] <;> split <;> simp
@[simp] theorem routeBind_jsonMode (m : MonS σ α) (pv : Prov σ) (s : σ) (st k : Option Nat) :
    (routeBind m pv s st k).jsonMode = m.jsonMode := by
  cases st <;> cases pv <;> simp only [routeBind] <;> split <;> simp

/-- a fold of steps that leave `exs`, `logs`, `store` alone and raise no C08 clause -/
theorem foldV_frame {A : Type} (f : MonS σ α → A → MonS σ α × Viol)
    (hf : ∀ m a, (f m a).1.exs = m.exs ∧ (f m a).1.logs = m.logs ∧ (f m a).1.store = m.store ∧ (f m a).2.v08 = none) :
    ∀ (l : List A) (m : MonS σ α), (foldV f m l).1.exs = m.exs ∧ (foldV f m l).1.logs = m.logs ∧
      (foldV f m l).1.store = m.store ∧ (foldV f m l).2.v08 = none := by
  intro l
  induction l with
  | nil => intro m; exact ⟨rfl, rfl, rfl, rfl⟩
  | cons a t ih =>
    intro m
    obtain ⟨a1, a2, a3, a4⟩ := hf m a
    obtain ⟨b1, b2, b3, b4⟩ := ih (f m a).1
    simp only [foldV]
    exact ⟨b1.trans a1, b2.trans a2, b3.trans a3, by simp [Viol.or, a4, b4]⟩

/-! ### the relation between monitor and model -/

/-- what the monitor knows about an exchange agrees with the exchange `e` and its history `h` -/
structure RelE (P : Prop) (sn : σ) (me : MEx σ) (e : Exch α) (h : List (Bool × Out α)) : Prop where
  sess : me.sess = sn
  np : me.newProto = false
  nsent : me.nsent = cAll h
  nrecv : me.nrecv = cRecv h
  failing : me.failing = true ↔ 0 < cLost h
  sse : me.sse = true ↔ e.kind = .sse
  frm : e.live → me.from = e.from
  stream : e.live → ∀ t, me.stream = some t → t = e.stream
  get : me.isGet = true → P      -- `P`: what is known about an exchange opened by a GET of the current record

def EvRel (G : Nat → Prop) (sn : σ) (m : MonS σ α) (c : Conn α) (done : Nat → List (Bool × Out α)) : Prop :=
  ∀ (j : Nat) (e : Exch α), c.exs[j]? = some e → ∃ me, m.exs j = some me ∧ RelE (G j) sn me e (done j)

/-- the monitor's ground truth is the store's append log -/
def LogRel (sn : σ) (m : MonS σ α) (c : Conn α) : Prop :=
  ∀ sid, m.logs sn sid = ((c.store sid).getD []).map (Option.map payloadOf)

structure MonRel08 (sn : σ) (m : MonS σ α) (c : Conn α) : Prop where
  store : m.store = c.cfg.hasStore
  first : ∀ sid, m.first sn sid = c.purged sid
  logs : LogRel sn m c
  exs : EvRel (fun _ => True) sn m c (taggedAt c)

theorem relE_snoc_nonEv {sn : σ} {me : MEx σ} {e : Exch α} {h : List (Bool × Out α)} (r : RelE P sn me e h)
    (x : Bool × Out α) (hx : x.2.isEv = false) : RelE P sn me e (h ++ [x]) :=
  ⟨r.sess, r.np, by rw [cAll_snoc, hx]; simpa using r.nsent, by rw [cRecv_snoc, hx]; simpa using r.nrecv,
    by rw [cLost_snoc, hx]; simpa using r.failing, r.sse, r.frm, r.stream, r.get⟩

/-- the monitor's update on an id-carrying event of stream `t` -/
def bump (me : MEx σ) (t : Nat) (lost : Bool) : MEx σ :=
  { me with stream := if me.stream.isSome then me.stream else some t, nsent := me.nsent + 1,
            nrecv := if lost then me.nrecv else me.nrecv + 1, failing := me.failing || lost }

theorem relE_snoc_ev {sn : σ} {me : MEx σ} {e : Exch α} {h : List (Bool × Out α)} (r : RelE P sn me e h)
    (lost : Bool) (o : Out α) (ho : o.isEv = true) (t : Nat) (ht : t = e.stream) :
    RelE P sn (bump me t lost) e (h ++ [(lost, o)]) := by
  unfold bump
  refine ⟨r.sess, r.np, ?_, ?_, ?_, r.sse, r.frm, ?_, r.get⟩
  · rw [cAll_snoc]; simp [ho, r.nsent]
  · rw [cRecv_snoc]; cases lost <;> simp [ho, r.nrecv]
  · rw [cLost_snoc]
    cases lost
    · simpa [ho] using r.failing
    · simp [ho]
  · intro hl t' ht'
    simp only at ht'
    split at ht'
    · exact r.stream hl t' ht'
    · cases ht'; exact ht

theorem evRel_put {sn : σ} {m m' : MonS σ α} {c : Conn α} {done done' : Nat → List (Bool × Out α)}
    (hrel : EvRel G sn m c done) (k : Nat) (me' : MEx σ)
    (hexs : ∀ j, m'.exs j = if j = k then some me' else m.exs j)
    (hk : ∀ e, c.exs[k]? = some e → RelE (G k) sn me' e (done' k)) (hd : ∀ j, j ≠ k → done' j = done j) : EvRel G sn m' c done' := by
  intro j e he
  by_cases hj : j = k
  · subst hj
    exact ⟨me', by rw [hexs]; simp, hk e he⟩
  · obtain ⟨me, hme, r⟩ := hrel j e he
    exact ⟨me, by rw [hexs]; simp [hj, hme], by rw [hd j hj]; exact r⟩

theorem evRel_same {sn : σ} {m m' : MonS σ α} {c : Conn α} {done done' : Nat → List (Bool × Out α)}
    (hrel : EvRel G sn m c done) (hexs : m'.exs = m.exs) (k : Nat)
    (hk : ∀ e me, c.exs[k]? = some e → RelE (G k) sn me e (done k) → RelE (G k) sn me e (done' k)) (hd : ∀ j, j ≠ k → done' j = done j) :
    EvRel G sn m' c done' := by
  intro j e he
  obtain ⟨me, hme, r⟩ := hrel j e he
  refine ⟨me, by rw [hexs]; exact hme, ?_⟩
  by_cases hj : j = k
  · subst hj; exact hk e me he r
  · rw [hd j hj]; exact r

/-! ### one write -/

theorem foldV_jsonOne_frame (prov : α → Prov σ) (sess : σ) (stream : Option Nat) (k : Nat) (ps : List α) (m : MonS σ α) :
    (foldV (jsonOne prov sess stream k) m ps).1.exs = m.exs ∧ (foldV (jsonOne prov sess stream k) m ps).1.logs = m.logs ∧
    (foldV (jsonOne prov sess stream k) m ps).1.store = m.store ∧ (foldV (jsonOne prov sess stream k) m ps).2.v08 = none :=
  foldV_frame _ (fun m a => by simp [jsonOne]) ps m

theorem evOf_payload (sid i : Nat) (x : Option (Item α)) :
    (∃ p, toMOut (evOf sid i x) = .prime (.ok sid i) ∧ x = none ∧ p = (none : Option α)) ∨
    (∃ it, toMOut (evOf sid i x) = .message (.ok sid i) (payloadOf it) ∧ x = some it) := by
  cases x with
  | none => exact Or.inl ⟨none, rfl, rfl, rfl⟩
  | some it => exact Or.inr ⟨it, rfl, rfl⟩

/-- the C08 check passes on the event the model wrote at this position -/
theorem check08_ok {sn : σ} {m : MonS σ α} {c : Conn α} {me : MEx σ} {e : Exch α} {h : List (Bool × Out α)}
    (r : RelE P sn me e h) (hl : e.live) (hlog : LogRel sn m c) (x : Option (Item α))
    (hx : ((c.store e.stream).getD [])[e.from + cAll h]? = some x) :
    check08 m me e.stream (e.from + cAll h) (x.map payloadOf) = none := by
  unfold check08
  have h1 : (me.stream.isSome && me.stream != some e.stream) = false := by
    cases hs : me.stream with
    | none => rfl
    | some t => have := r.stream hl t hs; subst this; simp
  rw [h1]
  simp only [Bool.false_eq_true, if_false]
  rw [r.frm hl, r.nsent]
  simp only [Nat.lt_irrefl, if_false]
  rw [r.sess, hlog e.stream]
  simp [List.getElem?_map, hx]

theorem evStep_ok08 (prov : α → Prov σ) {c : Conn α} (hk : InvK c) (h8 : Inv08 c) (sn : σ) (m : MonS σ α)
    (done : Nat → List (Bool × Out α)) (hst : m.store = true) (hrel : EvRel G sn m c done) (hlog : LogRel sn m c)
    (k : Nat) (lost : Bool) (o : Out α) (rest : List (Bool × Out α)) (e : Exch α) (he : c.exs[k]? = some e)
    (hpre : tagged e = done k ++ (lost, o) :: rest) :
    (evStep prov m (toSent (k, lost, o))).2.v08 = none ∧
    EvRel G sn (evStep prov m (toSent (k, lost, o))).1 c (fun j => if j = k then done j ++ [(lost, o)] else done j) ∧
    (evStep prov m (toSent (k, lost, o))).1.logs = m.logs ∧ (evStep prov m (toSent (k, lost, o))).1.store = m.store := by
  obtain ⟨me, hme, r⟩ := hrel k e he
  have hall : e.all = (done k).map (·.2) ++ o :: rest.map (·.2) := by
    rw [← tagged_all, hpre]; simp
  have hlive : e.live := by
    by_cases hl : e.live
    · exact hl
    · have := (hk k e he hl).1
      rw [hall] at this; simp at this
  have hseg := h8.seg k e he
  rw [hall, segFrom_append] at hseg
  have hseg2 := hseg.2
  have hcnt : idCount ((done k).map (·.2)) = cAll (done k) := rfl
  rw [hcnt] at hseg2
  have hnon : ∀ (me' : MEx σ), o.isEv = false →
      EvRel G sn m c (fun j => if j = k then done j ++ [(lost, o)] else done j) := by
    intro _ ho
    refine evRel_same hrel rfl k ?_ (fun j hj => by simp [hj])
    intro e1 me1 _ r1
    simp only [if_true]
    exact relE_snoc_nonEv r1 (lost, o) ho
  unfold evStep
  simp only [toSent, hme]
  cases o with
  | comment => exact ⟨rfl, hnon me rfl, rfl, rfl⟩
  | close => exact ⟨rfl, hnon me rfl, rfl, rfl⟩
  | json items =>
    obtain ⟨f1, f2, f3, f4⟩ := foldV_jsonOne_frame prov me.sess me.stream k (items.map payloadOf) m
    simp only [toMOut]
    refine ⟨f4, ?_, f2, f3⟩
    refine evRel_same hrel f1 k ?_ (fun j hj => by simp [hj])
    intro e1 me1 _ r1
    simp only [if_true]
    exact relE_snoc_nonEv r1 (lost, .json items) rfl
  | prime sid i =>
    simp only [SegFrom, Out.isEv, if_true] at hseg2
    obtain ⟨⟨x, hx, hev⟩, _⟩ := hseg2
    cases x with
    | some it => simp [evOf] at hev
    | none =>
      simp only [evOf, Out.prime.injEq] at hev
      obtain ⟨rfl, rfl⟩ := hev
      have hgate : (!m.store || me.newProto) = false := by simp [hst, r.np]
      simp only [toMOut, ev08, hgate, Bool.false_eq_true, if_false]
      refine ⟨check08_ok r hlive hlog none hx, ?_, rfl, rfl⟩
      refine evRel_put hrel k (bump me e.stream lost) (fun j => rfl) ?_ (fun j hj => by simp [hj])
      intro e1 he1
      rw [he] at he1; cases he1
      simp only [if_true]
      exact relE_snoc_ev r lost (.prime e.stream (e.from + cAll (done k))) rfl e.stream rfl
  | message id it =>
    simp only [SegFrom, Out.isEv, if_true] at hseg2
    obtain ⟨⟨x, hx, hev⟩, _⟩ := hseg2
    cases x with
    | none => simp [evOf] at hev
    | some it' =>
      simp only [evOf, Out.message.injEq] at hev
      obtain ⟨rfl, rfl⟩ := hev
      have hgate : (!(routeBind m (prov (payloadOf it)) me.sess me.stream (some k)).store || me.newProto) = false := by
        simp [hst, r.np]
      simp only [toMOut, toEvId, ev08, hgate, Bool.false_eq_true, if_false]
      have hlog' : LogRel sn (routeBind m (prov (payloadOf it)) me.sess me.stream (some k)) c := by
        intro sid; rw [routeBind_logs]; exact hlog sid
      refine ⟨check08_ok (m := routeBind m (prov (payloadOf it)) me.sess me.stream (some k)) r hlive hlog' (some it) hx, ?_,
        by simp, by simp⟩
      refine evRel_put hrel k (bump me e.stream lost) (fun j => by simp [bump]) ?_ (fun j hj => by simp [hj])
      intro e1 he1
      rw [he] at he1; cases he1
      simp only [if_true]
      exact relE_snoc_ev r lost (.message (some (e.stream, e.from + cAll (done k))) it) rfl e.stream rfl

/-- all the writes of a record, in order -/
theorem events_ok08 (prov : α → Prov σ) {c : Conn α} (hk : InvK c) (h8 : Inv08 c) (sn : σ) :
    ∀ (l : List (Nat × Bool × Out α)) (m : MonS σ α) (done : Nat → List (Bool × Out α)),
      m.store = true → EvRel G sn m c done → LogRel sn m c → (∀ j, taggedAt c j = done j ++ proj j l) →
      (foldV (evStep prov) m (l.map toSent)).2.v08 = none ∧
      EvRel G sn (foldV (evStep prov) m (l.map toSent)).1 c (fun j => done j ++ proj j l) ∧
      (foldV (evStep prov) m (l.map toSent)).1.logs = m.logs ∧ (foldV (evStep prov) m (l.map toSent)).1.store = m.store := by
  intro l
  induction l with
  | nil =>
    intro m done _ hrel _ _
    refine ⟨rfl, ?_, rfl, rfl⟩
    have : (fun j => done j ++ proj j ([] : List (Nat × Bool × Out α))) = done := by funext j; simp [proj]
    rw [this]; exact hrel
  | cons x t ih =>
    intro m done hst hrel hlog hinv
    obtain ⟨k, lost, o⟩ := x
    have hk1 := hinv k
    rw [proj_cons] at hk1
    simp only [if_true] at hk1
    have hex : ∃ e, c.exs[k]? = some e ∧ tagged e = done k ++ (lost, o) :: proj k t := by
      unfold taggedAt at hk1
      cases he : c.exs[k]? with
      | none => rw [he] at hk1; simp at hk1
      | some e => rw [he] at hk1; exact ⟨e, rfl, by simpa using hk1⟩
    obtain ⟨e, he, hpre⟩ := hex
    obtain ⟨a1, a2, a3, a4⟩ := evStep_ok08 prov hk h8 sn m done hst hrel hlog k lost o (proj k t) e he hpre
    have hlog1 : LogRel sn (evStep prov m (toSent (k, lost, o))).1 c := by intro sid; rw [a3]; exact hlog sid
    obtain ⟨b1, b2, b3, b4⟩ := ih (evStep prov m (toSent (k, lost, o))).1 (fun j => if j = k then done j ++ [(lost, o)] else done j)
      (a4.trans hst) a2 hlog1 (by
        intro j
        by_cases hj : j = k
        · subst hj; simp [hk1]
        · have := hinv j
          rw [proj_cons] at this
          simp [hj, Ne.symm hj] at this ⊢
          exact this)
    simp only [List.map_cons, foldV]
    refine ⟨by simp [Viol.or, a1, b1], ?_, b3.trans a3, b4.trans a4⟩
    have : (fun j => done j ++ proj j ((k, lost, o) :: t)) =
        (fun j => (if j = k then done j ++ [(lost, o)] else done j) ++ proj j t) := by
      funext j
      rw [proj_cons]
      by_cases hj : j = k
      · subst hj; simp
      · simp [hj, Ne.symm hj]
    rw [this]; exact b2

/-! ### the passes before the events -/

theorem relE_ghost {sn : σ} {me : MEx σ} {e e' : Exch α} {h : List (Bool × Out α)} (r : RelE P sn me e h)
    (hs : e'.stream = e.stream) (hf : e'.from = e.from) (hkd : e'.kind = e.kind) : RelE P sn me e' h := by
  have hl : e'.live ↔ e.live := by unfold Exch.live; rw [hkd]
  exact ⟨r.sess, r.np, r.nsent, r.nrecv, r.failing, by rw [hkd]; exact r.sse, fun x => by rw [hf]; exact r.frm (hl.mp x),
    fun x t ht => by rw [hs]; exact r.stream (hl.mp x) t ht, r.get⟩

theorem foldl_putEx_range' (g : Bool → MEx σ) (f : Nat → Bool) :
    ∀ (d n : Nat) (m : MonS σ α),
      (∀ j, (((List.range' n d).map (fun j => (j, f j))).foldl (fun m x => m.putEx x.1 (g x.2)) m).exs j =
        if n ≤ j ∧ j < n + d then some (g (f j)) else m.exs j) ∧
      (((List.range' n d).map (fun j => (j, f j))).foldl (fun m x => m.putEx x.1 (g x.2)) m).logs = m.logs ∧
      (((List.range' n d).map (fun j => (j, f j))).foldl (fun m x => m.putEx x.1 (g x.2)) m).store = m.store := by
  intro d
  induction d with
  | zero =>
    intro n m
    refine ⟨fun j => ?_, rfl, rfl⟩
    simp only [List.range'_zero, List.map_nil, List.foldl_nil]
    rw [if_neg (by omega)]
  | succ d ih =>
    intro n m
    obtain ⟨h1, h2, h3⟩ := ih (n + 1) (m.putEx n (g (f n)))
    simp only [List.range'_succ, List.map_cons, List.foldl_cons]
    refine ⟨?_, h2, h3⟩
    intro j
    rw [h1 j]
    by_cases hj : j = n
    · subst hj; simp
    · simp only [putEx_exs, hj, if_false]
      by_cases h : n + 1 ≤ j ∧ j < n + 1 + d
      · rw [if_pos h, if_pos (by omega)]
      · rw [if_neg h, if_neg (by omega)]

/-- the record-level facts the monitor relies on (one record: the connection went from `c` to `c'`) -/
structure RecFacts (og : Origin) (c c' : Conn α) : Prop where
  new1 : c'.exs.length ≤ c.exs.length + 1
  np : og.newProto = false
  ghost : ∀ e, c'.exs[c.exs.length]? = some e → e.live → e.from = og.from ∧ ∀ t, og.stream = some t → t = e.stream
  resume : og.isGet = true → ∀ e, c'.exs[c.exs.length]? = some e → e.kind = .sse → idCount e.lost = 0 →
    e.from ≤ ((c'.store e.stream).getD []).length → e.from + idCount e.out = ((c'.store e.stream).getD []).length
  purgedErr : og.isGet = true → ∀ e, c'.exs[c.exs.length]? = some e → e.kind = .sse →
    ∀ t, og.stream = some t → ¬ og.from < c.purged t

theorem openAll_spec (sn : σ) (og : Origin) (c c' : Conn α) (hg : Grow c c') (m : MonS σ α) :
    (∀ j, (openAll m (obsOf sn og c c')).exs j =
      if c.exs.length ≤ j ∧ j < c'.exs.length then some (mkEx (obsOf sn og c c') (((c'.exs[j]?).map isSSE).getD false)) else m.exs j) ∧
    (openAll m (obsOf sn og c c')).logs = m.logs ∧ (openAll m (obsOf sn og c c')).store = m.store := by
  obtain ⟨h1, h2, h3⟩ := foldl_putEx_range' (mkEx (obsOf sn og c c')) (fun j => ((c'.exs[j]?).map isSSE).getD false)
    (c'.exs.length - c.exs.length) c.exs.length m
  have hlen := hg.exs.1
  refine ⟨?_, h2, h3⟩
  intro j
  have := h1 j
  simp only [openAll, obsOf, openedOf] at this ⊢
  rw [this]
  have : c.exs.length + (c'.exs.length - c.exs.length) = c'.exs.length := by omega
  rw [this]

theorem evRel_open {sn : σ} {og : Origin} {c c' : Conn α} (hg : Grow c c') (hf : RecFacts og c c') {m : MonS σ α}
    (hrel : EvRel (fun _ => True) sn m c (taggedAt c)) :
    EvRel (fun j => j < c.exs.length ∨ og.isGet = true) sn (openAll m (obsOf sn og c c')) c' (taggedAt c) := by
  obtain ⟨h1, _, _⟩ := openAll_spec sn og c c' hg m
  intro j e' he'
  have hjlt : j < c'.exs.length := by
    by_cases hh : j < c'.exs.length
    · exact hh
    · rw [List.getElem?_eq_none (by omega)] at he'; cases he'
  rw [h1 j]
  by_cases hj : j < c.exs.length
  · rw [if_neg (by omega)]
    obtain ⟨e'', he'', g⟩ := hg.exs.2 j c.exs[j] (List.getElem?_eq_getElem hj)
    rw [he'] at he''; cases he''
    obtain ⟨me, hme, r⟩ := hrel j c.exs[j] (List.getElem?_eq_getElem hj)
    have r' := relE_ghost r g.stream g.frm g.kind
    exact ⟨me, hme, ⟨r'.sess, r'.np, r'.nsent, r'.nrecv, r'.failing, r'.sse, r'.frm, r'.stream, fun _ => Or.inl hj⟩⟩
  · rw [if_pos ⟨by omega, hjlt⟩]
    have hjn : j = c.exs.length := by have := hf.new1; omega
    subst hjn
    refine ⟨_, rfl, ?_⟩
    have ht : taggedAt c c.exs.length = [] := by simp [taggedAt]
    rw [ht, he']
    refine ⟨rfl, hf.np, rfl, rfl, by simp [mkEx, cLost, idCount], ?_, fun hl => ((hf.ghost e' he' hl).1).symm,
      fun hl t ht => (hf.ghost e' he' hl).2 t ht, fun hg' => Or.inr hg'⟩
    simp only [mkEx, Option.map_some, Option.getD_some, isSSE]
    cases e'.kind <;> simp

theorem learnRow_ok {sn : σ} {c : Conn α} (hw : Inv c) (o : Obs σ α) {m : MonS σ α} {done : Nat → List (Bool × Out α)}
    (hrel : EvRel G sn m c done) (s : Stream α) (hs : s ∈ c.streams) :
    EvRel G sn (learnRow o sn m (rowOf s)) c done ∧ (learnRow o sn m (rowOf s)).logs = m.logs ∧
    (learnRow o sn m (rowOf s)).store = m.store := by
  unfold learnRow
  simp only [rowOf]
  split
  · exact ⟨hrel, rfl, rfl⟩
  · rename_i k hat
    split
    · exact ⟨hrel, rfl, rfl⟩
    · rename_i me hme
      split
      · refine ⟨?_, by simp, by simp⟩
        refine evRel_put hrel k { me with stream := some s.id } (fun j => by simp) ?_ (fun _ _ => rfl)
        intro e he
        obtain ⟨me', hme', r⟩ := hrel k e he
        rw [hme] at hme'; cases hme'
        obtain ⟨e2, he2, hes⟩ := hw.att s hs k hat
        rw [he] at he2; cases he2
        exact ⟨r.sess, r.np, r.nsent, r.nrecv, r.failing, r.sse, r.frm, fun _ t ht => by cases ht; exact hes.symm, r.get⟩
      · exact ⟨hrel, rfl, rfl⟩

theorem learnRows_ok {sn : σ} {og : Origin} {c0 c : Conn α} (hw : Inv c) {m : MonS σ α} {done : Nat → List (Bool × Out α)}
    (hrel : EvRel G sn m c done) :
    EvRel G sn (learnRows m (obsOf sn og c0 c)) c done ∧ (learnRows m (obsOf sn og c0 c)).logs = m.logs ∧
    (learnRows m (obsOf sn og c0 c)).store = m.store := by
  have key : ∀ (l : List (Stream α)), (∀ s ∈ l, s ∈ c.streams) → ∀ (m : MonS σ α), EvRel G sn m c done →
      EvRel G sn ((l.map rowOf).foldl (learnRow (obsOf sn og c0 c) sn) m) c done ∧
      ((l.map rowOf).foldl (learnRow (obsOf sn og c0 c) sn) m).logs = m.logs ∧
      ((l.map rowOf).foldl (learnRow (obsOf sn og c0 c) sn) m).store = m.store := by
    intro l
    induction l with
    | nil => intro _ m h; exact ⟨h, rfl, rfl⟩
    | cons s t ih =>
      intro hl m h
      obtain ⟨a1, a2, a3⟩ := learnRow_ok hw (obsOf sn og c0 c) h s (hl s List.mem_cons_self)
      obtain ⟨b1, b2, b3⟩ := ih (fun x hx => hl x (List.mem_cons_of_mem _ hx)) _ a1
      simp only [List.map_cons, List.foldl_cons]
      exact ⟨b1, b2.trans a2, b3.trans a3⟩
  have := key c.streams (fun _ h => h) m hrel
  simpa [learnRows, obsOf] using this

/-- an event id on the wire names the stream of the model's event -/
theorem evId_ok_stream {c : Conn α} (h8 : Inv08 c) {j : Nat} {e : Exch α} (he : c.exs[j]? = some e) {o : Out α} (ho : o ∈ e.all)
    {t i : Nat} (hid : (toMOut o).evId = .ok t i) : t = e.stream := by
  have hev : o.isEv = true ∧ o.evId = some (t, i) := by
    cases o with
    | comment => simp [toMOut, MOut.evId] at hid
    | close => simp [toMOut, MOut.evId] at hid
    | json items => simp [toMOut, MOut.evId] at hid
    | prime sid idx =>
      simp only [toMOut, MOut.evId, EvId.ok.injEq] at hid
      obtain ⟨rfl, rfl⟩ := hid; exact ⟨rfl, rfl⟩
    | message id it =>
      cases id with
      | none => simp [toMOut, MOut.evId, toEvId] at hid
      | some p =>
        obtain ⟨a, b⟩ := p
        simp only [toMOut, MOut.evId, toEvId, EvId.ok.injEq] at hid
        obtain ⟨rfl, rfl⟩ := hid; exact ⟨rfl, rfl⟩
  obtain ⟨k, x, _, _, hx⟩ := segFrom_mem (h8.seg j e he) ho hev.1
  rw [hx] at hev
  cases x <;> simp [evOf, Out.evId] at hev <;> exact hev.2.1.symm

theorem learnId_ok {sn : σ} {c : Conn α} (h8 : Inv08 c) (o : Obs σ α) {m : MonS σ α} {done : Nat → List (Bool × Out α)}
    (hrel : EvRel G sn m c done) (x : Nat × Bool × Out α) (e : Exch α) (he : c.exs[x.1]? = some e) (hx : x.2.2 ∈ e.all) :
    EvRel G sn (learnId o m (toSent x)) c done ∧ (learnId o m (toSent x)).logs = m.logs ∧ (learnId o m (toSent x)).store = m.store := by
  unfold learnId
  simp only [toSent]
  split
  · rename_i me t i hme hid
    by_cases hc : (fresh o x.1 && !me.isGet && me.stream.isNone) = true
    · simp only [hc, if_true]
      refine ⟨?_, by simp, by simp⟩
      refine evRel_put hrel x.1 { me with stream := some t } (fun j => by simp) ?_ (fun _ _ => rfl)
      intro e1 he1
      rw [he] at he1; cases he1
      obtain ⟨me', hme', r⟩ := hrel x.1 e he
      rw [hme] at hme'; cases hme'
      have := evId_ok_stream h8 he hx hid
      exact ⟨r.sess, r.np, r.nsent, r.nrecv, r.failing, r.sse, r.frm, fun _ t' ht' => by cases ht'; exact this, r.get⟩
    · simp only [hc]
      exact ⟨hrel, rfl, rfl⟩
  · exact ⟨hrel, rfl, rfl⟩

theorem learnIds_ok {sn : σ} {og : Origin} {c0 c : Conn α} (h8 : Inv08 c) {m : MonS σ α} {done : Nat → List (Bool × Out α)}
    (hrel : EvRel G sn m c done) :
    EvRel G sn (learnIds m (obsOf sn og c0 c)) c done ∧ (learnIds m (obsOf sn og c0 c)).logs = m.logs ∧
    (learnIds m (obsOf sn og c0 c)).store = m.store := by
  have key : ∀ (l : List (Nat × Bool × Out α)), (∀ x ∈ l, x ∈ sentM c0 c) → ∀ (m : MonS σ α), EvRel G sn m c done →
      EvRel G sn ((l.map toSent).foldl (learnId (obsOf sn og c0 c)) m) c done ∧
      ((l.map toSent).foldl (learnId (obsOf sn og c0 c)) m).logs = m.logs ∧
      ((l.map toSent).foldl (learnId (obsOf sn og c0 c)) m).store = m.store := by
    intro l
    induction l with
    | nil => intro _ m h; exact ⟨h, rfl, rfl⟩
    | cons x t ih =>
      intro hl m h
      obtain ⟨e, he, hx⟩ := mem_sentM (hl x List.mem_cons_self)
      obtain ⟨a1, a2, a3⟩ := learnId_ok h8 (obsOf sn og c0 c) h x e he hx
      obtain ⟨b1, b2, b3⟩ := ih (fun y hy => hl y (List.mem_cons_of_mem _ hy)) _ a1
      simp only [List.map_cons, List.foldl_cons]
      exact ⟨b1, b2.trans a2, b3.trans a3⟩
  have := key (sentM c0 c) (fun _ h => h) m hrel
  simpa [learnIds, obsOf] using this

/-! ### appends -/

theorem projA_cons (s : σ) (t : Nat) (a : Append σ α) (l : List (Append σ α)) :
    projA s t (a :: l) = if a.sess = s ∧ a.stream = t then a.p :: projA s t l else projA s t l := by
  unfold projA
  by_cases h : a.sess = s ∧ a.stream = t
  · simp [List.filter_cons, h]
  · rw [if_neg h]
    have : (decide (a.sess = s) && a.stream == t) = false := by
      by_cases h1 : a.sess = s
      · have : a.stream ≠ t := fun h2 => h ⟨h1, h2⟩
        simp [h1, this]
      · simp [h1]
    simp [List.filter_cons, this]

theorem appendOne_spec (prov : α → Prov σ) (m : MonS σ α) (a : Append σ α) :
    (appendOne prov m a).1.exs = m.exs ∧ (appendOne prov m a).1.store = m.store ∧ (appendOne prov m a).2.v08 = none ∧
    ∀ s t, (appendOne prov m a).1.logs s t = if a.sess = s ∧ a.stream = t then m.logs s t ++ [a.p] else m.logs s t := by
  have hadd : ∀ (p : Option α) s t, (m.addLog a.sess a.stream p).logs s t =
      if a.sess = s ∧ a.stream = t then m.logs s t ++ [p] else m.logs s t := by
    intro p s t
    simp only [MonS.addLog]
    by_cases h : s = a.sess ∧ t = a.stream
    · obtain ⟨rfl, rfl⟩ := h; simp
    · have h' : ¬ (a.sess = s ∧ a.stream = t) := fun ⟨x, y⟩ => h ⟨x.symm, y.symm⟩
      simp [h, h']
  unfold appendOne
  split
  · rename_i hp
    exact ⟨rfl, rfl, rfl, fun s t => by rw [hadd, hp]⟩
  · rename_i p hp
    split
    · exact ⟨by simp, by simp, rfl, fun s t => by rw [routeBind_logs, hadd, hp]⟩
    · exact ⟨rfl, rfl, rfl, fun s t => by rw [hadd, hp]⟩

theorem appends_spec (prov : α → Prov σ) : ∀ (l : List (Append σ α)) (m : MonS σ α),
    (foldV (appendOne prov) m l).1.exs = m.exs ∧ (foldV (appendOne prov) m l).1.store = m.store ∧
    (foldV (appendOne prov) m l).2.v08 = none ∧
    ∀ s t, (foldV (appendOne prov) m l).1.logs s t = m.logs s t ++ projA s t l := by
  intro l
  induction l with
  | nil => intro m; exact ⟨rfl, rfl, rfl, fun s t => by simp [foldV, projA]⟩
  | cons a t ih =>
    intro m
    obtain ⟨a1, a2, a3, a4⟩ := appendOne_spec prov m a
    obtain ⟨b1, b2, b3, b4⟩ := ih (appendOne prov m a).1
    simp only [foldV]
    refine ⟨b1.trans a1, b2.trans a2, by simp [Viol.or, a3, b3], ?_⟩
    intro s t'
    rw [b4, a4, projA_cons]
    split <;> simp

theorem logRel_appends {sn : σ} {c c' : Conn α} (hw' : Inv c') (hg : Grow c c') (prov : α → Prov σ) {m : MonS σ α}
    (hlog : LogRel sn m c) : LogRel sn (foldV (appendOne prov) m (appendsOf sn c c')).1 c' := by
  intro sid
  rw [(appends_spec prov (appendsOf sn c c') m).2.2.2 sn sid, hlog sid, projA_appendsOf, newLog_spec hg sid]
  split
  · simp
  · rename_i hlt
    have : c'.store sid = none := by
      cases h : c'.store sid with
      | none => rfl
      | some l => exact absurd (hw'.store_lt sid (by rw [h]; rfl)) hlt
    have hnl : newLog c c' sid = [] := by simp [newLog, this]
    simp [hnl]

/-! ### quiescent-state checks -/

theorem evRel_weaken {sn : σ} {m : MonS σ α} {c : Conn α} {done : Nat → List (Bool × Out α)} (h : EvRel G sn m c done) :
    EvRel (fun _ => True) sn m c done := by
  intro j e he
  obtain ⟨me, hme, r⟩ := h j e he
  exact ⟨me, hme, ⟨r.sess, r.np, r.nsent, r.nrecv, r.failing, r.sse, r.frm, r.stream, fun _ => trivial⟩⟩

theorem checkResume_ok {sn : σ} {og : Origin} {c c' : Conn α} (hf : RecFacts og c c') {m : MonS σ α}
    (hrel : EvRel (fun j => j < c.exs.length ∨ og.isGet = true) sn m c' (taggedAt c')) (hlog : LogRel sn m c')
    (x : Nat × Bool) (hx : x ∈ openedOf c c') : checkResume m x = none := by
  unfold openedOf at hx
  simp only [List.mem_map, List.mem_range'_1] at hx
  obtain ⟨j, ⟨hj1, hj2⟩, rfl⟩ := hx
  have hjn : j = c.exs.length := by have := hf.new1; omega
  subst hjn
  have hlt : c.exs.length < c'.exs.length := by omega
  obtain ⟨me, hme, r⟩ := hrel c.exs.length c'.exs[c.exs.length] (List.getElem?_eq_getElem hlt)
  unfold checkResume
  simp only [hme]
  by_cases hc : (me.isGet && me.sse && !me.failing) = true
  · rw [if_pos hc]
    simp only [Bool.and_eq_true, Bool.not_eq_true'] at hc
    obtain ⟨⟨hg, hs⟩, hfl⟩ := hc
    have hog : og.isGet = true := by
      rcases r.get hg with h | h
      · omega
      · exact h
    have hkind := r.sse.mp hs
    have hlive : (c'.exs[c.exs.length]).live := Or.inl hkind
    have hlost : idCount (c'.exs[c.exs.length]).lost = 0 := by
      have := r.failing
      rw [hfl, taggedAt_some (List.getElem?_eq_getElem hlt), cLost_tagged] at this
      simp at this
      exact this
    cases hst : me.stream with
    | none => rfl
    | some t =>
      have ht := r.stream hlive t hst
      subst ht
      simp only
      rw [r.sess, hlog, List.length_map, r.frm hlive, r.nrecv, taggedAt_some (List.getElem?_eq_getElem hlt), cRecv_tagged]
      rw [if_neg]
      intro ⟨h1, h2⟩
      exact h2 (hf.resume hog _ (List.getElem?_eq_getElem hlt) hkind hlost h1)
  · rw [if_neg hc]

theorem checkRow_ok {sn : σ} {c : Conn α} (hw : Inv c) (h8 : Inv08 c) (hk : InvK c) {m : MonS σ α}
    (hrel : EvRel G sn m c (taggedAt c)) (hlog : LogRel sn m c) (s : Stream α) (hs : s ∈ c.streams) :
    checkRow m sn (rowOf s) = none := by
  unfold checkRow
  split
  · rfl
  · rename_i k hat0
    have hat : s.attached = some k := hat0
    split
    · rename_i hc0
      have hc : (s.opn && s.json.isNone) = true := hc0
      simp only [Bool.and_eq_true, Option.isNone_iff_eq_none] at hc
      obtain ⟨e, he, hes⟩ := hw.att s hs k hat
      obtain ⟨ha1, ha2⟩ := h8.aligned s hs k e hat hc.1 hc.2 he
      have hlen : (m.logs sn s.id).length = s.next := by rw [hlog, List.length_map]; exact ha2
      split
      · rename_i hne
        exact absurd hlen.symm hne
      · obtain ⟨me, hme, r⟩ := hrel k e he
        have hlive := invK_live hk hs hat he
        split
        · rename_i me' hme'
          rw [hme] at hme'; cases hme'
          split
          · rename_i hbad
            exfalso
            simp only [Bool.and_eq_true, Bool.not_eq_true', decide_eq_true_eq] at hbad
            obtain ⟨⟨hfl, _⟩, hne⟩ := hbad
            have hlost : idCount e.lost = 0 := by
              have := r.failing
              rw [hfl, taggedAt_some he, cLost_tagged] at this
              simp at this
              exact this
            apply hne
            show me.from + me.nrecv = (m.logs sn s.id).length
            rw [hlen, r.frm hlive, r.nrecv, taggedAt_some he, cRecv_tagged, ha1]
            unfold Exch.all
            rw [idCount_append, hlost]
            simp
          · rfl
        · rfl
    · rfl

/-! ### one record -/

theorem quiesce_ok {sn : σ} {og : Origin} {c c' : Conn α} (hw' : Inv c') (h8' : Inv08 c') (hk' : InvK c')
    (hf : RecFacts og c c') {m : MonS σ α}
    (hrel : EvRel (fun j => j < c.exs.length ∨ og.isGet = true) sn m c' (taggedAt c')) (hlog : LogRel sn m c') :
    quiesce m (obsOf sn og c c') = none := by
  unfold quiesce
  split
  · have hA : (obsOf sn og c c').opened.findSome? (checkResume m) = none := by
      rw [List.findSome?_eq_none_iff]
      intro x hx
      exact checkResume_ok hf hrel hlog x hx
    have hB : (obsOf sn og c c').snaps.findSome? (checkSnap m) = none := by
      rw [List.findSome?_eq_none_iff]
      intro x hx
      simp only [obsOf, List.mem_singleton] at hx
      subst hx
      simp only [checkSnap, Bool.false_eq_true, if_false]
      rw [List.findSome?_eq_none_iff]
      intro row hrow
      simp only [List.mem_map] at hrow
      obtain ⟨s, hs, rfl⟩ := hrow
      exact checkRow_ok hw' h8' hk' hrel hlog s hs
    rw [hA, hB]; rfl
  · rfl

/-! ### evictions -/

@[simp] theorem bindPost_firstF (m : MonS σ α) (s : σ) (t k : Nat) : (m.bindPost s t k).first = m.first := by
  unfold MonS.bindPost; split <;> rfl
@[simp] theorem routeBind_firstF (m : MonS σ α) (pv : Prov σ) (s : σ) (st k : Option Nat) : (routeBind m pv s st k).first = m.first := by
  cases st <;> cases pv <;> simp only [routeBind] <;> split <;> simp

theorem foldl_firstF {A : Type} (f : MonS σ α → A → MonS σ α) (hf : ∀ m a, (f m a).first = m.first) :
    ∀ (l : List A) (m : MonS σ α), (l.foldl f m).first = m.first := by
  intro l
  induction l with
  | nil => intro m; rfl
  | cons a t ih => intro m; simp only [List.foldl_cons]; rw [ih, hf]

theorem foldV_firstF {A : Type} (f : MonS σ α → A → MonS σ α × Viol) (hf : ∀ m a, (f m a).1.first = m.first) :
    ∀ (l : List A) (m : MonS σ α), (foldV f m l).1.first = m.first := by
  intro l
  induction l with
  | nil => intro m; rfl
  | cons a t ih => intro m; simp only [foldV]; rw [ih, hf]

theorem openAll_first (m : MonS σ α) (o : Obs σ α) : (openAll m o).first = m.first :=
  foldl_firstF (fun (m : MonS σ α) (x : Nat × Bool) => m.putEx x.1 (mkEx o x.2)) (fun _ _ => rfl) _ _

theorem learnRows_first (m : MonS σ α) (o : Obs σ α) : (learnRows m o).first = m.first := by
  unfold learnRows
  refine foldl_firstF (fun (m : MonS σ α) (s : Snap σ) => s.rows.foldl (learnRow o s.sess) m) ?_ _ _
  intro m s
  refine foldl_firstF _ ?_ _ _
  intro m r
  unfold learnRow
  split
  · rfl
  · split
    · rfl
    · split <;> simp [MonS.putEx]

theorem learnIds_first (m : MonS σ α) (o : Obs σ α) : (learnIds m o).first = m.first := by
  unfold learnIds
  refine foldl_firstF _ ?_ _ _
  intro m s
  unfold learnId
  split
  · split <;> simp [MonS.putEx]
  · rfl

theorem appends_first (prov : α → Prov σ) (m : MonS σ α) (l : List (Append σ α)) : (foldV (appendOne prov) m l).1.first = m.first := by
  refine foldV_firstF _ ?_ _ _
  intro m a
  unfold appendOne
  split
  · rfl
  · split
    · simp [MonS.addLog]
    · rfl

theorem ev08_first (m : MonS σ α) (k : Nat) (e : MEx σ) (lost : Bool) (id : EvId) (pay : Option α) :
    (ev08 m k e lost id pay).1.first = m.first := by
  unfold ev08
  split
  · rfl
  · split <;> rfl

theorem events_first (prov : α → Prov σ) (m : MonS σ α) (l : List (Sent α)) : (foldV (evStep prov) m l).1.first = m.first := by
  refine foldV_firstF _ ?_ _ _
  intro m s
  unfold evStep
  split
  · rfl
  · split
    · rfl
    · rfl
    · rfl
    · exact foldV_firstF _ (fun m a => by simp [jsonOne]) _ _
    · exact ev08_first _ _ _ _ _ _
    · rw [ev08_first, routeBind_firstF]


theorem applyPurges_frame (l : List (σ × Nat × Nat)) (m : MonS σ α) :
    (applyPurges m l).exs = m.exs ∧ (applyPurges m l).logs = m.logs ∧ (applyPurges m l).store = m.store ∧
    (applyPurges m l).posts = m.posts ∧ (applyPurges m l).jsonMode = m.jsonMode := by
  induction l generalizing m with
  | nil => exact ⟨rfl, rfl, rfl, rfl, rfl⟩
  | cons x t ih =>
    simp only [applyPurges, List.foldl_cons]
    obtain ⟨a, b, c, d, e⟩ := ih { m with first := fun s t => if s = x.1 ∧ t = x.2.1 then max (m.first s t) x.2.2 else m.first s t }
    exact ⟨a, b, c, d, e⟩

theorem applyPurges_first (s : σ) (t : Nat) : ∀ (l : List (σ × Nat × Nat)) (m : MonS σ α),
    (applyPurges m l).first s t =
      ((l.filter (fun x => decide (x.1 = s) && x.2.1 == t)).map (·.2.2)).foldl max (m.first s t) := by
  intro l
  induction l with
  | nil => intro m; rfl
  | cons x rest ih =>
    intro m
    simp only [applyPurges, List.foldl_cons]
    have := ih { m with first := fun s' t' => if s' = x.1 ∧ t' = x.2.1 then max (m.first s' t') x.2.2 else m.first s' t' }
    simp only [applyPurges] at this
    rw [this]
    by_cases hx : x.1 = s ∧ x.2.1 = t
    · obtain ⟨rfl, rfl⟩ := hx
      simp [List.filter_cons]
    · have hf : (decide (x.1 = s) && x.2.1 == t) = false := by
        by_cases h1 : x.1 = s
        · have : x.2.1 ≠ t := fun h2 => hx ⟨h1, h2⟩
          simp [h1, this]
        · simp [h1]
      have hx' : ¬ (s = x.1 ∧ t = x.2.1) := fun ⟨a, b⟩ => hx ⟨a.symm, b.symm⟩
      simp [List.filter_cons, hf, hx']

theorem first_purgesOf {sn : σ} {c c' : Conn α} (hw' : Inv c') (hp' : InvP c') (hpm : ∀ sid, c.purged sid ≤ c'.purged sid)
    {m : MonS σ α} (hm : ∀ sid, m.first sn sid = c.purged sid) (sid : Nat) :
    (applyPurges m (purgesOf sn c c')).first sn sid = c'.purged sid := by
  rw [applyPurges_first]
  have hfil : (purgesOf sn c c').filter (fun x => decide (x.1 = sn) && x.2.1 == sid) =
      (purgesOf sn c c').filter (fun x => x.2.1 == sid) := by
    apply List.filter_congr
    intro x hx
    unfold purgesOf at hx
    simp only [List.mem_flatMap, List.mem_range] at hx
    obtain ⟨k, _, hk⟩ := hx
    split at hk
    · cases hk
    · simp at hk; subst hk; simp
  rw [hfil]
  unfold purgesOf
  rw [filter_flatMap_range (fun k => if c'.purged k = c.purged k then [] else [(sn, k, c'.purged k)]) (fun x => x.2.1)
    (by intro i x hx; split at hx; · cases hx
        · simp at hx; subst hx; rfl) sid]
  rw [hm]
  split
  · split
    · rename_i heq; simp [heq]
    · simp; have := hpm sid; omega
  · rename_i hlt
    have hnone : c'.store sid = none := by
      cases h : c'.store sid with
      | none => rfl
      | some l => exact absurd (hw'.store_lt sid (by rw [h]; rfl)) hlt
    have h0 : c'.purged sid = 0 := by have := hp' sid; rw [hnone] at this; simpa using this
    have := hpm sid
    simp; omega

theorem step_obsOf (prov : α → Prov σ) (m : MonS σ α) (sn : σ) (og : Origin) (c c' : Conn α) :
    Mon.step prov m (obsOf sn og c c') =
      (applyPurges (foldV (evStep prov) (foldV (appendOne prov)
          (learnIds (learnRows (openAll m (obsOf sn og c c')) (obsOf sn og c c')) (obsOf sn og c c')) (appendsOf sn c c')).1
          ((sentM c c').map toSent)).1 (purgesOf sn c c'),
       (({ v08 := if m.store then (openedOf c c').findSome? (checkPurged m (obsOf sn og c c')) else none } : Viol).or
        ((foldV (appendOne prov)
          (learnIds (learnRows (openAll m (obsOf sn og c c')) (obsOf sn og c c')) (obsOf sn og c c')) (appendsOf sn c c')).2.or
        (foldV (evStep prov) (foldV (appendOne prov)
          (learnIds (learnRows (openAll m (obsOf sn og c c')) (obsOf sn og c c')) (obsOf sn og c c')) (appendsOf sn c c')).1
          ((sentM c c').map toSent)).2)).or
        { v08 := quiesce (foldV (evStep prov) (foldV (appendOne prov)
          (learnIds (learnRows (openAll m (obsOf sn og c c')) (obsOf sn og c c')) (obsOf sn og c c')) (appendsOf sn c c')).1
          ((sentM c c').map toSent)).1 (obsOf sn og c c') }) := rfl

theorem checkPurged_ok {sn : σ} {og : Origin} {c c' : Conn α} (hf : RecFacts og c c') {m : MonS σ α}
    (hm : ∀ sid, m.first sn sid = c.purged sid) :
    (openedOf c c').findSome? (checkPurged m (obsOf sn og c c')) = none := by
  rw [List.findSome?_eq_none_iff]
  intro x hx
  unfold openedOf at hx
  simp only [List.mem_map, List.mem_range'_1] at hx
  obtain ⟨j, ⟨hj1, hj2⟩, rfl⟩ := hx
  have hjn : j = c.exs.length := by have := hf.new1; omega
  subst hjn
  have hlt : c.exs.length < c'.exs.length := by omega
  unfold checkPurged
  have ho : (obsOf sn og c c').origin = og := rfl
  have hs : (obsOf sn og c c').sess = sn := rfl
  simp only [ho, hs]
  split
  · rename_i hc
    simp only [Bool.and_eq_true] at hc
    split
    · rename_i t ht
      rw [hm t]
      rw [if_neg]
      have hk : (c'.exs[c.exs.length]).kind = .sse := by
        have := hc.1
        rw [List.getElem?_eq_getElem hlt] at this
        simp only [Option.map_some, Option.getD_some, isSSE] at this
        cases hkk : (c'.exs[c.exs.length]).kind <;> simp [hkk] at this ⊢
      exact hf.purgedErr hc.2 _ (List.getElem?_eq_getElem hlt) hk t ht
    · rfl
  · rfl

theorem record_ok08 (prov : α → Prov σ) {sn : σ} {og : Origin} {c c' : Conn α} (hst : c.cfg.hasStore = true)
    (hw' : Inv c') (h8' : Inv08 c') (hk' : InvK c') (hp' : InvP c') (hpm : ∀ sid, c.purged sid ≤ c'.purged sid)
    (hg : Grow c c') (hf : RecFacts og c c') {m : MonS σ α}
    (hm : MonRel08 sn m c) :
    (Mon.step prov m (obsOf sn og c c')).2.v08 = none ∧ MonRel08 sn (Mon.step prov m (obsOf sn og c c')).1 c' := by
  have h1 := evRel_open (sn := sn) hg hf hm.exs
  obtain ⟨_, o2, o3⟩ := openAll_spec sn og c c' hg m
  obtain ⟨h2, l2, s2⟩ := learnRows_ok (og := og) (c0 := c) hw' h1
  obtain ⟨h3, l3, s3⟩ := learnIds_ok (og := og) (c0 := c) h8' h2
  have hlog1 : LogRel sn (learnIds (learnRows (openAll m (obsOf sn og c c')) (obsOf sn og c c')) (obsOf sn og c c')) c := by
    intro sid; rw [l3, l2, o2]; exact hm.logs sid
  have hst1 : (learnIds (learnRows (openAll m (obsOf sn og c c')) (obsOf sn og c c')) (obsOf sn og c c')).store = true := by
    rw [s3, s2, o3, hm.store]; exact hst
  obtain ⟨a1, a2, a3, _⟩ := appends_spec prov (appendsOf sn c c')
    (learnIds (learnRows (openAll m (obsOf sn og c c')) (obsOf sn og c c')) (obsOf sn og c c'))
  have hlog2 := logRel_appends hw' hg prov hlog1
  have h4 : EvRel (fun j => j < c.exs.length ∨ og.isGet = true) sn
      (foldV (appendOne prov) (learnIds (learnRows (openAll m (obsOf sn og c c')) (obsOf sn og c c')) (obsOf sn og c c'))
        (appendsOf sn c c')).1 c' (taggedAt c) := by
    intro j e he; rw [a1]; exact h3 j e he
  obtain ⟨e1, e2, e3, e4⟩ := events_ok08 prov hk' h8' sn (sentM c c') _ (taggedAt c) (a2.trans hst1) h4 hlog2
    (fun j => by rw [proj_sentM]; exact newEvents_spec hg j)
  have hdone : (fun j => taggedAt c j ++ proj j (sentM c c')) = taggedAt c' := by
    funext j; rw [proj_sentM]; exact (newEvents_spec hg j).symm
  rw [hdone] at e2
  have hlog3 : LogRel sn (foldV (evStep prov) (foldV (appendOne prov)
      (learnIds (learnRows (openAll m (obsOf sn og c c')) (obsOf sn og c c')) (obsOf sn og c c')) (appendsOf sn c c')).1
      ((sentM c c').map toSent)).1 c' := by
    intro sid; rw [e3]; exact hlog2 sid
  have hq := quiesce_ok hw' h8' hk' hf e2 hlog3
  rw [step_obsOf]
  obtain ⟨f1, f2, f3, _, _⟩ := applyPurges_frame (purgesOf sn c c') (foldV (evStep prov) (foldV (appendOne prov)
      (learnIds (learnRows (openAll m (obsOf sn og c c')) (obsOf sn og c c')) (obsOf sn og c c')) (appendsOf sn c c')).1
      ((sentM c c').map toSent)).1
  have hfirst3 : ∀ sid, (foldV (evStep prov) (foldV (appendOne prov)
      (learnIds (learnRows (openAll m (obsOf sn og c c')) (obsOf sn og c c')) (obsOf sn og c c')) (appendsOf sn c c')).1
      ((sentM c c').map toSent)).1.first sn sid = c.purged sid := by
    intro sid
    rw [events_first, appends_first, learnIds_first, learnRows_first, openAll_first]
    exact hm.first sid
  refine ⟨?_, ⟨?_, ?_, ?_, ?_⟩⟩
  · simp only [Viol.or, a3, e1, hq, checkPurged_ok hf hm.first]; simp
  · rw [f3, e4, a2, hst1, hg.cfg, hst]
  · exact first_purgesOf hw' hp' hpm hfirst3
  · intro sid; rw [f2]; exact hlog3 sid
  · intro j e he
    obtain ⟨me, hme, r⟩ := evRel_weaken e2 j e he
    exact ⟨me, by rw [f1]; exact hme, r⟩

end Resume
