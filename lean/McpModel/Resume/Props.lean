import McpModel.Resume.Ans
/-!
# C08 and C10 — property theorems for the streamable server connection (model: `Resume.step`)

Every theorem quantifies over *all* label lists `ls : List (Label α)` (any number of streams, writes,
cuts, writer failures, resumes, closes, in any order), all payload types `α`, all configurations.
* C08 theorems assume an event store (`cfg.hasStore`) and the scope of the property (`InScopeRun`:
  protocol versions before 2026-07-28, and `Last-Event-ID`s that were issued before — i.e. whose index
  exists in the stream's log).
* C10 theorems hold for every label list whatsoever.
The abstract event store is the per-stream append log (`Conn.store`); C20 proves that the in-memory store
replays exactly that log or reports the purge.
-/
namespace Resume
variable {α : Type}

/-! ## vocabulary -/

/-- the id-carrying events (prime / message) among the writes of an exchange -/
def events (l : List (Out α)) : List (Out α) := l.filter Out.isEv

/-- the SSE event id of a write -/
def Out.evId : Out α → Option (Nat × Nat)
  | .prime sid i => some (sid, i)
  | .message id _ => id
  | _ => none

/-- the log of stream `sid` (empty if the store never saw it) -/
def Conn.log (c : Conn α) (sid : Nat) : List (Option (Item α)) := (c.store sid).getD []

theorem segFrom_events {log : List (Option (Item α))} {sid i : Nat} {l : List (Out α)} (h : SegFrom log sid i l) :
    ∀ (k : Nat) (o : Out α), (events l)[k]? = some o → ∃ x, log[i + k]? = some x ∧ o = evOf sid (i + k) x := by
  induction l generalizing i with
  | nil => intro k o hk; simp [events] at hk
  | cons a t ih =>
    intro k o hk
    by_cases ha : a.isEv = true
    · simp only [SegFrom, ha, if_true] at h
      simp only [events, List.filter_cons, ha, if_true] at hk
      cases k with
      | zero =>
        simp at hk; subst hk
        simpa using h.1
      | succ k =>
        simp only [List.getElem?_cons_succ] at hk
        obtain ⟨x, hx, ho⟩ := ih h.2 k o hk
        exact ⟨x, by rw [← hx]; congr 1; omega, by rw [ho]; congr 1; omega⟩
    · simp only [SegFrom, ha] at h
      simp only [events, List.filter_cons, ha] at hk
      exact ih h k o hk

theorem events_length (l : List (Out α)) : (events l).length = idCount l := by
  induction l with
  | nil => rfl
  | cons a t ih =>
    by_cases ha : a.isEv = true
    · simp only [events, List.filter_cons, ha, if_true, List.length_cons, idCount]
      simp only [events] at ih
      omega
    · simp only [events, List.filter_cons, ha, idCount]
      simp only [events] at ih
      simpa using ih

theorem segFrom_mem {log : List (Option (Item α))} {sid i : Nat} {l : List (Out α)} (h : SegFrom log sid i l)
    {o : Out α} (ho : o ∈ l) (hev : o.isEv = true) : ∃ k x, i ≤ k ∧ log[k]? = some x ∧ o = evOf sid k x := by
  have : o ∈ events l := by simp [events, ho, hev]
  obtain ⟨k, hk⟩ := List.getElem?_of_mem this
  obtain ⟨x, hx, he⟩ := segFrom_events h k o hk
  exact ⟨i + k, x, by omega, hx, he⟩

/-- a complete segment contains the event of every position it covers -/
theorem segFrom_covers {log : List (Option (Item α))} {sid i : Nat} {l : List (Out α)} (h : SegFrom log sid i l)
    {k : Nat} (hk1 : i ≤ k) (hk2 : k < i + idCount l) : ∃ x, log[k]? = some x ∧ evOf sid k x ∈ l := by
  have hlt : k - i < (events l).length := by rw [events_length]; omega
  obtain ⟨x, hx, he⟩ := segFrom_events h (k - i) _ (List.getElem?_eq_getElem hlt)
  have hki : i + (k - i) = k := by omega
  rw [hki] at hx he
  refine ⟨x, hx, ?_⟩
  rw [← he]
  have : (events l)[k - i] ∈ events l := List.getElem_mem hlt
  simp only [events, List.mem_filter] at this
  exact this.1

/-! ## C08 -/

/-- **C08 (exactly-once, in order, ids = positions).**  For every HTTP exchange ever opened — the
original POST (resume point −1, `from = 0`) or a GET resuming after `Last-Event-ID` index `r`
(`from = r + 1`) — the `k`-th id-carrying event it was *delivered* is exactly entry `from + k` of the
logical stream's append log, carrying event id `(stream, from + k)`: no gap, no repeat, no reordering,
whether the event came from live delivery or from replay.  The same holds for everything the server
*wrote* to the exchange, delivered or not (`e.all`). -/
theorem exchange_output_is_log_segment (cfg : Cfg) (hst : cfg.hasStore = true) (ls : List (Label α))
    (hsc : InScopeRun (init cfg) ls) (j : Nat) (e : Exch α) (he : (run (init cfg) ls).exs[j]? = some e) :
    (∀ (k : Nat) (o : Out α), (events e.out)[k]? = some o →
        ∃ x, ((run (init cfg) ls).log e.stream)[e.from + k]? = some x ∧ o = evOf e.stream (e.from + k) x) ∧
    (∀ (k : Nat) (o : Out α), (events e.all)[k]? = some o →
        ∃ x, ((run (init cfg) ls).log e.stream)[e.from + k]? = some x ∧ o = evOf e.stream (e.from + k) x) := by
  have hseg := (inv08_run cfg hst ls hsc).seg j e he
  refine ⟨segFrom_events ?_, segFrom_events hseg⟩
  unfold Exch.all at hseg
  exact ((segFrom_append _ _ _ _ _).mp hseg).1

/-- **C08 (`lastIdx` alignment).**  Whenever an SSE stream is attached to an open exchange, its
`lastIdx` (`next − 1`) is the index of the last event in the store, and equals the exchange's resume
index plus the number of events written to it. -/
theorem attached_lastIdx_aligned (cfg : Cfg) (hst : cfg.hasStore = true) (ls : List (Label α))
    (hsc : InScopeRun (init cfg) ls) (s : Stream α) (hs : s ∈ (run (init cfg) ls).streams) (ex : Nat) (e : Exch α)
    (hat : s.attached = some ex) (hop : s.opn = true) (hj : s.json = none) (he : (run (init cfg) ls).exs[ex]? = some e) :
    s.next = ((run (init cfg) ls).log s.id).length ∧ s.next = e.from + (events e.all).length ∧ e.stream = s.id := by
  obtain ⟨h1, h2⟩ := (inv08_run cfg hst ls hsc).aligned s hs ex e hat hop hj he
  obtain ⟨e', he', hes⟩ := (inv_run cfg ls).att s hs ex hat
  rw [he] at he'; cases he'
  exact ⟨h2.symm, by rw [events_length]; exact h1, hes⟩

/-- **C08 (nothing lost on a healthy connection).**  An attached, open SSE exchange whose writer never
failed has been delivered *everything* in the log from its resume point on. -/
theorem attached_exchange_complete (cfg : Cfg) (hst : cfg.hasStore = true) (ls : List (Label α))
    (hsc : InScopeRun (init cfg) ls) (s : Stream α) (hs : s ∈ (run (init cfg) ls).streams) (ex : Nat) (e : Exch α)
    (hat : s.attached = some ex) (hop : s.opn = true) (hj : s.json = none) (he : (run (init cfg) ls).exs[ex]? = some e)
    (hl : e.lost = []) : e.from + (events e.out).length = ((run (init cfg) ls).log e.stream).length := by
  obtain ⟨h1, h2, h3⟩ := attached_lastIdx_aligned cfg hst ls hsc s hs ex e hat hop hj he
  have : e.all = e.out := by simp [Exch.all, hl]
  rw [this] at h2
  rw [h3, ← h1, h2]

/-- a write that reaches a stream is appended to that stream's log whether or not anybody is attached -/
theorem write_is_stored (c : Conn α) (s : Stream α) (msg : Msg α) (ctx : Option Nat) (hst : c.cfg.hasStore = true) :
    (writeTo c s msg ctx false).1.log s.id = c.log s.id ++ [some ⟨msg, ctx⟩] := by
  simp [Conn.log, writeTo, wUse, hst]

/-! ### resume -/

theorem push_healthy (e : Exch α) (o : Out α) (hb : e.budget = none) (hl : e.lost = []) :
    (e.push o).2 = true ∧ (e.push o).1.budget = none ∧ (e.push o).1.lost = [] := by
  unfold Exch.push; rw [hb]; simp [hl]

theorem replayLoop_healthy (sid ex : Nat) : ∀ (items : List (Item α)) (c : Conn α) (k : Nat) (e : Exch α),
    c.exs[ex]? = some e → e.budget = none → e.lost = [] →
    (replayLoop c ex sid k items).2 = true ∧
      ∃ e', (replayLoop c ex sid k items).1.exs[ex]? = some e' ∧ e'.budget = none ∧ e'.lost = [] := by
  intro items
  induction items with
  | nil => intro c k e he hb hl; exact ⟨rfl, e, he, hb, hl⟩
  | cons it rest ih =>
    intro c k e he hb hl
    obtain ⟨p1, p2, p3⟩ := push_healthy e (.message (some (sid, k)) it) hb hl
    have he1 : (emit c ex (.message (some (sid, k)) it)).1.exs[ex]? = some (e.push (.message (some (sid, k)) it)).1 := by
      simp only [emit]; exact (emitX_eq _ _ _ _ he).1
    have h2 : (emit c ex (.message (some (sid, k)) it)).2 = true := by
      simp only [emit]; rw [(emitX_eq _ _ _ _ he).2]; exact p1
    unfold replayLoop
    rw [if_pos h2]
    exact ih _ (k + 1) _ he1 p2 p3

/-- **C08 (messages written while nobody was attached are replayed; nothing is lost or duplicated by a
resume).**  In any reachable state, for any stream with log `L` that no exchange currently claims, a GET
with a previously issued `Last-Event-ID = (sid, idx)` on a healthy connection opens an exchange that is
delivered exactly `L[idx+1 …]` — every entry after the resume point, each once, in order, with its log
position as id — no matter when those entries were written (live, while detached, or after the stream
completed and was deleted) — provided the store has not evicted the entry right after the resume point
(`purged sid ≤ idx + 1`; otherwise see `resume_after_purge_reports_not_silently_skips`). -/
theorem writes_while_detached_are_replayed (cfg : Cfg) (hst : cfg.hasStore = true) (ls : List (Label α))
    (hsc : InScopeRun (init cfg) ls) (sid idx : Nat) (ver : Ver) (log : List (Option (Item α)))
    (hlog : (run (init cfg) ls).store sid = some log) (hidx : idx < log.length)
    (hdone : (run (init cfg) ls).isDone = false)
    (hnp : (run (init cfg) ls).purged sid ≤ idx + 1)
    (hfree : (findStream sid (run (init cfg) ls).streams).bind (·.attached) = none) :
    ∃ e, (get (run (init cfg) ls) (.ok sid idx) ver none).exs[(run (init cfg) ls).exs.length]? = some e ∧
      e.stream = sid ∧ e.from = idx + 1 ∧ e.lost = [] ∧
      (events e.out).length = log.length - (idx + 1) ∧
      ∀ (k : Nat) (o : Out α), (events e.out)[k]? = some o →
        ∃ x, log[idx + 1 + k]? = some x ∧ o = evOf sid (idx + 1 + k) x := by
  generalize hc : run (init cfg) ls = c at *
  have hw : Inv c := by rw [← hc]; exact inv_run cfg ls
  have h8 : Inv08 c := by rw [← hc]; exact inv08_run cfg hst ls hsc
  have hcs : c.cfg.hasStore = true := by
    rw [← hc]
    have : ∀ (ls : List (Label α)) (c0 : Conn α), (run c0 ls).cfg = c0.cfg := by
      intro ls; induction ls with
      | nil => intro c0; rfl
      | cons l t ih => intro c0; simp only [run, List.foldl_cons] at ih ⊢; rw [ih, step_cfg]
    rw [this]; exact hst
  have hnn : ∀ i, idx + 1 ≤ i → log[i]? ≠ some none := by
    intro i hi hn
    have := (h8.shape sid log i hlog hn).1
    omega
  -- the GET goes through to the replay
  have hget : get c (.ok sid idx) ver none = getGo c sid (idx + 1) ver none (toReplay log (idx + 1)) := by
    unfold get
    rw [if_neg (by intro h; cases h)]
    simp only [Hdr.has, Hdr.sid, Hdr.from, hcs, Bool.not_true, Bool.and_false]
    rw [hfree]
    have hnp' : ¬ idx + 1 < c.purged sid := by omega
    simp [replayItems, hcs, hdone, hlog, hnp']
  rw [hget]
  obtain ⟨gs, gst, gn, _, _, _, _, glen, gold, _⟩ := getOpen_frame c sid (idx + 1) none
  obtain ⟨e0, ge0, ges, gef, gno, _⟩ := getOpen_new c sid (idx + 1) none
  have hw2 := getOpen_inv hw sid (idx + 1) none
  have hb0 : e0.budget = none ∧ e0.lost = [] := by
    have : (getOpen c sid (idx + 1) none).exs[c.exs.length]? = some e0 := ge0
    unfold getOpen at this
    split at this
    · simp only [emit] at this
      rw [(emitX_eq _ _ _ _ List.getElem?_concat_length).1] at this
      cases this
      exact ⟨(push_healthy _ _ rfl rfl).2.1, (push_healthy _ _ rfl rfl).2.2⟩
    · rw [List.getElem?_concat_length] at this; cases this; exact ⟨rfl, rfl⟩
  obtain ⟨hok, e1, he1, hb1, hl1⟩ := replayLoop_healthy sid c.exs.length (toReplay log (idx + 1)) (getOpen c sid (idx + 1) none)
    (idx + 1) e0 ge0 hb0.1 hb0.2
  obtain ⟨e', he', hes', hef', hseg', hcnt', _⟩ := replayLoop_seg log sid c.exs.length (toReplay log (idx + 1))
    (getOpen c sid (idx + 1) none) (idx + 1) e0 ge0 hw2.ex_ok (by rw [gef]; exact segFrom_noEv _ _ _ gno)
    (by simp [gef, idCount_noEv gno]) (fun i it hi => toReplay_get log (idx + 1) hnn i it hi)
  rw [he1] at he'; cases he'
  -- the final exchange: same writes, possibly marked ended
  have hfinal : ∀ (c' : Conn α), (∃ e2, c'.exs[c.exs.length]? = some e2 ∧ e2.out = e1.out ∧ e2.lost = e1.lost ∧ e2.stream = e1.stream ∧ e2.from = e1.from) →
      ∃ e, c'.exs[c.exs.length]? = some e ∧ e.stream = sid ∧ e.from = idx + 1 ∧ e.lost = [] ∧
        (events e.out).length = log.length - (idx + 1) ∧
        ∀ (k : Nat) (o : Out α), (events e.out)[k]? = some o → ∃ x, log[idx + 1 + k]? = some x ∧ o = evOf sid (idx + 1 + k) x := by
    rintro c' ⟨e2, h2, ho, hl, hs2, hf2⟩
    have hall : e1.all = e1.out := by simp [Exch.all, hl1]
    refine ⟨e2, h2, by rw [hs2, hes', ges], by rw [hf2, hef', gef], by rw [hl, hl1], ?_, ?_⟩
    · rw [ho, events_length, ← hall, hcnt' hok, idCount_noEv gno, toReplay_length log (idx + 1) hnn]; omega
    · rw [ho, ← hall]
      have := segFrom_events hseg'
      rw [gef] at this
      exact this
  have hfin : ∃ e2, (finish (replayLoop (getOpen c sid (idx + 1) none) c.exs.length sid (idx + 1) (toReplay log (idx + 1))).1 c.exs.length).exs[c.exs.length]? = some e2 ∧
      e2.out = e1.out ∧ e2.lost = e1.lost ∧ e2.stream = e1.stream ∧ e2.from = e1.from := by
    simp only [finish]
    rw [finishX_eq, he1]
    exact ⟨_, rfl, rfl, rfl, rfl, rfl⟩
  unfold getGo
  rw [if_pos hok]
  split
  · exact hfinal _ hfin
  · split
    · exact hfinal _ hfin
    · unfold attach
      split
      · apply hfinal
        simp only [cut, finish]
        rw [finishX_eq, he1]
        exact ⟨_, rfl, rfl, rfl, rfl, rfl⟩
      · exact hfinal _ ⟨e1, he1, rfl, rfl, rfl, rfl⟩

/-- **C08 (stable ids).**  Over all exchanges of a session — live deliveries and replays alike — an event
id denotes one event: two writes that carry the same id are the same event (same name, same payload). -/
theorem ids_stable (cfg : Cfg) (hst : cfg.hasStore = true) (ls : List (Label α)) (hsc : InScopeRun (init cfg) ls)
    (j₁ j₂ : Nat) (e₁ e₂ : Exch α) (h₁ : (run (init cfg) ls).exs[j₁]? = some e₁) (h₂ : (run (init cfg) ls).exs[j₂]? = some e₂)
    (o₁ o₂ : Out α) (ho₁ : o₁ ∈ e₁.all) (ho₂ : o₂ ∈ e₂.all) (id : Nat × Nat) (hid₁ : o₁.evId = some id) (hid₂ : o₂.evId = some id) :
    o₁ = o₂ := by
  have hev : ∀ (o : Out α), o.evId = some id → o.isEv = true := by
    intro o h; cases o <;> simp [Out.evId] at h <;> rfl
  obtain ⟨k₁, x₁, _, hx₁, he₁⟩ := segFrom_mem ((inv08_run cfg hst ls hsc).seg j₁ e₁ h₁) ho₁ (hev o₁ hid₁)
  obtain ⟨k₂, x₂, _, hx₂, he₂⟩ := segFrom_mem ((inv08_run cfg hst ls hsc).seg j₂ e₂ h₂) ho₂ (hev o₂ hid₂)
  have hid : ∀ (sid k : Nat) (x : Option (Item α)), (evOf sid k x).evId = some (sid, k) := by
    intro sid k x; cases x <;> rfl
  rw [he₁, hid] at hid₁
  rw [he₂, hid] at hid₂
  have heq : (e₁.stream, k₁) = (e₂.stream, k₂) := (Option.some.inj hid₁).trans (Option.some.inj hid₂).symm
  obtain ⟨hs, hk⟩ := Prod.mk.inj heq
  rw [← hs, ← hk] at hx₂
  rw [hx₁] at hx₂
  rw [he₁, he₂, ← hs, ← hk, Option.some.inj hx₂]

/-- **C08 (priming event).**  A `prime` event only ever appears as the very first event of a request
stream's original exchange: it carries id `(stream, 0)`, the store holds the matching empty payload at
index 0 of that stream, and the exchange's resume point is the beginning — so the first message gets
id 1 in both the stream and the store, and a resume after the priming id replays from index 1. -/
theorem priming_aligned (cfg : Cfg) (hst : cfg.hasStore = true) (ls : List (Label α)) (hsc : InScopeRun (init cfg) ls)
    (j : Nat) (e : Exch α) (he : (run (init cfg) ls).exs[j]? = some e) (sid i : Nat) (ho : Out.prime sid i ∈ e.all) :
    i = 0 ∧ sid = e.stream ∧ sid ≠ 0 ∧ e.from = 0 ∧ ((run (init cfg) ls).log sid)[0]? = some none := by
  have h8 := inv08_run cfg hst ls hsc
  obtain ⟨k, x, hk, hx, hev⟩ := segFrom_mem (h8.seg j e he) ho rfl
  cases x with
  | some it => simp [evOf] at hev
  | none =>
    simp only [evOf, Out.prime.injEq] at hev
    obtain ⟨rfl, rfl⟩ := hev
    cases hl : (run (init cfg) ls).store e.stream with
    | none => rw [hl] at hx; simp at hx
    | some log =>
      rw [hl] at hx
      simp only [Option.getD_some] at hx
      obtain ⟨h0, hne⟩ := h8.shape e.stream log i hl hx
      subst h0
      refine ⟨rfl, rfl, hne, by omega, ?_⟩
      simp [Conn.log, hl, hx]

/-- **C08 (the final response stays obtainable).**  For every request a stream was created for: as soon
as the request is no longer outstanding on a registered stream — in particular after the stream has
been deleted from `streams` because all its responses were written — the response is in the stream's
log, where it stays (logs only grow). -/
theorem final_response_retained (cfg : Cfg) (hst : cfg.hasStore = true) (ls : List (Label α)) (hsc : InScopeRun (init cfg) ls)
    (sid : Nat) (calls : List Nat) (li : Bool) (hh : (run (init cfg) ls).hist sid = some (calls, li)) (r : Nat) (hr : r ∈ calls)
    (hgone : ∀ s ∈ (run (init cfg) ls).streams, s.id = sid → r ∉ s.requests) :
    ∃ (k : Nat) (p : α) (ctx : Option Nat), ((run (init cfg) ls).log sid)[k]? = some (some ⟨.resp r p, ctx⟩) := by
  rcases answered_run cfg hst ls hsc sid calls li hh r hr with ⟨s, hs, hid, hm⟩ | ⟨log, p, ctx, hlog, hmem⟩
  · exact absurd hm (hgone s hs hid)
  · obtain ⟨k, hk⟩ := List.getElem?_of_mem hmem
    exact ⟨k, p, ctx, by simp [Conn.log, hlog, hk]⟩

/-- … and a resume from any earlier issued id that the store has not evicted delivers it: the end-to-end form of `final_response_retained`. -/
theorem final_response_replayed (cfg : Cfg) (hst : cfg.hasStore = true) (ls : List (Label α)) (hsc : InScopeRun (init cfg) ls)
    (sid : Nat) (calls : List Nat) (li : Bool) (hh : (run (init cfg) ls).hist sid = some (calls, li)) (r : Nat) (hr : r ∈ calls)
    (hgone : ∀ s ∈ (run (init cfg) ls).streams, s.id ≠ sid) (hdone : (run (init cfg) ls).isDone = false) :
    ∃ (k : Nat) (p : α) (ctx : Option Nat), ∀ (idx : Nat) (ver : Ver), idx < k → (run (init cfg) ls).purged sid ≤ idx + 1 →
      ∃ e, (get (run (init cfg) ls) (.ok sid idx) ver none).exs[(run (init cfg) ls).exs.length]? = some e ∧
        Out.message (some (sid, k)) ⟨.resp r p, ctx⟩ ∈ e.out := by
  obtain ⟨k, p, ctx, hk⟩ := final_response_retained cfg hst ls hsc sid calls li hh r hr
    (fun s hs hid => absurd hid (hgone s hs))
  refine ⟨k, p, ctx, ?_⟩
  intro idx ver hidx hnp
  cases hl : (run (init cfg) ls).store sid with
  | none => simp [Conn.log, hl] at hk
  | some log =>
    simp only [Conn.log, hl, Option.getD_some] at hk
    have hklt : k < log.length := by
      by_cases hh' : k < log.length
      · exact hh'
      · rw [List.getElem?_eq_none (by omega)] at hk; cases hk
    have hfree : (findStream sid (run (init cfg) ls).streams).bind (·.attached) = none := by
      cases hf : findStream sid (run (init cfg) ls).streams with
      | none => rfl
      | some s => exact absurd (findStream_some hf).2 (hgone s (findStream_some hf).1)
    obtain ⟨e, he, _, _, _, hlen, hpt⟩ := writes_while_detached_are_replayed cfg hst ls hsc sid idx ver log hl (by omega) hdone hnp hfree
    refine ⟨e, he, ?_⟩
    have hlt : k - (idx + 1) < (events e.out).length := by rw [hlen]; omega
    obtain ⟨x, hx, ho⟩ := hpt (k - (idx + 1)) _ (List.getElem?_eq_getElem hlt)
    have hki : idx + 1 + (k - (idx + 1)) = k := by omega
    rw [hki, hk] at hx; cases hx
    rw [hki] at ho
    have hmem : (events e.out)[k - (idx + 1)] ∈ events e.out := List.getElem_mem hlt
    rw [ho] at hmem
    simp only [events, List.mem_filter] at hmem
    exact hmem.1

/-! ## C10 -/

/-- **C10 (the routing specification holds for every message ever put on an exchange).**  On every label
list: whatever message appears on an HTTP exchange (live or replayed, delivered or written into a
failing writer, as SSE event or inside a JSON body) is `Routed` to the logical stream that exchange serves. -/
theorem every_message_routed (cfg : Cfg) (ls : List (Label α)) (j : Nat) (e : Exch α)
    (he : (run (init cfg) ls).exs[j]? = some e) (o : Out α) (ho : o ∈ e.all) (it : Item α) (hit : it ∈ o.items) :
    Routed (run (init cfg) ls) e.stream it :=
  (inv10_run cfg ls).routed_ex j e he o ho it hit

/-- **C10 (responses).**  A response appears only on an exchange of the stream that was created by the
POST carrying the request it answers (the original exchange of that POST, or an exchange resuming that stream). -/
theorem response_to_own_exchange (cfg : Cfg) (ls : List (Label α)) (j : Nat) (e : Exch α)
    (he : (run (init cfg) ls).exs[j]? = some e) (o : Out α) (ho : o ∈ e.all) (r : Nat) (p : α) (ctx : Option Nat)
    (hit : (⟨.resp r p, ctx⟩ : Item α) ∈ o.items) :
    ∃ calls li, (run (init cfg) ls).hist e.stream = some (calls, li) ∧ r ∈ calls := by
  obtain ⟨calls, li, hh, hm⟩ := every_message_routed cfg ls j e he o ho _ hit
  exact ⟨calls, li, hh, hm⟩

theorem run_cfg (cfg : Cfg) (ls : List (Label α)) : (run (init cfg : Conn α) ls).cfg = cfg := by
  have : ∀ (ls : List (Label α)) (c0 : Conn α), (run c0 ls).cfg = c0.cfg := by
    intro ls; induction ls with
    | nil => intro c0; rfl
    | cons l t ih => intro c0; simp only [run, List.foldl_cons] at ih ⊢; rw [ih, step_cfg]
  rw [this]; rfl

/-- **C10 (traffic issued while handling a request, SSE mode).**  A notification or server→client request
written with the context of request `r` appears only on an exchange of the stream created for `r`. -/
theorem in_request_traffic_on_request_stream (cfg : Cfg) (hj : cfg.jsonResponse = false) (ls : List (Label α)) (j : Nat)
    (e : Exch α) (he : (run (init cfg) ls).exs[j]? = some e) (o : Out α) (ho : o ∈ e.all) (it : Item α) (hit : it ∈ o.items)
    (hnr : ∀ r p, it.msg ≠ .resp r p) (r : Nat) (hctx : it.ctx = some r) :
    ∃ calls li, (run (init cfg) ls).hist e.stream = some (calls, li) ∧ r ∈ calls := by
  obtain ⟨calls, li, hh, hm⟩ := every_message_routed cfg ls j e he o ho it hit
  refine ⟨calls, li, hh, ?_⟩
  rw [run_cfg] at hm
  cases hmsg : it.msg with
  | resp r' p => exact absurd hmsg (hnr r' p)
  | notif p =>
    rw [hmsg] at hm
    rcases hm with ⟨_, r', hr', hmem⟩ | ⟨h1, _⟩
    · rw [hctx] at hr'; cases hr'; exact hmem
    · rcases h1 with h1 | h1
      · rw [hj] at h1; cases h1
      · rw [hctx] at h1; cases h1
  | call p =>
    rw [hmsg] at hm
    rcases hm with ⟨_, r', hr', hmem⟩ | ⟨h1, _⟩
    · rw [hctx] at hr'; cases hr'; exact hmem
    · rcases h1 with h1 | h1
      · rw [hj] at h1; cases h1
      · rw [hctx] at h1; cases h1

/-- **C10 (JSON mode / detached context).**  In JSON-response mode, or when written with a context that
belongs to no request, a notification or server→client request appears only on the standalone stream
(id 0) or on a `subscriptions/listen` stream of the same connection. -/
theorem in_request_traffic_on_standalone (cfg : Cfg) (ls : List (Label α)) (j : Nat)
    (e : Exch α) (he : (run (init cfg) ls).exs[j]? = some e) (o : Out α) (ho : o ∈ e.all) (it : Item α) (hit : it ∈ o.items)
    (hnr : ∀ r p, it.msg ≠ .resp r p) (hdet : cfg.jsonResponse = true ∨ it.ctx = none) :
    e.stream = 0 ∨ ∃ calls, (run (init cfg) ls).hist e.stream = some (calls, true) := by
  obtain ⟨calls, li, hh, hm⟩ := every_message_routed cfg ls j e he o ho it hit
  rw [run_cfg] at hm
  have key : (cfg.jsonResponse = false ∧ ∃ r, it.ctx = some r ∧ r ∈ calls) ∨
      ((cfg.jsonResponse = true ∨ it.ctx = none) ∧ (e.stream = 0 ∨ li = true)) →
      e.stream = 0 ∨ ∃ calls, (run (init cfg) ls).hist e.stream = some (calls, true) := by
    rintro (⟨hjf, r, hr, _⟩ | ⟨_, h0 | hli⟩)
    · rcases hdet with h | h
      · rw [hjf] at h; cases h
      · rw [hr] at h; cases h
    · exact Or.inl h0
    · subst hli; exact Or.inr ⟨calls, hh⟩
  cases hmsg : it.msg with
  | resp r' p => exact absurd hmsg (hnr r' p)
  | notif p => rw [hmsg] at hm; exact key hm
  | call p => rw [hmsg] at hm; exact key hm

/-- **C10 (after the response).**  Writing the response to `r` removes the routing entry of `r` … -/
theorem response_unregisters (c : Conn α) (r : Nat) (p : α) (ctx : Option Nat) (ctxNew : Bool) :
    (writeR c (.resp r p) ctx ctxNew).1.reqStreams r = none := by
  unfold writeR
  rw [if_neg (by simp [Msg.isCall])]
  split
  · simp [eraseResp]
  · split
    · simp [eraseResp]
    · simp [writeTo, eraseResp]

/-- … and from then on (until a new POST registers the same id again) traffic written with the context of
`r` is *rejected*: no exchange, no stream and no log changes — it is not misrouted to another stream. -/
theorem after_response_rejected_not_misrouted (c : Conn α) (hj : c.cfg.jsonResponse = false) (r : Nat)
    (hreg : c.reqStreams r = none) (msg : Msg α) (hnr : ∀ r' p, msg ≠ .resp r' p) (ctxNew : Bool) :
    writeR c msg (some r) ctxNew = (c, .rejected) := by
  unfold writeR
  split
  · rfl
  · have hroute : route c msg (some r) = none := by
      cases msg with
      | resp r' p => exact absurd rfl (hnr r' p)
      | notif p => simp [route, related, hj, hreg]
      | call p => simp [route, related, hj, hreg]
    rw [hroute]
    cases msg with
    | resp r' p => exact absurd rfl (hnr r' p)
    | notif p => rfl
    | call p => rfl

/-- **C10 (no message crosses sessions).**  A step of session `a` (an HTTP request addressed to it, or a write
by its server side) leaves the connection of every other session — its streams, exchanges and store —
untouched.  (In the code as in the model the only structure shared between sessions is the handler's
session table; that no byte of one session shows up on an exchange of another is checked on the
implementation by the C10 monitor.) -/
theorem no_cross_session (w : World α) (a b : Nat) (hab : a ≠ b) (l : Label α) :
    findConn b (wstep w (.on a l)).conns = findConn b w.conns := by
  simp only [wstep, wOn]
  split
  · rfl
  · rename_i c hc
    simp only
    generalize w.conns = l0
    induction l0 with
    | nil => rfl
    | cons x t ih =>
      obtain ⟨k, c0⟩ := x
      simp only [setConn]
      split
      · rename_i hk
        simp only [findConn]
        have : k ≠ b := by rw [hk]; exact hab
        simp [this]
      · simp only [findConn]
        split
        · rfl
        · exact ih

/-- a fan-out touches only its target sessions -/
theorem fanout_no_cross_session (w : World α) (a : Nat) (octx : Option Nat) (ts : List Nat) (p : α) (b : Nat) (hb : b ∉ ts) :
    findConn b (wstep w (.fanout a octx ts p)).conns = findConn b w.conns := by
  simp only [wstep]
  induction ts generalizing w with
  | nil => rfl
  | cons t rest ih =>
    simp only [List.foldl_cons]
    rw [ih (wOn w t (fanCopy p)) (fun h => hb (List.mem_cons_of_mem _ h))]
    exact no_cross_session w t b (fun h => hb (h ▸ List.mem_cons_self)) (fanCopy p)

/-- **C10 (no message crosses sessions), all world label lists**: steps of other sessions, connects of other sessions and
fan-outs that do not target `b` leave the connection of `b` untouched. -/
theorem no_cross_session_run (w : World α) (b : Nat) (ls : List (WLabel α))
    (hl : ∀ l ∈ ls, match l with | .on a _ => a ≠ b | .create a _ => a ≠ b | .fanout _ _ ts _ => b ∉ ts) :
    findConn b (wrun w ls).conns = findConn b w.conns := by
  induction ls generalizing w with
  | nil => rfl
  | cons l t ih =>
    simp only [wrun, List.foldl_cons]
    have h1 := hl l (List.mem_cons_self)
    have h2 := ih (wstep w l) (fun x hx => hl x (List.mem_cons_of_mem _ hx))
    simp only [wrun] at h2
    rw [h2]
    cases l with
    | on a lab => exact no_cross_session w a b h1 lab
    | fanout a octx ts p => exact fanout_no_cross_session w a octx ts p b h1
    | create a cfg =>
      simp only [wstep]
      split
      · rfl
      · simp only at h1
        generalize w.conns = l0
        induction l0 with
        | nil => simp [findConn, h1]
        | cons x t ih' => obtain ⟨k, c0⟩ := x; simp only [List.cons_append, findConn]; split <;> simp_all

/-- **C10 (duplicate in-flight ids are refused atomically).**  A POST one of whose call ids is still
registered is answered 400 and registers *nothing*: streams, `requestStreams`, exchanges of others and the
logs of all existing streams are unchanged (the only trace is the `EventStore.Open` of the stream id that
was drawn before the check). -/
theorem duplicate_inflight_id_refused_atomically (c : Conn α) (calls : List Nat) (listen : Bool) (ver : Ver)
    (budget : Option Nat) (r : Nat) (hr : r ∈ calls) (hreg : (c.reqStreams r).isSome) :
    (post c calls listen ver budget).streams = c.streams ∧
    (post c calls listen ver budget).reqStreams = c.reqStreams ∧
    (post c calls listen ver budget).hist = c.hist ∧
    (post c calls listen ver budget).exs = c.exs ++ [{ kind := .status 400, ended := true, stream := c.nextSid }] ∧
    (∀ sid, sid ≠ c.nextSid → (post c calls listen ver budget).store sid = c.store sid) ∧
    ∀ log, (post c calls listen ver budget).store c.nextSid = some log → log = (c.store c.nextSid).getD [] := by
  have hmem : ∀ (l : List Nat), r ∈ l → r ∈ dedup l := by
    intro l
    induction l with
    | nil => intro h; cases h
    | cons a t ih =>
      intro h
      simp only [dedup]
      split
      · rename_i hat
        rcases List.mem_cons.mp h with rfl | h'
        · exact ih hat
        · exact ih h'
      · rcases List.mem_cons.mp h with rfl | h'
        · exact List.mem_cons_self
        · exact List.mem_cons_of_mem _ (ih h')
  have hd := hmem calls hr
  unfold post
  rw [if_neg (by intro h; rw [h] at hd; cases hd)]
  rw [if_pos (by rw [List.any_eq_true]; exact ⟨r, hd, hreg⟩)]
  refine ⟨rfl, rfl, rfl, rfl, ?_, ?_⟩
  · intro sid hne
    simp only [postDup, statusEx]
    split
    · exact openLog_other _ _ _ hne
    · rfl
  · intro log hl
    simp only [postDup, statusEx] at hl
    split at hl
    · simpa using hl.symm
    · rw [hl]; rfl

/-- … and while the session is open, "still registered" is the same as "in flight": a request id is in
`requestStreams` exactly when it is outstanding on a registered stream — except in the window of a response that
has been routed (its entry removed) but not yet delivered (`RespPending`: the request is still outstanding on its
stream until the delivery section runs). -/
theorem registered_iff_inflight (cfg : Cfg) (ls : List (Label α)) (hopen : (run (init cfg) ls).isDone = false) (r : Nat)
    (hnp : ∀ sid, ¬ RespPending (run (init cfg) ls) r sid) :
    (∃ s ∈ (run (init cfg) ls).streams, r ∈ s.requests) ↔ ((run (init cfg : Conn α) ls).reqStreams r).isSome := by
  have h := invReg_run cfg ls
  constructor
  · rintro ⟨s, hs, hr⟩
    rcases h.live hopen s hs r hr with hl | hp
    · rw [hl]; rfl
    · exact absurd hp (hnp s.id)
  · intro hsome
    cases hc : (run (init cfg : Conn α) ls).reqStreams r with
    | none => rw [hc] at hsome; cases hsome
    | some sid =>
      obtain ⟨s, hs, _, hm⟩ := h.reg r sid hc
      exact ⟨s, hs, hm⟩

/-- **C02/C10 (an undeliverable response frees its id as well).**  Whatever becomes of the response — delivered, stored
only, or dropped as undeliverable (`rejected`: POST exchange gone and no event store; `broken`: session closed) — the
request's routing entry is gone after the write, so a later call may carry the id again. -/
theorem undeliverable_response_unregisters (c : Conn α) (r : Nat) (p : α) (ctx : Option Nat) (ctxNew : Bool) :
    ((writeR c (.resp r p) ctx ctxNew).2 = .rejected ∨ (writeR c (.resp r p) ctx ctxNew).2 = .broken →
      (writeR c (.resp r p) ctx ctxNew).1.reqStreams r = none) ∧
    (wrouteR c (.resp r p) ctx ctxNew).1.reqStreams r = none ∧
    ∀ i, (wdeliverR c i).1.reqStreams = c.reqStreams := by
  refine ⟨fun _ => response_unregisters c r p ctx ctxNew, ?_, ?_⟩
  · unfold wrouteR
    rw [if_neg (by simp [Msg.isCall])]
    split
    · simp [eraseResp]
    · split <;> simp [eraseResp]
  · intro i
    unfold wdeliverR
    split
    · rfl
    · split
      · simp [writeTo]
      · simp [orphanWrite]

/-- the routing section of a response removes the routing entry of its request at once -/
theorem response_unregisters_at_routing (c : Conn α) (r : Nat) (p : α) (ctx : Option Nat) (ctxNew : Bool) :
    (wrouteR c (.resp r p) ctx ctxNew).1.reqStreams r = none := by
  unfold wrouteR
  rw [if_neg (by simp [Msg.isCall])]
  split
  · simp [eraseResp]
  · split <;> simp [eraseResp]

/-- … and from then on traffic written with the context of `r` is rejected by the routing section: nothing is left
pending, no exchange, no stream and no log changes -/
theorem after_response_routing_rejects (c : Conn α) (hj : c.cfg.jsonResponse = false) (r : Nat)
    (hreg : c.reqStreams r = none) (msg : Msg α) (hnr : ∀ r' p, msg ≠ .resp r' p) (ctxNew : Bool) :
    wrouteR c msg (some r) ctxNew = (c, .rejected) := by
  unfold wrouteR
  split
  · rfl
  · have hroute : route c msg (some r) = none := by
      cases msg with
      | resp r' p => exact absurd rfl (hnr r' p)
      | notif p => simp [route, related, hj, hreg]
      | call p => simp [route, related, hj, hreg]
    rw [hroute]
    cases msg with
    | resp r' p => exact absurd rfl (hnr r' p)
    | notif p => rfl
    | call p => rfl

/-! ## the regenerated constants the model depends on -/

/-- the version classes of the model are ordered as the string comparison of the Go code orders them -/
theorem version_order :
    Generated.Resume.protocolVersion20250326 < Generated.Resume.protocolVersion20250618 ∧
    Generated.Resume.protocolVersion20250618 < Generated.Resume.protocolVersion20251125 ∧
    Generated.Resume.protocolVersion20251125 < Generated.Resume.protocolVersion20260728 ∧
    "" < Generated.Resume.protocolVersion20250326 := by decide

/-- event ids are `<stream>_<index>` and the SSE event names are the three the model distinguishes -/
theorem event_id_format :
    Generated.Resume.eventIDFormat = "%s_%d" ∧ Generated.Resume.eventIDSep = "_" ∧
    Generated.Resume.eventNames = ["close", "message", "prime"] := by decide

end Resume
