import McpModel.Resume.Model
namespace Resume
end Resume
