import McpModel.Resume.Purge
import McpModel.Resume.Witness
/-!
# C08 — evictions *during* a replay

`EventStore.After` hands `acquireStream` an iterator.  `MemoryEventStore.After` takes its snapshot of the stream's
entries under the store lock when the iteration starts and yields the items afterwards, without the lock; while
`acquireStream` collects them (under the *stream's* lock, which does not exclude writes of **other** sessions), another
session's `Append` may make the shared, bounded store purge — also entries of the stream that is being replayed,
entries the iteration has snapshotted but not yet yielded.

The model has ONE label for a resume (GET): `replayItems` is what `After` returned, `getGo` serves exactly that list.
`replay_atomic_wrt_eviction` justifies the atomic label against that interleaving: serving the snapshot *after* any
evictions (`getDuring`: the snapshot is taken in `c`, the replay and the re-attachment run in the evicted state) is the
same as the atomic GET followed by the evictions.  So everything proved for label lists "… GET, EVICT, …" — in particular
`resume_after_purge_reports_not_silently_skips`: the exact rest of the log or an error, never a stream with a gap — holds
for a GET with evictions in the middle of its replay: `resume_under_pressure_exact_or_error`.
What ties this to the code: the harness op `getp` makes another session append (and the real bounded `MemoryEventStore`
purge) between the k-th and the k+1-th item the real `After` yields, and the C08 monitor judges what the resume delivered.
-/
namespace Resume
variable {α : Type}

/-- the evictions `(stream, n)` of a record, in order -/
def evictAll (c : Conn α) (es : List (Nat × Nat)) : Conn α := es.foldl (fun c x => evict c x.1 x.2) c

theorem evictAll_eq_run (c : Conn α) (es : List (Nat × Nat)) :
    evictAll c es = run c (es.map fun x => Label.evict x.1 x.2) := by
  induction es generalizing c with
  | nil => rfl
  | cons x t ih => simp only [evictAll, List.foldl_cons, List.map_cons, run] at ih ⊢; exact ih _

/-- `acquireStream` with the evictions `es` happening between `After`'s snapshot and the end of its iteration: the
header checks, the claim check and the snapshot (`replayItems`) see `c`; the replay loop and the re-attachment run in
the evicted state, on the snapshot -/
def getDuring (c : Conn α) (hdr : Hdr) (ver : Ver) (budget : Option Nat) (es : List (Nat × Nat)) : Conn α :=
  if hdr = .bad then evictAll (statusEx c 400) es
  else if hdr.has && !c.cfg.hasStore then evictAll (statusEx c 400) es
  else match (findStream hdr.sid c.streams).bind (·.attached) with
    | some _ => evictAll (statusEx c 409) es
    | none =>
      match replayItems c hdr.sid hdr.from with
      | none => evictAll (statusEx c 400) es
      | some items => getGo (evictAll c es) hdr.sid hdr.from ver budget items

/-! ### `getGo` neither reads nor writes `purged` -/

def setPurged (c : Conn α) (f : Nat → Nat) : Conn α := { c with purged := f }

theorem replayLoop_setPurged (f : Nat → Nat) (ex sid : Nat) : ∀ (items : List (Item α)) (c : Conn α) (k : Nat),
    replayLoop (setPurged c f) ex sid k items = (setPurged (replayLoop c ex sid k items).1 f, (replayLoop c ex sid k items).2) := by
  intro items
  induction items with
  | nil => intro c k; rfl
  | cons it rest ih =>
    intro c k
    have he : emit (setPurged c f) ex (.message (some (sid, k)) it) =
        (setPurged (emit c ex (.message (some (sid, k)) it)).1 f, (emit c ex (.message (some (sid, k)) it)).2) := rfl
    unfold replayLoop
    rw [he]
    simp only
    split
    · exact ih _ _
    · rfl

theorem getOpen_setPurged (c : Conn α) (f : Nat → Nat) (sid frm : Nat) (budget : Option Nat) :
    getOpen (setPurged c f) sid frm budget = setPurged (getOpen c sid frm budget) f := by
  unfold getOpen
  split <;> rfl

theorem attach_setPurged (c : Conn α) (f : Nat → Nat) (s : Stream α) (ex next : Nat) (ver : Ver) (closed : Bool) :
    attach (setPurged c f) s ex next ver closed = setPurged (attach c s ex next ver closed) f := by
  unfold attach
  split <;> rfl

theorem getGo_setPurged (c : Conn α) (f : Nat → Nat) (sid frm : Nat) (ver : Ver) (budget : Option Nat) (items : List (Item α)) :
    getGo (setPurged c f) sid frm ver budget items = setPurged (getGo c sid frm ver budget items) f := by
  unfold getGo
  rw [getOpen_setPurged, replayLoop_setPurged]
  have hx : (setPurged c f).exs = c.exs := rfl
  have hs : (setPurged c f).streams = c.streams := rfl
  have hd : (setPurged c f).isDone = c.isDone := rfl
  rw [hx, hs, hd]
  simp only
  split
  · split
    · rfl
    · split
      · rfl
      · exact attach_setPurged _ _ _ _ _ _ _
  · rfl

theorem evict_as_setPurged (c : Conn α) (sid n : Nat) :
    evict c sid n = setPurged c (fun k => if k = sid then max (c.purged k) (min n ((c.store k).getD []).length) else c.purged k) := rfl

theorem getGo_store (c : Conn α) (sid frm : Nat) (ver : Ver) (budget : Option Nat) (items : List (Item α)) :
    (getGo c sid frm ver budget items).store = c.store := by
  have b1 : (getOpen c sid frm budget).store = c.store := by unfold getOpen; split <;> rfl
  have b2 : ∀ (items : List (Item α)) (c : Conn α) (ex k : Nat), (replayLoop c ex sid k items).1.store = c.store := by
    intro items
    induction items with
    | nil => intro c ex k; rfl
    | cons it rest ih =>
      intro c ex k
      unfold replayLoop
      split
      · rw [ih]; rfl
      · rfl
  unfold getGo
  split
  · split
    · show (replayLoop _ _ _ _ _).1.store = _; rw [b2, b1]
    · split
      · show (replayLoop _ _ _ _ _).1.store = _; rw [b2, b1]
      · unfold attach
        split
        · show (replayLoop _ _ _ _ _).1.store = _; rw [b2, b1]
        · show (replayLoop _ _ _ _ _).1.store = _; rw [b2, b1]
  · show (replayLoop _ _ _ _ _).1.store = _; rw [b2, b1]

theorem getGo_purged (c : Conn α) (sid frm : Nat) (ver : Ver) (budget : Option Nat) (items : List (Item α)) :
    (getGo c sid frm ver budget items).purged = c.purged := by
  have b1 : (getOpen c sid frm budget).purged = c.purged := by unfold getOpen; split <;> rfl
  have b2 := replayLoop_purged (getOpen c sid frm budget) c.exs.length sid frm items
  unfold getGo
  split
  · split
    · show (replayLoop _ _ _ _ _).1.purged = _; rw [b2, b1]
    · split
      · show (replayLoop _ _ _ _ _).1.purged = _; rw [b2, b1]
      · unfold attach
        split
        · show (replayLoop _ _ _ _ _).1.purged = _; rw [b2, b1]
        · show (replayLoop _ _ _ _ _).1.purged = _; rw [b2, b1]
  · show (replayLoop _ _ _ _ _).1.purged = _; rw [b2, b1]

/-- one eviction commutes with serving a snapshot -/
theorem getGo_evict (c : Conn α) (sid' n : Nat) (sid frm : Nat) (ver : Ver) (budget : Option Nat) (items : List (Item α)) :
    getGo (evict c sid' n) sid frm ver budget items = evict (getGo c sid frm ver budget items) sid' n := by
  rw [evict_as_setPurged c, getGo_setPurged, evict_as_setPurged (getGo c sid frm ver budget items), getGo_store, getGo_purged]

theorem getGo_evictAll (sid frm : Nat) (ver : Ver) (budget : Option Nat) (items : List (Item α)) :
    ∀ (es : List (Nat × Nat)) (c : Conn α),
      getGo (evictAll c es) sid frm ver budget items = evictAll (getGo c sid frm ver budget items) es := by
  intro es
  induction es with
  | nil => intro c; rfl
  | cons x t ih =>
    intro c
    simp only [evictAll, List.foldl_cons] at ih ⊢
    rw [ih, getGo_evict]

/-- **C08 (a replay is atomic with respect to evictions).**  Whatever the store evicts — of whichever streams, the one
being replayed included — after `After` has taken its snapshot and before the resume has written its last replayed
event and re-attached: the outcome is that of the atomic GET followed by those evictions.  What `After` returned is
what is delivered; nothing the store forgets afterwards can take an item out of the replay, change an event id or
move the `lastIdx` the stream is re-attached with. -/
theorem replay_atomic_wrt_eviction (c : Conn α) (hdr : Hdr) (ver : Ver) (budget : Option Nat) (es : List (Nat × Nat)) :
    getDuring c hdr ver budget es = run (step c (.get hdr ver budget)) (es.map fun x => Label.evict x.1 x.2) := by
  rw [← evictAll_eq_run]
  show getDuring c hdr ver budget es = evictAll (get c hdr ver budget) es
  unfold getDuring get
  by_cases h1 : hdr = .bad
  · rw [if_pos h1, if_pos h1]
  · rw [if_neg h1, if_neg h1]
    by_cases h2 : (hdr.has && !c.cfg.hasStore) = true
    · rw [if_pos h2, if_pos h2]
    · rw [if_neg h2, if_neg h2]
      cases h3 : (findStream hdr.sid c.streams).bind (·.attached) with
      | some k => rfl
      | none =>
        simp only
        cases h4 : replayItems c hdr.sid hdr.from with
        | none => rfl
        | some items => exact getGo_evictAll _ _ _ _ _ _ _

/-- evictions touch nothing but the store's eviction counters: exchanges (what every client has been sent), streams and
the append log are those of the atomic GET -/
theorem evictAll_frame (c : Conn α) (es : List (Nat × Nat)) :
    (evictAll c es).exs = c.exs ∧ (evictAll c es).streams = c.streams ∧ (evictAll c es).store = c.store ∧
    (evictAll c es).reqStreams = c.reqStreams ∧ (evictAll c es).isDone = c.isDone := by
  induction es generalizing c with
  | nil => exact ⟨rfl, rfl, rfl, rfl, rfl⟩
  | cons x t ih =>
    simp only [evictAll, List.foldl_cons] at ih ⊢
    obtain ⟨a, b, d, e, f⟩ := ih (evict c x.1 x.2)
    exact ⟨a, b, d, e, f⟩

/-- **C08 (a resume under store pressure delivers the exact rest of the log, or reports the purge).**  In any reachable
state of any in-scope label list, a resume from a previously issued id during whose replay the store evicts anything
(`es`, any streams, any amounts) is answered — judged by what had been evicted when `After` was called —
with status 400 and nothing written, or with an event stream that is delivered exactly `log[idx+1 …]`, each entry once,
in order, with its log position as id.  Never a 200 with a gap. -/
theorem resume_under_pressure_exact_or_error (cfg : Cfg) (hst : cfg.hasStore = true) (ls : List (Label α))
    (hsc : InScopeRun (init cfg) ls) (sid idx : Nat) (ver : Ver) (log : List (Option (Item α)))
    (hlog : (run (init cfg) ls).store sid = some log) (hidx : idx < log.length)
    (hdone : (run (init cfg) ls).isDone = false)
    (hfree : (findStream sid (run (init cfg) ls).streams).bind (·.attached) = none) (es : List (Nat × Nat)) :
    ∃ e, (getDuring (run (init cfg) ls) (.ok sid idx) ver none es).exs[(run (init cfg) ls).exs.length]? = some e ∧
      ((idx + 1 < (run (init cfg) ls).purged sid ∧ e.kind = .status 400 ∧ e.all = []) ∨
       ((run (init cfg) ls).purged sid ≤ idx + 1 ∧ e.kind = .sse ∧ e.stream = sid ∧ e.from = idx + 1 ∧ e.lost = [] ∧
          (events e.out).length = log.length - (idx + 1) ∧
          ∀ (k : Nat) (o : Out α), (events e.out)[k]? = some o →
            ∃ x, log[idx + 1 + k]? = some x ∧ o = evOf sid (idx + 1 + k) x)) := by
  rw [replay_atomic_wrt_eviction, ← evictAll_eq_run, (evictAll_frame _ es).1]
  obtain ⟨e, he, h⟩ := resume_after_purge_reports_not_silently_skips cfg hst ls hsc sid idx ver log hlog hidx hdone hfree
  refine ⟨e, he, ?_⟩
  rcases h with ⟨h1, h2, h3, _⟩ | h
  · exact Or.inl ⟨h1, h2, h3⟩
  · exact Or.inr h

/-- non-vacuity: `demo`'s first resume (from `(1,1)`, one stored message to replay) with the store evicting the whole
stream meanwhile still delivers that message; the evictions show only in `purged` -/
example : ((getDuring (run (init cfgW) (demo.take 4)) (.ok 1 1) .v1125 none [(1, 9), (0, 3)]).exs.map (fun e => e.out)) =
    ((run (init cfgW) (demo.take 5)).exs.map (fun e => e.out)) := by decide

example : (getDuring (run (init cfgW) (demo.take 4)) (.ok 1 1) .v1125 none [(1, 9), (0, 3)]).purged 1 = 3 := by decide

end Resume
