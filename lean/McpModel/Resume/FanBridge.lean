import McpModel.Resume.Fanout
import McpModel.Resume.BatchBridge
import McpModel.Resume.FanMon
/-!
# C10 — the fan-out clause of the monitor (`Mon.fanStep`): bridging theorems

* `fanCopy_reaches` — in any state satisfying the structural invariant `Inv`, the copy of a fan-out a session receives is
  visible in the record of the step whenever that session was open and the stream detached notifications go to was
  reachable (event store, or an open SSE exchange attached): it is appended to the store, resp. written to that exchange.
* `fanMonitor_accepts_model` — on the observation trace of **every** world label list (connects, steps of any session,
  fan-outs issued from inside any handler with any request context; all sessions with the same event-store setting,
  fan-out targets distinct) `Mon.fanStep` never raises `fanDropped`.  So such a verdict needs an observation no model
  run produces: the implementation did not route the copy as a detached write.
* `Mon.dropped_iff`, `Mon.fanStep_clause` — what the clause says on the monitor's own records.
-/
namespace Resume
open Mon

variable {α : Type}

/-! ### what the clause means -/

namespace Mon
variable {σ π κ : Type} [DecidableEq σ] [DecidableEq π] [DecidableEq κ]

/-- the clause on the monitor's records: the session was open in its last snapshot, the stream a detached notification
goes to could take the message, and the message is neither in the store under that session nor on the exchange that
stream was attached to -/
theorem dropped_iff (m : FanS σ κ) (o : FObs σ π κ) (p : π) (b : σ) :
    dropped m o p b = true ↔
      ∃ rows r, m.last b = some (false, rows) ∧ target rows = some r ∧ reachable m.store r = true ∧
        (∀ a ∈ o.appends, ¬ (a.1 = b ∧ a.2 = p)) ∧
        (∀ k, r.att = some k → ∀ x ∈ o.sent, ¬ (x.1 = k ∧ x.2 = p)) := by
  unfold dropped
  constructor
  · intro h
    split at h
    · cases h
    · rename_i done rows hl
      simp only [Bool.and_eq_true, Bool.not_eq_true'] at h
      obtain ⟨hd, h2⟩ := h
      subst hd
      split at h2
      · cases h2
      · rename_i r ht
        simp only [Bool.and_eq_true, Bool.not_eq_true'] at h2
        refine ⟨rows, r, hl, ht, h2.1, ?_, ?_⟩
        · intro a ha hc
          have h3 := h2.2
          unfold reached at h3
          simp only [Bool.or_eq_false_iff] at h3
          have := h3.1
          rw [List.any_eq_false] at this
          exact this a ha (by simp [hc.1, hc.2])
        · intro k hk x hx hc
          have h3 := h2.2
          unfold reached at h3
          simp only [Bool.or_eq_false_iff, hk] at h3
          have := h3.2
          rw [List.any_eq_false] at this
          exact this x hx (by simp [hc.1, hc.2])
  · rintro ⟨rows, r, hl, ht, hr, ha, hs⟩
    rw [hl]
    simp only [Bool.not_false, Bool.true_and, ht, hr]
    unfold reached
    have h1 : o.appends.any (fun a => decide (a.1 = b) && decide (a.2 = p)) = false := by
      rw [List.any_eq_false]
      intro a hmem
      have := ha a hmem
      simp only [Bool.and_eq_true, decide_eq_true_eq]
      exact this
    rw [h1]
    cases hk : r.att with
    | none => rfl
    | some k =>
      have h2 : o.sent.any (fun x => decide (x.1 = k) && decide (x.2 = p)) = false := by
        rw [List.any_eq_false]
        intro x hmem
        have := hs k hk x hmem
        simp only [Bool.and_eq_true, decide_eq_true_eq]
        exact this
      simp [h2]

/-- `fanStep` raises its clause exactly when the record issues a fan-out and some entitled session's copy was dropped -/
theorem fanStep_clause (m : FanS σ κ) (o : FObs σ π κ) :
    (fanStep m o).2 = some .fanDropped ↔ ∃ p ts, o.fan = some (p, ts) ∧ ∃ b ∈ ts, dropped m o p b = true := by
  unfold fanStep
  constructor
  · intro h
    simp only at h
    split at h
    · cases h
    · rename_i p ts hf
      split at h
      · rename_i hany
        rw [List.any_eq_true] at hany
        exact ⟨p, ts, hf, hany⟩
      · cases h
  · rintro ⟨p, ts, hf, b, hb, hd⟩
    simp only [hf]
    rw [if_pos (by rw [List.any_eq_true]; exact ⟨b, hb, hd⟩)]

end Mon

/-! ### the model's observation of a fan-out -/

/-- a row of the snapshot of session `b`; exchanges are named (session, local index) -/
def frowOf (b : Nat) (s : Stream α) : FRow (Nat × Nat) :=
  { t := s.id, att := s.attached.map (fun ex => (b, ex)), opn := s.opn, sse := s.json.isNone, listen := s.listen }

def fsnapOf (b : Nat) (c : Conn α) : Bool × List (FRow (Nat × Nat)) := (c.isDone, c.streams.map (frowOf b))

/-- the store appends of session `b` in a record -/
def fAppends (b : Nat) (c c' : Conn α) : List (Nat × α) :=
  (appendsOf b c c').filterMap fun a => a.p.map fun p => (b, p)

/-- the payloads written to the exchanges of session `b` in a record (SSE events and members of JSON bodies) -/
def fSent (b : Nat) (c c' : Conn α) : List ((Nat × Nat) × α) :=
  (sentM c c').flatMap fun x => x.2.2.items.map fun it => ((b, x.1), payloadOf it)

theorem target_map (b : Nat) (l : List (Stream α)) :
    target (l.map (frowOf b)) = ((match findListen l with | some s => some s | none => findStream 0 l)).map (frowOf b) := by
  unfold target findListen findStream
  rw [List.find?_map, List.find?_map]
  have h1 : ((fun r : FRow (Nat × Nat) => r.listen) ∘ frowOf b) = (fun s : Stream α => s.listen) := rfl
  have h2 : ((fun r : FRow (Nat × Nat) => r.t == 0) ∘ frowOf b) = (fun s : Stream α => s.id == 0) := rfl
  rw [h1, h2]
  cases List.find? (fun s : Stream α => s.listen) l with
  | some s => rfl
  | none => rfl

theorem route_fanCopy (c : Conn α) (p : α) :
    route c (.notif p) none = (match findListen c.streams with | some s => some s | none => findStream 0 c.streams) := by
  unfold route
  rw [fanCopy_unrelated]
  rfl

theorem step_fanCopy {c : Conn α} (p : α) (hopen : c.isDone = false) {s : Stream α} (hr : route c (.notif p) none = some s) :
    step c (fanCopy p) = (writeTo c s (.notif p) none false).1 := by
  show (writeR c (.notif p) none false).1 = _
  unfold writeR
  simp only [Msg.isCall, Bool.false_and, Bool.false_eq_true, if_false, hr, hopen, eraseResp]

variable [DecidableEq α]

/-- **the copy is visible in the record.**  `c` is the receiving session's connection before the fan-out, the monitor's
last snapshot of it is truthful, the record lists (at least) what the step appended and wrote: no `dropped` verdict. -/
theorem fanCopy_reaches (b : Nat) {c : Conn α} (hw : Inv c) (p : α) (o : FObs Nat α (Nat × Nat))
    (happ : ∀ x ∈ fAppends b c (step c (fanCopy p)), x ∈ o.appends)
    (hsent : ∀ x ∈ fSent b c (step c (fanCopy p)), x ∈ o.sent)
    (m : FanS Nat (Nat × Nat)) (hm : m.last b = some (fsnapOf b c)) (hst : m.store = c.cfg.hasStore) :
    dropped m o p b = false := by
  cases hd : dropped m o p b with
  | false => rfl
  | true =>
    exfalso
    obtain ⟨rows, r, hl, ht, hreach, hna, hns⟩ := (dropped_iff m o p b).mp hd
    rw [hm] at hl
    simp only [fsnapOf, Option.some.injEq, Prod.mk.injEq] at hl
    obtain ⟨hopen, hrows⟩ := hl
    subst hrows
    rw [target_map, ← route_fanCopy c p] at ht
    cases hr : route c (.notif p) none with
    | none => rw [hr] at ht; cases ht
    | some s =>
      rw [hr] at ht
      simp only [Option.map_some, Option.some.injEq] at ht
      subst ht
      have hs : s ∈ c.streams := by
        rw [route_fanCopy] at hr
        split at hr
        · rename_i s' hl'; cases hr; exact (findListen_some hl').1
        · exact (findStream_some hr).1
      have hstep := step_fanCopy p hopen hr
      unfold reachable at hreach
      rw [hst] at hreach
      simp only [Bool.or_eq_true, Bool.and_eq_true] at hreach
      rcases hreach with hstore | ⟨⟨hatt, hopn⟩, hsse⟩
      · -- stored: the append shows up under session `b`
        have hlt : s.id < (step c (fanCopy p)).nextSid := by
          rw [hstep]; simp only [writeTo]; exact hw.sid_lt s hs
        have hnew : some (⟨.notif p, none⟩ : Item α) ∈ newLog c (step c (fanCopy p)) s.id := by
          rw [hstep]
          unfold newLog
          simp only [writeTo, wUse, hstore, Bool.not_false, Bool.and_self, if_true, appendLog]
          simp
        have hmem : (b, p) ∈ fAppends b c (step c (fanCopy p)) := by
          unfold fAppends appendsOf
          simp only [List.mem_filterMap, List.mem_flatMap, List.mem_range, List.mem_map]
          exact ⟨{ sess := b, stream := s.id, p := some p, check := true },
            ⟨s.id, hlt, some ⟨.notif p, none⟩, hnew, rfl⟩, rfl⟩
        exact hna _ (happ _ hmem) ⟨rfl, rfl⟩
      · -- attached to an open SSE exchange: the write shows up on that exchange
        have hatt' : ∃ ex, s.attached = some ex := by
          simp only [frowOf] at hatt
          cases ha : s.attached with
          | none => rw [ha] at hatt; cases hatt
          | some ex => exact ⟨ex, rfl⟩
        obtain ⟨ex, hex⟩ := hatt'
        have hopn' : s.opn = true := hopn
        have hj : s.json = none := by
          simp only [frowOf] at hsse
          cases hjs : s.json with
          | none => rfl
          | some pend => rw [hjs] at hsse; cases hsse
        obtain ⟨e, he, _⟩ := hw.att s hs ex hex
        have hexs : (step c (fanCopy p)).exs =
            (emitX c.exs ex (.message (if wUse c false then some (s.id, s.next) else none) ⟨.notif p, none⟩)).1 ∨
            (step c (fanCopy p)).exs =
            finishX (emitX c.exs ex (.message (if wUse c false then some (s.id, s.next) else none) ⟨.notif p, none⟩)).1 ex := by
          rw [hstep]
          simp only [writeTo, wDeliver, deliver, hex, hopn', hj]
          split
          · exact Or.inr rfl
          · exact Or.inl rfl
        obtain ⟨lost, hsm⟩ := sentM_of_emit he _ hexs
        have hmem : ((b, ex), p) ∈ fSent b c (step c (fanCopy p)) := by
          unfold fSent
          simp only [List.mem_flatMap, List.mem_map]
          exact ⟨_, hsm, ⟨.notif p, none⟩, by simp [Out.items], rfl⟩
        exact hns (b, ex) (by simp [frowOf, hex]) _ (hsent _ hmem) ⟨rfl, rfl⟩

/-! ### the observation trace of a world run -/

/-- snapshots (after the record) of the sessions in `ks` -/
def wsnaps (w : World α) (ks : List Nat) : List (Nat × Bool × List (FRow (Nat × Nat))) :=
  ks.filterMap fun k => (findConn k w.conns).map fun c => (k, fsnapOf k c)

/-- the record of one world label as the fan-out clause sees it: the sessions the label touches are snapshotted; a
fan-out lists what every target session appended and wrote -/
def wobs (w : World α) : WLabel α → FObs Nat α (Nat × Nat)
  | .create k cfg => { fan := none, appends := [], sent := [], snaps := wsnaps (wstep w (.create k cfg)) [k] }
  | .on k l => { fan := none, appends := [], sent := [], snaps := wsnaps (wstep w (.on k l)) [k] }
  | .fanout a octx ts p =>
    { fan := some (p, ts),
      appends := ts.flatMap fun b => match findConn b w.conns with
        | some c => fAppends b c (step c (fanCopy p))
        | none => [],
      sent := ts.flatMap fun b => match findConn b w.conns with
        | some c => fSent b c (step c (fanCopy p))
        | none => [],
      snaps := wsnaps (wstep w (.fanout a octx ts p)) ts }

def wtrace : World α → List (WLabel α) → List (FObs Nat α (Nat × Nat))
  | _, [] => []
  | w, l :: ls => wobs w l :: wtrace (wstep w l) ls

/-- the scope of the theorem: every session is created with the same event-store setting (the handler has one
`EventStore` option), and a fan-out goes to distinct sessions (`resourceSubscriptions` is a map keyed by session) -/
def FanScope (st : Bool) : List (WLabel α) → Prop
  | [] => True
  | .create _ cfg :: t => cfg.hasStore = st ∧ FanScope st t
  | .on _ _ :: t => FanScope st t
  | .fanout _ _ ts _ :: t => ts.Nodup ∧ FanScope st t

/-- the monitor's records are truthful about the world -/
structure WRel (st : Bool) (m : FanS Nat (Nat × Nat)) (w : World α) : Prop where
  store : m.store = st
  known : ∀ b c, findConn b w.conns = some c → Inv c ∧ c.cfg.hasStore = st ∧ m.last b = some (fsnapOf b c)
  unknown : ∀ b, findConn b w.conns = none → m.last b = none

theorem applyFSnaps_wsnaps (w : World α) (last : Nat → Option (Bool × List (FRow (Nat × Nat)))) (b : Nat) :
    ∀ (ks : List Nat) (last : Nat → Option (Bool × List (FRow (Nat × Nat)))),
      applyFSnaps last (wsnaps w ks) b =
        if b ∈ ks then (match findConn b w.conns with | some c => some (fsnapOf b c) | none => last b) else last b := by
  intro ks
  induction ks with
  | nil => intro last; rfl
  | cons k rest ih =>
    intro last
    unfold wsnaps
    simp only [List.filterMap_cons]
    cases hk : findConn k w.conns with
    | none =>
      simp only [Option.map_none]
      have := ih last
      unfold wsnaps at this
      rw [this]
      by_cases hbk : b = k
      · subst hbk; simp [hk]
      · simp [hbk]
    | some c =>
      simp only [Option.map_some]
      unfold applyFSnaps
      simp only [List.foldl_cons]
      have := ih (fun s' => if s' = k then some (fsnapOf k c) else last s')
      unfold wsnaps applyFSnaps at this
      rw [this]
      by_cases hbk : b = k
      · subst hbk
        simp only [List.mem_cons, true_or, if_true, hk]
        split <;> simp
      · simp only [List.mem_cons, hbk, false_or, if_false]

theorem fanStep_last (m : FanS Nat (Nat × Nat)) (o : FObs Nat α (Nat × Nat)) :
    (fanStep m o).1.last = applyFSnaps m.last o.snaps ∧ (fanStep m o).1.store = m.store := ⟨rfl, rfl⟩

theorem findConn_isSome_setConn (k b : Nat) (c' : Conn α) : ∀ (l : List (Nat × Conn α)),
    (findConn b (setConn k c' l)).isSome = (findConn b l).isSome := by
  intro l
  induction l with
  | nil => rfl
  | cons x t ih =>
    obtain ⟨k', c0⟩ := x
    simp only [setConn]
    split
    · rename_i hk; simp only [findConn]; split <;> rfl
    · simp only [findConn]; split
      · rfl
      · exact ih

/-- a step of session `k`: the relation is kept when the record snapshots `k` -/
theorem wrel_on {st : Bool} {m : FanS Nat (Nat × Nat)} {w : World α} (h : WRel st m w) (k : Nat) (l : Label α)
    (o : FObs Nat α (Nat × Nat)) (ho : o.snaps = wsnaps (wOn w k l) [k]) : WRel st (fanStep m o).1 (wOn w k l) := by
  obtain ⟨h1, h2⟩ := fanStep_last m o
  refine ⟨by rw [h2]; exact h.store, ?_, ?_⟩
  · intro b c hc
    rw [h1, ho, applyFSnaps_wsnaps (wOn w k l) m.last b [k] m.last]
    by_cases hbk : b = k
    · subst hbk
      simp only [List.mem_singleton, if_true, hc]
      rw [wOn_same] at hc
      cases hc0 : findConn b w.conns with
      | none => rw [hc0] at hc; cases hc
      | some c0 =>
        rw [hc0] at hc
        simp only [Option.map_some, Option.some.injEq] at hc
        subst hc
        obtain ⟨i1, i2, _⟩ := h.known b c0 hc0
        exact ⟨inv_step i1 l, by rw [step_cfg]; exact i2, by first | rfl | trivial⟩
    · simp only [List.mem_singleton, hbk, if_false]
      rw [wOn_other w k b (fun h => hbk h.symm)] at hc
      exact h.known b c hc
  · intro b hb
    rw [h1, ho, applyFSnaps_wsnaps (wOn w k l) m.last b [k] m.last]
    have hb0 : findConn b w.conns = none := by
      by_cases hbk : b = k
      · subst hbk
        rw [wOn_same] at hb
        cases hc0 : findConn b w.conns with
        | none => rfl
        | some c0 => rw [hc0] at hb; cases hb
      · rw [wOn_other w k b (fun h => hbk h.symm)] at hb; exact hb
    simp only [hb]
    split <;> exact h.unknown b hb0

theorem wrel_create {st : Bool} {m : FanS Nat (Nat × Nat)} {w : World α} (h : WRel st m w) (k : Nat) (cfg : Cfg)
    (hcfg : cfg.hasStore = st) (o : FObs Nat α (Nat × Nat)) (ho : o.snaps = wsnaps (wstep w (.create k cfg)) [k]) :
    WRel st (fanStep m o).1 (wstep w (.create k cfg)) := by
  obtain ⟨h1, h2⟩ := fanStep_last m o
  have hfind : ∀ b, findConn b (wstep w (.create k cfg)).conns =
      if b = k then (match findConn k w.conns with | some c => some c | none => some (init cfg)) else findConn b w.conns := by
    intro b
    simp only [wstep]
    cases hk : findConn k w.conns with
    | some c0 =>
      simp only
      by_cases hbk : b = k
      · subst hbk; simp [hk]
      · simp [hbk]
    | none =>
      simp only
      by_cases hbk : b = k
      · subst hbk
        simp only [if_true]
        generalize w.conns = l0 at hk
        induction l0 with
        | nil => simp [findConn]
        | cons x t ih =>
          obtain ⟨k', c0⟩ := x
          simp only [findConn] at hk
          split at hk
          · cases hk
          · rename_i hne
            simp only [List.cons_append, findConn, hne, if_false]
            exact ih hk
      · simp only [hbk, if_false]
        exact findConn_append_other b k _ (fun h => hbk h.symm) _
  refine ⟨by rw [h2]; exact h.store, ?_, ?_⟩
  · intro b c hc
    rw [h1, ho, applyFSnaps_wsnaps _ m.last b [k] m.last]
    rw [hfind] at hc
    by_cases hbk : b = k
    · subst hbk
      simp only [if_true] at hc
      simp only [List.mem_singleton, if_true, hfind, if_true]
      cases hk : findConn b w.conns with
      | some c0 =>
        rw [hk] at hc; simp only [Option.some.injEq] at hc; subst hc
        obtain ⟨i1, i2, _⟩ := h.known b c0 hk
        exact ⟨i1, i2, rfl⟩
      | none =>
        rw [hk] at hc; simp only [Option.some.injEq] at hc; subst hc
        exact ⟨inv_init cfg, hcfg, rfl⟩
    · simp only [hbk, if_false] at hc
      simp only [List.mem_singleton, hbk, if_false]
      exact h.known b c hc
  · intro b hb
    rw [h1, ho, applyFSnaps_wsnaps _ m.last b [k] m.last]
    rw [hfind] at hb
    by_cases hbk : b = k
    · subst hbk
      simp only [if_true] at hb
      split at hb <;> cases hb
    · simp only [hbk, if_false] at hb
      simp only [List.mem_singleton, hbk, if_false]
      exact h.unknown b hb

theorem wrel_fanout {st : Bool} {m : FanS Nat (Nat × Nat)} {w : World α} (h : WRel st m w) (a : Nat) (octx : Option Nat)
    (ts : List Nat) (p : α) (hnd : ts.Nodup) (o : FObs Nat α (Nat × Nat))
    (ho : o.snaps = wsnaps (wstep w (.fanout a octx ts p)) ts) :
    WRel st (fanStep m o).1 (wstep w (.fanout a octx ts p)) := by
  obtain ⟨h1, h2⟩ := fanStep_last m o
  refine ⟨by rw [h2]; exact h.store, ?_, ?_⟩
  · intro b c hc
    rw [h1, ho, applyFSnaps_wsnaps _ m.last b ts m.last]
    by_cases hb : b ∈ ts
    · simp only [hb, if_true, hc]
      rw [fanout_copy_is_detached_in_each_session w a octx ts p b hb hnd] at hc
      cases hc0 : findConn b w.conns with
      | none => rw [hc0] at hc; cases hc
      | some c0 =>
        rw [hc0] at hc
        simp only [Option.map_some, Option.some.injEq] at hc
        subst hc
        obtain ⟨i1, i2, _⟩ := h.known b c0 hc0
        exact ⟨inv_step i1 (fanCopy p), by rw [show (writeR c0 (.notif p) none false).1 = step c0 (fanCopy p) from rfl, step_cfg]; exact i2,
          by first | rfl | trivial⟩
    · simp only [hb, if_false]
      rw [fanout_no_cross_session w a octx ts p b hb] at hc
      exact h.known b c hc
  · intro b hb0
    rw [h1, ho, applyFSnaps_wsnaps _ m.last b ts m.last]
    have hnone : findConn b w.conns = none := by
      by_cases hb : b ∈ ts
      · rw [fanout_copy_is_detached_in_each_session w a octx ts p b hb hnd] at hb0
        cases hc0 : findConn b w.conns with
        | none => rfl
        | some c0 => rw [hc0] at hb0; cases hb0
      · rw [fanout_no_cross_session w a octx ts p b hb] at hb0; exact hb0
    simp only [hb0]
    split <;> exact h.unknown b hnone

/-- no verdict on the record of a fan-out of the model -/
theorem fanout_record_ok {st : Bool} {m : FanS Nat (Nat × Nat)} {w : World α} (h : WRel st m w) (a : Nat) (octx : Option Nat)
    (ts : List Nat) (p : α) : (fanStep m (wobs w (.fanout a octx ts p))).2 = none := by
  cases hv : (fanStep m (wobs w (.fanout a octx ts p))).2 with
  | none => rfl
  | some cl =>
    exfalso
    cases cl
    obtain ⟨p', ts', hf, b, hb, hd⟩ := (fanStep_clause m _).mp hv
    simp only [wobs, Option.some.injEq, Prod.mk.injEq] at hf
    obtain ⟨rfl, rfl⟩ := hf
    cases hc : findConn b w.conns with
    | none =>
      have := h.unknown b hc
      unfold dropped at hd
      rw [this] at hd
      cases hd
    | some c =>
      obtain ⟨i1, i2, i3⟩ := h.known b c hc
      have := fanCopy_reaches b i1 p (wobs w (.fanout a octx ts p))
        (by
          intro x hx
          simp only [wobs, List.mem_flatMap]
          exact ⟨b, hb, by rw [hc]; exact hx⟩)
        (by
          intro x hx
          simp only [wobs, List.mem_flatMap]
          exact ⟨b, hb, by rw [hc]; exact hx⟩)
        m i3 (by rw [h.store, i2])
      rw [this] at hd
      cases hd

theorem fanRun_from (st : Bool) : ∀ (ls : List (WLabel α)) (w : World α) (m : FanS Nat (Nat × Nat)),
    WRel st m w → FanScope st ls → (fanRun m (wtrace w ls)).2 = none := by
  intro ls
  induction ls with
  | nil => intro w m _ _; rfl
  | cons l t ih =>
    intro w m h hs
    simp only [wtrace, fanRun]
    cases l with
    | create k cfg =>
      obtain ⟨hcfg, hs'⟩ := hs
      have hrel := wrel_create h k cfg hcfg (wobs w (.create k cfg)) rfl
      rw [ih _ _ hrel hs']
      rfl
    | on k l =>
      have hrel := wrel_on h k l (wobs w (.on k l)) rfl
      have hs' : FanScope st t := hs
      rw [show wstep w (.on k l) = wOn w k l from rfl, ih _ _ hrel hs']
      rfl
    | fanout a octx ts p =>
      obtain ⟨hnd, hs'⟩ := hs
      have hrel := wrel_fanout h a octx ts p hnd (wobs w (.fanout a octx ts p)) rfl
      rw [ih _ _ hrel hs', fanout_record_ok h a octx ts p]
      rfl

/-- **C10 bridging theorem for the fan-out clause.**  On the observation trace of every world label list — connects,
steps of any session, and fan-outs issued from inside a handler of any session with any request context — `Mon.fanStep`
raises no clause (`FanScope`: one event-store setting for all sessions, distinct fan-out targets).  In the model every
copy is a detached write of the receiving session (`fanout_copy_is_detached_in_each_session`); a `fanDropped` verdict
therefore needs an observation no model run produces. -/
theorem fanMonitor_accepts_model (st : Bool) (ls : List (WLabel α)) (hs : FanScope st ls) :
    (fanRun (fanInit st) (wtrace (⟨[]⟩ : World α) ls)).2 = none :=
  fanRun_from st ls ⟨[]⟩ (fanInit st)
    ⟨rfl, fun b c hc => by simp [findConn] at hc, fun b _ => rfl⟩ hs

/-- the scope is inhabited by the C10-m10 schedule … -/
example : FanScope false m10 := ⟨rfl, rfl, by decide, trivial⟩

/-- … and the clause is not silent by construction: the record of the same fan-out with session 2's write removed (what
a context-threading implementation shows when session 2 has no request with that id in flight: "write to closed
stream", the copy is lost) is flagged -/
example :
    (fanStep (σ := Nat) (π := Nat) (κ := Nat × Nat)
      { store := false, last := fun b => if b = 2 then some (false, [{ t := 0, att := some (2, 0), opn := true, sse := true, listen := false }]) else none }
      { fan := some (900, [2]), appends := [], sent := [], snaps := [] }).2 = some .fanDropped := by decide

end Resume
