import McpModel.Resume.Monitor
/-!
E5 — the typed core of the *fan-out* clause of the C10 monitor ("notifications … travel … on the session's standalone
stream … when issued outside any request").

A server-level notification (`Server.ResourceUpdated`, a list-changed announcement) is session-independent: every
entitled session gets its own copy, and in each of them the copy is "issued outside any request" of that session —
also when the server code that triggers it runs inside a request handler of some *other* session.  The routing clauses of
`Mon.step` (`Prov.fanout`) flag a copy that shows up on a request exchange.  This core flags the other way the copy can
go wrong: it shows up **nowhere** although the session could have received it.

The monitor keeps, from the *implementation's* observations only, the last snapshot of the real `streams` table of every
session (`last`).  For a record that issues a fan-out with payload `p` to the sessions `ts` (taken from the operations:
the sessions whose `resources/subscribe` was answered and that have not been closed) it raises
* `fanDropped` — for some `b ∈ ts`: before the record, `b` was open (`isDone` not set) and the stream a detached
  notification goes to (a `subscriptions/listen` stream if there is one, else the standalone stream — `target`) was
  *reachable* (an event store is configured, or the stream was attached to an open SSE exchange), and yet `p` was neither
  appended to the store under session `b` nor written to the exchange that stream was attached to.
`Mon.fanStep` is a pure function `FanS → FObs → FanS × Option ClauseF`; `McpModel.Resume.FanBridge` proves that it raises
nothing on any fan-out of the model (every copy is routed as detached in its session) and what the clause means.
Generic in the session name type `σ`, the payload type `π` and the exchange name type `κ` (global numbers in the driver,
(session, local index) pairs in the proofs).  Core Lean only (linked into the driver).
-/
namespace Resume
namespace Mon

/-- one row of a snapshot of `c.streams`, as far as the fan-out clause needs it -/
structure FRow (κ : Type) where
  t : Nat
  att : Option κ          -- `w` (exchange)
  opn : Bool              -- `done ≠ nil`
  sse : Bool              -- not a JSON-response stream
  listen : Bool

/-- what the fan-out clause needs of one record -/
structure FObs (σ π κ : Type) where
  fan : Option (π × List σ)          -- the record issues a fan-out: its payload and the entitled sessions
  appends : List (σ × π)             -- (session, payload) appended to the event store in this record
  sent : List (κ × π)                -- (exchange, payload) written in this record (delivered or lost; event or JSON member)
  snaps : List (σ × Bool × List (FRow κ))   -- snapshots after the record: session, `isDone`, rows

inductive ClauseF where
  | fanDropped
deriving DecidableEq, Repr

def ClauseF.text : ClauseF → String
  | .fanDropped => "C10: a server-level notification issued inside a request handler was dropped for a subscribed session although that session's standalone/listen stream could receive it (event store configured, or the stream attached to an open exchange): not routed as 'issued outside any request' of that session"

structure FanS (σ κ : Type) where
  store : Bool := false
  last : σ → Option (Bool × List (FRow κ)) := fun _ => none   -- the last snapshot of each session: `isDone`, rows

def fanInit {σ κ : Type} (store : Bool) : FanS σ κ := { store := store }

variable {σ π κ : Type} [DecidableEq σ] [DecidableEq π] [DecidableEq κ]

/-- the stream a detached notification is routed to: a listen stream if any, else the standalone stream
(`streamableServerConn.Write`, the branch without a related request) -/
def target (rows : List (FRow κ)) : Option (FRow κ) :=
  match rows.find? (·.listen) with
  | some r => some r
  | none => rows.find? (fun r => r.t == 0)

/-- the stream can take the message: it is stored, or an open SSE exchange is attached -/
def reachable (store : Bool) (r : FRow κ) : Bool := store || (r.att.isSome && r.opn && r.sse)

/-- the copy for session `b` is visible in the record: in the store under `b`, or on the exchange the target was attached to -/
def reached (o : FObs σ π κ) (p : π) (b : σ) (r : FRow κ) : Bool :=
  o.appends.any (fun a => decide (a.1 = b) && decide (a.2 = p)) ||
  match r.att with
  | some k => o.sent.any (fun x => decide (x.1 = k) && decide (x.2 = p))
  | none => false

def dropped (m : FanS σ κ) (o : FObs σ π κ) (p : π) (b : σ) : Bool :=
  match m.last b with
  | none => false
  | some (done, rows) =>
    !done && match target rows with
      | none => false
      | some r => reachable m.store r && !reached o p b r

def applyFSnaps (last : σ → Option (Bool × List (FRow κ))) (snaps : List (σ × Bool × List (FRow κ))) :
    σ → Option (Bool × List (FRow κ)) :=
  snaps.foldl (fun h s => fun s' => if s' = s.1 then some s.2 else h s') last

def fanStep (m : FanS σ κ) (o : FObs σ π κ) : FanS σ κ × Option ClauseF :=
  ({ m with last := applyFSnaps m.last o.snaps },
   match o.fan with
   | none => none
   | some (p, ts) => if ts.any (dropped m o p) then some .fanDropped else none)

/-- a whole trace: the state after it and the first clause raised, if any -/
def fanRun (m : FanS σ κ) : List (FObs σ π κ) → FanS σ κ × Option ClauseF
  | [] => (m, none)
  | o :: t => ((fanRun (fanStep m o).1 t).1, (fanStep m o).2 <|> (fanRun (fanStep m o).1 t).2)

end Mon
end Resume
