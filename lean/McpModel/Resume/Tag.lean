import McpModel.Resume.InvK
/-!
E5 — message invariants for an arbitrary per-message predicate `P c sid it` ("message `it` may sit on stream
`sid`") that is monotone in the ghost history of the connection (`PMono`): if every write is routed to a
stream on which `P` holds, then `P` holds for every message on every exchange, in every JSON buffer and in
every log, on all label lists (`invMsg_run`).  `Routed` (C10) is one instance; the provenance-tag
consistency `TagOK` used by the C10 bridging theorem is another.

Also: the structural invariant of the ghost `Conn.born` (`InvBorn`).
-/
namespace Resume
variable {α : Type}

/-! ### `born`: the POST exchange that registered a stream -/

structure InvBorn (c : Conn α) : Prop where
  npos : 0 < c.nextSid
  lt : ∀ sid x, c.born sid = some x → sid < c.nextSid ∧ sid ≠ 0
  ex : ∀ sid x, c.born sid = some x → ∃ e, c.exs[x]? = some e ∧ e.stream = sid ∧ e.live ∧ e.from = 0
  hist : ∀ sid, sid ≠ 0 → (c.hist sid).isSome → (c.born sid).isSome
  inj : ∀ sid sid' x, c.born sid = some x → c.born sid' = some x → sid = sid'
  bh : ∀ sid x, c.born sid = some x → (c.hist sid).isSome
  h0 : c.hist 0 = some ([], false)

theorem invBorn_init (cfg : Cfg) : InvBorn (init cfg : Conn α) := by
  refine ⟨by simp [init], ?_, ?_, ?_, ?_, ?_, by simp [init]⟩
  · intro sid x h; simp [init] at h
  · intro sid x h; simp [init] at h
  · intro sid hne hs; simp [init, hne] at hs
  · intro sid sid' x h; simp [init] at h
  · intro sid x h; simp [init] at h

/-- the ghost history only grows -/
structure Ext (c c' : Conn α) : Prop where
  cfg : c'.cfg = c.cfg
  hist : ∀ sid v, c.hist sid = some v → c'.hist sid = some v
  born : ∀ sid x, c.born sid = some x → c'.born sid = some x

theorem Ext.refl (c : Conn α) : Ext c c := ⟨rfl, fun _ _ h => h, fun _ _ h => h⟩
theorem Ext.trans {a b c : Conn α} (h₁ : Ext a b) (h₂ : Ext b c) : Ext a c :=
  ⟨h₂.cfg.trans h₁.cfg, fun s v h => h₂.hist s v (h₁.hist s v h), fun s x h => h₂.born s x (h₁.born s x h)⟩

theorem ext_of_eq {c c' : Conn α} (h1 : c'.cfg = c.cfg) (h2 : c'.hist = c.hist) (h3 : c'.born = c.born) : Ext c c' :=
  ⟨h1, fun s v h => by rw [h2]; exact h, fun s x h => by rw [h3]; exact h⟩

@[simp] theorem eraseResp_born (c : Conn α) (msg : Msg α) : (eraseResp c msg).born = c.born := by
  unfold eraseResp; split <;> rfl

theorem replayLoop_born (c : Conn α) (ex sid k : Nat) (items : List (Item α)) :
    (replayLoop c ex sid k items).1.born = c.born := by
  induction items generalizing c k with
  | nil => rfl
  | cons it rest ih =>
    unfold replayLoop
    split
    · rw [ih]; rfl
    · rfl

theorem getOpen_born (c : Conn α) (sid frm : Nat) (budget : Option Nat) : (getOpen c sid frm budget).born = c.born := by
  unfold getOpen; split <;> rfl

theorem getGo_ghost (c : Conn α) (sid frm : Nat) (ver : Ver) (budget : Option Nat) (items : List (Item α)) :
    (getGo c sid frm ver budget items).born = c.born ∧ (getGo c sid frm ver budget items).hist = c.hist ∧
    (getGo c sid frm ver budget items).cfg = c.cfg := by
  have b1 := getOpen_born c sid frm budget
  have b2 := replayLoop_born (getOpen c sid frm budget) c.exs.length sid frm items
  obtain ⟨_, _, _, _, gh, gc, _⟩ := getOpen_frame c sid frm budget
  obtain ⟨_, _, _, _, fh, fc, _⟩ := replayLoop_frame (getOpen c sid frm budget) c.exs.length sid frm items
  unfold getGo
  split
  · split
    · simp [finish, b1, b2, gh, fh, gc, fc]
    · split
      · simp [finish, b1, b2, gh, fh, gc, fc]
      · unfold attach; split <;> simp [cut, finish, b1, b2, gh, fh, gc, fc]
  · simp [finish, b1, b2, gh, fh, gc, fc]

/-- labels other than POST leave the ghost history alone -/
theorem step_ghost_other (c : Conn α) (l : Label α) (hl : ∀ calls listen ver b, l ≠ .post calls listen ver b) :
    (step c l).born = c.born ∧ (step c l).hist = c.hist := by
  cases l with
  | post calls listen ver b => exact absurd rfl (hl _ _ _ _)
  | write msg ctx ctxNew =>
    show (writeR c msg ctx ctxNew).1.born = c.born ∧ (writeR c msg ctx ctxNew).1.hist = c.hist
    unfold writeR
    split
    · exact ⟨rfl, rfl⟩
    · split
      · simp
      · split
        · simp
        · simp [writeTo]
  | cut ex => exact ⟨rfl, rfl⟩
  | wfail ex => exact ⟨rfl, rfl⟩
  | get hdr ver budget =>
    show (get c hdr ver budget).born = c.born ∧ (get c hdr ver budget).hist = c.hist
    unfold get
    split
    · exact ⟨rfl, rfl⟩
    · split
      · exact ⟨rfl, rfl⟩
      · split
        · exact ⟨rfl, rfl⟩
        · split
          · exact ⟨rfl, rfl⟩
          · exact ⟨(getGo_ghost _ _ _ _ _ _).1, (getGo_ghost _ _ _ _ _ _).2.1⟩
  | sclose req retry =>
    show (sclose c req retry).born = c.born ∧ (sclose c req retry).hist = c.hist
    unfold sclose
    split
    · exact ⟨rfl, rfl⟩
    · split
      · exact ⟨rfl, rfl⟩
      · split
        · split <;> exact ⟨rfl, rfl⟩
        · exact ⟨rfl, rfl⟩
  | «end» => exact ⟨rfl, rfl⟩
  | evict _ _ => exact ⟨rfl, rfl⟩
  | wroute msg ctx ctxNew =>
    show (wrouteR c msg ctx ctxNew).1.born = c.born ∧ (wrouteR c msg ctx ctxNew).1.hist = c.hist
    unfold wrouteR
    split
    · exact ⟨rfl, rfl⟩
    · split
      · simp
      · split <;> simp
  | wdeliver i =>
    show (wdeliverR c i).1.born = c.born ∧ (wdeliverR c i).1.hist = c.hist
    unfold wdeliverR
    split
    · exact ⟨rfl, rfl⟩
    · split
      · simp [writeTo]
      · simp [orphanWrite]

theorem postPrimed_born (c : Conn α) (calls : List Nat) (listen : Bool) (ver : Ver) (budget : Option Nat) :
    (postPrimed c calls listen ver budget).born = (fun k => if k = c.nextSid then some c.exs.length else c.born k) := by
  unfold postPrimed; split <;> simp [emit, register]

theorem post_ghost (c : Conn α) (calls : List Nat) (listen : Bool) (ver : Ver) (budget : Option Nat) :
    ((post c calls listen ver budget).born = c.born ∧ (post c calls listen ver budget).hist = c.hist ∧
      (post c calls listen ver budget).exs.length = c.exs.length + 1 ∧
      (∀ e, (post c calls listen ver budget).exs[c.exs.length]? = some e → ¬ e.live) ∧
      (post c calls listen ver budget).nextSid ≥ c.nextSid) ∨
    ((post c calls listen ver budget).born = (fun k => if k = c.nextSid then some c.exs.length else c.born k) ∧
      (post c calls listen ver budget).hist = (fun k => if k = c.nextSid then some (dedup calls, listen) else c.hist k) ∧
      (post c calls listen ver budget).nextSid = c.nextSid + 1 ∧
      ∃ e, (post c calls listen ver budget).exs[c.exs.length]? = some e ∧ e.stream = c.nextSid ∧ e.live ∧ e.from = 0) := by
  unfold post
  split
  · refine Or.inl ⟨rfl, rfl, by simp [statusEx], ?_, Nat.le_refl _⟩
    intro e he hl; simp [statusEx] at he; subst he; rcases hl with h | h <;> cases h
  · split
    · refine Or.inl ⟨rfl, rfl, by simp [postDup, statusEx], ?_, by simp [postDup, statusEx]⟩
      intro e he hl; simp [postDup, statusEx] at he; subst he; rcases hl with h | h <;> cases h
    · right
      obtain ⟨_, _, fn, _, _, _, fh⟩ := postPrimed_frame c (dedup calls) listen ver budget
      have hb := postPrimed_born c (dedup calls) listen ver budget
      have hex : ∃ e, (postPrimed c (dedup calls) listen ver budget).exs[c.exs.length]? = some e ∧ e.stream = c.nextSid ∧ e.live ∧ e.from = 0 := by
        have hlen : c.exs.length < (postPrimed c (dedup calls) listen ver budget).exs.length := by
          unfold postPrimed; split <;> simp [emit, register]
        refine ⟨_, List.getElem?_eq_getElem hlen, ?_⟩
        rcases postPrimed_exs c _ listen ver budget _ _ (List.getElem?_eq_getElem hlen) with ⟨hlt, _⟩ | ⟨_, hs, hf, _⟩
        · omega
        · refine ⟨hs, ?_, hf⟩
          have hk : ∀ e, (register c (dedup calls) listen ver budget).exs[c.exs.length]? = some e → e.live :=
            register_new_live c _ listen ver budget
          unfold postPrimed
          split
          · have h0 : (register c (dedup calls) listen ver budget).exs[c.exs.length]? = some
                ({ kind := if useSSE c listen then .sse else .json, budget := budget, stream := c.nextSid, «from» := 0 } : Exch α) := by
              simp [register]
            have : (emit (register c (dedup calls) listen ver budget) c.exs.length (.prime c.nextSid 0)).1.exs[c.exs.length]? =
                some (({ kind := if useSSE c listen then .sse else .json, budget := budget, stream := c.nextSid, «from» := 0 } : Exch α).push (.prime c.nextSid 0)).1 := by
              simp only [emit]; exact (emitX_eq _ _ _ _ h0).1
            have hge := List.getElem?_eq_getElem (l := (emit (register c (dedup calls) listen ver budget) c.exs.length (.prime c.nextSid 0)).1.exs)
              (i := c.exs.length) (by simp [emit, register])
            rw [this] at hge
            have hh := Option.some.inj hge
            rw [← hh]
            exact (push_live _ _).mpr (hk _ h0)
          · exact hk _ (List.getElem?_eq_getElem (by simp [register]))
      rw [postNew_eq]
      split
      · refine ⟨by simp [cut, finish, hb], by simp [cut, finish, fh], by simp [cut, finish, fn], ?_⟩
        obtain ⟨e, he, hs, hl, hf⟩ := hex
        simp only [cut, finish]
        refine ⟨{ e with ended := true }, by rw [finishX_eq, he]; rfl, hs, hl, hf⟩
      · exact ⟨hb, fh, fn, hex⟩

theorem ext_step {c : Conn α} (h10 : Inv10 c) (hb : InvBorn c) (l : Label α) : Ext c (step c l) := by
  refine ⟨step_cfg c l, ?_, ?_⟩
  · intro sid v hv
    cases l with
    | post calls listen ver b =>
      show (post c calls listen ver b).hist sid = some v
      rcases post_ghost c calls listen ver b with ⟨_, h, _⟩ | ⟨_, h, _⟩
      · rw [h]; exact hv
      · rw [h]
        have : sid ≠ c.nextSid := fun hh => by
          have := h10.hist_lt sid (by rw [hv]; rfl); omega
        simp [this, hv]
    | write _ _ _ => rw [(step_ghost_other c _ (by intros; simp)).2]; exact hv
    | cut _ => exact hv
    | wfail _ => exact hv
    | get _ _ _ => rw [(step_ghost_other c _ (by intros; simp)).2]; exact hv
    | sclose _ _ => rw [(step_ghost_other c _ (by intros; simp)).2]; exact hv
    | «end» => exact hv
    | evict _ _ => exact hv
    | wroute _ _ _ => rw [(step_ghost_other c _ (by intros; simp)).2]; exact hv
    | wdeliver _ => rw [(step_ghost_other c _ (by intros; simp)).2]; exact hv
  · intro sid x hx
    cases l with
    | post calls listen ver b =>
      show (post c calls listen ver b).born sid = some x
      rcases post_ghost c calls listen ver b with ⟨h, _⟩ | ⟨h, _⟩
      · rw [h]; exact hx
      · rw [h]
        have : sid ≠ c.nextSid := fun hh => by
          have := (hb.lt sid x hx).1; omega
        simp [this, hx]
    | write _ _ _ => rw [(step_ghost_other c _ (by intros; simp)).1]; exact hx
    | cut _ => exact hx
    | wfail _ => exact hx
    | get _ _ _ => rw [(step_ghost_other c _ (by intros; simp)).1]; exact hx
    | sclose _ _ => rw [(step_ghost_other c _ (by intros; simp)).1]; exact hx
    | «end» => exact hx
    | evict _ _ => exact hx
    | wroute _ _ _ => rw [(step_ghost_other c _ (by intros; simp)).1]; exact hx
    | wdeliver _ => rw [(step_ghost_other c _ (by intros; simp)).1]; exact hx

theorem invBorn_old_ex {c : Conn α} (hw : Inv c) (hb : InvBorn c) (l : Label α) :
    ∀ sid x, c.born sid = some x → ∃ e, (step c l).exs[x]? = some e ∧ e.stream = sid ∧ e.live ∧ e.from = 0 := by
  have hg := grow_step hw l
  intro sid x hx
  obtain ⟨e, he, hs, hl, hf⟩ := hb.ex sid x hx
  obtain ⟨e', he', g⟩ := hg.exs.2 x e he
  refine ⟨e', he', by rw [g.stream, hs], ?_, by rw [g.frm, hf]⟩
  unfold Exch.live at hl ⊢; rw [g.kind]; exact hl

theorem invBorn_step_other {c : Conn α} (hw : Inv c) (hb : InvBorn c) (l : Label α)
    (hp : ∀ calls listen ver b, l ≠ .post calls listen ver b) : InvBorn (step c l) := by
  have hg := grow_step hw l
  have hexOld := invBorn_old_ex hw hb l
  obtain ⟨e1, e2⟩ := step_ghost_other c l hp
  refine ⟨Nat.lt_of_lt_of_le hb.npos hg.nextSid, ?_, ?_, ?_, ?_, ?_, by rw [e2]; exact hb.h0⟩
  · intro sid x hx; rw [e1] at hx
    exact ⟨Nat.lt_of_lt_of_le (hb.lt sid x hx).1 hg.nextSid, (hb.lt sid x hx).2⟩
  · intro sid x hx; rw [e1] at hx; exact hexOld sid x hx
  · intro sid hne hs; rw [e2] at hs; rw [e1]; exact hb.hist sid hne hs
  · intro sid sid' x h1 h2; rw [e1] at h1 h2; exact hb.inj sid sid' x h1 h2
  · intro sid x hx; rw [e1] at hx; rw [e2]; exact hb.bh sid x hx

theorem invBorn_post {c : Conn α} (hw : Inv c) (hb : InvBorn c) (calls : List Nat) (listen : Bool) (ver : Ver) (b : Option Nat) :
    InvBorn (post c calls listen ver b) := by
  have hg := grow_step hw (.post calls listen ver b)
  have hexOld := invBorn_old_ex hw hb (.post calls listen ver b)
  have hgn : c.nextSid ≤ (post c calls listen ver b).nextSid := hg.nextSid
  rcases post_ghost c calls listen ver b with ⟨e1, e2, _, _, _⟩ | ⟨e1, e2, e3, enew⟩
  · refine ⟨Nat.lt_of_lt_of_le hb.npos hgn, ?_, ?_, ?_, ?_, ?_, by rw [e2]; exact hb.h0⟩
    · intro sid x hx; rw [e1] at hx
      exact ⟨Nat.lt_of_lt_of_le (hb.lt sid x hx).1 hgn, (hb.lt sid x hx).2⟩
    · intro sid x hx; rw [e1] at hx; exact hexOld sid x hx
    · intro sid hne hs; rw [e2] at hs; rw [e1]; exact hb.hist sid hne hs
    · intro sid sid' x h1 h2; rw [e1] at h1 h2; exact hb.inj sid sid' x h1 h2
    · intro sid x hx; rw [e1] at hx; rw [e2]; exact hb.bh sid x hx
  · have hxlt : ∀ sid x, c.born sid = some x → x < c.exs.length := by
      intro sid x hx
      obtain ⟨e, he, _⟩ := hb.ex sid x hx
      by_cases hh : x < c.exs.length
      · exact hh
      · rw [List.getElem?_eq_none (by omega)] at he; cases he
    refine ⟨by rw [e3]; omega, ?_, ?_, ?_, ?_, ?_, ?_⟩
    · intro sid x hx; rw [e1] at hx; rw [e3]
      simp only at hx
      split at hx
      · rename_i hk; subst hk; exact ⟨by omega, by have := hb.npos; omega⟩
      · exact ⟨by have := (hb.lt sid x hx).1; omega, (hb.lt sid x hx).2⟩
    · intro sid x hx; rw [e1] at hx
      simp only at hx
      split at hx
      · rename_i hk; subst hk; cases hx; exact enew
      · exact hexOld sid x hx
    · intro sid hne hs; rw [e2] at hs; rw [e1]
      simp only at hs ⊢
      split
      · rfl
      · rename_i hk; simp only [hk, if_false] at hs; exact hb.hist sid hne hs
    · intro sid sid' x h1 h2; rw [e1] at h1 h2
      simp only at h1 h2
      split at h1 <;> split at h2
      · rename_i a b; rw [a, b]
      · cases h1; have := hxlt _ _ h2; omega
      · cases h2; have := hxlt _ _ h1; omega
      · exact hb.inj sid sid' x h1 h2
    · intro sid x hx; rw [e1] at hx; rw [e2]
      simp only at hx ⊢
      split
      · rfl
      · rename_i hk; simp only [hk, if_false] at hx; exact hb.bh sid x hx
    · rw [e2]
      have : (0 : Nat) ≠ c.nextSid := by have := hb.npos; omega
      simp [this, hb.h0]

theorem invBorn_step {c : Conn α} (hw : Inv c) (hb : InvBorn c) (l : Label α) : InvBorn (step c l) := by
  cases l with
  | post calls listen ver b => exact invBorn_post hw hb _ _ _ _
  | write _ _ _ => exact invBorn_step_other hw hb _ (by intros; simp)
  | cut _ => exact invBorn_step_other hw hb _ (by intros; simp)
  | wfail _ => exact invBorn_step_other hw hb _ (by intros; simp)
  | get _ _ _ => exact invBorn_step_other hw hb _ (by intros; simp)
  | sclose _ _ => exact invBorn_step_other hw hb _ (by intros; simp)
  | «end» => exact invBorn_step_other hw hb _ (by intros; simp)
  | evict _ _ => exact invBorn_step_other hw hb _ (by intros; simp)
  | wroute _ _ _ => exact invBorn_step_other hw hb _ (by intros; simp)
  | wdeliver _ => exact invBorn_step_other hw hb _ (by intros; simp)

/-! ### generic message invariant -/

/-- `P` only depends on the configuration and the (growing) ghost history -/
def PMono (P : Conn α → Nat → Item α → Prop) : Prop :=
  ∀ (c c' : Conn α), Ext c c' → ∀ sid it, P c sid it → P c' sid it

structure InvMsg (P : Conn α → Nat → Item α → Prop) (c : Conn α) : Prop where
  pend : ∀ s ∈ c.streams, ∀ p, s.json = some p → ∀ it ∈ p, P c s.id it
  ex : ∀ (j : Nat) (e : Exch α), c.exs[j]? = some e → ∀ o ∈ e.all, ∀ it ∈ o.items, P c e.stream it
  log : ∀ (sid : Nat) (log : List (Option (Item α))), c.store sid = some log → ∀ it, some it ∈ log → P c sid it

variable {P : Conn α → Nat → Item α → Prop}

theorem invMsg_init (cfg : Cfg) : InvMsg P (init cfg : Conn α) := by
  refine ⟨?_, ?_, ?_⟩
  · intro s hs p hp; simp [init] at hs; subst hs; cases hp
  · intro j e he; simp [init] at he
  · intro sid log hl it hit
    simp only [init] at hl
    split at hl
    · cases hl; cases hit
    · cases hl

theorem invMsg_frame0 {c c' : Conn α} (h : InvMsg P c) (hmono : ∀ sid it, P c sid it → P c' sid it)
    (hst : c'.store = c.store) (hs : StrKeep c.streams c'.streams)
    (he : ∀ (j : Nat) (e' : Exch α), c'.exs[j]? = some e' → ∀ o ∈ e'.all, ∀ it ∈ o.items, P c e'.stream it) : InvMsg P c' := by
  refine ⟨?_, ?_, ?_⟩
  · intro s' hs' p hp it hit
    obtain ⟨s, hsl, h1, _, _, _, h5⟩ := hs s' hs'
    rw [h1]; exact hmono _ _ (h.pend s hsl p (by rw [← h5]; exact hp) it hit)
  · intro j e' he' o ho it hit
    exact hmono _ _ (he j e' he' o ho it hit)
  · intro sid log hl it hit
    rw [hst] at hl
    exact hmono _ _ (h.log sid log hl it hit)

theorem invMsg_frame {c c' : Conn α} (h : InvMsg P c) (hmono : ∀ sid it, P c sid it → P c' sid it)
    (hst : c'.store = c.store) (hs : StrKeep c.streams c'.streams) (he : ExNoMsg c.exs c'.exs) : InvMsg P c' := by
  refine invMsg_frame0 h hmono hst hs ?_
  intro j e' he' o ho it hit
  rcases he j e' he' with ⟨e, hej, hs1, r⟩ | hall
  · rcases r o ho with ho' | hi
    · rw [hs1]; exact h.ex j e hej o ho' it hit
    · rw [hi] at hit; cases hit
  · rw [hall o ho] at hit; cases hit

theorem pmono_eq (hP : PMono P) {c c' : Conn α} (h1 : c'.cfg = c.cfg) (h2 : c'.hist = c.hist) (h3 : c'.born = c.born) :
    ∀ sid it, P c sid it → P c' sid it := hP c c' (ext_of_eq h1 h2 h3)

theorem invMsg_cut (hP : PMono P) {c : Conn α} (h : InvMsg P c) (ex : Nat) : InvMsg P (cut c ex) :=
  invMsg_frame (c' := cut c ex) h (pmono_eq hP rfl rfl rfl) rfl (strKeep_release _ _) (exNoMsg_finishX _ _)

theorem invMsg_finish (hP : PMono P) {c : Conn α} (h : InvMsg P c) (ex : Nat) : InvMsg P (finish c ex) :=
  invMsg_frame (c' := finish c ex) h (pmono_eq hP rfl rfl rfl) rfl (StrKeep.refl _) (exNoMsg_finishX _ _)

theorem invMsg_wfail (hP : PMono P) {c : Conn α} (h : InvMsg P c) (ex : Nat) : InvMsg P (wfail c ex) :=
  invMsg_frame (c' := wfail c ex) h (pmono_eq hP rfl rfl rfl) rfl (StrKeep.refl _) (exNoMsg_wfail _ _)

theorem invMsg_statusEx (hP : PMono P) {c : Conn α} (h : InvMsg P c) (code sid : Nat) : InvMsg P (statusEx c code sid) :=
  invMsg_frame (c' := statusEx c code sid) h (pmono_eq hP rfl rfl rfl) rfl (StrKeep.refl _) (exNoMsg_append _ _ rfl)

theorem invMsg_eraseResp (hP : PMono P) {c : Conn α} (h : InvMsg P c) (msg : Msg α) : InvMsg P (eraseResp c msg) :=
  invMsg_frame (c' := eraseResp c msg) h (pmono_eq hP (by simp) (by simp) (by simp)) (by simp)
    (by simp; exact StrKeep.refl _) (by simp; exact ExNoMsg.refl _)

theorem invMsg_sclose (hP : PMono P) {c : Conn α} (hw : Inv c) (h : InvMsg P c) (req : Nat) (retry : Bool) :
    InvMsg P (sclose c req retry) := by
  unfold sclose
  split
  · exact h
  · split
    · exact h
    · rename_i s hs
      have hmem := (findStream_some hs).1
      split
      · rename_i ex hat hop
        split
        · refine invMsg_frame (c' := { (emit c ex .close).1 with streams := setStream { s with opn := false } (emit c ex .close).1.streams })
            h (pmono_eq hP rfl rfl rfl) rfl ?_ (exNoMsg_emitX _ hw.ex_ok _ _ rfl)
          exact strKeep_set (s := s) hmem rfl rfl rfl rfl rfl
        · refine invMsg_frame (c' := { c with streams := setStream { s with opn := false } c.streams })
            h (pmono_eq hP rfl rfl rfl) rfl ?_ (ExNoMsg.refl _)
          exact strKeep_set (s := s) hmem rfl rfl rfl rfl rfl
      · exact h

/-! ### WRITE -/

theorem invMsg_writeTo (hP : PMono P) {c : Conn α} (hw : Inv c) (h : InvMsg P c) {s : Stream α} (hmem : s ∈ c.streams) (msg : Msg α)
    (ctx : Option Nat) (ctxNew : Bool) (hrt : P c s.id ⟨msg, ctx⟩) : InvMsg P (writeTo c s msg ctx ctxNew).1 := by
  have hmono : ∀ {sid : Nat} {it : Item α}, P c sid it → P (writeTo c s msg ctx ctxNew).1 sid it :=
    fun hr => pmono_eq (c := c) (c' := (writeTo c s msg ctx ctxNew).1) hP rfl rfl rfl _ _ hr
  have hds := deliver_stream c.exs s ⟨msg, ctx⟩ (if wUse c ctxNew then some (s.id, s.next) else none) (wReqs s msg) (wDone s msg)
  have hstr : ∀ x ∈ (writeTo c s msg ctx ctxNew).1.streams,
      (x ∈ c.streams ∧ x.id ≠ s.id) ∨ x = (wDeliver c s msg ctx ctxNew).2.1 := by
    intro x hx
    simp only [writeTo] at hx
    split at hx
    · rw [mem_delStream] at hx; exact Or.inl hx
    · rcases mem_setStream hx with rfl | ⟨hxl, hne⟩
      · exact Or.inr rfl
      · simp only [wDeliver] at hne; rw [hds.1] at hne; exact Or.inl ⟨hxl, hne⟩
  refine ⟨?_, ?_, ?_⟩
  · intro x hx p hp it hit
    rcases hstr x hx with ⟨hxl, _⟩ | rfl
    · exact hmono (h.pend x hxl p hp it hit)
    · simp only [wDeliver] at hp ⊢
      rw [hds.1]
      rcases deliver_json _ _ _ _ _ _ p hp with hp' | ⟨pend, hp', rfl⟩
      · exact hmono (h.pend s hmem p hp' it hit)
      · rcases List.mem_append.mp hit with hit | hit
        · exact hmono (h.pend s hmem pend hp' it hit)
        · simp at hit; subst hit; exact hmono hrt
  · intro j e' he' o ho it hit
    simp only [writeTo, wDeliver] at he'
    obtain ⟨e, hej, hs1, r⟩ := deliver_items c.exs hw.ex_ok s ⟨msg, ctx⟩ _ _ _ j e' he'
    rw [hs1]
    rcases r o ho with ho' | ⟨hat, ho'⟩
    · exact hmono (h.ex j e hej o ho' it hit)
    · obtain ⟨e₀, hej0, hes⟩ := hw.att s hmem j hat
      rw [hej] at hej0; cases hej0
      rw [hes]
      rcases ho' with rfl | ⟨pend, hp, rfl⟩
      · simp [Out.items] at hit; subst hit; exact hmono hrt
      · simp only [Out.items] at hit
        rcases List.mem_append.mp hit with hit | hit
        · exact hmono (h.pend s hmem pend hp it hit)
        · simp at hit; subst hit; exact hmono hrt
  · intro sid log hl it hit
    simp only [writeTo] at hl
    split at hl
    · by_cases hk : sid = s.id
      · subst hk
        simp only [appendLog_same, Option.some.injEq] at hl
        subst hl
        rcases List.mem_append.mp hit with hit | hit
        · cases hc : c.store s.id with
          | none => rw [hc] at hit; simp at hit
          | some l => rw [hc] at hit; exact hmono (h.log s.id l hc it (by simpa using hit))
        · simp at hit; subst hit; exact hmono hrt
      · rw [appendLog_other _ _ _ _ hk] at hl; exact hmono (h.log sid log hl it hit)
    · exact hmono (h.log sid log hl it hit)

theorem invMsg_write (hP : PMono P) {c : Conn α} (hw : Inv c) (h : InvMsg P c) (msg : Msg α) (ctx : Option Nat) (ctxNew : Bool)
    (hroute : ∀ s, route c msg ctx = some s → P c s.id ⟨msg, ctx⟩) : InvMsg P (writeR c msg ctx ctxNew).1 := by
  unfold writeR
  split
  · exact h
  · split
    · exact invMsg_eraseResp hP h msg
    · rename_i s hs
      split
      · exact invMsg_eraseResp hP h msg
      · exact invMsg_writeTo hP (inv_eraseResp hw msg) (invMsg_eraseResp hP h msg) (by simp; exact route_mem hs) _ _ _
          (pmono_eq hP (by simp) (by simp) (by simp) _ _ (hroute s hs))

/-! ### POST -/

theorem invMsg_postPrimed (hP : PMono P) {c : Conn α} (hw : Inv c) (h10 : Inv10 c) (hb : InvBorn c) (h : InvMsg P c)
    (calls : List Nat) (listen : Bool) (ver : Ver) (budget : Option Nat) : InvMsg P (postPrimed c calls listen ver budget) := by
  obtain ⟨fs, fst, fn, fc, _, frq, fh⟩ := postPrimed_frame c calls listen ver budget
  have fb := postPrimed_born c calls listen ver budget
  have hnone : c.store c.nextSid = none := by
    cases hc : c.store c.nextSid with
    | none => rfl
    | some l => exact absurd (hw.store_lt c.nextSid (by rw [hc]; rfl)) (Nat.lt_irrefl _)
  have hext : Ext c (postPrimed c calls listen ver budget) := by
    refine ⟨fc, ?_, ?_⟩
    · intro sid v hv
      rw [fh]
      have : sid ≠ c.nextSid := fun hh => by have := h10.hist_lt sid (by rw [hv]; rfl); omega
      simp [this, hv]
    · intro sid x hx
      rw [fb]
      have : sid ≠ c.nextSid := fun hh => by have := (hb.lt sid x hx).1; omega
      simp [this, hx]
  have hmono : ∀ {sid : Nat} {it : Item α}, P c sid it → P (postPrimed c calls listen ver budget) sid it :=
    fun hr => hP _ _ hext _ _ hr
  refine ⟨?_, ?_, ?_⟩
  · intro s' hs' p hp it hit
    rw [fs] at hs'
    simp only [List.mem_append, List.mem_singleton] at hs'
    rcases hs' with hold | rfl
    · exact hmono (h.pend s' hold p hp it hit)
    · simp only [newStream] at hp
      split at hp
      · cases hp
      · cases hp; cases hit
  · intro j e' he' o ho it hit
    rcases postPrimed_exs _ _ _ _ _ _ _ he' with ⟨_, hold⟩ | ⟨_, _, _, hall⟩
    · exact hmono (h.ex j e' hold o ho it hit)
    · rw [hall] at ho
      split at ho
      · simp at ho; subst ho; cases hit
      · cases ho
  · intro sid log hl it hit
    rw [fst] at hl
    by_cases hk : sid = c.nextSid
    · subst hk; exact absurd hit (postStore_new_log listen ver hnone log hl it)
    · rw [postStore_other _ _ _ _ hk] at hl
      exact hmono (h.log sid log hl it hit)

theorem invMsg_post (hP : PMono P) {c : Conn α} (hw : Inv c) (h10 : Inv10 c) (hb : InvBorn c) (h : InvMsg P c)
    (calls : List Nat) (listen : Bool) (ver : Ver) (budget : Option Nat) : InvMsg P (post c calls listen ver budget) := by
  unfold post
  split
  · exact invMsg_statusEx hP h _ _
  · split
    · unfold postDup
      apply invMsg_statusEx hP
      have hnone : c.store c.nextSid = none := by
        cases hc : c.store c.nextSid with
        | none => rfl
        | some l => exact absurd (hw.store_lt c.nextSid (by rw [hc]; rfl)) (Nat.lt_irrefl _)
      have hmono : ∀ {sid : Nat} {it : Item α}, P c sid it →
          P ({ c with store := if opens c ver then openLog c.nextSid c.store else c.store, nextSid := c.nextSid + 1 } : Conn α) sid it :=
        fun hr => pmono_eq (c := c)
          (c' := ({ c with store := if opens c ver then openLog c.nextSid c.store else c.store, nextSid := c.nextSid + 1 } : Conn α))
          hP rfl rfl rfl _ _ hr
      refine ⟨?_, ?_, ?_⟩
      · intro s hs p hp it hit; exact hmono (h.pend s hs p hp it hit)
      · intro j e he o ho it hit; exact hmono (h.ex j e he o ho it hit)
      · intro sid log hl it hit
        simp only at hl
        split at hl
        · by_cases hk : sid = c.nextSid
          · subst hk; simp [hnone] at hl; subst hl; cases hit
          · rw [openLog_other _ _ _ hk] at hl; exact hmono (h.log sid log hl it hit)
        · exact hmono (h.log sid log hl it hit)
    · rw [postNew_eq]
      split
      · exact invMsg_cut hP (invMsg_postPrimed hP hw h10 hb h _ _ _ _) _
      · exact invMsg_postPrimed hP hw h10 hb h _ _ _ _

/-! ### GET -/

theorem invMsg_getGo (hP : PMono P) {c : Conn α} (hw : Inv c) (h : InvMsg P c) (sid frm : Nat) (ver : Ver) (budget : Option Nat)
    (items : List (Item α)) (hit : ∀ it ∈ items, P c sid it) : InvMsg P (getGo c sid frm ver budget items) := by
  obtain ⟨gs, gst, gn, grq, gh, gc, _, glen, gold, _⟩ := getOpen_frame c sid frm budget
  obtain ⟨e0, ge0, ges, _, _, gni⟩ := getOpen_new c sid frm budget
  have hw2 := getOpen_inv hw sid frm budget
  obtain ⟨fs, fst, fn, frq, fh, fc, _, _⟩ := replayLoop_frame (getOpen c sid frm budget) c.exs.length sid frm items
  have gb := getOpen_born c sid frm budget
  have fb := replayLoop_born (getOpen c sid frm budget) c.exs.length sid frm items
  have hexs : ∀ (j : Nat) (e1 : Exch α), (replayLoop (getOpen c sid frm budget) c.exs.length sid frm items).1.exs[j]? = some e1 →
      ∀ o ∈ e1.all, ∀ it ∈ o.items, P c e1.stream it := by
    intro j e1 h1 o ho it hio
    obtain ⟨e, hej, hs1, r⟩ := replayLoop_items sid c.exs.length items (getOpen c sid frm budget) frm hw2.ex_ok j e1 h1
    rw [hs1]
    by_cases hj : j = c.exs.length
    · subst hj
      rw [ge0] at hej; cases hej
      rw [ges]
      rcases r o ho with ho' | ⟨_, k', it', hm, rfl⟩
      · rw [gni o ho'] at hio; cases hio
      · simp [Out.items] at hio; rw [hio]; exact hit it' hm
    · have hlt : j < c.exs.length := by
        by_cases hh : j < c.exs.length
        · exact hh
        · rw [List.getElem?_eq_none (by omega)] at hej; cases hej
      rw [gold j hlt] at hej
      rcases r o ho with ho' | ⟨hje, _⟩
      · exact h.ex j e hej o ho' it hio
      · exact absurd hje hj
  have hstreams : (replayLoop (getOpen c sid frm budget) c.exs.length sid frm items).1.streams = c.streams := fs.trans gs
  have hfin : InvMsg P (finish (replayLoop (getOpen c sid frm budget) c.exs.length sid frm items).1 c.exs.length) := by
    refine invMsg_frame0 h (pmono_eq hP (by simp [finish, fc, gc]) (by simp [finish, fh, gh]) (by simp [finish, fb, gb]))
      (by simp [finish, fst, gst]) (by simp only [finish]; rw [hstreams]; exact StrKeep.refl _) ?_
    intro j e' he' o ho it hio
    simp only [finish] at he'
    obtain ⟨e₁, h1, s1, _, a1⟩ := finishX_all _ _ _ _ he'
    rw [s1]; rw [a1] at ho
    exact hexs j e₁ h1 o ho it hio
  unfold getGo
  split
  · split
    · exact hfin
    · rename_i s hsf
      have hmem := (findStream_some hsf).1
      split
      · exact hfin
      · have hA : InvMsg P ({ (replayLoop (getOpen c sid frm budget) c.exs.length sid frm items).1 with
            streams := setStream { s with attached := some c.exs.length, opn := true, next := frm + items.length, v1125 := ver.ge1125 }
              (replayLoop (getOpen c sid frm budget) c.exs.length sid frm items).1.streams } : Conn α) := by
          refine invMsg_frame0 h (pmono_eq hP (by simp [fc, gc]) (by simp [fh, gh]) (by simp [fb, gb])) (by simp [fst, gst]) ?_ ?_
          · simp only; rw [hstreams]
            exact strKeep_set (s := s) hmem rfl rfl rfl rfl rfl
          · intro j e' he' o ho it hio
            exact hexs j e' he' o ho it hio
        unfold attach
        split
        · exact invMsg_cut hP hA _
        · exact hA
  · exact hfin

theorem invMsg_get (hP : PMono P) {c : Conn α} (hw : Inv c) (h : InvMsg P c) (hdr : Hdr) (ver : Ver) (budget : Option Nat) :
    InvMsg P (get c hdr ver budget) := by
  unfold get
  split
  · exact invMsg_statusEx hP h _ _
  · split
    · exact invMsg_statusEx hP h _ _
    · split
      · exact invMsg_statusEx hP h _ _
      · split
        · exact invMsg_statusEx hP h _ _
        · rename_i items hitems
          refine invMsg_getGo hP hw h _ _ _ _ items ?_
          intro it hit
          obtain ⟨log, hlog, hmem⟩ := replayItems_mem hitems it hit
          exact h.log hdr.sid log hlog it hmem

/-- what a write label must guarantee: `P` holds on the stream the write is routed to -/
def RouteOK (P : Conn α → Nat → Item α → Prop) (c : Conn α) : Label α → Prop
  | .write msg ctx _ => ∀ s, route c msg ctx = some s → P c s.id ⟨msg, ctx⟩
  | .wroute msg ctx _ => ∀ s, route c msg ctx = some s → P c s.id ⟨msg, ctx⟩
  | _ => True

/-- `P` holds for every pending write on the stream it was routed to -/
def PendP (P : Conn α → Nat → Item α → Prop) (c : Conn α) : Prop := ∀ pw ∈ c.pendW, P c pw.sid ⟨pw.msg, pw.ctx⟩

theorem pendP_init (cfg : Cfg) : PendP P (init cfg : Conn α) := by intro pw h; simp [init] at h

theorem pendP_step (hP : PMono P) {c : Conn α} (h10 : Inv10 c) (hb : InvBorn c) (hpp : PendP P c) (l : Label α)
    (hl : RouteOK P c l) : PendP P (step c l) := by
  intro pw hp
  have hext := ext_step h10 hb l
  rcases step_pendW c l pw hp with h0 | ⟨msg, ctx, ctxNew, s, rfl, hs, rfl⟩
  · exact hP _ _ hext _ _ (hpp pw h0)
  · exact hP _ _ hext _ _ (hl s hs)

theorem invMsg_pendW {c : Conn α} (h : InvMsg P c) (l : List (PendW α)) (hm : ∀ sid it, P c sid it → P ({ c with pendW := l } : Conn α) sid it) :
    InvMsg P ({ c with pendW := l } : Conn α) :=
  ⟨fun s hs p hp it hit => hm _ _ (h.pend s hs p hp it hit), fun j e he o ho it hit => hm _ _ (h.ex j e he o ho it hit),
    fun sid log hl it hit => hm _ _ (h.log sid log hl it hit)⟩

theorem invMsg_wroute (hP : PMono P) {c : Conn α} (h : InvMsg P c) (msg : Msg α) (ctx : Option Nat) (ctxNew : Bool) :
    InvMsg P (wrouteR c msg ctx ctxNew).1 := by
  unfold wrouteR
  split
  · exact h
  · split
    · exact invMsg_eraseResp hP h msg
    · split
      · exact invMsg_eraseResp hP h msg
      · exact invMsg_pendW (invMsg_eraseResp hP h msg) _ (pmono_eq hP rfl rfl rfl)

theorem invMsg_orphan (hP : PMono P) {c : Conn α} (h : InvMsg P c) (pw : PendW α) (hrt : P c pw.sid ⟨pw.msg, pw.ctx⟩) :
    InvMsg P (orphanWrite c pw).1 := by
  have hmono : ∀ {sid : Nat} {it : Item α}, P c sid it → P (orphanWrite c pw).1 sid it :=
    fun hr => pmono_eq (c := c) (c' := (orphanWrite c pw).1) hP rfl rfl rfl _ _ hr
  refine ⟨fun s hs p hp it hit => hmono (h.pend s hs p hp it hit),
    fun j e he o ho it hit => hmono (h.ex j e he o ho it hit), ?_⟩
  intro sid log hl it hit
  simp only [orphanWrite] at hl
  split at hl
  · by_cases hk : sid = pw.sid
    · subst hk
      simp only [appendLog_same, Option.some.injEq] at hl
      subst hl
      rcases List.mem_append.mp hit with hit | hit
      · cases hc : c.store pw.sid with
        | none => rw [hc] at hit; simp at hit
        | some l => rw [hc] at hit; exact hmono (h.log pw.sid l hc it (by simpa using hit))
      · simp at hit; subst hit; exact hmono hrt
    · rw [appendLog_other _ _ _ _ hk] at hl; exact hmono (h.log sid log hl it hit)
  · exact hmono (h.log sid log hl it hit)

theorem invMsg_wdeliver (hP : PMono P) {c : Conn α} (hw : Inv c) (h : InvMsg P c) (hpp : PendP P c) (i : Nat) :
    InvMsg P (wdeliverR c i).1 := by
  unfold wdeliverR
  split
  · exact h
  · rename_i pw hpw
    have hrt := hpp pw (List.mem_of_getElem? hpw)
    have hm1 := pmono_eq (c := c) (c' := ({ c with pendW := c.pendW.eraseIdx i } : Conn α)) hP rfl rfl rfl
    have hw1 : Inv ({ c with pendW := c.pendW.eraseIdx i } : Conn α) :=
      inv_pendW hw _ (fun x hx => hw.pend_lt x (mem_eraseIdx hx))
    have h1 : InvMsg P ({ c with pendW := c.pendW.eraseIdx i } : Conn α) := invMsg_pendW h _ hm1
    split
    · rename_i s hs
      refine invMsg_writeTo hP hw1 h1 (findStream_some hs).1 _ _ _ ?_
      rw [(findStream_some hs).2]
      exact hm1 _ _ hrt
    · exact invMsg_orphan hP h1 pw (hm1 _ _ hrt)

theorem invMsg_step (hP : PMono P) {c : Conn α} (hw : Inv c) (h10 : Inv10 c) (hb : InvBorn c) (h : InvMsg P c) (hpp : PendP P c)
    (l : Label α) (hl : RouteOK P c l) : InvMsg P (step c l) := by
  unfold step stepR
  cases l with
  | post calls listen ver budget => exact invMsg_post hP hw h10 hb h _ _ _ _
  | write msg ctx ctxNew => exact invMsg_write hP hw h _ _ _ hl
  | cut ex => exact invMsg_cut hP h _
  | wfail ex => exact invMsg_wfail hP h _
  | get hdr ver budget => exact invMsg_get hP hw h _ _ _
  | sclose req retry => exact invMsg_sclose hP hw h _ _
  | «end» =>
    have hm := pmono_eq (c := c) (c' := ({ c with isDone := true } : Conn α)) hP rfl rfl rfl
    exact ⟨fun s hs p hp it hit => hm _ _ (h.pend s hs p hp it hit),
      fun j e he o ho it hit => hm _ _ (h.ex j e he o ho it hit),
      fun sid log hl it hit => hm _ _ (h.log sid log hl it hit)⟩
  | evict sid n =>
    have hm := pmono_eq (c := c) (c' := evict c sid n) hP rfl rfl rfl
    exact ⟨fun s hs p hp it hit => hm _ _ (h.pend s hs p hp it hit),
      fun j e he o ho it hit => hm _ _ (h.ex j e he o ho it hit),
      fun sid' log hl it hit => hm _ _ (h.log sid' log hl it hit)⟩
  | wroute msg ctx ctxNew => exact invMsg_wroute hP h _ _ _
  | wdeliver i => exact invMsg_wdeliver hP hw h hpp i

end Resume
