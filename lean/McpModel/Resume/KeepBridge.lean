import McpModel.Resume.HoldBridge
import McpModel.Resume.KeepMon
/-!
# C08 — the retention clause of the monitor: bridging theorems

* `get_400_reasons`: state level — `acquireStream`/`serveGET` answer 400 only for a malformed `Last-Event-ID`, for a
  `Last-Event-ID` without an event store, or when `EventStore.After` fails (session closed, stream unknown to the
  store, entries after the resume point evicted).
* `resume_of_known_stream_not_refused`: with a store, on an open session, for a stream the store holds a log of, a
  resume from any index `i` whose successor was not evicted (`purged ≤ i + 1`) is not answered 400 (it is served, or
  refused 409 while a live exchange holds the stream) — however many resumes came before, from whatever ids.
* `keepMonitor_accepts_model`: on the observation trace of **every** label list of the model (configuration with a
  store) `Mon.keepStep` does not raise `refusedKept`; in the model every eviction is an EVICT label, reported as forced.
* `Mon.refusedK_iff`, `Mon.keepStep_clause`, `Mon.keepStep_known`: the clause is raised exactly when the record has a GET
  naming a stream the store accepted an append for, answered 400, the session open, the store never over its limit.
-/
namespace Resume
open Mon
variable {α σ : Type}

/-! ### why a GET is answered 400 -/

theorem get_400_reasons (c : Conn α) (hdr : Hdr) (ver : Ver) (budget : Option Nat)
    (e : Exch α) (he : (get c hdr ver budget).exs[c.exs.length]? = some e) (h400 : e.kind = .status 400) :
    hdr = .bad ∨ (hdr.has = true ∧ c.cfg.hasStore = false) ∨ replayItems c hdr.sid hdr.from = none := by
  have hstatus : ∀ code, (statusEx c code).exs[c.exs.length]? = some e → code = 400 := by
    intro code h
    simp [statusEx] at h
    rw [← h] at h400
    simpa using h400
  unfold get at he
  split at he
  · rename_i hb; exact Or.inl hb
  · split at he
    · rename_i hs; exact Or.inr (Or.inl (by simpa using hs))
    · split at he
      · exact absurd (hstatus _ he) (by decide)
      · split at he
        · rename_i hr; exact Or.inr (Or.inr hr)
        · have := ((getGo_new c hdr.sid hdr.from ver budget _).2 e he).2.2.1
          rw [this] at h400; cases h400

/-- **C08, retention.**  With an event store, on an open session: a resume that names a stream the store holds a log of,
nothing of which was evicted, is not answered 400 — from whatever index, however many resumes (from whatever ids) were
served before.  (It is answered with the rest of the log, `exchange_output_is_log_segment`, or 409 while a live exchange
holds the stream, `resume_refused_only_while_claimed`.) -/
theorem resume_of_known_stream_not_refused (c : Conn α) (t i : Nat) (ver : Ver) (budget : Option Nat)
    (hst : c.cfg.hasStore = true) (hopen : c.isDone = false) (hk : (c.store t).isSome = true) (hp : c.purged t ≤ i + 1)
    (e : Exch α) (he : (get c (.ok t i) ver budget).exs[c.exs.length]? = some e) : e.kind ≠ .status 400 := by
  intro h400
  rcases get_400_reasons c (.ok t i) ver budget e he h400 with h | h | h
  · cases h
  · rw [hst] at h; cases h.2
  · simp only [replayItems, Hdr.sid, Hdr.from, hst, hopen] at h
    cases hs : c.store t with
    | none => rw [hs] at hk; cases hk
    | some log =>
      rw [hs] at h
      have hnot : ¬ (i + 1 < c.purged t) := by omega
      simp [hnot] at h

/-! ### the observation of a model step, as the retention clause sees it -/

def getOfLabel : Label α → Option (Nat × Nat)
  | .get (.ok t i) _ _ => some (t, i)
  | _ => none

def Label.isEvict : Label α → Bool
  | .evict _ _ => true
  | _ => false

/-- the forced evictions of a model step: every EVICT label is one (the model's store evicts only under pressure) -/
def forcedOf (sn : σ) (l : Label α) (c' : Conn α) : List (σ × Nat × Nat) :=
  match l with
  | .evict sid _ => [(sn, sid, c'.purged sid)]
  | _ => []

theorem forcedOf_nil (sn : σ) (l : Label α) (c' : Conn α) (hl : ∀ sid n, l ≠ .evict sid n) : forcedOf sn l c' = [] := by
  cases l with
  | evict sid n => exact absurd rfl (hl _ _)
  | _ => rfl

def kobsOf (sn : σ) (l : Label α) (c c' : Conn α) : KObs σ :=
  { sess := sn, get := getOfLabel l, codes := codesOf c c',
    appends := (appendsOf sn c c').map (fun a => (a.sess, a.stream)),
    forced := forcedOf sn l c', closed := [(sn, c'.isDone)] }

/-- one record per label -/
def ktraceOf1 (sn : σ) : Conn α → List (Label α) → List (KObs σ)
  | _, [] => []
  | c, l :: ls => kobsOf sn l c (step c l) :: ktraceOf1 sn (step c l) ls

variable [DecidableEq σ]

/-- the monitor's facts are the model's: a stream it knows has a log in the store, the store has evicted no more than it
was forced to, and `closed` is `isDone` -/
structure KeepRel (sn : σ) (m : KeepS σ) (c : Conn α) : Prop where
  store : c.cfg.hasStore = true
  known : ∀ t, m.known sn t = true → (c.store t).isSome = true
  first : ∀ t, c.purged t ≤ m.first sn t
  closed : m.closed sn = c.isDone

theorem store_isSome_of_append {sn : σ} {c c' : Conn α} {t : Nat}
    (h : (sn, t) ∈ (appendsOf sn c c').map (fun a => (a.sess, a.stream))) : (c'.store t).isSome = true := by
  rw [List.mem_map] at h
  obtain ⟨a, ha, hat⟩ := h
  unfold appendsOf at ha
  rw [List.mem_flatMap] at ha
  obtain ⟨sid, _, hx⟩ := ha
  rw [List.mem_map] at hx
  obtain ⟨x, hx, hax⟩ := hx
  have hsid : sid = t := by
    rw [← hax] at hat
    simpa using (Prod.mk.inj hat).2
  subst hsid
  cases hs : c'.store sid with
  | some _ => rfl
  | none => simp [newLog, hs] at hx

theorem keep_step_ok (sn : σ) {m : KeepS σ} {c : Conn α} (hw : Inv c) (hr : KeepRel sn m c) (l : Label α) :
    (keepStep m (kobsOf sn l c (step c l))).2 = none ∧ KeepRel sn (keepStep m (kobsOf sn l c (step c l))).1 (step c l) := by
  have hg := grow_step hw l
  refine ⟨?_, ?_⟩
  · -- no clause
    simp only [keepStep]
    split
    · rename_i href
      exfalso
      simp only [refusedK, kobsOf] at href
      cases l with
      | get hdr ver budget =>
        cases hdr with
        | ok t i =>
          simp only [getOfLabel, forcedOf, firstAfter, List.foldl_nil, Bool.and_eq_true, List.any_eq_true, Bool.not_eq_true',
            beq_iff_eq, decide_eq_true_eq] at href
          obtain ⟨⟨⟨⟨x, hx, hcode⟩, hkn⟩, hcl⟩, hpr⟩ := href
          obtain ⟨hlo, hhi, e, he, hkind⟩ := mem_codesOf hx
          have hlen : (step c (.get (.ok t i) ver budget)).exs.length = c.exs.length + 1 := get_length c _ ver budget
          have hk : x.1 = c.exs.length := by rw [hlen] at hhi; omega
          rw [hk] at he
          rw [hcode] at hkind
          have hopen : c.isDone = false := by rw [← hr.closed]; exact hcl
          exact resume_of_known_stream_not_refused c t i ver budget hr.store hopen (hr.known t hkn)
            (Nat.le_trans (hr.first t) (of_decide_eq_true hpr)) e he hkind
        | none => simp [getOfLabel] at href
        | bad => simp [getOfLabel] at href
      | _ => simp [getOfLabel] at href
    · rfl
  · -- the relation is kept
    refine ⟨by rw [hg.cfg]; exact hr.store, ?_, ?_, ?_⟩
    · intro t ht
      simp only [keepStep, kobsOf, knownAfter, Bool.or_eq_true] at ht
      rcases ht with ht | ht
      · have := hr.known t ht
        cases hs : c.store t with
        | none => rw [hs] at this; cases this
        | some log =>
          obtain ⟨more, hm⟩ := hg.store t log hs
          rw [hm]; rfl
      · exact store_isSome_of_append (by simpa using ht)
    · intro t
      by_cases hev : ∃ sid n, l = .evict sid n
      · obtain ⟨sid, n, rfl⟩ := hev
        simp only [keepStep, kobsOf, forcedOf, firstAfter, List.foldl_cons, List.foldl_nil, true_and]
        by_cases ht : t = sid
        · subst ht; simp only [if_true]; exact Nat.le_max_right _ _
        · simp only [ht, if_false]
          have : (step c (.evict sid n)).purged t = c.purged t := by simp [step, stepR, evict, ht]
          rw [this]; exact hr.first t
      · have hne : ∀ sid n, l ≠ .evict sid n := fun sid n h => hev ⟨sid, n, h⟩
        simp only [keepStep, kobsOf, forcedOf_nil sn l _ hne, firstAfter, List.foldl_nil]
        rw [step_purged_other c l hne]
        exact hr.first t
    · simp [keepStep, kobsOf, closedAfter]

theorem keepRel_init (cfg : Cfg) (hst : cfg.hasStore = true) (sn : σ) : KeepRel sn (keepInit : KeepS σ) (init cfg : Conn α) := by
  refine ⟨hst, ?_, ?_, ?_⟩
  · intro t h; simp [keepInit] at h
  · intro t; simp [init]
  · simp [keepInit, init]

theorem keep_accepts_from (sn : σ) : ∀ (ls : List (Label α)) (c : Conn α) (m : KeepS σ), Inv c → KeepRel sn m c →
    (keepRun m (ktraceOf1 sn c ls)).2 = none := by
  intro ls
  induction ls with
  | nil => intro c m _ _; rfl
  | cons l t ih =>
    intro c m hw hr
    obtain ⟨h1, h2⟩ := keep_step_ok sn hw hr l
    have := ih (step c l) _ (inv_step hw l) h2
    simp only [ktraceOf1, keepRun]
    rw [h1, this]; rfl

/-- **C08 bridging, retention clause.**  For every configuration with an event store and EVERY label list (any versions,
any `Last-Event-ID`s — the same one, older ones, newer ones, in any order and number —, write budgets, evictions, the
split write labels) the retention clause — "a resume naming a stream the store has appended to, on an open session, was
answered 400 although the store was never forced to evict the entry after the resume point" — is not raised on the
model's observation trace (one record per label; an EVICT label is an eviction forced by the size limit). -/
theorem keepMonitor_accepts_model (cfg : Cfg) (hst : cfg.hasStore = true) (sn : σ) (ls : List (Label α)) :
    (keepRun (keepInit : KeepS σ) (ktraceOf1 sn (init cfg : Conn α) ls)).2 = none :=
  keep_accepts_from sn ls (init cfg) _ (inv_init cfg) (keepRel_init cfg hst sn)

/-! ### what the clause means (on the monitor's ground truth) -/

namespace Mon

/-- `refusedKept` ⇔ the record contains a GET with a well-formed `Last-Event-ID` naming stream `t` and index `i`, an exchange
answered 400, the store accepted an append for `t` of that session before the record, the session's last snapshot did not
show it closed, and up to and including this record the store was not forced to evict beyond index `i + 1` of `t` -/
theorem refusedK_iff (m : KeepS σ) (o : KObs σ) :
    refusedK m o = true ↔
      ∃ t i, o.get = some (t, i) ∧ (∃ x ∈ o.codes, x.2 = 400) ∧ m.known o.sess t = true ∧ m.closed o.sess = false ∧
        firstAfter m.first o.forced o.sess t ≤ i + 1 := by
  unfold refusedK
  cases hg : o.get with
  | none => simp
  | some ti =>
    obtain ⟨t, i⟩ := ti
    simp only [Bool.and_eq_true, List.any_eq_true, beq_iff_eq, Bool.not_eq_true', decide_eq_true_eq, Option.some.injEq,
      Prod.mk.injEq]
    constructor
    · rintro ⟨⟨⟨hx, hk⟩, hc⟩, hp⟩
      exact ⟨t, i, ⟨rfl, rfl⟩, hx, hk, hc, hp⟩
    · rintro ⟨t', i', ⟨rfl, rfl⟩, hx, hk, hc, hp⟩
      exact ⟨⟨⟨hx, hk⟩, hc⟩, hp⟩

/-- ground truth of `first`: it only grows, and a forced eviction of `(s, t)` up to `n` raises it to at least `n` -/
theorem firstAfter_ge (first : σ → Nat → Nat) (forced : List (σ × Nat × Nat)) (s : σ) (t : Nat) :
    first s t ≤ firstAfter first forced s t := by
  unfold firstAfter
  induction forced generalizing first with
  | nil => exact Nat.le_refl _
  | cons x rest ih =>
    simp only [List.foldl_cons]
    refine Nat.le_trans ?_ (ih _)
    split
    · exact Nat.le_max_left _ _
    · exact Nat.le_refl _

theorem keepStep_clause (m : KeepS σ) (o : KObs σ) :
    (keepStep m o).2 = some .refusedKept ↔ refusedK m o = true := by
  simp only [keepStep]
  split <;> simp_all

/-- ground truth of `known`: exactly the (session, stream) pairs of the appends reported so far -/
theorem keepStep_known (m : KeepS σ) (o : KObs σ) (s : σ) (t : Nat) :
    (keepStep m o).1.known s t = true ↔ m.known s t = true ∨ (s, t) ∈ o.appends := by
  simp [keepStep, knownAfter]

end Mon

/-- non-vacuity: one append, then a resume from its id answered 400 without any pressure is flagged -/
example : (keepRun (keepInit : KeepS Nat)
    [{ sess := 1, get := none, codes := [], appends := [(1, 2)], forced := [], closed := [(1, false)] },
     { sess := 1, get := some (2, 0), codes := [(5, 400)], appends := [], forced := [], closed := [(1, false)] }]).2
    = some .refusedKept := by decide

/-- … not flagged once the store was forced to evict the entry after the resume point, still flagged when the forced
eviction of that stream stopped before it or concerned another stream -/
example : (keepRun (keepInit : KeepS Nat)
    [{ sess := 1, get := none, codes := [], appends := [(1, 2)], forced := [(1, 2, 2)], closed := [(1, false)] },
     { sess := 1, get := some (2, 0), codes := [(5, 400)], appends := [], forced := [], closed := [(1, false)] }]).2
    = none := by decide
example : (keepRun (keepInit : KeepS Nat)
    [{ sess := 1, get := none, codes := [], appends := [(1, 2)], forced := [(1, 2, 1), (1, 3, 9)], closed := [(1, false)] },
     { sess := 1, get := some (2, 0), codes := [(5, 400)], appends := [], forced := [], closed := [(1, false)] }]).2
    = some .refusedKept := by decide

end Resume
