import McpModel.Resume.Bridge10
import McpModel.Resume.Accept08
/-!
# C10 — the monitor accepts the model (bridging theorem)

`monitor_accepts_model_C10`: for **every** well-tagged label list (all configurations: stateful/stateless,
SSE/JSON, with or without an event store; any order of POSTs, writes, cuts, resumes, closes), the typed
monitor core raises no C10 clause on the model's own observation trace (one record per label).
`WellTaggedRun` is a statement about the tags the environment puts on the payloads, not about routing.
-/
namespace Resume
open Mon
variable {α σ : Type} [DecidableEq α] [DecidableEq σ]

/-! ### new creators point at new exchanges -/

def BornNew (c c' : Conn α) : Prop := ∀ t x, c'.born t = some x → c.born t = some x ∨ c.exs.length ≤ x

theorem bornNew_step (c : Conn α) (l : Label α) : BornNew c (step c l) := by
  intro t x hx
  cases l with
  | post calls listen ver b =>
    have hx' : (post c calls listen ver b).born t = some x := hx
    rcases post_ghost c calls listen ver b with ⟨h, _⟩ | ⟨h, _⟩
    · rw [h] at hx'; exact Or.inl hx'
    · rw [h] at hx'
      simp only at hx'
      split at hx'
      · cases hx'; exact Or.inr (Nat.le_refl _)
      · exact Or.inl hx'
  | write _ _ _ => rw [(step_ghost_other c _ (by intros; simp)).1] at hx; exact Or.inl hx
  | cut _ => exact Or.inl hx
  | wfail _ => exact Or.inl hx
  | get _ _ _ => rw [(step_ghost_other c _ (by intros; simp)).1] at hx; exact Or.inl hx
  | sclose _ _ => rw [(step_ghost_other c _ (by intros; simp)).1] at hx; exact Or.inl hx
  | «end» => exact Or.inl hx
  | evict _ _ => exact Or.inl hx
  | wroute _ _ _ => rw [(step_ghost_other c _ (by intros; simp)).1] at hx; exact Or.inl hx
  | wdeliver _ => rw [(step_ghost_other c _ (by intros; simp)).1] at hx; exact Or.inl hx

theorem bornNew_run {c : Conn α} (hw : Inv c) (ls : List (Label α)) : BornNew c (run c ls) := by
  induction ls generalizing c with
  | nil => intro t x hx; exact Or.inl hx
  | cons l rest ih =>
    simp only [run, List.foldl_cons]
    intro t x hx
    rcases ih (inv_step hw l) t x hx with h | h
    · exact bornNew_step c l t x h
    · have := (grow_step hw l).exs.1
      exact Or.inr (by omega)

theorem ext_run {c : Conn α} (hw : Inv c) (h10 : Inv10 c) (hpr : PendRouted c) (hb : InvBorn c) (ls : List (Label α)) :
    Ext c (run c ls) := by
  induction ls generalizing c with
  | nil => exact Ext.refl c
  | cons l rest ih =>
    simp only [run, List.foldl_cons]
    exact (ext_step h10 hb l).trans (ih (inv_step hw l) (inv10_step hw h10 hpr l) (pendRouted_step h10 hpr l) (invBorn_step hw hb l))

/-! ### record-level facts for C10 -/

structure RecFacts10 (og : Origin) (c c' : Conn α) : Prop where
  new1 : c'.exs.length ≤ c.exs.length + 1
  postX : og.isGet = false → ∀ e, c'.exs[c.exs.length]? = some e → e.live →
    c'.born e.stream = some c.exs.length ∧
    ∀ calls li, c'.hist e.stream = some (calls, li) → og.isListen = li ∧ ∀ r ∈ calls, r ∈ og.ids
  getX : og.isGet = true →
    (∀ e, c'.exs[c.exs.length]? = some e → e.live → og.stream = some e.stream) ∧ ∀ t, c'.born t ≠ some c.exs.length

theorem mem_dedup {r : Nat} {l : List Nat} (h : r ∈ dedup l) : r ∈ l := by
  induction l with
  | nil => cases h
  | cons a t ih =>
    simp only [dedup] at h
    split at h
    · exact List.mem_cons_of_mem _ (ih h)
    · rcases List.mem_cons.mp h with rfl | h'
      · exact List.mem_cons_self
      · exact List.mem_cons_of_mem _ (ih h')

theorem born_lt_exs {c : Conn α} (hb : InvBorn c) {t x : Nat} (h : c.born t = some x) : x < c.exs.length := by
  obtain ⟨e, he, _⟩ := hb.ex t x h
  by_cases hh : x < c.exs.length
  · exact hh
  · rw [List.getElem?_eq_none (by omega)] at he; cases he

theorem get_new10 (c : Conn α) (hdr : Hdr) (ver : Ver) (budget : Option Nat) :
    (get c hdr ver budget).exs.length = c.exs.length + 1 ∧
    ∀ e, (get c hdr ver budget).exs[c.exs.length]? = some e → e.live → e.stream = hdr.sid ∧ hdr ≠ .bad := by
  have hstatus : ∀ code, (statusEx c code).exs.length = c.exs.length + 1 ∧
      ∀ e, (statusEx c code).exs[c.exs.length]? = some e → e.live → e.stream = hdr.sid ∧ hdr ≠ .bad := by
    intro code
    refine ⟨by simp [statusEx], ?_⟩
    intro e he hl
    simp [statusEx] at he; subst he
    rcases hl with h | h <;> cases h
  unfold get
  split
  · exact hstatus _
  · rename_i hnb
    split
    · exact hstatus _
    · split
      · exact hstatus _
      · split
        · exact hstatus _
        · rename_i items _
          obtain ⟨hlen, hnew⟩ := getGo_new c hdr.sid hdr.from ver budget items
          exact ⟨hlen, fun e he _ => ⟨(hnew e he).1, hnb⟩⟩

theorem recFacts10_step {c : Conn α} (hb : InvBorn c) (l : Label α) : RecFacts10 (originOfLabel l) c (step c l) := by
  by_cases hop : l.opens = false
  · have hlen := step_exs_length_other c l hop
    have hnone : (step c l).exs[c.exs.length]? = none := List.getElem?_eq_none (by omega)
    have hog : originOfLabel l = .other := by
      cases l <;> first | rfl | cases hop
    rw [hog]
    exact ⟨by omega, fun _ e he _ => (by rw [hnone] at he; cases he), fun h => (by cases h)⟩
  · cases l with
    | post calls listen ver budget =>
      have hlen := (post_new c calls listen ver budget).1
      refine ⟨by show (post c calls listen ver budget).exs.length ≤ _; omega, ?_, fun h => (by cases h)⟩
      intro _ e he hl
      have he' : (post c calls listen ver budget).exs[c.exs.length]? = some e := he
      rcases post_ghost c calls listen ver budget with ⟨_, _, _, hnl, _⟩ | ⟨hbo, hhi, _, e2, he2, hs2, _, _⟩
      · exact absurd hl (hnl e he')
      · rw [he'] at he2; cases he2
        show (post c calls listen ver budget).born e.stream = some c.exs.length ∧
          ∀ calls' li, (post c calls listen ver budget).hist e.stream = some (calls', li) → listen = li ∧ ∀ r ∈ calls', r ∈ calls
        rw [hbo, hhi, hs2]
        refine ⟨by simp, ?_⟩
        intro calls' li hh
        simp only [if_true, Option.some.injEq, Prod.mk.injEq] at hh
        obtain ⟨rfl, rfl⟩ := hh
        exact ⟨rfl, fun r hr => mem_dedup hr⟩
    | get hdr ver budget =>
      obtain ⟨hlen, hnew⟩ := get_new10 c hdr ver budget
      refine ⟨by show (get c hdr ver budget).exs.length ≤ _; omega, fun h => (by cases h), ?_⟩
      intro _
      refine ⟨?_, ?_⟩
      · intro e he hl
        obtain ⟨hs, hnb⟩ := hnew e he hl
        rw [hs]
        cases hdr with
        | none => rfl
        | bad => exact absurd rfl hnb
        | ok s i => rfl
      · intro t ht
        have hbe : (step c (.get hdr ver budget)).born = c.born := (step_ghost_other c _ (by intros; simp)).1
        rw [hbe] at ht
        have := born_lt_exs hb ht
        omega
    | write _ _ _ => exact absurd rfl hop
    | cut _ => exact absurd rfl hop
    | wfail _ => exact absurd rfl hop
    | sclose _ _ => exact absurd rfl hop
    | «end» => exact absurd rfl hop
    | evict _ _ => exact absurd rfl hop
    | wroute _ _ _ => exact absurd rfl hop
    | wdeliver _ => exact absurd rfl hop

/-! ### the passes before the events -/

theorem relX_grow {sn : σ} {c c' : Conn α} (hb : InvBorn c) (hext : Ext c c') (hbn : BornNew c c') {j : Nat} {me : MEx σ} {e e' : Exch α}
    (hj : j < c.exs.length) (r : RelX sn c j me e) (g : GrowE e e') : RelX sn c' j me e' := by
  have hl : e'.live ↔ e.live := by unfold Exch.live; rw [g.kind]
  refine ⟨r.sess, ?_, ?_, ?_, ?_, ?_⟩
  · intro hg hl'; rw [g.stream]; exact r.getS hg (hl.mp hl')
  · intro hg t ht
    rcases hbn t j ht with h | h
    · exact r.getNB hg t h
    · omega
  · intro hg hl'; rw [g.stream]; exact hext.born _ _ (r.post hg (hl.mp hl'))
  · intro hbo calls li hh
    rw [g.stream] at hbo hh
    have hbo0 : c.born e.stream = some j := by
      rcases hbn _ _ hbo with h | h
      · exact h
      · omega
    obtain ⟨v, hv⟩ := Option.isSome_iff_exists.mp (hb.bh _ _ hbo0)
    have := hext.hist _ _ hv
    rw [hh] at this; cases this
    exact r.info hbo0 calls li hv
  · intro hl' t ht; rw [g.stream]; exact r.str (hl.mp hl') t ht

theorem foldl_frame {A : Type} (f : MonS σ α → A → MonS σ α)
    (hf : ∀ m a, (f m a).jsonMode = m.jsonMode ∧ (f m a).posts = m.posts) :
    ∀ (l : List A) (m : MonS σ α), (l.foldl f m).jsonMode = m.jsonMode ∧ (l.foldl f m).posts = m.posts := by
  intro l
  induction l with
  | nil => intro m; exact ⟨rfl, rfl⟩
  | cons a t ih =>
    intro m
    simp only [List.foldl_cons]
    exact ⟨(ih _).1.trans (hf m a).1, (ih _).2.trans (hf m a).2⟩

theorem monRel10_open {sn : σ} {og : Origin} {c c' : Conn α} (hb : InvBorn c) (hb' : InvBorn c') (hg : Grow c c') (hext : Ext c c')
    (hbn : BornNew c c') (hf : RecFacts10 og c c') {m : MonS σ α} (hm : MonRel10 sn m c) :
    MonRel10 sn (openAll m (obsOf sn og c c')) c' := by
  obtain ⟨h1, _, _⟩ := openAll_spec sn og c c' hg m
  obtain ⟨hj, hp⟩ := foldl_frame (fun (m : MonS σ α) (x : Nat × Bool) => m.putEx x.1 (mkEx (obsOf sn og c c') x.2))
    (fun m a => ⟨rfl, rfl⟩) (obsOf sn og c c').opened m
  refine ⟨?_, ?_, ?_⟩
  · show (openAll m (obsOf sn og c c')).jsonMode = _
    unfold openAll; rw [hj, hm.json, hext.cfg]
  · intro j e' he'
    have hjlt : j < c'.exs.length := by
      by_cases hh : j < c'.exs.length
      · exact hh
      · rw [List.getElem?_eq_none (by omega)] at he'; cases he'
    rw [h1 j]
    by_cases hj' : j < c.exs.length
    · rw [if_neg (by omega)]
      obtain ⟨e'', he'', g⟩ := hg.exs.2 j c.exs[j] (List.getElem?_eq_getElem hj')
      rw [he'] at he''; cases he''
      obtain ⟨me, hme, r⟩ := hm.exs j c.exs[j] (List.getElem?_eq_getElem hj')
      exact ⟨me, hme, relX_grow hb hext hbn hj' r g⟩
    · rw [if_pos ⟨by omega, hjlt⟩]
      have hjn : j = c.exs.length := by have := hf.new1; omega
      subst hjn
      refine ⟨_, rfl, ?_⟩
      refine ⟨rfl, ?_, ?_, ?_, ?_, ?_⟩
      · intro hg' hl; exact (hf.getX hg').1 e' he' hl
      · intro hg'; exact (hf.getX hg').2
      · intro hg' hl; exact (hf.postX hg' e' he' hl).1
      · intro hbo calls li hh
        obtain ⟨e2, he2, _, hl2, _⟩ := hb'.ex _ _ hbo
        rw [he'] at he2; cases he2
        cases hg' : og.isGet with
        | false => exact (hf.postX hg' e' he' hl2).2 calls li hh
        | true => exact absurd hbo ((hf.getX hg').2 _)
      · intro hl t ht
        have ho : (obsOf sn og c c').origin = og := rfl
        cases hg' : og.isGet with
        | false =>
          have : og.stream = none := by
            cases og with
            | post _ _ _ => rfl
            | get _ _ => cases hg'
            | other => rfl
          simp only [mkEx, ho, this] at ht; cases ht
        | true =>
          have := (hf.getX hg').1 e' he' hl
          simp only [mkEx, ho] at ht
          rw [this] at ht; cases ht; rfl
  · intro t p hp'
    have : (openAll m (obsOf sn og c c')).posts = m.posts := by unfold openAll; exact hp
    rw [this] at hp'
    exact hext.born t p (hm.posts t p hp')

theorem learnRow_ok10 {sn : σ} {c : Conn α} (hw : Inv c) (hk : InvK c) (o : Obs σ α) {m : MonS σ α} (hm : MonRel10 sn m c)
    (s : Stream α) (hs : s ∈ c.streams) : MonRel10 sn (learnRow o sn m (rowOf s)) c := by
  unfold learnRow
  simp only [rowOf]
  split
  · exact hm
  · rename_i k hat
    split
    · exact hm
    · rename_i me hme
      split
      · rename_i hc
        simp only [Bool.and_eq_true, Bool.not_eq_true', decide_eq_true_eq] at hc
        obtain ⟨e, he, hes⟩ := hw.att s hs k hat
        obtain ⟨me', hme', r⟩ := hm.exs k e he
        rw [hme] at hme'; cases hme'
        have hlive := invK_live hk hs hat he
        have hbo := r.post hc.1.2 hlive
        rw [hes] at hbo
        refine bindPost_rel (monRel10_putEx hm k _ ?_) sn hbo
        intro e1 he1
        rw [he] at he1; cases he1
        exact ⟨r.sess, fun hg => (by rw [hc.1.2] at hg; cases hg), r.getNB, r.post, r.info, fun _ t ht => (by cases ht; exact hes.symm)⟩
      · exact hm

theorem learnRows_ok10 {sn : σ} {og : Origin} {c0 c : Conn α} (hw : Inv c) (hk : InvK c) {m : MonS σ α} (hm : MonRel10 sn m c) :
    MonRel10 sn (learnRows m (obsOf sn og c0 c)) c := by
  have key : ∀ (l : List (Stream α)), (∀ s ∈ l, s ∈ c.streams) → ∀ (m : MonS σ α), MonRel10 sn m c →
      MonRel10 sn ((l.map rowOf).foldl (learnRow (obsOf sn og c0 c) sn) m) c := by
    intro l
    induction l with
    | nil => intro _ m h; exact h
    | cons s t ih =>
      intro hl m h
      simp only [List.map_cons, List.foldl_cons]
      exact ih (fun x hx => hl x (List.mem_cons_of_mem _ hx)) _ (learnRow_ok10 hw hk _ h s (hl s List.mem_cons_self))
  have := key c.streams (fun _ h => h) m hm
  simpa [learnRows, obsOf] using this

theorem learnId_ok10 {sn : σ} {c : Conn α} (hk : InvK c) (hid : InvId c) (o : Obs σ α) {m : MonS σ α} (hm : MonRel10 sn m c)
    (x : Nat × Bool × Out α) (e : Exch α) (he : c.exs[x.1]? = some e) (hx : x.2.2 ∈ e.all) :
    MonRel10 sn (learnId o m (toSent x)) c := by
  unfold learnId
  simp only [toSent]
  split
  · rename_i me t i hme hidx
    by_cases hc : (fresh o x.1 && !me.isGet && me.stream.isNone) = true
    · simp only [hc, if_true]
      simp only [Bool.and_eq_true, Bool.not_eq_true'] at hc
      obtain ⟨me', hme', r⟩ := hm.exs x.1 e he
      rw [hme] at hme'; cases hme'
      have hlive : e.live := by
        by_cases hl : e.live
        · exact hl
        · have := (hk x.1 e he hl).1; rw [this] at hx; cases hx
      have ht : t = e.stream := by
        apply hid x.1 e he _ hx t
        cases hxo : x.2.2 with
        | comment => rw [hxo] at hidx; simp [toMOut, MOut.evId] at hidx
        | close => rw [hxo] at hidx; simp [toMOut, MOut.evId] at hidx
        | json items => rw [hxo] at hidx; simp [toMOut, MOut.evId] at hidx
        | prime sid idx =>
          rw [hxo] at hidx
          simp only [toMOut, MOut.evId, EvId.ok.injEq] at hidx
          simp [Out.sidOf, hidx.1]
        | message id it =>
          rw [hxo] at hidx
          cases id with
          | none => simp [toMOut, MOut.evId, toEvId] at hidx
          | some p =>
            obtain ⟨a, b⟩ := p
            simp only [toMOut, MOut.evId, toEvId, EvId.ok.injEq] at hidx
            simp [Out.sidOf, hidx.1]
      have hbo := r.post hc.1.2 hlive
      rw [← ht] at hbo
      rw [r.sess]
      refine bindPost_rel (monRel10_putEx hm x.1 _ ?_) sn hbo
      intro e1 he1
      rw [he] at he1; cases he1
      exact ⟨by simp [r.sess], fun hg => (by rw [hc.1.2] at hg; cases hg), r.getNB, r.post, r.info, fun _ t' ht' => (by cases ht'; exact ht)⟩
    · simp only [hc]
      exact hm
  · exact hm

theorem learnIds_ok10 {sn : σ} {og : Origin} {c0 c : Conn α} (hk : InvK c) (hid : InvId c) {m : MonS σ α} (hm : MonRel10 sn m c) :
    MonRel10 sn (learnIds m (obsOf sn og c0 c)) c := by
  have key : ∀ (l : List (Nat × Bool × Out α)), (∀ x ∈ l, x ∈ sentM c0 c) → ∀ (m : MonS σ α), MonRel10 sn m c →
      MonRel10 sn ((l.map toSent).foldl (learnId (obsOf sn og c0 c)) m) c := by
    intro l
    induction l with
    | nil => intro _ m h; exact h
    | cons x t ih =>
      intro hl m h
      obtain ⟨e, he, hx⟩ := mem_sentM (hl x List.mem_cons_self)
      simp only [List.map_cons, List.foldl_cons]
      exact ih (fun y hy => hl y (List.mem_cons_of_mem _ hy)) _ (learnId_ok10 hk hid _ h x e he hx)
  have := key (sentM c0 c) (fun _ h => h) m hm
  simpa [learnIds, obsOf] using this

/-! ### one record, a whole run -/

theorem record_ok10 (prov : α → Prov σ) {sn : σ} {og : Origin} {c c' : Conn α} (hb : InvBorn c) (hi' : Inv10All prov sn c')
    (hg : Grow c c') (hext : Ext c c') (hbn : BornNew c c') (hf : RecFacts10 og c c') {m : MonS σ α} (hm : MonRel10 sn m c) :
    (Mon.step prov m (obsOf sn og c c')).2.v10 = none ∧ MonRel10 sn (Mon.step prov m (obsOf sn og c c')).1 c' := by
  have h1 := monRel10_open hb hi'.b hg hext hbn hf hm
  have h2 := learnRows_ok10 (og := og) (c0 := c) hi'.w hi'.k h1
  have h3 := learnIds_ok10 (og := og) (c0 := c) hi'.k hi'.id h2
  obtain ⟨a1, a2⟩ := appends_ok10 hi' (appendsOf sn c c') (appendsOf_tagged hi') _ h3
  obtain ⟨e1, e2⟩ := events_ok10 (c0 := c) hi' (sentM c c') (fun _ h => h) _ a2
  rw [step_obsOf]
  obtain ⟨f1, _, _, f4, f5⟩ := applyPurges_frame (purgesOf sn c c') (foldV (evStep prov) (foldV (appendOne prov)
      (learnIds (learnRows (openAll m (obsOf sn og c c')) (obsOf sn og c c')) (obsOf sn og c c')) (appendsOf sn c c')).1
      ((sentM c c').map toSent)).1
  refine ⟨?_, ⟨by rw [f5]; exact e2.json, by rw [f1]; exact e2.exs, by rw [f4]; exact e2.posts⟩⟩
  simp only [Viol.or, a1, e1]; rfl

def WellTaggedGroups (prov : α → Prov σ) (sn : σ) : Conn α → List (List (Label α)) → Prop
  | _, [] => True
  | c, g :: gs => WellTaggedRun prov sn c g ∧ RecFacts10 (originOfGroup g) c (run c g) ∧ WellTaggedGroups prov sn (run c g) gs

theorem inv10All_run {prov : α → Prov σ} {sn : σ} {c : Conn α} (hi : Inv10All prov sn c) (ls : List (Label α))
    (hl : WellTaggedRun prov sn c ls) : Inv10All prov sn (run c ls) :=
  ⟨inv_runFrom hi.w ls, invK_runFrom hi.w hi.k ls, (inv10_runFrom hi.w hi.r hi.pr ls).1, invBorn_runFrom hi.w hi.b ls,
    invJ_runFrom hi.w hi.r hi.pr hi.b hi.j ls, invId_runFrom hi.w hi.id ls, (tagged_runFrom hi.w hi.r hi.pr hi.b hi.tag hi.pp ls hl).1,
    (inv10_runFrom hi.w hi.r hi.pr ls).2, (tagged_runFrom hi.w hi.r hi.pr hi.b hi.tag hi.pp ls hl).2⟩

theorem accepts10_from (prov : α → Prov σ) (sn : σ) : ∀ (gs : List (List (Label α))) (c : Conn α) (m : MonS σ α),
    Inv10All prov sn c → MonRel10 sn m c → WellTaggedGroups prov sn c gs → (runV prov m (traceOf sn c gs)).2.v10 = none := by
  intro gs
  induction gs with
  | nil => intro c m _ _ _; rfl
  | cons g t ih =>
    intro c m hi hm hok
    obtain ⟨hwt, hf, hrest⟩ := hok
    have hi' := inv10All_run hi g hwt
    obtain ⟨v, hm'⟩ := record_ok10 prov hi.b hi' (grow_run hi.w g) (ext_run hi.w hi.r hi.pr hi.b g) (bornNew_run hi.w g) hf hm
    have := ih (run c g) _ hi' hm' hrest
    simp only [traceOf, runV, foldV] at this ⊢
    simp [Viol.or, v, this]

theorem inv10All_init (prov : α → Prov σ) (sn : σ) (cfg : Cfg) : Inv10All prov sn (init cfg : Conn α) :=
  ⟨inv_init cfg, invK_init cfg, inv10_init cfg, invBorn_init cfg, invJ_init cfg, invId_init cfg, invMsg_init cfg, pendRouted_init cfg, pendP_init cfg⟩

theorem monRel10_init (cfg : Cfg) (sn : σ) : MonRel10 sn (Mon.init cfg.hasStore cfg.jsonResponse : MonS σ α) (init cfg) := by
  refine ⟨rfl, ?_, ?_⟩
  · intro j e he; simp [init] at he
  · intro t p hp; simp [Mon.init] at hp

/-- **C10 bridging, grouped records.** -/
theorem monitorC10_accepts_groups (cfg : Cfg) (sn : σ) (prov : α → Prov σ) (gs : List (List (Label α)))
    (hok : WellTaggedGroups prov sn (init cfg : Conn α) gs) :
    (runV prov (Mon.init cfg.hasStore cfg.jsonResponse) (traceOf sn (init cfg) gs)).2.v10 = none :=
  accepts10_from prov sn gs (init cfg) _ (inv10All_init prov sn cfg) (monRel10_init cfg sn) hok

theorem wellTaggedGroups_singletons {prov : α → Prov σ} {sn : σ} : ∀ (ls : List (Label α)) (c : Conn α), Inv c → InvBorn c →
    WellTaggedRun prov sn c ls → WellTaggedGroups prov sn c (ls.map fun l => [l]) := by
  intro ls
  induction ls with
  | nil => intro _ _ _ _; trivial
  | cons l t ih =>
    intro c hw hb hl
    refine ⟨⟨hl.1, trivial⟩, ?_, ?_⟩
    · rw [originOfGroup_single]
      exact recFacts10_step hb l
    · exact ih (step c l) (inv_step hw l) (invBorn_step hw hb l) hl.2

/-- **C10 bridging theorem.**  For every configuration, every label list whose payload tags are truthful
(`WellTaggedRun`) and any session name: the C10 monitor raises no clause on the observation trace of the model
(one record per label) — every message the model puts on an exchange, into a JSON body or into the store passes
the routing check on its provenance.  A C10 violation therefore needs an observation no model run produces. -/
theorem monitor_accepts_model_C10 (cfg : Cfg) (sn : σ) (prov : α → Prov σ) (ls : List (Label α))
    (hl : WellTaggedRun prov sn (init cfg : Conn α) ls) :
    (runV prov (Mon.init cfg.hasStore cfg.jsonResponse) (traceOf1 sn (init cfg) ls)).2.v10 = none :=
  monitorC10_accepts_groups cfg sn prov _ (wellTaggedGroups_singletons ls (init cfg) (inv_init cfg) (invBorn_init cfg) hl)

end Resume
