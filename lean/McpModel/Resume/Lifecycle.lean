import McpModel.Resume.KeepBridge
/-!
# C10 / C02 — the lifetime of a `requestStreams` entry

"`requestStreams`: request id ↦ logical stream id, deleted when the response is written."  The theorems here say that
NOTHING else touches the entry of a registered request, for every label of the model:

* `registration_removed_only_by_response`: if `requestStreams[r] = sid`, then after any label that is not the write
  (or the routing half of the write) of a response to `r`, still `requestStreams[r] = sid` — whatever arrives on the
  session meanwhile: POSTs without calls (every client notification, `notifications/cancelled` for `r` included: op
  `cancel` of the harness), POSTs that try to reuse `r` (refused), the loss of the POST's HTTP exchange (CUT — with or
  without an event store: the request is not re-homed on the standalone stream), failing writers, resumes, closes,
  evictions, other writes.
* `registration_kept_run`: the same over any label list without such a write.
* `response_routed_to_registered_stream`: hence the response of `r`, whenever it comes, is routed to the stream `sid`
  the POST registered (if it is still there), never to another stream.
* `notification_post_frame`: a POST without calls changes neither `streams` nor `requestStreams` nor the store.
* `cut_keeps_route_target`: the loss of an exchange does not change which stream any message is routed to.
-/
namespace Resume
variable {α : Type}

def Label.answers (r : Nat) : Label α → Bool
  | .write (.resp id _) _ _ => id == r
  | .wroute (.resp id _) _ _ => id == r
  | _ => false

theorem eraseResp_reqStreams_ne (c : Conn α) (msg : Msg α) (r : Nat) (h : msg.respId ≠ some r) :
    (eraseResp c msg).reqStreams r = c.reqStreams r := by
  cases msg with
  | resp id p =>
    simp only [eraseResp]
    have : r ≠ id := by intro hh; subst hh; exact h rfl
    simp [this]
  | notif p => rfl
  | call p => rfl

theorem writeTo_reqStreams (c : Conn α) (s : Stream α) (msg : Msg α) (ctx : Option Nat) (ctxNew : Bool) :
    (writeTo c s msg ctx ctxNew).1.reqStreams = c.reqStreams := rfl

theorem attach_reqStreams (c : Conn α) (s : Stream α) (ex next : Nat) (ver : Ver) (closed : Bool) :
    (attach c s ex next ver closed).reqStreams = c.reqStreams := by
  unfold attach; split <;> rfl

theorem getGo_reqStreams (c : Conn α) (sid frm : Nat) (ver : Ver) (budget : Option Nat) (items : List (Item α)) :
    (getGo c sid frm ver budget items).reqStreams = c.reqStreams := by
  have h1 := (replayLoop_frame (getOpen c sid frm budget) c.exs.length sid frm items).2.2.2.1
  have h2 := (getOpen_frame c sid frm budget).2.2.2.1
  unfold getGo
  split
  · split
    · simp [finish, h1, h2]
    · split
      · simp [finish, h1, h2]
      · rw [attach_reqStreams, h1, h2]
  · simp [finish, h1, h2]

theorem get_reqStreams (c : Conn α) (hdr : Hdr) (ver : Ver) (budget : Option Nat) :
    (get c hdr ver budget).reqStreams = c.reqStreams := by
  unfold get
  split
  · rfl
  · split
    · rfl
    · split
      · rfl
      · split
        · rfl
        · exact getGo_reqStreams _ _ _ _ _ _

theorem sclose_reqStreams (c : Conn α) (req : Nat) (retry : Bool) : (sclose c req retry).reqStreams = c.reqStreams := by
  unfold sclose
  split
  · rfl
  · split
    · rfl
    · split
      · split <;> rfl
      · rfl

theorem post_reqStreams_registered (c : Conn α) (calls : List Nat) (listen : Bool) (ver : Ver) (budget : Option Nat)
    (r sid : Nat) (h : c.reqStreams r = some sid) : (post c calls listen ver budget).reqStreams r = some sid := by
  unfold post
  split
  · exact h
  · split
    · exact h
    · rename_i hno
      have hr : r ∉ dedup calls := by
        intro hm
        apply hno
        rw [List.any_eq_true]
        exact ⟨r, hm, by rw [h]; rfl⟩
      have hreg : (register c (dedup calls) listen ver budget).reqStreams r = some sid := by
        simp [register, hr, h]
      unfold postNew
      simp only []
      split
      · split
        · exact hreg
        · exact hreg
      · split
        · exact hreg
        · exact hreg

/-- **C10 / C02 (lifetime of a registration).**  A registered request stays registered, on the same stream, across every
label that is not the write of its response. -/
theorem registration_removed_only_by_response (c : Conn α) (r sid : Nat) (h : c.reqStreams r = some sid)
    (l : Label α) (hl : l.answers r = false) : (step c l).reqStreams r = some sid := by
  cases l with
  | post calls listen ver budget => exact post_reqStreams_registered c calls listen ver budget r sid h
  | write msg ctx ctxNew =>
    have hne : msg.respId ≠ some r := by
      cases msg with
      | resp id p => simp [Label.answers] at hl; simpa [Msg.respId] using hl
      | notif p => simp [Msg.respId]
      | call p => simp [Msg.respId]
    simp only [step, stepR, writeR]
    split
    · exact h
    · split
      · rw [eraseResp_reqStreams_ne c msg r hne]; exact h
      · split
        · rw [eraseResp_reqStreams_ne c msg r hne]; exact h
        · rw [writeTo_reqStreams, eraseResp_reqStreams_ne c msg r hne]; exact h
  | cut ex => exact h
  | wfail ex => exact h
  | get hdr ver budget => simp only [step, stepR]; rw [get_reqStreams]; exact h
  | sclose req retry => simp only [step, stepR]; rw [sclose_reqStreams]; exact h
  | «end» => exact h
  | evict s n => exact h
  | wroute msg ctx ctxNew =>
    have hne : msg.respId ≠ some r := by
      cases msg with
      | resp id p => simp [Label.answers] at hl; simpa [Msg.respId] using hl
      | notif p => simp [Msg.respId]
      | call p => simp [Msg.respId]
    simp only [step, stepR, wrouteR]
    split
    · exact h
    · split
      · rw [eraseResp_reqStreams_ne c msg r hne]; exact h
      · split
        · rw [eraseResp_reqStreams_ne c msg r hne]; exact h
        · show (eraseResp c msg).reqStreams r = some sid
          rw [eraseResp_reqStreams_ne c msg r hne]; exact h
  | wdeliver i =>
    simp only [step, stepR, wdeliverR]
    split
    · exact h
    · split
      · rw [writeTo_reqStreams]; exact h
      · exact h

/-- … over any label list that does not contain the write of a response to `r` -/
theorem registration_kept_run (r sid : Nat) : ∀ (ls : List (Label α)) (c : Conn α), c.reqStreams r = some sid →
    (∀ l ∈ ls, l.answers r = false) → (run c ls).reqStreams r = some sid := by
  intro ls
  induction ls with
  | nil => intro c h _; exact h
  | cons l t ih =>
    intro c h hall
    exact ih (step c l) (registration_removed_only_by_response c r sid h l (hall l (List.mem_cons_self ..)))
      (fun l' hl' => hall l' (List.mem_cons_of_mem _ hl'))

/-- **C10.**  After any such history the response of `r` is routed to the stream its POST registered, or nowhere:
never to the standalone stream, never to the stream of another request. -/
theorem response_routed_to_registered_stream (r sid : Nat) (ls : List (Label α)) (c : Conn α)
    (h : c.reqStreams r = some sid) (hall : ∀ l ∈ ls, l.answers r = false) (p : α) (ctx : Option Nat) (s : Stream α)
    (hs : route (run c ls) (.resp r p) ctx = some s) : s.id = sid := by
  have hk := registration_kept_run r sid ls c h hall
  simp only [route, related, hk] at hs
  have := List.find?_some hs
  simpa using this

/-- a POST without calls (a client notification such as `notifications/cancelled`, a client response) registers and
releases nothing -/
theorem notification_post_frame (c : Conn α) (listen : Bool) (ver : Ver) (budget : Option Nat) :
    (post c [] listen ver budget).streams = c.streams ∧ (post c [] listen ver budget).reqStreams = c.reqStreams ∧
    (post c [] listen ver budget).store = c.store ∧ (post c [] listen ver budget).isDone = c.isDone ∧
    (post c [] listen ver budget).exs = c.exs ++ [{ kind := .status 202, ended := true }] := by
  simp [post, dedup, statusEx]

/-- non-vacuity of `registration_removed_only_by_response` for the cancel scenario: call 7 is registered; the client's
`notifications/cancelled` (a POST without calls) and its attempt to reuse id 7 leave the entry alone -/
example : (run (init ⟨false, false, false, false⟩ : Conn Nat)
    [.post [7] false .v0618 none, .post [] false .v0618 none, .post [7] false .v0618 none]).reqStreams 7 = some 1 := by
  decide

theorem find_map_id (f : Stream α → Stream α) (p : Stream α → Bool) (hp : ∀ s, p (f s) = p s) (hid : ∀ s, (f s).id = s.id)
    (l : List (Stream α)) : ((l.map f).find? p).map (·.id) = (l.find? p).map (·.id) := by
  induction l with
  | nil => rfl
  | cons s t ih =>
    simp only [List.map_cons, List.find?_cons, hp]
    cases h : p s with
    | true => simp [hid]
    | false => simpa using ih

def releaseOne (ex : Nat) (s : Stream α) : Stream α :=
  if s.attached = some ex then { s with attached := none, opn := false } else s

theorem releaseOne_id (ex : Nat) (s : Stream α) : (releaseOne ex s).id = s.id := by
  unfold releaseOne; split <;> rfl

theorem releaseOne_listen (ex : Nat) (s : Stream α) : (releaseOne ex s).listen = s.listen := by
  unfold releaseOne; split <;> rfl

theorem release_eq_map (ex : Nat) (l : List (Stream α)) : release ex l = l.map (releaseOne ex) := rfl

theorem findStream_release (ex sid : Nat) (l : List (Stream α)) :
    (findStream sid (release ex l)).map (·.id) = (findStream sid l).map (·.id) := by
  rw [release_eq_map]
  exact find_map_id (releaseOne ex) (fun s => s.id == sid) (fun s => by simp [releaseOne_id]) (releaseOne_id ex) l

theorem findListen_release (ex : Nat) (l : List (Stream α)) :
    (findListen (release ex l)).map (·.id) = (findListen l).map (·.id) := by
  rw [release_eq_map]
  exact find_map_id (releaseOne ex) (·.listen) (releaseOne_listen ex) (releaseOne_id ex) l

/-- **C10.**  The loss of an HTTP exchange (CUT) does not change which stream any message is routed to: a request whose
POST was dropped is not re-homed (with or without an event store). -/
theorem cut_keeps_route_target (c : Conn α) (ex : Nat) (msg : Msg α) (ctx : Option Nat) :
    (route (cut c ex) msg ctx).map (·.id) = (route c msg ctx).map (·.id) := by
  have hc : (cut c ex).cfg = c.cfg := rfl
  have hr : (cut c ex).reqStreams = c.reqStreams := rfl
  have hs : (cut c ex).streams = release ex c.streams := rfl
  simp only [route, related, hc, hr, hs]
  split
  · split
    · exact findStream_release ex _ c.streams
    · rfl
  · have hl := findListen_release ex c.streams
    cases h1 : findListen (release ex c.streams) with
    | some s1 =>
      cases h2 : findListen c.streams with
      | some s2 => rw [h1, h2] at hl; simpa using hl
      | none => rw [h1, h2] at hl; cases hl
    | none =>
      cases h2 : findListen c.streams with
      | some s2 => rw [h1, h2] at hl; cases hl
      | none => exact findStream_release ex 0 c.streams

end Resume
