import McpModel.Resume.C08
/-!
E5 — the C10 invariant (`Inv10`): the routing specification `Routed` holds for every message that was ever
written to an exchange, buffered for a JSON response or appended to the store, on *all* label lists;
and the bookkeeping invariant behind "the final response stays obtainable" (`InvAns`).
-/
namespace Resume
variable {α : Type}

/-- The routing specification of C10: may a message with this provenance travel on stream `sid`?
* a response only on the stream that was created for (a POST containing) the request it answers;
* a notification / server→client request issued with a request's context, in SSE mode: on that request's stream;
* in JSON-response mode, or issued with a detached context: on the standalone stream (id 0) or a
  `subscriptions/listen` stream. -/
def Routed (c : Conn α) (sid : Nat) (it : Item α) : Prop :=
  ∃ calls li, c.hist sid = some (calls, li) ∧
    match it.msg with
    | .resp r _ => r ∈ calls
    | _ => (c.cfg.jsonResponse = false ∧ ∃ r, it.ctx = some r ∧ r ∈ calls) ∨
           ((c.cfg.jsonResponse = true ∨ it.ctx = none) ∧ (sid = 0 ∨ li = true))

theorem routed_mono {c c' : Conn α} (hc : c'.cfg = c.cfg) (hh : ∀ sid v, c.hist sid = some v → c'.hist sid = some v)
    {sid : Nat} {it : Item α} (h : Routed c sid it) : Routed c' sid it := by
  obtain ⟨calls, li, hhist, hm⟩ := h
  exact ⟨calls, li, hh sid _ hhist, by rw [hc]; exact hm⟩

structure Inv10 (c : Conn α) : Prop where
  hist_lt : ∀ sid, (c.hist sid).isSome → sid < c.nextSid
  req_hist : ∀ (r sid : Nat), c.reqStreams r = some sid → ∃ calls li, c.hist sid = some (calls, li) ∧ r ∈ calls
  str_hist : ∀ s ∈ c.streams, c.hist s.id = some (s.calls, s.listen) ∧ (∀ r ∈ s.requests, r ∈ s.calls)
  pend : ∀ s ∈ c.streams, ∀ p, s.json = some p → ∀ it ∈ p, Routed c s.id it
  routed_ex : ∀ (j : Nat) (e : Exch α), c.exs[j]? = some e → ∀ o ∈ e.all, ∀ it ∈ o.items, Routed c e.stream it
  routed_log : ∀ (sid : Nat) (log : List (Option (Item α))), c.store sid = some log → ∀ it, some it ∈ log → Routed c sid it

theorem inv10_init (cfg : Cfg) : Inv10 (init cfg : Conn α) := by
  refine ⟨?_, ?_, ?_, ?_, ?_, ?_⟩
  · intro sid h
    simp only [init] at h ⊢
    by_cases h0 : sid = 0
    · omega
    · simp [h0] at h
  · intro r sid h; simp [init] at h
  · intro s hs; simp [init] at hs; subst hs; simp [init]
  · intro s hs p hp; simp [init] at hs; subst hs; cases hp
  · intro j e he; simp [init] at he
  · intro sid log hl it hit
    simp only [init] at hl
    split at hl
    · cases hl; cases hit
    · cases hl

/-- stream tables related by in-place updates that keep identity, ghost data, outstanding requests and the JSON buffer -/
def StrKeep (l l' : List (Stream α)) : Prop :=
  ∀ s' ∈ l', ∃ s ∈ l, s'.id = s.id ∧ s'.calls = s.calls ∧ s'.listen = s.listen ∧ s'.requests = s.requests ∧ s'.json = s.json

theorem StrKeep.refl (l : List (Stream α)) : StrKeep l l := fun s hs => ⟨s, hs, rfl, rfl, rfl, rfl, rfl⟩

theorem strKeep_release (l : List (Stream α)) (ex : Nat) : StrKeep l (release ex l) := by
  intro s' hs'
  obtain ⟨s, hs, h | h⟩ := mem_release hs'
  · obtain ⟨_, rfl⟩ := h; exact ⟨s, hs, rfl, rfl, rfl, rfl, rfl⟩
  · obtain ⟨_, rfl⟩ := h; exact ⟨s', hs, rfl, rfl, rfl, rfl, rfl⟩

theorem strKeep_set {l : List (Stream α)} {s s' : Stream α} (hs : s ∈ l) (h1 : s'.id = s.id) (h2 : s'.calls = s.calls)
    (h3 : s'.listen = s.listen) (h4 : s'.requests = s.requests) (h5 : s'.json = s.json) : StrKeep l (setStream s' l) := by
  intro x hx
  rcases mem_setStream hx with rfl | ⟨hxl, _⟩
  · exact ⟨s, hs, h1, h2, h3, h4, h5⟩
  · exact ⟨x, hxl, rfl, rfl, rfl, rfl, rfl⟩

/-- exchange tables whose new writes carry no messages (comment, close event, priming event) -/
def ExNoMsg (exs exs' : List (Exch α)) : Prop :=
  ∀ (j : Nat) (e' : Exch α), exs'[j]? = some e' →
    (∃ e, exs[j]? = some e ∧ e'.stream = e.stream ∧ ∀ o ∈ e'.all, o ∈ e.all ∨ o.items = []) ∨
    (∀ o ∈ e'.all, o.items = [])

theorem ExNoMsg.refl (exs : List (Exch α)) : ExNoMsg exs exs :=
  fun _ e' h => Or.inl ⟨e', h, rfl, fun _ ho => Or.inl ho⟩

theorem ExNoMsg.trans {a b c : List (Exch α)} (h₁ : ExNoMsg a b) (h₂ : ExNoMsg b c) : ExNoMsg a c := by
  intro j e'' h
  rcases h₂ j e'' h with ⟨e', he', s2, r2⟩ | hall
  · rcases h₁ j e' he' with ⟨e, he, s1, r1⟩ | hall1
    · refine Or.inl ⟨e, he, s2.trans s1, ?_⟩
      intro o ho
      rcases r2 o ho with ho' | hi
      · exact r1 o ho'
      · exact Or.inr hi
    · refine Or.inr ?_
      intro o ho
      rcases r2 o ho with ho' | hi
      · exact hall1 o ho'
      · exact hi
  · exact Or.inr hall

theorem exNoMsg_finishX (exs : List (Exch α)) (ex : Nat) : ExNoMsg exs (finishX exs ex) := by
  intro j e' h
  obtain ⟨e, h0, hs, _, hall⟩ := finishX_all _ _ _ _ h
  exact Or.inl ⟨e, h0, hs, fun o ho => Or.inl (by rw [← hall]; exact ho)⟩

theorem exNoMsg_wfail (exs : List (Exch α)) (ex : Nat) :
    ExNoMsg exs (setEx ex (fun e => { e with budget := some 0 }) exs) := by
  intro j e' h
  by_cases hj : j = ex
  · subst hj
    rw [getElem?_setEx_eq] at h
    cases hl : exs[j]? with
    | none => rw [hl] at h; cases h
    | some a => rw [hl] at h; simp at h; subst h; exact Or.inl ⟨a, rfl, rfl, fun o ho => Or.inl ho⟩
  · rw [getElem?_setEx_ne _ _ _ _ hj] at h
    exact Or.inl ⟨e', h, rfl, fun o ho => Or.inl ho⟩

theorem exNoMsg_append (exs : List (Exch α)) (e : Exch α) (he : e.all = []) : ExNoMsg exs (exs ++ [e]) := by
  intro j e' h
  by_cases hj : j < exs.length
  · rw [List.getElem?_append_left hj] at h
    exact Or.inl ⟨e', h, rfl, fun o ho => Or.inl ho⟩
  · have hj' : exs.length ≤ j := by omega
    rw [List.getElem?_append_right hj'] at h
    have : j - exs.length = 0 := by
      by_cases h0 : j - exs.length = 0
      · exact h0
      · rw [List.getElem?_eq_none (by simp; omega)] at h; cases h
    rw [this] at h; simp at h; subst h
    exact Or.inr (by rw [he]; intro o ho; cases ho)

theorem exNoMsg_emitX (exs : List (Exch α)) (hok : ∀ e ∈ exs, ExOK e) (ex : Nat) (o : Out α) (ho : o.items = []) :
    ExNoMsg exs (emitX exs ex o).1 := by
  intro j e' h
  obtain ⟨e, h0, hs, _, r⟩ := emitX_get exs hok ex o j e' h
  refine Or.inl ⟨e, h0, hs, ?_⟩
  intro x hx
  rcases r with ⟨_, r⟩ | ⟨_, r⟩
  · rw [r] at hx
    rcases List.mem_append.mp hx with hx | hx
    · exact Or.inl hx
    · simp at hx; subst hx; exact Or.inr ho
  · subst r; exact Or.inl hx

/-- frame lemma for C10, general form: history, store and configuration untouched; streams kept; every
message on an exchange is routed according to the old state -/
theorem inv10_frame0 {c c' : Conn α} (h : Inv10 c) (hcfg : c'.cfg = c.cfg) (hhist : c'.hist = c.hist)
    (hn : c.nextSid ≤ c'.nextSid) (hst : c'.store = c.store)
    (hreq : ∀ (r sid : Nat), c'.reqStreams r = some sid → c.reqStreams r = some sid)
    (hs : StrKeep c.streams c'.streams)
    (he : ∀ (j : Nat) (e' : Exch α), c'.exs[j]? = some e' → ∀ o ∈ e'.all, ∀ it ∈ o.items, Routed c e'.stream it) : Inv10 c' := by
  have hmono : ∀ {sid : Nat} {it : Item α}, Routed c sid it → Routed c' sid it :=
    fun hr => routed_mono hcfg (fun sid v hv => by rw [hhist]; exact hv) hr
  refine ⟨?_, ?_, ?_, ?_, ?_, ?_⟩
  · intro sid hsome; rw [hhist] at hsome; exact Nat.lt_of_lt_of_le (h.hist_lt sid hsome) hn
  · intro r sid hr; rw [hhist]; exact h.req_hist r sid (hreq r sid hr)
  · intro s' hs'
    obtain ⟨s, hsl, h1, h2, h3, h4, _⟩ := hs s' hs'
    rw [hhist, h1, h2, h3, h4]; exact h.str_hist s hsl
  · intro s' hs' p hp it hit
    obtain ⟨s, hsl, h1, _, _, _, h5⟩ := hs s' hs'
    rw [h1]; exact hmono (h.pend s hsl p (by rw [← h5]; exact hp) it hit)
  · intro j e' he' o ho it hit
    exact hmono (he j e' he' o ho it hit)
  · intro sid log hl it hit
    rw [hst] at hl
    exact hmono (h.routed_log sid log hl it hit)

/-- the frame lemma for C10: history, store and configuration untouched; streams kept; no message written -/
theorem inv10_frame {c c' : Conn α} (h : Inv10 c) (hcfg : c'.cfg = c.cfg) (hhist : c'.hist = c.hist)
    (hn : c.nextSid ≤ c'.nextSid) (hst : c'.store = c.store)
    (hreq : ∀ (r sid : Nat), c'.reqStreams r = some sid → c.reqStreams r = some sid)
    (hs : StrKeep c.streams c'.streams) (he : ExNoMsg c.exs c'.exs) : Inv10 c' := by
  refine inv10_frame0 h hcfg hhist hn hst hreq hs ?_
  intro j e' he' o ho it hit
  rcases he j e' he' with ⟨e, hej, hs1, r⟩ | hall
  · rcases r o ho with ho' | hi
    · rw [hs1]; exact h.routed_ex j e hej o ho' it hit
    · rw [hi] at hit; cases hit
  · rw [hall o ho] at hit; cases hit

theorem inv10_cut {c : Conn α} (h : Inv10 c) (ex : Nat) : Inv10 (cut c ex) :=
  inv10_frame (c' := cut c ex) h rfl rfl (Nat.le_refl _) rfl (fun _ _ hr => hr) (strKeep_release _ _) (exNoMsg_finishX _ _)

theorem inv10_finish {c : Conn α} (h : Inv10 c) (ex : Nat) : Inv10 (finish c ex) :=
  inv10_frame (c' := finish c ex) h rfl rfl (Nat.le_refl _) rfl (fun _ _ hr => hr) (StrKeep.refl _) (exNoMsg_finishX _ _)

theorem inv10_wfail {c : Conn α} (h : Inv10 c) (ex : Nat) : Inv10 (wfail c ex) :=
  inv10_frame (c' := wfail c ex) h rfl rfl (Nat.le_refl _) rfl (fun _ _ hr => hr) (StrKeep.refl _) (exNoMsg_wfail _ _)

theorem inv10_statusEx {c : Conn α} (h : Inv10 c) (code sid : Nat) : Inv10 (statusEx c code sid) :=
  inv10_frame (c' := statusEx c code sid) h rfl rfl (Nat.le_refl _) rfl (fun _ _ hr => hr) (StrKeep.refl _)
    (exNoMsg_append _ _ rfl)

theorem inv10_emit_noMsg {c : Conn α} (hw : Inv c) (h : Inv10 c) (ex : Nat) (o : Out α) (ho : o.items = []) :
    Inv10 (emit c ex o).1 :=
  inv10_frame (c' := (emit c ex o).1) h rfl rfl (Nat.le_refl _) rfl (fun _ _ hr => hr) (StrKeep.refl _)
    (exNoMsg_emitX _ hw.ex_ok _ _ ho)

theorem inv10_eraseResp {c : Conn α} (h : Inv10 c) (msg : Msg α) : Inv10 (eraseResp c msg) := by
  refine inv10_frame (c' := eraseResp c msg) h (by simp) (by simp) (by simp) (by simp) ?_ (by simp; exact StrKeep.refl _)
    (by simp; exact ExNoMsg.refl _)
  intro r sid hr
  unfold eraseResp at hr
  split at hr
  · simp only at hr
    split at hr
    · cases hr
    · exact hr
  · exact hr

theorem inv10_sclose {c : Conn α} (hw : Inv c) (h : Inv10 c) (req : Nat) (retry : Bool) : Inv10 (sclose c req retry) := by
  unfold sclose
  split
  · exact h
  · split
    · exact h
    · rename_i s hs
      have hmem := (findStream_some hs).1
      split
      · rename_i ex hat hop
        split
        · refine inv10_frame (c' := { (emit c ex .close).1 with streams := setStream { s with opn := false } (emit c ex .close).1.streams })
            h rfl rfl (Nat.le_refl _) rfl (fun _ _ hr => hr) ?_ (exNoMsg_emitX _ hw.ex_ok _ _ rfl)
          exact strKeep_set (s := s) hmem rfl rfl rfl rfl rfl
        · refine inv10_frame (c' := { c with streams := setStream { s with opn := false } c.streams })
            h rfl rfl (Nat.le_refl _) rfl (fun _ _ hr => hr) ?_ (ExNoMsg.refl _)
          exact strKeep_set (s := s) hmem rfl rfl rfl rfl rfl
      · exact h


/-! ### WRITE -/

/-- the routing decision satisfies the routing specification -/
theorem route_routed {c : Conn α} (h : Inv10 c) {msg : Msg α} {ctx : Option Nat} {s : Stream α}
    (hr : route c msg ctx = some s) : Routed c s.id ⟨msg, ctx⟩ := by
  unfold route at hr
  split at hr
  · rename_i r hrel
    split at hr
    · rename_i sid hreq
      obtain ⟨_, hid⟩ := findStream_some hr
      obtain ⟨calls, li, hh, hmem⟩ := h.req_hist r sid hreq
      refine ⟨calls, li, by rw [hid]; exact hh, ?_⟩
      unfold related at hrel
      cases msg with
      | resp id p => simp at hrel; subst hrel; exact hmem
      | notif p =>
        simp only at hrel ⊢
        split at hrel
        · cases hrel
        · rename_i hj
          exact Or.inl ⟨by simpa using hj, r, hrel, hmem⟩
      | call p =>
        simp only at hrel ⊢
        split at hrel
        · cases hrel
        · rename_i hj
          exact Or.inl ⟨by simpa using hj, r, hrel, hmem⟩
    · cases hr
  · rename_i hrel
    have hdet : (match msg with | .resp _ _ => False | _ => True) ∧ (c.cfg.jsonResponse = true ∨ ctx = none) := by
      unfold related at hrel
      cases msg with
      | resp id p => simp at hrel
      | notif p =>
        simp only at hrel
        split at hrel
        · rename_i hj; exact ⟨trivial, Or.inl hj⟩
        · exact ⟨trivial, Or.inr hrel⟩
      | call p =>
        simp only at hrel
        split at hrel
        · rename_i hj; exact ⟨trivial, Or.inl hj⟩
        · exact ⟨trivial, Or.inr hrel⟩
    have hfin : ∀ (li : Bool), (s.id = 0 ∨ li = true) → c.hist s.id = some (s.calls, li) → Routed c s.id ⟨msg, ctx⟩ := by
      intro li hli hh
      refine ⟨s.calls, li, hh, ?_⟩
      cases msg with
      | resp id p => exact absurd hdet.1 (by simp)
      | notif p => exact Or.inr ⟨hdet.2, hli⟩
      | call p => exact Or.inr ⟨hdet.2, hli⟩
    split at hr
    · rename_i s' hl
      cases hr
      obtain ⟨hmem, hlis⟩ := findListen_some hl
      exact hfin s.listen (Or.inr hlis) (h.str_hist s hmem).1
    · obtain ⟨hmem, hid⟩ := findStream_some hr
      exact hfin s.listen (Or.inl hid) (h.str_hist s hmem).1

theorem mem_eraseAll {r x : Nat} {l : List Nat} (h : x ∈ eraseAll r l) : x ∈ l ∧ x ≠ r := by
  induction l with
  | nil => cases h
  | cons a t ih =>
    simp only [eraseAll] at h
    split at h
    · obtain ⟨h1, h2⟩ := ih h; exact ⟨List.mem_cons_of_mem _ h1, h2⟩
    · rename_i hne
      rcases List.mem_cons.mp h with rfl | h'
      · exact ⟨List.mem_cons_self, hne⟩
      · obtain ⟨h1, h2⟩ := ih h'; exact ⟨List.mem_cons_of_mem _ h1, h2⟩

theorem mem_eraseAll_of {r x : Nat} {l : List Nat} (h : x ∈ l) (hne : x ≠ r) : x ∈ eraseAll r l := by
  induction l with
  | nil => cases h
  | cons a t ih =>
    simp only [eraseAll]
    rcases List.mem_cons.mp h with rfl | h'
    · simp [hne]
    · split
      · exact ih h'
      · exact List.mem_cons_of_mem _ (ih h')

theorem mem_wReqs {s : Stream α} {msg : Msg α} {r : Nat} (h : r ∈ wReqs s msg) : r ∈ s.requests := by
  unfold wReqs at h
  split at h
  · exact (mem_eraseAll h).1
  · exact h

/-- which writes `deliverLocked` added to exchange `j` -/
theorem deliver_items (exs : List (Exch α)) (hok : ∀ e ∈ exs, ExOK e) (s : Stream α) (it : Item α)
    (evid : Option (Nat × Nat)) (reqs : List Nat) (done : Bool) (j : Nat) (e' : Exch α)
    (h : (deliver exs s it evid reqs done).1[j]? = some e') :
    ∃ e, exs[j]? = some e ∧ e'.stream = e.stream ∧
      ∀ o ∈ e'.all, o ∈ e.all ∨ (s.attached = some j ∧ (o = .message evid it ∨ ∃ pend, s.json = some pend ∧ o = .json (pend ++ [it]))) := by
  unfold deliver at h
  split at h
  · rename_i ex hat hop
    have key : ∀ (o₀ : Out α) (e₁ : Exch α), (emitX exs ex o₀).1[j]? = some e₁ →
        ∃ e, exs[j]? = some e ∧ e₁.stream = e.stream ∧ ∀ o ∈ e₁.all, o ∈ e.all ∨ (s.attached = some j ∧ o = o₀) := by
      intro o₀ e₁ h1
      obtain ⟨e, h0, s0, _, r⟩ := emitX_get exs hok ex o₀ j e₁ h1
      refine ⟨e, h0, s0, ?_⟩
      intro o ho
      rcases r with ⟨hje, r⟩ | ⟨_, r⟩
      · rw [r] at ho
        rcases List.mem_append.mp ho with ho | ho
        · exact Or.inl ho
        · simp at ho; subst hje; exact Or.inr ⟨hat, ho⟩
      · subst r; exact Or.inl ho
    split at h
    · rename_i pend hj
      split at h
      · obtain ⟨e₁, h1, s1, _, a1⟩ := finishX_all _ _ _ _ h
        obtain ⟨e, h0, s0, r⟩ := key _ e₁ h1
        refine ⟨e, h0, s1.trans s0, ?_⟩
        intro o ho
        rw [a1] at ho
        rcases r o ho with ho' | ⟨ha, ho'⟩
        · exact Or.inl ho'
        · exact Or.inr ⟨ha, Or.inr ⟨pend, hj, ho'⟩⟩
      · exact ⟨e', h, rfl, fun o ho => Or.inl ho⟩
    · split at h
      · obtain ⟨e₁, h1, s1, _, a1⟩ := finishX_all _ _ _ _ h
        obtain ⟨e, h0, s0, r⟩ := key _ e₁ h1
        refine ⟨e, h0, s1.trans s0, ?_⟩
        intro o ho
        rw [a1] at ho
        rcases r o ho with ho' | ⟨ha, ho'⟩
        · exact Or.inl ho'
        · exact Or.inr ⟨ha, Or.inl ho'⟩
      · obtain ⟨e, h0, s0, r⟩ := key _ e' h
        refine ⟨e, h0, s0, ?_⟩
        intro o ho
        rcases r o ho with ho' | ⟨ha, ho'⟩
        · exact Or.inl ho'
        · exact Or.inr ⟨ha, Or.inl ho'⟩
  · exact ⟨e', h, rfl, fun o ho => Or.inl ho⟩

theorem deliver_json (exs : List (Exch α)) (s : Stream α) (it : Item α) (evid : Option (Nat × Nat))
    (reqs : List Nat) (done : Bool) (p : List (Item α)) (h : (deliver exs s it evid reqs done).2.1.json = some p) :
    s.json = some p ∨ ∃ pend, s.json = some pend ∧ p = pend ++ [it] := by
  unfold deliver at h
  split at h
  · split at h
    · rename_i pend hj
      split at h
      · simp at h; exact Or.inr ⟨pend, hj, h.symm⟩
      · simp at h; exact Or.inr ⟨pend, hj, h.symm⟩
    · simp at h; exact Or.inl h
  · simp at h; exact Or.inl h

theorem inv10_writeTo {c : Conn α} (hw : Inv c) (h : Inv10 c) {s : Stream α} (hmem : s ∈ c.streams) (msg : Msg α)
    (ctx : Option Nat) (ctxNew : Bool) (hrt : Routed c s.id ⟨msg, ctx⟩) : Inv10 (writeTo c s msg ctx ctxNew).1 := by
  have hmono : ∀ {sid : Nat} {it : Item α}, Routed c sid it → Routed (writeTo c s msg ctx ctxNew).1 sid it :=
    fun hr => routed_mono rfl (fun _ _ hv => hv) hr
  have hds := deliver_stream c.exs s ⟨msg, ctx⟩ (if wUse c ctxNew then some (s.id, s.next) else none) (wReqs s msg) (wDone s msg)
  have hstr : ∀ x ∈ (writeTo c s msg ctx ctxNew).1.streams,
      (x ∈ c.streams ∧ x.id ≠ s.id) ∨ x = (wDeliver c s msg ctx ctxNew).2.1 := by
    intro x hx
    simp only [writeTo] at hx
    split at hx
    · rw [mem_delStream] at hx; exact Or.inl hx
    · rcases mem_setStream hx with rfl | ⟨hxl, hne⟩
      · exact Or.inr rfl
      · simp only [wDeliver] at hne; rw [hds.1] at hne; exact Or.inl ⟨hxl, hne⟩
  refine ⟨h.hist_lt, h.req_hist, ?_, ?_, ?_, ?_⟩
  · intro x hx
    rcases hstr x hx with ⟨hxl, _⟩ | rfl
    · exact h.str_hist x hxl
    · simp only [wDeliver, writeTo]
      rw [hds.1, hds.2.2.2.2.1, hds.2.2.2.2.2, hds.2.2.2.1]
      exact ⟨(h.str_hist s hmem).1, fun r hr => (h.str_hist s hmem).2 r (mem_wReqs hr)⟩
  · intro x hx p hp it hit
    rcases hstr x hx with ⟨hxl, _⟩ | rfl
    · exact hmono (h.pend x hxl p hp it hit)
    · simp only [wDeliver] at hp ⊢
      rw [hds.1]
      rcases deliver_json _ _ _ _ _ _ p hp with hp' | ⟨pend, hp', rfl⟩
      · exact hmono (h.pend s hmem p hp' it hit)
      · rcases List.mem_append.mp hit with hit | hit
        · exact hmono (h.pend s hmem pend hp' it hit)
        · simp at hit; subst hit; exact hmono hrt
  · intro j e' he' o ho it hit
    simp only [writeTo, wDeliver] at he'
    obtain ⟨e, hej, hs1, r⟩ := deliver_items c.exs hw.ex_ok s ⟨msg, ctx⟩ _ _ _ j e' he'
    rw [hs1]
    rcases r o ho with ho' | ⟨hat, ho'⟩
    · exact hmono (h.routed_ex j e hej o ho' it hit)
    · obtain ⟨e₀, hej0, hes⟩ := hw.att s hmem j hat
      rw [hej] at hej0; cases hej0
      rw [hes]
      rcases ho' with rfl | ⟨pend, hp, rfl⟩
      · simp [Out.items] at hit; subst hit; exact hmono hrt
      · simp only [Out.items] at hit
        rcases List.mem_append.mp hit with hit | hit
        · exact hmono (h.pend s hmem pend hp it hit)
        · simp at hit; subst hit; exact hmono hrt
  · intro sid log hl it hit
    simp only [writeTo] at hl
    split at hl
    · by_cases hk : sid = s.id
      · subst hk
        simp only [appendLog_same, Option.some.injEq] at hl
        subst hl
        rcases List.mem_append.mp hit with hit | hit
        · cases hc : c.store s.id with
          | none => rw [hc] at hit; simp at hit
          | some l => rw [hc] at hit; exact hmono (h.routed_log s.id l hc it (by simpa using hit))
        · simp at hit; subst hit; exact hmono hrt
      · rw [appendLog_other _ _ _ _ hk] at hl; exact hmono (h.routed_log sid log hl it hit)
    · exact hmono (h.routed_log sid log hl it hit)

theorem inv10_write {c : Conn α} (hw : Inv c) (h : Inv10 c) (msg : Msg α) (ctx : Option Nat) (ctxNew : Bool) :
    Inv10 (writeR c msg ctx ctxNew).1 := by
  unfold writeR
  split
  · exact h
  · split
    · exact inv10_eraseResp h msg
    · rename_i s hs
      split
      · exact inv10_eraseResp h msg
      · have hr := route_routed h hs
        exact inv10_writeTo (inv_eraseResp hw msg) (inv10_eraseResp h msg) (by simp; exact route_mem hs) _ _ _
          (routed_mono (by simp) (fun _ _ hv => by simp; exact hv) hr)


/-! ### POST -/

theorem postStore_new_log {c : Conn α} (listen : Bool) (ver : Ver) (hn : c.store c.nextSid = none)
    (log : List (Option (Item α))) (hl : postStore c listen ver c.nextSid = some log) : ∀ it, some it ∉ log := by
  intro it hit
  simp only [postStore] at hl
  split at hl
  · simp only [appendLog_same, Option.some.injEq] at hl
    split at hl
    · simp [hn] at hl; subst hl; simp at hit
    · simp [hn] at hl; subst hl; simp at hit
  · split at hl
    · simp [hn] at hl; subst hl; cases hit
    · rw [hn] at hl; cases hl

theorem inv10_postPrimed {c : Conn α} (hw : Inv c) (h : Inv10 c) (calls : List Nat) (listen : Bool) (ver : Ver)
    (budget : Option Nat) : Inv10 (postPrimed c calls listen ver budget) := by
  obtain ⟨fs, fst, fn, fc, _, frq, fh⟩ := postPrimed_frame c calls listen ver budget
  have hnone : c.store c.nextSid = none := by
    cases hc : c.store c.nextSid with
    | none => rfl
    | some l => exact absurd (hw.store_lt c.nextSid (by rw [hc]; rfl)) (Nat.lt_irrefl _)
  have hhn : c.hist c.nextSid = none := by
    cases hc : c.hist c.nextSid with
    | none => rfl
    | some l => exact absurd (h.hist_lt c.nextSid (by rw [hc]; rfl)) (Nat.lt_irrefl _)
  have hle : ∀ sid v, c.hist sid = some v → (postPrimed c calls listen ver budget).hist sid = some v := by
    intro sid v hv
    rw [fh]
    by_cases hk : sid = c.nextSid
    · subst hk; rw [hhn] at hv; cases hv
    · simp [hk, hv]
  have hmono : ∀ {sid : Nat} {it : Item α}, Routed c sid it → Routed (postPrimed c calls listen ver budget) sid it :=
    fun hr => routed_mono fc hle hr
  refine ⟨?_, ?_, ?_, ?_, ?_, ?_⟩
  · intro sid hsome
    rw [fn]
    rw [fh] at hsome
    by_cases hk : sid = c.nextSid
    · omega
    · simp [hk] at hsome; exact Nat.lt_succ_of_lt (h.hist_lt sid hsome)
  · intro r sid hr
    rw [frq] at hr
    simp only at hr
    split at hr
    · cases hr
      rename_i hmem
      exact ⟨calls, listen, by rw [fh]; simp, hmem⟩
    · obtain ⟨cs, li, hh, hm⟩ := h.req_hist r sid hr
      exact ⟨cs, li, hle sid _ hh, hm⟩
  · intro s' hs'
    rw [fs] at hs'
    simp only [List.mem_append, List.mem_singleton] at hs'
    rcases hs' with hold | rfl
    · exact ⟨hle _ _ (h.str_hist s' hold).1, (h.str_hist s' hold).2⟩
    · refine ⟨by rw [fh]; simp [newStream], ?_⟩
      intro r hr; simpa [newStream] using hr
  · intro s' hs' p hp it hit
    rw [fs] at hs'
    simp only [List.mem_append, List.mem_singleton] at hs'
    rcases hs' with hold | rfl
    · exact hmono (h.pend s' hold p hp it hit)
    · simp only [newStream] at hp
      split at hp
      · cases hp
      · cases hp; cases hit
  · intro j e' he' o ho it hit
    rcases postPrimed_exs _ _ _ _ _ _ _ he' with ⟨_, hold⟩ | ⟨_, _, _, hall⟩
    · exact hmono (h.routed_ex j e' hold o ho it hit)
    · rw [hall] at ho
      split at ho
      · simp at ho; subst ho; cases hit
      · cases ho
  · intro sid log hl it hit
    rw [fst] at hl
    by_cases hk : sid = c.nextSid
    · subst hk; exact absurd hit (postStore_new_log listen ver hnone log hl it)
    · rw [postStore_other _ _ _ _ hk] at hl
      exact hmono (h.routed_log sid log hl it hit)

theorem inv10_post {c : Conn α} (hw : Inv c) (h : Inv10 c) (calls : List Nat) (listen : Bool) (ver : Ver)
    (budget : Option Nat) : Inv10 (post c calls listen ver budget) := by
  unfold post
  split
  · exact inv10_statusEx h _ _
  · split
    · unfold postDup
      apply inv10_statusEx
      have hnone : c.store c.nextSid = none := by
        cases hc : c.store c.nextSid with
        | none => rfl
        | some l => exact absurd (hw.store_lt c.nextSid (by rw [hc]; rfl)) (Nat.lt_irrefl _)
      have hmono : ∀ {sid : Nat} {it : Item α}, Routed c sid it →
          Routed ({ c with store := if opens c ver then openLog c.nextSid c.store else c.store, nextSid := c.nextSid + 1 } : Conn α) sid it :=
        fun hr => routed_mono rfl (fun _ _ hv => hv) hr
      refine ⟨fun sid hs => Nat.lt_succ_of_lt (h.hist_lt sid hs), h.req_hist, h.str_hist, ?_, ?_, ?_⟩
      · intro s hs p hp it hit; exact hmono (h.pend s hs p hp it hit)
      · intro j e he o ho it hit; exact hmono (h.routed_ex j e he o ho it hit)
      · intro sid log hl it hit
        simp only at hl
        split at hl
        · by_cases hk : sid = c.nextSid
          · subst hk; simp [hnone] at hl; subst hl; cases hit
          · rw [openLog_other _ _ _ hk] at hl; exact hmono (h.routed_log sid log hl it hit)
        · exact hmono (h.routed_log sid log hl it hit)
    · rw [postNew_eq]
      split
      · exact inv10_cut (inv10_postPrimed hw h _ _ _ _) _
      · exact inv10_postPrimed hw h _ _ _ _

/-! ### GET -/

/-- the replay loop writes nothing but replayed items, and only to the new exchange -/
theorem replayLoop_items (sid ex : Nat) :
    ∀ (items : List (Item α)) (c : Conn α) (k : Nat), (∀ x ∈ c.exs, ExOK x) →
      ∀ (j : Nat) (e1 : Exch α), (replayLoop c ex sid k items).1.exs[j]? = some e1 →
        ∃ e, c.exs[j]? = some e ∧ e1.stream = e.stream ∧
          ∀ o ∈ e1.all, o ∈ e.all ∨ (j = ex ∧ ∃ k' it, it ∈ items ∧ o = .message (some (sid, k')) it) := by
  intro items
  induction items with
  | nil =>
    intro c k _ j e1 h1
    exact ⟨e1, h1, rfl, fun o ho => Or.inl ho⟩
  | cons it rest ih =>
    intro c k hok j e1 h1
    have hok1 : ∀ x ∈ (emit c ex (.message (some (sid, k)) it)).1.exs, ExOK x := by
      intro x hx
      simp only [emit] at hx
      rcases mem_emitX hx with hx | ⟨e₀, h0, rfl⟩
      · exact hok x hx
      · exact push_ok _ _ (hok e₀ (List.mem_of_getElem? h0))
    have hone : ∀ e₁, (emit c ex (.message (some (sid, k)) it)).1.exs[j]? = some e₁ →
        ∃ e, c.exs[j]? = some e ∧ e₁.stream = e.stream ∧
          ∀ o ∈ e₁.all, o ∈ e.all ∨ (j = ex ∧ ∃ k' it', it' ∈ it :: rest ∧ o = .message (some (sid, k')) it') := by
      intro e₁ he₁
      simp only [emit] at he₁
      obtain ⟨e, h0, s0, _, r⟩ := emitX_get c.exs hok ex _ j e₁ he₁
      refine ⟨e, h0, s0, ?_⟩
      intro o ho
      rcases r with ⟨hje, r⟩ | ⟨_, r⟩
      · rw [r] at ho
        rcases List.mem_append.mp ho with ho | ho
        · exact Or.inl ho
        · simp at ho; exact Or.inr ⟨hje, k, it, List.mem_cons_self, ho⟩
      · subst r; exact Or.inl ho
    unfold replayLoop at h1
    split at h1
    · obtain ⟨e₁, he₁, s1, r1⟩ := ih (emit c ex (.message (some (sid, k)) it)).1 (k + 1) hok1 j e1 h1
      obtain ⟨e, h0, s0, r0⟩ := hone e₁ he₁
      refine ⟨e, h0, s1.trans s0, ?_⟩
      intro o ho
      rcases r1 o ho with ho' | ⟨hje, k', it', hm, ho'⟩
      · exact r0 o ho'
      · exact Or.inr ⟨hje, k', it', List.mem_cons_of_mem _ hm, ho'⟩
    · exact hone e1 h1

theorem inv10_getGo {c : Conn α} (hw : Inv c) (h : Inv10 c) (sid frm : Nat) (ver : Ver) (budget : Option Nat)
    (items : List (Item α)) (hit : ∀ it ∈ items, Routed c sid it) : Inv10 (getGo c sid frm ver budget items) := by
  obtain ⟨gs, gst, gn, grq, gh, gc, _, glen, gold, _⟩ := getOpen_frame c sid frm budget
  obtain ⟨e0, ge0, ges, _, _, gni⟩ := getOpen_new c sid frm budget
  have hw2 := getOpen_inv hw sid frm budget
  obtain ⟨fs, fst, fn, frq, fh, fc, _, _⟩ := replayLoop_frame (getOpen c sid frm budget) c.exs.length sid frm items
  -- every message on the replayed exchange table is routed
  have hexs : ∀ (j : Nat) (e1 : Exch α), (replayLoop (getOpen c sid frm budget) c.exs.length sid frm items).1.exs[j]? = some e1 →
      ∀ o ∈ e1.all, ∀ it ∈ o.items, Routed c e1.stream it := by
    intro j e1 h1 o ho it hio
    obtain ⟨e, hej, hs1, r⟩ := replayLoop_items sid c.exs.length items (getOpen c sid frm budget) frm hw2.ex_ok j e1 h1
    rw [hs1]
    by_cases hj : j = c.exs.length
    · subst hj
      rw [ge0] at hej; cases hej
      rw [ges]
      rcases r o ho with ho' | ⟨_, k', it', hm, rfl⟩
      · rw [gni o ho'] at hio; cases hio
      · simp [Out.items] at hio; rw [hio]; exact hit it' hm
    · have hlt : j < c.exs.length := by
        by_cases hh : j < c.exs.length
        · exact hh
        · rw [List.getElem?_eq_none (by omega)] at hej; cases hej
      rw [gold j hlt] at hej
      rcases r o ho with ho' | ⟨hje, _⟩
      · exact h.routed_ex j e hej o ho' it hio
      · exact absurd hje hj
  have hstreams : (replayLoop (getOpen c sid frm budget) c.exs.length sid frm items).1.streams = c.streams := fs.trans gs
  -- the finished outcome
  have hfin : Inv10 (finish (replayLoop (getOpen c sid frm budget) c.exs.length sid frm items).1 c.exs.length) := by
    refine inv10_frame0 h (by simp [finish, fc, gc]) (by simp [finish, fh, gh]) (by simp [finish, fn, gn]) (by simp [finish, fst, gst])
      (by intro r sid' hr; simp only [finish] at hr; rw [frq, grq] at hr; exact hr)
      (by simp only [finish]; rw [hstreams]; exact StrKeep.refl _) ?_
    intro j e' he' o ho it hio
    simp only [finish] at he'
    obtain ⟨e₁, h1, s1, _, a1⟩ := finishX_all _ _ _ _ he'
    rw [s1]; rw [a1] at ho
    exact hexs j e₁ h1 o ho it hio
  unfold getGo
  split
  · split
    · exact hfin
    · rename_i s hsf
      have hmem := (findStream_some hsf).1
      split
      · exact hfin
      · have hA : Inv10 ({ (replayLoop (getOpen c sid frm budget) c.exs.length sid frm items).1 with
            streams := setStream { s with attached := some c.exs.length, opn := true, next := frm + items.length, v1125 := ver.ge1125 }
              (replayLoop (getOpen c sid frm budget) c.exs.length sid frm items).1.streams } : Conn α) := by
          refine inv10_frame0 h (by simp [fc, gc]) (by simp [fh, gh]) (by simp [fn, gn]) (by simp [fst, gst])
            (by intro r sid' hr; simp only at hr; rw [frq, grq] at hr; exact hr) ?_ ?_
          · simp only; rw [hstreams]
            exact strKeep_set (s := s) hmem rfl rfl rfl rfl rfl
          · intro j e' he' o ho it hio
            exact hexs j e' he' o ho it hio
        unfold attach
        split
        · exact inv10_cut hA _
        · exact hA
  · exact hfin

theorem mem_toReplay {log : List (Option (Item α))} {frm : Nat} {it : Item α} (h : it ∈ toReplay log frm) : some it ∈ log := by
  unfold toReplay at h
  rw [List.mem_filterMap] at h
  obtain ⟨x, hx, hid⟩ := h
  simp at hid; subst hid
  exact List.mem_of_mem_drop hx

/-- whatever `After` yields was appended to that stream's log -/
theorem replayItems_mem {c : Conn α} {sid frm : Nat} {items : List (Item α)} (h : replayItems c sid frm = some items) :
    ∀ it ∈ items, ∃ log, c.store sid = some log ∧ some it ∈ log := by
  intro it hit
  cases hst : c.cfg.hasStore with
  | true =>
    obtain ⟨_, log, hlog, _, rfl⟩ := replayItems_some hst h
    exact ⟨log, hlog, mem_toReplay hit⟩
  | false =>
    rw [replayItems_nostore hst h] at hit; cases hit

theorem inv10_get {c : Conn α} (hw : Inv c) (h : Inv10 c) (hdr : Hdr) (ver : Ver) (budget : Option Nat) :
    Inv10 (get c hdr ver budget) := by
  unfold get
  split
  · exact inv10_statusEx h _ _
  · split
    · exact inv10_statusEx h _ _
    · split
      · exact inv10_statusEx h _ _
      · split
        · exact inv10_statusEx h _ _
        · rename_i items hitems
          refine inv10_getGo hw h _ _ _ _ items ?_
          intro it hit
          obtain ⟨log, hlog, hmem⟩ := replayItems_mem hitems it hit
          exact h.routed_log hdr.sid log hlog it hmem

/-! ### WROUTE / WDELIVER -/

/-- every pending write was routed to a stream the routing specification allows -/
def PendRouted (c : Conn α) : Prop := ∀ pw ∈ c.pendW, Routed c pw.sid ⟨pw.msg, pw.ctx⟩

theorem pendRouted_init (cfg : Cfg) : PendRouted (init cfg : Conn α) := by intro pw h; simp [init] at h

theorem inv10_pendW {c : Conn α} (h : Inv10 c) (l : List (PendW α)) : Inv10 ({ c with pendW := l } : Conn α) :=
  ⟨h.hist_lt, h.req_hist, h.str_hist, h.pend, h.routed_ex, h.routed_log⟩

theorem inv10_wroute {c : Conn α} (h : Inv10 c) (msg : Msg α) (ctx : Option Nat) (ctxNew : Bool) :
    Inv10 (wrouteR c msg ctx ctxNew).1 := by
  unfold wrouteR
  split
  · exact h
  · split
    · exact inv10_eraseResp h msg
    · split
      · exact inv10_eraseResp h msg
      · exact inv10_pendW (inv10_eraseResp h msg) _

theorem inv10_orphan {c : Conn α} (h : Inv10 c) (pw : PendW α) (hrt : Routed c pw.sid ⟨pw.msg, pw.ctx⟩) :
    Inv10 (orphanWrite c pw).1 := by
  have hmono : ∀ {sid : Nat} {it : Item α}, Routed c sid it → Routed (orphanWrite c pw).1 sid it :=
    fun hr => routed_mono rfl (fun _ _ hv => hv) hr
  refine ⟨h.hist_lt, h.req_hist, h.str_hist, fun s hs p hp it hit => hmono (h.pend s hs p hp it hit),
    fun j e he o ho it hit => hmono (h.routed_ex j e he o ho it hit), ?_⟩
  intro sid log hl it hit
  simp only [orphanWrite] at hl
  split at hl
  · by_cases hk : sid = pw.sid
    · subst hk
      simp only [appendLog_same, Option.some.injEq] at hl
      subst hl
      rcases List.mem_append.mp hit with hit | hit
      · cases hc : c.store pw.sid with
        | none => rw [hc] at hit; simp at hit
        | some l => rw [hc] at hit; exact hmono (h.routed_log pw.sid l hc it (by simpa using hit))
      · simp at hit; subst hit; exact hmono hrt
    · rw [appendLog_other _ _ _ _ hk] at hl; exact hmono (h.routed_log sid log hl it hit)
  · exact hmono (h.routed_log sid log hl it hit)

theorem inv10_wdeliver {c : Conn α} (hw : Inv c) (h : Inv10 c) (hpr : PendRouted c) (i : Nat) : Inv10 (wdeliverR c i).1 := by
  unfold wdeliverR
  split
  · exact h
  · rename_i pw hpw
    have hmem : pw ∈ c.pendW := List.mem_of_getElem? hpw
    have hrt := hpr pw hmem
    have hw1 : Inv ({ c with pendW := c.pendW.eraseIdx i } : Conn α) :=
      inv_pendW hw _ (fun x hx => hw.pend_lt x (mem_eraseIdx hx))
    have h1 : Inv10 ({ c with pendW := c.pendW.eraseIdx i } : Conn α) := inv10_pendW h _
    split
    · rename_i s hs
      refine inv10_writeTo hw1 h1 (findStream_some hs).1 _ _ _ ?_
      rw [(findStream_some hs).2]
      exact routed_mono rfl (fun _ _ hv => hv) hrt
    · exact inv10_orphan h1 pw (routed_mono rfl (fun _ _ hv => hv) hrt)

theorem inv10_step {c : Conn α} (hw : Inv c) (h : Inv10 c) (hpr : PendRouted c) (l : Label α) : Inv10 (step c l) := by
  unfold step stepR
  cases l with
  | post calls listen ver budget => exact inv10_post hw h _ _ _ _
  | write msg ctx ctxNew => exact inv10_write hw h _ _ _
  | cut ex => exact inv10_cut h _
  | wfail ex => exact inv10_wfail h _
  | get hdr ver budget => exact inv10_get hw h _ _ _
  | sclose req retry => exact inv10_sclose hw h _ _
  | «end» => exact ⟨h.hist_lt, h.req_hist, h.str_hist, fun s hs p hp it hit => routed_mono rfl (fun _ _ hv => hv) (h.pend s hs p hp it hit),
      fun j e he o ho it hit => routed_mono rfl (fun _ _ hv => hv) (h.routed_ex j e he o ho it hit),
      fun sid log hl it hit => routed_mono rfl (fun _ _ hv => hv) (h.routed_log sid log hl it hit)⟩
  | evict sid n => exact ⟨h.hist_lt, h.req_hist, h.str_hist, fun s hs p hp it hit => routed_mono rfl (fun _ _ hv => hv) (h.pend s hs p hp it hit),
      fun j e he o ho it hit => routed_mono rfl (fun _ _ hv => hv) (h.routed_ex j e he o ho it hit),
      fun sid log hl it hit => routed_mono rfl (fun _ _ hv => hv) (h.routed_log sid log hl it hit)⟩
  | wroute msg ctx ctxNew => exact inv10_wroute h _ _ _
  | wdeliver i => exact inv10_wdeliver hw h hpr i

/-- the ghost history of registered streams only grows -/
theorem step_hist_mono {c : Conn α} (h : Inv10 c) (l : Label α) : ∀ sid v, c.hist sid = some v → (step c l).hist sid = some v := by
  intro sid v hv
  have same : (step c l).hist = c.hist → (step c l).hist sid = some v := fun he => by rw [he]; exact hv
  cases l with
  | post calls listen ver budget =>
    show (post c calls listen ver budget).hist sid = some v
    unfold post
    split
    · exact hv
    · split
      · exact hv
      · have fh := (postPrimed_frame c (dedup calls) listen ver budget).2.2.2.2.2.2
        have hne : sid ≠ c.nextSid := fun hh => by have := h.hist_lt sid (by rw [hv]; rfl); omega
        rw [postNew_eq]
        split
        · simp [cut, finish, fh, hne, hv]
        · rw [fh]; simp [hne, hv]
  | write msg ctx ctxNew =>
    apply same
    show (writeR c msg ctx ctxNew).1.hist = c.hist
    unfold writeR
    split
    · rfl
    · split
      · simp
      · split
        · simp
        · simp [writeTo]
  | cut ex => exact hv
  | wfail ex => exact hv
  | get hdr ver budget =>
    apply same
    show (get c hdr ver budget).hist = c.hist
    unfold get
    split
    · rfl
    · split
      · rfl
      · split
        · rfl
        · split
          · rfl
          · rename_i items _
            have hr := (replayLoop_frame (getOpen c hdr.sid hdr.from budget) c.exs.length hdr.sid hdr.from items).2.2.2.2.1
            have hg := (getOpen_frame c hdr.sid hdr.from budget).2.2.2.2.1
            simp only [getGo]
            split
            · split
              · simp [finish, hr, hg]
              · split
                · simp [finish, hr, hg]
                · simp only [attach]; split <;> simp [cut, finish, hr, hg]
            · simp [finish, hr, hg]
  | sclose req retry =>
    apply same
    show (sclose c req retry).hist = c.hist
    unfold sclose
    split
    · rfl
    · split
      · rfl
      · split
        · split <;> rfl
        · rfl
  | «end» => exact hv
  | evict sid' n => exact hv
  | wroute msg ctx ctxNew =>
    apply same
    show (wrouteR c msg ctx ctxNew).1.hist = c.hist
    unfold wrouteR
    split
    · rfl
    · split
      · simp
      · split <;> simp
  | wdeliver i =>
    apply same
    show (wdeliverR c i).1.hist = c.hist
    unfold wdeliverR
    split
    · rfl
    · split
      · simp [writeTo]
      · simp [orphanWrite]

theorem pendRouted_step {c : Conn α} (h : Inv10 c) (hpr : PendRouted c) (l : Label α) : PendRouted (step c l) := by
  intro pw hp
  have hmono : ∀ {sid : Nat} {it : Item α}, Routed c sid it → Routed (step c l) sid it :=
    fun hr => routed_mono (step_cfg c l) (step_hist_mono h l) hr
  rcases step_pendW c l pw hp with h0 | ⟨msg, ctx, ctxNew, s, rfl, hs, rfl⟩
  · exact hmono (hpr pw h0)
  · exact hmono (route_routed h hs)

theorem inv10_run (cfg : Cfg) (ls : List (Label α)) : Inv10 (run (init cfg) ls) := by
  suffices ∀ c : Conn α, Inv c → Inv10 c → PendRouted c → Inv10 (run c ls) from this _ (inv_init cfg) (inv10_init cfg) (pendRouted_init cfg)
  induction ls with
  | nil => intro c _ h _; exact h
  | cons l t ih => intro c hw h hpr; exact ih (step c l) (inv_step hw l) (inv10_step hw h hpr l) (pendRouted_step h hpr l)

end Resume
