import McpModel.Resume.InvId
import McpModel.Resume.Trace
/-!
E5 — provenance tags.  The harness tags every payload it makes the server write with its true provenance
(`Mon.Prov`: the request it answers / was issued under and the POST exchange that carried that request, or
"detached", or "server-initiated").  `WellTagged` states that for a write label *in terms of the label and the
connection's registration state only* (never in terms of where the model routes the write);
`TagOK prov sn c sid it` says that the tag of `it` is consistent with `it` sitting on stream `sid`.
`tagged_run`: on every well-tagged label list, every message on every exchange, in every JSON buffer and in
every log is `TagOK` for the stream it sits on.
-/
namespace Resume
open Mon
variable {α σ : Type}

/-- a `subscriptions/listen` stream -/
def listenOf (c : Conn α) (sid : Nat) : Prop := ∃ calls, c.hist sid = some (calls, true)

/-- the tag of `it` is consistent with `it` travelling on stream `sid` of session `sn` -/
def TagOK (prov : α → Prov σ) (sn : σ) (c : Conn α) (sid : Nat) (it : Item α) : Prop :=
  match prov (payloadOf it) with
  | .resp id ps req post => id = req ∧ ps = sn ∧ c.born sid = some post ∧ ∃ p, it.msg = .resp id p
  | .initResp id => ∃ p, it.msg = .resp id p
  | .inReq ps _ post => ps = sn ∧ (∀ id p, it.msg ≠ .resp id p) ∧
      ((c.cfg.jsonResponse = true ∧ (sid = 0 ∨ listenOf c sid)) ∨ (c.cfg.jsonResponse = false ∧ c.born sid = some post))
  | .detached ps => ps = sn ∧ (∀ id p, it.msg ≠ .resp id p) ∧ (sid = 0 ∨ listenOf c sid)
  | .server => (∀ id p, it.msg ≠ .resp id p) ∧ (sid = 0 ∨ listenOf c sid)
  | .fanout _ _ _ _ => (∀ id p, it.msg ≠ .resp id p) ∧ (sid = 0 ∨ listenOf c sid)
  | .other => False

theorem listenOf_ext {c c' : Conn α} (h : Ext c c') {sid : Nat} (hl : listenOf c sid) : listenOf c' sid := by
  obtain ⟨calls, hc⟩ := hl; exact ⟨calls, h.hist sid _ hc⟩

theorem tagOK_pmono (prov : α → Prov σ) (sn : σ) : PMono (TagOK prov sn) := by
  intro c c' hext sid it h
  unfold TagOK at h ⊢
  split
  · rename_i id ps req post hp
    rw [hp] at h
    exact ⟨h.1, h.2.1, hext.born sid _ h.2.2.1, h.2.2.2⟩
  · rename_i id hp; rw [hp] at h; exact h
  · rename_i ps req post hp
    rw [hp] at h
    refine ⟨h.1, h.2.1, ?_⟩
    rcases h.2.2 with ⟨hj, h0 | hl⟩ | ⟨hj, hb⟩
    · exact Or.inl ⟨by rw [hext.cfg]; exact hj, Or.inl h0⟩
    · exact Or.inl ⟨by rw [hext.cfg]; exact hj, Or.inr (listenOf_ext hext hl)⟩
    · exact Or.inr ⟨by rw [hext.cfg]; exact hj, hext.born sid _ hb⟩
  · rename_i ps hp
    rw [hp] at h
    refine ⟨h.1, h.2.1, ?_⟩
    rcases h.2.2 with h0 | hl
    · exact Or.inl h0
    · exact Or.inr (listenOf_ext hext hl)
  · rename_i hp
    rw [hp] at h
    refine ⟨h.1, ?_⟩
    rcases h.2 with h0 | hl
    · exact Or.inl h0
    · exact Or.inr (listenOf_ext hext hl)
  · rename_i ps req post hctx hp
    rw [hp] at h
    refine ⟨h.1, ?_⟩
    rcases h.2 with h0 | hl
    · exact Or.inl h0
    · exact Or.inr (listenOf_ext hext hl)
  · rename_i hp; rw [hp] at h; exact h

/-- the tag of a notification / server→client request written with context `ctx` -/
def TagNR (prov : α → Prov σ) (sn : σ) (c : Conn α) (p : α) (ctx : Option Nat) : Prop :=
  match prov p with
  | .inReq ps req post => ps = sn ∧ ctx = some req ∧ ∀ sid, c.reqStreams req = some sid → c.born sid = some post
  | .detached ps => ps = sn ∧ ctx = none
  | .server => ctx = none ∨ ∃ r, ctx = some r ∧ ∀ sid, c.reqStreams r = some sid → listenOf c sid
  | .fanout _ _ _ _ => ctx = none      -- a fan-out copy is written with the background context in every session
  | _ => False

/-- **well-tagged write labels**: the tag names the request and the POST exchange that currently carries it
(`born` of the stream the request is registered on), resp. says "detached" exactly when the context belongs to
no request, resp. "server-initiated" for a write without context or under a `subscriptions/listen` request.
Nothing is said about where the write goes. -/
def WellTaggedW (prov : α → Prov σ) (sn : σ) (c : Conn α) : Msg α → Option Nat → Prop
  | .resp r p, _ =>
    match prov p with
    | .resp id ps req post => id = r ∧ req = r ∧ ps = sn ∧ ∀ sid, c.reqStreams r = some sid → c.born sid = some post
    | .initResp id => id = r
    | _ => False
  | .notif p, ctx => TagNR prov sn c p ctx
  | .call p, ctx => TagNR prov sn c p ctx

/-- (for the split write the tag is judged at the routing section, where the request is looked up) -/
def WellTagged (prov : α → Prov σ) (sn : σ) (c : Conn α) : Label α → Prop
  | .write msg ctx _ => WellTaggedW prov sn c msg ctx
  | .wroute msg ctx _ => WellTaggedW prov sn c msg ctx
  | _ => True

theorem route_related_some {c : Conn α} {msg : Msg α} {ctx : Option Nat} {s : Stream α} {r : Nat}
    (hrel : related c msg ctx = some r) (hr : route c msg ctx = some s) : c.reqStreams r = some s.id := by
  unfold route at hr
  rw [hrel] at hr
  simp only at hr
  split at hr
  · rename_i sid hreq
    rw [hreq, (findStream_some hr).2]
  · cases hr

theorem route_related_none {c : Conn α} (h10 : Inv10 c) {msg : Msg α} {ctx : Option Nat} {s : Stream α}
    (hrel : related c msg ctx = none) (hr : route c msg ctx = some s) : s.id = 0 ∨ listenOf c s.id := by
  unfold route at hr
  rw [hrel] at hr
  simp only at hr
  split at hr
  · rename_i s' hl
    cases hr
    obtain ⟨hmem, hlis⟩ := findListen_some hl
    have := (h10.str_hist s hmem).1
    rw [hlis] at this
    exact Or.inr ⟨_, this⟩
  · exact Or.inl (findStream_some hr).2

theorem route_tagNR {prov : α → Prov σ} {sn : σ} {c : Conn α} (h10 : Inv10 c) {msg : Msg α} (p : α) (hp : payloadOf ⟨msg, ctx⟩ = p)
    (hnr : ∀ id q, msg ≠ .resp id q) (hrel : related c msg ctx = if c.cfg.jsonResponse then none else ctx)
    (hl : TagNR prov sn c p ctx) (s : Stream α) (hr : route c msg ctx = some s) : TagOK prov sn c s.id ⟨msg, ctx⟩ := by
  unfold TagOK
  rw [hp]
  unfold TagNR at hl
  split at hl
  · rename_i ps req post hpv
    rw [hpv]
    obtain ⟨h1, h2, h3⟩ := hl
    refine ⟨h1, hnr, ?_⟩
    cases hj : c.cfg.jsonResponse with
    | true =>
      rw [hj] at hrel
      exact Or.inl ⟨rfl, route_related_none h10 (by simpa using hrel) hr⟩
    | false =>
      rw [hj] at hrel
      simp only [Bool.false_eq_true, if_false] at hrel
      subst h2
      exact Or.inr ⟨rfl, h3 s.id (route_related_some hrel hr)⟩
  · rename_i ps hpv
    rw [hpv]
    obtain ⟨h1, h2⟩ := hl
    refine ⟨h1, hnr, ?_⟩
    subst h2
    have : related c msg none = none := by rw [hrel]; split <;> rfl
    exact route_related_none h10 this hr
  · rename_i hpv
    rw [hpv]
    refine ⟨hnr, ?_⟩
    cases hj : c.cfg.jsonResponse with
    | true =>
      rw [hj] at hrel
      exact route_related_none h10 (by simpa using hrel) hr
    | false =>
      rw [hj] at hrel
      simp only [Bool.false_eq_true, if_false] at hrel
      rcases hl with h0 | ⟨r, hr1, hr2⟩
      · subst h0
        exact route_related_none h10 hrel hr
      · subst hr1
        exact Or.inr (hr2 s.id (route_related_some hrel hr))
  · rename_i ps req post hctx hpv
    rw [hpv]
    refine ⟨hnr, ?_⟩
    subst hl
    have : related c msg none = none := by rw [hrel]; split <;> rfl
    exact route_related_none h10 this hr
  · exact absurd hl id

/-- a well-tagged write lands on a stream its tag is consistent with -/
theorem route_tagOK_W {prov : α → Prov σ} {sn : σ} {c : Conn α} (h10 : Inv10 c) (msg : Msg α) (ctx : Option Nat)
    (hl : WellTaggedW prov sn c msg ctx) : ∀ s, route c msg ctx = some s → TagOK prov sn c s.id ⟨msg, ctx⟩ := by
  intro s hr
  cases msg with
  | resp r p =>
    have hrel : related c (.resp r p) ctx = some r := rfl
    have hreq := route_related_some hrel hr
    simp only [WellTaggedW] at hl
    unfold TagOK
    simp only [payloadOf]
    split at hl
    · rename_i id ps req post hpv
      rw [hpv]
      obtain ⟨h1, h2, h3, h4⟩ := hl
      exact ⟨by rw [h1, h2], h3, h4 s.id hreq, ⟨p, by rw [h1]⟩⟩
    · rename_i id hpv
      rw [hpv]
      exact ⟨p, by rw [hl]⟩
    · exact absurd hl id
  | notif p =>
    exact route_tagNR h10 p rfl (by intros; simp) (by simp [related]) hl s hr
  | call p =>
    exact route_tagNR h10 p rfl (by intros; simp) (by simp [related]) hl s hr

theorem route_tagOK {prov : α → Prov σ} {sn : σ} {c : Conn α} (h10 : Inv10 c) (l : Label α) (hl : WellTagged prov sn c l) :
    RouteOK (TagOK prov sn) c l := by
  cases l with
  | write msg ctx ctxNew => exact route_tagOK_W h10 msg ctx hl
  | wroute msg ctx ctxNew => exact route_tagOK_W h10 msg ctx hl
  | post _ _ _ _ => trivial
  | cut _ => trivial
  | wfail _ => trivial
  | get _ _ _ => trivial
  | sclose _ _ => trivial
  | «end» => trivial
  | evict _ _ => trivial
  | wdeliver _ => trivial

def WellTaggedRun (prov : α → Prov σ) (sn : σ) : Conn α → List (Label α) → Prop
  | _, [] => True
  | c, l :: ls => WellTagged prov sn c l ∧ WellTaggedRun prov sn (step c l) ls

theorem inv10_runFrom {c : Conn α} (hw : Inv c) (h : Inv10 c) (hpr : PendRouted c) (ls : List (Label α)) :
    Inv10 (run c ls) ∧ PendRouted (run c ls) := by
  induction ls generalizing c with
  | nil => exact ⟨h, hpr⟩
  | cons l t ih => simp only [run, List.foldl_cons]; exact ih (inv_step hw l) (inv10_step hw h hpr l) (pendRouted_step h hpr l)

theorem invBorn_runFrom {c : Conn α} (hw : Inv c) (h : InvBorn c) (ls : List (Label α)) : InvBorn (run c ls) := by
  induction ls generalizing c with
  | nil => exact h
  | cons l t ih => simp only [run, List.foldl_cons]; exact ih (inv_step hw l) (invBorn_step hw h l)

theorem invJ_runFrom {c : Conn α} (hw : Inv c) (h10 : Inv10 c) (hpr : PendRouted c) (hb : InvBorn c) (h : InvJ c) (ls : List (Label α)) :
    InvJ (run c ls) := by
  induction ls generalizing c with
  | nil => exact h
  | cons l t ih =>
    simp only [run, List.foldl_cons]
    exact ih (inv_step hw l) (inv10_step hw h10 hpr l) (pendRouted_step h10 hpr l) (invBorn_step hw hb l) (invJ_step hw h10 hb h l)

theorem tagged_runFrom {prov : α → Prov σ} {sn : σ} {c : Conn α} (hw : Inv c) (h10 : Inv10 c) (hpr : PendRouted c) (hb : InvBorn c)
    (h : InvMsg (TagOK prov sn) c) (hpp : PendP (TagOK prov sn) c) (ls : List (Label α)) (hl : WellTaggedRun prov sn c ls) :
    InvMsg (TagOK prov sn) (run c ls) ∧ PendP (TagOK prov sn) (run c ls) := by
  induction ls generalizing c with
  | nil => exact ⟨h, hpp⟩
  | cons l t ih =>
    simp only [run, List.foldl_cons]
    exact ih (inv_step hw l) (inv10_step hw h10 hpr l) (pendRouted_step h10 hpr l) (invBorn_step hw hb l)
      (invMsg_step (tagOK_pmono prov sn) hw h10 hb h hpp l (route_tagOK h10 l hl.1))
      (pendP_step (tagOK_pmono prov sn) h10 hb hpp l (route_tagOK h10 l hl.1)) hl.2

/-- **tags are consistent with where messages sit**, on every well-tagged label list -/
theorem tagged_run (prov : α → Prov σ) (sn : σ) (cfg : Cfg) (ls : List (Label α)) (hl : WellTaggedRun prov sn (init cfg) ls) :
    InvMsg (TagOK prov sn) (run (init cfg) ls) :=
  (tagged_runFrom (inv_init cfg) (inv10_init cfg) (pendRouted_init cfg) (invBorn_init cfg) (invMsg_init cfg) (pendP_init cfg) ls hl).1

end Resume
