import McpModel.Notify.BridgeOps13
/-!
# Bridge, part 9: table dumps and the end of a case
-/
namespace Notify.Bridge
open Notify Notify.Mon Notify.Sys Generated.Notify
variable {seen : List Nat} {y : State} {m : MState}

/-- the monitor's slot but for the record of ended listens -/
def SameButLost (d d' : MSlot) : Prop :=
  d'.connected = d.connected ∧ d'.modern = d.modern ∧ d'.listens = d.listens ∧ d'.luris = d.luris ∧ d'.owed = d.owed ∧
  d'.maxHandled = d.maxHandled ∧ d'.invalidated = d.invalidated ∧ d'.starts = d.starts

theorem SameButLost.refl (d : MSlot) : SameButLost d d := ⟨rfl, rfl, rfl, rfl, rfl, rfl, rfl, rfl⟩
theorem SameButLost.trans {a b c : MSlot} (h1 : SameButLost a b) (h2 : SameButLost b c) : SameButLost a c := by
  obtain ⟨a1, a2, a3, a4, a5, a6, a7, a8⟩ := h1
  obtain ⟨b1, b2, b3, b4, b5, b6, b7, b8⟩ := h2
  exact ⟨b1.trans a1, b2.trans a2, b3.trans a3, b4.trans a4, b5.trans a5, b6.trans a6, b7.trans a7, b8.trans a8⟩

theorem sameButLost_foldl {α} (f : MSlot → α → MSlot) (hf : ∀ d a, SameButLost d (f d a)) (l : List α) (d : MSlot) :
    SameButLost d (l.foldl f d) := by
  induction l generalizing d with
  | nil => exact SameButLost.refl d
  | cons a t ih => exact (hf d a).trans (ih _)

theorem tbNext_slot (m : MState) (tb : Tables) (i : Slot) : SameButLost (m.slots i) ((tbNext m tb).slots i) := by
  simp only [tbNext]
  split
  · exact SameButLost.refl _
  · refine (sameButLost_foldl _ ?_ _ _).trans (sameButLost_foldl _ ?_ _ _)
    · intro d k; split
      · exact ⟨rfl, rfl, rfl, rfl, rfl, rfl, rfl, rfl⟩
      · exact SameButLost.refl d
    · intro d u; split
      · exact ⟨rfl, rfl, rfl, rfl, rfl, rfl, rfl, rfl⟩
      · exact SameButLost.refl d

theorem whoOfSid_slot (h : Rel seen y m) (i : Slot) (hu : (y.slots i).used = true) : whoOfSid y (y.slots i).sid = .slot i := by
  simp only [whoOfSid, slotOfSid_some h.sess hu rfl]

theorem whoOfSid_eq_slot {sid : Nat} {i : Slot} (hw : whoOfSid y sid = .slot i) : (y.slots i).used = true ∧ (y.slots i).sid = sid := by
  simp only [whoOfSid] at hw
  cases hs : slotOfSid y sid with
  | none => rw [hs] at hw; simp at hw
  | some j =>
    rw [hs] at hw
    simp only [Who.slot.injEq] at hw
    subst hw
    exact slotOfSid_spec hs

theorem who_ok (h : Rel seen y m) {sid : Nat} (hs : sid ∈ y.srv.sessions.map Prod.fst) : whoBad m (whoOfSid y sid) = false := by
  obtain ⟨p, hp, e⟩ := List.mem_map.1 hs
  obtain ⟨i, hu, hsi⟩ := h.sess.sess_used p hp
  have : (y.slots i).sid = sid := by rw [hsi, e]
  rw [← this, whoOfSid_slot h i hu]
  simp only [whoBad, h.sess.conn i, hu]
  rfl

theorem tagOf_modern (h : Rel seen y m) (i : Slot) (hu : (y.slots i).used = true) (id : Nat) :
    tagOf y (y.slots i).sid id = if (y.slots i).modern then .id id else .q := by
  have hS := h.srvOk.invS
  have := genOf_of_mem hS.sess_nodup (h.sess.used_sess i hu)
  simp only [tagOf, this]
  cases (y.slots i).modern <;> simp [genB]

theorem lookup_range_map {β} (g : Nat → β) (n u : Nat) (hu : u < n) :
    ((List.range n).map (fun u => (u, g u))).lookup u = some (g u) := by
  induction n with
  | zero => omega
  | succ k ih =>
    rw [List.range_succ, List.map_append]
    by_cases e : u < k
    · have := ih e
      rw [List.lookup_append, this]; rfl
    · have : u = k := by omega
      subst this
      have hnone : ((List.range u).map (fun u => (u, g u))).lookup u = none := by
        rw [List.lookup_eq_none_iff]
        intro p hp
        obtain ⟨j, hj, rfl⟩ := List.mem_map.1 hp
        simp at hj ⊢
        omega
      rw [List.lookup_append, hnone]
      simp [List.lookup]

theorem tablesOf_uri (y : State) (u : Nat) (hu : u < 3) :
    (tablesOf y).uri u = dumpTable y ((y.srv.rsubs.filter (fun r => r.1 == u)).map (fun r => (r.2.1, r.2.2))) := by
  simp only [Tables.uri, tablesOf]
  rw [lookup_range_map _ 3 u hu]
  rfl

theorem hasEntry_dump (h : Rel seen y m) (i : Slot) (hu : (y.slots i).used = true) (l : List (Nat × Nat)) (id : Nat)
    (hm : ((y.slots i).sid, id) ∈ l) :
    hasEntry (dumpTable y l) i (if (y.slots i).modern then .id id else .q) = true := by
  simp only [hasEntry, dumpTable, List.any_eq_true, List.mem_map]
  refine ⟨_, ⟨_, hm, rfl⟩, ?_⟩
  simp only [whoOfSid_slot h i hu, tagOf_modern h i hu]
  simp

theorem tables_sess (h : Rel seen y m) : ∀ e ∈ (tablesOf y).sess, whoBad m e = false := by
  intro e he
  simp only [tablesOf, List.mem_map] at he
  obtain ⟨p, hp, rfl⟩ := he
  exact who_ok h (List.mem_map.2 ⟨p, hp, rfl⟩)

theorem subs_sess (h : Rel seen y m) (k : Kind) (p : Nat × Nat) (hp : p ∈ (y.srv.ks k).subs) :
    p.1 ∈ y.srv.sessions.map Prod.fst := by
  have hS := h.srvOk.invS
  obtain ⟨l, hl, e1, _, _⟩ := hS.subs_listen k p hp
  have := hS.listen_modern l hl
  rw [e1] at this
  exact List.mem_map.2 ⟨_, this, rfl⟩

theorem rsubs_sess (h : Rel seen y m) (r : Nat × Nat × Nat) (hr : r ∈ y.srv.rsubs) :
    r.2.1 ∈ y.srv.sessions.map Prod.fst := by
  have hS := h.srvOk.invS
  rcases hS.rsubs_owner r hr with hg | ⟨hg, _⟩
  · exact List.mem_map.2 ⟨_, hg, rfl⟩
  · exact List.mem_map.2 ⟨_, hg, rfl⟩

theorem tbBad_false (h : Rel seen y m) : tbBad m (tablesOf y) = false := by
  simp only [tbBad, Bool.or_eq_false_iff]
  refine ⟨⟨?_, ?_⟩, ?_⟩
  · rw [List.any_eq_false]
    intro k _
    simp only [Bool.not_eq_true]
    rw [List.any_eq_false]
    intro e he
    simp only [tablesOf, dumpTable, List.mem_map] at he
    obtain ⟨p, hp, rfl⟩ := he
    simp only [Bool.not_eq_true]
    exact who_ok h (subs_sess h k p hp)
  · rw [List.any_eq_false]
    intro p hp
    simp only [Bool.not_eq_true]
    rw [List.any_eq_false]
    intro e he
    simp only [tablesOf, List.mem_map] at hp
    obtain ⟨u, _, rfl⟩ := hp
    simp only [dumpTable, List.mem_map] at he
    obtain ⟨q, ⟨r, hr, rfl⟩, rfl⟩ := he
    simp only [Bool.not_eq_true]
    exact who_ok h (rsubs_sess h r (List.mem_filter.1 hr).1)
  · rw [List.any_eq_false]
    intro e he
    simp only [Bool.not_eq_true]
    exact tables_sess h e he

theorem filter_eq_nil_of {α} (l : List α) (p : α → Bool) (h : ∀ a ∈ l, p a = false) : l.filter p = [] := by
  rw [List.filter_eq_nil_iff]
  intro a ha; rw [h a ha]; simp

theorem kindMiss_nil (h : Rel seen y m) (i : Slot) (hu : (y.slots i).used = true) :
    kindMiss (m.slots i) (tablesOf y) i = [] := by
  have hS := h.srvOk.invS
  simp only [kindMiss]
  split
  · rfl
  · rename_i hmod
    have hmm : (m.slots i).modern = true := by simpa using hmod
    have hmod : (y.slots i).modern = true := by rw [← h.sess.modern i hu]; exact hmm
    apply filter_eq_nil_of
    intro k _
    cases hg : (m.slots i).grantedK k
    · rfl
    · simp only [Bool.true_and, Bool.not_eq_false']
      simp only [MSlot.grantedK, List.any_eq_true] at hg
      obtain ⟨ml, hml, hk⟩ := hg
      obtain ⟨l, hl, e1, e2⟩ := (h.lis.listens i hu ml).1 hml
      subst e2
      have hk' : k ∈ l.kinds := by simpa [toM] using hk
      obtain ⟨hh, hheir, hsub⟩ := hS.listen_served l hl k hk'
      obtain ⟨l', hl', f1, f2, f3⟩ := heir_mem hheir
      rw [List.any_eq_true]
      refine ⟨toM l', (h.lis.listens i hu _).2 ⟨l', hl', by rw [f1, e1], rfl⟩, ?_⟩
      have hk'' : k ∈ l'.kinds := (grantsK_iff k l').1 f3
      rw [e1] at hsub
      have := hasEntry_dump h i hu (y.srv.ks k).subs hh hsub
      rw [hmod] at this
      simp only [Bool.and_eq_true]
      refine ⟨by simpa [toM] using hk'', ?_⟩
      show hasEntry (dumpTable y (y.srv.ks k).subs) i (.id l'.id) = true
      rw [f2]; exact this

theorem uriMiss_nil (h : Rel seen y m) (i : Slot) (hu : (y.slots i).used = true) :
    uriMiss (m.slots i) (tablesOf y) i = [] := by
  have hS := h.srvOk.invS
  simp only [uriMiss]
  apply filter_eq_nil_of
  intro u hu3
  have hu3 : u < 3 := by simpa using hu3
  rw [tablesOf_uri y u hu3]
  cases hg : (m.slots i).grantedU u
  · rfl
  · simp only [Bool.true_and]
    have hsubd := (grantedU_iff h i hu u).1 hg
    cases hmod : (y.slots i).modern with
    | false =>
      have hmm : (m.slots i).modern = false := by rw [h.sess.modern i hu]; exact hmod
      simp only [hmm, Bool.false_eq_true, if_false, Bool.not_eq_false']
      have hrl : ((y.slots i).sid, u) ∈ y.srv.rlive := by
        rcases hsubd with h1 | ⟨l, hl, e1, _⟩
        · exact h1
        · have := hS.listen_modern l hl
          rw [e1] at this
          have hg2 := gen_unique hS.sess_nodup this (h.sess.used_sess i hu)
          rw [hmod] at hg2; simp [genB] at hg2
      obtain ⟨_, id, hid⟩ := (hS.rlive_iff _ _).1 hrl
      have := hasEntry_dump h i hu ((y.srv.rsubs.filter (fun r => r.1 == u)).map (fun r => (r.2.1, r.2.2))) id
        (List.mem_map.2 ⟨_, List.mem_filter.2 ⟨hid, by simp⟩, rfl⟩)
      rw [hmod] at this
      exact this
    | true =>
      have hmm : (m.slots i).modern = true := by rw [h.sess.modern i hu]; exact hmod
      simp only [hmm, if_true, Bool.not_eq_false']
      obtain ⟨l, hl, e1, hk'⟩ : ∃ l ∈ y.srv.listens, l.sid = (y.slots i).sid ∧ u ∈ l.uris := by
        rcases hsubd with h1 | h2
        · have := ((hS.rlive_iff _ _).1 h1).1
          have hg2 := gen_unique hS.sess_nodup this (h.sess.used_sess i hu)
          rw [hmod] at hg2; simp [genB] at hg2
        · exact h2
      obtain ⟨hh, hheir, hsub⟩ := hS.listen_served_uri l hl u hk'
      obtain ⟨l', hl', f1, f2, f3⟩ := heir_mem hheir
      rw [List.any_eq_true]
      refine ⟨toM l', (h.lis.listens i hu _).2 ⟨l', hl', by rw [f1, e1], rfl⟩, ?_⟩
      have hk'' : u ∈ l'.uris := (grantsU_iff u l').1 f3
      rw [e1] at hsub
      have := hasEntry_dump h i hu ((y.srv.rsubs.filter (fun r => r.1 == u)).map (fun r => (r.2.1, r.2.2))) hh
        (List.mem_map.2 ⟨_, List.mem_filter.2 ⟨hsub, by simp⟩, rfl⟩)
      rw [hmod] at this
      simp only [Bool.and_eq_true]
      refine ⟨by simpa [toM] using hk'', ?_⟩
      show hasEntry _ i (.id l'.id) = true
      rw [f2]; exact this

theorem tbMissing_none (h : Rel seen y m) (i : Slot) : tbMissing m (tablesOf y) i = none := by
  simp only [tbMissing]
  split
  · rfl
  · rename_i hc
    have hu : (y.slots i).used = true := by
      rw [← h.sess.conn i]; simpa using hc
    rw [kindMiss_nil h i hu, uriMiss_nil h i hu]
    simp [first]

theorem tbForeign_none (h : Rel seen y m) (i : Slot) : tbForeign m (tablesOf y) i = none := by
  have hS := h.srvOk.invS
  simp only [tbForeign]
  split
  · rfl
  · rename_i hc
    simp only [Bool.or_eq_true, not_or, Bool.not_eq_true', Bool.not_eq_false, Bool.not_eq_true] at hc
    have hu : (y.slots i).used = true := by rw [← h.sess.conn i]; simpa using hc.1
    have hmm : (m.slots i).modern = true := by simpa using hc.2
    have hmod : (y.slots i).modern = true := by rw [← h.sess.modern i hu]; exact hmm
    have hbadK : Kind.all.any (fun k => ((tablesOf y).kind k).any (fun e =>
        e.who == .slot i && !(m.slots i).listens.any (fun l => l.kinds.contains k && e.tag == .id l.id))) = false := by
      rw [List.any_eq_false]
      intro k _
      simp only [Bool.not_eq_true]
      rw [List.any_eq_false]
      intro e he
      simp only [tablesOf, dumpTable, List.mem_map] at he
      obtain ⟨p, hp, rfl⟩ := he
      simp only [Bool.not_eq_true, Bool.and_eq_false_iff, Bool.not_eq_false']
      by_cases hw : whoOfSid y p.1 = .slot i
      · right
        obtain ⟨_, hsid⟩ := whoOfSid_eq_slot hw
        obtain ⟨l, hl, e1, e2, e3⟩ := hS.subs_listen k p hp
        rw [List.any_eq_true]
        refine ⟨toM l, (h.lis.listens i hu _).2 ⟨l, hl, by rw [e1, hsid], rfl⟩, ?_⟩
        have : tagOf y p.1 p.2 = .id p.2 := by
          rw [← hsid, tagOf_modern h i hu, hmod]; rfl
        rw [this]
        simp [toM, e3, e2]
      · left; simpa using hw
    have hbadU : (List.range 3).filter (fun u => ((tablesOf y).uri u).any (fun e =>
        e.who == .slot i && !(m.slots i).listens.any (fun l => l.uris.contains u && e.tag == .id l.id))) = [] := by
      apply filter_eq_nil_of
      intro u hu3
      have hu3 : u < 3 := by simpa using hu3
      rw [tablesOf_uri y u hu3, List.any_eq_false]
      intro e he
      simp only [dumpTable, List.mem_map] at he
      obtain ⟨q, ⟨r, hr, rfl⟩, rfl⟩ := he
      obtain ⟨hr1, hr2⟩ := List.mem_filter.1 hr
      have hru : r.1 = u := by simpa using hr2
      simp only [Bool.not_eq_true, Bool.and_eq_false_iff, Bool.not_eq_false']
      by_cases hw : whoOfSid y r.2.1 = .slot i
      · right
        obtain ⟨_, hsid⟩ := whoOfSid_eq_slot hw
        have hmods : (r.2.1, Gen.modern) ∈ y.srv.sessions := by
          rw [← hsid]
          have := h.sess.used_sess i hu
          rw [hmod] at this; exact this
        have hheir := (rsubs_modern_iff hS hmods r.1 r.2.2).1 hr1
        obtain ⟨l, hl, e1, e2, e3⟩ := heir_mem hheir
        rw [List.any_eq_true]
        refine ⟨toM l, (h.lis.listens i hu _).2 ⟨l, hl, by rw [e1, hsid], rfl⟩, ?_⟩
        have : tagOf y r.2.1 r.2.2 = .id r.2.2 := by
          rw [← hsid, tagOf_modern h i hu, hmod]; rfl
        rw [this]
        have hu' : u ∈ l.uris := by rw [← hru]; exact (grantsU_iff _ l).1 e3
        simp [toM, hu', e2]
      · left; simpa using hw
    rw [hbadK, hbadU]
    simp

theorem step_tables (h : Rel seen y m) (hint : Option Who) : StepOk seen y m .tables hint := by
  unfold StepOk
  simp only [sysStep]
  refine ⟨?_, ?_⟩
  · show tbCheck m (tablesOf y) = none
    simp only [tbCheck]
    rw [first_eq_none]
    intro c hc
    rcases List.mem_cons.1 hc with hc | hc
    · rw [hc, tbBad_false h]; rfl
    · rcases List.mem_append.1 hc with hc | hc
      · obtain ⟨i, _, rfl⟩ := List.mem_map.1 hc
        exact tbMissing_none h i
      · obtain ⟨i, _, rfl⟩ := List.mem_map.1 hc
        exact tbForeign_none h i
  · show Rel seen y (tbNext m (tablesOf y))
    have hsl := fun j => tbNext_slot m (tablesOf y) j
    exact h.content_frame (y' := y) (m' := tbNext m (tablesOf y)) rfl h.g.content (fun _ => rfl) (fun _ => rfl) (fun _ => rfl)
      (fun _ => rfl) (fun _ => rfl) (fun _ => rfl) (fun _ => rfl)
      (fun j _ hc => hc.congr rfl rfl rfl (hsl j).2.2.2.2.2.1 (hsl j).2.2.2.2.2.2.1 (hsl j).2.2.2.2.2.2.2)
      (fun j => (hsl j).1) (fun j => (hsl j).2.1) (fun j => (hsl j).2.2.1) (fun j => (hsl j).2.2.2.1)
      (fun j => (hsl j).2.2.2.2.1) rfl rfl rfl rfl

theorem step_fin (h : Rel seen y m) (hint : Option Who) (hok : okOp seen y .fin) : StepOk seen y m .fin hint := by
  unfold StepOk
  simp only [sysStep]
  refine ⟨?_, h⟩
  show endCheck m = none
  simp only [okOp, quietB, List.all_eq_true] at hok
  have hT := h.srvOk.invT
  have hquiet : ∀ k, ¬ active (y.srv.ks k) ∧ (y.srv.ks k).inflight = [] := by
    intro k
    have := hok k (Kind.mem_all k)
    simp only [Bool.and_eq_true, List.isEmpty_iff, beq_iff_eq] at this
    obtain ⟨⟨⟨h1, h2⟩, h3⟩, h4⟩ := this
    refine ⟨?_, h4⟩
    rintro (⟨d, hd⟩ | hh | hh)
    · rw [hd] at h1; simp at h1
    · exact hh h2
    · omega
  have hnone : ∀ i, (m.slots i).owed = [] := by
    intro i
    cases ho : (m.slots i).owed with
    | nil => rfl
    | cons k t =>
      exfalso
      obtain ⟨_, hor⟩ := h.owed i k (by rw [ho]; exact List.mem_cons_self)
      rcases hor with h1 | ⟨x, hx, _⟩
      · exact (hquiet k).1 (hT.no_lost _ h1)
      · have hx : x ∈ (y.srv.ks k).inflight := hx
        rw [(hquiet k).2] at hx; simp at hx
  simp only [endCheck]
  rw [first_eq_none]
  intro c hc
  obtain ⟨i, _, rfl⟩ := List.mem_map.1 hc
  simp only [endSlotClause, hnone i]
  simp [Kind.all]
end Notify.Bridge
