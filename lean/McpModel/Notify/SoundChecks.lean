import McpModel.Notify.SoundAgree
/-!
# Clause soundness of the C18 monitor, part 3: which check raises which clause, and the clauses of a
list-changed fan-out that are decided by the ground truth at the record (`P_…` predicates on traces)
-/
namespace Notify.Sound
open Notify Notify.Mon Generated.Notify

theorem first_some {l : List (Option Clause)} {c : Clause} (h : first l = some c) : some c ∈ l := by
  simp only [first] at h
  obtain ⟨a, ha, e⟩ := List.exists_of_findSome?_eq_some h
  simp only [id] at e
  rw [← e]; exact ha

/-! ### a list-changed fan-out (complete, or one write of a held one) -/

/-- `r` is a record of a list-changed fan-out of kind `k` whose deliveries `ds` all went to slots -/
def IsFanout (r : Rec) (k : Kind) (ds : List SDelivery) : Prop :=
  (∃ t l, r = ⟨.cbrun k, .sent t l⟩ ∧ slotDeliveries l = some ds) ∨
  (∃ a t l b, r = ⟨.fsend k, .fsent a t l b⟩ ∧ slotDeliveries l = some ds)

/-- "every connected session entitled to them … receives … a corresponding list-changed notification": what a
callback of kind `k` sends is the notification of kind `k` -/
def P_wrongKind (tr : Trace) : Prop :=
  ∀ (i : Nat) (r : Rec) (k : Kind) (ds : List SDelivery), tr[i]? = some r → IsFanout r k ds → ∀ x ∈ ds, x.meth = .changed k

/-- "and none when the capability is disabled" -/
def P_disabled (tr : Trace) : Prop :=
  ∀ (i : Nat) (r : Rec) (k : Kind) (ds : List SDelivery), tr[i]? = some r → IsFanout r k ds → ∀ x ∈ ds, x.meth = .changed k → (truthAt tr i).cap k ≠ .off

/-- notifications reach CONNECTED sessions -/
def P_notConnected (tr : Trace) : Prop :=
  ∀ (i : Nat) (r : Rec) (k : Kind) (ds : List SDelivery), tr[i]? = some r → IsFanout r k ds → ∀ x ∈ ds, ((truthAt tr i).slots x.slot).connected = true

/-- a legacy session gets the plain notification (no subscription id) -/
def P_legacyStamped (tr : Trace) : Prop :=
  ∀ (i : Nat) (r : Rec) (k : Kind) (ds : List SDelivery), tr[i]? = some r → IsFanout r k ds → ∀ x ∈ ds,
    ((truthAt tr i).slots x.slot).connected = true → ((truthAt tr i).slots x.slot).modern = false → x.stamp = .plain

/-- the client dispatches the notification to the handler of its kind (or to none) -/
def P_wrongHandler (tr : Trace) : Prop :=
  ∀ (i : Nat) (r : Rec) (k : Kind) (ds : List SDelivery), tr[i]? = some r → IsFanout r k ds → ∀ x ∈ ds, x.hk = .none ∨ x.hk = .kind k

/-- "2026-07-28 sessions with a matching subscription": a complete fan-out reaches a 2026-07-28 session only if a
live listen of it was granted the kind -/
def P_noSubscription (tr : Trace) : Prop :=
  ∀ (i : Nat) (t : Nat) (l : List Delivery) (k : Kind) (ds : List SDelivery), tr[i]? = some (⟨.cbrun k, .sent t l⟩ : Rec) → slotDeliveries l = some ds → ∀ x ∈ ds,
    ((truthAt tr i).slots x.slot).modern = true → ((truthAt tr i).slots x.slot).grantedK k

/-- … and the notification carries the request id of a live listen of the session that was granted the kind -/
def P_badStamp (tr : Trace) : Prop :=
  ∀ (i : Nat) (t : Nat) (l : List Delivery) (k : Kind) (ds : List SDelivery), tr[i]? = some (⟨.cbrun k, .sent t l⟩ : Rec) → slotDeliveries l = some ds → ∀ x ∈ ds,
    ((truthAt tr i).slots x.slot).modern = true →
    ∃ ls ∈ ((truthAt tr i).slots x.slot).listens, Stamp.id ls.id = x.stamp ∧ k ∈ ls.kinds

/-- one run of `notifySessions` writes to a session once -/
def P_twice_complete (tr : Trace) : Prop :=
  ∀ (i : Nat) (t : Nat) (l : List Delivery) (k : Kind) (ds : List SDelivery), tr[i]? = some (⟨.cbrun k, .sent t l⟩ : Rec) → slotDeliveries l = some ds →
    ∀ j : Slot, (ds.filter (·.slot == j)).length ≤ 1

/-- the record of a fan-out or of a ResourceUpdated call lists deliveries to sessions the harness knows -/
def P_malformed (tr : Trace) : Prop :=
  ∀ (i : Nat) (r : Rec), tr[i]? = some r →
    (∀ k, r.op = .cbrun k → r.obs = .none_ ∨ ∃ t l ds, r.obs = .sent t l ∧ slotDeliveries l = some ds) ∧
    (∀ u v, r.op = .rupdated u v → ∃ t l ds, r.obs = .sent t l ∧ slotDeliveries l = some ds)

theorem cbDeliveryClause_some {m : MState} {k : Kind} {x : SDelivery} {c : Clause} (h : cbDeliveryClause m k x = some c) :
    (c = .wrongKind ∧ x.meth ≠ .changed k) ∨
    (c = .disabled ∧ x.meth = .changed k ∧ m.cap k = .off) ∨
    (c = .notConnected ∧ (m.slots x.slot).connected = false) ∨
    (c = .legacyStamped ∧ (m.slots x.slot).connected = true ∧ (m.slots x.slot).modern = false ∧ x.stamp ≠ .plain) ∨
    (c = .noSubscription ∧ (m.slots x.slot).modern = true ∧ (m.slots x.slot).grantedK k = false) ∨
    (c = .badStamp ∧ (m.slots x.slot).modern = true ∧
      (m.slots x.slot).listens.any (fun l => Stamp.id l.id == x.stamp && l.kinds.contains k) = false) ∨
    (c = .wrongHandler ∧ x.hk ≠ .none ∧ x.hk ≠ .kind k) := by
  simp only [cbDeliveryClause] at h
  split at h
  · rename_i h1; simp only [Option.some.injEq] at h; exact Or.inl ⟨h.symm, by simpa using h1⟩
  · rename_i h1
    have h1 : x.meth = .changed k := by simpa using h1
    split at h
    · rename_i h2; simp only [Option.some.injEq] at h; exact Or.inr (Or.inl ⟨h.symm, h1, by simpa using h2⟩)
    · split at h
      · rename_i h3; simp only [Option.some.injEq] at h; exact Or.inr (Or.inr (Or.inl ⟨h.symm, by simpa using h3⟩))
      · rename_i h3
        have h3 : (m.slots x.slot).connected = true := by simpa using h3
        split at h
        · rename_i h4
          simp only [Bool.and_eq_true, Bool.not_eq_true', bne_iff_ne, ne_eq] at h4
          simp only [Option.some.injEq] at h
          exact Or.inr (Or.inr (Or.inr (Or.inl ⟨h.symm, h3, h4.1, h4.2⟩)))
        · split at h
          · rename_i h5
            simp only [Bool.and_eq_true, Bool.not_eq_true'] at h5
            simp only [Option.some.injEq] at h
            exact Or.inr (Or.inr (Or.inr (Or.inr (Or.inl ⟨h.symm, h5.1, h5.2⟩))))
          · split at h
            · rename_i h6
              simp only [Bool.and_eq_true, Bool.not_eq_true'] at h6
              simp only [Option.some.injEq] at h
              exact Or.inr (Or.inr (Or.inr (Or.inr (Or.inr (Or.inl ⟨h.symm, h6.1, h6.2⟩)))))
            · split at h
              · rename_i h7
                simp only [Bool.and_eq_true, bne_iff_ne, ne_eq] at h7
                simp only [Option.some.injEq] at h
                exact Or.inr (Or.inr (Or.inr (Or.inr (Or.inr (Or.inr ⟨h.symm, h7.1, h7.2⟩)))))
              · simp at h

theorem fsDeliveryClause_some {m : MState} {k : Kind} {fan : MFan} {x : SDelivery} {c : Clause}
    (h : fsDeliveryClause m k fan x = some c) :
    (c = .wrongKind ∧ x.meth ≠ .changed k) ∨
    (c = .disabled ∧ x.meth = .changed k ∧ m.cap k = .off) ∨
    (c = .notConnected ∧ (m.slots x.slot).connected = false) ∨
    (c = .legacyStamped ∧ (m.slots x.slot).connected = true ∧ (m.slots x.slot).modern = false ∧ x.stamp ≠ .plain) ∨
    (c = .fanNotEntitled ∧ fan.expect.find? (·.1 == x.slot) = none) ∨
    (c = .fanBadStamp ∧ ∃ st, fan.expect.find? (·.1 == x.slot) = some (x.slot, st) ∧ x.stamp ∉ st) ∨
    (c = .twice ∧ x.slot ∈ fan.served) ∨
    (c = .wrongHandler ∧ x.hk ≠ .none ∧ x.hk ≠ .kind k) := by
  simp only [fsDeliveryClause] at h
  split at h
  · rename_i h1; simp only [Option.some.injEq] at h; exact Or.inl ⟨h.symm, by simpa using h1⟩
  · rename_i h1
    have h1 : x.meth = .changed k := by simpa using h1
    split at h
    · rename_i h2; simp only [Option.some.injEq] at h; exact Or.inr (Or.inl ⟨h.symm, h1, by simpa using h2⟩)
    · split at h
      · rename_i h3; simp only [Option.some.injEq] at h; exact Or.inr (Or.inr (Or.inl ⟨h.symm, by simpa using h3⟩))
      · rename_i h3
        have h3 : (m.slots x.slot).connected = true := by simpa using h3
        split at h
        · rename_i h4
          simp only [Bool.and_eq_true, Bool.not_eq_true', bne_iff_ne, ne_eq] at h4
          simp only [Option.some.injEq] at h
          exact Or.inr (Or.inr (Or.inr (Or.inl ⟨h.symm, h3, h4.1, h4.2⟩)))
        · split at h
          · rename_i hf
            simp only [Option.some.injEq] at h
            exact Or.inr (Or.inr (Or.inr (Or.inr (Or.inl ⟨h.symm, hf⟩))))
          · rename_i a stamps hf
            have ha : a = x.slot := by
              have := List.find?_some hf
              simpa using this
            subst ha
            split at h
            · rename_i h5
              simp only [Option.some.injEq] at h
              exact Or.inr (Or.inr (Or.inr (Or.inr (Or.inr (Or.inl ⟨h.symm, stamps, hf, by simpa using h5⟩)))))
            · split at h
              · rename_i h6
                simp only [Option.some.injEq] at h
                exact Or.inr (Or.inr (Or.inr (Or.inr (Or.inr (Or.inr (Or.inl ⟨h.symm, by simpa using h6⟩))))))
              · split at h
                · rename_i h7
                  simp only [Bool.and_eq_true, bne_iff_ne, ne_eq] at h7
                  simp only [Option.some.injEq] at h
                  exact Or.inr (Or.inr (Or.inr (Or.inr (Or.inr (Or.inr (Or.inr ⟨h.symm, h7.1, h7.2⟩))))))
                · simp at h

/-- the checks of the records, by record shape -/
theorem monCheck_some {m : MState} {r : Rec} {c : Clause} (h : monCheck m r = some c) :
    (∃ k t l ds, r = ⟨.cbrun k, .sent t l⟩ ∧ slotDeliveries l = some ds ∧ cbCheck m k ds = some c) ∨
    (∃ k, r.op = .cbrun k ∧ r.obs ≠ .none_ ∧ (∀ t l ds, r.obs = .sent t l → slotDeliveries l ≠ some ds) ∧ c = .malformed) ∨
    (∃ k a t l b fan ds, r = ⟨.fsend k, .fsent a t l b⟩ ∧ m.fans k = some fan ∧ slotDeliveries l = some ds ∧
      fsCheck m k fan a ds = some c) ∨
    (∃ u v t l ds, r = ⟨.rupdated u v, .sent t l⟩ ∧ slotDeliveries l = some ds ∧ ruCheck (ruContent m v) u v ds = some c) ∨
    (∃ u v, r.op = .rupdated u v ∧ (∀ t l ds, r.obs = .sent t l → slotDeliveries l ≠ some ds) ∧ c = .malformed) ∨
    (∃ i key mode v hit, r = ⟨.list i key mode, .ret v hit⟩ ∧
      checkRet (m.slots i) key v hit ((m.slots i).maxHandled key) = some c) ∨
    (∃ i key v hit, r = ⟨.fill i key, .ret v hit⟩ ∧ v < (m.slots i).starts key ∧ c = .staleCall) ∨
    (∃ tb, r = ⟨.tables, .tables tb⟩ ∧ tbCheck m tb = some c) ∨
    (∃ obs, r = ⟨.fin, obs⟩ ∧ endCheck m = some c) := by
  obtain ⟨op, obs⟩ := r
  cases op with
  | cbrun k =>
    cases obs <;> simp only [monCheck] at h <;> try (first
      | (simp at h; done)
      | (simp only [Option.some.injEq] at h
         exact Or.inr (Or.inl ⟨k, rfl, by simp, by intro t l ds e; simp at e, h.symm⟩)))
    rename_i t l
    cases hs : slotDeliveries l with
    | none =>
      rw [hs] at h
      simp only [Option.some.injEq] at h
      refine Or.inr (Or.inl ⟨k, rfl, by simp, ?_, h.symm⟩)
      intro t' l' ds e
      simp only [Obs.sent.injEq] at e
      rw [← e.2, hs]; simp
    | some ds =>
      rw [hs] at h
      exact Or.inl ⟨k, t, l, ds, rfl, hs, h⟩
  | fsend k =>
    cases obs <;> simp only [monCheck] at h <;> try (simp at h; done)
    rename_i a t l b
    cases hf : m.fans k with
    | none => rw [hf] at h; simp at h
    | some fan =>
      cases hs : slotDeliveries l with
      | none => rw [hf, hs] at h; simp at h
      | some ds =>
        rw [hf, hs] at h
        exact Or.inr (Or.inr (Or.inl ⟨k, a, t, l, b, fan, ds, rfl, hf, hs, h⟩))
  | rupdated u v =>
    cases obs <;> simp only [monCheck] at h <;> try (first
      | (simp only [Option.some.injEq] at h
         exact Or.inr (Or.inr (Or.inr (Or.inr (Or.inl ⟨u, v, rfl, by intro t l ds e; simp at e, h.symm⟩))))))
    rename_i t l
    cases hs : slotDeliveries l with
    | none =>
      rw [hs] at h
      simp only [Option.some.injEq] at h
      refine Or.inr (Or.inr (Or.inr (Or.inr (Or.inl ⟨u, v, rfl, ?_, h.symm⟩))))
      intro t' l' ds e
      simp only [Obs.sent.injEq] at e
      rw [← e.2, hs]; simp
    | some ds =>
      rw [hs] at h
      exact Or.inr (Or.inr (Or.inr (Or.inl ⟨u, v, t, l, ds, rfl, hs, h⟩)))
  | list i key mode =>
    cases obs <;> simp only [monCheck] at h <;> try (simp at h; done)
    rename_i v hit
    exact Or.inr (Or.inr (Or.inr (Or.inr (Or.inr (Or.inl ⟨i, key, mode, v, hit, rfl, h⟩)))))
  | fill i key =>
    cases obs <;> simp only [monCheck] at h <;> try (simp at h; done)
    rename_i v hit
    split at h
    · rename_i hlt
      simp only [Option.some.injEq] at h
      exact Or.inr (Or.inr (Or.inr (Or.inr (Or.inr (Or.inr (Or.inl ⟨i, key, v, hit, rfl, hlt, h.symm⟩))))))
    · simp at h
  | tables =>
    cases obs <;> simp only [monCheck] at h <;> try (simp at h; done)
    rename_i tb
    exact Or.inr (Or.inr (Or.inr (Or.inr (Or.inr (Or.inr (Or.inr (Or.inl ⟨tb, rfl, h⟩)))))))
  | fin =>
    have : monCheck m ⟨.fin, obs⟩ = endCheck m := by cases obs <;> rfl
    rw [this] at h
    exact Or.inr (Or.inr (Or.inr (Or.inr (Or.inr (Or.inr (Or.inr (Or.inr ⟨obs, rfl, h⟩)))))))
  | _ => cases obs <;> simp [monCheck] at h

/-! ### which check raises which clause -/

inductive Src where
  | mal | fan | upd | cache | tab | fin
deriving DecidableEq

def seenSrc : Seen → Src
  | .updated => .upd
  | .dump => .tab
  | .fin => .fin

def srcOf : Clause → Src
  | .malformed => .mal
  | .wrongKind | .disabled | .notConnected | .legacyStamped | .noSubscription | .badStamp | .wrongHandler | .twice
  | .fanNotEntitled | .fanBadStamp | .fanDropped => .fan
  | .lostWindow _ _ _ s => seenSrc s
  | .lostOverlap _ _ _ _ s => seenSrc s
  | .updAckWindow | .updMissed | .updRefused | .updNotSubscribed | .updTwice | .updMethod | .updOtherUri
  | .updLegacyStamped | .updBadStamp => .upd
  | .staleRead _ | .f7Stale | .staleCall | .hitAfterInvalidate => .cache
  | .closedMentioned | .ackTableWindow | .f19Registered | .ackedMissing | .refusedLeft | .foreignEntry => .tab
  | .endMixedRemove | .endMidFan | .endSkippedAck | .endF19 | .endSkipped | .endNoLost => .fin

theorem lostClause_src {d : MSlot} {w : What} {s : Seen} {c : Clause} (h : d.lostClause w s = some c) : srcOf c = seenSrc s := by
  simp only [MSlot.lostClause] at h
  split at h
  · simp at h
  · split at h <;> (simp only [Option.some.injEq] at h; rw [← h]; rfl)

theorem cbCheck_some {m : MState} {k : Kind} {ds : List SDelivery} {c : Clause} (h : cbCheck m k ds = some c) :
    (∃ x ∈ ds, cbDeliveryClause m k x = some c) ∨ (c = .twice ∧ ∃ j : Slot, (ds.filter (·.slot == j)).length > 1) := by
  simp only [cbCheck] at h
  have := first_some h
  rcases List.mem_append.1 this with hm | hm
  · obtain ⟨x, hx, e⟩ := List.mem_map.1 hm
    exact Or.inl ⟨x, hx, e⟩
  · simp only [List.mem_singleton] at hm
    split at hm
    · rename_i hd
      simp only [Option.some.injEq] at hm
      right
      refine ⟨hm, ?_⟩
      rw [List.any_eq_true] at hd
      obtain ⟨j, _, hj⟩ := hd
      exact ⟨j, by simpa using hj⟩
    · simp at hm

theorem fsCheck_some {m : MState} {k : Kind} {fan : MFan} {a : Who} {ds : List SDelivery} {c : Clause}
    (h : fsCheck m k fan a ds = some c) :
    (∃ x ∈ ds, fsDeliveryClause m k fan x = some c) ∨
    (c = .fanDropped ∧ ∃ i, a = .slot i ∧ ds = [] ∧ (m.slots i).connected = true ∧ fan.expect.any (·.1 == i) = true) := by
  simp only [fsCheck] at h
  have := first_some h
  rcases List.mem_append.1 this with hm | hm
  · obtain ⟨x, hx, e⟩ := List.mem_map.1 hm
    exact Or.inl ⟨x, hx, e⟩
  · simp only [List.mem_singleton] at hm
    right
    cases a with
    | closed sid => simp at hm
    | slot i =>
      simp only [] at hm
      split at hm
      · rename_i hc
        simp only [Option.some.injEq] at hm
        simp only [Bool.and_eq_true, List.isEmpty_iff] at hc
        exact ⟨hm, i, rfl, hc.1.1, hc.1.2, hc.2⟩
      · simp at hm

theorem cb_src {m : MState} {k : Kind} {ds : List SDelivery} {c : Clause} (h : cbCheck m k ds = some c) : srcOf c = .fan := by
  rcases cbCheck_some h with ⟨x, _, hx⟩ | ⟨e, _⟩
  · rcases cbDeliveryClause_some hx with ⟨e, _⟩ | ⟨e, _⟩ | ⟨e, _⟩ | ⟨e, _⟩ | ⟨e, _⟩ | ⟨e, _⟩ | ⟨e, _⟩ <;> rw [e] <;> rfl
  · rw [e]; rfl

theorem fs_src {m : MState} {k : Kind} {fan : MFan} {a : Who} {ds : List SDelivery} {c : Clause}
    (h : fsCheck m k fan a ds = some c) : srcOf c = .fan := by
  rcases fsCheck_some h with ⟨x, _, hx⟩ | ⟨e, _⟩
  · rcases fsDeliveryClause_some hx with ⟨e, _⟩ | ⟨e, _⟩ | ⟨e, _⟩ | ⟨e, _⟩ | ⟨e, _⟩ | ⟨e, _⟩ | ⟨e, _⟩ | ⟨e, _⟩ <;> rw [e] <;> rfl
  · rw [e]; rfl

theorem ruCheck_some {m : MState} {u v : Nat} {ds : List SDelivery} {c : Clause} (h : ruCheck m u v ds = some c) :
    (∃ i, ruSlotClause m u ds i = some c) ∨ (∃ x ∈ ds, ruDeliveryClause m u v x = some c) := by
  simp only [ruCheck] at h
  have := first_some h
  rcases List.mem_append.1 this with hm | hm
  · obtain ⟨i, _, e⟩ := List.mem_map.1 hm
    exact Or.inl ⟨i, e⟩
  · obtain ⟨x, hx, e⟩ := List.mem_map.1 hm
    exact Or.inr ⟨x, hx, e⟩

theorem ru_src {m : MState} {u v : Nat} {ds : List SDelivery} {c : Clause} (h : ruCheck m u v ds = some c) : srcOf c = .upd := by
  rcases ruCheck_some h with ⟨i, hi⟩ | ⟨x, _, hx⟩
  · simp only [ruSlotClause] at hi
    split at hi
    · split at hi
      · rename_i c' hl
        simp only [Option.some.injEq] at hi
        rw [← hi]; exact lostClause_src hl
      · split at hi <;> (simp only [Option.some.injEq] at hi; rw [← hi]; rfl)
    · split at hi
      · split at hi <;> (simp only [Option.some.injEq] at hi; rw [← hi]; rfl)
      · split at hi
        · simp only [Option.some.injEq] at hi; rw [← hi]; rfl
        · simp at hi
  · simp only [ruDeliveryClause] at hx
    split at hx
    · simp only [Option.some.injEq] at hx; rw [← hx]; rfl
    · split at hx
      · simp only [Option.some.injEq] at hx; rw [← hx]; rfl
      · split at hx
        · simp only [Option.some.injEq] at hx; rw [← hx]; rfl
        · split at hx
          · split at hx
            · simp at hx
            · simp only [Option.some.injEq] at hx; rw [← hx]; rfl
          · simp at hx

theorem checkRet_src {d : MSlot} {key : Key} {v : Nat} {hit : Bool} {sm : Nat} {c : Clause}
    (h : checkRet d key v hit sm = some c) : srcOf c = .cache := by
  simp only [checkRet] at h
  split at h
  · split at h
    · simp only [Option.some.injEq] at h; rw [← h]; rfl
    · split at h <;> (simp only [Option.some.injEq] at h; rw [← h]; rfl)
  · split at h
    · simp only [Option.some.injEq] at h; rw [← h]; rfl
    · simp at h

theorem tbCheck_some {m : MState} {tb : Tables} {c : Clause} (h : tbCheck m tb = some c) :
    (c = .closedMentioned ∧ tbBad m tb = true) ∨ (∃ i, tbMissing m tb i = some c) ∨ (∃ i, tbForeign m tb i = some c) := by
  simp only [tbCheck] at h
  have := first_some h
  rcases List.mem_cons.1 this with hm | hm
  · split at hm
    · rename_i hb; simp only [Option.some.injEq] at hm; exact Or.inl ⟨hm, hb⟩
    · simp at hm
  · rcases List.mem_append.1 hm with hm | hm
    · obtain ⟨i, _, e⟩ := List.mem_map.1 hm; exact Or.inr (Or.inl ⟨i, e⟩)
    · obtain ⟨i, _, e⟩ := List.mem_map.1 hm; exact Or.inr (Or.inr ⟨i, e⟩)

theorem tb_src {m : MState} {tb : Tables} {c : Clause} (h : tbCheck m tb = some c) : srcOf c = .tab := by
  rcases tbCheck_some h with ⟨e, _⟩ | ⟨i, hi⟩ | ⟨i, hi⟩
  · rw [e]; rfl
  · simp only [tbMissing] at hi
    split at hi
    · simp at hi
    · split at hi
      · rename_i c' hf
        simp only [Option.some.injEq] at hi
        rw [← hi]
        have := first_some hf
        rcases List.mem_append.1 this with hm | hm
        · obtain ⟨k, _, e⟩ := List.mem_map.1 hm; exact lostClause_src e
        · obtain ⟨u, _, e⟩ := List.mem_map.1 hm; exact lostClause_src e
      · split at hi
        · simp only [Option.some.injEq] at hi; rw [← hi]; rfl
        · split at hi
          · simp only [Option.some.injEq] at hi; rw [← hi]; rfl
          · split at hi
            · simp only [Option.some.injEq] at hi; rw [← hi]; rfl
            · simp at hi
  · simp only [tbForeign] at hi
    split at hi
    · simp at hi
    · split at hi
      · simp only [Option.some.injEq] at hi; rw [← hi]; rfl
      · split at hi
        · simp only [Option.some.injEq] at hi; rw [← hi]; rfl
        · simp at hi

theorem endCheck_some {m : MState} {c : Clause} (h : endCheck m = some c) : ∃ i, endSlotClause m i = some c := by
  simp only [endCheck] at h
  obtain ⟨i, _, e⟩ := List.mem_map.1 (first_some h)
  exact ⟨i, e⟩

theorem end_src {m : MState} {c : Clause} (h : endCheck m = some c) : srcOf c = .fin := by
  obtain ⟨i, hi⟩ := endCheck_some h
  simp only [endSlotClause] at hi
  split at hi
  · simp at hi
  · split at hi
    · rename_i c' hl
      simp only [Option.some.injEq] at hi
      rw [← hi]
      split at hl
      · exact lostClause_src hl
      · simp at hl
    · split at hi
      · simp only [Option.some.injEq] at hi; rw [← hi]; rfl
      · split at hi
        · simp only [Option.some.injEq] at hi; rw [← hi]; rfl
        · split at hi
          · simp only [Option.some.injEq] at hi; rw [← hi]; rfl
          · split at hi
            · simp only [Option.some.injEq] at hi; rw [← hi]; rfl
            · split at hi <;> (simp only [Option.some.injEq] at hi; rw [← hi]; rfl)

/-! ### the source of a reported clause -/

theorem fan_source {m : MState} {r : Rec} {c : Clause} (h : monCheck m r = some c) (hs : srcOf c = .fan) :
    (∃ k t l ds, r = ⟨.cbrun k, .sent t l⟩ ∧ slotDeliveries l = some ds ∧ cbCheck m k ds = some c) ∨
    (∃ k a t l b fan ds, r = ⟨.fsend k, .fsent a t l b⟩ ∧ m.fans k = some fan ∧ slotDeliveries l = some ds ∧
      fsCheck m k fan a ds = some c) := by
  rcases monCheck_some h with h1 | ⟨_, _, _, _, e⟩ | h3 | ⟨_, _, _, _, _, _, _, h4⟩ | ⟨_, _, _, _, e⟩ | ⟨_, _, _, _, _, _, h6⟩ |
      ⟨_, _, _, _, _, _, e⟩ | ⟨_, _, h8⟩ | ⟨_, _, h9⟩
  · exact Or.inl h1
  · rw [e] at hs; simp [srcOf] at hs
  · exact Or.inr h3
  · rw [ru_src h4] at hs; simp at hs
  · rw [e] at hs; simp [srcOf] at hs
  · rw [checkRet_src h6] at hs; simp at hs
  · rw [e] at hs; simp [srcOf] at hs
  · rw [tb_src h8] at hs; simp at hs
  · rw [end_src h9] at hs; simp at hs

theorem upd_source {m : MState} {r : Rec} {c : Clause} (h : monCheck m r = some c) (hs : srcOf c = .upd) :
    ∃ u v t l ds, r = ⟨.rupdated u v, .sent t l⟩ ∧ slotDeliveries l = some ds ∧ ruCheck (ruContent m v) u v ds = some c := by
  rcases monCheck_some h with ⟨_, _, _, _, _, _, h1⟩ | ⟨_, _, _, _, e⟩ | ⟨_, _, _, _, _, _, _, _, _, _, h3⟩ | h4 | ⟨_, _, _, _, e⟩ |
      ⟨_, _, _, _, _, _, h6⟩ | ⟨_, _, _, _, _, _, e⟩ | ⟨_, _, h8⟩ | ⟨_, _, h9⟩
  · rw [cb_src h1] at hs; simp at hs
  · rw [e] at hs; simp [srcOf] at hs
  · rw [fs_src h3] at hs; simp at hs
  · exact h4
  · rw [e] at hs; simp [srcOf] at hs
  · rw [checkRet_src h6] at hs; simp at hs
  · rw [e] at hs; simp [srcOf] at hs
  · rw [tb_src h8] at hs; simp at hs
  · rw [end_src h9] at hs; simp at hs

theorem cache_source {m : MState} {r : Rec} {c : Clause} (h : monCheck m r = some c) (hs : srcOf c = .cache) :
    (∃ i key mode v hit, r = ⟨.list i key mode, .ret v hit⟩ ∧
      checkRet (m.slots i) key v hit ((m.slots i).maxHandled key) = some c) ∨
    (∃ i key v hit, r = ⟨.fill i key, .ret v hit⟩ ∧ v < (m.slots i).starts key ∧ c = .staleCall) := by
  rcases monCheck_some h with ⟨_, _, _, _, _, _, h1⟩ | ⟨_, _, _, _, e⟩ | ⟨_, _, _, _, _, _, _, _, _, _, h3⟩ | ⟨_, _, _, _, _, _, _, h4⟩ |
      ⟨_, _, _, _, e⟩ | h6 | h7 | ⟨_, _, h8⟩ | ⟨_, _, h9⟩
  · rw [cb_src h1] at hs; simp at hs
  · rw [e] at hs; simp [srcOf] at hs
  · rw [fs_src h3] at hs; simp at hs
  · rw [ru_src h4] at hs; simp at hs
  · rw [e] at hs; simp [srcOf] at hs
  · exact Or.inl h6
  · exact Or.inr h7
  · rw [tb_src h8] at hs; simp at hs
  · rw [end_src h9] at hs; simp at hs

theorem tab_source {m : MState} {r : Rec} {c : Clause} (h : monCheck m r = some c) (hs : srcOf c = .tab) :
    ∃ tb, r = ⟨.tables, .tables tb⟩ ∧ tbCheck m tb = some c := by
  rcases monCheck_some h with ⟨_, _, _, _, _, _, h1⟩ | ⟨_, _, _, _, e⟩ | ⟨_, _, _, _, _, _, _, _, _, _, h3⟩ | ⟨_, _, _, _, _, _, _, h4⟩ |
      ⟨_, _, _, _, e⟩ | ⟨_, _, _, _, _, _, h6⟩ | ⟨_, _, _, _, _, _, e⟩ | h8 | ⟨_, _, h9⟩
  · rw [cb_src h1] at hs; simp at hs
  · rw [e] at hs; simp [srcOf] at hs
  · rw [fs_src h3] at hs; simp at hs
  · rw [ru_src h4] at hs; simp at hs
  · rw [e] at hs; simp [srcOf] at hs
  · rw [checkRet_src h6] at hs; simp at hs
  · rw [e] at hs; simp [srcOf] at hs
  · exact h8
  · rw [end_src h9] at hs; simp at hs

theorem fin_source {m : MState} {r : Rec} {c : Clause} (h : monCheck m r = some c) (hs : srcOf c = .fin) :
    ∃ obs, r = ⟨.fin, obs⟩ ∧ endCheck m = some c := by
  rcases monCheck_some h with ⟨_, _, _, _, _, _, h1⟩ | ⟨_, _, _, _, e⟩ | ⟨_, _, _, _, _, _, _, _, _, _, h3⟩ | ⟨_, _, _, _, _, _, _, h4⟩ |
      ⟨_, _, _, _, e⟩ | ⟨_, _, _, _, _, _, h6⟩ | ⟨_, _, _, _, _, _, e⟩ | ⟨_, _, h8⟩ | h9
  · rw [cb_src h1] at hs; simp at hs
  · rw [e] at hs; simp [srcOf] at hs
  · rw [fs_src h3] at hs; simp at hs
  · rw [ru_src h4] at hs; simp at hs
  · rw [e] at hs; simp [srcOf] at hs
  · rw [checkRet_src h6] at hs; simp at hs
  · rw [e] at hs; simp [srcOf] at hs
  · rw [tb_src h8] at hs; simp at hs
  · exact h9

end Notify.Sound
