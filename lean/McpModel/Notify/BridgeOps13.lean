import McpModel.Notify.BridgeOps12
/-!
# Bridge, part 8b: client calls (`send`, `fill`)
-/
namespace Notify.Bridge
open Notify Notify.Mon Notify.Sys Generated.Notify
variable {seen : List Nat} {y : State} {m : MState}

theorem findIdx_spec {α} (l : List α) (p : α → Bool) (idx : Nat) (h : l.findIdx? p = some idx) :
    ∃ f, l[idx]? = some f ∧ p f = true := by
  rw [List.findIdx?_eq_some_iff_getElem] at h
  obtain ⟨hlt, hp, _⟩ := h
  exact ⟨l[idx], List.getElem?_eq_getElem hlt, hp⟩

theorem map_set_same {α β} (g : α → β) : ∀ (l : List α) (idx : Nat) (a b : α), l[idx]? = some a → g b = g a →
    (l.set idx b).map g = l.map g := by
  intro l
  induction l with
  | nil => intro idx a b h; simp at h
  | cons x t ih =>
    intro idx a b h e
    cases idx with
    | zero =>
      simp only [List.getElem?_cons_zero, Option.some.injEq] at h
      subst h
      simp [e]
    | succ n =>
      simp only [List.getElem?_cons_succ] at h
      simp only [List.set_cons_succ, List.map_cons, ih n a b h e]

theorem mem_set_cases {α} : ∀ (l : List α) (idx : Nat) (b x : α), x ∈ l.set idx b → x = b ∨ x ∈ l := by
  intro l
  induction l with
  | nil => intro idx b x h; simp at h
  | cons a t ih =>
    intro idx b x h
    cases idx with
    | zero =>
      simp only [List.set_cons_zero, List.mem_cons] at h
      rcases h with h | h
      · exact Or.inl h
      · exact Or.inr (List.mem_cons_of_mem _ h)
    | succ n =>
      simp only [List.set_cons_succ, List.mem_cons] at h
      rcases h with h | h
      · exact Or.inr (by rw [h]; exact List.mem_cons_self)
      · rcases ih n b x h with h | h
        · exact Or.inl h
        · exact Or.inr (List.mem_cons_of_mem _ h)

theorem exists_key_iff_mem_map (l : List Cache.Fill) (a : Nat) : (∃ f ∈ l, f.key = a) ↔ a ∈ l.map (·.key) := by
  rw [List.mem_map]

/-- the held call for `key` is answered -/
theorem cacheRel_answer {cur : Key → Nat} {d : DSlot} {md : MSlot} (hc : CacheRel cur d md) (key : Key)
    (c' : Cache.State) (idx : Nat) (fold fnew : Cache.Fill)
    (hget : (d.caches key.obj).fills[idx]? = some fold) (hk : fold.key = key.idx) (hk' : fnew.key = key.idx)
    (hf : c'.fills = (d.caches key.obj).fills.set idx fnew)
    (hm1 : d.modern = true → Cache.Inv c' ∧ c'.srv = (d.caches key.obj).srv ∧ c'.handled = (d.caches key.obj).handled ∧
      c'.inbox = (d.caches key.obj).inbox ∧ c'.entries = (d.caches key.obj).entries ∧ fnew.startMax = fold.startMax)
    (hl1 : d.modern = false → ∀ v ttl, fnew.stage = .responded v ttl → v = cur key) :
    CacheRel cur { (d.setCache key.obj c') with held := d.held } md := by
  have hmap : c'.fills.map (·.key) = (d.caches key.obj).fills.map (·.key) := by
    rw [hf]; exact map_set_same _ _ _ fold fnew hget (by rw [hk, hk'])
  have hfold : fold ∈ (d.caches key.obj).fills := List.mem_of_getElem? hget
  refine cacheRel_call hc key c' d.held ?_ ?_ (fun _ _ => ⟨rfl, rfl, Iff.rfl⟩) ?_ ?_ ?_ rfl ?_
  · intro hm; obtain ⟨b1, b2, b3, b4, _, _⟩ := hm1 hm; exact ⟨b1, b2, b3, b4⟩
  · intro hm key' ho hi
    rw [(hm1 hm).2.2.2.2.1, ← ho]
    exact hc.inval hm key' hi
  · rw [hmap]; exact hc.fill_uniq _
  · intro key' ho
    rw [exists_key_iff_mem_map, hmap, ← exists_key_iff_mem_map, ← ho]
    exact hc.held_fill key'
  · intro hm key' ho f hf' e
    rw [hf] at hf'
    rcases mem_set_cases _ _ _ _ hf' with rfl | hf'
    · have : key' = key := key_ext ho (by rw [← e, hk'])
      subst this
      rw [(hm1 hm).2.2.2.2.2]
      exact hc.starts hm key' fold hfold hk
    · exact hc.starts hm key' f (by rw [ho]; exact hf') e
  · intro hm key' ho f hf' e
    rw [hf] at hf'
    rcases mem_set_cases _ _ _ _ hf' with rfl | hf'
    · have : key' = key := key_ext ho (by rw [← e, hk'])
      subst this
      have := hc.leg_fill hm key' fold hfold hk
      refine ⟨this.1, ?_⟩
      intro v ttl hs
      rw [hl1 hm v ttl hs]
      exact this.1
    · exact hc.leg_fill hm key' f (by rw [ho]; exact hf') e

theorem step_send (h : Rel seen y m) (i : Slot) (key : Key) (hint : Option Who) : StepOk seen y m (.send i key) hint := by
  unfold StepOk
  simp only [sysStep]
  split
  · rename_i idx hfi
    split
    · exact ⟨rfl, h⟩
    · rename_i hg
      simp only [Bool.or_eq_true, not_or, Bool.not_eq_true', Bool.not_eq_false, Bool.not_eq_true] at hg
      have hu : (y.slots i).used = true := by simpa using hg.1
      obtain ⟨fold, hget, hp⟩ := findIdx_spec _ _ _ hfi
      simp only [Bool.and_eq_true, beq_iff_eq] at hp
      split
      · rename_i hmod
        have hmod : (y.slots i).modern = false := by simpa using hmod
        refine ⟨rfl, ?_⟩
        show Rel seen _ m
        have := rel_cache_op h i key ({ (y.slots i).caches key.obj with fills := ((y.slots i).caches key.obj).fills.set idx ⟨key.idx, 0, .responded (curVersion y key) y.ttl, 0⟩ }) (y.slots i).held (m.slots i) (fun hc =>
          cacheRel_answer hc key _ idx fold ⟨key.idx, 0, .responded (curVersion y key) y.ttl, 0⟩ hget hp.1 rfl rfl
            (fun hx => absurd hx (by simp [hmod])) (fun _ v ttl hs => by
              simp only [Cache.Stage.responded.injEq] at hs; exact hs.1.symm)) rfl rfl rfl rfl rfl
        rw [msetSlot_self] at this
        exact this
      · rename_i hmod
        have hmod : (y.slots i).modern = true := by simpa using hmod
        have hcr := h.cache i hu
        have hinv2 := Cache.inv_step _ (.serve idx y.ttl) (hcr.inv hmod key.obj)
        obtain ⟨fnew, hfnew⟩ : ∃ fnew : Cache.Fill, fnew = { fold with stage := .responded (((y.slots i).caches key.obj).srv fold.key) y.ttl } := ⟨_, rfl⟩
        have hsv : Cache.serve ((y.slots i).caches key.obj) idx y.ttl =
            { (y.slots i).caches key.obj with fills := ((y.slots i).caches key.obj).fills.set idx fnew } := by
          simp only [Cache.serve, hget, hp.2, hfnew]
        simp only [Cache.step] at hinv2 ⊢
        rw [hsv] at hinv2 ⊢
        refine ⟨rfl, ?_⟩
        show Rel seen _ m
        have := rel_cache_op h i key _ (y.slots i).held (m.slots i) (fun hc =>
          cacheRel_answer hc key _ idx fold fnew hget hp.1 (by rw [hfnew]; exact hp.1) rfl
            (fun _ => ⟨hinv2, rfl, rfl, rfl, rfl, by rw [hfnew]⟩) (fun hx => absurd hx (by simp [hmod]))) rfl rfl rfl rfl rfl
        rw [msetSlot_self] at this
        exact this
  · exact ⟨rfl, h⟩

/-- the held call for `key` returns -/
theorem cacheRel_return {cur : Key → Nat} {d : DSlot} {md : MSlot} (hc : CacheRel cur d md) (key : Key)
    (c' : Cache.State) (idx : Nat) (fold : Cache.Fill) (v : Nat)
    (hget : (d.caches key.obj).fills[idx]? = some fold) (hk : fold.key = key.idx)
    (hf : c'.fills = (d.caches key.obj).fills.eraseIdx idx)
    (hm1 : d.modern = true → Cache.Inv c' ∧ c'.srv = (d.caches key.obj).srv ∧ c'.handled = (d.caches key.obj).handled ∧
      c'.inbox = (d.caches key.obj).inbox ∧
      (∀ k', k' ≠ key.idx → (d.caches key.obj).entries.lookup k' = none → c'.entries.lookup k' = none)) :
    CacheRel cur { (d.setCache key.obj c') with held := d.held.filter (· != key) } (md.filled key v) := by
  have hnd : (d.caches key.obj).fills.Nodup := nodup_of_map _ _ (hc.fill_uniq _)
  have hfold : fold ∈ (d.caches key.obj).fills := List.mem_of_getElem? hget
  have hgone : ∀ f ∈ c'.fills, f.key ≠ key.idx := by
    intro f hf' e
    rw [hf] at hf'
    have hfm := mem_of_mem_eraseIdx hf'
    have : f = fold := inj_of_nodup_map _ _ (hc.fill_uniq _) f hfm fold hfold (by rw [e, hk])
    rw [this] at hf'
    exact not_mem_eraseIdx_of_nodup _ _ hnd hget hf'
  have hne_of : ∀ key' : Key, key'.obj = key.obj → ∀ f ∈ c'.fills, f.key = key'.idx → key' ≠ key := by
    intro key' _ f hf' e e2
    subst e2
    exact hgone f hf' e
  refine cacheRel_call hc key c' (d.held.filter (· != key)) ?_ ?_ ?_ ?_ ?_ ?_ rfl ?_
  · intro hm; obtain ⟨b1, b2, b3, b4, _⟩ := hm1 hm; exact ⟨b1, b2, b3, b4⟩
  · intro hm key' ho hi
    have hne : key' ≠ key := by
      intro e; subst e; simp [MSlot.filled] at hi
    have hidx : key'.idx ≠ key.idx := fun e => hne (key_ext ho e)
    simp only [MSlot.filled, hne, if_false] at hi
    exact (hm1 hm).2.2.2.2 _ hidx (by rw [← ho]; exact hc.inval hm key' hi)
  · intro key' ho
    have hne : key' ≠ key := fun e => ho (by rw [e])
    refine ⟨by simp only [MSlot.filled, hne, if_false], by simp only [MSlot.filled, hne, if_false], ?_⟩
    simp [hne]
  · rw [hf]
    exact (List.Sublist.map _ (List.eraseIdx_sublist _ idx)).nodup (hc.fill_uniq _)
  · intro key' ho
    constructor
    · intro hx
      obtain ⟨hx1, hx2⟩ := List.mem_filter.1 hx
      have hne : key' ≠ key := by simpa using hx2
      obtain ⟨f, hf', e⟩ := (hc.held_fill key').1 hx1
      rw [ho] at hf'
      refine ⟨f, ?_, e⟩
      rw [hf]
      apply mem_eraseIdx_of_ne _ _ hf' hget
      intro e2
      apply hne
      exact key_ext ho (by rw [← e, e2, hk])
    · rintro ⟨f, hf', e⟩
      have hne := hne_of key' ho f hf' e
      rw [hf] at hf'
      refine List.mem_filter.2 ⟨(hc.held_fill key').2 ⟨f, by rw [ho]; exact mem_of_mem_eraseIdx hf', e⟩, by simpa using hne⟩
  · intro hm key' ho f hf' e
    have hne := hne_of key' ho f hf' e
    rw [hf] at hf'
    simp only [MSlot.filled, hne, if_false]
    exact hc.starts hm key' f (by rw [ho]; exact mem_of_mem_eraseIdx hf') e
  · intro hm key' ho f hf' e
    have hne := hne_of key' ho f hf' e
    rw [hf] at hf'
    simp only [MSlot.filled, hne, if_false]
    exact hc.leg_fill hm key' f (by rw [ho]; exact mem_of_mem_eraseIdx hf') e

theorem step_fill (h : Rel seen y m) (i : Slot) (key : Key) (hint : Option Who) : StepOk seen y m (.fill i key) hint := by
  unfold StepOk
  simp only [sysStep]
  split
  · rename_i idx hfi
    split
    · exact ⟨rfl, h⟩
    · rename_i hg
      simp only [Bool.or_eq_true, not_or, Bool.not_eq_true', Bool.not_eq_false, Bool.not_eq_true] at hg
      have hu : (y.slots i).used = true := by simpa using hg.1
      obtain ⟨fold, hget, hp⟩ := findIdx_spec _ _ _ hfi
      simp only [Bool.and_eq_true, beq_iff_eq, bne_iff_ne, ne_eq] at hp
      have hcr := h.cache i hu
      have hfold : fold ∈ ((y.slots i).caches key.obj).fills := List.mem_of_getElem? hget
      have hgd : ((y.slots i).caches key.obj).fills.getD idx ⟨0, 0, .sent, 0⟩ = fold := by
        rw [List.getD_eq_getElem?_getD, hget]; rfl
      rw [hgd]
      obtain ⟨v, ttl, hst⟩ : ∃ v ttl, fold.stage = .responded v ttl := by
        cases hs : fold.stage with
        | sent => exact absurd hs hp.2
        | responded v ttl => exact ⟨v, ttl, rfl⟩
      simp only [hst]
      split
      · rename_i hmod
        have hmod : (y.slots i).modern = false := by simpa using hmod
        refine ⟨?_, ?_⟩
        · show monCheck m ⟨.fill i key, .ret v false⟩ = none
          simp only [monCheck]
          have := (hcr.leg_fill hmod key fold hfold hp.1).2 v ttl hst
          have hlt : ¬ v < (m.slots i).starts key := by omega
          simp [hlt]
        · show Rel seen _ (m.setSlot i ((m.slots i).filled key v))
          exact rel_cache_op h i key ({ (y.slots i).caches key.obj with fills := ((y.slots i).caches key.obj).fills.eraseIdx idx })
            ((y.slots i).held.filter (· != key)) _ (fun hc =>
            cacheRel_return hc key _ idx fold v hget hp.1 rfl (fun hx => absurd hx (by simp [hmod]))) rfl rfl rfl rfl rfl
      · rename_i hmod
        have hmod : (y.slots i).modern = true := by simpa using hmod
        have hinv := hcr.inv hmod key.obj
        have hinv2 := Cache.inv_step _ (.fill idx) hinv
        refine ⟨?_, ?_⟩
        · show monCheck m ⟨.fill i key, .ret v false⟩ = none
          simp only [monCheck]
          have h1 := (hinv.fill_resp fold hfold v ttl hst).1
          rw [hcr.starts hmod key fold hfold hp.1] at h1
          have hlt : ¬ v < (m.slots i).starts key := by omega
          simp [hlt]
        · show Rel seen _ (m.setSlot i ((m.slots i).filled key v))
          refine rel_cache_op h i key (Cache.step true ((y.slots i).caches key.obj) (.fill idx)).1
            ((y.slots i).held.filter (· != key)) _ (fun hc => ?_) rfl rfl rfl rfl rfl
          refine cacheRel_return hc key _ idx fold v hget hp.1 ?_ (fun _ => ⟨hinv2, ?_, ?_, ?_, ?_⟩)
          · simp only [Cache.step, Cache.fill, hget, hst]
          · simp only [Cache.step, Cache.fill, hget, hst]
          · simp only [Cache.step, Cache.fill, hget, hst]
          · simp only [Cache.step, Cache.fill, hget, hst]
          · intro k' hne hl
            simp only [Cache.step, Cache.fill, hget, hst]
            split
            · rw [hp.1]
              exact lookup_append_single_ne _ _ _ _ hne (lookup_filter_of_none _ _ _ hl)
            · exact hl
  · exact ⟨rfl, h⟩
end Notify.Bridge
