import McpModel.Notify.BridgeOps6
/-!
# Bridge, part 6: `config`, `change`, `advance`
-/
namespace Notify.Bridge
open Notify Notify.Mon Notify.Sys Generated.Notify
variable {seen : List Nat} {y : State} {m : MState}

theorem change_init (s : Server) (hs : s.sessions = []) (f : FSet) (e : Eff) :
    (change s f e).sessions = [] ∧ (change s f e).listens = s.listens ∧ (change s f e).acked = s.acked ∧
    (change s f e).rlive = s.rlive ∧ (change s f e).owed = s.owed ∧ (change s f e).cap = s.cap ∧
    (∀ k, ((change s f e).ks k).inflight = (s.ks k).inflight) := by
  simp only [change]
  split
  · exact ⟨hs, rfl, rfl, rfl, rfl, rfl, fun _ => rfl⟩
  · split
    · exact ⟨hs, rfl, rfl, rfl, rfl, rfl, fun _ => rfl⟩
    · simp only [notifyChange]
      split
      · simp only [arm, bumpVer, hs, if_true, setK]
        refine ⟨?_, ?_, ?_, ?_, ?_, ?_, ?_⟩ <;> first | rfl | trivial | (intro k; split <;> rfl)
      · exact ⟨hs, rfl, rfl, rfl, rfl, rfl, fun _ => rfl⟩

theorem change_ver_add (s : Server) (f : FSet) :
    (change s f .add).ver = (fun f' => if f' = f then s.ver f + 1 else s.ver f') ∧
    (change s f .add).cnt = (fun f' => if f' = f then s.cnt f + 1 else s.cnt f') := by
  simp only [change]
  rw [if_neg (by simp)]
  split
  · exact ⟨rfl, rfl⟩
  · simp only [notifyChange]
    split
    · simp only [arm]
      split
      · exact ⟨rfl, rfl⟩
      · exact ⟨rfl, rfl⟩
    · exact ⟨rfl, rfl⟩

theorem step_config (h : Rel seen y m) (ca cb cc : Cap) (hk : Bool) (hint : Option Who) :
    StepOk seen y m (.config ca cb cc hk) hint := by
  unfold StepOk
  simp only [sysStep]
  refine ⟨rfl, ?_⟩
  show Rel seen _ (freshState ca cb cc)
  generalize hcap : (fun k => match k with | Kind.tools => ca | Kind.prompts => cb | Kind.resources => cc) = cap
  have h0 := change_init (init cap) rfl .resources .add
  have h1 := change_init (change (init cap) .resources .add) h0.1 .resources .add
  have v0 := change_ver_add (init cap) .resources
  have v1 := change_ver_add (change (init cap) .resources .add) .resources
  refine ⟨srvOk_change (srvOk_change (srvOk_init cap) .resources .add) .resources .add, ?_, ?_, ?_, ?_, ?_, ?_, ?_, ?_⟩
  · refine ⟨?_, ?_, ?_, rfl⟩
    · simp only [freshState]; rw [h1.2.2.2.2.2.1, h0.2.2.2.2.2.1, ← hcap]; rfl
    · simp only [freshState]; rw [v1.1, v0.1]; funext f; cases f <;> simp [init]
    · simp only [freshState]; rw [v1.2, v0.2]; funext f; cases f <;> simp [init]
  · simp only []
    rw [h1.1]
    constructor
    · intro i hi; simp at hi
    · intro p hp; simp at hp
    · intro i j hi; simp at hi
    · intro i; rfl
    · intro i hi; simp at hi
    · intro i hi; simp at hi
    · intro i hi; simp at hi
  · constructor
    · intro l hl; simp only [] at hl; rw [h1.2.1, h0.2.1] at hl; simp [init] at hl
    · intro i hi; simp at hi
    · intro i hi; simp at hi
    · intro i hi; simp at hi
    · intro i hi; simp at hi
    · intro i _; exact ⟨rfl, rfl, rfl⟩
  · intro i k hk'; simp [freshState] at hk'
  · constructor
    · intro k hk'
      simp only [] at hk'
      rw [h1.2.2.2.2.2.2, h0.2.2.2.2.2.2] at hk'
      simp [init] at hk'
    · intro k fan hf; simp [freshState] at hf
  · intro i hi; simp at hi
  · constructor
    · intro p hp; simp only [] at hp; rw [h1.1] at hp; simp at hp
    · intro k x hx; simp only [] at hx; rw [h1.2.2.2.2.2.2, h0.2.2.2.2.2.2] at hx; simp [init] at hx
  · intro k hk'
    simp only [] at hk'
    rw [h1.2.2.2.2.2.2, h0.2.2.2.2.2.2] at hk'
    simp [init] at hk'
theorem featureKind_eq (f : FSet) : featureKind f = some (kindOfFSet f) := by cases f <;> rfl

theorem change_eff (s : Server) (f : FSet) (e : Eff) (he : ¬(e = .noop ∨ (e = .remove ∧ s.cnt f = 0))) :
    (change s f e).cap = s.cap ∧
    (change s f e).ver = (bumpVer s f e).ver ∧
    (change s f e).cnt = (bumpVer s f e).cnt ∧
    (change s f e).sessions = s.sessions ∧ (change s f e).listens = s.listens ∧ (change s f e).acked = s.acked ∧
    (change s f e).rlive = s.rlive ∧ (∀ k, ((change s f e).ks k).inflight = (s.ks k).inflight) ∧
    (change s f e).owed = if gateSend s (kindOfFSet f) = true ∧ s.sessions ≠ [] then
      s.owed ++ s.sessions.map (fun p => (p.1, kindOfFSet f)) else s.owed := by
  unfold change
  rw [if_neg he]
  simp only [featureKind_eq, notifyChange]
  have hg : gateSend (bumpVer s f e) (kindOfFSet f) = gateSend s (kindOfFSet f) := rfl
  rw [hg]
  by_cases hgs : gateSend s (kindOfFSet f) = true
  · simp only [hgs, if_true, arm]
    by_cases hss : s.sessions = []
    · have : (bumpVer s f e).sessions = [] := hss
      simp only [this, if_true, hss]
      refine ⟨rfl, rfl, rfl, ?_, rfl, rfl, rfl, ?_, ?_⟩
      · exact hss
      · intro k; simp only [setK]; split <;> rfl
      · rfl
    · have : (bumpVer s f e).sessions ≠ [] := hss
      simp only [this, if_false, hss]
      refine ⟨rfl, rfl, rfl, rfl, rfl, rfl, rfl, ?_, ?_⟩
      · intro k; simp only [setK]; split <;> rfl
      · simp [bumpVer]
  · simp only [hgs]
    refine ⟨rfl, rfl, rfl, rfl, rfl, rfl, rfl, fun _ => rfl, ?_⟩
    simp [bumpVer]

theorem obj_eq_cache {key : Key} {f : FSet} : key.obj = f.cache ↔ key = .list f := by
  cases key with
  | list g => cases g <;> cases f <;> simp [Key.obj, FSet.cache]
  | read u => cases f <;> simp [Key.obj, FSet.cache]

theorem setCache_caches (d : DSlot) (o o' : CacheObj) (c : Cache.State) :
    (d.setCache o c).caches o' = if o' = o then c else d.caches o' := rfl

/-- a server-side change of the feature set `f` against the caches of one slot -/
theorem cacheRel_bump {cur cur' : Key → Nat} {d : DSlot} {md : MSlot} (f : FSet) (h : CacheRel cur d md)
    (hcur : ∀ key, cur' key = if key = .list f then cur key + 1 else cur key) :
    CacheRel cur' (if d.modern = true then d.setCache f.cache (Cache.step true (d.caches f.cache) (.bump (fun _ => true))).1 else d) md := by
  have hmono : ∀ key, cur key ≤ cur' key := by
    intro key; rw [hcur]; split <;> omega
  by_cases hm : d.modern = true
  · simp only [hm, if_true]
    have hmod : (d.setCache f.cache (Cache.step true (d.caches f.cache) (.bump (fun _ => true))).1).modern = true := hm
    constructor
    · intro _ o
      rw [setCache_caches]; split
      · rename_i e; subst e; exact Cache.inv_step _ _ (h.inv hm _)
      · exact h.inv hm o
    · intro _ key
      rw [setCache_caches, hcur]
      by_cases e : key.obj = f.cache
      · have := obj_eq_cache.1 e
        subst this
        simp only [if_true, Cache.step]
        rw [← h.srv hm (.list f)]
        simp [Key.obj]
      · have : key ≠ .list f := fun e2 => e (obj_eq_cache.2 e2)
        simp only [e, this, if_false]
        exact h.srv hm key
    · intro _ key
      rw [setCache_caches]; split
      · rename_i e; rw [← h.handled hm key, e]; rfl
      · exact h.handled hm key
    · intro _ key hk
      rw [setCache_caches]; split
      · rename_i e; have := h.inval hm key hk; rw [e] at this; exact this
      · exact h.inval hm key hk
    · intro _ o
      rw [setCache_caches]; split
      · rename_i e; subst e; exact h.inbox hm _
      · exact h.inbox hm o
    · intro key
      rw [setCache_caches]; split
      · rename_i e; have := h.held_fill key; rw [e] at this; exact this
      · exact h.held_fill key
    · intro o
      rw [setCache_caches]; split
      · rename_i e; subst e; exact h.fill_uniq _
      · exact h.fill_uniq o
    · intro _ key fl hfl
      rw [setCache_caches] at hfl; split at hfl
      · rename_i e; have := h.starts hm key fl; rw [e] at this; exact this hfl
      · exact h.starts hm key fl hfl
    · intro key; exact Nat.le_trans (h.maxH_le key) (hmono key)
    · intro hl; rw [hmod] at hl; exact absurd hl (by simp)
  · simp only [hm, if_false]
    have hm' : d.modern = false := by simpa using hm
    constructor
    · intro hx; exact absurd hx hm
    · intro hx; exact absurd hx hm
    · intro hx; exact absurd hx hm
    · intro hx; exact absurd hx hm
    · intro hx; exact absurd hx hm
    · exact h.held_fill
    · exact h.fill_uniq
    · intro hx; exact absurd hx hm
    · intro key; exact Nat.le_trans (h.maxH_le key) (hmono key)
    · intro _ key fl hfl he
      have := h.leg_fill hm' key fl hfl he
      exact ⟨Nat.le_trans this.1 (hmono key), this.2⟩

theorem cacheAll_slots (y : State) (o : CacheObj) (l : Cache.Label) (i : Slot) :
    (y.cacheAll o l).slots i =
      if ((y.slots i).used && (y.slots i).modern) = true then (y.slots i).setCache o (Cache.step true ((y.slots i).caches o) l).1
      else y.slots i := rfl

theorem cacheAll_frame (y : State) (o : CacheObj) (l : Cache.Label) (i : Slot) :
    ((y.cacheAll o l).slots i).used = (y.slots i).used ∧ ((y.cacheAll o l).slots i).sid = (y.slots i).sid ∧
    ((y.cacheAll o l).slots i).modern = (y.slots i).modern ∧ ((y.cacheAll o l).slots i).connected = (y.slots i).connected ∧
    ((y.cacheAll o l).slots i).gated = (y.slots i).gated ∧ ((y.cacheAll o l).slots i).rsubs = (y.slots i).rsubs ∧
    ((y.cacheAll o l).slots i).cancelHeld = (y.slots i).cancelHeld ∧ ((y.cacheAll o l).slots i).held = (y.slots i).held := by
  rw [cacheAll_slots]; split <;> exact ⟨rfl, rfl, rfl, rfl, rfl, rfl, rfl, rfl⟩

theorem gateSend_cap (s : Server) (k : Kind) : gateSend s k = (s.cap k != .off) := by
  simp [gateSend, sendGate_diag]

theorem changeSlot_frame (k : Kind) (b mx : Bool) (d : MSlot) :
    (changeSlot k b mx d).connected = d.connected ∧ (changeSlot k b mx d).modern = d.modern ∧
    (changeSlot k b mx d).listens = d.listens ∧ (changeSlot k b mx d).luris = d.luris ∧
    (changeSlot k b mx d).maxHandled = d.maxHandled ∧ (changeSlot k b mx d).invalidated = d.invalidated ∧
    (changeSlot k b mx d).starts = d.starts ∧
    (changeSlot k b mx d).owed = if (d.connected && !d.owed.contains k) = true then d.owed ++ [k] else d.owed := by
  simp only [changeSlot]
  generalize (if mx = true then addNew d.rmMixed k else d.rmMixed.filter (· != k)) = rm
  split <;> split <;> simp_all


theorem step_change (h : Rel seen y m) (f : FSet) (e : Eff) (hint : Option Who) : StepOk seen y m (.change f e) hint := by
  unfold StepOk
  simp only [sysStep]
  refine ⟨rfl, ?_⟩
  show Rel seen _ (monChange m f e)
  by_cases he : (e = .noop ∨ (e = .remove ∧ y.srv.cnt f = 0))
  · have heb : (e == .noop || (e == .remove && y.srv.cnt f == 0)) = true := by
      rcases he with rfl | ⟨rfl, h0⟩
      · simp
      · simp [h0]
    have hsrv : change y.srv f e = y.srv := by simp only [change, he, if_true]
    have hmon : monChange m f e = m := by
      simp only [monChange]; rw [if_pos (by rw [h.g.cnt]; exact heb)]
    simp only [heb, hsrv, hmon]
    exact h
  · have heb : (e == .noop || (e == .remove && y.srv.cnt f == 0)) = false := by
      cases hx : (e == .noop || (e == .remove && y.srv.cnt f == 0))
      · rfl
      · exfalso; apply he
        simp only [Bool.or_eq_true, beq_iff_eq, Bool.and_eq_true] at hx
        exact hx
    obtain ⟨c1, c2, c3, c4, c5, c6, c7, c8, c9⟩ := change_eff y.srv f e he
    simp only [heb, Bool.not_false, if_true]
    have hk := featureKind_eq f
    -- the monitor's next state
    have hmon : monChange m f e =
        if m.cap (kindOfFSet f) == .off then
          { m with ver := bumpV m.ver f, cnt := bumpC m.cnt f e }
        else
          { m with ver := bumpV m.ver f, cnt := bumpC m.cnt f e,
                   slots := fun i => changeSlot (kindOfFSet f) ((servedMidOf m.fans (kindOfFSet f)).contains i) (mixedOf e) (m.slots i) } := by
      simp only [monChange]
      rw [if_neg (by rw [h.g.cnt, heb]; decide)]
    have hver : bumpV m.ver f = (bumpVer y.srv f e).ver := by
      funext f'; simp only [bumpV, bumpVer, h.g.ver]; by_cases e1 : f' = f <;> simp [e1]
    have hcnt : bumpC m.cnt f e = (bumpVer y.srv f e).cnt := by
      funext f'; simp only [bumpC, bumpVer, h.g.cnt]
      by_cases e1 : f' = f
      · simp [e1]; cases e <;> rfl
      · simp [e1]
    have hcur : ∀ key, curVersion (({ y with srv := change y.srv f e } : State).cacheAll f.cache (.bump fun _ => true)) key =
        if key = .list f then curVersion y key + 1 else curVersion y key := by
      intro key
      show curVersionObj _ key.obj key.idx = _
      cases key with
      | list g =>
        simp only [curVersion, curVersionObj, Key.obj, Key.idx]
        have : objFSet g.cache = some g := by cases g <;> rfl
        simp only [this]
        show (change y.srv f e).ver g = _
        rw [c2]
        simp only [bumpVer]
        by_cases e1 : g = f
        · subst e1; simp
        · simp [e1]
      | read u =>
        simp only [curVersion, curVersionObj, Key.obj, Key.idx, objFSet]
        simp
        rfl
    -- the parts that do not depend on the capability switch
    have hsess : ∀ ms', (∀ i, (ms' i).connected = (m.slots i).connected) → (∀ i, (ms' i).modern = (m.slots i).modern) →
        RelSess (change y.srv f e).sessions (({ y with srv := change y.srv f e } : State).cacheAll f.cache (.bump fun _ => true)).slots ms' := by
      intro ms' m1 m2
      rw [c4]
      exact h.sess.congr (fun i => (cacheAll_frame _ _ _ i).1) (fun i => (cacheAll_frame _ _ _ i).2.1)
        (fun i => (cacheAll_frame _ _ _ i).2.2.1) (fun i => (cacheAll_frame _ _ _ i).2.2.2.1)
        (fun i => (cacheAll_frame _ _ _ i).2.2.2.2.1) m1 m2
    have hlis : ∀ ms', (∀ i, (ms' i).listens = (m.slots i).listens) → (∀ i, (ms' i).luris = (m.slots i).luris) →
        (∀ i, (y.slots i).used = false → (ms' i).owed = []) →
        RelListen (change y.srv f e) (({ y with srv := change y.srv f e } : State).cacheAll f.cache (.bump fun _ => true)).slots ms' := by
      intro ms' m1 m2 m3
      have e1 := fun i => (cacheAll_frame ({ y with srv := change y.srv f e } : State) f.cache (.bump fun _ => true) i).1
      have e2 := fun i => (cacheAll_frame ({ y with srv := change y.srv f e } : State) f.cache (.bump fun _ => true) i).2.1
      have e3 := fun i => (cacheAll_frame ({ y with srv := change y.srv f e } : State) f.cache (.bump fun _ => true) i).2.2.1
      have e5 := fun i => (cacheAll_frame ({ y with srv := change y.srv f e } : State) f.cache (.bump fun _ => true) i).2.2.2.2.1
      have e6 := fun i => (cacheAll_frame ({ y with srv := change y.srv f e } : State) f.cache (.bump fun _ => true) i).2.2.2.2.2.1
      have e7 := fun i => (cacheAll_frame ({ y with srv := change y.srv f e } : State) f.cache (.bump fun _ => true) i).2.2.2.2.2.2.1
      constructor
      · rw [c5, c6]; exact h.lis.all_acked
      · intro i hu ml; rw [e1] at hu; rw [c5, m1, e2]; exact h.lis.listens i hu ml
      · intro i hu hm u; rw [e1] at hu; rw [e3] at hm; rw [c7, m2, e2]; exact h.lis.luris i hu hm u
      · intro i hu u hl; rw [e1] at hu; rw [c5, e2] at hl; rw [e6, e7]; exact h.lis.sub_live i hu u hl
      · intro i hu hg; rw [e1] at hu; rw [e5] at hg; rw [c5, e2]; exact h.lis.gated_none i hu hg
      · intro i hu; rw [e1] at hu
        have := h.lis.idle i hu
        exact ⟨by rw [m1]; exact this.listens, by rw [m2]; exact this.luris, m3 i hu⟩
    have hfan : RelFan (fun k => ((change y.srv f e).ks k).inflight)
        (({ y with srv := change y.srv f e } : State).cacheAll f.cache (.bump fun _ => true)).slots m.fans := by
      have : (fun k => ((change y.srv f e).ks k).inflight) = fun k => (y.srv.ks k).inflight := funext c8
      rw [this]
      exact h.fan.congr (fun i => (cacheAll_frame _ _ _ i).1) (fun i => (cacheAll_frame _ _ _ i).2.1)
        (fun i => (cacheAll_frame _ _ _ i).2.2.1)
    have hcache : ∀ ms', (∀ i, (ms' i).maxHandled = (m.slots i).maxHandled) → (∀ i, (ms' i).invalidated = (m.slots i).invalidated) →
        (∀ i, (ms' i).starts = (m.slots i).starts) →
        RelCache (curVersion (({ y with srv := change y.srv f e } : State).cacheAll f.cache (.bump fun _ => true)))
          (({ y with srv := change y.srv f e } : State).cacheAll f.cache (.bump fun _ => true)).slots ms' := by
      intro ms' m1 m2 m3 i hu
      rw [(cacheAll_frame _ _ _ i).1] at hu
      have hu' : (y.slots i).used = true := hu
      have := cacheRel_bump f (h.cache i hu') hcur
      rw [cacheAll_slots]
      simp only [hu', Bool.true_and]
      exact this.congr rfl rfl rfl (m1 i) (m2 i) (m3 i)
    have hseen : RelSeen seen (change y.srv f e) := by
      constructor
      · rw [c4]; exact h.seen.sess
      · intro k; rw [c8]; exact h.seen.infl k
    have hgate : ∀ k, ((change y.srv f e).ks k).inflight ≠ [] → gateSend (change y.srv f e) k = true := by
      intro k hk'
      rw [c8] at hk'
      have := h.gate k hk'
      simp only [gateSend, c1] at this ⊢
      exact this
    rw [hmon]
    by_cases hoff : (m.cap (kindOfFSet f) == .off) = true
    · rw [if_pos hoff]
      have hg : gateSend y.srv (kindOfFSet f) = false := by
        rw [gateSend_cap, ← h.g.cap]
        simp only [beq_iff_eq] at hoff
        simp [hoff]
      refine ⟨srvOk_change h.srvOk f e, ⟨by show m.cap = (change y.srv f e).cap; rw [c1]; exact h.g.cap, by show _ = (change y.srv f e).ver; rw [c2]; exact hver,
          by show _ = (change y.srv f e).cnt; rw [c3]; exact hcnt, h.g.content⟩,
        hsess _ (fun _ => rfl) (fun _ => rfl), hlis _ (fun _ => rfl) (fun _ => rfl) (fun i hi => (h.lis.idle i hi).owed), ?_, hfan,
        hcache _ (fun _ => rfl) (fun _ => rfl) (fun _ => rfl), hseen, hgate⟩
      have : (fun k => ((change y.srv f e).ks k).inflight) = fun k => (y.srv.ks k).inflight := funext c8
      show RelOwed (change y.srv f e).owed (fun k => ((change y.srv f e).ks k).inflight) _ m.slots
      rw [this, c9, hg]
      simp only [Bool.false_eq_true, false_and, if_false]
      exact h.owed.congr (fun i => (cacheAll_frame _ _ _ i).1) (fun i => (cacheAll_frame _ _ _ i).2.1) (fun _ => rfl)
    · rw [if_neg hoff]
      have hg : gateSend y.srv (kindOfFSet f) = true := by
        rw [gateSend_cap, ← h.g.cap]
        simpa using hoff
      refine ⟨srvOk_change h.srvOk f e, ⟨by show m.cap = (change y.srv f e).cap; rw [c1]; exact h.g.cap, by show _ = (change y.srv f e).ver; rw [c2]; exact hver,
          by show _ = (change y.srv f e).cnt; rw [c3]; exact hcnt, h.g.content⟩,
        hsess _ (fun i => (changeSlot_frame _ _ _ _).1) (fun i => (changeSlot_frame _ _ _ _).2.1),
        hlis _ (fun i => (changeSlot_frame _ _ _ _).2.2.1) (fun i => (changeSlot_frame _ _ _ _).2.2.2.1) ?_, ?_, hfan,
        hcache _ (fun i => (changeSlot_frame _ _ _ _).2.2.2.2.1) (fun i => (changeSlot_frame _ _ _ _).2.2.2.2.2.1)
          (fun i => (changeSlot_frame _ _ _ _).2.2.2.2.2.2.1), hseen, hgate⟩
      · intro i hi
        rw [(changeSlot_frame _ _ _ _).2.2.2.2.2.2.2]
        have hc : (m.slots i).connected = false := by rw [h.sess.conn i]; exact hi
        simp only [hc, Bool.false_and, Bool.false_eq_true, if_false]
        exact (h.lis.idle i hi).owed
      · have : (fun k => ((change y.srv f e).ks k).inflight) = fun k => (y.srv.ks k).inflight := funext c8
        show RelOwed (change y.srv f e).owed (fun k => ((change y.srv f e).ks k).inflight) _ _
        rw [this, c9]
        intro i k hk'
        rw [(changeSlot_frame _ _ _ _).2.2.2.2.2.2.2] at hk'
        rw [(cacheAll_frame _ _ _ i).1, (cacheAll_frame _ _ _ i).2.1]
        have hold : k ∈ (m.slots i).owed → (y.slots i).used = true ∧ (((y.slots i).sid, k) ∈
            (if gateSend y.srv (kindOfFSet f) = true ∧ y.srv.sessions ≠ [] then
              y.srv.owed ++ y.srv.sessions.map (fun p => (p.1, kindOfFSet f)) else y.srv.owed) ∨
            ∃ x ∈ (y.srv.ks k).inflight, x.sid = (y.slots i).sid) := by
          intro hk0
          obtain ⟨h1, h2⟩ := h.owed i k hk0
          refine ⟨h1, ?_⟩
          rcases h2 with h2 | h2
          · left; split
            · exact List.mem_append_left _ h2
            · exact h2
          · exact Or.inr h2
        split at hk'
        · rename_i hc
          simp only [Bool.and_eq_true] at hc
          rcases List.mem_append.1 hk' with hk0 | hk0
          · exact hold hk0
          · have hkk : k = kindOfFSet f := by simpa using hk0
            have hu : (y.slots i).used = true := by rw [← h.sess.conn i]; exact hc.1
            refine ⟨hu, Or.inl ?_⟩
            have hmem := h.sess.used_sess i hu
            have hne : y.srv.sessions ≠ [] := List.ne_nil_of_mem hmem
            simp only [hg, hne, ne_eq, not_false_eq_true, and_self, if_true]
            refine List.mem_append_right _ (List.mem_map.2 ⟨_, hmem, ?_⟩)
            rw [hkk]
        · exact hold hk'

/-- everything the relation reads of the server is the same (timers and the clock may differ) -/
structure SameAll (s s' : Server) : Prop where
  rest : SameRest s s'
  listens : s'.listens = s.listens
  acked : s'.acked = s.acked
  rlive : s'.rlive = s.rlive

theorem SameAll.refl (s : Server) : SameAll s s := ⟨SameRest.refl s, rfl, rfl, rfl⟩
theorem SameAll.trans {a b c : Server} (h1 : SameAll a b) (h2 : SameAll b c) : SameAll a c :=
  ⟨h1.rest.trans h2.rest, h2.listens.trans h1.listens, h2.acked.trans h1.acked, h2.rlive.trans h1.rlive⟩

theorem sameAll_setK (s : Server) (k : Kind) (f : KState → KState) (hf : ∀ st, (f st).inflight = st.inflight) :
    SameAll s (setK s k f) := by
  refine ⟨⟨rfl, rfl, rfl, rfl, rfl, ?_⟩, rfl, rfl, rfl⟩
  intro k'; simp only [setK]; split
  · exact hf _
  · rfl

theorem sameAll_fireTracked (s : Server) (k : Kind) : SameAll s (fireTracked s k) := by
  simp only [fireTracked]; split
  · split
    · exact sameAll_setK _ _ _ (fun _ => rfl)
    · exact SameAll.refl s
  · exact SameAll.refl s

theorem sameAll_fireOrphan (s : Server) (k : Kind) (i : Nat) : SameAll s (fireOrphan s k i) := by
  simp only [fireOrphan]; split
  · split
    · exact sameAll_setK _ _ _ (fun _ => rfl)
    · exact SameAll.refl s
  · exact SameAll.refl s

theorem sameAll_fireOrphansDue (k : Kind) (fuel : Nat) : ∀ (s : Server) (acc : List Nat),
    SameAll s (fireOrphansDue k fuel s acc).1 := by
  induction fuel with
  | zero => intro s acc; exact SameAll.refl s
  | succ n ih =>
    intro s acc
    simp only [fireOrphansDue]
    split
    · exact (sameAll_fireOrphan s k _).trans (ih _ _)
    · exact SameAll.refl s

theorem sameAll_fireDue (s : Server) : SameAll s (fireDue s).1 := by
  unfold fireDue
  have : ∀ (l : List Kind) (acc : Server × List (Kind × Nat)), SameAll s acc.1 →
      SameAll s (l.foldl (fun (acc : Server × List (Kind × Nat)) k =>
        let s := acc.1
        let (s, f1) := match (s.ks k).tracked with
          | some (some d) => if d ≤ s.now then (fireTracked s k, [(k, d)]) else (s, [])
          | _ => (s, [])
        let (s, f2) := fireOrphansDue k ((s.ks k).orphans.length) s []
        (s, acc.2 ++ f1 ++ f2.map (fun d => (k, d)))) acc).1 := by
    intro l
    induction l with
    | nil => intro acc h; exact h
    | cons k t ih =>
      intro acc h
      simp only [List.foldl_cons]
      apply ih
      simp only []
      split
      · split
        · exact (h.trans (sameAll_fireTracked _ k)).trans (sameAll_fireOrphansDue k _ _ _)
        · exact h.trans (sameAll_fireOrphansDue k _ _ _)
      · exact h.trans (sameAll_fireOrphansDue k _ _ _)
  exact this _ _ (SameAll.refl s)

/-- slot `i` differs at most in the clocks of its caches -/
def TickRel (d d' : DSlot) : Prop :=
  d'.used = d.used ∧ d'.sid = d.sid ∧ d'.modern = d.modern ∧ d'.connected = d.connected ∧ d'.gated = d.gated ∧
  d'.rsubs = d.rsubs ∧ d'.cancelHeld = d.cancelHeld ∧ d'.held = d.held ∧
  (∀ o, ∃ n, d'.caches o = { d.caches o with now := n })

theorem TickRel.refl (d : DSlot) : TickRel d d := ⟨rfl, rfl, rfl, rfl, rfl, rfl, rfl, rfl, fun _ => ⟨_, rfl⟩⟩

theorem TickRel.trans {a b c : DSlot} (h1 : TickRel a b) (h2 : TickRel b c) : TickRel a c := by
  obtain ⟨a1, a2, a3, a4, a5, a6, a7, a8, a9⟩ := h1
  obtain ⟨b1, b2, b3, b4, b5, b6, b7, b8, b9⟩ := h2
  refine ⟨b1.trans a1, b2.trans a2, b3.trans a3, b4.trans a4, b5.trans a5, b6.trans a6, b7.trans a7, b8.trans a8, ?_⟩
  intro o
  obtain ⟨n1, e1⟩ := a9 o
  obtain ⟨n2, e2⟩ := b9 o
  exact ⟨n2, by rw [e2, e1]⟩

theorem tickRel_cacheAll (y : State) (o : CacheObj) (dt : Nat) (i : Slot) :
    TickRel (y.slots i) ((y.cacheAll o (.tick dt)).slots i) := by
  rw [cacheAll_slots]
  split
  · refine ⟨rfl, rfl, rfl, rfl, rfl, rfl, rfl, rfl, ?_⟩
    intro o'
    rw [setCache_caches]
    split
    · rename_i e; subst e; exact ⟨_, rfl⟩
    · exact ⟨_, rfl⟩
  · exact TickRel.refl _

theorem tickRel_tickAll (y : State) (dt : Nat) (i : Slot) : TickRel (y.slots i) ((y.tickAll dt).slots i) := by
  unfold State.tickAll
  generalize CacheObj.all = l
  induction l generalizing y with
  | nil => exact TickRel.refl _
  | cons o t ih =>
    simp only [List.foldl_cons]
    exact (tickRel_cacheAll y o dt i).trans (ih _)

theorem tickAll_srv (y : State) (dt : Nat) : (y.tickAll dt).srv = y.srv ∧ (y.tickAll dt).content = y.content ∧
    (y.tickAll dt).hook = y.hook := by
  unfold State.tickAll
  generalize CacheObj.all = l
  induction l generalizing y with
  | nil => exact ⟨rfl, rfl, rfl⟩
  | cons o t ih =>
    simp only [List.foldl_cons]
    have := ih (y.cacheAll o (.tick dt))
    exact ⟨this.1.trans rfl, this.2.1.trans rfl, this.2.2.trans rfl⟩

theorem step_advance (h : Rel seen y m) (d : Nat) (hint : Option Who) : StepOk seen y m (.advance d) hint := by
  unfold StepOk
  simp only [sysStep]
  have hm : ∀ o, monNext m ⟨.advance d, o⟩ = m := fun _ => rfl
  have hc : ∀ o, monCheck m ⟨.advance d, o⟩ = none := fun _ => rfl
  refine ⟨hc _, ?_⟩
  rw [hm]
  show Rel seen _ m
  obtain ⟨y1, hy1⟩ : ∃ y1, y1 = ({ y with srv := { y.srv with now := y.srv.now + d } } : State).tickAll d := ⟨_, rfl⟩
  have hs1 := tickAll_srv ({ y with srv := { y.srv with now := y.srv.now + d } } : State) d
  rw [← hy1] at hs1
  have hT : ∀ i, TickRel (y.slots i) (y1.slots i) := by
    intro i; rw [hy1]; exact tickRel_tickAll _ d i
  obtain ⟨fd, hfd⟩ : ∃ fd, fd = fireDue y1.srv := ⟨_, rfl⟩
  have hall : SameAll y.srv fd.1 := by
    have h0 : SameAll y.srv y1.srv := by
      rw [hs1.1]; exact ⟨⟨rfl, rfl, rfl, rfl, rfl, fun _ => rfl⟩, rfl, rfl, rfl⟩
    rw [hfd]
    exact h0.trans (sameAll_fireDue _)
  have hok : SrvOk fd.1 := by
    rw [hfd]
    apply srvOk_fireDue
    rw [hs1.1]
    exact srvOk_tick h.srvOk d
  have hlis : RelListen fd.1 y1.slots m.slots := by
    have := h.lis.congr (slots' := y1.slots) (ms' := m.slots) (fun i => (hT i).1) (fun i => (hT i).2.1) (fun i => (hT i).2.2.1)
      (fun i u hx => by rw [(hT i).2.2.2.2.2.1, (hT i).2.2.2.2.2.2.1]; exact hx) (fun i => (hT i).2.2.2.2.1)
      (fun _ => rfl) (fun _ => rfl) (fun _ hx => hx)
    exact ⟨by rw [hall.listens, hall.acked]; exact this.all_acked,
      by rw [hall.listens]; exact this.listens, by rw [hall.rlive]; exact this.luris,
      by rw [hall.listens]; exact this.sub_live, by rw [hall.listens]; exact this.gated_none, this.idle⟩
  have key : Rel seen { y1 with srv := fd.1 } m := by
    refine h.listen_frame (y' := { y1 with srv := fd.1 }) (m' := m) hok hall.rest hs1.2.1
      (fun i => (hT i).1) (fun i => (hT i).2.1) (fun i => (hT i).2.2.1) ?_ ?_ ?_ (fun _ => rfl) (fun _ => rfl) (fun _ => rfl)
      rfl rfl rfl rfl rfl hlis
    · intro j hj
      show (y1.slots j).connected = !(y1.slots j).gated
      rw [(hT j).2.2.2.1, (hT j).2.2.2.2.1]
      exact h.sess.gated j (by rw [← (hT j).1]; exact hj)
    · intro j hj hg
      show (y1.slots j).modern = true
      rw [(hT j).2.2.1]
      exact h.sess.gated_modern j (by rw [← (hT j).1]; exact hj) (by rw [← (hT j).2.2.2.2.1]; exact hg)
    · intro j hj hcr
      exact hcr.now (hT j).2.2.1 (hT j).2.2.2.2.2.2.2.1 (hT j).2.2.2.2.2.2.2.2 rfl rfl rfl
  rw [← hy1, ← hfd]
  split <;> exact key


end Notify.Bridge
